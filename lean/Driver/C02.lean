import SkyllhModel.Proto
import SkyllhModel.Model.LLH
import SkyllhModel.Model.Grad
import SkyllhModel.Model.ParamLayout
import SkyllhModel.Model.GradState
import SkyllhModel.Model.GradMapR7
open Proto LLH Grad ParamLayout

/-  requests (floats as IEEE bit patterns, ints decimal):
      layout <L> <K> <nNames>
          L = `;`-separated global parameters, each `<fixed 0|1>:<per-source ints: 0 unmapped, n+1 = local name n>`
          -> wf:<0|1> nfl:<n_floating> fl:<floatingIdxs> gp:<K*nNames ints> gpp:<same, pinned rule> ok:<keys in range 0|1> okp:<…pinned>
      lval <L> <K> <nNames> <theta> <fixed values>   -> K*nNames local parameter values (`n` = NaN / unmapped)
      evt <opa> <ns> <X> <dX>            -> <logLambdaI> <nsGradI> <pGradI>
      sob <sigDep> <bkgDep> <s> <b> <ds> <db>   -> <grad>
      prod <dep1> <dep2> <r1> <r2> <dr1> <dr2>  -> <grad>
      stateful (one MultiDatasetTCLLHRatio object, Model/GradState.lean):
      hreset <J>                          -> ok            fresh object with J datasets
      hnew <N,nSel;N,nSel;…>              -> ok            new pseudo-data trial
      heval <opa> <ns> <f: J> <X_1;X_2;…> -> ok            successful evaluate (X_j: list of floats, `-` empty)
      hfail <f: J>                        -> ok            evaluate raising inside the first single llh ratio
      hgrad2 <ns>                         -> <value> | ERR:<noWeights|notEvaluated>
      stack <opa> <ns> <nFit> <nsIdx> <K> <gp: K*2 ints> <W: K> <J> then per dataset:
            <N> <parA 0|1> <parB 0|1> <Y: K> <dY: K*2> <nSel> <leaves: nSel*K*4 = rA,rB,dA,dB>
          -> <value> <grads> <nsgrad2>
      round 7 (Model/GradMapR7.lean):
      vmask <nSrc> <src_mask bits> <src idx per value>      -> <code form bits | ERR> <spec form bits>
      igrad <nSrc> <src idx per value> <p> then per local parameter <gpidx column | x> <grads>
          -> <i3Gradient | ERR> <contributes 0|1> <branch of every iteration that is reached>
      sgrads <nSrc> <src idx per value> <nFit> then per local parameter <gpidx column | x> <grads>
          -> `|`-separated <key>=<grad> of the dictionary of SignalMultiDimGridPDFSet.get_pd | ERR
      ygrad <gpidx column> <accept bits> <exp(log spline): K> <dlog: K>
          -> <values> <keys> <`|`-separated rows> <`|`-separated spec rows for p = 0..max key+1>
-/

def chunks {α} (n : Nat) (xs : List α) : List (List α) :=
  if n == 0 then [] else
  let rec go (fuel : Nat) (xs : List α) (acc : List (List α)) : List (List α) :=
    match fuel with
    | 0 => acc.reverse
    | fuel + 1 => if xs.isEmpty then acc.reverse else go fuel (xs.drop n) (xs.take n :: acc)
  go (xs.length + 1) xs []

def isNat (s : String) : Bool := !s.isEmpty && s.all Char.isDigit

/-- `none` for a malformed layout token (the request is then answered with `bad-op`) -/
def parseLayout? (s : String) : Option Layout :=
  (s.splitOn ";").mapM fun ps =>
    match ps.splitOn ":" with
    | [f, ns] =>
        if (f == "0" || f == "1") && (ns.splitOn ",").all isNat then
          some { fixed := f == "1",
                 names := (pList pN ns).map (fun v => if v == 0 then none else some (v - 1)) }
        else none
    | _ => none

def parseLayout (s : String) : Layout := (parseLayout? s).getD []

def fInts (xs : List Int) : String := fListD (fun (i : Int) => toString i) xs

def parseLeaves (K : Nat) (xs : List Float) : List (List (Leaf Float)) :=
  chunks K ((chunks 4 xs).map fun
    | [a, b, c, d] => ({ rA := a, rB := b, dA := c, dB := d } : Leaf Float)
    | _ => { rA := 0, rB := 0, dA := 0, dB := 0 })

def parseDatasets (K : Nat) : List String → List (DSIn Float)
  | n :: pa :: pb :: y :: dy :: _nsel :: lv :: rest =>
      { N := pN n, parA := pB pa, parB := pB pb, Y := pList pF y, dY := chunks 2 (pList pF dy), ev := parseLeaves K (pList pF lv) }
        :: parseDatasets K rest
  | _ => []

def hstep (m : GradState.Multi Float) (line : String) : Option (GradState.Multi Float × String) :=
  match tokens line with
  | ["hreset", j] => some (GradState.init (pN j), "ok")
  | ["hnew", sz] =>
      let sizes := (sz.splitOn ";").map (fun t => match t.splitOn "," with
        | [a, b] => (pN a, pN b)
        | _ => (0, 0))
      some ((GradState.step (0.0 : Float) m (.newTrial sizes)).1, "ok")
  | ["heval", opa, ns, f, xs] =>
      let Xs := (xs.splitOn ";").map (pList pF)
      some ((GradState.step (pF opa) m (.evaluate (pF ns) (pList pF f) Xs)).1, "ok")
  | ["hfail", f] => some ((GradState.step (0.0 : Float) m (.evaluateFail (pList pF f))).1, "ok")
  | ["hgrad2", ns] =>
      some (m, match m.grad2 (pF ns) with
        | .ok g => fF g
        | .error .noWeights => "ERR:noWeights"
        | .error .notEvaluated => "ERR:notEvaluated")
  | _ => none

def parsePars : List String → List (GradMap.LocalPar Float)
  | c :: g :: rest => { gp := if c == "x" then none else some (pList pI c), grads := pList pF g } :: parsePars rest
  | _ => []

def branchName : GradMap.Branch → String
  | .noField => "noField" | .noSource => "noSource" | .allSources => "all" | .someSources => "some"
  | .indexError => "indexError"

/-- the branches of the iterations the loop reaches (it stops at the first `allSources` / `indexError`) -/
def reachedBranches (nSrc p : Nat) : List (GradMap.LocalPar Float) → List String
  | [] => []
  | lp :: rest =>
    let b := GradMap.branchOf nSrc p lp
    branchName b :: (if b == .allSources || b == .indexError then [] else reachedBranches nSrc p rest)

def fRows (rows : List String) : String := if rows.isEmpty then "-" else "|".intercalate rows

def answer (line : String) : String :=
  match tokens line with
  | ["vmask", n, m, si] =>
      let sm := pList pB m
      let idx := pList pN si
      let code := match GradMap.valuesMaskCode (pN n) sm idx with
        | some r => fListD fB r
        | none => "ERR"
      s!"{code} {fListD fB (GradMap.valuesMaskSpec sm idx)}"
  | "igrad" :: n :: si :: p :: rest =>
      let pars := parsePars rest
      let idx := pList pN si
      let br := fListD id (reachedBranches (pN n) (pN p) pars)
      match GradMap.interpLoop (pN n) idx (pN p) pars (GradMap.zeros idx.length) false with
      | some (g, c) => s!"{fListD fF g} {fB c} {br}"
      | none => s!"ERR 0 {br}"
  | "sgrads" :: n :: si :: nf :: rest =>
      match GradMap.sigGrads (pN n) (pList pN si) (pN nf) (parsePars rest) with
      | some d => fRows (d.map fun kv => s!"{kv.1}={fListD fF kv.2}")
      | none => "ERR"
  | ["ygrad", c, a, y, dl] =>
      let col := pList pI c
      let acc := pList pB a
      let Y := GradMap.yieldValues acc (pList pF y)
      let d := GradMap.yieldGradsCode col acc Y (pList pF dl)
      let top := ((GradMap.yieldKeys col).foldl max 0).toNat + 2
      let spec := (List.range top).map fun p => fListD fF (GradMap.yieldSpecRow col acc Y (pList pF dl) p)
      s!"{fListD fF Y} {fInts (d.map (·.1))} {fRows (d.map fun kv => fListD fF kv.2)} {fRows spec}"
  | ["layout", l, k, nn] =>
      let L := parseLayout l
      let K := pN k
      let nN := pN nn
      let gp := (gpTable gpidxField L K nN).flatten
      let gpp := (gpTable gpidxFieldPinned L K nN).flatten
      s!"wf:{fB (wellFormedB L K nN)} nfl:{nFloating L} fl:{fListD (fun (i : Nat) => toString i) (floatingIdxs L)} gp:{fInts gp} gpp:{fInts gpp} ok:{fB (keysInRange gpidxField L K nN)} okp:{fB (keysInRange gpidxFieldPinned L K nN)}"
  | ["lval", l, k, nn, th, fxs] =>
      let L := parseLayout l
      let θ := pList pF th
      let fx := pList pF fxs
      let cells := (List.range (pN k)).flatMap (fun k => (List.range (pN nn)).map (fun n =>
        match localValue L θ fx k n with
        | some v => fF v
        | none => "n"))
      fListD id cells
  | ["evt", opa, ns, x, dx] =>
      let (o, n, X, dX) := (pF opa, pF ns, pF x, pF dx)
      s!"{fF (logLambdaI o n X)} {fF (nsGradI o n X)} {fF (pGradI o n X dX)}"
  | ["sob", sd, bd, s, b, ds, db] => fF (sobGrad (pB sd) (pB bd) (pF s) (pF b) (pF ds) (pF db))
  | ["prod", d1, d2, r1, r2, dr1, dr2] =>
      fF (productGrad (pB d1) (pB d2) (pF r1) (pF r2) (pF dr1) (pF dr2))
  | "stack" :: opa :: ns :: nFit :: nsIdx :: k :: gp :: w :: _j :: rest =>
      let K := pN k
      let gpT : List (List Int) := chunks 2 (pList pI gp)
      match stackedChecked (pF opa) (pF ns) (pN nFit) (pN nsIdx) gpT (pList pF w) (parseDatasets K rest) with
      | .ok r => s!"{fF r.value} {fListD fF r.grads} {fF r.nsGrad2}"
      | .error e => s!"ERR:{e}"
  | _ => "bad-op"

def wellFormedRequest (line : String) : Bool :=
  match tokens line with
  | "layout" :: l :: _ => (parseLayout? l).isSome
  | "lval" :: l :: _ => (parseLayout? l).isSome
  | _ => true

def stepS (m : GradState.Multi Float) (line : String) : GradState.Multi Float × String :=
  match hstep m line with
  | some r => r
  | none => (m, if wellFormedRequest line then answer line else "bad-op")

def main : IO Unit := do loopS (← IO.getStdin) (GradState.init 0) stepS
