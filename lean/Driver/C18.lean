import SkyllhModel.Proto
import SkyllhModel.Model.SigGen
import SkyllhModel.Model.SigGenR7
open Proto SigGen

/-  requests (floats as IEEE bit patterns, lists comma separated, `-` = empty):
      choice <right01> <p> <u>                       -> index
      dist   <right01> <mean> <w> <us>               -> n0,n1,…;used | ERR      (code after the fix)
      disto  <right01> <mean> <w> <us>               -> same for the pre-fix code
      disth  <right01> <mean> <w> <us>               -> same with the mask n>0 taken once before the removal loop (NOT the code)
      mgen   <poisson01> <mean argument> <poisson draw> <w> <us> <number of per-dataset generators>
                                                     -> n;key=count,…;used | ERR   (multiGenerate: entry, distribute, aggregate)
      band   <x> <w> <L> <U>                         -> min,max
      reloc  <srcRa> <srcDec> <tRa> <tDec> <rRa> <rDec> -> ra,dec,cosSep(src,relocated),cosSep(true,reco)
    stateful (one analysis set-up at a time):
      reset
      fac    <time unit factor>
      grp    <srcSinDec> <srcWeights> <hbw> <hasE01> <elo> <ehi> <unit> <src_batch_size> <srcRa> <srcDec>
      ds     <livetime> <sinTrueDec> <trueEnergy> <mcweight> <true_ra> <true_dec> <ra> <dec>
      oth    <ds> <field id> <value per event of the dataset>   (a field relocation does not touch)
      flux   <g> <j> <fluxmodel values of the events of dataset j>
      table                                          (tableRawB, batched) -> ds:ev:shg:src,… <normalised weights> <weight sum> | ERR
      vrel   <ds> <ra|dec|sin_dec|o<field id>> <lo> <hi>   (one line per configured (dataset, field); the model relocates and decides)
      akw    <requested totals of the calls sharing one sig_kwargs dictionary> -> mean handed to the generator per call (- = not called)
      cache  <ops: u = use, c<m> = change_shg_mgr(object m), m<m> = source replaced in place in object m> -> obj:ver in use per op
      amerge <count:len|x per dataset> <ds:k per signal entry> -> count:len per dataset | ERR   (Analysis merge)
      agg    <counts> <number of per-dataset generators>  -> n;key=count,… | ERR   (aggregation after the fix)
      gen    <right01> <n> <us>                      -> n;used;ds=row:ra:dec:sin_dec,…|ds=… | ERR   (generateEv)
      mu2flux <mu> <Phi0 per source> <unit per source> -> per-source fluxes;total
-/

structure St where
  grps : List (Grp Float) := []
  dss : List (Float × List (Float × Float × Float)) := []
  flux : List ((Nat × Nat) × List Float) := []
  fac : Float := 1.0
  tab : List (Cand × Float) := []
  refN : Float := 0.0
  cdf : List Float := []
  bss : List Nat := []
  srcpos : List (List (Float × Float)) := []
  dirs : List (List (Dir Float)) := []
  oth : List ((Nat × Nat) × List Float) := []
  vr : List (Nat × Fld × Float × Float) := []

def St.evData (s : St) : EvData Float where
  src g k := (s.srcpos[g]?).bind (·[k]?)
  dir j i := (s.dirs[j]?).bind (·[i]?)
  oth j i k := ((s.oth.find? (fun x => x.1 == (j, k))).map (·.2)).bind (·[i]?)

def zip4 : List Float → List Float → List Float → List Float → List (Dir Float)
  | a :: as, b :: bs, c :: cs, d :: ds => ⟨a, b, c, d⟩ :: zip4 as bs cs ds
  | _, _, _, _ => []

def pFld (s : String) : Fld :=
  if s == "ra" then .ra else if s == "dec" then .dec else if s == "sin_dec" then .sinDec
  else .other ((s.drop 1).toString.toNat!)

def St.evs (s : St) (g j : Nat) : List (Ev Float) :=
  let evs := ((s.dss[j]?).map (·.2)).getD []
  let fl := ((s.flux.find? (fun x => x.1 == (g, j))).map (·.2)).getD []
  List.zipWith (fun e f => ⟨e.1, e.2.1, e.2.2, f⟩) evs fl

def St.lt (s : St) (j : Nat) : Float := ((s.dss[j]?).map (·.1)).getD 0.0

def zip3 : List Float → List Float → List Float → List (Float × Float × Float)
  | a :: as, b :: bs, c :: cs => (a, b, c) :: zip3 as bs cs
  | _, _, _ => []

def fCand (c : Cand) : String := s!"{c.ds}:{c.ev}:{c.shg}:{c.src}"

def fDist (r : Option (List Int × Nat)) : String :=
  match r with
  | some (n, k) => s!"{fListD toString n};{k}"
  | none => "ERR"

def step (s : St) (line : String) : St × String :=
  match tokens line with
  | ["choice", r, p, u] => (s, toString (choice (pB r) (pList pF p) (pF u)))
  | ["dist", r, mean, w, us] =>
      (s, fDist (distribute (pB r) rintF (pI mean) (Float.ofInt (pI mean)) (pList pF w) (pList pF us)))
  | ["disto", r, mean, w, us] =>
      (s, fDist (distributeOrig (pB r) rintF (pI mean) (Float.ofInt (pI mean)) (pList pF w) (pList pF us)))
  | ["disth", r, mean, w, us] =>
      (s, fDist (distributeHoisted (pB r) rintF (pI mean) (Float.ofInt (pI mean)) (pList pF w) (pList pF us)))
  | ["mgen", po, ma, pd, w, us, k] =>
      let gens : List DsGen := (List.range (pN k)).map fun j c =>
        if c < 0 then none else some (c.toNat, [(j, c.toNat)])
      match multiGenerate true rintF truncF Float.ofInt (pB po) (pF ma) (pI pd) (pList pF w) (pList pF us) gens with
      | none => (s, "ERR")
      | some (n, d, used) => (s, s!"{n};{fListD (fun kv => s!"{kv.1}={kv.2}") d};{used}")
  | ["band", x, w, l, u] =>
      let b := band (pF x) (pF w) (pF l) (pF u)
      (s, s!"{fF b.1},{fF b.2}")
  | ["reloc", a, b, c, d, e, f] =>
      let r := relocate (pF a) (pF b) (pF c) (pF d) (pF e) (pF f)
      (s, s!"{fF r.1},{fF r.2},{fF (cosSep (pF a) (pF b) r.1 r.2)},{fF (cosSep (pF c) (pF d) (pF e) (pF f))}")
  | ["reset"] => ({}, "ok")
  | ["fac", x] => ({ s with fac := pF x }, "ok")
  | ["grp", ss, ws, hbw, hasE, elo, ehi, unit, bs, sra, sdec] =>
      let g : Grp Float := ⟨(pList pF ss).zip (pList pF ws), pF hbw,
        if pB hasE then some (pF elo, pF ehi) else none, pF unit⟩
      ({ s with grps := s.grps ++ [g], bss := s.bss ++ [pN bs],
                srcpos := s.srcpos ++ [(pList pF sra).zip (pList pF sdec)] }, "ok")
  | ["ds", lt, ss, es, ms, tra, tdec, ra, dec] =>
      ({ s with dss := s.dss ++ [(pF lt, zip3 (pList pF ss) (pList pF es) (pList pF ms))],
                dirs := s.dirs ++ [zip4 (pList pF tra) (pList pF tdec) (pList pF ra) (pList pF dec)] }, "ok")
  | ["oth", j, k, vs] => ({ s with oth := s.oth ++ [((pN j, pN k), pList pF vs)] }, "ok")
  | ["flux", g, j, fs] => ({ s with flux := s.flux ++ [((pN g, pN j), pList pF fs)] }, "ok")
  | ["table"] =>
      match tableRawB (fun g => (s.bss[g]?).getD 128) s.grps s.dss.length s.evs s.lt s.fac with
      | none => (s, "ERR")
      | some raw =>
        let (refN, wn) := normalise (raw.map (·.2))
        let tab := (raw.map (·.1)).zip wn
        ({ s with tab := tab, refN := refN, cdf := normCdf wn },
         s!"{fListD fCand (tab.map (·.1))} {fListD fF wn} {fF refN}")
  | ["vrel", d, fld, lo, hi] => ({ s with vr := s.vr ++ [(pN d, pFld fld, pF lo, pF hi)] }, "ok")
  | ["akw", rs] =>
      (s, fListD (fun o => match o with | some (m : Int) => toString m | none => "x") (kwHistory kwCall none (pList pI rs)))
  | ["cache", ops] =>
      let os : List GenOp := (pList id ops).map fun t =>
        if t == "u" then GenOp.use
        else if t.startsWith "c" then GenOp.changeMgr ((t.drop 1).toString.toNat!)
        else GenOp.mutate ((t.drop 1).toString.toNat!)
      (s, fListD (fun p => s!"{p.1}:{p.2}") (genRun genStep ⟨0, fun _ => 0, (0, 0)⟩ os))
  | ["amerge", st, sig] =>
      let pe (t : String) : Nat × Option Nat := match t.splitOn ":" with
        | [a, b] => (a.toNat!, if b == "x" then none else some b.toNat!)
        | _ => (0, none)
      let ps (t : String) : Nat × Nat := match t.splitOn ":" with
        | [a, b] => (a.toNat!, b.toNat!)
        | _ => (0, 0)
      match mergeSig (pList pe st) (pList ps sig) with
      | none => (s, "ERR")
      | some r => (s, fListD (fun e => s!"{e.1}:{match e.2 with | some l => toString l | none => "x"}") r)
  | ["agg", cs, k] =>
      let gens : List DsGen := (List.range (pN k)).map fun j c =>
        if c < 0 then none else some (c.toNat, [(j, c.toNat)])
      match aggregate (pList pI cs) gens with
      | none => (s, "ERR")
      | some (n, d) => (s, s!"{n};{fListD (fun kv => s!"{kv.1}={kv.2}") d}")
  | ["gen", r, n, us] =>
      let uu := pList pF us
      match generateEv (pB r) (s.tab.map (·.1)) s.cdf s.evData s.vr (pN n) uu with
      | none => (s, "ERR")
      | some (nsig, out, rest) =>
        let body := String.intercalate "|" (out.map fun (d, evs) =>
          s!"{d}={fListD (fun p => s!"{p.1.1}:{fF p.2.1}:{fF p.2.2.1}:{fF p.2.2.2}") evs}")
        (s, s!"{nsig};{uu.length - rest.length};{body}")
  | ["mu2flux", mu, phis, units] =>
      let shares := s.grps.zipIdx.flatMap fun gk =>
        (List.range gk.1.srcs.length).map (fun k => srcShare s.tab gk.2 k)
      let srcs := shares.zip ((pList pF phis).zip (pList pF units))
      (s, s!"{fListD fF (mu2fluxPer (pF mu) s.refN srcs)};{fF (mu2flux (pF mu) s.refN srcs)}")
  | _ => (s, "bad-op")

def main : IO Unit := do loopS (← IO.getStdin) ({} : St) step
