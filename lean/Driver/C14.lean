import SkyllhModel.Proto
import SkyllhModel.Model.Livetime
import SkyllhModel.Model.LivetimeR7
open Proto Livetime LivetimeR7

/-  requests (floats as IEEE bit patterns; `N` = Python `None`):
      ison    <edges> <t>
      between <edges> <t0> <t1>          -> idx:<flat|ERR> spec:<flat>
      upto    <edges> <t>
      draw    <edges> <u>
      drawwin <edges> <tmin|N> <tmax|N> <u>
      subset  <edges> <times> <t0> <t1>  -> <mask> <flat> <livetime> | ERR
      integ   <edges>
      clip    <starts> <stops>           -> clipped starts
      grl     <starts> <stops>           -> flat edges held by I3Livetime.from_grl_data | ERR
      grlclip <starts> <stops>           -> the same after clip_grl_start_times
      gentime <edges> <tmin|N> <tmax|N> <u>
    round 7 (Model/LivetimeR7.lean; `reqNdim reqCols` are passed by the harness from the generated constants):
      assertint <reqNdim> <reqCols> <isNdarray> <isF64> <shape> <data>   -> OK | <error name>
      construct <reqNdim> <reqCols> <isNdarray> <isF64> <shape> <data>   -> flat rows | <error name>
      props     <edges>                  -> <n> <time_start|ERR> <time_stop|ERR> <window a,b|ERR> <livetime>
      intlt     S <x> | L <edges>        -> get_integrated_livetime
      isonv     <edges> <ts>
      uptoarg   <edges> S <t> | Q <ts>   -> S:<x> | Q:<xs> | ERR
      drawmany  <edges> <tmin|N> <tmax|N> <us>
      grlfiles  <starts|starts|..> <stops|stops|..>        (files separated by `|`)
      i3ds      <isI3> <nfiles> <starts|..> <stops|..>     -> <error name> | ERR | flat rows
      hist      <reqNdim> <reqCols> <edges> <op> <op> ...   ops: set:<nd>:<f64>:<shape>:<data> n win lt ison:<t> upto:<t> btw:<a>:<b> draw:<a|N>:<b|N>:<u>
                                          -> <edges held at the end> <answer>;<answer>;...
      subsetfull <dataOk> <ltOk> <edges> <expT> <mcT> <t0> <t1> -> <error name> | <mask> <mask> <flat> <livetime>
-/
def pairs (s : String) : List (Float × Float) := unflat (pList pF s)

def pOpt (s : String) : Option Float := if s == "N" then none else some (pF s)

def errName : Err → String
  | .typeNotNdarray => "TypeError:ndarray" | .typeNotF64 => "TypeError:float64"
  | .valNdim => "ValueError:ndim" | .valCols => "ValueError:cols" | .valNotMonotone => "ValueError:monotone"
  | .typeNotI3Dataset => "TypeError:I3Dataset" | .valNoGrlFiles => "ValueError:nogrl"
  | .typeData => "TypeError:data" | .typeLivetime => "TypeError:livetime" | .index => "IndexError"

def pFiles (n : Nat) (ss es : String) : List (List (Float × Float)) :=
  if n == 0 then [] else
  ((ss.splitOn "|").zip (es.splitOn "|")).map (fun (a, b) => (pList pF a).zip (pList pF b))

def fOptF : Option Float → String
  | some x => fF x
  | none => "ERR"

def fOptL : Option (List Float) → String
  | some xs => fListD fF xs
  | none => "ERR"

def answer (line : String) : String :=
  match tokens line with
  | ["ison", es, t] => fB (isOn (pairs es) (pF t))
  | ["between", es, t0, t1] =>
      let a := match betweenIdx (pairs es) (pF t0) (pF t1) with
        | some r => fListD fF (flat r)
        | none => "ERR"
      let b := if pF t1 ≤ pF t0 then "-" else fListD fF (flat (betweenSpec (pairs es) (pF t0) (pF t1)))
      s!"idx:{a} spec:{b}"
  | ["upto", es, t] => match upto (pairs es) (pF t) with
      | some x => fF x
      | none => "ERR"
  | ["draw", es, u] => match drawOn (pairs es) (pF u) with
      | some x => fF x
      | none => "ERR"
  | ["drawwin", es, tmin, tmax, u] =>
      match drawWin (pairs es) (pOpt tmin) (pOpt tmax) (pF u) with
      | some x => fF x
      | none => "ERR"
  | ["subset", es, ts, t0, t1] =>
      match dataSubset (pairs es) (pList pF ts) (pF t0) (pF t1) with
      | some (m, r, lt) => s!"{fListD fB m} {fListD fF (flat r)} {fF lt}"
      | none => "ERR"
  | ["integ", es] => fB (integrity (pList pF es))
  | ["clip", ss, es] => fListD fF ((clipStarts ((pList pF ss).zip (pList pF es))).map Prod.fst)
  | ["grl", ss, es] => match fromGrl (pList pF ss) (pList pF es) with
      | some r => fListD fF (flat r)
      | none => "ERR"
  | ["grlclip", ss, es] => match grlLivetime ((pList pF ss).zip (pList pF es)) with
      | some r => fListD fF (flat r)
      | none => "ERR"
  | ["gentime", es, tmin, tmax, u] =>
      match generateTime (pairs es) (pOpt tmin) (pOpt tmax) (pF u) with
      | some x => fF x
      | none => "ERR"
  | ["assertint", rn, rc, nd, f64, sh, data] =>
      match assertIntegrity (pN rn) (pN rc) ⟨pB nd, pB f64, pList pN sh, pList pF data⟩ with
      | .ok () => "OK"
      | .error e => errName e
  | ["construct", rn, rc, nd, f64, sh, data] =>
      match construct (pN rn) (pN rc) ⟨pB nd, pB f64, pList pN sh, pList pF data⟩ with
      | .ok r => fListD fF (flat r)
      | .error e => errName e
  | ["props", es] =>
      let ivs := pairs es
      let w := match timeWindow ivs with
        | some (a, b) => s!"{fF a},{fF b}"
        | none => "ERR"
      s!"{nIntervals ivs} {fOptF (timeStart ivs)} {fOptF (timeStop ivs)} {w} {fF (livetimeSeq ivs)}"
  | ["intlt", "S", x] => fF (integratedLivetime (Sum.inl (pF x) : Sum Float (List (Float × Float))))
  | ["intlt", "L", es] => fF (integratedLivetime (Sum.inr (pairs es) : Sum Float (List (Float × Float))))
  | ["isonv", es, ts] => fListD fB (isOnVec (pairs es) (pList pF ts))
  | ["uptoarg", es, "S", t] => match uptoArg (pairs es) (.scalar (pF t)) with
      | some (.scalar x) => s!"S:{fF x}"
      | some (.seq xs) => s!"Q:{fListD fF xs}"
      | none => "ERR"
  | ["uptoarg", es, "Q", ts] => match uptoArg (pairs es) (.seq (pList pF ts)) with
      | some (.scalar x) => s!"S:{fF x}"
      | some (.seq xs) => s!"Q:{fListD fF xs}"
      | none => "ERR"
  | ["drawmany", es, tmin, tmax, us] => fOptL (drawMany (pairs es) (pOpt tmin) (pOpt tmax) (pList pF us))
  | ["grlfiles", ss, es] => match fromGrlFiles (pFiles 1 ss es) with
      | some r => fListD fF (flat r)
      | none => "ERR"
  | ["i3ds", isI3, n, ss, es] => match fromI3Dataset (pB isI3) (pFiles (pN n) ss es) with
      | .error e => errName e
      | .ok (some r) => fListD fF (flat r)
      | .ok none => "ERR"
  | ["subsetfull", dOk, lOk, es, et, mt, t0, t1] =>
      match dataSubsetFull (pB dOk) (pB lOk) (pairs es) (pList pF et) (pList pF mt) (pF t0) (pF t1) with
      | .ok (m1, m2, r, lt) => s!"{fListD fB m1} {fListD fB m2} {fListD fF (flat r)} {fF lt}"
      | .error e => errName e
  | "hist" :: rn :: rc :: es :: ops =>
      let fAns : AnsR7 Float → String
        | .ok => "OK"
        | .err e => errName e
        | .nat n => toString n
        | .window (some (a, b)) => s!"{fF a},{fF b}"
        | .window none => "IndexError"
        | .val x => fF x
        | .base (.bool b) => fB b
        | .base (.ivs (some r)) => fListD fF (flat r)
        | .base (.ivs none) => "ERR"
        | .base (.val (some x)) => fF x
        | .base (.val none) => "ERR"
        | .base _ => "none"
      let pOp (t : String) : Option (OpR7 Float) :=
        match t.splitOn ":" with
        | ["set", nd, f64, sh, data] => some (.setArr ⟨pB nd, pB f64, pList pN sh, pList pF data⟩)
        | ["n"] => some .qN
        | ["win"] => some .qWindow
        | ["lt"] => some .qLivetime
        | ["ison", t] => some (.base (.qIsOn (pF t)))
        | ["upto", t] => some (.base (.qUpto (pF t)))
        | ["btw", a, b] => some (.base (.qBetween (pF a) (pF b)))
        | ["draw", a, b, u] => some (.base (.qDraw (pOpt a) (pOpt b) (pF u)))
        | _ => none
      match ops.mapM pOp with
      | none => "bad-op"
      | some os =>
        let (h, as) := objRunR7 (pN rn) (pN rc) (pairs es) os
        s!"{fListD fF (flat h)} {String.intercalate ";" (as.map fAns)}"
  | _ => "bad-op"

def main : IO Unit := do loop (← IO.getStdin) answer
