import SkyllhModel.Proto
import SkyllhModel.Model.Livetime
open Proto Livetime

/-  requests (floats as IEEE bit patterns; `N` = Python `None`):
      ison    <edges> <t>
      between <edges> <t0> <t1>          -> idx:<flat|ERR> spec:<flat>
      upto    <edges> <t>
      draw    <edges> <u>
      drawwin <edges> <tmin|N> <tmax|N> <u>
      subset  <edges> <times> <t0> <t1>  -> <mask> <flat> <livetime> | ERR
      integ   <edges>
      clip    <starts> <stops>           -> clipped starts
      grl     <starts> <stops>           -> flat edges held by I3Livetime.from_grl_data | ERR
      grlclip <starts> <stops>           -> the same after clip_grl_start_times
      gentime <edges> <tmin|N> <tmax|N> <u>
-/
def pairs (s : String) : List (Float × Float) := unflat (pList pF s)

def pOpt (s : String) : Option Float := if s == "N" then none else some (pF s)

def answer (line : String) : String :=
  match tokens line with
  | ["ison", es, t] => fB (isOn (pairs es) (pF t))
  | ["between", es, t0, t1] =>
      let a := match betweenIdx (pairs es) (pF t0) (pF t1) with
        | some r => fListD fF (flat r)
        | none => "ERR"
      let b := if pF t1 ≤ pF t0 then "-" else fListD fF (flat (betweenSpec (pairs es) (pF t0) (pF t1)))
      s!"idx:{a} spec:{b}"
  | ["upto", es, t] => match upto (pairs es) (pF t) with
      | some x => fF x
      | none => "ERR"
  | ["draw", es, u] => match drawOn (pairs es) (pF u) with
      | some x => fF x
      | none => "ERR"
  | ["drawwin", es, tmin, tmax, u] =>
      match drawWin (pairs es) (pOpt tmin) (pOpt tmax) (pF u) with
      | some x => fF x
      | none => "ERR"
  | ["subset", es, ts, t0, t1] =>
      match dataSubset (pairs es) (pList pF ts) (pF t0) (pF t1) with
      | some (m, r, lt) => s!"{fListD fB m} {fListD fF (flat r)} {fF lt}"
      | none => "ERR"
  | ["integ", es] => fB (integrity (pList pF es))
  | ["clip", ss, es] => fListD fF ((clipStarts ((pList pF ss).zip (pList pF es))).map Prod.fst)
  | ["grl", ss, es] => match fromGrl (pList pF ss) (pList pF es) with
      | some r => fListD fF (flat r)
      | none => "ERR"
  | ["grlclip", ss, es] => match grlLivetime ((pList pF ss).zip (pList pF es)) with
      | some r => fListD fF (flat r)
      | none => "ERR"
  | ["gentime", es, tmin, tmax, u] =>
      match generateTime (pairs es) (pOpt tmin) (pOpt tmax) (pF u) with
      | some x => fF x
      | none => "ERR"
  | _ => "bad-op"

def main : IO Unit := do loop (← IO.getStdin) answer
