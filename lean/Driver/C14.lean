import SkyllhModel.Proto
import SkyllhModel.Model.Livetime
open Proto Livetime

/-  requests (floats as IEEE bit patterns):
      ison    <edges> <t>
      between <edges> <t0> <t1>      -> idx:<flat|ERR> spec:<flat>
      upto    <edges> <t>
      draw    <edges> <u>
      drawwin <edges> <t0> <t1> <u>
      mask    <times> <t0> <t1>
      integ   <edges>
-/
def pairs (s : String) : List (Float × Float) := unflat (pList pF s)

def answer (line : String) : String :=
  match tokens line with
  | ["ison", es, t] => fB (isOn (pairs es) (pF t))
  | ["between", es, t0, t1] =>
      let a := match betweenIdx (pairs es) (pF t0) (pF t1) with
        | some r => fListD fF (flat r)
        | none => "ERR"
      let b := fListD fF (flat (betweenSpec (pairs es) (pF t0) (pF t1)))
      s!"idx:{a} spec:{b}"
  | ["upto", es, t] => match upto (pairs es) (pF t) with
      | some x => fF x
      | none => "ERR"
  | ["draw", es, u] => match drawOn (pairs es) (pF u) with
      | some x => fF x
      | none => "ERR"
  | ["drawwin", es, t0, t1, u] =>
      -- draw_ontimes(t_min, t_max): restrict with the index arithmetic, then inverse CDF
      match betweenIdx (pairs es) (pF t0) (pF t1) with
      | some r => (match drawOn r (pF u) with
          | some x => fF x
          | none => "ERR")
      | none => "ERR"
  | ["mask", ts, t0, t1] => fListD fB (subsetMask (pList pF ts) (pF t0) (pF t1))
  | ["integ", es] => fB (integrity (pList pF es))
  | _ => "bad-op"

def main : IO Unit := do loop (← IO.getStdin) answer
