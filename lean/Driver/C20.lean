import SkyllhModel.Proto
import SkyllhModel.Model.Coll
import SkyllhModel.Model.CollR7
open Proto Coll

/-  requests (all numbers decimal; names, keys and values are number codes):
      coll <a|l> <op> <op> ...        collection history from the empty world
          N:<ty>  A:<j>:<obj>  C:<j>:<k>  S:<j>:<obj;obj|->  P:<j>:<i|n>  Q:<j>:<name>
          +A:<j>:<obj>  +C:<j>:<k>  +S:<j>:<objs>           obj = id.name.ty
          -> per step (a) or for the last step (l):  <result>#<dump of all collections>
      collx <f|i|o|b> <op> ...        the same with the fixed copy / a copy sharing index / list / both (negative models)
      hkey <d1> <d2>                  d = k=v,k=v ; v = f<bits> | i<int>_<bits|-> | o<code>   -> new:<0|1> old:<0|1>
      pdfset <op> ...                 a:<d>:<p> | g:<d>   -> per op ok|E|<p>
      and <stage> <i<m>|l<m,m>>   or <stage> <..>   joint <name:stage,..> <..>
      cfg <world> <op> ...            world = cfg|cfg ; cfg = dicts@leaves ; entry = path=val ; path = k.k or _
          new | fd:<u> | fdold:<u> | set:<j>:<path>:<k>:<v>
          -> per op <result>#<world>#<spec agrees 0|1>
-/

/-- the classes of the harness fixtures: 0 = NA, 1 = NB, 2 = NA2 (a subclass of NA), 3 = NC (no `name`) -/
instance : TyRel := ⟨fun a b => a == b || (a == 2 && b == 0)⟩
def hasNameTy (t : Nat) : Bool := t != 3

def pObj (s : String) : Obj Nat :=
  match s.splitOn "." with
  | [i, n, t] => { id := pN i, name := pN n, ty := pN t }
  | _ => { id := 0, name := 0, ty := 0 }

def pObjs (s : String) : List (Obj Nat) := if s == "-" then [] else (s.splitOn ";").map pObj

/-- constructor request `K:<ty|n>:<n|s|q>:<objs>` -/
def pCtor (s : String) : Option (Option Nat × CtorArg Nat) :=
  match s.splitOn ":" with
  | ["K", t, f, os] =>
      let ty := if t == "n" then none else some (pN t)
      let arg : CtorArg Nat := if f == "n" then .none
        else if f == "s" then (match pObjs os with | o :: _ => .single o | [] => .none)
        else .seq (pObjs os)
      some (ty, arg)
  | _ => none

def pOp (s : String) : Option (Sum Nat (Op Nat)) :=
  match s.splitOn ":" with
  | ["PB", j] => some (.inr (.popBad (pN j)))
  | ["N", t] => some (.inl (pN t))
  | ["A", j, o] => some (.inr (.addObj (pN j) (pObj o)))
  | ["C", j, k] => some (.inr (.addColl (pN j) (pN k)))
  | ["S", j, os] => some (.inr (.addSeq (pN j) (pObjs os)))
  | ["P", j, i] => some (.inr (.pop (pN j) (if i == "n" then none else some (pI i))))
  | ["Q", j, n] => some (.inr (.popName (pN j) (pN n)))
  | ["+A", j, o] => some (.inr (.plusObj (pN j) (pObj o)))
  | ["+C", j, k] => some (.inr (.plusColl (pN j) (pN k)))
  | ["+S", j, os] => some (.inr (.plusSeq (pN j) (pObjs os)))
  | _ => none

def fErr : Err → String
  | .typeError => "E:TypeError" | .keyError => "E:KeyError" | .valueError => "E:ValueError"
  | .indexError => "E:IndexError" | .badTarget => "E:BadTarget"

def fRes : Except Err (Out Nat) → String
  | .error e => fErr e
  | .ok .unit => "ok"
  | .ok (.obj o) => s!"obj:{o.id}"
  | .ok (.coll j) => s!"coll:{j}"

def firstWith (cs : List (C Nat)) (f : C Nat → Nat) (l : Nat) : Nat :=
  (cs.findIdx? (fun c => f c == l)).getD 0

def fColl (cs : List (C Nat)) (c : C Nat) : String :=
  let ids := fListD (fun (o : Obj Nat) => toString o.id) c.objects
  let names := fListD toString (nameList c)
  let idx := fListD (fun (p : Nat × Nat) => s!"{p.1}={p.2}") c.idx
  let byname := fListD (fun (o : Obj Nat) => match getItemName c o.name with
    | .ok x => toString x.id | .error _ => "E") c.objects
  s!"{c.ty}/{ids}/{names}/{idx}/{byname}/{firstWith cs (·.oloc) c.oloc}/{firstWith cs (·.iloc) c.iloc}"

def fWorld (w : World Nat) : String :=
  if w.colls.isEmpty then "-" else String.intercalate "|" (w.colls.map (fColl w.colls))

def copyMode (m : String) : Nat → C Nat → C Nat :=
  if m == "i" then copyShareIdx else if m == "o" then copyShareList else if m == "b" then copyShareBoth else copyOf

def collHist (cp : Nat → C Nat → C Nat) (all : Bool) (ops : List String) : String := Id.run do
  let mut w : World Nat := { next := 0, colls := [] }
  let mut outs : Array String := #[]
  let mut left := ops.length
  for s in ops do
    left := left - 1
    -- in the "last step only" form the earlier steps are replayed without being printed or checked
    -- (every prefix is a request of its own)
    let emit := all || left == 0
    if s.startsWith "Y:" then
      -- `c_j.copy()` (round 7): the specification appends a plain copy of the list
      let j := pN (s.drop 2).toString
      let (w', r) := copyStepWith cp w j
      if emit then
        let s' := match (view w)[j]? with | some x => view w ++ [x] | none => view w
        outs := outs.push s!"{fRes r}#{fWorld w'}#{fB (decide (view w' = s'))}"
      w := w'
    else
    match pCtor s, pOp s with
    | some (ty, arg), _ =>
        match mkNamed hasNameTy w ty arg with
        | .ok w' =>
            w := w'
            if emit then outs := outs.push s!"ok#{fWorld w}"
        | .error e => if emit then outs := outs.push s!"{fErr e}#{fWorld w}"
    | none, none => outs := outs.push "bad-op"
    | none, some (.inl ty) =>
        w := newColl w ty
        if emit then outs := outs.push s!"ok#{fWorld w}"
    | none, some (.inr op) =>
        let (w', r) := stepWith cp w op
        if emit then
          -- the specification must agree on the abstract view and the result
          let (s', r') := specStep (view w) op
          let agree := decide (view w' = s') && (fRes r == fRes r')
          outs := outs.push s!"{fRes r}#{fWorld w'}#{fB agree}"
        w := w'
  if all then return String.intercalate " " outs.toList
  else return outs.back?.getD "-"

/-- the world after a history, without printing -/
def collWorld (ops : List String) : World Nat := Id.run do
  let mut w : World Nat := { next := 0, colls := [] }
  for s in ops do
    if s.startsWith "Y:" then w := (copyStep w (pN (s.drop 2).toString)).1 else
    match pCtor s, pOp s with
    | some (ty, arg), _ => match mkNamed hasNameTy w ty arg with | .ok w' => w := w' | .error _ => pure ()
    | none, some (.inl ty) => w := newColl w ty
    | none, some (.inr op) => w := (step w op).1
    | none, none => pure ()
  return w

def fObjRes : Except Err (Obj Nat) → String | .ok o => toString o.id | .error e => fErr e
def fNatRes : Except Err Nat → String | .ok i => toString i | .error e => fErr e

/-- positional accessors of every collection after a history: `len`, `c[i]` for `-len-1 ≤ i ≤ len`,
`c[name]` through the key dispatch, `c.index(o)` for the pool objects 0..7 -/
def collQuery (ops : List String) : String :=
  let w := collWorld ops
  let one (c : C Nat) : String :=
    let n : Int := c.objects.length
    let idxs : List Int := (List.range (2 * c.objects.length + 2)).map (fun (k : Nat) => (k : Int) - n - 1)
    let gi := fListD (fun i => fObjRes (getItem c (.idx i))) idxs
    let gn := fListD (fun (o : Obj Nat) => fObjRes (getItem c (.name o.name))) c.objects
    let ix := fListD (fun k => fNatRes (indexOf c ⟨k, 0, 0⟩)) (List.range 8)
    s!"{len c}/{gi}/{gn}/{ix}"
  if w.colls.isEmpty then "-" else String.intercalate "|" (w.colls.map one)

/-- python value: f<bits> | i<int>_<bits or -> | o<code> -/
def pVal (s : String) : PyVal :=
  let body := (s.drop 1).toString
  if s.startsWith "f" then .flt (pN body)
  else if s.startsWith "i" then
    match body.splitOn "_" with
    | [i, b] => .int (pI i) (if b == "-" then none else some (pN b))
    | _ => .other 0
  else .other (pN body)

def pVDict (s : String) : List (Nat × PyVal) :=
  if s == "-" then [] else (s.splitOn ",").map fun e =>
    match e.splitOn "=" with
    | [k, v] => (pN k, pVal v)
    | _ => (0, .other 0)

def pDict (s : String) : List (Nat × Nat) :=
  if s == "-" then [] else (s.splitOn ",").map fun e =>
    match e.splitOn ":" with
    | [k, v] => (pN k, pN v)
    | _ => (0, 0)

def fPErr : PErr → String
  | .typeError => "E:TypeError" | .keyError => "E:KeyError" | .valueError => "E:ValueError"

/-- PDFSet history.  ops: `a:<d>:<p>:<axes>` add_pdf · `an:<d>` add a non-PDF · `ao:<p>` add with a non-dict ·
`g:<d>` get by dict · `gk:<d>` get by the key of d · `go` get by something else · `c:<d>` / `ck:<d>` / `co`
the same for `in` · `mh:<d>` / `mhn` / `mho` make_dict_hash (ok / E) · `vals` the stored PDFs in key order.
The legacy forms `a:<d>:<p>` and `g:<d>` answer `ok` / `E` / `<p>`. -/
def pdfsetRun (ops : List String) : String := Id.run do
  let mut s : List (List (Nat × PyVal) × (Nat × Nat)) := []
  let mut outs : Array String := #[]
  let addRes := fun (r : Except PErr (List (List (Nat × PyVal) × (Nat × Nat)))) (legacy : Bool) =>
    match r with
    | .ok s' => (some s', "ok")
    | .error e => (none, if legacy then "E" else fPErr e)
  for o in ops do
    match o.splitOn ":" with
    | ["a", d, p] =>
        let (s', r) := addRes (addPdfE id s (.pdf (pN p) 0) (.dict (pVDict d))) true
        s := s'.getD s; outs := outs.push r
    | ["a", d, p, ax] =>
        let (s', r) := addRes (addPdfE id s (.pdf (pN p) (pN ax)) (.dict (pVDict d))) false
        s := s'.getD s; outs := outs.push r
    | ["an", d] =>
        let (s', r) := addRes (addPdfE id s .notPdf (.dict (pVDict d))) false
        s := s'.getD s; outs := outs.push r
    | ["ao", p] =>
        let (s', r) := addRes (addPdfE id s (.pdf (pN p) 0) .other) false
        s := s'.getD s; outs := outs.push r
    | ["g", d] => outs := outs.push (match getPdfE id s (.dict (pVDict d)) with | .ok p => toString p | .error _ => "E")
    | ["gd", d] => outs := outs.push (match getPdfE id s (.dict (pVDict d)) with | .ok p => toString p | .error e => fPErr e)
    | ["gk", d] => outs := outs.push (match getPdfE id s (.key (gridKey id (pVDict d))) with | .ok p => toString p | .error e => fPErr e)
    | ["go"] => outs := outs.push (match getPdfE id s .other with | .ok p => toString p | .error e => fPErr e)
    | ["c", d] => outs := outs.push (match containsE id s (.dict (pVDict d)) with | .ok b => fB b | .error e => fPErr e)
    | ["ck", d] => outs := outs.push (match containsE id s (.key (gridKey id (pVDict d))) with | .ok b => fB b | .error e => fPErr e)
    | ["co"] => outs := outs.push (match containsE id s .other with | .ok b => fB b | .error e => fPErr e)
    | ["mh", d] => outs := outs.push (match makeDictHash id (some (.dict (pVDict d))) with | .ok _ => "ok" | .error e => fPErr e)
    | ["mhn"] => outs := outs.push (match makeDictHash (K := Nat) id none with
        | .ok k => (if k == gridKey id [] then "ok" else "differs") | .error e => fPErr e)
    | ["mho"] => outs := outs.push (match makeDictHash (K := Nat) id (some .other) with | .ok _ => "ok" | .error e => fPErr e)
    | ["vals"] => outs := outs.push (fListD (fun (e : List (Nat × PyVal) × (Nat × Nat)) => toString e.2.1) s)
    | _ => outs := outs.push "bad-op"
  return String.intercalate " " outs.toList

def pStages (s : String) : Stages :=
  if s.startsWith "i" then .one (pN (s.drop 1).toString) else .many (pList pN (s.drop 1).toString)

/-- `i<m>` int · `l<m,m>` iterable · `x` a scalar that is not an int -/
def pStagesArg (s : String) : StagesArg :=
  if s.startsWith "i" then .int (pN (s.drop 1).toString)
  else if s.startsWith "x" then .scalar else .iter (pList pN (s.drop 1).toString)

def fOB : Option Bool → String | some b => fB b | none => "E"

/-- DatasetCollection history: `a:<id.name.isds;…>` add · `r:<name>` remove · `g:<name>` get
    -> per step  <ok | id | E:…>#<sorted names>#<names in insertion order> -/
def dscRun (ops : List String) : String := Id.run do
  let mut s : List (Nat × Nat) := []
  let mut outs : Array String := #[]
  for o in ops do
    let op? : Option (DsOp Nat) := match o.splitOn ":" with
      | ["a", ds] => some (.add ((if ds == "-" then [] else ds.splitOn ";").map fun e =>
          match e.splitOn "." with
          | [i, n, b] => { id := pN i, name := pN n, isDataset := b == "1" }
          | _ => { id := 0, name := 0, isDataset := false }))
      | ["r", n] => some (.remove (pN n))
      | ["g", n] => some (.get (pN n))
      | _ => none
    match op? with
    | none => outs := outs.push "bad-op"
    | some op =>
        let (s', r) := dsStep s op
        s := s'
        let rs := match r with | .ok none => "ok" | .ok (some i) => toString i | .error e => fErr e
        outs := outs.push s!"{rs}#{fListD toString (datasetNames s)}#{fListD toString (odKeys s)}"
  return String.intercalate " " outs.toList

def pPath (s : String) : List Nat := if s == "_" then [] else (s.splitOn ".").map pN
def fPath (p : List Nat) : String := if p.isEmpty then "_" else String.intercalate "." (p.map toString)

def pEntries (s : String) : List (List Nat × Nat) :=
  if s == "-" then [] else (s.splitOn ";").map fun e =>
    match e.splitOn "=" with
    | [p, v] => (pPath p, pN v)
    | _ => ([], 0)

def pCfg (s : String) : Cfg :=
  match s.splitOn "@" with
  | [d, l] => { dicts := pEntries d, leaves := pEntries l }
  | _ => { dicts := [], leaves := [] }

def fEntries (es : List (List Nat × Nat)) : String :=
  fListD (fun (e : List Nat × Nat) => s!"{fPath e.1}={e.2}") es |>.replace "," ";"

def fCfg (c : Cfg) : String := s!"{fEntries c.dicts}@{fEntries c.leaves}"
def fCWorld (w : CWorld) : String := String.intercalate "|" (w.cfgs.map fCfg)

def fCRes : Except CErr CRes → String
  | .ok .unit => "ok" | .ok (.val v) => s!"v{v}" | .ok .cont => "cont"
  | .error .keyError => "E:KeyError" | .error .typeError => "E:TypeError"
  | .error .badTarget => "E:BadTarget" | .error (.ext c) => s!"X{c}"

/-- `v<code>` = value, `e<code>` = raises the exception class `code` -/
def pExtRes (s : String) : Except Nat Nat :=
  if s.startsWith "v" then .ok (pN (s.drop 1).toString) else .error (pN (s.drop 1).toString)

/-- table `a>r,a>r` (one argument) -/
def pTab1 (s : String) : List (Nat × Except Nat Nat) :=
  if s == "-" then [] else (s.splitOn ",").filterMap fun e =>
    match e.splitOn ">" with
    | [a, r] => some (pN a, pExtRes r)
    | _ => none

/-- table `a:b>r,…` (two arguments) -/
def pTab2 (s : String) : List ((Nat × Nat) × Except Nat Nat) :=
  if s == "-" then [] else (s.splitOn ",").filterMap fun e =>
    match e.splitOn ">" with
    | [ab, r] => match ab.splitOn ":" with
        | [a, b] => some ((pN a, pN b), pExtRes r)
        | _ => none
    | _ => none

/-- an argument the harness did not tabulate: exception code 999 (reported as a machinery error) -/
def look1 (t : List (Nat × Except Nat Nat)) (a : Nat) : Except Nat Nat :=
  match t.find? (fun e => e.1 == a) with | some e => e.2 | none => .error 999
def look2 (t : List ((Nat × Nat) × Except Nat Nat)) (a b : Nat) : Except Nat Nat :=
  match t.find? (fun e => e.1 == (a, b)) with | some e => e.2 | none => .error 999

def pKeys (s : String) : Keys :=
  match (s.splitOn ",").map pN with
  | [a, b, c, d, e, f, g, h, i, j, k, l] => ⟨a, b, c, d, e, f, g, h, i, j, k, l⟩
  | _ => ⟨0, 0, 0, 0, 0, 0, 0, 0, 0, 0, 0, 0⟩

def pExt (s : String) : Ext :=
  match s.splitOn "/" with
  | [ab, cv, jn, t, f] =>
      { abspath := look1 (pTab1 ab), conv := look2 (pTab2 cv), join := look2 (pTab2 jn), vTrue := pN t, vFalse := pN f }
  | _ => { abspath := fun _ => .error 999, conv := fun _ _ => .error 999, join := fun _ _ => .error 999, vTrue := 1, vFalse := 0 }

def pUnitArg (s : String) : UnitArg :=
  if s == "-" then .absent else if s == "b" then .bad else .ok (pN (s.drop 1).toString)

/-- index keys of list containers: 100000 + position (convention shared with the harness) -/
def idxBase : Nat := 100000

inductive CfgReq
  | call (c : CCall) (old : Bool)
  | append (j : Nat) (path : List Nat) (v : Nat)     -- `cfgs[j][p..].append(v)`
  | memoQuery (j u : Nat)                             -- negative model: class level memo
  | bad

def pMethod (xs : List String) : Option Method :=
  match xs with
  | ["et"] => some .enableTracing
  | ["dt"] => some .disableTracing
  | ["set", f] => some (.setEnableTracing (pN f))
  | ["ncpu", v] => some (.setNcpu (pN v))
  | ["units", a] => match (a.splitOn ",").map pUnitArg with
      | [x, y, z, t] => some (.setInternalUnits x y z t)
      | _ => none
  | ["wd", p] => some (.setWd (if p == "n" then none else some (pN p)))
  | ["ite"] => some .isTracingEnabled
  | ["getwd"] => some .getWd
  | ["titu", u] => some (.toInternalTimeUnit (pN u))
  | ["wdf", f] => some (.wdFilename (pN f))
  | _ => none

def pCfgReq (o : String) : CfgReq :=
  match o.splitOn ":" with
  | ["new"] => .call (.op .new) false
  | ["fd", u] => .call (.op (.fromDict (pN u))) false
  | ["fdold", u] => .call (.op (.fromDict (pN u))) true
  | ["set", j, p, k, v] => .call (.op (.set (pN j) (pPath p) (pN k) (pN v))) false
  | ["del", j, p, k] => .call (.op (.del (pN j) (pPath p) (pN k))) false
  | ["get", j, p, k] => .call (.op (.get (pN j) (pPath p) (pN k))) false
  | ["app", j, p, v] => .append (pN j) (pPath p) (pN v)
  | ["mq", j, u] => .memoQuery (pN j) (pN u)
  | "m" :: j :: rest => match pMethod rest with
      | some m => .call (.meth (pN j) m) false
      | none => .bad
  | _ => .bad

/-- key codes and external-function tables, sent once by a `cfgtab` request and kept by the driver -/
structure Tabs where
  K : Keys
  E : Ext

def noTabs : Tabs := { K := ⟨0, 0, 0, 0, 0, 0, 0, 0, 0, 0, 0, 0⟩, E := pExt "-" }

def cfgRun (tabs : Tabs) (world : String) (rest : List String) : String := Id.run do
  let cfgs := (world.splitOn "|").map pCfg
  let nxt := (cfgs.flatMap Cfg.locs).foldl max 0 + 1
  let mut K : Keys := tabs.K
  let mut E : Ext := tabs.E
  let mut sp : List Nat := []
  let mut ops : List String := []
  for t in rest do
    if t.startsWith "K=" then K := pKeys (t.drop 2).toString
    else if t.startsWith "X=" then E := pExt (t.drop 2).toString
    else if t.startsWith "S=" then sp := pList pN (t.drop 2).toString
    else ops := ops ++ [t]
  let mut w : CWorld := { next := nxt, cfgs := cfgs, syspath := sp }
  let mut memo : List (Nat × Nat) := []
  let mut outs : Array String := #[s!"inv={fB (cinvB w)}"]
  let mut left := ops.length
  for o in ops do
    left := left - 1
    let tail := fun (w : CWorld) => if left == 0 then s!"{fCWorld w};sys={fListD toString w.syspath}" else "-"
    match pCfgReq o with
    | .bad => outs := outs.push "bad-op"
    | .call c old =>
        let (w', r) := match c, old with
          | .op op, true => cstepOld w op
          | c, _ => ccall cstep K E w c
        let (ws, rs) := ccall cspecStep K E w c
        let agree := decide (w'.cfgs = ws.cfgs) && (fCRes r == fCRes rs) && decide (w'.syspath = ws.syspath)
        w := w'
        outs := outs.push s!"{fCRes r}#{tail w}#{fB agree}"
    | .append j path v =>
        let k := match w.cfgs[j]? with | some c => idxBase + c.childCount path | none => idxBase
        let (w', r) := cstep w (.set j path k v)
        let (ws, rs) := cspecStep w (.set j path k v)
        let agree := decide (w'.cfgs = ws.cfgs) && (fCRes r == fCRes rs)
        w := w'
        outs := outs.push s!"{fCRes r}#{tail w}#{fB agree}"
    | .memoQuery j u =>
        match w.cfgs[j]? with
        | none => outs := outs.push s!"E:BadTarget#{tail w}#1"
        | some c =>
            let (m', r) := memoTime E memo c K u
            memo := m'
            outs := outs.push s!"{fCRes r}#{tail w}#1"
  return String.intercalate " " outs.toList

/-- `mok <cfg>`: the six navigation outcomes of the methods on a configuration of this shape (round 7) -/
def mokRun (K : Keys) (cfg : String) : String :=
  let m := methodsOk (pCfg cfg) K
  s!"{fB m.tracingW}{fB m.ncpuW}{fB m.unitsW}{fB m.tracingR}{fB m.wdR}{fB m.timeR} all={fB (methodPathsOk (pCfg cfg) K)}"

/-- `xw <world> <op> ...` (round 7): writes that allocate.  op = nd:<j>:<path>:<k> | sdd:<j>:<path>:<k> |
sdv:<j>:<path>:<k>:<v> | set:<j>:<path>:<k>:<v>  -> per op `<result>#<spec agrees 0|1>`, then `W=<world>` -/
def xwRun (world : String) (ops : List String) : String := Id.run do
  let cfgs := (world.splitOn "|").map pCfg
  let nxt := (cfgs.flatMap Cfg.locs).foldl max 0 + 1
  let mut w : CWorld := { next := nxt, cfgs := cfgs }
  let mut outs : Array String := #[s!"inv={fB (cinvB w)}"]
  for o in ops do
    match o.splitOn ":" with
    | ["nd", j, p, k] =>
        let (w', r) := csetNewDict w (pN j) (pPath p) (pN k)
        let (ws, rs) := cspecSetNewDict w (pN j) (pPath p) (pN k)
        outs := outs.push s!"{fCRes r}#{fB (decide (w'.cfgs = ws.cfgs) && (fCRes r == fCRes rs) && cinvB w')}"
        w := w'
    | ["sdd", j, p, k] =>
        let (w', r) := csetDefaultDict w (pN j) (pPath p) (pN k)
        outs := outs.push s!"{fCRes r}#{fB (cinvB w')}"
        w := w'
    | ["sdv", j, p, k, v] =>
        let (w', r) := csetDefaultVal w (pN j) (pPath p) (pN k) (pN v)
        outs := outs.push s!"{fCRes r}#{fB (cinvB w')}"
        w := w'
    | ["set", j, p, k, v] =>
        let (w', r) := cstep w (.set (pN j) (pPath p) (pN k) (pN v))
        outs := outs.push s!"{fCRes r}#{fB (cinvB w')}"
        w := w'
    | _ => outs := outs.push "bad-op"
  return String.intercalate " " (outs.toList ++ [s!"W={fCWorld w}"])

def answer (tabs : Tabs) (line : String) : String :=
  match tokens line with
  | "coll" :: "a" :: ops => collHist copyOf true ops
  | "coll" :: "l" :: ops => collHist copyOf false ops
  | "collx" :: m :: ops => collHist (copyMode m) true ops
  | "collq" :: ops => collQuery ops
  | ["hkey", d1, d2] =>
      let a := pVDict d1; let b := pVDict d2
      s!"new:{fB (decide (gridKey id a = gridKey id b))} old:{fB (decide (hashKeyOld id a = hashKeyOld id b))}"
  | "pdfset" :: ops => pdfsetRun ops
  | ["and", st, ss] => fOB (andCheckE (pN st) (pStagesArg ss))
  | ["or", st, ss] => fOB (orCheckE (pN st) (pStagesArg ss))
  | ["joint", fs, ss] => (match jointNamesE (pDict fs) (pStagesArg ss) with
      | some ns => fListD toString ns | none => "E")
  | "dsc" :: ops => dscRun ops
  | "cfg" :: world :: rest => cfgRun tabs world rest
  | ["mok", cfg] => mokRun tabs.K cfg
  | "xw" :: world :: ops => xwRun world ops
  | _ => "bad-op"

/-- `cfgtab K=… X=…` replaces the tables (answer `ok`); every other request is answered with the current ones -/
def answerS (tabs : Tabs) (line : String) : Tabs × String :=
  match tokens line with
  | "cfgtab" :: rest =>
      let t := rest.foldl (fun (t : Tabs) (x : String) =>
        if x.startsWith "K=" then { t with K := pKeys (x.drop 2).toString }
        else if x.startsWith "X=" then { t with E := pExt (x.drop 2).toString } else t) tabs
      (t, "ok")
  | _ => (tabs, answer tabs line)

def main : IO Unit := do loopS (← IO.getStdin) noTabs answerS
