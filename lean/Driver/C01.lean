import SkyllhModel.Proto
import SkyllhModel.Model.LLH
import SkyllhModel.Model.LLHR7
open Proto LLH

/-  requests (floats as IEEE bit patterns, lists comma separated, `-` = empty):
      llr  <opa> <N> <ns> <Rs>                    -> <value> <sum |terms|> <number of Taylor events>
      comp <opa> <N> <ns> <zb> <s> <b> <r2>       -> same, for R_i = ratioSOB zb s_i b_i * r2_i
      sob  <zb> <s> <b>                           -> ratios
      lam  <opa> <alpha_i>                        -> log Λ_i, stable?(1/0)
      counts <n_events arg | -> <raw events> <selected events>   -> N N' N-N'
      sel  <opa> <n_events arg | -> <ns> <Rs of all raw events> <keep 0/1 list>   -> as llr, through evalSel
      chk  <opa> <N> <ns> <Rs>                    -> none | value   (llrChecked)
      rex  <opa> <N> <ns> <expr>                  -> none | as llr;  expr in prefix form: L <list> | P <expr> <expr> | S <zb> <s> <b>
      fld  {<parameter values>}                    -> per evaluation r (field recalculated) | k (kept): fieldRun from a fresh trial
      msk  <strict 0/1> <opa> <c> <N> <ns> <Xi>   -> none | value, then np.any(m_unstable) (1/0), count_nonzero(m_unstable),
                                                     slots written by pass 1, slots written by the scatter   (calcLogLambda, array level)
      trl  <opa> {T <n_events arg | -> <Rs> <keep> | E <ns>}   -> the values of the E steps (x = the code raises): trialRun
-/
def sumAbs (opa : Float) (N : Nat) (ns : Float) (Rs : List Float) : Float :=
  (Rs.map (fun R => (logLambdaI opa ns (xOfRatio N R)).abs)).foldl (· + ·) 0
    + (pureBkgTerm N Rs.length ns).abs

def report (opa : Float) (N : Nat) (ns : Float) (Rs : List Float) : String :=
  s!"{fF (llrOfRatios opa N ns Rs)} {fF (sumAbs opa N ns Rs)} {nUnstable opa N ns Rs}"

/-- prefix parser for `RExpr`; returns the expression and the remaining tokens -/
partial def parseExpr : List String → Option (RExpr Float × List String)
  | "L" :: r :: rest => some (.leaf (pList pF r), rest)
  | "S" :: zb :: s :: b :: rest => some (.sob (pF zb) (pList pF s) (pList pF b), rest)
  | "P" :: rest =>
      match parseExpr rest with
      | some (a, rest1) =>
          match parseExpr rest1 with
          | some (b, rest2) => some (.prod a b, rest2)
          | none => none
      | none => none
  | _ => none

def parseTrialOps : List String → List (TrialOp Float)
  | "T" :: narg :: rs :: keep :: rest =>
      .newTrial (if narg == "-" then none else some (pN narg)) (pList pF rs) (pList pB keep) :: parseTrialOps rest
  | "E" :: ns :: rest => .eval (pF ns) :: parseTrialOps rest
  | _ => []

def answer (line : String) : String :=
  match tokens line with
  | ["llr", opa, n, ns, rs] => report (pF opa) (pN n) (pF ns) (pList pF rs)
  | ["comp", opa, n, ns, zb, s, b, r2] =>
      let r1 := List.zipWith (ratioSOB (pF zb)) (pList pF s) (pList pF b)
      report (pF opa) (pN n) (pF ns) (ratioProduct r1 (pList pF r2))
  | ["sob", zb, s, b] => fListD fF (List.zipWith (ratioSOB (pF zb)) (pList pF s) (pList pF b))
  | ["lam", opa, a] =>
      s!"{fF (lamOfAlpha (pF opa) (pF a))} {fB (decide (pF opa - 1 < pF a))}"
  | ["sel", opa, narg, ns, rs, keep] =>
      let a : Option Nat := if narg == "-" then none else some (pN narg)
      let Rs := pList pF rs
      let kp := pList pB keep
      let sel := ((Rs.zip kp).filter (fun p => p.2)).map (fun p => p.1)
      let N := (trialCounts a Rs.length sel.length).1
      s!"{fF (evalSel (pF opa) a (pF ns) Rs kp)} {fF (sumAbs (pF opa) N (pF ns) sel)} {nUnstable (pF opa) N (pF ns) sel}"
  | ["chk", opa, n, ns, rs] =>
      match llrChecked (pF opa) (pN n) (pF ns) (pList pF rs) with
      | some v => fF v
      | none => "none"
  | "rex" :: opa :: n :: ns :: rest =>
      match parseExpr rest with
      | some (e, []) =>
          match e.eval with
          | some Rs => report (pF opa) (pN n) (pF ns) Rs
          | none => "none"
      | _ => "bad-expr"
  | "fld" :: rest =>
      fListD (fun (r : Option (List Float) × Bool) => if r.2 then "r" else "k") (fieldRun none (rest.map (pList pF)))
  | "trl" :: opa :: rest =>
      fListD (fun o => match o with | some v => fF v | none => "x") (trialRun (pF opa) none (parseTrialOps rest))
  | ["msk", strict, opa, c, n, ns, xs] =>
      let st := pB strict
      let Xi := pList pF xs
      let v := match calcLogLambda st (pF opa) (pF c) (pN n) (pF ns) Xi with
        | some v => fF v
        | none => "none"
      let info := unstableInfo st (pF opa) (pF ns) Xi
      let alphaI := Xi.map (pF ns * ·)
      let m := alphaI.map (stableMask st (pF opa))
      let w1 := ((pass1 m alphaI).filter Option.isSome).length
      s!"{v} {fB info.1} {info.2} {w1} {(gatherU m alphaI).length}"
  | ["counts", narg, nraw, nsel] =>
      let a : Option Nat := if narg == "-" then none else some (pN narg)
      let c := trialCounts a (pN nraw) (pN nsel)
      s!"{c.1} {c.2.1} {c.2.2}"
  | _ => "bad-op"

def main : IO Unit := do loop (← IO.getStdin) answer
