import SkyllhModel.Proto
import SkyllhModel.Model.Params
import SkyllhModel.Model.ParamsHeap
import SkyllhModel.Model.ParamsR7
open Proto Params

/-  Stateful driver for property C04 (state = stack of ParameterSet / ParameterModelMapper models,
    parameter values are Floats that cross as IEEE bit patterns).
      ps                                   reset: empty ParameterSet
      pmm <name:0|1,...>                   reset: mapper over the given models (1 = source model)
      push / pop                           duplicate / drop the top state
      add <name> <ini> <lo|N> <hi|N> <fx 1|0|N> <front 0|1>
      fix <name=bits|N|U,...|->            (N = None, U = not castable to float)
      float <name=ini/lo/hi,...|->         each of ini, lo, hi is bits, N (None) or U (not castable);
                                           fewer than three items = a too short sequence
      setv <name> <bits>
      union <left 0|1> <name/ini/lo/hi/fx;...|->
      unionN <pos> <set+set+…|->            set = name/ini/lo/hi/fx;… or _ (empty set); self is inserted at pos
      chfix <name> <bits>                  change_fixed_value + update_fixed_param_value_cache
      chfixraw <name> <bits> | updcache    the two calls separately (the cache is stale in between)
      copy
      map <name> <ini> <lo> <hi> <fx> <models N|-|i,j,..> <aliases N|S/a|L/a/b/..>
         -> ok | ERR:<exception class>
      view <names> <gflp>                  -> <views from the caches> ## <views from the bare list>
      randini <u values>                   -> generate_random_floating_param_initials with the given uniform draws
      probe <values>                       -> name=<A|R per value>,... from setValue ## from Spec.accepts
      pview <gflp> <sel N|-|i,j>           -> mapper views
      pview2 <gflp> <names> <model idxs>   -> gpidx consumers, floating mask of local names, NaN fill,
                                              wrong-length vectors, int32 index array, dict by model name
      peq <name/ini/lo/hi/fx;...|->        -> name=<(p==q)(q==p) per constructible q>,...  (Parameter.__eq__)
      pview3 <gflp> <names> <signed idxs> <i/j,...>
                                           -> record array for a signed int32 index array (numpy wraps), model dict by
                                              signed int (range check), get_model_param_name(i, j) (wraps), counts,
                                              get_gflp_idx per name, create_global_floating_params_dict
    (`pview`: `sel` / `tab` go through `srcModelIdxsChecked` / `srcParamsRecarrayChecked`: a selected model that
     is no source model is a TypeError)
-/

inductive St
  | ps (s : PSet Float)
  | pmm (s : PMM Float)
  | world (w : Heap.World Float)

def pO (s : String) : Option Float := if s == "N" then none else some (pF s)
def fO : Option Float → String
  | none => "N"
  | some x => fF x
def pOB (s : String) : Option Bool := if s == "N" then none else some (s == "1")

def sl (xs : List String) : String := if xs.isEmpty then "-" else String.intercalate "," xs
def sl' (sep : String) (xs : List String) : String := if xs.isEmpty then "-" else String.intercalate sep xs

def fErr (e : Err) : String := "ERR:" ++ e.toString
def fEx {α} (f : α → String) : Except Err α → String
  | .ok a => f a
  | .error e => fErr e

def fParam (p : Param Float) : String :=
  s!"{p.name}/{fF p.initial}/{fB p.isfixed}/{fO p.valmin}/{fO p.valmax}/{fF p.value}"

def fOptNat : Option Nat → String
  | none => "K"
  | some n => toString n

def fDict (d : List (String × Float)) : String := sl (d.map (fun kv => s!"{kv.1}={fF kv.2}"))

def fViews (v : PSet.Views Float) : String :=
  String.intercalate " " [
    "params:" ++ sl' ";" (v.params.map fParam),
    "names:" ++ sl v.nameList,
    "fxn:" ++ sl v.fixedNames,
    "fln:" ++ sl v.floatNames,
    "fxm:" ++ fListD fB v.fixedMask,
    "flm:" ++ fListD fB v.floatMask,
    "fxi:" ++ fListD toString v.fixedIdxs,
    "fli:" ++ fListD toString v.floatIdxs,
    s!"n:{v.nParams}/{v.nFixed}/{v.nFloating}",
    "fxv:" ++ fListD fF v.fixedVals,
    "fxp:" ++ fEx sl v.fixedParams,
    "flp:" ++ fEx sl v.floatParams,
    "ini:" ++ fEx (fListD fF) v.floatInitials,
    "bnd:" ++ fEx (fun l => sl (l.map (fun b => s!"{fO b.1}/{fO b.2}"))) v.floatBounds,
    "fpidx:" ++ sl (v.fixedPidx.map fOptNat),
    "lpidx:" ++ sl (v.floatPidx.map fOptNat),
    "has:" ++ sl (v.has.map (fun h => fB h.1 ++ fB h.2.1 ++ fB h.2.2)),
    "pd:" ++ fDict v.paramsDict,
    "fd:" ++ fDict v.floatDict ]

def pArgs (name ini lo hi fx : String) : PArgs Float :=
  { name := name, initial := pF ini, valmin := pO lo, valmax := pO hi, isfixed := pOB fx }

def pArgs1 (s : String) : PArgs Float :=
  match s.splitOn "/" with
  | [name, ini, lo, hi, fx] => pArgs name ini lo hi fx
  | _ => pArgs "?" "0" "N" "N" "N"

def pKV (s : String) : String × String :=
  match s.splitOn "=" with
  | [k, v] => (k, v)
  | _ => (s, "N")

def pFixReq (s : String) : List (String × FixVal Float) :=
  (pList pKV s).map (fun kv => (kv.1, if kv.2 == "U" then .bad else if kv.2 == "N" then .cur else .val (pF kv.2)))

def pFV (s : String) : FixVal Float := if s == "U" then .bad else if s == "N" then .cur else .val (pF s)

def pFloatReq (s : String) : List (String × PSet.FloatEntry Float) :=
  (pList pKV s).map (fun kv => match kv.2.splitOn "/" with
    | [a, b, c] => (kv.1, .entry (pFV a) (pFV b) (pFV c))
    | _ => (kv.1, .short))

def pSel (s : String) : Option (List Nat) := if s == "N" then none else some (pList pN s)

def pAlias (s : String) : AliasArg :=
  if s == "N" then .none else
  match s.splitOn "/" with
  | "S" :: a :: [] => .one a
  | "L" :: l => .many l
  | _ => .none

def pOp (toks : List String) : Option (Op Float) :=
  match toks with
  | ["add", name, ini, lo, hi, fx, front] => some (.add (pArgs name ini lo hi fx) (pB front))
  | ["fix", req] => some (.fix (pFixReq req))
  | ["float", req] => some (.float (pFloatReq req))
  | ["setv", n, v] => some (.setv n (pF v))
  | ["union", left, other] =>
      some (.union (if other == "-" then [] else (other.splitOn ";").map pArgs1) (pB left))
  | ["unionN", pos, others] =>
      let sets := if others == "-" then [] else (others.splitOn "+").map (fun o =>
        if o == "_" then [] else (o.splitOn ";").map pArgs1)
      some (.unionN sets (pN pos))
  | ["chfix", n, v] => some (.chfix n (pF v))
  | ["copy"] => some .copy
  | ["badargs"] => some .badArgs
  | ["map", name, ini, lo, hi, fx, ms, al] => some (.map (pArgs name ini lo hi fx) (pSel ms) (pAlias al))
  | _ => none

def fRes : Except Err Unit → String
  | .ok _ => "ok"
  | .error e => fErr e

def fCell : Option (Float × Int) → String
  | none => "NA"
  | some (v, g) => s!"{fF v}:{g}"

def fRows (fields : List String) (rows : List (Nat × List (Option (Float × Int)))) : String :=
  sl' ";" (rows.map (fun r =>
    String.intercalate "/" (toString r.1 :: (fields.zip r.2).map (fun fc => s!"{fc.1}={fCell fc.2}"))))

def fPMM (s : PMM Float) (g : List Float) (sel : Option (List Nat)) : String :=
  let fields := s.srcFieldNames
  let idxs := s.srcModelIdxs sel
  let specRows := idxs.map (fun i =>
    (i, fields.map (fun f => Spec.cell f s.gps.params (s.mpn[i]?.getD []) 0 0 g)))
  String.intercalate " " ([
    "src:" ++ fListD toString (s.srcModelIdxs none),
    "sel:" ++ fEx (fListD toString) (s.srcModelIdxsChecked sel),
    "fields:" ++ sl fields,
    "mpn:" ++ sl' ";" (s.mpn.map (fun row => sl (row.map (fun o => o.getD "N")))),
    "tab:" ++ fEx (fun t => fRows t.1 t.2) (s.srcParamsRecarrayChecked g sel),
    "tabspec:" ++ fRows fields specRows,
    "gd:" ++ fDict (s.gps.views [] g).paramsDict ] ++
    (List.range s.nModels).map (fun i =>
      s!"md{i}:" ++ fEx (fun d => fDict d) (s.modelParamsDict g i)))

def fBits (bs : List Bool) : String := if bs.isEmpty then "-" else String.join (bs.map fB)

def nanF : Float := 0.0 / 0.0

/-- further mapper views (all with `sources=None` unless stated):
`pview2 <gflp> <names> <idxs>` -/
def fPMM2 (s : PMM Float) (g : List Float) (names : List String) (idxs : List Nat) : String :=
  let fields := s.srcFieldNames
  let nfl := s.gps.floatNames.length
  let ks := List.range nfl
  let recE := s.srcParamsRecarray g none
  let fitloc := match recE with
    | .error e => fErr e
    | .ok rec => sl (fields.map (fun f =>
        s!"{f}={fBits (ks.map (fun k => PMM.isGlobalFitparamALocalParam k rec [f]))}/" ++
          fEx fB (PMM.isLocalParamAFitparam f rec)))
  let fitall := match recE with
    | .error e => fErr e
    | .ok rec => fBits (ks.map (fun k => PMM.isGlobalFitparamALocalParam k rec ("zz" :: fields)))
  let tabOf (r : Except Err (PMM.RecArray Float)) : String := fEx (fun t => fRows t.1 t.2) r
  let wrong (gg : List Float) : String :=
    (match s.srcParamsRecarray gg none with | .ok _ => "A" | .error _ => "R") ++
    (match s.modelParamsDict gg 0 with | .ok _ => "A" | .error _ => "R")
  String.intercalate " " ([
    "mfields:" ++ sl s.modelFieldNames,
    "fitloc:" ++ fitloc,
    "fitall:" ++ fitall,
    "fpzz:" ++ (match recE with
      | .error e => fErr e
      | .ok rec => fEx fB (PMM.isLocalParamAFitparam "zz" rec)),
    "lpfl:" ++ sl ((names.zip (s.localParamIsGlobalFloatingMask names)).map (fun nb => s!"{nb.1}={fB nb.2}")),
    "tabnone:" ++ tabOf (PMM.srcParamsRecarrayNone nanF s none),
    "wshort:" ++ (if g.isEmpty then "-" else wrong g.dropLast),
    "wlong:" ++ wrong (g ++ [9.0]),
    "tabidx:" ++ tabOf (s.srcParamsRecarrayIdx g idxs) ] ++
    s.models.map (fun m => s!"mdn_{m.1}:" ++ fEx fDict (s.modelParamsDictByName g m.1)) ++
    [ "mdn_zz:" ++ fEx fDict (s.modelParamsDictByName g "zz") ])

def fPeq (s : PSet Float) (others : String) : String :=
  let qs := createSome (if others == "-" then [] else (others.splitOn ";").map pArgs1)
  sl ((s.params.zip (s.eqTable qs)).map (fun pr =>
    pr.1.name ++ "=" ++ (if pr.2.isEmpty then "_" else String.join (pr.2.map (fun ab => fB ab.1 ++ fB ab.2)))))

def fRowsI (fields : List String) (rows : List (Int × List (Option (Float × Int)))) : String :=
  sl' ";" (rows.map (fun r =>
    String.intercalate "/" (toString r.1 :: (fields.zip r.2).map (fun fc => s!"{fc.1}={fCell fc.2}"))))

def fPMM3 (s : PMM Float) (g : List Float) (names : List String) (ii : List Int) (pairs : List (Int × Int)) : String :=
  let c := s.counts
  String.intercalate " " [
    "tabidxs:" ++ fEx (fun t => fRowsI t.1 t.2) (s.srcParamsRecarrayIdxInt g ii),
    "sgnmd:" ++ sl (ii.map (fun i => toString i ++ "=" ++
        (match s.modelParamsDictInt g i with | .ok d => (if d.isEmpty then "e" else "d") | .error _ => "E"))),
    "mpnw:" ++ sl (pairs.map (fun ij => s!"{ij.1}/{ij.2}=" ++
        (match s.getModelParamName ij.1 ij.2 with | .ok (some a) => a | .ok none => "N" | .error _ => "E"))),
    s!"counts:{c.1}/{c.2.1}/{c.2.2.1}/{c.2.2.2}",
    "gflp:" ++ sl (names.map (fun n => n ++ "=" ++ (match s.gflpIdx n with | .ok k => toString k | .error _ => "K"))),
    "gfd:" ++ fDict (s.globalFloatingParamsDict g) ]

def fProbe (ps : List (Param Float)) (rows : List (List Bool)) : String :=
  sl ((ps.zip rows).map (fun pr => pr.1.name ++ "=" ++ String.join (pr.2.map (fun (b : Bool) => if b then "A" else "R"))))

/-- several `ParameterSet` objects sharing `Parameter` objects (Model/ParamsHeap.lean):
      world                                 reset: one empty set (register 0)
      wadd <k> <name> <ini> <lo> <hi> <fx> <front> | wfix <k> <req> | wfloat <k> <req> | wsetv <k> <name> <bits>
      wunion <i> <j> | wctor <i> | wcopy <i>        (each creates a new register)
      wview <k> <names> <gflp>              -> views of register k -/
def pWOp (toks : List String) : Option (Heap.WOp Float) :=
  match toks with
  | ["wadd", k, name, ini, lo, hi, fx, front] => some (.add (pN k) (pArgs name ini lo hi fx) (pB front))
  | ["wfix", k, req] => some (.fix (pN k) (pFixReq req))
  | ["wfloat", k, req] => some (.float (pN k) (pFloatReq req))
  | ["wsetv", k, n, v] => some (.setv (pN k) n (pF v))
  | ["wunion", i, j] => some (.union (pN i) (pN j))
  | ["wctor", i] => some (.ctor (pN i))
  | ["wcopy", i] => some (.copy (pN i))
  | _ => none

def stepLine (stack : List St) (line : String) : List St × String :=
  let toks := tokens line
  match toks, stack with
  | ["ps"], _ => ([St.ps PSet.empty], "ok")
  | ["world"], _ => ([St.world Heap.World.empty], "ok")
  | ["wview", k, q, g], St.world w :: _ =>
      (stack, match w.viewsOf (pN k) (pList id q) (pList pF g) with
        | some v => fViews v
        | none => "ERR:IndexError")
  | ["pmm", ms], _ =>
      let models := (pList pKV (ms.replace ":" "=")).map (fun kv => (kv.1, kv.2 == "1"))
      ([St.pmm (PMM.create models)], "ok")
  | ["push"], top :: rest => (top :: top :: rest, "ok")
  | ["pop"], _ :: rest => (rest, "ok")
  | ["view", q, g], St.ps s :: _ =>
      (stack, fViews (s.views (pList id q) (pList pF g)) ++ " ## " ++
              fViews (Spec.views s.params (pList id q) (pList pF g)))
  | ["view", q, g], St.pmm s :: _ =>
      (stack, fViews (s.gps.views (pList id q) (pList pF g)) ++ " ## " ++
              fViews (Spec.views s.gps.params (pList id q) (pList pF g)))
  | ["probe", xs], St.ps s :: _ =>
      (stack, fProbe s.params (s.probe (pList pF xs)) ++ " ## " ++ fProbe s.params (Spec.probe s.params (pList pF xs)))
  | ["probe", xs], St.pmm s :: _ =>
      (stack, fProbe s.gps.params (s.gps.probe (pList pF xs)) ++ " ## " ++
              fProbe s.gps.params (Spec.probe s.gps.params (pList pF xs)))
  | ["randini", u], St.ps s :: _ => (stack, fEx (fun l => sl (l.map fO)) (s.randomInitials (pList pF u)))
  | ["randini", u], St.pmm s :: _ => (stack, fEx (fun l => sl (l.map fO)) (s.gps.randomInitials (pList pF u)))
  | ["pview", g, sel], St.pmm s :: _ => (stack, fPMM s (pList pF g) (pSel sel))
  | ["peq", others], St.ps s :: _ => (stack, fPeq s others)
  | ["peq", others], St.pmm s :: _ => (stack, fPeq s.gps others)
  | ["pview3", g, names, ii, pairs], St.pmm s :: _ =>
      (stack, fPMM3 s (pList pF g) (pList id names) (pList pI ii)
        (pList (fun t => match t.splitOn "/" with | [a, b] => (pI a, pI b) | _ => (0, 0)) pairs))
  | ["pview2", g, names, idxs], St.pmm s :: _ =>
      (stack, fPMM2 s (pList pF g) (pList id names) (pList pN idxs))
  | ["chfixraw", n, v], St.ps s :: rest =>
      let r := s.changeFixedRaw n (pF v); (St.ps r.1 :: rest, fRes r.2)
  | ["chfixraw", n, v], St.pmm s :: rest =>
      let r := s.gps.changeFixedRaw n (pF v); (St.pmm { s with gps := r.1 } :: rest, fRes r.2)
  | ["updcache"], St.ps s :: rest =>
      let r := s.updateFixedValueCache; (St.ps r.1 :: rest, fRes r.2)
  | ["updcache"], St.pmm s :: rest =>
      let r := s.gps.updateFixedValueCache; (St.pmm { s with gps := r.1 } :: rest, fRes r.2)
  | _, St.world w :: rest =>
      match pWOp toks with
      | none => (stack, "bad-op")
      | some op => let r := w.step op; (St.world r.1 :: rest, fRes r.2)
  | _, top :: rest =>
      match pOp toks with
      | none => (stack, "bad-op")
      | some op =>
        match top with
        | St.ps s => let r := s.step op; (St.ps r.1 :: rest, fRes r.2)
        | St.pmm s => let r := s.step op; (St.pmm r.1 :: rest, fRes r.2)
        | St.world _ => (stack, "bad-op")
  | _, [] => (stack, "bad-op")

def main : IO Unit := do loopS (← IO.getStdin) [St.ps PSet.empty] stepLine
