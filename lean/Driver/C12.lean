import SkyllhModel.Proto
import SkyllhModel.Model.Stat
open Proto Stat

/-  requests (floats as IEEE bit patterns, names comma separated, `-` = empty list):
      ts   <ns> <ll>                              -> TS of WilksTestStatistic
      tst  <ns> <ll> <a> <b>                      -> TS of the zero-ns Taylor variant | notfinite
      ll   <N> <nSel> <ns> <Xs>                   -> logΛ (stable regime)
      lh   <N> <nSel> <Xs> <ops>                  -> history on one LLH-ratio object (e<ns>, n, g<ns>, t)
      g1   <N> <nSel> <ns> <Xs>                   -> d logΛ / d ns   (stable regime)
      g2   <N> <nSel> <ns> <gs>                   -> calculate_ns_grad2 (single dataset)
      g2m  <g2s> <fs>                             -> calculate_ns_grad2 (multi dataset)
      pv   <op> <tsv> <thr>                       -> ok k n p sigma | err V | err Z
      mix  <op> <tsv> <thr> <switch> <eta|none>   -> T <pv answer> | G <eta>
      poly <deg> <params(deg)> <params(1)> <pthr> -> ok <ns> <degree used> | err V | err I
      bind <params> <required> <kwargs> <nPos> <kws> -> ok | err ...
      fwd  <outer params> <fixed> <kws>           -> keywords reaching the inner callee
    op: 0 = 'greater', 1 = 'greater_equal', 2 = anything else
-/
def pOp (s : String) : Cmp :=
  if s == "0" then .greater else if s == "1" then .greaterEqual else .other

def fPv (r : Except PvErr (Float × Float)) (cnt : Except PvErr (Nat × Nat)) : String :=
  match r, cnt with
  | .ok (p, s), .ok (k, n) => s!"ok {k} {n} {fF p} {fF s}"
  | .error .valueError, _ => "err V"
  | .error .zeroDivision, _ => "err Z"
  | _, _ => "err ?"

def pNames (s : String) : List String := pList id s

def answer (line : String) : String :=
  match tokens line with
  | ["ts", ns, ll] => fF (ts (pF ns) (pF ll))
  | ["tst", ns, ll, a, b] => match tsTaylor (pF ns) (pF ll) (pF a) (pF b) with
      | some x => fF x
      | none => "notfinite"
  | ["ll", n, nsel, ns, xs] => fF (llrStable (pN n) (pN nsel) (pF ns) (pList pF xs))
  | ["lh", n, nsel, xs, ops] =>
      -- history on one LLH-ratio object: e<ns> evaluate, n new trial, g<ns> calculate_ns_grad2, t Taylor TS at ns = 0
      let N := pN n
      let nSel := pN nsel
      let Xs := pList pF xs
      let step (acc : LlhSt Float × List String) (op : String) : LlhSt Float × List String :=
        let (st, out) := acc
        let arg := (op.drop 1).toString
        if op.startsWith "e" then (st.evaluate (pF arg) Xs, out)
        else if op.startsWith "n" then (LlhSt.fresh, out)
        else if op.startsWith "g" then
          match st.grad2 N nSel (pF arg) with
          | .ok x => (st, out ++ [fF x])
          | .error _ => (st, out ++ ["R"])
        else
          match tsTaylorOn st N nSel Xs with
          | (st', .ok (some x)) => (st', out ++ [fF x])
          | (st', .ok none) => (st', out ++ ["notfinite"])
          | (st', .error _) => (st', out ++ ["R"])
      fListD id ((pList id ops).foldl step (LlhSt.fresh, [])).2
  | ["g1", n, nsel, ns, xs] => fF (nsGrad (pN n) (pN nsel) (pF ns) (pList pF xs))
  | ["g2", n, nsel, ns, gs] => fF (nsGrad2 (pN n) (pN nsel) (pF ns) (pList pF gs))
  | ["g2m", g2s, fs] => fF (nsGrad2Multi (pList pF g2s) (pList pF fs))
  | ["pv", op, tsv, thr] =>
      let l := pList pF tsv
      fPv (pval (pOp op) l (pF thr)) (pvalCounts (pOp op) l (pF thr))
  | ["mix", op, tsv, thr, sw, eta] =>
      let l := pList pF tsv
      let e : Option Float := if eta == "none" then none else some (pF eta)
      match pvalMixed (pOp op) l (pF thr) (pF sw) e with
      | .trials r => "T " ++ fPv r (pvalCounts (pOp op) l (pF thr))
      | .gammaFit x => "G " ++ fF x
  | ["poly", deg, pd, p1, pthr] =>
      let d := pN deg
      let fit : Nat → List Float := fun k => if k == d then pList pF pd else if k == 1 then pList pF p1 else []
      match polyFit fit d (pF pthr) with
      | .ok (x, du) => s!"ok {fF x} {du}"
      | .error .valueError => "err V"
      | .error .indexError => "err I"
      | .error .notFinite => "err N"
  | ["bind", ps, req, kw, npos, kws] =>
      match pyBind { params := pNames ps, required := pNames req, kwargs := pB kw } (pN npos) (pNames kws) with
      | .ok _ => "ok"
      | .error .tooManyPositional => "err pos"
      | .error (.unexpectedKeyword k) => s!"err unexp:{k}"
      | .error (.multipleValues k) => s!"err multi:{k}"
      | .error (.missing ms) => "err miss:" ++ fListD id ms
  | ["fwd", ps, fixed, kws] =>
      fListD id (forwardKws { params := pNames ps, required := [], kwargs := true } (pNames fixed) (pNames kws))
  | _ => "bad-op"

def main : IO Unit := do loop (← IO.getStdin) answer
