import SkyllhModel.Proto
import SkyllhModel.Model.Stat
import SkyllhModel.Model.PolyFitR7
open Proto Stat

/-  requests (floats as IEEE bit patterns, names comma separated, `-` = empty list):
      ts   <ns> <ll>                              -> TS of WilksTestStatistic
      tsc  <names> <name> <fitparams> <ll>        -> the Wilks call incl. the parameter lookup | K | I
      tstc <names> <name> <fitparams> <ll> <grads> <b> -> the Taylor call incl. the lookup
      tst  <ns> <ll> <a> <b>                      -> TS of the zero-ns Taylor variant | notfinite
      ll   <N> <nSel> <ns> <Xs>                   -> logΛ (stable regime)
      lh   <N> <nSel> <Xs> <ops>                  -> history on one LLH-ratio object (e<ns>, n, g<ns>, t), stable formulas
      lhc  <opa> <nSel> <nPure> <Xs> <ops>        -> the same with evaluate as coded (both regimes)
      llc / g1c <opa> <N> <nSel> <ns> <Xs>        -> log_lambda / grads[ns] as coded
      mh   <opa> <ds> <fs> <ops>                  -> history on one multi-dataset object (e, n, g, l, a, t)
      ph   <opa> <ns0> <ds> <fs> <ops>            -> history on one ns-profile object (n, e, l, g<pidx>_<ns>, t)
      g1   <N> <nSel> <ns> <Xs>                   -> d logΛ / d ns   (stable regime)
      g2   <N> <nSel> <ns> <gs>                   -> calculate_ns_grad2 (single dataset)
      g2m  <g2s> <fs>                             -> calculate_ns_grad2 (multi dataset)
      pv   <op> <tsv> <thr>                       -> ok k n p sigma | err V | err Z
      pg   <tsv> <n_max> <thr> <eta> <sf(eta)> <sf(thr)> -> ok p | err V | err Z   (gamma-fit branch)
      mix  <op> <tsv> <thr> <switch> <eta|none>   -> T <pv answer> | G <eta>
      poly <deg> <params(deg)> <params(1)> <pthr> -> ok <ns> <degree used> | err V | err I
      pfq  <deg> <xs> <ys> <ws>                   -> np.polyfit as exact weighted least squares (rationals num/den): ok <coeffs> | err <tag>
      pfd  <deg> <xs> <ys> <ws> <pthr>            -> polynomial_fit from the data (exact fit, inversion in doubles): <ok <ns> <deg used> | err P:<tag> | err V|I|N> ; <pfq deg> ; <pfq 1>
      bind <params> <required> <kwargs> <nPos> <kws> -> ok | err ...
      fwd  <outer params> <fixed> <kws>           -> keywords reaching the inner callee
    op: 0 = 'greater', 1 = 'greater_equal', 2 = anything else
-/
def pOp (s : String) : Cmp :=
  if s == "0" then .greater else if s == "1" then .greaterEqual else .other

def fPv (r : Except PvErr (Float × Float)) (cnt : Except PvErr (Nat × Nat)) : String :=
  match r, cnt with
  | .ok (p, s), .ok (k, n) => s!"ok {k} {n} {fF p} {fF s}"
  | .error .valueError, _ => "err V"
  | .error .zeroDivision, _ => "err Z"
  | _, _ => "err ?"

/-- nearest-ish double of a rational (relative error < 2^-52): 70 significant bits, then one rounding -/
def ratToFloat (q : Rat) : Float :=
  if q.num == 0 then 0.0 else
  let n := q.num.natAbs
  let d := q.den
  let k : Int := (n.log2 : Int) - (d.log2 : Int)
  let sh : Int := 70 - k
  let m : Nat := if sh ≥ 0 then (n <<< sh.toNat) / d else n / (d <<< (-sh).toNat)
  let f := (Float.ofNat m).scaleB (-sh)
  if q.num < 0 then -f else f

def fPfErr (e : PfErr) : String :=
  match e with
  | .degNegative => "D"
  | .xEmpty => "E"
  | .xyLen => "XY"
  | .wyLen => "WY"
  | .singular => "S"
  | .tooFewForCov => "C"
  | .degreeNotModelled => "M"

def pNames (s : String) : List String := pList id s

/-- datasets `nSel:nPure:x1/x2/...` separated by `;` (`-` for no selected event) -/
def pDs (s : String) : List (DsIn Float) :=
  (s.splitOn ";").map fun d =>
    match d.splitOn ":" with
    | [a, b, xs] => { nSel := pN a, nPure := pN b, Xs := if xs == "-" then [] else (xs.splitOn "/").map pF }
    | _ => { nSel := 0, nPure := 0, Xs := [] }

def fMErr (e : MultiErr) : String :=
  match e with
  | .noWeights => "W"
  | .shape => "S"
  | .runtime => "R"
  | .valueError => "V"
  | .noLogL0 => "N"

/-- history on one MultiDatasetTCLLHRatio object: e<ns> evaluate, n new trial, g<ns> calculate_ns_grad2,
l<ns> / a<ns> value / ns-gradient of evaluate, t Taylor TS at ns = 0 -/
def multiHist (opa : Float) (ds : List (DsIn Float)) (fs : List Float) (ops : List String) : List String :=
  let step (acc : MultiSt Float × List String) (op : String) : MultiSt Float × List String :=
    let (st, out) := acc
    let arg := (op.drop 1).toString
    if op.startsWith "e" then (st.evaluate opa (pF arg) fs ds, out)
    else if op.startsWith "n" then (st.newTrial, out)
    else if op.startsWith "l" then (st, out ++ [fF (multiLlr opa (pF arg) fs ds)])
    else if op.startsWith "a" then (st, out ++ [fF (multiNsGrad opa (pF arg) fs ds)])
    else if op.startsWith "g" then
      match st.grad2 (pF arg) ds with
      | .ok x => (st, out ++ [fF x])
      | .error e => (st, out ++ [fMErr e])
    else
      match tsTaylorOnMulti st opa fs ds with
      | (st', .ok (some x)) => (st', out ++ [fF x])
      | (st', .ok none) => (st', out ++ ["notfinite"])
      | (st', .error e) => (st', out ++ [fMErr e])
  (ops.foldl step (MultiSt.fresh ds.length, [])).2

/-- history on one NsProfileMultiDatasetTCLLHRatio object: n new trial (evaluates at ns0), e<ns>,
l<ns> profile log-lambda, g<pidx>_<ns>, t Taylor TS -/
def profHist (opa ns0 : Float) (ds : List (DsIn Float)) (fs : List Float) (ops : List String) : List String :=
  let step (acc : ProfSt Float × List String) (op : String) : ProfSt Float × List String :=
    let (st, out) := acc
    let arg := (op.drop 1).toString
    if op.startsWith "e" then (st.evaluate opa (pF arg) fs ds, out)
    else if op.startsWith "n" then (st.newTrial opa ns0 fs ds, out)
    else if op.startsWith "l" then
      match st.llr opa (pF arg) fs ds with
      | some x => (st, out ++ [fF x])
      | none => (st, out ++ ["N"])
    else if op.startsWith "a" then (st, out ++ [fF (multiNsGrad opa (pF arg) fs ds)])
    else if op.startsWith "g" then
      match arg.splitOn "_" with
      | [pidx, ns] =>
        match st.grad2 (pN pidx) (pF ns) ds with
        | .ok x => (st, out ++ [fF x])
        | .error e => (st, out ++ [fMErr e])
      | _ => (st, out ++ ["bad"])
    else
      match tsTaylorOnProf st opa fs ds with
      | (st', .ok (some x)) => (st', out ++ [fF x])
      | (st', .ok none) => (st', out ++ ["notfinite"])
      | (st', .error e) => (st', out ++ [fMErr e])
  (ops.foldl step (⟨MultiSt.fresh ds.length, none⟩, [])).2

def answer (line : String) : String :=
  match tokens line with
  | ["ts", ns, ll] => fF (ts (pF ns) (pF ll))
  | ["tsc", names, name, fp, ll] => match tsCall (pNames names) name (pList pF fp) (pF ll) with
      | .ok x => fF x
      | .error .keyError => "K"
      | .error .indexError => "I"
  | ["tstc", names, name, fp, ll, grads, b] =>
      match tsTaylorCall (pNames names) name (pList pF fp) (pF ll) (pList pF grads) (pF b) with
      | .ok (some x) => fF x
      | .ok none => "notfinite"
      | .error .keyError => "K"
      | .error .indexError => "I"
  | ["tst", ns, ll, a, b] => match tsTaylor (pF ns) (pF ll) (pF a) (pF b) with
      | some x => fF x
      | none => "notfinite"
  | ["ll", n, nsel, ns, xs] => fF (llrStable (pN n) (pN nsel) (pF ns) (pList pF xs))
  | ["llc", opa, n, nsel, ns, xs] => fF (llrCode (pF opa) (pN n) (pN nsel) (pF ns) (pList pF xs))
  | ["g1c", opa, n, nsel, ns, xs] => fF (nsGradCode (pF opa) (pN n) (pN nsel) (pF ns) (pList pF xs))
  | ["lhc", opa, nsel, npure, xs, ops] =>
      -- history on one single-dataset LLH-ratio object, evaluate as coded (both regimes)
      let o := pF opa
      let nSel := pN nsel
      let nPure := pN npure
      let Xs := pList pF xs
      let step (acc : LlhSt Float × List String) (op : String) : LlhSt Float × List String :=
        let (st, out) := acc
        let arg := (op.drop 1).toString
        if op.startsWith "e" then (st.evaluateCode o (pF arg) Xs, out)
        else if op.startsWith "n" then (LlhSt.fresh, out)
        else if op.startsWith "g" then
          match st.grad2Code nSel nPure (pF arg) with
          | .ok x => (st, out ++ [fF x])
          | .error _ => (st, out ++ ["R"])
        else
          match tsTaylorOnCode st o nSel nPure Xs with
          | (st', .ok (some x)) => (st', out ++ [fF x])
          | (st', .ok none) => (st', out ++ ["notfinite"])
          | (st', .error _) => (st', out ++ ["R"])
      fListD id ((pList id ops).foldl step (LlhSt.fresh, [])).2
  | ["mh", opa, dss, fss, ops] => fListD id (multiHist (pF opa) (pDs dss) (pList pF fss) (pList id ops))
  | ["ph", opa, ns0, dss, fss, ops] => fListD id (profHist (pF opa) (pF ns0) (pDs dss) (pList pF fss) (pList id ops))
  | ["lh", n, nsel, xs, ops] =>
      -- history on one LLH-ratio object: e<ns> evaluate, n new trial, g<ns> calculate_ns_grad2, t Taylor TS at ns = 0
      let N := pN n
      let nSel := pN nsel
      let Xs := pList pF xs
      let step (acc : LlhSt Float × List String) (op : String) : LlhSt Float × List String :=
        let (st, out) := acc
        let arg := (op.drop 1).toString
        if op.startsWith "e" then (st.evaluate (pF arg) Xs, out)
        else if op.startsWith "n" then (LlhSt.fresh, out)
        else if op.startsWith "g" then
          match st.grad2 N nSel (pF arg) with
          | .ok x => (st, out ++ [fF x])
          | .error _ => (st, out ++ ["R"])
        else
          match tsTaylorOn st N nSel Xs with
          | (st', .ok (some x)) => (st', out ++ [fF x])
          | (st', .ok none) => (st', out ++ ["notfinite"])
          | (st', .error _) => (st', out ++ ["R"])
      fListD id ((pList id ops).foldl step (LlhSt.fresh, [])).2
  | ["g1", n, nsel, ns, xs] => fF (nsGrad (pN n) (pN nsel) (pF ns) (pList pF xs))
  | ["g2", n, nsel, ns, gs] => fF (nsGrad2 (pN n) (pN nsel) (pF ns) (pList pF gs))
  | ["g2m", g2s, fs] => fF (nsGrad2Multi (pList pF g2s) (pList pF fs))
  | ["pv", op, tsv, thr] =>
      let l := pList pF tsv
      fPv (pval (pOp op) l (pF thr)) (pvalCounts (pOp op) l (pF thr))
  | ["pg", tsv, nmax, thr, eta, sfeta, sfthr] =>
      -- gamma-fit p-value with the fitted survival function given by its two relevant values
      let e := pF eta
      let sf : Float → Float := fun t => if t == e then pF sfeta else pF sfthr
      match pGamma sf (truncSample (pList pF tsv) (pN nmax)) (pF thr) e with
      | .ok p => "ok " ++ fF p
      | .error .valueError => "err V"
      | .error .zeroDivision => "err Z"
  | ["mix", op, tsv, thr, sw, eta] =>
      let l := pList pF tsv
      let e : Option Float := if eta == "none" then none else some (pF eta)
      match pvalMixed (pOp op) l (pF thr) (pF sw) e with
      | .trials r => "T " ++ fPv r (pvalCounts (pOp op) l (pF thr))
      | .gammaFit x => "G " ++ fF x
  | ["poly", deg, pd, p1, pthr] =>
      let d := pN deg
      let fit : Nat → List Float := fun k => if k == d then pList pF pd else if k == 1 then pList pF p1 else []
      match polyFit fit d (pF pthr) with
      | .ok (x, du) => s!"ok {fF x} {du}"
      | .error .valueError => "err V"
      | .error .indexError => "err I"
      | .error .notFinite => "err N"
  | ["pfq", deg, xs, ys, ws] =>
      match polyfitR7 (pI deg) (pList pQ xs) (pList pQ ys) (pList pQ ws) with
      | .ok c => "ok " ++ fListD fQ c
      | .error e => "err " ++ fPfErr e
  | ["pfd", deg, xs, ys, ws, pthr] =>
      let X := pList pQ xs
      let Y := pList pQ ys
      let W := pList pQ ws
      let fq : Except PfErr (List Rat) → String := fun r =>
        match r with
        | .ok c => "ok " ++ fListD fQ c
        | .error e => "err " ++ fPfErr e
      let res := match polynomialFitData ratToFloat (pI deg) X Y W (pF pthr) with
        | .ok (x, du) => s!"ok {fF x} {du}"
        | .error (.polyfit e) => "err P:" ++ fPfErr e
        | .error (.poly .valueError) => "err V"
        | .error (.poly .indexError) => "err I"
        | .error (.poly .notFinite) => "err N"
      s!"{res} ; {fq (polyfitR7 (pI deg) X Y W)} ; {fq (polyfitR7 1 X Y W)}"
  | ["bind", ps, req, kw, npos, kws] =>
      match pyBind { params := pNames ps, required := pNames req, kwargs := pB kw } (pN npos) (pNames kws) with
      | .ok _ => "ok"
      | .error .tooManyPositional => "err pos"
      | .error (.unexpectedKeyword k) => s!"err unexp:{k}"
      | .error (.multipleValues k) => s!"err multi:{k}"
      | .error (.missing ms) => "err miss:" ++ fListD id ms
  | ["fwd", ps, fixed, kws] =>
      fListD id (forwardKws { params := pNames ps, required := [], kwargs := true } (pNames fixed) (pNames kws))
  | _ => "bad-op"

def main : IO Unit := do loop (← IO.getStdin) answer
