import SkyllhModel.Proto
import SkyllhModel.Model.Flux
import SkyllhModel.Model.FluxRvR7
import SkyllhModel.Generated.C13
open Proto Flux

/-  requests (floats as IEEE bit patterns, `u` = unit factor or `-`):
      plcall E0 g E u | plint E0 g E1 E2 u n      -> closed:<v> quad:<v>
      cocall E0 g Ec E u | coint E0 g Ec E1 E2 u n -> quad value
      lpcall E0 a b E u | lpint E0 a b E1 E2 u n
      boxnew t0 tw | boxcall s e t | boxint s e t1 t2 | boxcdf s e t
      gnew t0 sigma tol | gcall s e sg t | gargs s e sg t1 t2 | gint s e sg t1 t2 xs ys | gcdf s e sg t xs ys
      outer phi0 S E T
    heap (stateful):
      reset | new <kind> <floats> | newffm phi0 refs | set i n1=v1,n2=v2 | move i dt | copy i
      get i name | names i | view i
    random variable of a time profile (round 7; state 0 = at creation, state 1 = live profile at the call):
      rv kind s0 e0 sg0 s1 e1 sg1 x xs ys  ->  <a>,<b>,<norm> <pdf|none> <cdf|none>   |  ERR (not a time profile)
-/

def pU (s : String) : Option Float := if s == "-" then none else some (pF s)

def nan : Float := 0.0 / 0.0

def erfTab (xs ys : List Float) : Float → Float := fun x =>
  match (xs.zip ys).find? (fun p => p.1 == x) with
  | some p => p.2
  | none => nan

def fCell : Cell Float → String
  | .unityS => "unityS"
  | .point ra dec => s!"point:{fF ra},{fF dec}"
  | .unityE => "unityE"
  | .pl a b => s!"pl:{fF a},{fF b}"
  | .cutoff a b c => s!"cutoff:{fF a},{fF b},{fF c}"
  | .logpar a b c => s!"logpar:{fF a},{fF b},{fF c}"
  | .func _ => "function"
  | .unityT w => s!"unityT:{fF w.tStart},{fF w.tStop}"
  | .box w => s!"box:{fF w.tStart},{fF w.tStop}"
  | .gauss g => s!"gauss:{fF g.tStart},{fF g.tStop},{fF g.sigma},{fF g.tol}"
  | .ffm p refs => s!"ffm:{fF p}:{fListD toString refs}"

def mkCell (kind : String) (xs : List Float) : Option (Cell Float) :=
  match kind, xs with
  | "unityS", [] => some .unityS
  | "point", [a, b] => some (.point a b)
  | "unityE", [] => some .unityE
  | "pl", [a, b] => some (.pl a b)
  | "cutoff", [a, b, c] => some (.cutoff a b c)
  | "logpar", [a, b, c] => some (.logpar a b c)
  | "function", [g, ec] => some (.func (fun E => Float.pow E (-g) * Float.exp ((-E) / ec)))
  | "unityT", [] => some (.unityT ⟨-(1.0 / 0.0), 1.0 / 0.0⟩)
  | "box", [t0, tw] => some (.box (boxNew t0 tw))
  | "gauss", [t0, s, tol] => (gaussNewChecked t0 s tol).map .gauss
  | _, _ => none

def pPD (s : String) : PDict Float :=
  pList (fun kv => match kv.splitOn "=" with
    | [k, v] => (PName.ofString k, pF v)
    | _ => (PName.other, nan)) s

def pn : ParamNames := Gen.C13.paramNames

def pure' (line : List String) : Option String :=
  match line with
  | ["plcall", e0, g, e, u] => some (fF (plCallU (pF e0) (pF g) (pF e) (pU u)))
  | ["plint", e0, g, e1, e2, u, n] =>
      let a := conv (pF e1) (pU u); let b := conv (pF e2) (pU u)
      some s!"closed:{fF (plIntegralU (pF e0) (pF g) (pF e1) (pF e2) (pU u))} quad:{fF (simpsonLog (plCall (pF e0) (pF g)) a b (pN n))}"
  | ["cocall", e0, g, ec, e, u] => some (fF (cutoffCallU (pF e0) (pF g) (pF ec) (pF e) (pU u)))
  | ["coint", e0, g, ec, e1, e2, u, n] =>
      some (fF (simpsonLog (cutoffCall (pF e0) (pF g) (pF ec)) (conv (pF e1) (pU u)) (conv (pF e2) (pU u)) (pN n)))
  | ["lpcall", e0, a, b, e, u] => some (fF (logparCallU (pF e0) (pF a) (pF b) (pF e) (pU u)))
  | ["lpint", e0, a, b, e1, e2, u, n] =>
      some (fF (simpsonLog (logparCall (pF e0) (pF a) (pF b)) (conv (pF e1) (pU u)) (conv (pF e2) (pU u)) (pN n)))
  | ["ufactor", own, arg] => some (match unitFactor (pF own) (pU arg) with
      | some f => fF f
      | none => "-")
  | ["tointernal", sa, se, sl, st, ia, ie, il, it] =>
      some (fF (toInternalFlux (pF sa) (pF se) (pF sl) (pF st) (pF ia) (pF ie) (pF il) (pF it)))
  | ["boxnew", t0, tw] => let w := boxNew (pF t0) (pF tw); some s!"{fF w.tStart},{fF w.tStop}"
  | ["boxcall", s, e, t] => some (fF (boxCall ⟨pF s, pF e⟩ (pF t)))
  | ["boxint", s, e, t1, t2] => some (fF (boxIntegral ⟨pF s, pF e⟩ (pF t1) (pF t2)))
  | ["boxcdf", s, e, t] => some (fF (boxCdf ⟨pF s, pF e⟩ (pF t)))
  | ["gnew", t0, sg, tol] =>
      match gaussNewChecked (pF t0) (pF sg) (pF tol) with
      | some g => some s!"{fF g.tStart},{fF g.tStop},{fF g.sigma},{fF g.tol}"
      | none => some "none"
  | ["gcall", s, e, sg, t] => some (fF (gaussCall ⟨pF s, pF e, pF sg, 0.0⟩ (pF t)))
  | ["gargs", s, e, sg, t1, t2] =>
      let g : Gauss Float := ⟨pF s, pF e, pF sg, 0.0⟩
      some (fList fF [gaussErfArg g (pF t1), gaussErfArg g (pF t2), gaussErfArg g g.tStart, gaussErfArg g g.tStop])
  | ["gint", s, e, sg, t1, t2, xs, ys] =>
      some (fF (gaussIntegral (erfTab (pList pF xs) (pList pF ys)) ⟨pF s, pF e, pF sg, 0.0⟩ (pF t1) (pF t2)))
  | ["gcdf", s, e, sg, t, xs, ys] =>
      some (fF (gaussCdf (erfTab (pList pF xs) (pList pF ys)) ⟨pF s, pF e, pF sg, 0.0⟩ (pF t)))
  | ["outer", p, s, e, t] =>
      some (fListD fF ((fluxOuter (pF p) (pList pF s) (pList pF e) (pList pF t)).flatten.flatten))
  | _ => none

def fOpt : Option Float → String
  | some x => fF x
  | none => "none"

def mkTime (kind : String) (s e sg : Float) : Cell Float :=
  match kind with
  | "unityT" => .unityT ⟨s, e⟩
  | "box" => .box ⟨s, e⟩
  | "gauss" => .gauss ⟨s, e, sg, 0.0⟩
  | _ => .unityE

def rvOp : List String → String
  | [kind, s0, e0, sg0, s1, e1, sg1, x, xs, ys] =>
      let erf := erfTab (pList pF xs) (pList pF ys)
      let c0 := mkTime kind (pF s0) (pF e0) (pF sg0)
      let c1 := mkTime kind (pF s1) (pF e1) (pF sg1)
      match rvNew (Gen.C13.rvNormDefault : Float) erf c0 with
      | none => "ERR"
      | some r =>
        let loc : Float := Gen.C13.rvLoc
        let scale : Float := Gen.C13.rvScale
        s!"{fF r.a},{fF r.b},{fF r.norm} {fOpt (rvPdfCell loc scale r c1 (pF x))} {fOpt (rvCdfCell loc scale erf r c1 (pF x))}"
  | _ => "bad-op"

def stepLine (h : Heap Float) (line : String) : Heap Float × String :=
  let toks := tokens line
  match pure' toks with
  | some r => (h, r)
  | none =>
  match toks with
  | "rv" :: rest => (h, rvOp rest)
  | ["reset"] => ([], "ok")
  | ["new", kind, xs] => match mkCell kind (pList pF xs) with
      | some c => (h ++ [c], toString h.length)
      | none => (h, "bad-new")
  | ["newffm", p, refs] => (h ++ [.ffm (pF p) (pList pN refs)], toString h.length)
  | ["set", i, pd] =>
      if pN i < h.length then
        let r := h.setParams pn (pN i) (pPD pd)
        (r.1, fB r.2)
      else (h, "ERR")
  | ["move", i, dt] => match h.move (pN i) (pF dt) with
      | some h' => (h', "ok")
      | none => (h, "ERR")
  | ["setv", i, pd] =>
      if pN i < h.length then
        let pdv : PDictV Float := pList (fun kv => match kv.splitOn "=" with
          | [k, "BAD"] => (PName.ofString k, PVal.bad)
          | [k, "ARR"] => (PName.ofString k, PVal.arr)
          | [k, v] => (PName.ofString k, PVal.num (pF v))
          | _ => (PName.other, PVal.bad)) pd
        let r := h.setParamsV pn (pN i) pdv
        (r.1, match r.2.2 with
          | some .typeError => "EXC:TypeError"
          | some .valueError => "EXC:ValueError"
          | none => fB r.2.1)
      else (h, "ERR")
  | ["moveu", i, dt, u] => match h.moveU (pN i) (pF dt) (pU u) with
      | some h' => (h', "ok")
      | none => (h, "ERR")
  | ["copyset", i, pd] => match h.copySet pn (pN i) (pPD pd) with
      | some (h', j) => (h', toString j)
      | none => (h, "ERR")
  | ["call", i, ra, dec, e, t, ua, ue, ut] =>
      let oL (x : String) : Option (List Float) := if x == "N" then none else some (pList pF x)
      let ang := match oL ra, oL dec with
        | some a, some d => some (a.zip d)
        | _, _ => none
      match h.call (pN i) ang (oL e) (oL t) (pU ua) (pU ue) (pU ut) with
      | some r => (h, fListD fF r.flatten.flatten)
      | none => (h, "ERR")
  | ["copy", i] => match h.copy (pN i) with
      | some (h', j) => (h', toString j)
      | none => (h, "ERR")
  | ["get", i, name] => (h, fOpt (h.getParam pn (pN i) (PName.ofString name)))
  | ["names", i] => (h, fListD id (h.paramNames pn (pN i)))
  | ["view", i] => (h, String.intercalate ";" ((h.view (pN i)).map fun c => match c with | some c => fCell c | none => "?"))
  | _ => (h, "bad-op")

def main : IO Unit := do loopS (← IO.getStdin) ([] : Heap Float) stepLine
