import SkyllhModel.Proto
import SkyllhModel.Model.Coords
import SkyllhModel.Model.CoordsR7
import SkyllhModel.Generated.C19
open Proto Coords

/-  requests (floats as IEEE bit patterns):
      sep    ra1 dec1 ra2 dec2            -> <haversine psi> <angle between unit vectors>
      sepf   ra1 dec1 ra2 dec2 floor      -> psi with floor
      azi2ra azi mjd                      -> ra
      hor    azi zen mjd                  -> ra dec
      psi2   srcDec srcRa psi t           -> dec ra
      rot    ra1 dec1 ra2 dec2 ra3 dec3   -> ra dec      (rotate_spherical_vector)
      reloc  sRa sDec tRa tDec rRa rDec   -> ra dec      (rotate_signal_events_on_sphere)
      psifield <src ra,dec,...> <evt ra,dec,...> <pairs k,e,...> <floor|->   -> psi list (ERR = IndexError)
      psffield <src ra,dec,...> <evt ra,dec,...> <sigma per event> <pairs k,e,...>   -> density list
      psf    sigma evtRa evtDec srcRa srcDec -> Gaussian PSF density
    whole calls (lists; answer `ERR:shape` / `ERR:latitude` / `ERR:index` for a Python exception):
      sepcall  <ra1> <dec1> <ra2> <dec2> <floor|->      -> psi list (numpy broadcasting)
      azicall  <azi> <mjd>                              -> ra list (numpy broadcasting)
      rotcall  <ra1> <dec1> <ra2> <dec2> <ra3> <dec3>   -> ra,dec,ra,dec,…
      reloccall <sRa> <sDec> <tRa> <tDec> <rRa> <rDec>  -> ra,dec,ra,dec,…
      psicall  <src> <evt> <pairs> <floor|->            -> psi list
      defpairs K n                                      -> k,e,k,e,…
      psicalli <src> <evt> <signed pairs> <floor|->     -> psi list   (numpy wrap-around of negative indices)
      normidx  n i                                      -> j | ERR:index
      horcall  <azi> <zen> <mjd>                        -> <ra list> <dec list>   (zen is not broadcast against azi/mjd)
      razicall <ra> <mjd>                               -> azi list
      psi2call srcDec srcRa <psis> <ts>                 -> <dec list> <ra list> <draw lo> <draw hi> <draw size>
    Every per-element answer ends with one token `b:<tag>+<tag>…` naming the branches of the model taken.
-/
def pairsF : List Float → List (Float × Float)
  | a :: b :: rest => (a, b) :: pairsF rest
  | _ => []
def pairsI : List Int → List (Int × Int)
  | a :: b :: rest => (a, b) :: pairsI rest
  | _ => []
def pairsN : List Nat → List (Nat × Nat)
  | a :: b :: rest => (a, b) :: pairsN rest
  | _ => []
def len : Float := Gen.C19.siderealLength
def off : Float := Gen.C19.siderealOffset
def eps : Float := Gen.C19.poleEps

def f2 (p : Float × Float) : String := s!"{fF p.1} {fF p.2}"
def nan : Float := 0.0 / 0.0
/-- `none` (argument outside the domain of arcsin/arccos) is numpy's NaN -/
def fO (o : Option Float) : String := match o with | some x => fF x | none => fF nan
def fO2 (ra : Float) (o : Option (Float × Float)) : String :=
  match o with | some p => f2 p | none => s!"{fF ra} {fF nan}"

def fErr (e : CallErr) : String := match e with
  | .shape => "ERR:shape" | .latitude => "ERR:latitude" | .index => "ERR:index"
def fOptPairs (r : List (Option (Float × Float))) : String :=
  fListD (fun o => match o with | some p => s!"{fF p.1},{fF p.2}" | none => s!"{fF nan},{fF nan}") r

/-! branch tags: which branch of each conditional of the model an input takes -/
def tClip01 (x : Float) : String := if x < 0 then "clip01:lo" else if 1 < x then "clip01:hi" else "clip01:in"
def tClipPM1 (n : String) (c : Float) : String :=
  if 1 < c then s!"{n}:hi" else if c < -1 then s!"{n}:lo" else s!"{n}:in"
def tDom (n : String) (x : Float) : String := if x < -1 then s!"{n}:nan-lo" else if 1 < x then s!"{n}:nan-hi" else s!"{n}:ok"
def tAbs (n : String) (x : Float) : String := if x < 0 then s!"{n}:neg" else s!"{n}:nonneg"

def tagsSep (a b c d : Float) : String :=
  let x := havX a b c d
  s!"b:{tClip01 x}+{tAbs "dra" (a - c)}+{tAbs "ddec" (b - d)}+{tDom "asin" (Float.sqrt (clip01 x))}"
def tagsSepf (a b c d f : Float) : String :=
  if angSep a b c d < f then "b:floor:applied" else "b:floor:not-applied"
def tagsAzi (a t : Float) : String :=
  let res := frac1 (t / len)
  let ra := off + 2 * Transc.pi * res - a
  let m1 := modF ra twoPi
  let s1 := if ra < 0 then "mod1:neg-arg" else if ra < twoPi then "mod1:in-range" else "mod1:ge-2pi"
  let s2 := if m1 < twoPi then "mod2:identity" else "mod2:maps-2pi-to-0"
  s!"b:{s1}+{s2}"
def tagsPsi2 (sd sr p t : Float) : String :=
  let v := psiCircle sd sr p t
  let azi := Coords.Fns.atan2 v.y v.x
  let r := Transc.pi - azi
  if r < twoPi then "b:ra:in-range" else "b:ra:2pi-to-0"
def tagsRot (a b c d e f : Float) : String :=
  let ca := Float.cos (c - a) * Float.cos b * Float.cos d + Float.sin b * Float.sin d
  let n0 := cross (unitVec a b) (unitVec c d)
  let norm := Float.sqrt (n0.x * n0.x + n0.y * n0.y + n0.z * n0.z)
  let v := rotVec a b c d e f
  let ra0 := Float.atan2 v.y v.x
  let ra1 := ra0 + (if ra0 < 0 then twoPi else 0)
  let t1 := if 0 < norm then "norm:pos" else "norm:zero"
  let t2 := if ra0 < 0 then "ra0:neg" else "ra0:nonneg"
  let t3 := if ra1 < twoPi then "ramod:identity" else "ramod:2pi-to-0"
  s!"b:{tClipPM1 "cosalpha" ca}+{t1}+{t2}+{t3}+{tClipPM1 "zclip" v.z}"
def tagsReloc (_sRa sDec tRa tDec rRa rDec : Float) : String :=
  let cb := offsetCosB sDec (posAngle tRa tDec rRa rDec) (vincenty tRa tDec rRa rDec)
  let t1 := if Float.cos sDec < eps then "pole-branch" else "regular-branch"
  s!"b:{t1}+{tDom "asin-cosb" cb}"

def answer (line : String) : String :=
  match tokens line with
  | ["sep", a, b, c, d] =>
      s!"{fO (angSepD (pF a) (pF b) (pF c) (pF d))} {fF (vecAngle (pF a) (pF b) (pF c) (pF d))} {tagsSep (pF a) (pF b) (pF c) (pF d)}"
  | ["sepf", a, b, c, d, f] =>
      s!"{fF (angSepFloor (pF a) (pF b) (pF c) (pF d) (some (pF f)))} {tagsSepf (pF a) (pF b) (pF c) (pF d) (pF f)}"
  | ["azi2ra", a, t] => s!"{fF (aziToRa len off (pF a) (pF t))} {tagsAzi (pF a) (pF t)}"
  | ["hor", a, z, t] => s!"{f2 (horToEqu len off (pF a) (pF z) (pF t))} {tagsAzi (pF a) (pF t)}"
  | ["psi2", sd, sr, p, t] =>
      s!"{f2 (psiToDecRa (pF sd) (pF sr) (pF p) (pF t))} {tagsPsi2 (pF sd) (pF sr) (pF p) (pF t)}"
  | ["rot", a, b, c, d, e, f] =>
      let r := fO2 (rotateSphericalVector (pF a) (pF b) (pF c) (pF d) (pF e) (pF f)).1
        (rotateSphericalVectorD (pF a) (pF b) (pF c) (pF d) (pF e) (pF f))
      s!"{r} {tagsRot (pF a) (pF b) (pF c) (pF d) (pF e) (pF f)}"
  | ["reloc", a, b, c, d, e, f] =>
      let r := fO2 (relocate eps (pF a) (pF b) (pF c) (pF d) (pF e) (pF f)).1
        (relocateD eps (pF a) (pF b) (pF c) (pF d) (pF e) (pF f))
      s!"{r} {tagsReloc (pF a) (pF b) (pF c) (pF d) (pF e) (pF f)}"
  | ["sepcall", a, b, c, d, fl] =>
      match angSepCall (pList pF a) (pList pF b) (pList pF c) (pList pF d) (if fl == "-" then none else some (pF fl)) with
      | .ok r => fListD fO r
      | .error e => fErr e
  | ["azicall", a, t] =>
      match aziToRaCall len off (pList pF a) (pList pF t) with
      | .ok r => fListD fF r
      | .error e => fErr e
  | ["rotcall", a, b, c, d, e, f] =>
      match rotateCall (pList pF a) (pList pF b) (pList pF c) (pList pF d) (pList pF e) (pList pF f) with
      | .ok r => fOptPairs r
      | .error e => fErr e
  | ["reloccall", a, b, c, d, e, f] =>
      match relocateCall eps (pList pF a) (pList pF b) (pList pF c) (pList pF d) (pList pF e) (pList pF f) with
      | .ok r => fOptPairs r
      | .error e => fErr e
  | ["psicall", ss, es, ps, fl] =>
      match psiFieldCall (pairsF (pList pF ss)) (pairsF (pList pF es)) (pairsN (pList pN ps))
        (if fl == "-" then none else some (pF fl)) with
      | .ok r => fListD fF r
      | .error e => fErr e
  | ["psicalli", ss, es, ps, fl] =>
      match psiFieldCallI (pairsF (pList pF ss)) (pairsF (pList pF es)) (pairsI (pList pI ps))
        (if fl == "-" then none else some (pF fl)) with
      | .ok r => fListD fF r
      | .error e => fErr e
  | ["normidx", n, i] =>
      match normIdx (pN n) (pI i) with
      | some j => toString j
      | none => "ERR:index"
  | ["horcall", a, z, t] =>
      match horToEquCall len off (pList pF a) (pList pF z) (pList pF t) with
      | .ok r => s!"{fListD fF r.1} {fListD fF r.2}"
      | .error e => fErr e
  | ["razicall", a, t] =>
      match raToAziCall len off (pList pF a) (pList pF t) with
      | .ok r => fListD fF r
      | .error e => fErr e
  | ["psi2call", sd, sr, ps, ts] =>
      match psiToDecRaCall (pF sd) (pF sr) (pList pF ps) (pList pF ts) with
      | .ok r =>
          let q : Float × Float × Nat := psiDrawRequest (pList pF ps)
          s!"{fListD fF r.1} {fListD fF r.2} {fF q.1} {fF q.2.1} {q.2.2}"
      | .error e => fErr e
  | ["defpairs", k, n] => fListD (fun p => s!"{p.1},{p.2}") (defaultPairs (pN k) (pN n))
  | ["psifield", ss, es, ps, fl] =>
      let r := psiField (pairsF (pList pF ss)) (pairsF (pList pF es)) (pairsN (pList pN ps))
        (if fl == "-" then none else some (pF fl))
      fListD (fun o => match o with | some x => fF x | none => "ERR") r
  | ["psffield", ss, es, sg, ps] =>
      let r := psfField (pairsF (pList pF ss)) (pairsF (pList pF es)) (pList pF sg) (pairsN (pList pN ps))
      fListD (fun o => match o with | some x => fF x | none => "ERR") r
  | ["psf", sg, a, b, c, d] => fF (gaussPsfPd (pF sg) (pF a) (pF b) (pF c) (pF d))
  | _ => "bad-op"

def main : IO Unit := do loop (← IO.getStdin) answer
