import SkyllhModel.Proto
import SkyllhModel.Model.Coords
import SkyllhModel.Generated.C19
open Proto Coords

/-  requests (floats as IEEE bit patterns):
      sep    ra1 dec1 ra2 dec2            -> <haversine psi> <angle between unit vectors>
      sepf   ra1 dec1 ra2 dec2 floor      -> psi with floor
      azi2ra azi mjd                      -> ra
      hor    azi zen mjd                  -> ra dec
      psi2   srcDec srcRa psi t           -> dec ra
      rot    ra1 dec1 ra2 dec2 ra3 dec3   -> ra dec      (rotate_spherical_vector)
      reloc  sRa sDec tRa tDec rRa rDec   -> ra dec      (rotate_signal_events_on_sphere)
      psifield <src ra,dec,...> <evt ra,dec,...> <pairs k,e,...> <floor|->   -> psi list (ERR = IndexError)
      psffield <src ra,dec,...> <evt ra,dec,...> <sigma per event> <pairs k,e,...>   -> density list
      psf    sigma evtRa evtDec srcRa srcDec -> Gaussian PSF density
-/
def pairsF : List Float → List (Float × Float)
  | a :: b :: rest => (a, b) :: pairsF rest
  | _ => []
def pairsN : List Nat → List (Nat × Nat)
  | a :: b :: rest => (a, b) :: pairsN rest
  | _ => []
def len : Float := Gen.C19.siderealLength
def off : Float := Gen.C19.siderealOffset
def eps : Float := Gen.C19.poleEps

def f2 (p : Float × Float) : String := s!"{fF p.1} {fF p.2}"
def nan : Float := 0.0 / 0.0
/-- `none` (argument outside the domain of arcsin/arccos) is numpy's NaN -/
def fO (o : Option Float) : String := match o with | some x => fF x | none => fF nan
def fO2 (ra : Float) (o : Option (Float × Float)) : String :=
  match o with | some p => f2 p | none => s!"{fF ra} {fF nan}"

def answer (line : String) : String :=
  match tokens line with
  | ["sep", a, b, c, d] =>
      s!"{fO (angSepD (pF a) (pF b) (pF c) (pF d))} {fF (vecAngle (pF a) (pF b) (pF c) (pF d))}"
  | ["sepf", a, b, c, d, f] => fF (angSepFloor (pF a) (pF b) (pF c) (pF d) (some (pF f)))
  | ["azi2ra", a, t] => fF (aziToRa len off (pF a) (pF t))
  | ["hor", a, z, t] => f2 (horToEqu len off (pF a) (pF z) (pF t))
  | ["psi2", sd, sr, p, t] => f2 (psiToDecRa (pF sd) (pF sr) (pF p) (pF t))
  | ["rot", a, b, c, d, e, f] =>
      fO2 (rotateSphericalVector (pF a) (pF b) (pF c) (pF d) (pF e) (pF f)).1
        (rotateSphericalVectorD (pF a) (pF b) (pF c) (pF d) (pF e) (pF f))
  | ["reloc", a, b, c, d, e, f] =>
      fO2 (relocate eps (pF a) (pF b) (pF c) (pF d) (pF e) (pF f)).1
        (relocateD eps (pF a) (pF b) (pF c) (pF d) (pF e) (pF f))
  | ["psifield", ss, es, ps, fl] =>
      let r := psiField (pairsF (pList pF ss)) (pairsF (pList pF es)) (pairsN (pList pN ps))
        (if fl == "-" then none else some (pF fl))
      fListD (fun o => match o with | some x => fF x | none => "ERR") r
  | ["psffield", ss, es, sg, ps] =>
      let r := psfField (pairsF (pList pF ss)) (pairsF (pList pF es)) (pList pF sg) (pairsN (pList pN ps))
      fListD (fun o => match o with | some x => fF x | none => "ERR") r
  | ["psf", sg, a, b, c, d] => fF (gaussPsfPd (pF sg) (pF a) (pF b) (pF c) (pF d))
  | _ => "bad-op"

def main : IO Unit := do loop (← IO.getStdin) answer
