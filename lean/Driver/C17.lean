import SkyllhModel.Proto
import SkyllhModel.Model.Load
import SkyllhModel.Model.LoadI3
import SkyllhModel.Model.LoadDispatchR7
open Proto Load

/-  requests (one per line; names are tokens without blank , : ; | / = characters; cells are integers:
    the value for i8/i4, the IEEE bit pattern for f8/f4):

      load <fmt> <mode> <bs> <files> <keep> <conv> <exc>
           fmt   npy | parquet | csv          mode  time | memory
           files `|`-separated, each `!` (no such file) or `schema;row;row…`, schema `name:dt,…`
                 (`_` = no fields), row `cell,cell,…`
           keep  `*` (None) | `-` (empty) | names        conv `-` | `f8:f4,…`     exc `-` | names
        -> ok <arr> | err <class>        arr = len/name:dt:c,c,c/…
      ds <fmt> <mode> <bs> <dpExp,dpMc,anExp,anMc> <tidy> <cfgFields> <dsFields> <expRen> <mcRen> <keep> <conv>
         <exc|*> <prep> <livetime> <expfiles|-> <mcfiles|->
           tidy  merged (current code) | cfg (code before the repair)
           prep  `-` | `dup:e:src:dst,del:m:name,…`
        -> ok exp=<arr|none> mc=<arr|none> | err <class>
      dss <fmt> <mode> <bs> <stages> <cfgFields> <dsFields> <expRen> <mcRen> <keep> <conv> <exc|*> <prep> <livetime>
          <expfiles|-> <mcfiles|->      one load of a history on a shared Config
        -> cfg=<cfg['datafields'] after the load> ok exp=… mc=… | cfg=… err <class>
      keepf <dpExp,dpMc,anExp,anMc> <cfgFields> <dsFields> <expRen> <mcRen> <keep>  -> exp=<names> mc=<names>
      rename <names> <old:new,…>   -> ok name:source-index,… | err <class>     (rename_fields, any dictionary)
      pkl <obj|!,…>   -> one <obj> | many <obj,…> | err <class>          (PKLFileLoader.load_data)
      i3 <fmt> <mode> <bs> <stages> <cfgFields> <dsFields> <expRen> <mcRen> <grlRen> <keep> <prep> <livetime|*>
         <expfiles|-> <mcfiles|-> <grlfiles|->   (I3Dataset.load_and_prepare_data)
        -> ok exp=… mc=… grl=… livetime=<bits|none> | err <class>
      alias <listed names|-> <app:name|pop|rev|clear,…>  -> the data set's file list after the caller changed its own list object
      abspaths <root_dir> <a:name|r:name,…>  -> resolved names in listed order (get_abs_pathfilename_list)
      orcheck <stage> <stages>  -> 0|1
    round 7 (strings = code points joined by `.`, `e` = the empty string):
      dispatch <fmt:tag,…|-> <str|seq|other> <names|->   -> ok <tag> <names> | err <class>       (create_FileLoader)
      register <fmt:tag,…|-> <str|seq|other> <formats|-> <isLoader 0|1> <tag>  -> <registry after the call> ok|err <class>
      header <comment> <sep|*> <line> <keep|*>  -> ok <names> <usecols|*> | err <class>   (TextFileLoader: header line, usecols)
-/

def pStr (s : String) : LoadR7.Str := if s == "e" then [] else (s.splitOn ".").map String.toNat!
def fStr (s : LoadR7.Str) : String := if s.isEmpty then "e" else String.intercalate "." (s.map toString)
def pReg (s : String) : List (LoadR7.Str × String) :=
  pList (fun x => match x.splitOn ":" with | [a, b] => (pStr a, b) | _ => ([], "?")) s
def fReg (r : List (LoadR7.Str × String)) : String := fListD (fun (e : LoadR7.Str × String) => fStr e.1 ++ ":" ++ e.2) r
def fDErr : LoadR7.DErr → String
  | .typeError => "typeError" | .keyError => "keyError" | .indexError => "indexError" | .noLoader => "noLoader"
  | .valueError => "valueError" | .noColumns => "noColumns"

abbrev F := File String DT Int
abbrev A := Arr String DT Int

def pDT (s : String) : DT :=
  match s with
  | "f8" => .f8 | "f4" => .f4 | "i8" => .i8 | _ => .i4

def fDT : DT → String
  | .f8 => "f8" | .f4 => "f4" | .i8 => "i8" | .i4 => "i4"

def pPair (s : String) : String × String :=
  match s.splitOn ":" with
  | [a, b] => (a, b)
  | _ => (s, "")

def pFile (s : String) : Option F :=
  if s == "!" then none
  else
    match s.splitOn ";" with
    | [] => none
    | sch :: rows =>
      let schema := if sch == "_" then [] else (sch.splitOn ",").map (fun x => let p := pPair x; (p.1, pDT p.2))
      some ⟨schema, rows.map (fun r => if r == "" then [] else (r.splitOn ",").map String.toInt!)⟩

/-- the file system: path `i` = the `i`-th listed file -/
def pFiles (s : String) : List (Option F) := if s == "-" then [] else (s.splitOn "|").map pFile

def mkFs (files : List (Option F)) : Nat → Option F := fun i => (files[i]?).join

def pKeep (s : String) : Option (List String) := if s == "*" then none else some (pList id s)

def pConv (s : String) : List (DT × DT) := (pList pPair s).map (fun p => (pDT p.1, pDT p.2))

def pTable (s : String) : List (String × Nat) := (pList pPair s).map (fun p => (p.1, p.2.toNat!))

def pRen (s : String) : List (String × String) := pList pPair s

def pPrep (s : String) : List (PrepOp String) :=
  (pList id s).filterMap (fun x => match x.splitOn ":" with
    | ["dup", w, a, b] => some (.dup (w == "m") a b)
    | ["del", w, a] => some (.del (w == "m") a)
    | _ => none)

def fErr : Err → String
  | .fileMissing => "fileMissing" | .keyError => "keyError" | .indexError => "indexError"
  | .uninit => "uninit" | .noColumns => "noColumns" | .schemaMismatch => "schemaMismatch"
  | .noLivetime => "noLivetime" | .castKind => "castKind" | .castOverflow => "castOverflow"
  | .zeroDivision => "zeroDivision"

def fArr (a : A) : String :=
  String.intercalate "/" (toString a.len :: a.cols.map (fun c =>
    s!"{c.name}:{fDT c.dt}:{fList (fun (v : Int) => toString v) c.cells}"))

def fOpt : Option A → String
  | none => "none"
  | some a => fArr a

def pMode (s : String) : Mode := if s == "memory" then .memory else .time

def loader (fmt : String) (mode : Mode) (bs : Nat) (fs : Nat → Option F) :
    List Nat → Opts String DT → Except Err A :=
  fun paths o =>
    match fmt with
    | "parquet" => parquetLoad castCopyCell fs paths o
    | "csv" => csvLoad castCopyCell castCell promoteDT DT.f8 fs paths o
    | _ => npyLoad castCopyCell castAssignCell castCell promoteDT mode fs bs paths o

def pStages (s : String) : Stages :=
  match pList pN s with
  | [a, b, c, d] => ⟨a, b, c, d⟩
  | _ => ⟨1, 2, 4, 8⟩

def answer (line : String) : String :=
  match tokens line with
  | ["load", fmt, mode, bs, files, keep, conv, exc] =>
    let fl := pFiles files
    match loader fmt (pMode mode) (pN bs) (mkFs fl) (List.range fl.length) ⟨pKeep keep, pConv conv, pList id exc⟩ with
    | .ok a => "ok " ++ fArr a
    | .error e => "err " ++ fErr e
  | ["ds", fmt, mode, bs, st, tidy, cfgF, dsF, eRen, mRen, keep, conv, exc, prep, lt, eFiles, mFiles] =>
    let ef := pFiles eFiles
    let mf := pFiles mFiles
    let fs := mkFs (ef ++ mf)
    let c : DsCfg String DT := ⟨pTable cfgF, pTable dsF, pRen eRen, pRen mRen, pList id keep, pConv conv,
      if exc == "*" then none else some (pList id exc)⟩
    let table := if tidy == "cfg" then c.cfgFields else c.merged
    let ld := loader fmt (pMode mode) (pN bs) fs
    let ep := List.range ef.length
    let mp := (List.range mf.length).map (· + ef.length)
    -- which branch of load_and_prepare_data the case takes (coverage bookkeeping of the harness)
    let trace : String := match loadData (pStages st) ld c ep mp with
      | .error _ => "load"
      | .ok d => match prepRun (pPrep prep) d with
        | .error _ => "prep"
        | .ok (e, m) =>
          let e' := tidyOpt (jointNames table (pStages st).anExp ++ c.keep) e
          let m' := tidyOpt (jointNames table ((pStages st).anExp ||| (pStages st).anMc) ++ c.keep) m
          let cnt : Option A → Nat := fun x => match x with
            | none => 0
            | some a => a.cols.length
          let removed := if cnt e + cnt m > cnt e' + cnt m' then "removes" else "keeps-all"
          let missE : Bool := match e' with
            | none => false
            | some a => !(missingKeys (a.cols.map (·.name)) (jointNames table (pStages st).anExp)).isEmpty
          let missM : Bool := match m' with
            | none => false
            | some a => !(missingKeys (a.cols.map (·.name))
                (jointNames table ((pStages st).anExp ||| (pStages st).anMc))).isEmpty
          removed ++ "," ++ (if missE then "missing-exp" else if missM then "missing-mc"
            else if !(pB lt) then "noLivetime" else "ok")
    match loadAndPrepareWith table (pStages st) ld (prepRun (pPrep prep)) c ep mp (pB lt) with
    | .ok (e, m) => s!"ok exp={fOpt e} mc={fOpt m} trace={trace}"
    | .error e => "err " ++ fErr e ++ " trace=" ++ trace
  | ["dss", fmt, mode, bs, st, cfgF, dsF, eRen, mRen, keep, conv, exc, prep, lt, eFiles, mFiles] =>
    -- one load of a history on a shared Config: post-state of cfg['datafields'] + the result
    let ef := pFiles eFiles
    let mf := pFiles mFiles
    let fs := mkFs (ef ++ mf)
    let c : DsCfg String DT := ⟨pTable cfgF, pTable dsF, pRen eRen, pRen mRen, pList id keep, pConv conv,
      if exc == "*" then none else some (pList id exc)⟩
    let (post, res) := loadAndPrepareS (pStages st) (loader fmt (pMode mode) (pN bs) fs) (prepRun (pPrep prep)) c
        (List.range ef.length) ((List.range mf.length).map (· + ef.length)) (pB lt)
    let cfgS := fListD (fun (p : String × Nat) => s!"{p.1}:{p.2}") post
    match res with
    | .ok (e, m) => s!"cfg={cfgS} ok exp={fOpt e} mc={fOpt m}"
    | .error e => s!"cfg={cfgS} err " ++ fErr e
  | ["keepf", st, cfgF, dsF, eRen, mRen, keep] =>
    let c : DsCfg String DT := ⟨pTable cfgF, pTable dsF, pRen eRen, pRen mRen, pList id keep, [], none⟩
    s!"exp={fListD id (keepExp (pStages st) c)} mc={fListD id (keepMc (pStages st) c)}"
  | ["rename", names, ren] =>
    -- DataFieldRecordArray.rename_fields on fields `names` (field i holds the single cell i)
    let cols : List (Col String DT Int) := (pList id names).zipIdx.map (fun p => ⟨p.1, DT.i8, [Int.ofNat p.2]⟩)
    match renameFields (pRen ren) (⟨cols, 1⟩ : A) with
    | .ok a => "ok " ++ fListD (fun (c : Col String DT Int) => s!"{c.name}:{fList (fun (v : Int) => toString v) c.cells}") a.cols
    | .error e => "err " ++ fErr e
  | ["pkl", objs] =>
    -- PKLFileLoader.load_data: file i holds the object named by token i (`!` = no such file)
    let os : List (Option String) := (pList id objs).map (fun x => if x == "!" then none else some x)
    match pklLoad (fun i : Nat => (os[i]?).join) (List.range os.length) with
    | .ok (.one o) => "one " ++ o
    | .ok (.many l) => "many " ++ fListD id l
    | .error e => "err " ++ fErr e
  | ["i3", fmt, mode, bs, st, cfgF, dsF, eRen, mRen, gRen, keep, prep, lt, eFiles, mFiles, gFiles] =>
    -- I3Dataset.load_and_prepare_data; lt = `*` (None) or the bit pattern of the live time
    let ef := pFiles eFiles
    let mf := pFiles mFiles
    let gf := pFiles gFiles
    let fs := mkFs (ef ++ mf ++ gf)
    let c : DsCfg String DT := ⟨pTable cfgF, pTable dsF, pRen eRen, pRen mRen, pList id keep, [], none⟩
    match i3LoadAndPrepare i3OpsCell i3NamesStr (pStages st) (loader fmt (pMode mode) (pN bs) fs) (prepRun (pPrep prep)) c
        (List.range ef.length) ((List.range mf.length).map (· + ef.length))
        ((List.range gf.length).map (· + ef.length + mf.length)) (pRen gRen)
        (if lt == "*" then none else some (pI lt)) with
    | .ok (e, m, g, l) =>
      let ls := match l with
        | none => "none"
        | some v => toString v
      s!"ok exp={fOpt e} mc={fOpt m} grl={fOpt g} livetime={ls}"
    | .error e => "err " ++ fErr e
  | ["alias", initial, ops] =>
    -- the data set's file list after the caller changed the list object it defined the data set with
    let os : List (ListOp String) := (pList id ops).map (fun x =>
      if x.startsWith "app:" then ListOp.append (x.drop 4).toString
      else if x == "pop" then .pop else if x == "rev" then .reverse else .clear)
    match fileListAfter defineCopy (pList id initial) os with
    | some l => fListD id l
    | none => "ERR"
  | ["abspaths", root, entries] =>
    -- Dataset.get_abs_pathfilename_list: entries `a:<absolute name>` | `r:<relative name>`
    let es : List (PathEntry String) := (pList id entries).map (fun x =>
      if x.startsWith "a:" then PathEntry.abs (x.drop 2).toString else PathEntry.rel (x.drop 2).toString)
    fListD id (getAbsPaths (fun p => root ++ "/" ++ p) es)
  | ["orcheck", a, b] => fB (orCheck (pN a) (pN b))
  | ["dispatch", reg, form, names] =>
    let ps := pList pStr names
    let arg : LoadR7.PathArg := if form == "str" then .str (ps.headD []) else if form == "seq" then .seq ps else .other
    match LoadR7.createLoader (pReg reg) arg with
    | .ok (cls, l) => s!"ok {cls} {fListD fStr l}"
    | .error e => "err " ++ fDErr e
  | ["register", reg, form, fmts, isL, tag] =>
    let fs := pList pStr fmts
    let arg : LoadR7.FmtArg := if form == "str" then .str (fs.headD []) else if form == "seq" then .seq fs else .other
    match LoadR7.registerLoader (pReg reg) arg (pB isL) tag with
    | (r, none) => fReg r ++ " ok"
    | (r, some e) => fReg r ++ " err " ++ fDErr e
  | ["header", comment, sep, line, keep] =>
    let sp : Option LoadR7.Str := if sep == "*" then none else some (pStr sep)
    let kp : Option (List LoadR7.Str) := if keep == "*" then none else some (pList pStr keep)
    match LoadR7.headerSelect (pStr comment) sp (pStr line) kp with
    | .ok (names, uc) => s!"ok {fListD fStr names} " ++ (match uc with | none => "*" | some l => fListD toString l)
    | .error e => "err " ++ fDErr e
  | _ => "bad-op"

def main : IO Unit := do loop (← IO.getStdin) answer
