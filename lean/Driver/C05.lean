import SkyllhModel.Proto
import SkyllhModel.Model.EvSel
import SkyllhModel.Model.EvSelR7
import SkyllhModel.Model.EvSelCrit
import SkyllhModel.Generated.C05
open Proto EvSel EvSelCrit

/-  requests (floats as IEEE bit patterns, lists comma separated, `-` = empty list):

      run <srcRa> <srcDec> <evRa> <evDec> <evAngErr> <evPsi> <evFval> <mode> <inc> <method>*

        mode   S            select_events(events, inc, ret_original_evt_idxs=True)
               T:N          TrialDataManager.initialize_trial without index field
               T:<sigma>    ... with index field; <sigma> = the argsort permutation
               H:N | H:<sigma>   the same call on the *current manager object* (state kept between
                                 requests; `hnew` = construct a fresh manager); uses the object model
                                 `initTrialObj` (with the reset of the stored table)
               E            select_events on the *current selection-method object*: the sources given in
                            the request are ignored, the cached source array of the object is used

      enew <id> <srcRa> <srcDec>      construct the method object(s) with manager object <id>
      echange <id> <srcRa> <srcDec>   change_shg_mgr(manager <id>), whose source list is currently the given one
                                      (always refreshes the cached source array)
      echangechk <acc1> <acc2> <id> <srcRa> <srcDec>   the same call when the argument check of the first / the other
                                      sub-methods accepts (1) or rejects (0): -> raised | ok (chainChangeChecked, two-phase)
        inc    N | <src list>/<evt list>          (incoming src_evt_idxs; only used in mode S)
        method dec:<delta> | ra:<delta> | box:<delta> | all | psifunc | angerr:<a>:<b>:<floor>
               several methods = left-nested `&` chain; none (mode T only) = no event selection

      answer   ev:<tags> src:<list> evt:<list> org:<list>     (org only in mode S)   |  ERR

      isargsort <keys> <sigma>   -> 1 iff sigma is an admissible np.argsort(keys) (permutation, keys non-decreasing)
      argsort <keys>             -> np.argsort(keys, kind='stable')
      batch <B> <K> <n>     -> rows of batchedMask with rowOf k = [k, k, ...] marker bits (k odd)

    readers of the stored table (round 7; <tab> = N (no table stored) | <src list>/<evt list>; array entries are
    opaque tokens that are passed through; several arrays are separated by `;`, `E` = empty sequence):
      bsrc <K> <tab> <arr>      -> broadcast_sources_array_to_values_array: entries, `u` = never written | ERR:<kind>
      bsrcs <K> <tab> <arrs>    -> broadcast_sources_arrays_to_values_arrays
      bsel <tab> <arrs>         -> broadcast_selected_events_arrays_to_values_arrays
      vmask <K> <tab> <bits>    -> get_values_mask_for_source_mask (bits comma separated 0/1)
      incmask <K> <n> <tab>     -> EventSelectionMethod.create_src_evt_mask: rows `r<bits>` | ERR (index outside the shape)
-/

structure Ev where
  ra : Float
  dec : Float
  angErr : Float
  psi : Float
  fval : Float
  tag : Nat

structure Src where
  ra : Float
  dec : Float
deriving Inhabited

def mkEvs (ra dec ae psi fv : List Float) : List Ev :=
  let a := ra.toArray
  let d := dec.toArray
  let e := ae.toArray
  let p := psi.toArray
  let f := fv.toArray
  (List.range a.size).map fun i =>
    { ra := a[i]!, dec := d[i]!, angErr := e[i]!, psi := p[i]!, fval := f[i]!, tag := i }

def parseMethod (srcs : Array Src) (K : Nat) (tok : String) : Option (Method Ev) :=
  match tok.splitOn ":" with
  | ["dec", d] =>
    let δ := pF d
    some (maskMethod K (fun k e => inDecBand (srcs.getD k default).dec δ e.dec))
  | ["ra", d] =>
    let δ := pF d
    some (maskMethod K (fun k e => inRABandCap (Gen.C05.raBandCap : Float) (srcs.getD k default).ra (srcs.getD k default).dec δ e.ra))
  | ["box", d] =>
    let δ := pF d
    some (boxMethod Gen.C05.batchSize K
      (fun k e => inBoxRaCap (Gen.C05.boxCap : Float) (srcs.getD k default).ra (srcs.getD k default).dec δ e.ra)
      (fun k e => inDecBand (srcs.getD k default).dec δ e.dec))
  | ["all"] => some (allMethod K)
  | ["psifunc"] => some (psiFuncMethod (fun e => psiFunc e.psi e.fval))
  | ["psifuncswap"] => some (psiFuncMethod (fun e => psiFunc e.fval e.psi))
  | ["angerr", a, b, fl] =>
    let a := pF a
    let b := pF b
    let fl := pF fl
    some (pairMethod K (fun k e => angErrCrit a b fl (srcs.getD k default).ra (srcs.getD k default).dec e.ra e.dec e.angErr))
  | _ => none

def parseMethods (srcs : Array Src) (K : Nat) : List String → Option (List (Method Ev))
  | [] => some []
  | t :: ts =>
    match parseMethod srcs K t, parseMethods srcs K ts with
    | some m, some ms => some (m :: ms)
    | _, _ => none

def chainAll : List (Method Ev) → Option (Method Ev)
  | [] => none
  | m :: ms => some (ms.foldl chain m)

def parseInc (s : String) : Option Pairs :=
  if s == "N" then none
  else match s.splitOn "/" with
    | [a, b] => some ((pList pN a).zip (pList pN b))
    | _ => none

def fNat (n : Nat) : String := toString n

def fmtPairs (P : Pairs) : String :=
  s!"src:{fListD fNat (P.map Prod.fst)} evt:{fListD fNat (P.map Prod.snd)}"

def fErr : ConsErr → String
  | .noTable => "ERR:noTable"
  | .badLength => "ERR:badLength"
  | .badIndex => "ERR:badIndex"

def pArrs (s : String) : List (List String) :=
  if s == "E" then [] else (s.splitOn ";").map (pList id)

def fOpt : Option String → String
  | none => "u"
  | some x => x

def fArrs {α} (f : α → String) (xs : List (List α)) : String :=
  if xs.isEmpty then "E" else String.intercalate ";" (xs.map (fListD f))

structure St where
  tdm : TdmObj Ev
  esm : EsmObj Src

def mkSrcs (sra sdec : String) : List Src :=
  ((pList pF sra).zip (pList pF sdec)).map fun p => { ra := p.1, dec := p.2 }

/-- a manager object holding `K` sources and the given table (the events are not read by the readers) -/
def mkObj (k tab : String) : TdmObj Ev :=
  { events := [], srcEvtIdxs := parseInc tab, nSources := pN k, nEvents := 0 }

def answerRun (st : St) (line : String) : St × String :=
  match tokens line with
  | ["hnew"] => ({ st with tdm := TdmObj.fresh }, "ok")
  | ["enew", id, sra, sdec] => ({ st with esm := { shgId := pN id, srcArr := mkSrcs sra sdec } }, "ok")
  | ["echange", id, sra, sdec] =>
    ({ st with esm := st.esm.changeShgMgr false (pN id) (mkSrcs sra sdec) }, "ok")
  | ["echangechk", a1, a2, id, sra, sdec] =>
    -- change_shg_mgr on an intersection whose sub-methods accept (1) / reject (0) the manager: two-phase check
    let r := chainChangeChecked true (pB a1) (pB a2) (st.esm, st.esm) (pN id) (mkSrcs sra sdec)
    ({ st with esm := r.1.1 }, if r.2 then "raised" else "ok")
  | "run" :: sra :: sdec :: era :: edec :: eae :: epsi :: efv :: mode :: inc :: meths =>
    let srcs : Array Src := (if mode == "E" then st.esm.srcArr else mkSrcs sra sdec).toArray
    let K := srcs.size
    let evs := mkEvs (pList pF era) (pList pF edec) (pList pF eae) (pList pF epsi) (pList pF efv)
    match parseMethods srcs K meths with
    | none => (st, "bad-method")
    | some ms =>
      if mode == "S" || mode == "E" then
        match chainAll ms with
        | none => (st, "bad-method")
        | some m =>
          match m evs (parseInc inc) with
          | none => (st, "ERR")
          | some r =>
            (st, s!"ev:{fListD fNat (r.events.map Ev.tag)} {fmtPairs r.pairs} org:{fListD fNat r.org}")
      else
        -- mode = T:<sigma|N>[:<n_events|N>]  or  H:<sigma|N>[:<n_events|N>]
        let parts := mode.splitOn ":"
        let perm := parts.getD 1 "N"
        let nev := parts.getD 2 "N"
        let argsort : Option (List Ev → List Nat) :=
          if perm == "N" then none else some (fun _ => pList pN perm)
        -- `N` = argument not given: the default extracted from the current source
        let nEv : Option Nat := if nev == "N" then Gen.C05.nEventsDefault else some (pN nev)
        let self : TdmObj Ev := if mode.startsWith "H:" then st.tdm else TdmObj.fresh
        -- `tdm.index_field_name = ...` (property setter), then `tdm.initialize_trial(...)`
        match (self.setIndexField argsort).initialize K evs (chainAll ms) nEv with
        | none => (st, "ERR")
        | some s =>
          let ans := s!"ev:{fListD fNat (s.events.map Ev.tag)} {fmtPairs (s.srcEvtIdxs.getD [])} nv:{(s.nValues.getD 0)} ns:{s.nSources} ne:{s.nEvents} bkg:{s.nPureBkg}"
          (if mode.startsWith "H:" then { st with tdm := s } else st, ans)
  | ["isargsort", ks, sg] => (st, fB (isArgsort (pList pF ks) (pList pN sg)))
  | ["argsort", ks] => (st, fListD fNat (argsortStable (pList pF ks)))
  | ["bsrc", k, tab, arr] =>
    (st, match (mkObj k tab).readSources (pList id arr) with
      | .error e => fErr e
      | .ok r => fListD fOpt r)
  | ["bsrcs", k, tab, arrs] =>
    (st, match (mkObj k tab).readSourcesMany (pArrs arrs) with
      | .error e => fErr e
      | .ok r => fArrs fOpt r)
  | ["bsel", tab, arrs] =>
    (st, match (mkObj "0" tab).readSelected (pArrs arrs) with
      | .error e => fErr e
      | .ok r => fArrs id r)
  | ["vmask", k, tab, bits] =>
    (st, match (mkObj k tab).readValuesMask (pList pB bits) with
      | .error e => fErr e
      | .ok r => fListD fB r)
  | ["incmask", k, n, tab] =>
    (st, match parseInc tab with
      | none => "bad-op"
      | some P =>
        match incMask (pN k) (pN n) P with
        | none => "ERR"
        | some rows => fListD (fun row => "r" ++ String.join (row.map fB)) rows)
  | ["batch", b, k, n] =>
    let rows := batchedMask (pN b) (pN k) (pN n) (fun k => List.replicate (pN n) (k % 2 == 1))
    (st, fListD (fun row => "r" ++ String.join (row.map fB)) rows)
  | _ => (st, "bad-op")

def main : IO Unit := do
  loopS (← IO.getStdin) ({ tdm := TdmObj.fresh, esm := { shgId := 0, srcArr := [] } } : St) answerRun
