import SkyllhModel.Proto
import SkyllhModel.Model.Par
import SkyllhModel.Model.ParStatus
import SkyllhModel.Model.ParSetupR7
import Std.Data.HashSet
open Proto Par

/-  requests (pids as in the code: 0 = master, child j has pid j+1; tasks are 0 … n-1, the result of a
    task is its number, so `done:` lists the task numbers in output order):
      split   <n> <ncpu>                                -> chunks, `|`-separated (`-` = empty chunk)
      run     <cur|orig> <ncpu> <n> <faults> <logs> <prefix>
                                                        -> done:<list> | error | stuck   under the schedule
                                                           prefix (pids) followed by round-robin
      explore <cur|orig> <ncpu> <n> <faults> <logs>     -> set of outcomes over *all* schedules, `;`-separated
    faults: `-` or `;`-separated  pid:raise:t | pid:exit:t:code | pid:xq:code:flushed | pid:xp:code (partial write)
            | pid:xs:code (exit after the sentinel) | 0:raise:t (the function raises in the master)
    `run cur` appends ` tags:<branches of childStep/masterStep taken>`; kinds: cur | orig | swapped
      ncpuof  <cfg value> <local value>   (none | int:<n> | other)   -> ok:<n> | TypeError | ValueError
      trials  <cfg value> <local value> <n>  -> Analysis.do_trials: done:<order> | IndexError | TypeError | ValueError
      status  <shown> <cap> <tasks> <drainAtJoin>   (Model/ParStatus)  -> exits | stuck
    round 7 (Model/ParSetupR7):
      setup   <ncpu:int> <rss> <tl> <n> <caller seed> <draws>   (rss, tl: none | ok | wrong; draws: what the caller's service yields)
              -> single rss=<k> tl=<k> tag:… | rejected tag:… | TypeError tag:…
               | ok seeds=<seed or `none`, per child> draws=<k> tl=<0|1 per child> pids=<pid of each task>
                 tasks=<seed of the service/numbers it yielded before/local task number/input, per output position> tag:…
      ncpuofp <default> <min> <cfg value> <local value>          -> as ncpuof, literals as parameters
      ncpuprop <default> <minGet> <minSet> <cfg value> <value>   -> ok:<n> | set:<E> | get:<E>
      kwargs  <keys of the task's own kwargs> <rss given 0|1> <tl given 0|1>  -> key=own|svc, in dict order
      badexit <exit codes>                                       -> none | <index>:<code>
-/

def parseFault (s : String) : Option (Nat × Fault) :=
  match s.splitOn ":" with
  | [p, "raise", t] => some (p.toNat! - 1, .raiseAt t.toNat!)
  | [p, "exit", t, c] => some (p.toNat! - 1, .exitAt t.toNat! c.toNat!)
  | [p, "xq", c, b] => some (p.toNat! - 1, .exitQueued c.toNat! (b == "1"))
  | [p, "xp", c] => some (p.toNat! - 1, .exitQueuedPartial c.toNat!)
  | [p, "xs", c] => some (p.toNat! - 1, .exitAfterSentinel c.toNat!)
  | _ => none

def parseFaults (s : String) : Nat → Option Fault :=
  let fs := if s == "-" then [] else (s.splitOn ";").filterMap parseFault
  fun j => (fs.find? (·.1 == j)).map (·.2)

/-- the master's fault: token `0:raise:t` -/
def parseMFault (s : String) : Option Nat :=
  if s == "-" then none else
  ((s.splitOn ";").filterMap fun tok =>
    match tok.splitOn ":" with
    | ["0", "raise", t] => some t.toNat!
    | _ => none).head?

def cfgOf (ncpu n : Nat) (faults logs : String) : Cfg Nat Nat :=
  mkCfg (fun _ _ x => x) (List.range n) ncpu (parseFaults faults) (logs == "1") (parseMFault faults)

structure Key (M : Type) where
  m : M
  acc0 : List Nat
  rq : List (Nat × List Nat)
  ws : List (Child Nat)
  poison : Option Nat
  ended : Bool
  deriving BEq, Hashable

def keyOf {M : Type} (n : Nat) (s : State M Nat) : Key M :=
  ⟨s.m, s.acc0, s.rq, (List.range n).map s.ws, s.poison, s.ended⟩

def agents (n : Nat) : List Agent := (List.range (n + 1)).map agentOf

def outCur : MPhase Nat → Option String
  | .done r => some ("done:" ++ fListD toString r)
  | .error => some "error"
  | _ => none

def outOrig : Orig.MPhase Nat → Option String
  | .done r => some ("done:" ++ fListD toString r)
  | .error => some "error"
  | _ => none

/-- run under `sched pre n`; after the prefix, a full round-robin round without any change of a
non-terminal state means the state is absorbing: `stuck` -/
partial def runSched {M : Type} [BEq M] [Hashable M] (n : Nat) (stepf : State M Nat → Agent → State M Nat)
    (out : M → Option String) (pre : List Agent) (s : State M Nat) : String :=
  match out s.m with
  | some o => o
  | none =>
    match pre with
    | a :: rest => runSched n stepf out rest (stepf s a)
    | [] =>
      let s' := (agents n).foldl stepf s
      if keyOf n s' == keyOf n s then "stuck" else runSched n stepf out [] s'

partial def exploreAll {M : Type} [BEq M] [Hashable M] (n : Nat) (stepf : State M Nat → Agent → State M Nat)
    (out : M → Option String) (todo : List (State M Nat)) (seen : Std.HashSet (Key M))
    (outs : List String) (budget : Nat) : List String :=
  match todo with
  | [] => outs
  | s :: rest =>
    if budget = 0 then "budget" :: outs else
    match out s.m with
    | some o => exploreAll n stepf out rest seen (if outs.contains o then outs else o :: outs) budget
    | none =>
      let k := keyOf n s
      let succs := ((agents n).map (stepf s)).filter (fun s' => !(keyOf n s' == k))
      if succs.isEmpty then
        exploreAll n stepf out rest seen (if outs.contains "stuck" then outs else "stuck" :: outs) budget
      else
        let (todo', seen') := succs.foldl (fun (acc : List (State M Nat) × Std.HashSet (Key M)) s' =>
          let k' := keyOf n s'
          if acc.2.contains k' then acc else (s' :: acc.1, acc.2.insert k')) (rest, seen)
        exploreAll n stepf out todo' seen' outs (budget - 1)

def sortStrs (xs : List String) : List String := (xs.toArray.qsort (· < ·)).toList

def outSwapped : Swapped.MPhase Nat → Option String
  | .done r => some ("done:" ++ fListD toString r)
  | .error => some "error"
  | _ => none

/-- which branch of `childStep` / `masterStep` a step takes (diagnostic: branch coverage of the model runs) -/
def tagChild (cfg : Cfg Nat Nat) (s : State (MPhase Nat) Nat) (j : Nat) : String :=
  if j < cfg.nchild then
    match (s.ws j).phase with
    | .running t =>
      match (cfg.chunk (j+1))[t]? with
      | some _ => if (taskFault (cfg.fault j) t).isSome then "c.taskFault" else "c.task"
      | none =>
        if (queuedFault (cfg.fault j) false).isSome then "c.putLost"
        else if (partialFault (cfg.fault j)).isSome then "c.putPartial" else "c.put"
    | .queued => if (queuedFault (cfg.fault j) true).isSome then "c.sentinelFault" else "c.sentinel"
    | .finished => if exitCode (cfg.fault j) == 0 then "c.exit0" else "c.exitNonzero"
    | .exited _ => "c.idle"
  else "c.none"

def tagMaster (cfg : Cfg Nat Nat) (s : State (MPhase Nat) Nat) : String :=
  match s.m with
  | .own t =>
    match (cfg.chunk 0)[t]? with
    | some _ => if cfg.mfault = some t then "m.ownRaise" else "m.ownTask"
    | none => "m.ownEnd"
  | .gather =>
    if filled cfg.nchild s.ws < cfg.nchild then
      if s.poison = some 0 then "m.blocked"
      else match s.rq with
        | _ :: _ => "m.pop"
        | [] => if s.ended then "m.missing" else if snapG cfg s then "m.resnap" else "m.sleep"
    else "m.toJoin"
  | .drain j =>
    if j < cfg.nchild then
      match (s.ws j).lq with
      | .sentinel :: _ => "m.sentinel"
      | .record :: _ => "m.record"
      | [] => if s.ended then "m.logsLost" else if isExited (s.ws j).phase then "m.drainSnap" else "m.logsWait"
    else "m.badPid"
  | .join =>
    if allTo cfg.nchild (fun j => isExited (s.ws j).phase) then
      if allZero cfg s then
        match collect (filled cfg.nchild s.ws) s.ws with
        | some _ => "m.done"
        | none => "m.keyError"
      else "m.badExit"
    else "m.joinWait"
  | .done _ => "m.terminal"
  | .error => "m.terminal"
  | .recv => "m.recv"

def tagOf (cfg : Cfg Nat Nat) (s : State (MPhase Nat) Nat) : Agent → String
  | .master => tagMaster cfg s
  | .child j => tagChild cfg s j

/-- like `runSched` for the current model, collecting the branch tags -/
partial def runTags (cfg : Cfg Nat Nat) (pre : List Agent) (s : State (MPhase Nat) Nat) (tags : List String) :
    String × List String :=
  match outCur s.m with
  | some o => (o, tags)
  | none =>
    let add (ts : List String) (t : String) := if ts.contains t then ts else t :: ts
    match pre with
    | a :: rest => runTags cfg rest (step cfg s a) (add tags (tagOf cfg s a))
    | [] =>
      let (s', tags') := (agents cfg.nchild).foldl (fun (acc : State (MPhase Nat) Nat × List String) a =>
        (step cfg acc.1 a, add acc.2 (tagOf cfg acc.1 a))) (s, tags)
      if keyOf cfg.nchild s' == keyOf cfg.nchild s then ("stuck", tags') else runTags cfg [] s' tags'

/-- status-queue model: the master stops reading first (`masterEnd`), then round-robin; `exits` | `stuck` -/
partial def runStatus (c : ParStatus.Cfg) (s : ParStatus.St) (fuel : Nat) : String :=
  if s.exited then "exits" else if fuel = 0 then "fuel" else
  let s' := [ParStatus.Ag.worker, .feeder, .master, .masterEnd].foldl (ParStatus.step c) s
  if s' == s then "stuck" else runStatus c s' (fuel - 1)

def pyVal (s : String) : PyVal :=
  if s == "none" then .none
  else match s.splitOn ":" with
    | ["int", n] => .int n.toInt!
    | _ => .other

def argOf (s : String) : ParSetup.Arg :=
  if s == "ok" then .ok else if s == "wrong" then .wrong else .none

def fArg : ParSetup.Arg → String
  | .none => "none"
  | .ok => "ok"
  | .wrong => "wrong"

def answer (line : String) : String :=
  match tokens line with
  | ["split", n, ncpu] =>
      String.intercalate "|" ((arraySplit (List.range n.toNat!) ncpu.toNat!).map (fListD toString))
  | ["run", _, "0", _, _, _, _] => "error"
  | ["explore", _, "0", _, _, _] => "error"
  | ["run", kind, ncpu, n, faults, logs, pre] =>
      let cfg := cfgOf ncpu.toNat! n.toNat! faults logs
      let p := (pList pN pre).map agentOf
      if kind == "orig" then runSched cfg.nchild (Orig.step cfg) outOrig p Orig.init
      else if kind == "swapped" then runSched cfg.nchild (Swapped.step cfg) outSwapped p Swapped.init
      else
        let (o, tags) := runTags cfg p init []
        o ++ " tags:" ++ String.intercalate "," (sortStrs tags)
  | ["explore", kind, ncpu, n, faults, logs] =>
      let cfg := cfgOf ncpu.toNat! n.toNat! faults logs
      let r := if kind == "orig" then
          exploreAll cfg.nchild (Orig.step cfg) outOrig [Orig.init] {} [] 400000
        else if kind == "swapped" then
          exploreAll cfg.nchild (Swapped.step cfg) outSwapped [Swapped.init] {} [] 400000
        else exploreAll cfg.nchild (step cfg) outCur [init] {} [] 400000
      String.intercalate ";" (sortStrs r)
  | ["status", shown, cap, tasks, drain] =>
      let c : ParStatus.Cfg := { shown := shown == "1", cap := cap.toNat!, tasks := tasks.toNat!, drainAtJoin := drain == "1" }
      runStatus c (ParStatus.step c ParStatus.init .masterEnd) (4 * tasks.toNat! + 16)
  | ["trials", c, l, n] =>
      -- Analysis.do_trials(n) for the given ncpu settings, fault-free, round-robin
      match getNcpu (pyVal c) (pyVal l) with
      | .error e => e
      | .ok ncpu =>
        let cfg := cfgOf ncpu n.toNat! "-" "0"
        match (runTags cfg [] init []).1.splitOn ":" with
        | ["done", r] =>
          (match assembleTrials (pList pN r) with
           | .ok rs => "done:" ++ fListD toString rs
           | .error e => e)
        | o => String.intercalate ":" o
  | ["ncpuof", c, l] =>
      match getNcpu (pyVal c) (pyVal l) with
      | .ok n => s!"ok:{n}"
      | .error e => e
  | ["setup", ncpu, rss, tl, n, seed, draws] =>
      let ds := pList pN draws
      let r := ParSetup.setup (pI ncpu) (argOf rss) (argOf tl) (fun i => ds.getD i 0)
      let tag := " tag:" ++ ParSetup.setupTag (pI ncpu) (argOf rss) (argOf tl)
      match r with
      | .error e => e ++ tag
      | .ok s =>
        let tasks := " tasks=" ++ fListD id (ParSetup.seededExpected
                (fun sd skip t x => (match sd with | some v => toString v | none => "none") ++ s!"/{skip}/{t}/{x}")
                s (if argOf rss = .ok then some (pN seed) else none) (List.range (pN n)) (pI ncpu).toNat)
        if s.single then s!"single rss={fArg s.masterRss} tl={fArg s.masterTl}" ++ tasks ++ tag
        else
          "ok seeds=" ++ fListD (fun o => match o with | some v => toString v | none => "none") s.childSeeds
            ++ s!" draws={s.masterDraws} tl=" ++ fListD fB s.childTl
            ++ " pids=" ++ fListD toString (ParSetup.taskPid (pN n) (pI ncpu).toNat)
            ++ tasks ++ tag
  | ["ncpuofp", d, m, c, l] =>
      match ParSetup.getNcpuP (pI d) (pI m) (pyVal c) (pyVal l) with
      | .ok n => s!"ok:{n}"
      | .error e => e
  | ["ncpuprop", d, mg, ms, c, v] =>
      match ParSetup.ncpuProperty (pI d) (pI mg) (pI ms) (pyVal c) (pyVal v) with
      | .ok n => s!"ok:{n}"
      | .error e => e
  | ["kwargs", own, rss, tl] =>
      -- own: keys of the caller's dictionary (value `own`); rss / tl: 1 = the process has a service / TimeLord (value `svc`)
      let d := (pList id own).map fun k => (k, "own")
      fListD (fun kv => kv.1 ++ "=" ++ kv.2)
        (ParSetup.taskKwargs d (if pB rss then some "svc" else none) (if pB tl then some "svc" else none))
  | ["badexit", codes] =>
      match ParSetup.firstBadExit (pList pI codes) with
      | none => "none"
      | some (i, c) => s!"{i}:{c}"
  | _ => "bad-op"

def main : IO Unit := do loop (← IO.getStdin) answer
