import SkyllhModel.Proto
import SkyllhModel.Model.Par
import Std.Data.HashSet
open Proto Par

/-  requests (pids as in the code: 0 = master, child j has pid j+1; tasks are 0 … n-1, the result of a
    task is its number, so `done:` lists the task numbers in output order):
      split   <n> <ncpu>                                -> chunks, `|`-separated (`-` = empty chunk)
      run     <cur|orig> <ncpu> <n> <faults> <logs> <prefix>
                                                        -> done:<list> | error | stuck   under the schedule
                                                           prefix (pids) followed by round-robin
      explore <cur|orig> <ncpu> <n> <faults> <logs>     -> set of outcomes over *all* schedules, `;`-separated
    faults: `-` or `;`-separated  pid:raise:t | pid:exit:t:code | pid:xq:code:flushed | pid:xp:code (partial write)
-/

def parseFault (s : String) : Option (Nat × Fault) :=
  match s.splitOn ":" with
  | [p, "raise", t] => some (p.toNat! - 1, .raiseAt t.toNat!)
  | [p, "exit", t, c] => some (p.toNat! - 1, .exitAt t.toNat! c.toNat!)
  | [p, "xq", c, b] => some (p.toNat! - 1, .exitQueued c.toNat! (b == "1"))
  | [p, "xp", c] => some (p.toNat! - 1, .exitQueuedPartial c.toNat!)
  | _ => none

def parseFaults (s : String) : Nat → Option Fault :=
  let fs := if s == "-" then [] else (s.splitOn ";").filterMap parseFault
  fun j => (fs.find? (·.1 == j)).map (·.2)

def cfgOf (ncpu n : Nat) (faults logs : String) : Cfg Nat Nat :=
  mkCfg (fun _ _ x => x) (List.range n) ncpu (parseFaults faults) (logs == "1")

structure Key (M : Type) where
  m : M
  acc0 : List Nat
  rq : List (Nat × List Nat)
  ws : List (Child Nat)
  poison : Option Nat
  deriving BEq, Hashable

def keyOf {M : Type} (n : Nat) (s : State M Nat) : Key M :=
  ⟨s.m, s.acc0, s.rq, (List.range n).map s.ws, s.poison⟩

def agents (n : Nat) : List Agent := (List.range (n + 1)).map agentOf

def outCur : MPhase Nat → Option String
  | .done r => some ("done:" ++ fListD toString r)
  | .error => some "error"
  | _ => none

def outOrig : Orig.MPhase Nat → Option String
  | .done r => some ("done:" ++ fListD toString r)
  | .error => some "error"
  | _ => none

/-- run under `sched pre n`; after the prefix, a full round-robin round without any change of a
non-terminal state means the state is absorbing: `stuck` -/
partial def runSched {M : Type} [BEq M] [Hashable M] (n : Nat) (stepf : State M Nat → Agent → State M Nat)
    (out : M → Option String) (pre : List Agent) (s : State M Nat) : String :=
  match out s.m with
  | some o => o
  | none =>
    match pre with
    | a :: rest => runSched n stepf out rest (stepf s a)
    | [] =>
      let s' := (agents n).foldl stepf s
      if keyOf n s' == keyOf n s then "stuck" else runSched n stepf out [] s'

partial def exploreAll {M : Type} [BEq M] [Hashable M] (n : Nat) (stepf : State M Nat → Agent → State M Nat)
    (out : M → Option String) (todo : List (State M Nat)) (seen : Std.HashSet (Key M))
    (outs : List String) (budget : Nat) : List String :=
  match todo with
  | [] => outs
  | s :: rest =>
    if budget = 0 then "budget" :: outs else
    match out s.m with
    | some o => exploreAll n stepf out rest seen (if outs.contains o then outs else o :: outs) budget
    | none =>
      let k := keyOf n s
      let succs := ((agents n).map (stepf s)).filter (fun s' => !(keyOf n s' == k))
      if succs.isEmpty then
        exploreAll n stepf out rest seen (if outs.contains "stuck" then outs else "stuck" :: outs) budget
      else
        let (todo', seen') := succs.foldl (fun (acc : List (State M Nat) × Std.HashSet (Key M)) s' =>
          let k' := keyOf n s'
          if acc.2.contains k' then acc else (s' :: acc.1, acc.2.insert k')) (rest, seen)
        exploreAll n stepf out todo' seen' outs (budget - 1)

def sortStrs (xs : List String) : List String := (xs.toArray.qsort (· < ·)).toList

def answer (line : String) : String :=
  match tokens line with
  | ["split", n, ncpu] =>
      String.intercalate "|" ((arraySplit (List.range n.toNat!) ncpu.toNat!).map (fListD toString))
  | ["run", _, "0", _, _, _, _] => "error"
  | ["explore", _, "0", _, _, _] => "error"
  | ["run", kind, ncpu, n, faults, logs, pre] =>
      let cfg := cfgOf ncpu.toNat! n.toNat! faults logs
      let p := (pList pN pre).map agentOf
      if kind == "orig" then runSched cfg.nchild (Orig.step cfg) outOrig p Orig.init
      else runSched cfg.nchild (step cfg) outCur p init
  | ["explore", kind, ncpu, n, faults, logs] =>
      let cfg := cfgOf ncpu.toNat! n.toNat! faults logs
      let r := if kind == "orig" then
          exploreAll cfg.nchild (Orig.step cfg) outOrig [Orig.init] {} [] 400000
        else exploreAll cfg.nchild (step cfg) outCur [init] {} [] 400000
      String.intercalate ";" (sortStrs r)
  | _ => "bad-op"

def main : IO Unit := do loop (← IO.getStdin) answer
