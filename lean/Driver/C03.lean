import SkyllhModel.Proto
import SkyllhModel.Model.LLH
import SkyllhModel.Model.Weights
import SkyllhModel.Model.WeightsR7
open Proto Weights

/-  requests (`q` = exact rationals `num/den`, otherwise floats as IEEE bit patterns):
      fjq   <K> <W q-list> <Y flat q-list>               -> none | f_j q-list
      rwq   <E> <ak q-list> <R flat (K x E) q-list>      -> code:<R_i q-list> spec:<R_i q-list | none when A = 0>
      rsq   <nSel> <ak q-list> <src idx> <evt idx> <flat values q-list>
            -> sparse:<R_i q-list> dense:<R_i q-list>     the scatter-add as coded on the real index arrays / the dense form
      row   <sizes> <W> <Y row>                          -> a_jk row group slice by group slice (running index), the same with sliceBounds, and W*Y
      wsob  <opa> <ns> <zb> <N> <nSel> <dataset idx>:<K>:<a_jk table flat> <s values> <src idx> <evt idx> <b per selected event> <r2 values | ->
            -> none | <log Λ> <sum |terms|>      SourceWeighted(SigOverBkg [x ratio]) on the flat values array
      hist  <opa> <K> <W0> <fac per source> <J> {<N_j> <E_j> <R_j flat>} {A <Y base flat> | F | E <ns> | W <weights> <order> | C}
            (the yield of position k is base_jk * fac[source standing at k])
            -> the values of the E steps: the state machine `lowRun` (cached W, a_jk, f_j) on low-level operations
      prow  <values>                          -> what fields p_1.. / p_1:gpidx.. of a row assigned from paramRow hold: <values> <indices>
      bld   <J> {<builder ids of group g>}     -> error | code:<J x G builder ids, x = unfilled> spec:<J x G builder ids>
      grd   <axis> <exp> <sizes> <W> <Y flat> {<0/1 per group: key reported> <dY flat>}
            -> f:<f_j | error> then per key: none | <a_jk_grads flat>;<f_j_grads | error>;<spec rows flat>;<f_j_grads spec>
      life  <W0> {S <W'> | C <0/1> | A <Y flat (J x K)> | F | GA | GF}
            -> per call: ok | None | T:<a_jk flat> | V:<f_j> | E:<exception>   (WeightsR7.lifeRun, exceptions as coded)
      shp   <sizes> <W> {<yield arrays of one dataset, one per group, ';'-separated>}
            -> error | a_jk flat   (WeightsR7.calcRowChecked: numpy's broadcasting of src_weights * Yg into the slice)
      multi <opa> <ns> <K> <W> <Y flat> <J> {<N_j> <E_j> <R_j flat (K x E_j)>}   -> <log Λ> <f list> <sum |terms|>
-/
def chunk {α} (n : Nat) (xs : List α) : List (List α) :=
  if n = 0 then [] else
  let rec go (fuel : Nat) (ys : List α) : List (List α) :=
    match fuel with
    | 0 => []
    | fuel + 1 => if ys.isEmpty then [] else ys.take n :: go fuel (ys.drop n)
  go xs.length xs

def rowsOf {α} (K : Nat) (nRows : Nat) (xs : List α) : List (List α) :=
  (List.range nRows).map (fun r => (xs.drop (r * K)).take K)

def parseDatasets (K : Nat) : List String → List (Dataset Float)
  | n :: e :: r :: rest =>
      let E := pN e
      { N := pN n, nSel := E, Rk := rowsOf E K (pList pF r) } :: parseDatasets K rest
  | _ => []

/-- Σ_j (Σ_i |log Λ_i| + |pure-background term|): the scale of the tolerance -/
def sumAbs (opa ns : Float) (W : List Float) (Y : List (List Float)) (ds : List (Dataset Float)) : Float :=
  let a := ajk W Y
  ((List.zip (fj a) (List.zip a ds)).map (fun p =>
    let nsj := ns * p.1
    let d := p.2.2
    let Xs := (ratioWeighted p.2.1 d.Rk d.nSel).map (LLH.xOfRatio d.N)
    (Xs.map (fun X => (LLH.logLambdaI opa nsj X).abs)).foldl (· + ·) 0
      + (LLH.pureBkgTerm d.N Xs.length nsj).abs)).foldl (· + ·) 0

def parseOps (K : Nat) : List String → List (LowOp (List (List Float)) Float)
  | "A" :: y :: rest =>
      let Yf := pList pF y
      .calcA (rowsOf K (Yf.length / K) Yf) :: parseOps K rest
  | "F" :: rest => .calcF :: parseOps K rest
  | "E" :: ns :: rest => .evalBody (pF ns) :: parseOps K rest
  | "W" :: w :: o :: rest => .setSources (pList pF w) (pList pN o) :: parseOps K rest
  | "C" :: rest => .changeShgMgr :: parseOps K rest
  | _ => []

def answer (line : String) : String :=
  match tokens line with
  | ["fjq", k, w, y] =>
      let K := pN k
      let W := pList pQ w
      let Yf := pList pQ y
      let Y := rowsOf K (Yf.length / K) Yf
      match fjOpt (ajk W Y) with
      | none => "none"
      | some f => fListD fQ f
  | ["rwq", e, ak, r] =>
      let E := pN e
      let a := pList pQ ak
      let Rk := rowsOf E a.length (pList pQ r)
      let code := ratioWeighted a Rk E
      let spec := (List.range E).map (weightedMeanAt a Rk)
      s!"code:{fListD fQ code} spec:{if sumF a = 0 then "none" else fListD fQ spec}"
  | ["rsq", e, ak, src, evt, v] =>
      let E := pN e
      let a := pList pQ ak
      let srcI := pList pN src
      let evtI := pList pN evt
      let vals := pList pQ v
      s!"sparse:{fListD fQ (ratioSparse a srcI evtI vals E)} dense:{fListD fQ (ratioWeighted a (densify a.length E srcI evtI vals) E)}"
  | ["row", sizes, w, y] =>
      let sz := pList pN sizes
      let W := pList pF w
      let Y := pList pF y
      let init := List.replicate W.length (0.0 / 0.0 : Float)
      let gs := List.zip (splitSizes sz W) (splitSizes sz Y)
      s!"{fListD fF (calcRow init gs)} {fListD fF (calcRowS init gs)} {fListD fF (List.zipWith (· * ·) W Y)}"
  | ["wsob", opa, ns, zb, n, nsel, tab, sv, src, evt, b, r2] =>
      let a := match tab.splitOn ":" with
        | [j, k, flat] =>
            let fl := pList pF flat
            akOfDataset (rowsOf (pN k) (fl.length / pN k) fl) (pN j)
        | _ => []
      let srcI := pList pN src
      let evtI := pList pN evt
      let N := pN n
      let nSel := pN nsel
      match LLH.sobValues (pF zb) (pList pF sv) (pList pF b) evtI with
      | none => "none"
      | some r1 =>
        let vals? := if r2 == "-" then some r1 else LLH.ratioProductChecked r1 (pList pF r2)
        match vals? with
        | none => "none"
        | some vals =>
          let Ri := ratioSparse a srcI evtI vals nSel
          let Xs := Ri.map (LLH.xOfRatio N)
          let sa := (Xs.map (fun X => (LLH.logLambdaI (pF opa) (pF ns) X).abs)).foldl (· + ·) 0
            + (LLH.pureBkgTerm N Xs.length (pF ns)).abs
          s!"{fF (LLH.llrOfRatios (pF opa) N (pF ns) Ri)} {fF sa}"
  | ["prow", v] =>
      let vals := pList pF v
      let row := paramRow vals
      let rd := (List.range vals.length).map (fun i => (readParam row i).getD (0.0 / 0.0))
      let gp := (List.range vals.length).map (fun i => (readGpidx row i).getD (0.0 / 0.0))
      s!"{fListD fF rd} {fListD fF gp}"
  | "bld" :: j :: rest =>
      let J := pN j
      let groups := rest.map (pList pN)
      match constructArrCode J groups, constructArrSpec J groups with
      | some c, some sp =>
          let fo : Option Nat → String := fun o => match o with | some b => toString b | none => "x"
          s!"code:{fListD fo c.flatten} spec:{fListD toString sp.flatten}"
      | _, _ => "error"
  | "hist" :: opa :: k :: w0 :: fac :: j :: rest =>
      let K := pN k
      let J := pN j
      let ds := parseDatasets K (rest.take (3 * J))
      let ops := parseOps K (rest.drop (3 * J))
      let W0 := pList pF w0
      let facs := pList pF fac
      let Yof : List (List Float) → List Nat → List (List Float) := fun Y ord =>
        Y.map (fun row => List.zipWith (· * ·) row (ord.map (fun k => facs.getD k 0)))
      fListD fF (lowRun (pF opa) Yof ds (initState W0 (List.range K)) ops)
  | ["mchk", na, nd] =>
      match evalWithChecked (1e-3 : Float) 0 (List.replicate (pN na) []) (List.replicate (pN nd) { N := 1, nSel := 0, Rk := [] }) with
      | some _ => "ok"
      | none => "error"
  | "grd" :: ax :: e :: sizes :: w :: y :: rest =>
      let sz := pList pN sizes
      let W := pList pF w
      let K := W.length
      let Yf := pList pF y
      let J := Yf.length / K
      let a := ajk W (rowsOf K J Yf)
      let Ws := splitSizes sz W
      let fo : Option (List Float) → String := fun o => match o with | some l => fListD fF l | none => "error"
      let rec keys : List String → List String
        | m :: d :: more =>
            let mask := pList pN m
            let dY := rowsOf K J (pList pF d)
            let rows := dY.map (fun drow => List.zip Ws ((List.zip mask (splitSizes sz drow)).map
              (fun p => if p.1 = 1 then some p.2 else none)))
            (match WeightsR7.gradTable K rows with
             | none => "none"
             | some da =>
                let spec := rows.map WeightsR7.gradRowSpec
                s!"{fListD fF da.flatten};{fo (WeightsR7.fjGrads (pN ax) (pN e) a da)};{fListD fF spec.flatten};{fListD fF (WeightsR7.fjGradsSpec a da)}") :: keys more
        | _ => []
      s!"f:{fo (WeightsR7.fjAxis (pN ax) a)} {" ".intercalate (keys rest)}"
  | "life" :: w0 :: rest =>
      let W0 := pList pF w0
      let K := W0.length
      let rec ops : List String → List (WeightsR7.LifeOp Float)
        | "S" :: w :: more => .setW (pList pF w) :: ops more
        | "C" :: b :: more => .changeShgMgr (b == "1") :: ops more
        | "A" :: y :: more =>
            let Yf := pList pF y
            .calcA (rowsOf K (Yf.length / K) Yf) :: ops more
        | "F" :: more => .calcF :: ops more
        | "GA" :: more => .getA :: ops more
        | "GF" :: more => .getF :: ops more
        | _ => []
      let show1 : Except WeightsR7.Err (WeightsR7.Out Float) → String := fun r => match r with
        | .ok .unit => "ok"
        | .ok .pyNone => "None"
        | .ok (.table a) => s!"T:{fListD fF a.flatten}"
        | .ok (.vec f) => s!"V:{fListD fF f}"
        | .error .valueError => "E:ValueError"
        | .error .axisError => "E:AxisError"
        | .error .attributeError => "E:AttributeError"
      " ".intercalate ((WeightsR7.lifeRun (WeightsR7.lifeInit W0) (ops rest)).map show1)
  | "shp" :: sizes :: w :: rest =>
      let sz := pList pN sizes
      let W := pList pF w
      let Ws := splitSizes sz W
      let rows := rest.map (fun tok =>
        WeightsR7.calcRowChecked (List.replicate W.length (0.0 / 0.0 : Float))
          (List.zip Ws ((tok.splitOn ";").map (pList pF))))
      match rows.mapM id with
      | some a => fListD fF a.flatten
      | none => "error"
  | "multi" :: opa :: ns :: k :: w :: y :: _j :: rest =>
      let K := pN k
      let W := pList pF w
      let Yf := pList pF y
      let Y := rowsOf K (Yf.length / K) Yf
      let ds := parseDatasets K rest
      s!"{fF (stackedLLR (pF opa) (pF ns) W Y ds)} {fListD fF (fj (ajk W Y))} {fF (sumAbs (pF opa) (pF ns) W Y ds)}"
  | _ => "bad-op"

def main : IO Unit := do loop (← IO.getStdin) answer
