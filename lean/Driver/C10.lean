import SkyllhModel.Proto
import SkyllhModel.Model.Livetime
import SkyllhModel.Model.Pdf
import SkyllhModel.Model.PdfR7
open Proto Pdf

/-  requests (floats as IEEE bit patterns, lists comma separated, `-` = empty list):
      tbox   <edges> <ts> <te> <times>                         -> S:<x|ERR> Ss:<x> pd:<list>
      tgauss <edges> <ts> <te> <sigma> <erfx> <erfy> <times>   -> S:<x|ERR> Ss:<x> pd:<list>
             (erfx/erfy: table of scipy.special.erf values at the arguments the model asks for)
      gargs  <edges> <ts> <te> <sigma>                         -> the erf arguments of all edges, ts, te
      ehist  <kernel> <eE> <eD> <xs> <ys> <mcw> <pw>           -> density, band-major ([j][i])
      epd    <kernel> <eE> <eD> <xs> <ys> <mcw> <pw> <qx> <qy> -> per query event x|ERR
      elook  <edges> <x>                                       -> look:<i|ERR> valid:<0|1> hbin:<i|NONE>
      shist  <edges> <xs> <ws>                                 -> list | ERR
      spd    <log spline values>                               -> list
      psf    <sigmas> <psis>                                   -> list
      ray    <sigmas> <psis>                                   -> list
      sstate <edges> <xs> <ws> <op>*                           -> normalised histogram after init and each op
             op = A<xs> (add_events) | R (reset);  ERR = constructor raises
      ttrials <box|gauss> <edges> <ts> <te> <sigma> <erfx> <erfy> <times>*  -> pd list per trial (one object)
      gcache <cacheOn 0|1> <trial ids> (<raw_k> <norm_k>)*       -> pd list per evaluation (MultiDimGridPDF pd cache)
      eobj <kernel> <eE> <eD> <xs> <ys> <mcw> <pw> <op>*          -> per op: pd|ERR (G), v0|v1 (V), u (W); histogram PDF object
             next to a caller that overwrites its edge arrays: W<eE>;<eD> | G<x>;<y> | V<x>;<y>
      colsum <kernel> <n>                                       -> column sums of the row-normalised smoothing matrix
      ginterp <ey> <ex> <grid row-major> <ys> <xs>                -> bilinear interpolant (fill 0) at the points
      gmcache <cacheOn> <k:mask,…> (<raw_k> <norm_k>)*           -> pd list per request (mask `*` = get_pd, 0/1 string = evt_mask)
      pprod  <b1> <b2> <ops: string of E|L|R>                  -> list per op (PDFProduct on two internal arrays)
      tmulti <edges> <ts per source> <te per source> <times> <src_idxs> <evt_idxs>  -> pd per value (source loop)
      tstate2 <ts list> <te list> <edges> <prof> <op>*         -> what get_pd returns at each G (fixed code)
             op = L<edges> | Q<k> | X<k> (profile mutated outside) | M<edges> (interval array replaced
                  behind the PDF) | I<times> (initialize_for_new_trial) | G (get_pd) | V<t> (validity check of one time -> v0|v1)
      trows <ts list> <te list> <edges> <prof> <gated 0|1> <op>* -> per R op: the per-source densities `l1|l2|…` (ERR = window query raised)
             op = L/Q/X/M/V as in tstate2 (V answers nothing) | I<times> (initialize_for_new_trial through _calculate_pd) |
                  R<times>/<row>:<row>… (get_pd with a parameter recarray; row = n (empty row) | k (values of profile k))
      tbkg <ts list> <te list> <edges> <prof> <op>*            -> BackgroundTimePDF: ops as tstate2; per G the densities or RT (RuntimeError), per V v0|v1
      tstate <ts list> <te list> <edges> <prof> <op>*          -> S after init and after each op
             op = P<k> (set_params -> profile k) | Q<k> (time_flux_profile = k) | L<edges>
-/

def pairs (s : String) : List (Float × Float) := Livetime.unflat (pList pF s)

def fO (x : Option Float) : String := match x with
  | some v => fF v
  | none => "ERR"

def nan : Float := 0.0 / 0.0

def erfTable (xs ys : List Float) (x : Float) : Float :=
  match (xs.zip ys).find? (fun p => p.1.toBits == x.toBits) with
  | some p => p.2
  | none => nan

def timeAnswer (val : Float → Float) (integ : Float → Float → Float)
    (ivs : List (Float × Float)) (ts te : Float) (times : List Float) : String :=
  let S := timeS integ ivs ts te
  let Ss := timeSSpec integ ivs ts te
  let pd := match S with
    | some s => fListD fF (times.map (timePd val ivs s))
    | none => "ERR"
  s!"S:{fO S} Ss:{fF Ss} pd:{pd}"

def mkEvs : List Float → List Float → List Float → List Float → List (Ev Float)
  | x :: xs, y :: ys, m :: ms, p :: ps => ⟨x, y, m, p⟩ :: mkEvs xs ys ms ps
  | _, _, _, _ => []

def boxTable (tss tes : List Float) (k : Nat) : Float × Float × (Float → Float → Float) :=
  match tss[k]?, tes[k]? with
  | some ts, some te => (ts, te, boxInt ts te)
  | _, _ => (0.0, 0.0, fun _ _ => 0.0)

def parseOp (s : String) : TOp Float :=
  if s.startsWith "P" then .setParams (s.drop 1).toString.toNat!
  else if s.startsWith "Q" then .setProfile (s.drop 1).toString.toNat!
  else .setLivetime (pairs (s.drop 1).toString)

def stateAnswer (tss tes : List Float) (ivs : List (Float × Float)) (p : Nat) (ops : List String) : String :=
  let table := boxTable tss tes
  let s0 := tInit table ivs p
  let rec go (s : TState Float) : List String → List String
    | [] => []
    | o :: rest => let s' := tStep table s (parseOp o); fO s'.S :: go s' rest
  String.intercalate " " (fO s0.S :: go s0 ops)

def answer (line : String) : String :=
  match tokens line with
  | ["tbox", es, ts, te, times] =>
      let (ts, te) := (pF ts, pF te)
      timeAnswer (boxVal ts te) (boxInt ts te) (pairs es) ts te (pList pF times)
  | ["tgauss", es, ts, te, sg, ex, ey, times] =>
      let (ts, te, sg) := (pF ts, pF te, pF sg)
      let erf := erfTable (pList pF ex) (pList pF ey)
      timeAnswer (gaussVal ts te sg) (gaussInt erf ts te sg) (pairs es) ts te (pList pF times)
  | ["gargs", es, ts, te, sg] =>
      let (ts, te, sg) := (pF ts, pF te, pF sg)
      fListD fF ((pList pF es ++ [ts, te]).map (gaussErfArg ts te sg))
  | ["ehist", k, eE, eD, xs, ys, ms, ps] =>
      let (eE, eD) := (pList pF eE, pList pF eD)
      let evs := mkEvs (pList pF xs) (pList pF ys) (pList pF ms) (pList pF ps)
      fListD fF ((List.range (eD.length - 1)).flatMap (energyBand (pList pF k) eE eD evs))
  | ["epd", k, eE, eD, xs, ys, ms, ps, qx, qy] =>
      let (eE, eD) := (pList pF eE, pList pF eD)
      let evs := mkEvs (pList pF xs) (pList pF ys) (pList pF ms) (pList pF ps)
      fListD id (((pList pF qx).zip (pList pF qy)).map (fun q =>
        fO (energyPd (pList pF k) eE eD evs q.1 q.2)))
  | ["elook", es, x] =>
      let (es, x) := (pList pF es, pF x)
      let l := match lookup es x with
        | some i => toString i
        | none => "ERR"
      let h := match histBin es x with
        | some i => toString i
        | none => "NONE"
      s!"look:{l} valid:{fB (inRange es x)} hbin:{h}"
  | ["shist", es, xs, ws] =>
      match spatialHist (pList pF es) ((pList pF xs).zip (pList pF ws)) with
      | some p => fListD fF p
      | none => "ERR"
  | "sstate" :: es :: xs :: ws :: ops =>
      let es := pList pF es
      match spInit es ((pList pF xs).zip (pList pF ws)) with
      | none => "ERR"
      | some s0 =>
        let rec go (s : SpState Float) : List String → List String
          | [] => []
          | o :: rest =>
            let op : SpOp Float := if o == "R" then .reset else .addEvents (pList pF (o.drop 1).toString)
            let s' := spStep es s op
            fListD fF s'.cur :: go s' rest
        String.intercalate " " (fListD fF s0.cur :: go s0 ops)
  | "ttrials" :: kind :: es :: ts :: te :: sg :: ex :: ey :: trials =>
      let (ts, te, sg) := (pF ts, pF te, pF sg)
      let ivs := pairs es
      let erf := erfTable (pList pF ex) (pList pF ey)
      let (val, integ) : (Float → Float) × (Float → Float → Float) :=
        if kind == "box" then (boxVal ts te, boxInt ts te) else (gaussVal ts te sg, gaussInt erf ts te sg)
      match timeS integ ivs ts te with
      | none => "ERR"
      | some S => String.intercalate " " ((trialsRun val ivs S none (trials.map (pList pF))).map (fListD fF))
  | ["spd", vs] => fListD fF ((pList pF vs).map spatialPd)
  | ["psf", ss, ps] => fListD fF (((pList pF ss).zip (pList pF ps)).map (fun q => psfPd q.1 q.2))
  | ["ray", ss, ps] => fListD fF (((pList pF ss).zip (pList pF ps)).map (fun q => rayleighPd q.1 q.2))
  | "gcache" :: on :: ids :: tabs =>
      -- tabs: for trial id k the tokens 2k (raw values) and 2k+1 (norm values)
      let tab : List (List Float) := tabs.map (pList pF)
      let raw : Nat → List Float := fun k => tab.getD (2 * k) []
      let norm : Nat → List Float := fun k => tab.getD (2 * k + 1) []
      String.intercalate " " ((gRun (gEval (pB on) raw norm) ⟨none, none⟩ (pList pN ids)).map (fListD fF))
  | "eobj" :: k :: eE :: eD :: xs :: ys :: ms :: ps :: ops =>
      -- ops: W<eE>;<eD> (caller overwrites its edge arrays) | G<x>;<y> | V<x>;<y>
      let evs := mkEvs (pList pF xs) (pList pF ys) (pList pF ms) (pList pF ps)
      let w0 := eNew (pList pF k) (pList pF eE) (pList pF eD) evs
      let parse (o : String) : EOp Float :=
        let arg := (o.drop 1).toString
        match arg.splitOn ";" with
        | [a, b] =>
          if o.startsWith "W" then .callerWrites (pList pF a) (pList pF b)
          else if o.startsWith "G" then .get (pF a) (pF b)
          else .valid (pF a) (pF b)
        | _ => .valid 0.0 0.0
      String.intercalate " " ((eRun false w0 (ops.map parse)).map (fun out => match out with
        | .pd v => fO v
        | .ok b => if b then "v1" else "v0"
        | .unit => "u"))
  | ["colsum", k, n] =>
      let k := pList pF k
      fListD fF ((List.range (pN n)).map (colSum k (pN n)))
  | ["ginterp", ey, ex, grid, ys, xs] =>
      let (ey, ex) := (pList pF ey, pList pF ex)
      let flat := pList pF grid
      let rows : List (List Float) := (List.range ey.length).map (fun i => (flat.drop (i * ex.length)).take ex.length)
      fListD fF (((pList pF ys).zip (pList pF xs)).map (fun q => interp2 ey ex rows q.1 q.2))
  | "gmcache" :: on :: reqs :: tabs =>
      -- reqs: comma separated `k:mask`, mask = `*` (all values, get_pd) or a 0/1 string (evt_mask)
      let tab : List (List Float) := tabs.map (pList pF)
      let raw : Nat → List Float := fun k => tab.getD (2 * k) []
      let norm : Nat → List Float := fun k => tab.getD (2 * k + 1) []
      let rq : List (Nat × Option (List Bool)) := (reqs.splitOn ",").map (fun t =>
        match t.splitOn ":" with
        | [k, m] => (k.toNat!, if m == "*" then none else some (m.toList.map (· == '1')))
        | _ => (0, none))
      let nan : Float := 0.0 / 0.0
      String.intercalate " " ((gmRun true (pB on) raw norm ⟨none, none⟩ rq).map
        (fun l => fListD fF (l.map (fun o => o.getD nan))))
  | ["pprod", b1, b2, ops] =>
      let ops : List POp := (ops.toList.map (fun c => if c == 'E' then POp.evalProduct else if c == 'L' then POp.readLeft else POp.readRight))
      String.intercalate " " ((pRun pStep ⟨pList pF b1, pList pF b2⟩ ops).map (fListD fF))
  | ["tmulti", es, tss, tes, times, sidx, eidx] =>
      -- box profile per source k: window (tss[k], tes[k]); real src_evt_idxs
      let ivs := pairs es
      let (tss, tes) := (pList pF tss, pList pF tes)
      let win : Nat → Float × Float := fun k => (tss.getD k 0.0, tes.getD k 0.0)
      let Sk : Nat → Option Float := fun k => timeS (boxInt (win k).1 (win k).2) ivs (win k).1 (win k).2
      match resolveVals (pList pF times) (pList pN sidx) (pList pN eidx) with
      | none => "ERR"
      | some vals =>
        if (List.range tss.length).any (fun k => (Sk k).isNone) then "ERR"
        else fListD fF (calcPdMulti (fun k => boxVal (win k).1 (win k).2) (fun k => (Sk k).getD 0.0) ivs tss.length vals)
  | "tstate2" :: tss :: tes :: es :: p :: ops =>
      let (tss, tes) := (pList pF tss, pList pF tes)
      let table := boxTable tss tes
      let val : Nat → Float → Float := fun k => match tss[k]?, tes[k]? with
        | some ts, some te => boxVal ts te
        | _, _ => fun _ => 0.0
      let rec go2 (s : TState2 Float) : List String → List String
        | [] => []
        | o :: rest =>
          let arg := (o.drop 1).toString
          if o == "G" then
            let out := match tGet true table val s with
              | some l => fListD fF l
              | none => "ERR"
            out :: go2 (tStep2 true table val s .getPd) rest
          else if o.startsWith "V" then
            (if tValid true table s (pF arg) then "v1" else "v0") :: go2 (tStep2 true table val s .checkValid) rest
          else
            let op : TOp2 Float :=
              if o.startsWith "L" then .setLivetime (pairs arg)
              else if o.startsWith "M" then .livetimeMutated (pairs arg)
              else if o.startsWith "Q" then .setProfile arg.toNat!
              else if o.startsWith "X" then .profileMutated arg.toNat!
              else .initTrial (pList pF arg)
            go2 (tStep2 true table val s op) rest
      let outs := go2 (tInit2 table (pairs es) p.toNat!) ops
      if outs.isEmpty then "none" else String.intercalate " " outs
  | "trows" :: tss :: tes :: es :: p :: g :: ops =>
      let (tss, tes) := (pList pF tss, pList pF tes)
      let table := boxTable tss tes
      let gated := g == "1"
      let val : Nat → Float → Float := fun k => match tss[k]?, tes[k]? with
        | some ts, some te => boxVal ts te
        | _, _ => fun _ => 0.0
      let rec go3 (s : TState2 Float) : List String → List String
        | [] => []
        | o :: rest =>
          let arg := (o.drop 1).toString
          if o.startsWith "R" then
            match arg.splitOn "/" with
            | [ts, rs] =>
              let times := pList pF ts
              let rows : List (Option Nat) := (rs.splitOn ":").map (fun r => if r == "n" then none else some r.toNat!)
              let (s1, outs) := tGetRows gated table val s times rows
              String.intercalate "|" (outs.map (fun o => match o with
                | some l => fListD fF l
                | none => "ERR")) :: go3 s1 rest
            | _ => ["bad-R"]
          else
            let op : TOp3 Float :=
              if o.startsWith "L" then .base (.setLivetime (pairs arg))
              else if o.startsWith "M" then .base (.livetimeMutated (pairs arg))
              else if o.startsWith "Q" then .base (.setProfile arg.toNat!)
              else if o.startsWith "X" then .base (.profileMutated arg.toNat!)
              else if o.startsWith "V" then .base .checkValid
              else .initRows (pList pF arg)
            go3 (tStep3 gated table val s op) rest
      let outs := go3 (tInit2 table (pairs es) p.toNat!) ops
      if outs.isEmpty then "none" else String.intercalate " " outs
  | "tbkg" :: tss :: tes :: es :: p :: ops =>
      let (tss, tes) := (pList pF tss, pList pF tes)
      let table := boxTable tss tes
      let val : Nat → Float → Float := fun k => match tss[k]?, tes[k]? with
        | some ts, some te => boxVal ts te
        | _, _ => fun _ => 0.0
      let rec goB (s : TState2 Float) : List String → List String
        | [] => []
        | o :: rest =>
          let arg := (o.drop 1).toString
          if o == "G" then
            (match bGet s with
              | some l => fListD fF l
              | none => "RT") :: goB (bStep table val s .getPd) rest
          else if o.startsWith "V" then
            (if tValid true table s (pF arg) then "v1" else "v0") :: goB (bStep table val s .checkValid) rest
          else
            let op : TOp2 Float :=
              if o.startsWith "L" then .setLivetime (pairs arg)
              else if o.startsWith "M" then .livetimeMutated (pairs arg)
              else if o.startsWith "Q" then .setProfile arg.toNat!
              else if o.startsWith "X" then .profileMutated arg.toNat!
              else .initTrial (pList pF arg)
            goB (bStep table val s op) rest
      let outs := goB (tInit2 table (pairs es) p.toNat!) ops
      if outs.isEmpty then "none" else String.intercalate " " outs
  | "tstate" :: tss :: tes :: es :: p :: ops =>
      stateAnswer (pList pF tss) (pList pF tes) (pairs es) p.toNat! ops
  | _ => "bad-op"

def main : IO Unit := do loop (← IO.getStdin) answer
