import SkyllhModel.Proto
import SkyllhModel.Model.Grid
import SkyllhModel.Generated.C15
open Proto Grid

/-  requests (floats as IEEE bit patterns, `-` = empty list, `ERR` = Python exception):
      mk     <g0> <delta> <dec>                 -> <lb> <delta>
      ctor   <g0> <delta> <dec:int>             -> <lb> <delta> | ERR   (argument checks of __init__)
      round  <lb> <delta> <dec> <v>             -> <lower> <upper> <nearest> <kLower> <kNearest> <gp kLower> <gp kUpper> <gp kNearest>
      rounds <lb> <delta> <dec> <vs>            -> the same eight answers as lists
      grid   <g0> <delta> <dec> <arr>           -> <lb> <delta> <grid>
      extra  <lb> <delta> <dec> <grid>          -> <lb'> <grid'> | ERR
      decs   <x>                                -> <n>
      irr    <grid> <v>                         -> <nearest|ERR> <lower|ERR> <upper|ERR>
      irrx   <grid>                             -> <grid'> | ERR
      lin    <x0> <x1> <M0> <M1> <x>            -> <value> <grad>
      par    <x1> <dx> <M0> <M1> <M2> <x>       -> <value> <grad>
      bc     <xs> <ns>                          -> <list> | ERR
      linrun <lb> <delta> <dec> <ns> <table> <calls>  -> per call `<values>:<grads>` or ERR, `;`-separated, then ` store-same|store-changed`
         (the table is the store of arrays owned by the manifold function; post-store vs pre-store)
      parrun <lb> <delta> <dec> <ns> <table> <calls>
         table = `sid:gridparams:values;…`, calls = `sid:xs;…`
-/

def pG (lb d dec : String) : PGrid Float := ⟨pF lb, pF d, pN dec, Gen.C15.floatDDecimals⟩

def fO (o : Option Float) : String := match o with | some x => fF x | none => "ERR"

def semis (s : String) : List String := if s == "-" then [] else s.splitOn ";"

def pStore (s : String) : Store Float :=
  (semis s).filterMap fun e =>
    match e.splitOn ":" with
    | [sid, g, v] => some ((pI sid, pList pF g), pList pF v)
    | _ => none

def fStore (pre post : Store Float) : String :=
  -- bit patterns, so that a changed sign of zero or a NaN would show as well
  let bits (st : Store Float) := st.map fun e => (e.1.1, e.1.2.map Float.toBits, e.2.map Float.toBits)
  if bits pre == bits post then "store-same" else "store-changed"

def pCalls (s : String) : List (Int × List Float) :=
  (semis s).filterMap fun e => match e.splitOn ":" with
    | [sid, xs] => some (pI sid, pList pF xs)
    | _ => none

def fRes (rs : List (Option (List Float × List Float))) : String :=
  String.intercalate ";" (rs.map fun r => match r with
    | some (v, g) => s!"{fListD fF v}:{fListD fF g}"
    | none => "ERR")

def answer (line : String) : String :=
  match tokens line with
  | ["mk", g0, d, dec] =>
      let G := mkGrid (pF g0) (pF d) (pN dec) Gen.C15.floatDDecimals
      s!"{fF G.lb} {fF G.delta}"
  | ["ctor", g0, d, dec] =>
      match mkGridChecked (pF g0) (pF d) (pI dec) Gen.C15.floatDDecimals Gen.C15.maxDecimals with
      | some G => s!"{fF G.lb} {fF G.delta}"
      | none => "ERR"
  | ["round", lb, d, dec, v] =>
      let G := pG lb d dec
      let x := pF v
      s!"{fF (roundLower G x)} {fF (roundUpper G x)} {fF (roundNearest G x)} {kLower G x} {kNearest G x} {fF (gp G (kLower G x))} {fF (gp G (kUpper G x))} {fF (gp G (kNearest G x))}"
  | ["rounds", lb, d, dec, vs] =>
      let G := pG lb d dec
      let xs := pList pF vs
      let fI := fun (k : Int) => toString k
      s!"{fListD fF (xs.map (roundLower G))} {fListD fF (xs.map (roundUpper G))} {fListD fF (xs.map (roundNearest G))} {fListD fI (xs.map (kLower G))} {fListD fI (xs.map (kNearest G))} {fListD fF (xs.map fun x => gp G (kLower G x))} {fListD fF (xs.map fun x => gp G (kUpper G x))} {fListD fF (xs.map fun x => gp G (kNearest G x))}"
  | ["grid", g0, d, dec, arr] =>
      let G := mkGrid (pF g0) (pF d) (pN dec) Gen.C15.floatDDecimals
      s!"{fF G.lb} {fF G.delta} {fListD fF (buildGrid G (pList pF arr))}"
  | ["extra", lb, d, dec, grid] =>
      match addExtra (pG lb d dec) (pList pF grid) with
      | some (G', g') => s!"{fF G'.lb} {fListD fF g'}"
      | none => "ERR"
  | ["decs", x] => toString (decimalsOf (floatToRat (pF x)))
  | ["irr", grid, v] =>
      let g := pList pF grid
      let x := pF v
      s!"{fO (irrNearest g x)} {fO (irrLower g x)} {fO (irrUpper g x)}"
  | ["irrx", grid] => match irrAddExtra (pList pF grid) with
      | some g' => fListD fF g'
      | none => "ERR"
  | ["lin", x0, x1, m0, m1, x] =>
      s!"{fF (lineValue (pF x0) (pF x1) (pF m0) (pF m1) (pF x))} {fF (lineGrad (pF x0) (pF x1) (pF m0) (pF m1))}"
  | ["par", x1, dx, m0, m1, m2, x] =>
      s!"{fF (parValue (pF x1) (pF dx) (pF m0) (pF m1) (pF m2) (pF x))} {fF (parGrad (pF x1) (pF dx) (pF m0) (pF m1) (pF m2) (pF x))}"
  | ["bc", xs, ns] => match broadcast (pList pF xs) (pList pN ns) with
      | some l => fListD fF l
      | none => "ERR"
  | ["linrun", lb, d, dec, ns, table, calls] =>
      let st := pStore table
      let r := linRunS (pG lb d dec) (pList pN ns) st none (pCalls calls)
      s!"{fRes r.2} {fStore st r.1}"
  | ["parrun", lb, d, dec, ns, table, calls] =>
      let st := pStore table
      let r := parRunS (pG lb d dec) (pList pN ns) st none (pCalls calls)
      s!"{fRes r.2} {fStore st r.1}"
  | _ => "bad-op"

def main : IO Unit := do loop (← IO.getStdin) answer
