import SkyllhModel.Proto
import SkyllhModel.Model.Grid
import SkyllhModel.Model.GridObj
import SkyllhModel.Model.GridR7
import SkyllhModel.Generated.C15
open Proto Grid RoundOps

/-  requests (floats as IEEE bit patterns, `-` = empty list, `ERR` = Python exception, state id `N` = None).
    Every answer ends with ` #<tag>,<tag>,…` (or ` #-`): the branches of the model functions the request went
    through; the harness strips and counts them (zero-hit branches are listed in the evidence).

      mk     <g0> <delta> <dec>                 -> <lb> <delta>
      ctor   <g0> <delta> <dec:int>             -> <lb> <delta> | ERR          (argument checks of __init__)
      auto   <g0> <delta>                       -> <dec> <lb> <delta> | <dec> ERR   (decimals=None)
      round  <lb> <delta> <dec> <v>             -> <lower> <upper> <nearest> <kLower> <kNearest> <gp kLower> <gp kUpper> <gp kNearest>
      rounds <lb> <delta> <dec> <vs>            -> the same eight answers as lists
      grid   <g0> <delta> <dec> <arr>           -> <lb> <delta> <grid>
      extra  <lb> <delta> <dec> <grid>          -> <lb'> <grid'> | ERR
      obj    <arr> <delta> <dec:int> <ops>      -> state after the constructor and after every operation, `;`-separated:
                                                   `<lb>|<delta>|<grid>` or ERR (raising operation, object unchanged);
                                                   ops: `x` extra bins, `l:<x>` lower_bound setter, `g:<arr>` grid setter, `c` continue with a copy,
                                                   `q:<v>` query -> `Q<lower>,<upper>,<nearest>`
      iobj   <arr> <ops>                         -> irregular grid object: `S<grid>` after the constructor and after every changing op,
                                                   `A<answer|ERR>` for a query, ERR for a raising change;
                                                   ops: `x`, `g:<arr>`, `c`, `n:<v>` nearest, `l:<v>` lower, `u:<v>` upper
      decs   <x>                                -> <n>
      arange <start> <stop> <step>              -> <list>
      frange <start> <stop> <delta>             -> <list>                      (array built by from_range)
      fromrange <start> <stop> <delta> <dec>    -> <lb> <delta> <grid> | ERR   (ParameterGrid.from_range)
      mkirr  <arr>                              -> OK | ERR
      irr    <grid> <v>                         -> <nearest|ERR> <lower|ERR> <upper|ERR>
      irra   <grid> <vs>                        -> <nearest list|ERR> <lower list|ERR> <upper list|ERR>   (array arguments)
      irrx   <grid>                             -> <grid'> | ERR
      lin    <x0> <x1> <M0> <M1> <x>            -> <value> <grad>
      par    <x1> <dx> <M0> <M1> <M2> <x>       -> <value> <grad>
      bc     <xs> <ns>                          -> <list> | ERR
      linrun <lb> <delta> <dec> <ns> <table> <calls>  -> per call `<values>:<grads>` or ERR, `;`-separated, then ` store-same|store-changed`
      parrun <lb> <delta> <dec> <ns> <table> <calls>     table = `sid:gridparams:values;…`, calls = `sid:xs;…`
      null   <grids> <params> <n>               -> <rounded columns `;`> <grads: D rows `;`>      grids = `lb,delta,dec;…`, params = columns `;`
      prod   <grids `;`>                        -> tuples `;`
      pdfset <names `,`> <grids `;`> <lookups `;`> <readd:i|->  -> ERR | per lookup the registered tuple or MISS, `;` (+ READD-ERR)   lookup = `name=bits&name=bits`
      keyeq  <dict> <dict>                      -> 1 | 0                        dict = `name=bits&…`
    round 7:
      ilinrun <grid> <ns> <table> <calls>       -> linear method over an irregular grid: per call `<values>:<grads>` or ERR, `;`-separated
      gsetx  <objs `;`>                         -> ParameterGridSet.add_extra…: states `;` then ` complete|raised`; obj = `<arr>|<delta>|<dec>|<E or ->` (E: grid setter with [] applied)
      isetx  <grids `;`>                        -> the same for a set of irregular grids: grids `;` then ` complete|raised`
      irrp   <grid> <v>                         -> <nearest|ERR> <lower|ERR> <upper|ERR> with the sides / index shift read from the source (Gen.C15)
      parp   <x1> <dx> <M0> <M1> <M2> <x>       -> <grad> with the gradient factor read from the source
-/

abbrev Tagged := String × List String

def pG (lb d dec : String) : PGrid Float := ⟨pF lb, pF d, pN dec, Gen.C15.floatDDecimals⟩

def fO (o : Option Float) : String := match o with | some x => fF x | none => "ERR"
def fOL (o : Option (List Float)) : String := match o with | some x => fListD fF x | none => "ERR"

def semis (s : String) : List String := if s == "-" then [] else s.splitOn ";"

def pSid (s : String) : Option Int := if s == "N" then none else some (pI s)

def pStore (s : String) : Store Float :=
  (semis s).filterMap fun e =>
    match e.splitOn ":" with
    | [sid, g, v] => some ((pSid sid, pList pF g), pList pF v)
    | _ => none

def fStore (pre post : Store Float) : String :=
  -- bit patterns, so that a changed sign of zero or a NaN would show as well
  let bits (st : Store Float) := st.map fun e => (e.1.1, e.1.2.map Float.toBits, e.2.map Float.toBits)
  if bits pre == bits post then "store-same" else "store-changed"

def pCalls (s : String) : List (Option Int × List Float) :=
  (semis s).filterMap fun e => match e.splitOn ":" with
    | [sid, xs] => some (pSid sid, pList pF xs)
    | _ => none

def fRes (rs : List (Option (List Float × List Float))) : String :=
  String.intercalate ";" (rs.map fun r => match r with
    | some (v, g) => s!"{fListD fF v}:{fListD fF g}"
    | none => "ERR")

def pDict (s : String) : List (String × Float) :=
  if s == "-" then [] else (s.splitOn "&").filterMap fun e => match e.splitOn "=" with
    | [n, v] => some (n, pF v)
    | _ => none

/-! ### branch tags (recomputed from the same conditions the model functions test) -/

def rintTag (pre : String) (x : Float) : String :=
  let n := floorI x
  let d := x - ofI n
  if d < (half : Float) then pre ++ ":below-half" else if (half : Float) < d then pre ++ ":above-half"
  else if n % 2 = 0 then pre ++ ":tie-even" else pre ++ ":tie-odd"

def roundTags (G : PGrid Float) (v : Float) : List String :=
  let f := floatD G v
  let fr := mod1 f
  [rintTag "floatD-rint" ((v - G.lb) / G.delta * p10 G.fd),
   rintTag "nearest-rint" fr,
   if intD G v < 0 then "intD:negative" else "intD:nonnegative",
   if rintI ((v - G.lb) / G.delta * p10 G.fd) = 0 then "rint:zero-result" else "rint:nonzero-result",
   if rintI fr = 0 then "nearest:lower" else "nearest:upper"] ++
  (if roundNearest G v == 0.0 then [if (roundNearest G v).toBits == (0.0 : Float).toBits then "zero-member:+0.0" else "zero-member:-0.0"] else [])

def ctorTag (delta : Float) (dec : Int) : String :=
  if dec < 0 then "ctor:negative-decimals"
  else if (Gen.C15.maxDecimals : Int) < dec then "ctor:too-many-decimals"
  else if (0.0 : Float) < aroundDec dec.toNat delta then "ctor:ok" else "ctor:delta-not-positive"

def decsTag (n : Nat) : String := if n = 0 then "decs:0" else if n = 16 then "decs:16" else "decs:1-15"

def dedup (l : List String) : List String := l.foldl (fun acc t => if acc.contains t then acc else acc ++ [t]) []

def linCallTag (G : PGrid Float) (Mf : Option Int → List Float → List Float) (ns : List Nat)
    (cache : Option (LinCache Float)) (sid : Option Int) (xs : List Float) : String :=
  let x0 := xs.map (roundLower G)
  let freshTag := match broadcast x0 ns with
    | none => "lin:raise-wrong-length"
    | some _ => match linCompute G Mf ns sid xs with
      | none => "lin:raise-manifold-length"
      | some _ => "ok"
  match cache with
  | none => if freshTag == "ok" then "lin:first-call" else freshTag
  | some c =>
    if sid.isNone then (if freshTag == "ok" then "lin:no-state-id" else freshTag)
    else if c.sid != sid then (if freshTag == "ok" then "lin:miss-state-change" else freshTag)
    else if c.x0 == x0 then (match broadcast xs ns with | some _ => "lin:hit" | none => "lin:hit-raise")
    else (if freshTag == "ok" then "lin:miss-other-cell" else freshTag)

def parCallTag (G : PGrid Float) (Mf : Option Int → List Float → List Float) (ns : List Nat)
    (cache : Option (ParCache Float)) (sid : Option Int) (xs : List Float) : String :=
  let x1 := xs.map (roundNearest G)
  match broadcast (List.zipWith (· - ·) xs x1) ns with
  | none => "par:raise-wrong-length"
  | some _ =>
    let freshTag := match parCompute G Mf ns sid xs with
      | none => "par:raise-manifold-length"
      | some _ => "ok"
    match cache with
    | none => if freshTag == "ok" then "par:first-call" else freshTag
    | some c =>
      if sid.isNone then (if freshTag == "ok" then "par:no-state-id" else freshTag)
      else if c.sid != sid then (if freshTag == "ok" then "par:miss-state-change" else freshTag)
      else match bcastEq c.x1 x1 with
        | none => "par:cache-test-raises"
        | some true => if c.x1.length = x1.length then "par:hit" else "par:hit-shared-vs-per-source"
        | some false => if freshTag == "ok" then
            (if c.x1.length = x1.length then "par:miss-other-cell" else "par:miss-shared-vs-per-source") else freshTag

def linRunTags (G : PGrid Float) (Mf : Option Int → List Float → List Float) (ns : List Nat) :
    Option (LinCache Float) → List (Option Int × List Float) → List String
  | _, [] => []
  | cache, (sid, xs) :: rest =>
    linCallTag G Mf ns cache sid xs :: linRunTags G Mf ns (linCall G Mf ns cache sid xs).1 rest

def parRunTags (G : PGrid Float) (Mf : Option Int → List Float → List Float) (ns : List Nat) :
    Option (ParCache Float) → List (Option Int × List Float) → List String
  | _, [] => []
  | cache, (sid, xs) :: rest =>
    parCallTag G Mf ns cache sid xs :: parRunTags G Mf ns (parCall G Mf ns cache sid xs).1 rest

/-- branch of one call of the linear method over an irregular grid -/
def ilinCallTag (g : List Float) (Mf : Option Int → List Float → List Float) (ns : List Nat)
    (cache : Option (LinCache Float)) (sid : Option Int) (xs : List Float) : String :=
  match irrLowerArr g xs with
  | none => "ilin:lower-raises"
  | some x0 =>
    let freshTag :=
      match irrUpperArr g xs with
      | none => "ilin:upper-raises"
      | some x1 =>
        match linLine Mf ns sid x0 x1 with
        | none => if (broadcast x0 ns).isNone then "ilin:raise-wrong-length" else "ilin:raise-manifold-length"
        | some _ =>
          match cache with
          | none => "ilin:first-call"
          | some c => if sid.isNone then "ilin:no-state-id" else if c.sid != sid then "ilin:miss-state-change" else "ilin:miss-other-cell"
    match cache with
    | some c => if sid.isSome ∧ c.sid = sid ∧ (c.x0 == x0) = true then "ilin:hit" else freshTag
    | none => freshTag

def ilinRunTags (g : List Float) (Mf : Option Int → List Float → List Float) (ns : List Nat) :
    Option (LinCache Float) → List (Option Int × List Float) → List String
  | _, [] => []
  | cache, (sid, xs) :: rest =>
    ilinCallTag g Mf ns cache sid xs :: ilinRunTags g Mf ns (linCallIrr g Mf ns cache sid xs).1 rest

def pSetObj (s : String) : Option (PGObj Float) :=
  match s.splitOn "|" with
  | [arr, d, dec, e] =>
    match PGObj.new (pList pF arr) (pF d) (pI dec) Gen.C15.floatDDecimals Gen.C15.maxDecimals with
    | some o => if e == "E" then o.step (.setGrid []) else some o
    | none => none
  | _ => none

def fObj (o : PGObj Float) : String := s!"{fF o.G.lb}|{fF o.G.delta}|{fListD fF o.grid}"

def pOp (s : String) : Option (PGOp Float) :=
  if s == "x" then some .extra
  else if s == "c" then some .copy
  else match s.splitOn ":" with
    | ["l", x] => some (.setLowerBound (pF x))
    | ["g", arr] => some (.setGrid (pList pF arr))
    | _ => none

/-- regular object histories: an operation or a query `q:<v>` (the three roundings of the current state) -/
def objRunQ (o : PGObj Float) : List String → List String × List String
  | [] => ([], [])
  | t :: rest =>
    match t.splitOn ":" with
    | ["q", v] =>
      let x := pF v
      let r := objRunQ o rest
      (s!"Q{fF (roundLower o.G x)},{fF (roundUpper o.G x)},{fF (roundNearest o.G x)}" :: r.1, "obj:query" :: r.2)
    | _ => match pOp t with
      | none => objRunQ o rest
      | some op =>
        let tag := match op with | .extra => "obj:extra" | .setLowerBound _ => "obj:set-lower-bound" | .setGrid _ => "obj:set-grid" | .copy => "obj:copy"
        match o.step op with
        | some o' => let r := objRunQ o' rest; (fObj o' :: r.1, tag :: r.2)
        | none => let r := objRunQ o rest; ("ERR" :: r.1, (tag ++ "-raises") :: r.2)

def objRun (o : PGObj Float) : List (PGOp Float) → List String × List String
  | [] => ([], [])
  | op :: rest =>
    let tag := match op with | .extra => "obj:extra" | .setLowerBound _ => "obj:set-lower-bound" | .setGrid _ => "obj:set-grid" | .copy => "obj:copy"
    match o.step op with
    | some o' => let r := objRun o' rest; (fObj o' :: r.1, tag :: r.2)
    | none => let r := objRun o rest; ("ERR" :: r.1, (tag ++ "-raises") :: r.2)

def pIOp (s : String) : Option (IGOp Float) :=
  if s == "x" then some .extra
  else if s == "c" then some .copy
  else match s.splitOn ":" with
    | ["g", arr] => some (.setGrid (pList pF arr))
    | ["n", v] => some (.nearest (pF v))
    | ["l", v] => some (.lower (pF v))
    | ["u", v] => some (.upper (pF v))
    | _ => none

def fIOut : IGOut Float → String
  | .state g => "S" ++ fListD fF g
  | .answer a => "A" ++ fO a
  | .raised => "ERR"

def iopTag (op : IGOp Float) (out : IGOut Float) : String :=
  let base := match op with
    | .extra => "iobj:extra" | .setGrid _ => "iobj:set-grid" | .copy => "iobj:copy"
    | .nearest _ => "iobj:nearest" | .lower _ => "iobj:lower" | .upper _ => "iobj:upper"
  match out with
  | .raised => base ++ "-raises"
  | .answer none => base ++ "-no-answer"
  | _ => base

/-- a query after a change of the grid (the pattern a stale derived array would show in) -/
def queryAfterChange : List (IGOp Float) → Bool → Bool
  | [], _ => false
  | op :: rest, changed =>
    match op with
    | .extra | .setGrid _ => queryAfterChange rest true
    | .copy => queryAfterChange rest changed
    | _ => changed || queryAfterChange rest changed

def pGrids (s : String) : List (PGrid Float) :=
  (semis s).filterMap fun e => match e.splitOn "," with
    | [lb, d, dec] => some (pG lb d dec)
    | _ => none

def answer (line : String) : Tagged :=
  match tokens line with
  | ["mk", g0, d, dec] =>
      let G := mkGrid (pF g0) (pF d) (pN dec) Gen.C15.floatDDecimals
      (s!"{fF G.lb} {fF G.delta}", [])
  | ["ctor", g0, d, dec] =>
      (match mkGridChecked (pF g0) (pF d) (pI dec) Gen.C15.floatDDecimals Gen.C15.maxDecimals with
        | some G => s!"{fF G.lb} {fF G.delta}"
        | none => "ERR", [ctorTag (pF d) (pI dec)])
  | ["auto", g0, d] =>
      let dec := decimalsAuto floatToRat (pF g0) (pF d)
      (match mkGridAuto floatToRat (pF g0) (pF d) Gen.C15.floatDDecimals Gen.C15.maxDecimals with
        | some G => s!"{dec} {fF G.lb} {fF G.delta}"
        | none => s!"{dec} ERR", [ctorTag (pF d) dec, decsTag (decimalsOf (floatToRat (pF g0))), decsTag (decimalsOf (floatToRat (pF d)))])
  | ["round", lb, d, dec, v] =>
      let G := pG lb d dec
      let x := pF v
      (s!"{fF (roundLower G x)} {fF (roundUpper G x)} {fF (roundNearest G x)} {kLower G x} {kNearest G x} {fF (gp G (kLower G x))} {fF (gp G (kUpper G x))} {fF (gp G (kNearest G x))}",
       roundTags G x)
  | ["rounds", lb, d, dec, vs] =>
      let G := pG lb d dec
      let xs := pList pF vs
      let fI := fun (k : Int) => toString k
      (s!"{fListD fF (xs.map (roundLower G))} {fListD fF (xs.map (roundUpper G))} {fListD fF (xs.map (roundNearest G))} {fListD fI (xs.map (kLower G))} {fListD fI (xs.map (kNearest G))} {fListD fF (xs.map fun x => gp G (kLower G x))} {fListD fF (xs.map fun x => gp G (kUpper G x))} {fListD fF (xs.map fun x => gp G (kNearest G x))}",
       dedup (xs.flatMap (roundTags G)) ++ [if xs.isEmpty then "rounds:empty" else "rounds:nonempty"])
  | ["grid", g0, d, dec, arr] =>
      let G := mkGrid (pF g0) (pF d) (pN dec) Gen.C15.floatDDecimals
      (s!"{fF G.lb} {fF G.delta} {fListD fF (buildGrid G (pList pF arr))}", [])
  | ["extra", lb, d, dec, grid] =>
      (match addExtra (pG lb d dec) (pList pF grid) with
        | some (G', g') => s!"{fF G'.lb} {fListD fF g'}"
        | none => "ERR", [if (pList pF grid).isEmpty then "addExtra:empty" else "addExtra:ok"])
  | ["obj", arr, d, dec, ops] =>
      (match PGObj.new (pList pF arr) (pF d) (pI dec) Gen.C15.floatDDecimals Gen.C15.maxDecimals with
        | none => ("ERR", ["obj:ctor-raises"])
        | some o =>
          let r := objRunQ o (semis ops)
          (String.intercalate ";" (fObj o :: r.1), "obj:ctor-ok" :: dedup r.2))
  | ["iobj", arr, ops] =>
      (match mkIrr (pList pF arr) with
        | none => ("ERR", ["iobj:ctor-raises"])
        | some g =>
          let o : IGObj Float := ⟨g⟩
          let opl := (semis ops).filterMap pIOp
          let outs := o.trace opl
          (String.intercalate ";" (("S" ++ fListD fF g) :: outs.map fIOut),
           "iobj:ctor-ok" :: dedup (List.zipWith iopTag opl outs) ++
             (if queryAfterChange opl false then ["iobj:query-after-change"] else [])))
  | ["decs", x] =>
      let n := decimalsOf (floatToRat (pF x))
      (toString n, [decsTag n])
  | ["arange", a, b, c] =>
      let l := arange (pF a) (pF b) (pF c)
      (fListD fF l, [if l.length = 0 then "arange:n=0" else if l.length = 1 then "arange:n=1" else "arange:n>=2"])
  | ["frange", a, b, c] =>
      let l := fromRangeArr (pF a) (pF b) (pF c)
      (fListD fF l, [if l.length ≤ 1 then "arange:n<=1" else "arange:n>=2"])
  | ["fromrange", a, b, c, dec] =>
      let arr := fromRangeArr (pF a) (pF b) (pF c)
      (match arr.head? with
        | none => "ERR"
        | some g0 =>
          let G := mkGrid g0 (pF c) (pN dec) Gen.C15.floatDDecimals
          s!"{fF G.lb} {fF G.delta} {fListD fF (buildGrid G arr)}",
       [if arr.length ≤ 1 then "arange:n<=1" else "arange:n>=2"])
  | ["mkirr", arr] =>
      (match mkIrr (pList pF arr) with
        | some _ => ("OK", ["mkIrr:ok"])
        | none => ("ERR", ["mkIrr:not-increasing"]))
  | ["irr", grid, v] =>
      let g := pList pF grid
      let x := pF v
      (s!"{fO (irrNearest g x)} {fO (irrLowerC g x)} {fO (irrUpper g x)}",
       [if (irrLowerC g x).isNone then "irrLower:below-first" else "irrLower:ok",
        if (irrUpper g x).isNone then "irrUpper:at-or-above-last" else "irrUpper:ok",
        if ssLeft (irrMids g) x = 0 then "irrNearest:first" else if ssLeft (irrMids g) x + 1 = g.length then "irrNearest:last" else "irrNearest:inner"])
  | ["irra", grid, vs] =>
      let g := pList pF grid
      let xs := pList pF vs
      (s!"{fOL (irrNearestArr g xs)} {fOL (irrLowerArr g xs)} {fOL (irrUpperArr g xs)}",
       [if (irrLowerArr g xs).isNone then "irrLowerArr:raises" else "irrLowerArr:ok",
        if (irrUpperArr g xs).isNone then "irrUpperArr:raises" else "irrUpperArr:ok",
        if xs.isEmpty then "irrArr:empty" else "irrArr:nonempty"])
  | ["irrx", grid] =>
      (match irrAddExtra (pList pF grid) with
        | some g' => (fListD fF g', ["irrAddExtra:ok"])
        | none => ("ERR", ["irrAddExtra:fewer-than-two-points"]))
  | ["lin", x0, x1, m0, m1, x] =>
      (s!"{fF (lineValue (pF x0) (pF x1) (pF m0) (pF m1) (pF x))} {fF (lineGrad (pF x0) (pF x1) (pF m0) (pF m1))}", [])
  | ["par", x1, dx, m0, m1, m2, x] =>
      (s!"{fF (parValue (pF x1) (pF dx) (pF m0) (pF m1) (pF m2) (pF x))} {fF (parGrad (pF x1) (pF dx) (pF m0) (pF m1) (pF m2) (pF x))}", [])
  | ["bc", xs, ns] =>
      let l := pList pF xs
      (match broadcast l (pList pN ns) with
        | some r => fListD fF r
        | none => "ERR",
       [if l.length = 1 then "broadcast:shared" else if l.length = (pList pN ns).length then "broadcast:per-source" else "broadcast:wrong-length"])
  | ["linrun", lb, d, dec, ns, table, calls] =>
      let st := pStore table
      let G := pG lb d dec
      let r := linRunS G (pList pN ns) st none (pCalls calls)
      (s!"{fRes r.2} {fStore st r.1}", dedup (linRunTags G st.get (pList pN ns) none (pCalls calls)))
  | ["parrun", lb, d, dec, ns, table, calls] =>
      let st := pStore table
      let G := pG lb d dec
      let r := parRunS G (pList pN ns) st none (pCalls calls)
      (s!"{fRes r.2} {fStore st r.1}", dedup (parRunTags G st.get (pList pN ns) none (pCalls calls)))
  | ["null", grids, params, n] =>
      let Gs := pGrids grids
      let cols := (semis params).map (pList pF)
      let r := nullSpec Gs (fun _ _ => List.replicate (pN n) 1.0) none cols
      (s!"{String.intercalate ";" ((nullGridParams Gs cols).map (fListD fF))} {String.intercalate ";" (r.2.map (fListD fF))}",
       [if Gs.length = 1 then "null:D=1" else "null:D>=2"])
  | ["prod", grids] =>
      let gs := (semis grids).map (pList pF)
      (String.intercalate ";" ((gridProduct gs).map (fListD fF)), [if gs.length = 1 then "product:D=1" else "product:D>=2"])
  | ["pdfset", names, grids, lookups, readd] =>
      let nm := names.splitOn ","
      let gs := (semis grids).map (pList pF)
      let ds := permutationDicts nm gs
      (match pdfAddAll (fun d => d.map (·.2)) ([] : PDFSetM Float (List Float)) ds with
        | none => ("ERR", ["pdfAdd:already-added"])
        | some s =>
          let res := (semis lookups).map fun l => match pdfGet s (pDict l) with
            | some t => fListD fF t
            | none => "MISS"
          -- `readd` = index of a permutation that is registered a second time (KeyError "already added"), or `-`
          let again := if readd == "-" then [] else match ds[pN readd]? with
            | some d => [match pdfAdd s (d.map (·.2)) d with | none => "READD-ERR" | some _ => "READD-OK"]
            | none => ["READD-NONE"]
          (String.intercalate ";" (res ++ again),
           ["pdfAdd:ok"] ++ dedup (res.map fun r => if r == "MISS" then "pdfGet:miss" else "pdfGet:hit") ++
             (if again == ["READD-ERR"] then ["pdfAdd:already-added"] else [])))
  | ["keyeq", d1, d2] =>
      let r := keyEq (pDict d1) (pDict d2)
      (fB r, [if r then "keyEq:equal" else "keyEq:different"])
  | ["ilinrun", grid, ns, table, calls] =>
      let st := pStore table
      let g := pList pF grid
      let r := linRunIrr g st.get (pList pN ns) none (pCalls calls)
      (fRes r, dedup (ilinRunTags g st.get (pList pN ns) none (pCalls calls)))
  | ["gsetx", objs] =>
      let os := (semis objs).filterMap pSetObj
      let r := gridSetExtra os
      (s!"{String.intercalate ";" (r.1.map fObj)} {if r.2 then "complete" else "raised"}",
       [if r.2 then "gset:complete" else "gset:raised", if os.length = 1 then "gset:D=1" else "gset:D>=2"])
  | ["isetx", grids] =>
      let gs := (semis grids).map (pList pF)
      let r := irrSetExtra gs
      (s!"{String.intercalate ";" (r.1.map (fListD fF))} {if r.2 then "complete" else "raised"}",
       [if r.2 then "iset:complete" else "iset:raised"])
  | ["irrp", grid, v] =>
      let g := pList pF grid
      let x := pF v
      (s!"{fO (irrNearestP Gen.C15.irrNearestSideRight g x)} {fO (irrLowerP Gen.C15.irrLowerSideRight Gen.C15.irrLowerShift g x)} {fO (irrUpperP Gen.C15.irrUpperSideRight g x)}",
       ["irrp:evaluated"])
  | ["parp", x1, dx, m0, m1, m2, x] =>
      (fF (parGradP (ofI (Gen.C15.parGradFactor : Nat)) (pF x1) (pF dx) (pF m0) (pF m1) (pF m2) (pF x)), ["parp:evaluated"])
  | _ => ("bad-op", [])

def answerS (line : String) : String :=
  let r := answer line
  r.1 ++ " #" ++ (if r.2.isEmpty then "-" else String.intercalate "," r.2)

def main : IO Unit := do loop (← IO.getStdin) answerS
