import SkyllhModel.Proto
import SkyllhModel.Model.Cache
import SkyllhModel.Model.CacheTop
import SkyllhModel.Model.CacheI3R7
open Proto Cache CacheTop

/-- The scalar the model is executed with: an IEEE double identified with its **bit pattern**.
Equality (`DecidableEq`, hence the `==` of grid keys and of the exact hit test) is equality of bit
patterns — structural, lawful — so the executed instance is literally an instance of the theorems
in Props/C06.lean (which assume `[DecidableEq F]` and nothing about arithmetic); `+0.0`/`-0.0` are
different keys and a NaN equals itself, exactly like Python's `hash`/`np.array_equal`-on-bits would
not, but the grids contain neither (checked by the harness).  Arithmetic and order are IEEE. -/
structure BF where
  bits : UInt64
deriving DecidableEq

namespace BF
def v (a : BF) : Float := Float.ofBits a.bits
def of (x : Float) : BF := ⟨x.toBits⟩
instance : Add BF := ⟨fun a b => of (a.v + b.v)⟩
instance : Sub BF := ⟨fun a b => of (a.v - b.v)⟩
instance : Mul BF := ⟨fun a b => of (a.v * b.v)⟩
instance : Div BF := ⟨fun a b => of (a.v / b.v)⟩
instance : LT BF := ⟨fun a b => a.v < b.v⟩
instance : LE BF := ⟨fun a b => a.v ≤ b.v⟩
instance : DecidableLT BF := fun a b => inferInstanceAs (Decidable (a.v < b.v))
instance : DecidableLE BF := fun a b => inferInstanceAs (Decidable (a.v ≤ b.v))
instance : OfScientific BF := ⟨fun m s e => of (OfScientific.ofScientific m s e)⟩
instance : Neg BF := ⟨fun a => of (-a.v)⟩
instance : OfNat BF 0 := ⟨of 0.0⟩
instance : OfNat BF 1 := ⟨of 1.0⟩
instance : Transc BF where
  log a := of (Float.log a.v)
  log1p a := of (FloatImpl.log1p a.v)
  exp a := of (Float.exp a.v)
  sqrt a := of (Float.sqrt a.v)
  sin a := of (Float.sin a.v)
  cos a := of (Float.cos a.v)
  asin a := of (Float.asin a.v)
  acos a := of (Float.acos a.v)
  pi := of 3.141592653589793
  ofN n := of (Float.ofNat n)
  ofI i := of (Float.ofInt i)
end BF

def pBF (s : String) : BF := ⟨s.toNat!.toUInt64⟩
def fBF (x : BF) : String := toString x.bits.toNat

/-  one request = one history on one object graph (floats as IEEE bit patterns):

      hist <variant> <cfg> <man> <bkg> <up> <lo> <dx> <grid> <sel> <d0> <s0> <ops>

    variant  4 chars 0/1: bumpAlways exactHit resetNsgrad clearNsgOnEval   (probed on the real code by the harness)
    cfg      6 chars 0/1: srcFields preFields staticFields cachePd parabola cacheBkg
    man      d:s:k:g:v1,v2,…;…     signal PDF values of grid point g for the events of source k
    bkg      d:s:v1,v2,…;…         background PDF values
    up, lo   g:g';…                ParameterGrid neighbours          dx  grid spacing
    grid     g1,g2,…               the grid points that have a PDF (others: KeyError)
    sel      d:s:k:i1,i2,…;… | -    event selection: positions of the selected events paired with source k (no entry: all)
    d0, s0   data set / source of the first initialize_trial
    ops      ;-separated   I<d> | S<s> | E<ns>|<x1,x2,…>|<key1,key2,…> | G
    answer   ;-separated   U | O:<ratio blocks a,b/c,d>:<grad blocks>:<interpHit>:<pdMiss>:<bkgMiss>
                             | XERR (the evaluation raised) | G<d>:<s>:<ns>:<x1,x2,…> | ERR
             every O answer is followed by |P:<ratio blocks>:<grad blocks> = the stateless evaluator `evalPure`
-/

def bits (s : String) : List Bool := s.toList.map (· == '1')

def pVariant (s : String) : Variant :=
  match bits s with
  | [a, b, c, d] => ⟨a, b, c, d⟩
  | _ => ⟨false, false, false, false⟩

def pCfg (s : String) : Cfg :=
  match bits s with
  | [a, b, c, d, e, f] => ⟨a, b, c, d, e, f⟩
  | _ => ⟨false, false, false, false, false, false⟩

def entries (s : String) : List (List String) :=
  if s == "-" then [] else (s.splitOn ";").map (·.splitOn ":")

def manTab (s : String) : List ((Nat × Nat × Nat × BF) × List BF) :=
  (entries s).filterMap fun
    | [d, sr, k, g, vs] => some ((pN d, pN sr, pN k, pBF g), pList pBF vs)
    | _ => none

def bkgTab (s : String) : List ((Nat × Nat) × List BF) :=
  (entries s).filterMap fun
    | [d, sr, vs] => some ((pN d, pN sr), pList pBF vs)
    | _ => none

def nbTab (s : String) : List (BF × BF) :=
  (entries s).filterMap fun
    | [g, h] => some (pBF g, pBF h)
    | _ => none

/-- a grid point that is in no table: outside the grid (the model then answers XERR before any lookup) -/
def offGrid : BF := BF.of (0.0 / 0.0)

def selTab (s : String) : List ((Nat × Nat × Nat) × List Nat) :=
  (entries s).filterMap fun
    | [d, sr, k, is] => some ((pN d, pN sr, pN k), pList pN is)
    | _ => none

def mkWorld (man bkg up lo dx grid sel : String) : World Nat Nat BF :=
  let mt := manTab man
  let selt := selTab sel
  let bt := bkgTab bkg
  let ut := nbTab up
  let lt := nbTab lo
  let gs := pList pBF grid
  { man := fun d s k g => (mt.lookup (d, s, k, g)).getD [],
    bkg := fun d s => (bt.lookup (d, s)).getD [],
    up := fun g => (ut.lookup g).getD offGrid,
    lo := fun g => (lt.lookup g).getD offGrid,
    dx := pBF dx,
    inGrid := fun g => gs.contains g,
    -- no entry: no event selection method, every source is paired with every selected event
    sel := fun d s k => (selt.lookup (d, s, k)).getD (List.range ((bt.lookup (d, s)).getD []).length) }

def pOp (s : String) : Option (Op Nat Nat BF) :=
  if s.startsWith "I" then some (.initTrial (pN (s.drop 1).toString))
  else if s.startsWith "S" then some (.changeSource (pN (s.drop 1).toString))
  else if s.startsWith "E" then
    match ((s.drop 1).toString).splitOn "|" with
    | [ns, xs, ks] => some (.evaluate ⟨pBF ns, pList pBF xs, pList pBF ks⟩)
    | _ => none
  else if s == "G" then some .grad2
  else none

def fBlocks (bs : List (List BF)) : String :=
  if bs.isEmpty then "~" else String.intercalate "/" (bs.map (fListD fBF))

def fRes : Res Nat Nat BF → String
  | .unit => "U"
  | .out o => s!"O:{fBlocks o.ratio}:{fBlocks o.grad}:{fB o.interpHit}:{o.pdMiss}:{fB o.bkgMiss}"
  | .evalError => "XERR"
  | .grad2Of d s q => s!"G{d}:{s}:{fBF q.ns}:{fListD fBF q.x}"
  | .error => "ERR"

/-- the specification trace `Cache.pureTrace` (theorem `c06_trace`: equal to the cached run under (a), (b)) -/
def fPure : Option (Option (List (List BF) × List (List BF))) → String
  | some (some r) => s!"|P:{fBlocks r.1}:{fBlocks r.2}"
  | some none => "|P:XERR"
  | none => ""

/-  second request kind: the DataField cache of a TrialDataManager
      field <reset 0/1> <table d:s:p1,p2,…:v1,v2,…;…> <d0> <s0> <ops ;-separated  N<d> | R | S<s> | C<p1,p2,…>>
    (the key of the field is the tuple of the values of ALL global fit parameters it depends on)
    answer ;-separated  U | <recomputed 0/1>:<v1,v2,…>                                                   -/
def pKey (s : String) : List UInt64 := pList (fun t => (pF t).toBits) s

def fTab (s : String) : List ((Nat × Nat × List UInt64) × List Float) :=
  (entries s).filterMap fun
    | [d, sr, p, vs] => some ((pN d, pN sr, pKey p), pList pF vs)
    | _ => none

def pFieldOp (s : String) : Option (FieldOp Nat Nat (List UInt64)) :=
  if s.startsWith "N" then some (.initNew (pN (s.drop 1).toString))
  else if s == "R" then some .initSame
  else if s.startsWith "S" then some (.changeSource (pN (s.drop 1).toString))
  else if s.startsWith "C" then some (.compute (pKey (s.drop 1).toString))
  else none

/-- run with the "was recomputed" flag made visible: recomputed ⇔ the remembered key changed or was set -/
def fieldTrace (f : Nat → Nat → List UInt64 → List Float) (reset : Bool) :
    FieldSt Nat Nat (List UInt64) (List Float) → List (FieldOp Nat Nat (List UInt64)) → List String
  | _, [] => []
  | st, op :: ops =>
    let r := fieldStep f reset st op
    let hit := match op, st.inEvents, st.vals, st.key with
      | .compute p, true, some _, some p' => p' == p
      | _, _, _, _ => false
    (match r.2 with
      | some v => s!"{fB (!hit)}:{fListD fF v}"
      | none => "U") :: fieldTrace f reset r.1 ops

/-  third request kind: the upper layers (Model/CacheTop.lean), operations = the real calls
      top <variant> <cfg> <man> <bkg> <up> <lo> <dx> <grid> <sel> <nev d:N;…> <ak s:x1,x2,…:a1,a2,…;…> <opa> <casc0> <d0> <s0> <ops>
    casc0   1: the object graph after its first initialize_for_new_trial (`tfresh`); 0: as constructed, before any cascade
    ops     ;-separated  T<d> (tdm.initialize_trial) | L (initialize_for_new_trial cascade) | C<s> (change_shg_mgr)
                         | E<ns>|<xs>|<keys> | G<ns> (calculate_ns_grad2)
    answer  ;-separated  U | V:<llh>:<dllh/dns>:<ratio blocks>:<grad blocks> | XERR | G:<number> | REF              -/
def nevTab (s : String) : List (Nat × Nat) :=
  (entries s).filterMap fun
    | [d, n] => some (pN d, pN n)
    | _ => none

def akTab (s : String) : List ((Nat × List BF) × List BF) :=
  (entries s).filterMap fun
    | [sr, xs, as] => some ((pN sr, pList pBF xs), pList pBF as)
    | _ => none

def pTOp (s : String) : Option (TOp Nat Nat BF) :=
  if s.startsWith "T" then some (.tdmInit (pN (s.drop 1).toString))
  else if s == "L" then some .llhInit
  else if s.startsWith "C" then some (.changeShg (pN (s.drop 1).toString))
  else if s.startsWith "E" then
    match ((s.drop 1).toString).splitOn "|" with
    | [ns, xs, ks] => some (.evaluate ⟨pBF ns, pList pBF xs, pList pBF ks⟩)
    | _ => none
  else if s.startsWith "G" then some (.grad2 (pBF (s.drop 1).toString))
  else none

def fTRes : TRes BF → String
  | .unit => "U"
  | .vals o => s!"V:{fBF o.llh}:{fBF o.gradNs}:{fBlocks o.out.ratio}:{fBlocks o.out.grad}"
  | .evalError => "XERR"
  | .grad2 x => s!"G:{fBF x}"
  | .refused => "REF"

/-  fourth request kind: the composite likelihood of two datasets (CacheTop.Comp)
      comp <…the tokens of `top` up to <opa>…> <fj s:x1,x2,…:f0,f1;…> <oth d:s:x1,x2,…:r1,r2,…;…> <cnt d:N:Nsel;…> <casc0> <d0> <s0> <ops>
    ops     T<d> | L | C<s> | G<ns> (dataset 0's calculate_ns_grad2) | M<ns>|<xs>|<keys> (composite evaluate) | H<ns> (composite grad2)
    answer  U | G:<x> | REF | V:<llh>:<dllh/dns> | XERR | H:<x> | HREF                                                   -/
def fjTab (s : String) : List ((Nat × List BF) × List BF) := akTab s

def othTab (s : String) : List ((Nat × Nat × List BF) × List BF) :=
  (entries s).filterMap fun
    | [d, sr, xs, rs] => some ((pN d, pN sr, pList pBF xs), pList pBF rs)
    | _ => none

def cntTab (s : String) : List (Nat × (Nat × Nat)) :=
  (entries s).filterMap fun
    | [d, n, m] => some (pN d, (pN n, pN m))
    | _ => none

def pCOp (s : String) : Option (COp Nat Nat BF) :=
  if s.startsWith "M" then
    match ((s.drop 1).toString).splitOn "|" with
    | [ns, xs, ks] => some (.cevaluate ⟨pBF ns, pList pBF xs, pList pBF ks⟩)
    | _ => none
  else if s.startsWith "H" then some (.cgrad2 (pBF (s.drop 1).toString))
  else (pTOp s).map .low

def fCRes : CRes BF → String
  | .low r => fTRes r
  | .vals llh g => s!"V:{fBF llh}:{fBF g}"
  | .evalError => "XERR"
  | .grad2 x => s!"H:{fBF x}"
  | .refused => "HREF"

/-  round 7: the one-slot cache of SplinedI3EnergySigSetOverBkgPDFRatio (Model/CacheI3R7.lean)

      i3 <bumpAlways> <atol> <leaves> <srcof> <gp> <d0> <s0> <ops>

    leaves   d:s:k1,k2,…:ratio…:grads…;…   what a fresh object computes for (data set, source set, reduced key)
    srcof    d:i1,i2,…;…                   source index of every value of data set d
    gp       g1,g2,…                        `gamma:gpidx` of every source
    ops      I<d> | S<s> | R<p1,p2,…> (get_ratio) | G<fid>|<p1,p2,…> (get_gradient)
    answers  U | R:<hit>:<values> | G:<hit>:<values> | SHAPE | NOLEAF -/
inductive I3Op where
  | low (o : CacheI3.Op Nat Nat BF)
  | grad (fid : Nat) (p : BF) (rest : List BF)

def pI3Op (s : String) : Option I3Op :=
  if s.startsWith "I" then some (.low (.initTrial (pN (s.drop 1).toString)))
  else if s.startsWith "S" then some (.low (.changeSource (pN (s.drop 1).toString)))
  else if s.startsWith "R" then
    match pList pBF (s.drop 1).toString with
    | p :: rest => some (.low (.get p rest))
    | [] => none
  else if s.startsWith "G" then
    match ((s.drop 1).toString).splitOn "|" with
    | [fid, ps] => match pList pBF ps with
      | p :: rest => some (.grad (pN fid) p rest)
      | [] => none
    | _ => none
  else none

abbrev I3R := Option (List BF × List BF)

def i3Trace (W : CacheI3.World Nat Nat BF I3R) (bump : Bool) (close0 : BF → BF → Bool)
    (srcOf : Nat → List Nat) (gp : List Nat) : CacheI3.St Nat Nat BF I3R → List I3Op → List String
  | _, [] => []
  | st, .low o :: os =>
    let (st1, r) := CacheI3.step W bump close0 st o
    (match r with
     | .unit => "U"
     | .val (some v) hit => s!"R:{fB hit}:{fListD fBF v.1}"
     | .val none _ => "NOLEAF"
     | .shapeError => "SHAPE") :: i3Trace W bump close0 srcOf gp st1 os
  | st, .grad fid p rest :: os =>
    let (st1, r) := CacheI3.step W bump close0 st (.get p rest)
    (match r with
     | .unit => "U"
     | .val (some v) hit => s!"G:{fB hit}:{fListD fBF (CacheI3.gradOut (srcOf st1.d) gp fid v.2)}"
     | .val none _ => "NOLEAF"
     | .shapeError => "SHAPE") :: i3Trace W bump close0 srcOf gp st1 os

def i3Leaves (s : String) : List ((Nat × Nat × List BF) × (List BF × List BF)) :=
  if s == "-" then [] else
  (s.splitOn ";").filterMap fun e =>
    match e.splitOn ":" with
    | [d, sc, k, r, g] => some ((pN d, pN sc, pList pBF k), (pList pBF r, pList pBF g))
    | _ => none

def i3SrcOf (s : String) : List (Nat × List Nat) :=
  if s == "-" then [] else
  (s.splitOn ";").filterMap fun e =>
    match e.splitOn ":" with
    | [d, xs] => some (pN d, pList pN xs)
    | _ => none

/-  round 7: PDFRatioProduct with the caching ratio as a factor

      i3p <bumpAlways> <atol> <leaves> <srcof> <gp> <stubr> <stubg> <dep> <d0> <s0> <ops>

    stubr  d:s:values;…        ratio of the stateless factor       stubg  d:s:fid:values;…  its gradient (absent: scalar 0)
    dep    fid1,fid2,… | -     global fit parameters the stateless factor depends on
    ops    I<d> | S<s> | R<ps> | P<ps> (product get_ratio) | Q<fid>|<ps> (product get_gradient)
    answers U | R:<hit>:<values> | P:<values> | Q:<values> | Q0 (scalar 0) | SHAPE -/
def pPOp (s : String) : Option (CacheI3.POp Nat Nat BF) :=
  if s.startsWith "P" then
    match pList pBF (s.drop 1).toString with
    | p :: rest => some (.pratio p rest)
    | [] => none
  else if s.startsWith "Q" then
    match ((s.drop 1).toString).splitOn "|" with
    | [fid, ps] => match pList pBF ps with
      | p :: rest => some (.pgrad (pN fid) p rest)
      | [] => none
    | _ => none
  else match pI3Op s with
    | some (.low o) => some (.low o)
    | _ => none

def fPRes : CacheI3.PRes BF → String
  | .low .unit => "U"
  | .low (.val v hit) => s!"R:{fB hit}:{fListD fBF v.1}"
  | .low .shapeError => "SHAPE"
  | .vals v => s!"V:{fListD fBF v}"
  | .zero => "Z"
  | .shapeError => "SHAPE"

def stubRTab (s : String) : List ((Nat × Nat) × List BF) :=
  if s == "-" then [] else
  (s.splitOn ";").filterMap fun e =>
    match e.splitOn ":" with
    | [d, sc, v] => some ((pN d, pN sc), pList pBF v)
    | _ => none

def stubGTab (s : String) : List ((Nat × Nat × Nat) × List BF) :=
  if s == "-" then [] else
  (s.splitOn ";").filterMap fun e =>
    match e.splitOn ":" with
    | [d, sc, fid, v] => some ((pN d, pN sc, pN fid), pList pBF v)
    | _ => none

def answer (line : String) : String :=
  match tokens line with
  | ["i3p", bump, atol, leaves, srcof, gp, stubr, stubg, dep, d0, s0, ops] =>
    let lt := i3Leaves leaves
    let stab := i3SrcOf srcof
    let rt := stubRTab stubr
    let gt := stubGTab stubg
    let deps := pList pN dep
    let W : CacheI3.World Nat Nat BF (List BF × List BF) := ⟨fun d s k => (lt.lookup (d, s, k)).getD ([], [])⟩
    let B : CacheI3.Stub Nat Nat BF :=
      ⟨fun d s => (rt.lookup (d, s)).getD [], fun d s fid => gt.lookup (d, s, fid), fun fid => deps.contains fid⟩
    match (if ops == "-" then some [] else (ops.splitOn ";").mapM pPOp) with
    | some ops =>
      String.intercalate ";" ((CacheI3.prun W B (pB bump) (CacheI3.closeAbs (pBF atol)) (fun d => (stab.lookup d).getD [])
        (pList pN gp) (CacheI3.fresh (pN d0) (pN s0)) ops).2.map fPRes)
    | none => "bad-ops"
  | ["i3", bump, atol, leaves, srcof, gp, d0, s0, ops] =>
    let lt := i3Leaves leaves
    let stab := i3SrcOf srcof
    let W : CacheI3.World Nat Nat BF I3R := ⟨fun d s k => lt.lookup (d, s, k)⟩
    match (if ops == "-" then some [] else (ops.splitOn ";").mapM pI3Op) with
    | some ops =>
      String.intercalate ";" (i3Trace W (pB bump) (CacheI3.closeAbs (pBF atol)) (fun d => (stab.lookup d).getD [])
        (pList pN gp) (CacheI3.fresh (pN d0) (pN s0)) ops)
    | none => "bad-ops"
  | ["hist", v, c, man, bkg, up, lo, dx, grid, sel, d0, s0, ops] =>
    let v := pVariant v
    let cfg := pCfg c
    let W := mkWorld man bkg up lo dx grid sel
    match (if ops == "-" then some [] else (ops.splitOn ";").mapM pOp) with
    | some ops =>
      let r := run W v (hitOf v cfg) cfg (fresh (pN d0) (pN s0)) ops
      String.intercalate ";" (List.zipWith (· ++ ·) (r.2.map fRes) ((pureTrace W cfg.parabola (pN d0) (pN s0) ops).map fPure))
    | none => "bad-ops"
  | ["top", v, c, man, bkg, up, lo, dx, grid, sel, nev, ak, opa, casc0, d0, s0, ops] =>
    let v := pVariant v
    let cfg := pCfg c
    let nt := nevTab nev
    let at_ := akTab ak
    let T : Top Nat Nat BF :=
      { W := mkWorld man bkg up lo dx grid sel, nEvents := fun d => (nt.lookup d).getD 0,
        ak := fun s q => (at_.lookup (s, q.x)).getD [], opa := pBF opa }
    match (if ops == "-" then some [] else (ops.splitOn ";").mapM pTOp) with
    | some ops =>
      let t0 : TSt Nat Nat BF := tfresh (pN d0) (pN s0)
      let t0 := if pB casc0 then t0 else { t0 with evd := none }
      String.intercalate ";" ((trun T v (hitOf v cfg) cfg t0 ops).2.map fTRes)
    | none => "bad-ops"
  | ["comp", v, c, man, bkg, up, lo, dx, grid, sel, nev, ak, opa, fj, oth, cnt, casc0, d0, s0, ops] =>
    let v := pVariant v
    let cfg := pCfg c
    let nt := nevTab nev
    let at_ := akTab ak
    let ft := fjTab fj
    let ot := othTab oth
    let ct := cntTab cnt
    let C : Comp Nat Nat BF :=
      { T := { W := mkWorld man bkg up lo dx grid sel, nEvents := fun d => (nt.lookup d).getD 0,
               ak := fun s q => (at_.lookup (s, q.x)).getD [], opa := pBF opa },
        fj := fun s q => (ft.lookup (s, q.x)).getD [],
        others := fun d s q => match ot.lookup (d, s, q.x) with | some r => [r] | none => [],
        counts := fun d => match ct.lookup d with | some nm => [nm] | none => [] }
    match (if ops == "-" then some [] else (ops.splitOn ";").mapM pCOp) with
    | some ops =>
      let c0 : CSt Nat Nat BF := cfresh (pN d0) (pN s0)
      let c0 := if pB casc0 then c0 else { c0 with t := { c0.t with evd := none } }
      String.intercalate ";" ((crun C v (hitOf v cfg) cfg c0 ops).2.map fCRes)
    | none => "bad-ops"
  | ["field", reset, tab, d0, s0, ops] =>
    let t := fTab tab
    let f := fun d s p => (t.lookup (d, s, p)).getD []
    match (if ops == "-" then some [] else (ops.splitOn ";").mapM pFieldOp) with
    | some ops => String.intercalate ";" (fieldTrace f (pB reset) (fieldFresh (pN d0) (pN s0)) ops)
    | none => "bad-ops"
  | _ => "bad-op"

def main : IO Unit := do loop (← IO.getStdin) answer
