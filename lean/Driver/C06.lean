import SkyllhModel.Proto
import SkyllhModel.Model.Cache
open Proto Cache

/-  one request = one history on one object graph (floats as IEEE bit patterns):

      hist <variant> <cfg> <man> <bkg> <up> <lo> <dx> <d0> <s0> <ops>

    variant  3 chars 0/1: bumpAlways exactHit resetNsgrad       (read from the source by the harness)
    cfg      5 chars 0/1: srcFields preFields staticFields cachePd parabola
    man      d:s:k:g:v1,v2,…;…     signal PDF values of grid point g for the events of source k
    bkg      d:s:v1,v2,…;…         background PDF values
    up, lo   g:g';…                ParameterGrid neighbours          dx  grid spacing
    d0, s0   data set / source of the first initialize_trial
    ops      ;-separated   I<d> | S<s> | E<x1,x2,…>|<key1,key2,…> | G
    answer   ;-separated   U | O:<ratio blocks a,b/c,d>:<grad blocks>:<interpHit>:<pdMiss>:<bkgMiss>
                             | G<d>:<s>:<x1,x2,…> | ERR
             every O answer is followed by |P:<ratio blocks>:<grad blocks> = the stateless evaluator `evalPure`
-/

def bits (s : String) : List Bool := s.toList.map (· == '1')

def pVariant (s : String) : Variant :=
  match bits s with
  | [a, b, c] => ⟨a, b, c⟩
  | _ => ⟨false, false, false⟩

def pCfg (s : String) : Cfg :=
  match bits s with
  | [a, b, c, d, e] => ⟨a, b, c, d, e⟩
  | _ => ⟨false, false, false, false, false⟩

def entries (s : String) : List (List String) :=
  if s == "-" then [] else (s.splitOn ";").map (·.splitOn ":")

def manTab (s : String) : List ((Nat × Nat × Nat × UInt64) × List Float) :=
  (entries s).filterMap fun
    | [d, sr, k, g, vs] => some ((pN d, pN sr, pN k, (pF g).toBits), pList pF vs)
    | _ => none

def bkgTab (s : String) : List ((Nat × Nat) × List Float) :=
  (entries s).filterMap fun
    | [d, sr, vs] => some ((pN d, pN sr), pList pF vs)
    | _ => none

def nbTab (s : String) : List (UInt64 × Float) :=
  (entries s).filterMap fun
    | [g, h] => some ((pF g).toBits, pF h)
    | _ => none

def nan : Float := 0.0 / 0.0

def mkWorld (man bkg up lo dx : String) : World Nat Nat Float :=
  let mt := manTab man
  let bt := bkgTab bkg
  let ut := nbTab up
  let lt := nbTab lo
  { man := fun d s k g => (mt.lookup (d, s, k, g.toBits)).getD [],
    bkg := fun d s => (bt.lookup (d, s)).getD [],
    up := fun g => (ut.lookup g.toBits).getD nan,
    lo := fun g => (lt.lookup g.toBits).getD nan,
    dx := pF dx }

def pOp (s : String) : Option (Op Nat Nat Float) :=
  if s.startsWith "I" then some (.initTrial (pN (s.drop 1).toString))
  else if s.startsWith "S" then some (.changeSource (pN (s.drop 1).toString))
  else if s.startsWith "E" then
    match ((s.drop 1).toString).splitOn "|" with
    | [xs, ks] => some (.evaluate ⟨pList pF xs, pList pF ks⟩)
    | _ => none
  else if s == "G" then some .grad2
  else none

def fBlocks (bs : List (List Float)) : String :=
  if bs.isEmpty then "-" else String.intercalate "/" (bs.map (fListD fF))

def fRes : Res Nat Nat Float → String
  | .unit => "U"
  | .out o => s!"O:{fBlocks o.ratio}:{fBlocks o.grad}:{fB o.interpHit}:{o.pdMiss}:{fB o.bkgMiss}"
  | .grad2Of d s q => s!"G{d}:{s}:{fListD fF q.x}"
  | .error => "ERR"

/-- the specification value of every evaluate of the history (stateless evaluator on the data / source set by
the last initTrial / changeSource before it) -/
def pureTrace (W : World Nat Nat Float) (par : Bool) : Nat → Nat → List (Op Nat Nat Float) → List String
  | _, _, [] => []
  | _, s, .initTrial d :: ops => "" :: pureTrace W par d s ops
  | d, _, .changeSource s :: ops => "" :: pureTrace W par d s ops
  | d, s, .evaluate q :: ops =>
    let r := evalPure W par d s q
    s!"|P:{fBlocks r.1}:{fBlocks r.2}" :: pureTrace W par d s ops
  | d, s, .grad2 :: ops => "" :: pureTrace W par d s ops

/-  second request kind: the DataField cache of a TrialDataManager
      field <reset 0/1> <table d:s:p:v1,v2,…;…> <d0> <s0> <ops ;-separated  N<d> | R | S<s> | C<p>>
    answer ;-separated  U | <recomputed 0/1>:<v1,v2,…>                                                   -/
def fTab (s : String) : List ((Nat × Nat × UInt64) × List Float) :=
  (entries s).filterMap fun
    | [d, sr, p, vs] => some ((pN d, pN sr, (pF p).toBits), pList pF vs)
    | _ => none

def pFieldOp (s : String) : Option (FieldOp Nat Nat UInt64) :=
  if s.startsWith "N" then some (.initNew (pN (s.drop 1).toString))
  else if s == "R" then some .initSame
  else if s.startsWith "S" then some (.changeSource (pN (s.drop 1).toString))
  else if s.startsWith "C" then some (.compute (pF (s.drop 1).toString).toBits)
  else none

/-- run with the "was recomputed" flag made visible: recomputed ⇔ the remembered key changed or was set -/
def fieldTrace (f : Nat → Nat → UInt64 → List Float) (reset : Bool) :
    FieldSt Nat Nat UInt64 (List Float) → List (FieldOp Nat Nat UInt64) → List String
  | _, [] => []
  | st, op :: ops =>
    let r := fieldStep f reset st op
    let hit := match op, st.inEvents, st.vals, st.key with
      | .compute p, true, some _, some p' => p' == p
      | _, _, _, _ => false
    (match r.2 with
      | some v => s!"{fB (!hit)}:{fListD fF v}"
      | none => "U") :: fieldTrace f reset r.1 ops

def answer (line : String) : String :=
  match tokens line with
  | ["hist", v, c, man, bkg, up, lo, dx, d0, s0, ops] =>
    let v := pVariant v
    let cfg := pCfg c
    let W := mkWorld man bkg up lo dx
    match (if ops == "-" then some [] else (ops.splitOn ";").mapM pOp) with
    | some ops =>
      let r := run W v (hitOf v cfg) cfg (fresh (pN d0) (pN s0)) ops
      String.intercalate ";" (List.zipWith (· ++ ·) (r.2.map fRes) (pureTrace W cfg.parabola (pN d0) (pN s0) ops))
    | none => "bad-ops"
  | ["field", reset, tab, d0, s0, ops] =>
    let t := fTab tab
    let f := fun d s p => (t.lookup (d, s, p)).getD []
    match (if ops == "-" then some [] else (ops.splitOn ";").mapM pFieldOp) with
    | some ops => String.intercalate ";" (fieldTrace f (pB reset) (fieldFresh (pN d0) (pN s0)) ops)
    | none => "bad-ops"
  | _ => "bad-op"

def main : IO Unit := do loop (← IO.getStdin) answer
