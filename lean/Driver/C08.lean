import SkyllhModel.Proto
import SkyllhModel.Model.Rng
import SkyllhModel.Model.RngDeep
import SkyllhModel.Model.RngR7
open Proto Rng

/-  requests (floats as IEEE bit patterns, ints in decimal, lists comma separated, `-` = empty):
      choice <right 0|1> <items> <ps> <us>
          -> coded:<items|ERR> spec:<items|ERR> cdf:<floats|ERR>        (items = integer codes of the item array)
      seed <start> <cur> <used>
          -> new:<seed> old:<seed>      (old = pinned code on sorted(unique(used)))
      hist <start> <file> <curs> <rows>
          -> seeds the successive extensions run with
      histshared <start> <file> <cur> <rows>     (one service object through all extensions)
      trialsE <n> <seed> <pos> <m> <maxEv> <nSig> <thr> <maxRep> <npar> <lo> <hi> <needMod> <norep> <delta> <tables>
          sequential trials whose minimisation may raise -> rows:<…> err:<0|1> rss:<seed>:<pos> m:<…>
      cobj <right> <rejectsNaN> <atol> <na|ndim of items> <ndim of p> <np.sum(p)> <items> <ps> <us> -> REJ:<class> | ok:<items|ERR>
      ncpu <cfg|-> <local|->  -> ok:<n> | ERR:value
      labels <start> <file> <cur> <pos> <n> <ncpu> <tables>  -> seed labels of the rows an extension appends
      timehist <edges> <seed:pos,…> <step/step/…> <tables>   step = d,<svc>,<tmin|n>,<tmax|n>,<size> | s,<edges ;-sep> | o,<svc>,<k> | r,<svc>,<seed>
          -> times:<floats|ERR>/… svcs:<seed:pos>,…
      extfile <start> <n> <ncpu> <seed> <pos> <mseed:mpos|-> <overwrite 0|1> <sig_kwargs -|e|m:x> <file> <grid1> <grid2> <maxEv> <thr> <maxRep> <npar> <lo> <hi> <tables>
          grid = s:<m> | r2:<a>,<b> | r3:<a>,<b>,<step> | a:<list>
          -> rows:<…> file:<labels of the new file> rss:<seed>:<pos>  |  ERR:<index|value|runtime> rss:<…>
      pseudo <mode p|s|l:<len>|e:<len>> <nds> <mean> <maxEv> <keys> <seed> <pos> <tables>
          generate_pseudo_data (p) / generate_signal_events (s: no lists, l: n_events_list of <len> zeros, e: events_list of <len> None)
          with the scripted multi-dataset generators -> nsig:<n> nev:<list> ev:<floats|N|E>/… words:<w>  | ERR:value | ERR:index
      rssobj <assignAfter 0|1> <hi> <arg> <step/step/…|->   arg = n (None) | b (int() refuses) | i:<int>;  step = r,<arg> | d,<words> | x,b (rss.random = not a RandomState) | x,<seed>,<pos> (rss.random = RandomState(seed) advanced)
          RandomStateService(arg) then the history -> ctor:<ok|ERR:type|ERR:value> steps:<ok|ERR:..>=<label|n>,… seed:<label|n> gen:<s:seed:pos|e:tag:pos>
      trials <n> <ncpu> <seed> <pos> <mseed:mpos|-|same> <maxEv> <nSig> <thr> <maxRep> <npar> <lo> <hi> <tables>
          tables = seed=w,w,…;seed=w,…   (32-bit words of numpy's MT19937 streams, supplied by the harness)
          (`same` = the data service itself is passed as minimizer_rss: reference 0 twice)
          -> rows:<seed;nEv;data;reps;fit|…> ws:<worker seeds> rss:<seed>:<pos> m:<seed>:<pos|->   | ERR:value | ERR:index
-/

def fOptIdx (r : Option (List Nat)) : String :=
  match r with
  | some l => fListD toString l
  | none => "ERR"

def sortedUnique (l : List Nat) : List Nat := (l.mergeSort (fun a b => decide (a ≤ b))).eraseDups

/-- numpy's `mt19937_next_double` from two consecutive 32-bit words -/
def mkDouble (a b : Nat) : Float :=
  ((a >>> 5).toFloat * 67108864.0 + (b >>> 6).toFloat) / 9007199254740992.0

/-- the k-th double of a view -/
def dbl (view : Nat → Nat) (k : Nat) : Float := mkDouble (view (2 * k)) (view (2 * k + 1))

structure Syn where
  maxEv : Nat
  nSig : Nat
  thr : Float
  maxRep : Nat
  npar : Nat
  lo : Float
  hi : Float

structure SynMin where
  /-- restarts needed = #(events < thr) mod needMod (may exceed maxRep: the loop then gives up) -/
  needMod : Nat
  /-- `is_repeatable` is false from attempt number `norep` on (0 = always repeatable) -/
  norep : Nat
  /-- the stub implementation returns `initials + delta` (outside the bounds for a large delta) -/
  delta : Float

/-- the stub `MinimizerImpl` of harness/props/c08.py: the status is the attempt number -/
def synImpl (m : SynMin) (needed : Nat) : MinImpl (List Float) Nat where
  minimize k x := (x.map (fun v => v + m.delta), k)
  converged k := decide (needed ≤ k)
  repeatable k := m.norep == 0 || decide (k + 1 < m.norep)

/-- the synthetic analysis of harness/props/c08.py: the background generator draws one uniform for
the event count and one per event, the signal generator `nSig` more; the minimisation is the
model of `Minimizer.minimize` (`minimizeM`: restart loop, ValueError, clipping) around the stub
implementation, the restart initials are `generate_random_floating_param_initials`
(`randInitials`). -/
def synCfgE (c : Syn) (m : SynMin) : TrialCfgE Nat (List Float) (Nat × List Float) where
  dataGen view :=
    let u0 := dbl view 0
    let nEv := 1 + (u0 * c.maxEv.toFloat).floor.toUInt64.toNat
    let ev := (List.range (nEv + c.nSig)).map (fun k => dbl view (1 + k))
    (ev, 2 * (1 + nEv + c.nSig))
  minim d view :=
    let needed := (d.countP (fun e => e < c.thr)) % m.needMod
    let bounds := List.replicate c.npar (c.lo, c.hi)
    let x0 := List.replicate c.npar (0.5 * (c.lo + c.hi))
    let r := minimizeM (synImpl m needed) (fun v => randInitials bounds (dbl v)) (2 * c.npar) c.maxRep
      (clipTo bounds) x0 view
    (r.1.map (fun o => (o.reps, o.x)), r.2)

/-- the total-layer configuration: the same with a stub that always converges in time -/
def synCfg (c : Syn) : TrialCfg Nat (List Float) (Nat × List Float) where
  dataGen := (synCfgE c ⟨c.maxRep + 1, 0, 0.0⟩).dataGen
  minim d view :=
    let r := (synCfgE c ⟨c.maxRep + 1, 0, 0.0⟩).minim d view
    match r.1 with
    | .ok x => (x, r.2)
    | .error _ => ((0, []), r.2)

def parseTables (s : String) : List (Nat × Array Nat) :=
  if s == "-" then [] else
  (s.splitOn ";").filterMap (fun t =>
    match t.splitOn "=" with
    | [k, ws] => some (k.toNat!, (pList pN ws).toArray)
    | _ => none)

def genOf (tabs : List (Nat × Array Nat)) (seed pos : Nat) : Nat :=
  match tabs.lookup seed with
  | some arr => arr.getD pos 8589934592   -- 2^33: not a 32-bit word (table too short)
  | none => 8589934592

def pStream (s : String) : Option Stream :=
  if s == "-" then none else
  match s.splitOn ":" with
  | [a, b] => some ⟨a.toNat!, b.toNat!⟩
  | _ => none

def fStream (s : Stream) : String := s!"{s.seed}:{s.pos}"

def fRow (o : TrialOut (List Float) (Nat × List Float)) : String :=
  let fit := if o.fit.1 == 0 then "-" else fListD fF o.fit.2
  s!"{o.seed};{o.data.length};{fListD fF o.data};{o.fit.1};{fit}"

def fRowE (o : TrialOut (List Float) (Nat × List Float)) : String :=
  s!"{o.seed};{o.data.length};{fListD fF o.data};{o.fit.1};{fListD fF o.fit.2}"

def fCErr : CErr → String
  | .typeError => "type"
  | .valueError => "value"
  | .indexError => "index"

/-- `s:<m>` | `r2:<a>,<b>` | `r3:<a>,<b>,<step>` | `a:<list>` -/
def pGrid (s : String) : GridArg Float :=
  match s.splitOn ":" with
  | ["s", m] => .scalar (pF m)
  | ["r2", ab] => match pList pF ab with
    | [a, b] => .range2 a b
    | _ => .array []
  | ["r3", abs] => match pList pF abs with
    | [a, b, st] => .range3 a b st
    | _ => .array []
  | ["a", xs] => .array (pList pF xs)
  | _ => .array []

def pOptF (s : String) : Option Float := if s == "n" then none else some (pF s)

/-- `d,<svc>,<tmin|n>,<tmax|n>,<size>` | `s,<edge;edge;…>` | `o,<svc>,<k>` | `r,<svc>,<seed>` -/
def pTOp (s : String) : Option (TOp (List (Float × Float)) (Option Float × Option Float)) :=
  match s.splitOn "," with
  | ["d", svc, a, b, size] =>
    let win := if a == "n" && b == "n" then none else some (pOptF a, pOptF b)
    some (.draw svc.toNat! win size.toNat!)
  | ["s", es] => some (.setIvs (Livetime.unflat ((es.splitOn ";").map pF)))
  | ["o", svc, k] => some (.other svc.toNat! k.toNat!)
  | ["r", svc, seed] => some (.reseed svc.toNat! seed.toNat!)
  | _ => none

def pForm (s : String) : ArgForm := if s == "na" then .notArray else .array s.toNat!

def pSeedArg (t : String) : RngR7.SeedArg :=
  if t == "n" then .none else if t == "b" then .bad else .int (t.drop 2).toString.toInt!

def fRErr : RngR7.RErr → String
  | .typeError => "ERR:type"
  | .valueError => "ERR:value"

def fLabel : Option Int → String
  | some v => toString v
  | none => "n"

def fGenSt : RngR7.GenSt → String
  | .seeded s p => s!"s:{s}:{p}"
  | .entropy t p => s!"e:{t}:{p}"

def pROp (t : String) : Option RngR7.ROpX :=
  match t.splitOn "," with
  | ["r", a] => some (.op (.reseed (pSeedArg a)))
  | ["d", k] => some (.op (.draw (pN k)))
  | ["x", "b"] => some (.setRandom none)
  | ["x", sd, pos] => some (.setRandom (some (.seeded (pN sd) (pN pos))))
  | _ => none

/-- scripted background generator of the multi-dataset fixture: per dataset one uniform -> 1 + ⌊u·maxEv⌋ events -/
def r7Bkg (nds maxEv : Nat) (view : Nat → Nat) : (List Nat × List (List Float)) × Nat :=
  let st := (List.range nds).foldl (fun (st : Nat × List Nat × List (List Float)) _ =>
    let k := st.1
    let n := 1 + (dbl view k * maxEv.toFloat).floor.toUInt64.toNat
    (k + 1 + n, st.2.1 ++ [n], st.2.2 ++ [(List.range n).map (fun j => dbl view (k + 1 + j))])) (0, [], [])
  ((st.2.1, st.2.2), 2 * st.1)

/-- scripted signal generator: the j-th key gets (mean + j) % 3 (+1 for the first) uniforms -/
def r7Sig (keys : List Nat) (mean : Nat) (view : Nat → Nat) : (Nat × List (Nat × List Float)) × Nat :=
  let st := (keys.zip (List.range keys.length)).foldl (fun (st : Nat × List (Nat × List Float)) kj =>
    let n := (mean + kj.2) % 3 + (if kj.2 == 0 then 1 else 0)
    (st.1 + n, st.2 ++ [(kj.1, (List.range n).map (fun i => dbl view (st.1 + i)))])) (0, [])
  ((st.1, st.2), 2 * st.1)

def fPErr : RngR7.PErr → String
  | .valueError => "ERR:value"
  | .indexError => "ERR:index"

def fPseudo (o : RngR7.PseudoOut Float) : String :=
  let evs := o.ev.map (fun e => match e with
    | none => "N"
    | some [] => "E"
    | some l => fListD fF l)
  s!"nsig:{o.nSig} nev:{fListD toString o.nEv} ev:{String.intercalate "/" evs} words:{o.words}"

def answer (line : String) : String :=
  match tokens line with
  | ["choice", r, its, ps, us] =>
      let right := pB r
      let p := pList pF ps
      let u := pList pF us
      let items := pList pN its
      let coded := chooseCoded right items p u (argsort u)
      let spec := chooseSpec right items p u
      let c := match cdf p with
        | some c => fListD fF c
        | none => "ERR"
      s!"coded:{fOptIdx coded} spec:{fOptIdx spec} cdf:{c}"
  | ["seed", st, cur, used] =>
      let u := pList pN used
      s!"new:{extendSeed (pN st) u (pN cur)} old:{extendSeedOld (sortedUnique u) (pN cur)}"
  | ["hist", st, file, curs, rows] =>
      fListD toString (extendMany (pN st) (pList pN file) ((pList pN curs).zip (pList pN rows)))
  | ["histshared", st, file, cur, rows] =>
      fListD toString (extendShared (pN st) (pList pN file) (pN cur) (pList pN rows))
  | ["trials", n, ncpu, seed, pos, m, maxEv, nSig, thr, maxRep, npar, lo, hi, tabs] =>
      let cfg := synCfg ⟨pN maxEv, pN nSig, pF thr, pN maxRep, pN npar, pF lo, pF hi⟩
      let gen := genOf (parseTables tabs)
      -- store: reference 0 = the data service, reference 1 = an explicit minimiser service
      let (w, ms) : World × Option Nat :=
        if m == "same" then ((fun _ => ⟨pN seed, pN pos⟩), some 0)
        else match pStream m with
          | some st => ((fun r => if r == 1 then st else ⟨pN seed, pN pos⟩), some 1)
          | none => ((fun _ => ⟨pN seed, pN pos⟩), none)
      match doTrialsPost gen id cfg (pN n) (pN ncpu) w 0 ms with
      | (.error .valueError, w') => s!"ERR:value rss:{fStream (w' 0)}"
      | (.error .indexError, w') => s!"ERR:index rss:{fStream (w' 0)}"
      | (.ok r, _) =>
        let mstr := match ms with
          | some 1 => fStream (r.world 1)
          | _ => "-"
        let rows := if r.outs.isEmpty then "-" else String.intercalate "|" (r.outs.map fRow)
        s!"rows:{rows} ws:{fListD toString r.workerSeeds} rss:{fStream (r.world 0)} m:{mstr}"
  | ["trialsE", n, seed, pos, m, maxEv, nSig, thr, maxRep, npar, lo, hi, needMod, norep, delta, tabs] =>
      let cfg := synCfgE ⟨pN maxEv, pN nSig, pF thr, pN maxRep, pN npar, pF lo, pF hi⟩ ⟨pN needMod, pN norep, pF delta⟩
      let gen := genOf (parseTables tabs)
      let (w, ms) : World × Option Nat :=
        if m == "same" then ((fun _ => ⟨pN seed, pN pos⟩), some 0)
        else match pStream m with
          | some st => ((fun r => if r == 1 then st else ⟨pN seed, pN pos⟩), some 1)
          | none => ((fun _ => ⟨pN seed, pN pos⟩), none)
      let r := trialsSeqE gen cfg (pN n) w 0 ms
      let mstr := match ms with
        | some 1 => fStream (r.world 1)
        | _ => "-"
      let rows := if r.outs.isEmpty then "-" else String.intercalate "|" (r.outs.map fRowE)
      let e := if r.err.isSome then "1" else "0"
      s!"rows:{rows} err:{e} rss:{fStream (r.world 0)} m:{mstr}"
  | ["cobj", right, rej, atol, form, ndim, s, its, ps, us] =>
      -- RandomChoice(items, probabilities)(rss, size) as an object: constructor, then the call on the stored cdf
      let items := pList pN its
      match construct (pB rej) (pF atol) (pForm form) (pN ndim) (pF s) items (pList pF ps) with
      | .error e => s!"REJ:{fCErr e}"
      | .ok rc =>
        let u := pList pF us
        s!"ok:{fOptIdx (rc.call (pB right) u (argsort u))}"
  | ["ncpu", c, l] =>
      let o := fun (t : String) => if t == "-" then (none : Option Int) else some t.toInt!
      match getNcpu (o c) (o l) with
      | .ok k => s!"ok:{k}"
      | .error _ => "ERR:value"
  | ["labels", st, file, cur, pos, n, ncpu, tabs] =>
      fListD toString (extendLabels (genOf (parseTables tabs)) id (pN st) (pList pN file) (pN cur) (pN pos) (pN n) (pN ncpu))
  | ["extfile", st, n, ncpu, seed, pos, m, ow, kw, file, g1, g2, maxEv, thr, maxRep, npar, lo, hi, tabs] =>
      -- extend_trial_data_file(ana, rss, n, trial_data, mean_n_sig=g1, mean_n_sig_null=g2, ncpu) on the synthetic analysis
      let clen := fun (x : Float) => if x ≤ 0 then 0 else x.ceil.toUInt64.toNat
      -- the caller's sig_kwargs: `-` = None, `e` = a dict without 'mean', `m:<x>` = a dict that already carries one
      let kw0 : Option (Option Float) := if kw == "-" then none else if kw == "e" then some none else
        some (some (pF (kw.drop 2).toString))
      let grid := effGrid (pB ow) kw0 ((gridOf Nat.toFloat clen (pGrid g1)).flatMap (fun m =>
        (gridOf Nat.toFloat clen (pGrid g2)).map (fun m0 => (m, m0))))
      let cfgOf := fun (g : Float × Float) =>
        synCfg ⟨pN maxEv, g.1.floor.toUInt64.toNat, pF thr, pN maxRep, pN npar, pF lo, pF hi⟩
      let (w, ms) : World × Option Nat := match pStream m with
        | some stm => ((fun r => if r == 1 then stm else ⟨pN seed, pN pos⟩), some 1)
        | none => ((fun _ => ⟨pN seed, pN pos⟩), none)
      match extendFile (genOf (parseTables tabs)) id cfgOf (pN st) (pN n) (pN ncpu) 0 ms grid (pList pN file) w with
      | (.error e, w') =>
        let c := match e with
          | .indexError => "index"
          | .valueError => "value"
          | .runtimeError => "runtime"
        s!"ERR:{c} rss:{fStream (w' 0)} m:{fStream (w' 1)}"
      | (.ok (file', rows), w') =>
        let rs := if rows.isEmpty then "-" else String.intercalate "|" (rows.map fRow)
        s!"rows:{rs} file:{fListD toString file'} rss:{fStream (w' 0)} m:{fStream (w' 1)}"
  | ["timehist", ivs, svcs, steps, tabs] =>
      -- a history on ONE Livetime/TimeGenerator object and several services (refs 0..): executed with `trun`
      let gen := genOf (parseTables tabs)
      let sv := (svcs.splitOn ",").filterMap pStream
      let w : World := fun r => sv.getD r ⟨0, 0⟩
      let ops := (steps.splitOn "/").filterMap pTOp
      let r := trun gen (ltCfg dbl) ⟨Livetime.unflat (pList pF ivs), none, w⟩ ops
      let outs := r.2.filterMap (fun o => o.map (fun t => match t with
        | some ts => fListD fF ts
        | none => "ERR"))
      let fin := (List.range sv.length).map (fun k => fStream (r.1.world k))
      s!"times:{String.intercalate "/" outs} svcs:{String.intercalate "," fin}"
  | ["rssobj", aa, hi, arg, steps] =>
      match RngR7.mk (pN hi) 0 (pSeedArg arg) with
      | .error e => s!"ctor:{fRErr e} steps:- seed:- gen:-"
      | .ok r =>
        let ops := if steps == "-" then [] else (steps.splitOn "/").filterMap pROp
        let (outs, r') := RngR7.runOpsX (pB aa) (pN hi) 1 r ops
        let os := outs.map (fun o => (match o.1 with
          | .ok _ => "ok"
          | .error e => fRErr e) ++ "=" ++ fLabel o.2)
        s!"ctor:ok steps:{fListD id os} seed:{fLabel r'.seed} gen:{fGenSt r'.gen}"
  | ["pseudo", mode, nds, mean, maxEv, keys, seed, pos, tabs] =>
      let gen := genOf (parseTables tabs)
      let view := fun i => gen (pN seed) (pN pos + i)
      let sig := fun (m : Nat) v => r7Sig (pList pN keys) m v
      let r := if mode == "p" then
          RngR7.generatePseudoData (pN nds) (· == 0) (r7Bkg (pN nds) (pN maxEv)) sig (pN mean) view
        else if mode == "s" then
          RngR7.generateSignalEvents (pN nds) (· == 0) sig (pN mean) none none view
        else if mode.startsWith "l:" then
          RngR7.generateSignalEvents (pN nds) (· == 0) sig (pN mean) (some (List.replicate (pN (mode.drop 2).toString) 0)) none view
        else
          RngR7.generateSignalEvents (pN nds) (· == 0) sig (pN mean) none (some (List.replicate (pN (mode.drop 2).toString) none)) view
      match r with
      | .ok o => fPseudo o
      | .error e => fPErr e
  | _ => "bad-op"

def main : IO Unit := do loop (← IO.getStdin) answer
