import SkyllhModel.Proto
import SkyllhModel.Model.Rng
open Proto Rng

/-  requests (floats as IEEE bit patterns, ints in decimal, lists comma separated, `-` = empty):
      choice <right 0|1> <items> <ps> <us>
          -> coded:<items|ERR> spec:<items|ERR> cdf:<floats|ERR>        (items = integer codes of the item array)
      seed <start> <cur> <used>
          -> new:<seed> old:<seed>      (old = pinned code on sorted(unique(used)))
      hist <start> <file> <curs> <rows>
          -> seeds the successive extensions run with
      histshared <start> <file> <cur> <rows>     (one service object through all extensions)
      trials <n> <ncpu> <seed> <pos> <mseed:mpos|-|same> <maxEv> <nSig> <thr> <maxRep> <npar> <lo> <hi> <tables>
          tables = seed=w,w,…;seed=w,…   (32-bit words of numpy's MT19937 streams, supplied by the harness)
          (`same` = the data service itself is passed as minimizer_rss: reference 0 twice)
          -> rows:<seed;nEv;data;reps;fit|…> ws:<worker seeds> rss:<seed>:<pos> m:<seed>:<pos|->   | ERR:value | ERR:index
-/

def fOptIdx (r : Option (List Nat)) : String :=
  match r with
  | some l => fListD toString l
  | none => "ERR"

def sortedUnique (l : List Nat) : List Nat := (l.mergeSort (fun a b => decide (a ≤ b))).eraseDups

/-- numpy's `mt19937_next_double` from two consecutive 32-bit words -/
def mkDouble (a b : Nat) : Float :=
  ((a >>> 5).toFloat * 67108864.0 + (b >>> 6).toFloat) / 9007199254740992.0

/-- the k-th double of a view -/
def dbl (view : Nat → Nat) (k : Nat) : Float := mkDouble (view (2 * k)) (view (2 * k + 1))

structure Syn where
  maxEv : Nat
  nSig : Nat
  thr : Float
  maxRep : Nat
  npar : Nat
  lo : Float
  hi : Float

/-- the synthetic analysis of harness/props/c08.py (`_SynAnalysis`): background generator draws
one uniform for the event count and one per event, the signal generator `nSig` more; the stub
minimiser needs `#(events < thr) mod (maxRep+1)` restarts, each drawing `npar` initials
`lo + u*(hi-lo)` from the minimiser service. -/
def synCfg (c : Syn) : TrialCfg Nat (List Float) (Nat × List Float) where
  dataGen view :=
    let u0 := dbl view 0
    let nEv := 1 + (u0 * c.maxEv.toFloat).floor.toUInt64.toNat
    let ev := (List.range (nEv + c.nSig)).map (fun k => dbl view (1 + k))
    (ev, 2 * (1 + nEv + c.nSig))
  minim d view :=
    let reps := (d.countP (fun e => e < c.thr)) % (c.maxRep + 1)
    let initials := if reps == 0 then [] else
      (List.range c.npar).map (fun j => c.lo + dbl view ((reps - 1) * c.npar + j) * (c.hi - c.lo))
    ((reps, initials), 2 * reps * c.npar)

def parseTables (s : String) : List (Nat × Array Nat) :=
  if s == "-" then [] else
  (s.splitOn ";").filterMap (fun t =>
    match t.splitOn "=" with
    | [k, ws] => some (k.toNat!, (pList pN ws).toArray)
    | _ => none)

def genOf (tabs : List (Nat × Array Nat)) (seed pos : Nat) : Nat :=
  match tabs.lookup seed with
  | some arr => arr.getD pos 8589934592   -- 2^33: not a 32-bit word (table too short)
  | none => 8589934592

def pStream (s : String) : Option Stream :=
  if s == "-" then none else
  match s.splitOn ":" with
  | [a, b] => some ⟨a.toNat!, b.toNat!⟩
  | _ => none

def fStream (s : Stream) : String := s!"{s.seed}:{s.pos}"

def fRow (o : TrialOut (List Float) (Nat × List Float)) : String :=
  s!"{o.seed};{o.data.length};{fListD fF o.data};{o.fit.1};{fListD fF o.fit.2}"

def answer (line : String) : String :=
  match tokens line with
  | ["choice", r, its, ps, us] =>
      let right := pB r
      let p := pList pF ps
      let u := pList pF us
      let items := pList pN its
      let coded := chooseCoded right items p u (argsort u)
      let spec := chooseSpec right items p u
      let c := match cdf p with
        | some c => fListD fF c
        | none => "ERR"
      s!"coded:{fOptIdx coded} spec:{fOptIdx spec} cdf:{c}"
  | ["seed", st, cur, used] =>
      let u := pList pN used
      s!"new:{extendSeed (pN st) u (pN cur)} old:{extendSeedOld (sortedUnique u) (pN cur)}"
  | ["hist", st, file, curs, rows] =>
      fListD toString (extendMany (pN st) (pList pN file) ((pList pN curs).zip (pList pN rows)))
  | ["histshared", st, file, cur, rows] =>
      fListD toString (extendShared (pN st) (pList pN file) (pN cur) (pList pN rows))
  | ["trials", n, ncpu, seed, pos, m, maxEv, nSig, thr, maxRep, npar, lo, hi, tabs] =>
      let cfg := synCfg ⟨pN maxEv, pN nSig, pF thr, pN maxRep, pN npar, pF lo, pF hi⟩
      let gen := genOf (parseTables tabs)
      -- store: reference 0 = the data service, reference 1 = an explicit minimiser service
      let (w, ms) : World × Option Nat :=
        if m == "same" then ((fun _ => ⟨pN seed, pN pos⟩), some 0)
        else match pStream m with
          | some st => ((fun r => if r == 1 then st else ⟨pN seed, pN pos⟩), some 1)
          | none => ((fun _ => ⟨pN seed, pN pos⟩), none)
      match doTrials gen id cfg (pN n) (pN ncpu) w 0 ms with
      | .error .valueError => "ERR:value"
      | .error .indexError => "ERR:index"
      | .ok r =>
        let mstr := match ms with
          | some 1 => fStream (r.world 1)
          | _ => "-"
        let rows := if r.outs.isEmpty then "-" else String.intercalate "|" (r.outs.map fRow)
        s!"rows:{rows} ws:{fListD toString r.workerSeeds} rss:{fStream (r.world 0)} m:{mstr}"
  | _ => "bad-op"

def main : IO Unit := do loop (← IO.getStdin) answer
