/-
  Lemmas about the good-run-list glue of `Model/Livetime.lean` (`clipFrom`, `clipStarts`, `fromGrl`),
  for any linear order.  Property statements live in `Props/C14.lean`.
-/
import SkyllhModel.Model.Livetime
import Mathlib.Order.Basic
import Mathlib.Order.Lattice
import Mathlib.Tactic

set_option linter.unusedSectionVars false

open Livetime

namespace C14Grl

variable {F : Type} [LinearOrder F]

/-- `t` lies in one of the half-open intervals of `l` -/
def In (l : List (F × F)) (t : F) : Prop := ∃ p ∈ l, p.1 ≤ t ∧ t < p.2

theorem flat_cons (p : F × F) (rest : List (F × F)) : flat (p :: rest) = p.1 :: p.2 :: flat rest := by
  simp [flat]

@[simp] theorem clipFrom_nil (prev : F) : clipFrom prev ([] : List (F × F)) = [] := rfl

@[simp] theorem clipFrom_cons (prev : F) (p : F × F) (rest : List (F × F)) :
    clipFrom prev (p :: rest) = ((if p.1 < prev then prev else p.1), p.2) :: clipFrom p.2 rest := rfl

theorem clip_start_eq_max (prev s : F) : (if s < prev then prev else s) = max prev s := by
  by_cases h : s < prev
  · rw [if_pos h, max_eq_left (le_of_lt h)]
  · rw [if_neg h, max_eq_right (not_lt.mp h)]

theorem head_stop_le (p : F × F) (rest : List (F × F)) (h : ∀ a' ∈ rest.map Prod.snd, p.2 ≤ a') :
    ∀ q ∈ rest.head?, p.2 ≤ q.2 := by
  intro q hq
  exact h q.2 (List.mem_map_of_mem (List.mem_of_mem_head? hq))

theorem clipFrom_length (prev : F) (l : List (F × F)) : (clipFrom prev l).length = l.length := by
  induction l generalizing prev with
  | nil => rfl
  | cons p rest ih => simp [ih]

theorem clipFrom_snd (prev : F) (l : List (F × F)) :
    (clipFrom prev l).map Prod.snd = l.map Prod.snd := by
  induction l generalizing prev with
  | nil => rfl
  | cons p rest ih => simp [ih]

/-- every clipped start is the larger of the original start and the previous stop -/
theorem clipFrom_fst (prev : F) (l : List (F × F)) :
    (clipFrom prev l).map Prod.fst = List.zipWith max (prev :: l.map Prod.snd) (l.map Prod.fst) := by
  induction l generalizing prev with
  | nil => rfl
  | cons p rest ih =>
    simp only [clipFrom_cons, List.map_cons, List.zipWith_cons_cons, clip_start_eq_max]
    rw [ih]

/-- after clipping no run starts before the previous run stops (no hypothesis on the input) -/
theorem clipFrom_chain (prev : F) (l : List (F × F)) :
    List.IsChain (fun a b : F × F => a.2 ≤ b.1) ((prev, prev) :: clipFrom prev l) := by
  induction l generalizing prev with
  | nil => simp
  | cons p rest ih =>
    rw [clipFrom_cons, List.isChain_cons_cons]
    refine ⟨?_, ?_⟩
    · rw [clip_start_eq_max]; exact le_max_left _ _
    · have h := ih p.2
      cases hr : clipFrom p.2 rest with
      | nil => simp
      | cons q rest' =>
        rw [hr, List.isChain_cons_cons] at h
        rw [List.isChain_cons_cons]
        exact ⟨h.1, h.2⟩

/-- with non-decreasing stop times and `start ≤ stop` per run the clipped edge list is
non-decreasing, i.e. passes `assert_mjd_intervals_integrity` -/
theorem clipFrom_valid (prev : F) (l : List (F × F))
    (hprev : ∀ p ∈ l.head?, prev ≤ p.2)
    (hstops : (l.map Prod.snd).Pairwise (· ≤ ·))
    (hle : ∀ p ∈ l, p.1 ≤ p.2) :
    List.IsChain (· ≤ ·) (prev :: flat (clipFrom prev l)) := by
  induction l generalizing prev with
  | nil => simp [flat]
  | cons p rest ih =>
    rw [clipFrom_cons, flat_cons]
    simp only [List.map_cons, List.pairwise_cons] at hstops
    have hp : prev ≤ p.2 := hprev p (by simp)
    have hpp : p.1 ≤ p.2 := hle p (by simp)
    rw [List.isChain_cons_cons, List.isChain_cons_cons]
    refine ⟨?_, ?_, ?_⟩
    · rw [clip_start_eq_max]; exact le_max_left _ _
    · rw [clip_start_eq_max]; exact max_le hp hpp
    · apply ih p.2
      · exact head_stop_le p rest hstops.1
      · exact hstops.2
      · intro q hq; exact hle q (by simp [hq])

/-- **clipping removes only doubly counted time**: with non-decreasing start and stop columns, a
time at or after `prev` is on-time of the clipped runs iff it is on-time of the original runs -/
theorem clipFrom_in (prev : F) (l : List (F × F)) (t : F)
    (hprev : ∀ p ∈ l.head?, prev ≤ p.2)
    (hstarts : (l.map Prod.fst).Pairwise (· ≤ ·))
    (hstops : (l.map Prod.snd).Pairwise (· ≤ ·)) :
    In (clipFrom prev l) t ↔ (In l t ∧ prev ≤ t) := by
  induction l generalizing prev with
  | nil => simp [In]
  | cons p rest ih =>
    simp only [List.map_cons, List.pairwise_cons] at hstarts hstops
    have hp : prev ≤ p.2 := hprev p (by simp)
    have hnext : ∀ q ∈ rest.head?, p.2 ≤ q.2 := head_stop_le p rest hstops.1
    have ih' := ih p.2 hnext hstarts.2 hstops.2
    have hsplit : In (clipFrom prev (p :: rest)) t ↔
        ((max prev p.1 ≤ t ∧ t < p.2) ∨ In (clipFrom p.2 rest) t) := by
      unfold In
      rw [clipFrom_cons, clip_start_eq_max]
      simp
    have hsplit2 : In (p :: rest) t ↔ ((p.1 ≤ t ∧ t < p.2) ∨ In rest t) := by
      unfold In; simp
    rw [hsplit, hsplit2, ih']
    constructor
    · rintro (⟨h1, h2⟩ | ⟨h1, h2⟩)
      · exact ⟨Or.inl ⟨le_trans (le_max_right _ _) h1, h2⟩, le_trans (le_max_left _ _) h1⟩
      · exact ⟨Or.inr h1, le_trans hp h2⟩
    · rintro ⟨h1 | h1, h2⟩
      · exact Or.inl ⟨max_le h2 h1.1, h1.2⟩
      · by_cases ht : t < p.2
        · -- `t` is before the stop of `p`; it is at or after the start of some later run, hence of `p`
          obtain ⟨q, hq, hq1, _⟩ := h1
          have : p.1 ≤ q.1 := hstarts.1 q.1 (List.mem_map_of_mem hq)
          exact Or.inl ⟨max_le h2 (le_trans this hq1), ht⟩
        · exact Or.inr ⟨h1, not_lt.mp ht⟩

theorem clipStarts_in (l : List (F × F)) (t : F)
    (hstarts : (l.map Prod.fst).Pairwise (· ≤ ·))
    (hstops : (l.map Prod.snd).Pairwise (· ≤ ·)) :
    In (clipStarts l) t ↔ In l t := by
  cases l with
  | nil => simp [clipStarts]
  | cons p rest =>
    simp only [List.map_cons, List.pairwise_cons] at hstarts hstops
    have hnext : ∀ q ∈ rest.head?, p.2 ≤ q.2 := head_stop_le p rest hstops.1
    have h := clipFrom_in p.2 rest t hnext hstarts.2 hstops.2
    have hsplit : In (clipStarts (p :: rest)) t ↔ ((p.1 ≤ t ∧ t < p.2) ∨ In (clipFrom p.2 rest) t) := by
      unfold In clipStarts; simp
    have hsplit2 : In (p :: rest) t ↔ ((p.1 ≤ t ∧ t < p.2) ∨ In rest t) := by
      unfold In; simp
    rw [hsplit, hsplit2, h]
    constructor
    · rintro (h1 | ⟨h1, _⟩)
      · exact Or.inl h1
      · exact Or.inr h1
    · rintro (h1 | h1)
      · exact Or.inl h1
      · by_cases ht : t < p.2
        · obtain ⟨q, hq, hq1, _⟩ := h1
          have : p.1 ≤ q.1 := hstarts.1 q.1 (List.mem_map_of_mem hq)
          exact Or.inl ⟨le_trans this hq1, ht⟩
        · exact Or.inr ⟨h1, not_lt.mp ht⟩

theorem clipStarts_valid (l : List (F × F))
    (hstops : (l.map Prod.snd).Pairwise (· ≤ ·))
    (hle : ∀ p ∈ l, p.1 ≤ p.2) :
    List.IsChain (· ≤ ·) (flat (clipStarts l)) := by
  cases l with
  | nil => simp [clipStarts, flat]
  | cons p rest =>
    simp only [List.map_cons, List.pairwise_cons] at hstops
    have hnext : ∀ q ∈ rest.head?, p.2 ≤ q.2 := head_stop_le p rest hstops.1
    have h := clipFrom_valid p.2 rest hnext hstops.2 (fun q hq => hle q (by simp [hq]))
    show List.IsChain (· ≤ ·) (flat (p :: clipFrom p.2 rest))
    rw [flat_cons, List.isChain_cons_cons]
    exact ⟨hle p (by simp), h⟩

/-- a valid (non-decreasing) edge list is left alone -/
theorem clipFrom_noop (prev : F) (l : List (F × F))
    (h : List.IsChain (· ≤ ·) (prev :: flat l)) : clipFrom prev l = l := by
  induction l generalizing prev with
  | nil => rfl
  | cons p rest ih =>
    rw [flat_cons, List.isChain_cons_cons, List.isChain_cons_cons] at h
    rw [clipFrom_cons, if_neg (not_lt.mpr h.1), ih p.2 h.2.2]

theorem clipStarts_noop (l : List (F × F)) (h : List.IsChain (· ≤ ·) (flat l)) : clipStarts l = l := by
  cases l with
  | nil => rfl
  | cons p rest =>
    rw [flat_cons, List.isChain_cons_cons] at h
    show p :: clipFrom p.2 rest = p :: rest
    rw [clipFrom_noop p.2 rest h.2]

theorem clipFrom_idem (prev : F) (l : List (F × F)) :
    clipFrom prev (clipFrom prev l) = clipFrom prev l := by
  induction l generalizing prev with
  | nil => rfl
  | cons p rest ih =>
    rw [clipFrom_cons, clipFrom_cons]
    simp only
    rw [ih p.2]
    congr 1
    rw [clip_start_eq_max, clip_start_eq_max, max_eq_right (le_max_left _ _)]

theorem clipStarts_idem (l : List (F × F)) : clipStarts (clipStarts l) = clipStarts l := by
  cases l with
  | nil => rfl
  | cons p rest =>
    show p :: clipFrom p.2 (clipFrom p.2 rest) = p :: clipFrom p.2 rest
    rw [clipFrom_idem]

theorem zip_fst_snd (l : List (F × F)) : (l.map Prod.fst).zip (l.map Prod.snd) = l := by
  induction l with
  | nil => rfl
  | cons p rest ih => simp [ih]

end C14Grl
