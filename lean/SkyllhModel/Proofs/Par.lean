/-
  Helper lemmas about `Model/Par.lean` (property C09): bounded quantifiers over the children,
  `collect`, `setChild`, prefixes of the expected chunk results.
-/
import SkyllhModel.Model.Par
import Mathlib.Tactic
open Par
namespace Par
variable {α β M : Type}

/-! bounded quantifiers -/
theorem countTo_le (n : Nat) (p : Nat → Bool) : countTo n p ≤ n := by
  induction n with
  | zero => simp [countTo]
  | succ n ih => simp only [countTo]; split <;> omega

theorem countTo_lt_of (n : Nat) (p : Nat → Bool) (j : Nat) (hj : j < n) (h : p j = false) :
    countTo n p < n := by
  induction n with
  | zero => omega
  | succ n ih =>
    simp only [countTo]
    by_cases hjn : j = n
    · subst hjn; simp [h]; have := countTo_le j p; omega
    · have := ih (by omega); split <;> omega

theorem countTo_all (n : Nat) (p : Nat → Bool) (h : n ≤ countTo n p) : ∀ j < n, p j = true := by
  intro j hj
  by_contra hc
  have := countTo_lt_of n p j hj (by simpa using hc)
  omega

theorem countTo_congr (n : Nat) (p q : Nat → Bool) (h : ∀ j < n, p j = q j) : countTo n p = countTo n q := by
  induction n with
  | zero => rfl
  | succ n ih => simp only [countTo]; rw [ih (fun j hj => h j (by omega)), h n (by omega)]

theorem anyTo_iff (n : Nat) (p : Nat → Bool) : anyTo n p = true ↔ ∃ j < n, p j = true := by
  induction n with
  | zero => simp [anyTo]
  | succ n ih =>
    simp only [anyTo, Bool.or_eq_true, ih]
    constructor
    · rintro (⟨j, hj, h⟩ | h)
      · exact ⟨j, by omega, h⟩
      · exact ⟨n, by omega, h⟩
    · rintro ⟨j, hj, h⟩
      by_cases hjn : j = n
      · subst hjn; exact Or.inr h
      · exact Or.inl ⟨j, by omega, h⟩

theorem allTo_iff (n : Nat) (p : Nat → Bool) : allTo n p = true ↔ ∀ j < n, p j = true := by
  induction n with
  | zero => simp [allTo]
  | succ n ih =>
    simp only [allTo, Bool.and_eq_true, ih]
    constructor
    · rintro ⟨h1, h2⟩ j hj
      by_cases hjn : j = n
      · subst hjn; exact h2
      · exact h1 j (by omega)
    · intro h; exact ⟨fun j hj => h j (by omega), h n (by omega)⟩

theorem sumTo_congr (n : Nat) (g g' : Nat → Nat) (h : ∀ j < n, g j = g' j) : sumTo n g = sumTo n g' := by
  induction n with
  | zero => rfl
  | succ n ih => simp only [sumTo]; rw [ih (fun j hj => h j (by omega)), h n (by omega)]

theorem sumTo_update (n : Nat) (g g' : Nat → Nat) (j : Nat) (hj : j < n) (h : ∀ i, i ≠ j → g' i = g i) :
    sumTo n g' + g j = sumTo n g + g' j := by
  induction n with
  | zero => omega
  | succ n ih =>
    simp only [sumTo]
    by_cases hjn : j = n
    · subst hjn
      rw [sumTo_congr j g' g (fun i hi => h i (by omega))]; omega
    · have := ih (by omega); rw [h n (by omega)]; omega

theorem collect_eq (F : Nat → List β) (n : Nat) (ws : Nat → Child β) (r : List β) (h : collect n ws = some r)
    (hgot : ∀ j < n, ∀ x, (ws j).got = some x → x = F j) : r = (List.range n).flatMap F := by
  induction n generalizing r with
  | zero => simp [collect] at h; simp [h]
  | succ n ih =>
    simp only [collect] at h
    split at h
    · rename_i r' x h1 h2
      simp at h; subst h
      rw [List.range_succ, List.flatMap_append, ← ih r' h1 (fun j hj => hgot j (by omega)), hgot n (by omega) x h2]
      simp
    · simp at h

theorem collect_isSome (n : Nat) (ws : Nat → Child β) (h : ∀ j < n, (ws j).got.isSome = true) :
    ∃ r, collect n ws = some r := by
  induction n with
  | zero => exact ⟨[], rfl⟩
  | succ n ih =>
    obtain ⟨r, hr⟩ := ih (fun j hj => h j (by omega))
    obtain ⟨x, hx⟩ := Option.isSome_iff_exists.mp (h n (by omega))
    exact ⟨r ++ x, by simp [collect, hr, hx]⟩

@[simp] theorem setChild_ws (s : State M β) (j : Nat) (c : Child β) (i : Nat) :
    (setChild s j c).ws i = if i = j then c else s.ws i := rfl
@[simp] theorem setChild_m (s : State M β) (j : Nat) (c : Child β) : (setChild s j c).m = s.m := rfl
@[simp] theorem setChild_rq (s : State M β) (j : Nat) (c : Child β) : (setChild s j c).rq = s.rq := rfl
@[simp] theorem setChild_acc0 (s : State M β) (j : Nat) (c : Child β) : (setChild s j c).acc0 = s.acc0 := rfl
@[simp] theorem setChild_poison (s : State M β) (j : Nat) (c : Child β) : (setChild s j c).poison = s.poison := rfl
@[simp] theorem setChild_ended (s : State M β) (j : Nat) (c : Child β) : (setChild s j c).ended = s.ended := rfl

theorem take_succ_full (cfg : Cfg α β) (p t : Nat) (x : α) (h : (cfg.chunk p)[t]? = some x) :
    (full cfg p).take (t+1) = (full cfg p).take t ++ [cfg.f p t x] := by
  simp [full, List.take_add_one, h]

theorem take_full_of_none (cfg : Cfg α β) (p t : Nat) (h : (cfg.chunk p)[t]? = none) :
    (full cfg p).take t = full cfg p := by
  apply List.take_of_length_le
  simp [full] at h ⊢; exact h

theorem expected_eq (cfg : Cfg α β) :
    expected cfg = full cfg 0 ++ (List.range cfg.nchild).flatMap (fun j => full cfg (j+1)) := by
  simp [expected, List.range_succ_eq_map, List.flatMap_map]

/-! ### relational description of the steps -/

/-- the possible moves of child `j` in local state `c`: new local state and what is appended to the
result queue -/
inductive ChildTr (cfg : Cfg α β) (j : Nat) (c : Child β) : Child β → List (Nat × List β) → Prop
  | task (t : Nat) (x : α) : c.phase = .running t → (cfg.chunk (j+1))[t]? = some x →
      taskFault (cfg.fault j) t = none →
      ChildTr cfg j c { c with phase := .running (t+1), acc := c.acc ++ [cfg.f (j+1) t x],
                               lq := if cfg.logs then c.lq ++ [.record] else c.lq } []
  | taskFault (t : Nat) (x : α) (code : Nat) : c.phase = .running t → (cfg.chunk (j+1))[t]? = some x →
      taskFault (cfg.fault j) t = some code → ChildTr cfg j c { c with phase := .exited code } []
  | put (t : Nat) : c.phase = .running t → (cfg.chunk (j+1))[t]? = none →
      queuedFault (cfg.fault j) false = none → partialFault (cfg.fault j) = none →
      ChildTr cfg j c { c with phase := .queued } [(j, c.acc)]
  | putPartial (t : Nat) (code : Nat) : c.phase = .running t → (cfg.chunk (j+1))[t]? = none →
      queuedFault (cfg.fault j) false = none → partialFault (cfg.fault j) = some code →
      ChildTr cfg j c { c with phase := .exited code } []
  | putLost (t : Nat) (code : Nat) : c.phase = .running t → (cfg.chunk (j+1))[t]? = none →
      queuedFault (cfg.fault j) false = some code → ChildTr cfg j c { c with phase := .exited code } []
  | sentinel : c.phase = .queued → queuedFault (cfg.fault j) true = none →
      ChildTr cfg j c { c with phase := .finished, lq := c.lq ++ [.sentinel] } []
  | sentinelFault (code : Nat) : c.phase = .queued → queuedFault (cfg.fault j) true = some code →
      ChildTr cfg j c { c with phase := .exited code } []
  | exit : c.phase = .finished → ChildTr cfg j c { c with phase := .exited (exitCode (cfg.fault j)) } []

theorem childTr_items (cfg : Cfg α β) (j : Nat) (c c' : Child β) (items : List (Nat × List β))
    (h : ChildTr cfg j c c' items) : ∀ e ∈ items, e.1 = j := by
  cases h <;> simp

theorem childTr_got (cfg : Cfg α β) (j : Nat) (c c' : Child β) (items : List (Nat × List β))
    (h : ChildTr cfg j c c' items) : c'.got = c.got := by
  cases h <;> rfl

theorem childStep_spec (cfg : Cfg α β) (s : State M β) (j : Nat) :
    ((¬ j < cfg.nchild ∨ isExited (s.ws j).phase = true) ∧ childStep cfg s j = s) ∨
    (j < cfg.nchild ∧ ∃ c' items, ChildTr cfg j (s.ws j) c' items ∧ ∃ p',
      childStep cfg s j = { setChild s j c' with rq := s.rq ++ items, poison := p' } ∧
      (p' = s.poison ∨ partialFault (cfg.fault j) ≠ none)) := by
  by_cases hj : j < cfg.nchild
  swap
  · left; exact ⟨Or.inl hj, by simp [childStep, hj]⟩
  cases hph : (s.ws j).phase with
  | running t =>
    cases hx : (cfg.chunk (j+1))[t]? with
    | some x =>
      cases hf : taskFault (cfg.fault j) t with
      | some code =>
        right; refine ⟨hj, _, _, .taskFault t x code hph hx hf, s.poison, ?_, Or.inl rfl⟩
        simp [childStep, hj, hph, hx, hf, setChild]
      | none =>
        right; refine ⟨hj, _, _, .task t x hph hx hf, s.poison, ?_, Or.inl rfl⟩
        simp [childStep, hj, hph, hx, hf, setChild]
    | none =>
      cases hf : queuedFault (cfg.fault j) false with
      | some code =>
        right; refine ⟨hj, _, _, .putLost t code hph hx hf, s.poison, ?_, Or.inl rfl⟩
        simp [childStep, hj, hph, hx, hf, setChild]
      | none =>
        cases hp : partialFault (cfg.fault j) with
        | some code =>
          right
          refine ⟨hj, _, _, .putPartial t code hph hx hf hp,
            markPoison s.poison s.rq.length, ?_, Or.inr (by simp [hp])⟩
          simp [childStep, hj, hph, hx, hf, hp, setChild]
        | none =>
          right; refine ⟨hj, _, _, .put t hph hx hf hp, s.poison, ?_, Or.inl rfl⟩
          simp [childStep, hj, hph, hx, hf, hp, setChild]
  | queued =>
    cases hf : queuedFault (cfg.fault j) true with
    | some code =>
      right; refine ⟨hj, _, _, .sentinelFault code hph hf, s.poison, ?_, Or.inl rfl⟩
      simp [childStep, hj, hph, hf, setChild]
    | none =>
      right; refine ⟨hj, _, _, .sentinel hph hf, s.poison, ?_, Or.inl rfl⟩
      simp [childStep, hj, hph, hf, setChild]
  | finished =>
    right; refine ⟨hj, _, _, .exit hph, s.poison, ?_, Or.inl rfl⟩
    simp [childStep, hj, hph, setChild]
  | exited code => left; exact ⟨Or.inr (by simp [isExited]), by simp [childStep, hj, hph]⟩

/-- the possible moves of the master (gather loop of the current code) -/
inductive MasterTr (cfg : Cfg α β) (s : State (MPhase β) β) : State (MPhase β) β → Prop
  | ownTask (t : Nat) (x : α) : s.m = .own t → (cfg.chunk 0)[t]? = some x → cfg.mfault ≠ some t →
      MasterTr cfg s { s with m := .own (t+1), acc0 := s.acc0 ++ [cfg.f 0 t x] }
  | ownRaise (t : Nat) (x : α) : s.m = .own t → (cfg.chunk 0)[t]? = some x → cfg.mfault = some t →
      MasterTr cfg s (raiseStop s)
  | ownEnd (t : Nat) : s.m = .own t → (cfg.chunk 0)[t]? = none →
      MasterTr cfg s { s with m := .gather, ended := snapG cfg s }
  | pop (j : Nat) (r : List β) (rest : List (Nat × List β)) : s.m = .gather →
      filled cfg.nchild s.ws < cfg.nchild → s.rq = (j, r) :: rest → s.poison ≠ some 0 →
      MasterTr cfg s { setChild s j { s.ws j with got := some r } with
        rq := rest, m := .drain j, poison := s.poison.map (· - 1), ended := isExited (s.ws j).phase }
  | blocked : s.m = .gather → filled cfg.nchild s.ws < cfg.nchild → s.poison = some 0 →
      MasterTr cfg s { s with m := .recv }
  | missing : s.m = .gather → filled cfg.nchild s.ws < cfg.nchild → s.rq = [] → s.ended = true →
      MasterTr cfg s (raiseStop s)
  | resnap : s.m = .gather → filled cfg.nchild s.ws < cfg.nchild → s.rq = [] → s.ended = false →
      snapG cfg s = true → MasterTr cfg s { s with ended := true }
  | toJoin : s.m = .gather → ¬ filled cfg.nchild s.ws < cfg.nchild → MasterTr cfg s { s with m := .join }
  | sentinel (j : Nat) (rest : List LogItem) : s.m = .drain j → j < cfg.nchild →
      (s.ws j).lq = .sentinel :: rest →
      MasterTr cfg s { setChild s j { s.ws j with lq := rest } with m := .gather, ended := snapG cfg s }
  | record (j : Nat) (rest : List LogItem) : s.m = .drain j → j < cfg.nchild →
      (s.ws j).lq = .record :: rest →
      MasterTr cfg s { setChild s j { s.ws j with lq := rest } with ended := isExited (s.ws j).phase }
  | logsLost (j : Nat) : s.m = .drain j → j < cfg.nchild → (s.ws j).lq = [] → s.ended = true →
      MasterTr cfg s (raiseStop s)
  | drainSnap (j : Nat) : s.m = .drain j → j < cfg.nchild → (s.ws j).lq = [] → s.ended = false →
      isExited (s.ws j).phase = true → MasterTr cfg s { s with ended := true }
  | badPid (j : Nat) : s.m = .drain j → ¬ j < cfg.nchild → MasterTr cfg s { s with m := .error }
  | done (r : List β) : s.m = .join → (∀ j < cfg.nchild, isExited (s.ws j).phase = true) →
      allZero cfg s = true → collect (filled cfg.nchild s.ws) s.ws = some r →
      MasterTr cfg s { s with m := .done (s.acc0 ++ r) }
  | keyError : s.m = .join → (∀ j < cfg.nchild, isExited (s.ws j).phase = true) →
      allZero cfg s = true → collect (filled cfg.nchild s.ws) s.ws = none →
      MasterTr cfg s { s with m := .error }
  | badExit : s.m = .join → (∀ j < cfg.nchild, isExited (s.ws j).phase = true) →
      allZero cfg s = false → MasterTr cfg s { s with m := .error }

/-- why the master does not move: it sleeps in the polling loop, waits for log records, waits in
`join`, `parallelize` has ended, or it is blocked in a receive -/
inductive Waiting (cfg : Cfg α β) (s : State (MPhase β) β) : Prop
  | results : s.m = .gather → filled cfg.nchild s.ws < cfg.nchild → s.rq = [] → s.ended = false →
      (∀ j < cfg.nchild, (s.ws j).got = none → isExited (s.ws j).phase = false) → Waiting cfg s
  | logs (j : Nat) : s.m = .drain j → j < cfg.nchild → (s.ws j).lq = [] → s.ended = false →
      isExited (s.ws j).phase = false → Waiting cfg s
  | join (j : Nat) : s.m = .join → j < cfg.nchild → isExited (s.ws j).phase = false → Waiting cfg s
  | terminal : s.m.terminal = true → Waiting cfg s
  | recv : s.m = .recv → Waiting cfg s

theorem state_eta_ended (s : State M β) (h : s.ended = b) : { s with ended := b } = s := by
  cases s; simp_all

theorem masterStep_spec (cfg : Cfg α β) (s : State (MPhase β) β) :
    (masterStep cfg s = s ∧ Waiting cfg s) ∨ MasterTr cfg s (masterStep cfg s) := by
  cases hm : s.m with
  | own t =>
    cases hx : (cfg.chunk 0)[t]? with
    | some x =>
      by_cases hmf : cfg.mfault = some t
      · right; have := MasterTr.ownRaise (cfg := cfg) (s := s) t x hm hx hmf
        simpa [masterStep, hm, hx, hmf] using this
      · right; have := MasterTr.ownTask (cfg := cfg) (s := s) t x hm hx hmf
        simpa [masterStep, hm, hx, hmf] using this
    | none => right; have := MasterTr.ownEnd (cfg := cfg) (s := s) t hm hx; simpa [masterStep, hm, hx] using this
  | gather =>
    by_cases hf : filled cfg.nchild s.ws < cfg.nchild
    · by_cases hpz : s.poison = some 0
      · right; have := MasterTr.blocked (cfg := cfg) (s := s) hm hf hpz
        simpa [masterStep, hm, hf, hpz] using this
      cases hrq : s.rq with
      | cons e rest =>
        obtain ⟨j, r⟩ := e
        right; have := MasterTr.pop (cfg := cfg) (s := s) j r rest hm hf hrq hpz
        simpa [masterStep, hm, hf, hrq, hpz] using this
      | nil =>
        by_cases he : s.ended = true
        · right; have := MasterTr.missing (cfg := cfg) (s := s) hm hf hrq he
          simpa [masterStep, hm, hf, hrq, hpz, he] using this
        · have he' : s.ended = false := by simpa using he
          by_cases ha : snapG cfg s = true
          · right; have := MasterTr.resnap (cfg := cfg) (s := s) hm hf hrq he' ha
            simpa [masterStep, hm, hf, hrq, hpz, he', ha] using this
          · have ha' : snapG cfg s = false := by simpa using ha
            left; refine ⟨?_, .results hm hf hrq he' ?_⟩
            · simp [masterStep, hm, hf, hrq, hpz, he', ha']; cases s; simp_all
            · intro j hj hg
              by_contra hex
              exact ha ((anyTo_iff _ _).mpr ⟨j, hj, by simp [hg, Bool.not_eq_false _ ▸ hex]⟩)
    · right; have := MasterTr.toJoin (cfg := cfg) (s := s) hm hf
      simpa [masterStep, hm, hf] using this
  | drain j =>
    by_cases hj : j < cfg.nchild
    · cases hlq : (s.ws j).lq with
      | nil =>
        by_cases he : s.ended = true
        · right; have := MasterTr.logsLost (cfg := cfg) (s := s) j hm hj hlq he
          simpa [masterStep, hm, hj, hlq, he] using this
        · have he' : s.ended = false := by simpa using he
          by_cases hex : isExited (s.ws j).phase = true
          · right; have := MasterTr.drainSnap (cfg := cfg) (s := s) j hm hj hlq he' hex
            simpa [masterStep, hm, hj, hlq, he', hex] using this
          · have hex' : isExited (s.ws j).phase = false := by simpa using hex
            left; refine ⟨?_, .logs j hm hj hlq he' hex'⟩
            simp [masterStep, hm, hj, hlq, he', hex']; cases s; simp_all
      | cons it rest =>
        cases it with
        | record => right; have := MasterTr.record (cfg := cfg) (s := s) j rest hm hj hlq
                    simpa [masterStep, hm, hj, hlq] using this
        | sentinel => right; have := MasterTr.sentinel (cfg := cfg) (s := s) j rest hm hj hlq
                      simpa [masterStep, hm, hj, hlq] using this
    · right; have := MasterTr.badPid (cfg := cfg) (s := s) j hm hj
      simpa [masterStep, hm, hj] using this
  | join =>
    by_cases ha : allTo cfg.nchild (fun j => isExited (s.ws j).phase) = true
    · have ha' := (allTo_iff _ _).mp ha
      by_cases hz : allZero cfg s = true
      · cases hc : collect (filled cfg.nchild s.ws) s.ws with
        | some r => right; have := MasterTr.done (cfg := cfg) (s := s) r hm ha' hz hc
                    simpa [masterStep, hm, ha, hz, hc] using this
        | none => right; have := MasterTr.keyError (cfg := cfg) (s := s) hm ha' hz hc
                  simpa [masterStep, hm, ha, hz, hc] using this
      · have hz' : allZero cfg s = false := by simpa using hz
        right; have := MasterTr.badExit (cfg := cfg) (s := s) hm ha' hz'
        simpa [masterStep, hm, ha, hz'] using this
    · left; refine ⟨by simp [masterStep, hm, ha], ?_⟩
      have : ¬ ∀ j < cfg.nchild, isExited (s.ws j).phase = true := fun h => ha ((allTo_iff _ _).mpr h)
      push Not at this
      obtain ⟨j, hj, he⟩ := this
      exact .join j hm hj (by simpa using he)
  | done r => left; exact ⟨by simp [masterStep, hm], .terminal (by simp [hm, MPhase.terminal])⟩
  | error => left; exact ⟨by simp [masterStep, hm], .terminal (by simp [hm, MPhase.terminal])⟩
  | recv => left; exact ⟨by simp [masterStep, hm], .recv hm⟩

/-! ### safety: what is in the queues, in the map and in a returned result -/

/-- the phases of the gather loop, after the master's own chunk -/
def Gathering : MPhase β → Prop
  | .gather => True
  | .drain _ => True
  | .join => True
  | .recv => True
  | _ => False

/-- invariant of every reachable state, whatever the faults -/
structure Safe (cfg : Cfg α β) (s : State (MPhase β) β) : Prop where
  own : ∀ t, s.m = .own t → s.acc0 = (full cfg 0).take t
  acc0 : Gathering s.m → s.acc0 = full cfg 0
  rq : ∀ j r, (j, r) ∈ s.rq → r = full cfg (j+1) ∧ j < cfg.nchild
  got : ∀ j r, (s.ws j).got = some r → r = full cfg (j+1)
  acc : ∀ j t, (s.ws j).phase = .running t → (s.ws j).acc = (full cfg (j+1)).take t
  join : s.m = .join → cfg.nchild ≤ filled cfg.nchild s.ws
  done : ∀ r, s.m = .done r → r = expected cfg
  drainlt : ∀ j, s.m = .drain j → j < cfg.nchild

theorem safe_init (cfg : Cfg α β) : Safe cfg (init : State (MPhase β) β) := by
  constructor <;> simp [init, initChild, Gathering]

theorem filled_setChild (n : Nat) (s : State (MPhase β) β) (j : Nat) (c : Child β)
    (h : c.got = (s.ws j).got) : filled n (setChild s j c).ws = filled n s.ws := by
  unfold filled
  apply countTo_congr
  intro i _
  simp only [setChild_ws]
  split
  · subst_vars; rw [h]
  · rfl

/-! `stop_processes()` -/

@[simp] theorem terminateAll_got (ws : Nat → Child β) (j : Nat) : (terminateAll ws j).got = (ws j).got := by
  unfold terminateAll; split <;> rfl
@[simp] theorem terminateAll_acc (ws : Nat → Child β) (j : Nat) : (terminateAll ws j).acc = (ws j).acc := by
  unfold terminateAll; split <;> rfl
@[simp] theorem terminateAll_lq (ws : Nat → Child β) (j : Nat) : (terminateAll ws j).lq = (ws j).lq := by
  unfold terminateAll; split <;> rfl
@[simp] theorem terminateAll_exited (ws : Nat → Child β) (j : Nat) :
    isExited (terminateAll ws j).phase = true := by
  unfold terminateAll; split
  · assumption
  · rfl
theorem terminateAll_of_exited (ws : Nat → Child β) (j : Nat) (h : isExited (ws j).phase = true) :
    terminateAll ws j = ws j := by
  unfold terminateAll; simp [h]
theorem terminateAll_not_running (ws : Nat → Child β) (j t : Nat) :
    (terminateAll ws j).phase ≠ .running t := by
  intro h
  have := terminateAll_exited ws j
  rw [h] at this; simp [isExited] at this
theorem terminateAll_phase (ws : Nat → Child β) (j : Nat) :
    (terminateAll ws j).phase = (ws j).phase ∨
    (isExited (ws j).phase = false ∧ (terminateAll ws j).phase = .exited 143) := by
  unfold terminateAll; split
  · exact Or.inl rfl
  · rename_i h; exact Or.inr ⟨by simpa using h, rfl⟩
@[simp] theorem raiseStop_m (s : State (MPhase β) β) : (raiseStop s).m = .error := rfl
@[simp] theorem raiseStop_ws (s : State (MPhase β) β) : (raiseStop s).ws = terminateAll s.ws := rfl
@[simp] theorem raiseStop_rq (s : State (MPhase β) β) : (raiseStop s).rq = s.rq := rfl
@[simp] theorem raiseStop_acc0 (s : State (MPhase β) β) : (raiseStop s).acc0 = s.acc0 := rfl
@[simp] theorem raiseStop_poison (s : State (MPhase β) β) : (raiseStop s).poison = s.poison := rfl
@[simp] theorem raiseStop_ended (s : State (MPhase β) β) : (raiseStop s).ended = s.ended := rfl

theorem safe_raiseStop (cfg : Cfg α β) (s : State (MPhase β) β) (h : Safe cfg s) : Safe cfg (raiseStop s) := by
  refine ⟨by simp, fun hg => by simp [Gathering] at hg, h.rq, ?_, ?_, by simp, by simp, by simp⟩
  · intro j r; simp only [raiseStop_ws, terminateAll_got]; exact h.got j r
  · intro j t hp; exact absurd hp (terminateAll_not_running _ _ _)

theorem safe_child (cfg : Cfg α β) (s : State (MPhase β) β) (j : Nat) (h : Safe cfg s) :
    Safe cfg (childStep cfg s j) := by
  rcases childStep_spec cfg s j with ⟨_, he⟩ | ⟨hj, c', items, htr, _, he, _⟩
  · rw [he]; exact h
  rw [he]
  have hgot : c'.got = (s.ws j).got := by cases htr <;> rfl
  refine ⟨h.own, h.acc0, ?_, ?_, ?_, ?_, h.done, h.drainlt⟩
  · intro i r hmem
    simp only [List.mem_append] at hmem
    rcases hmem with hmem | hmem
    · exact h.rq i r hmem
    · cases htr <;> simp at hmem
      rename_i t hph hx _ _
      obtain ⟨rfl, rfl⟩ := hmem
      exact ⟨by rw [h.acc _ _ hph, take_full_of_none cfg _ _ hx], hj⟩
  · intro i r; simp only [setChild_ws]; split
    · subst_vars; rw [hgot]; exact h.got _ r
    · exact h.got i r
  · intro i t'; simp only [setChild_ws]; split
    · subst_vars
      cases htr <;> simp
      rename_i t x hph hx _
      intro ht; subst ht
      rw [take_succ_full cfg _ _ x hx, h.acc _ _ hph]
    · exact h.acc i t'
  · intro hm
    show cfg.nchild ≤ filled cfg.nchild (setChild s j c').ws
    rw [filled_setChild _ _ _ _ hgot]; exact h.join hm

theorem safe_master (cfg : Cfg α β) (s : State (MPhase β) β) (h : Safe cfg s) :
    Safe cfg (masterStep cfg s) := by
  rcases masterStep_spec cfg s with ⟨he, _⟩ | htr
  · rw [he]; exact h
  generalize masterStep cfg s = s' at htr ⊢
  have hg : ∀ {m : MPhase β}, s.m = m → Gathering m → s.acc0 = full cfg 0 :=
    fun hm hgm => h.acc0 (hm ▸ hgm)
  cases htr with
  | ownTask t x hm hx _ =>
    refine ⟨?_, fun hg' => by simp [Gathering] at hg', h.rq, h.got, h.acc, by simp, by simp, by simp⟩
    intro t' ht'; simp at ht'; subst ht'
    simp [take_succ_full cfg _ _ x hx, h.own t hm]
  | ownRaise t x hm hx _ => exact safe_raiseStop cfg s h
  | ownEnd t hm hx =>
    refine ⟨by simp, ?_, h.rq, h.got, h.acc, by simp, by simp, by simp⟩
    intro _; simp [h.own t hm, take_full_of_none cfg _ _ hx]
  | pop j r rest hm hf hrq _ =>
    have h0 := hg hm trivial
    have hjr := h.rq j r (by simp [hrq])
    refine ⟨by simp, fun _ => h0, ?_, ?_, ?_, by simp, by simp, ?_⟩
    · intro i r' hmem; exact h.rq i r' (by simp [hrq, hmem])
    · intro i r'; simp only [setChild_ws]; split
      · subst_vars; simp; rintro rfl; exact hjr.1
      · exact h.got i r'
    · intro i t'; simp only [setChild_ws]; split
      · subst_vars; exact h.acc _ t'
      · exact h.acc i t'
    · intro i hi; simp at hi; subst hi; exact hjr.2
  | blocked hm _ _ =>
    exact ⟨by simp, fun _ => hg hm trivial, h.rq, h.got, h.acc, by simp, by simp, by simp⟩
  | missing hm _ _ _ => exact safe_raiseStop cfg s h
  | resnap hm _ _ _ _ =>
    exact ⟨by simp [hm], fun _ => hg hm trivial, h.rq, h.got, h.acc, by simp [hm], by simp [hm], by simp [hm]⟩
  | toJoin hm hf =>
    exact ⟨by simp, fun _ => hg hm trivial, h.rq, h.got, h.acc, fun _ => by simpa using hf, by simp, by simp⟩
  | sentinel j rest hm hj hlq =>
    refine ⟨by simp, fun _ => hg hm trivial, h.rq, ?_, ?_, by simp, by simp, by simp⟩
    · intro i r'; simp only [setChild_ws]; split
      · subst_vars; exact h.got _ r'
      · exact h.got i r'
    · intro i t'; simp only [setChild_ws]; split
      · subst_vars; exact h.acc _ t'
      · exact h.acc i t'
  | record j rest hm hj hlq =>
    refine ⟨by simp [hm], fun _ => hg hm trivial, h.rq, ?_, ?_, by simp [hm], by simp [hm], ?_⟩
    · intro i r'; simp only [setChild_ws]; split
      · subst_vars; exact h.got _ r'
      · exact h.got i r'
    · intro i t'; simp only [setChild_ws]; split
      · subst_vars; exact h.acc _ t'
      · exact h.acc i t'
    · intro i hi; exact h.drainlt i hi
  | logsLost j hm _ _ _ => exact safe_raiseStop cfg s h
  | drainSnap j hm _ _ _ _ =>
    exact ⟨by simp [hm], fun _ => hg hm trivial, h.rq, h.got, h.acc, by simp [hm], by simp [hm],
      fun i hi => h.drainlt i hi⟩
  | badPid j hm _ =>
    exact ⟨by simp, fun hg' => by simp [Gathering] at hg', h.rq, h.got, h.acc, by simp, by simp, by simp⟩
  | done r hm hall _ hc =>
    refine ⟨by simp, fun hg' => by simp [Gathering] at hg', h.rq, h.got, h.acc, by simp, ?_, by simp⟩
    intro r' hr'; simp at hr'; subst hr'
    have hfl : filled cfg.nchild s.ws = cfg.nchild := le_antisymm (countTo_le _ _) (h.join hm)
    rw [hfl] at hc
    rw [expected_eq, hg hm trivial,
      collect_eq (fun j => full cfg (j+1)) _ _ _ hc (fun j _ x hx => h.got j x hx)]
  | keyError hm _ _ _ =>
    exact ⟨by simp, fun hg' => by simp [Gathering] at hg', h.rq, h.got, h.acc, by simp, by simp, by simp⟩
  | badExit hm _ _ =>
    exact ⟨by simp, fun hg' => by simp [Gathering] at hg', h.rq, h.got, h.acc, by simp, by simp, by simp⟩

theorem safe_run (cfg : Cfg α β) (σ : Nat → Agent) (k : Nat) : Safe cfg (run cfg σ k) := by
  induction k with
  | zero => exact safe_init cfg
  | succ k ih =>
    simp only [run, step]
    cases σ k with
    | master => exact safe_master cfg _ ih
    | child j => exact safe_child cfg _ j ih

/-! ### ranking function, absence of deadlock, termination under fairness -/

/-- remaining steps of a child whose chunk has `k` tasks -/
def stepsLeft (k : Nat) : WPhase → Nat
  | .running t => (k - t) + 3
  | .queued => 2
  | .finished => 1
  | .exited _ => 0

def masterLeft (k0 : Nat) : MPhase β → Nat
  | .own t => (k0 - t) + 4
  | .gather => 2
  | .drain _ => 3
  | .join => 1
  | .done _ => 0
  | .error => 0
  | .recv => 0

/-- a snapshot that has not yet seen a terminated child may still turn -/
def endedBit (b : Bool) : Nat := if b then 0 else 1

def childPot (cfg : Cfg α β) (j : Nat) (c : Child β) : Nat :=
  4 * stepsLeft (cfg.chunk (j+1)).length c.phase + 2 * c.lq.length

/-- ranking function: strictly decreases with every step that changes the state -/
def pot (cfg : Cfg α β) (s : State (MPhase β) β) : Nat :=
  sumTo cfg.nchild (fun j => childPot cfg j (s.ws j)) + 3 * s.rq.length +
    masterLeft (cfg.chunk 0).length s.m + endedBit s.ended

theorem endedBit_le (b : Bool) : endedBit b ≤ 1 := by cases b <;> simp [endedBit]

theorem sumTo_le (n : Nat) (g g' : Nat → Nat) (h : ∀ j < n, g' j ≤ g j) : sumTo n g' ≤ sumTo n g := by
  induction n with
  | zero => simp [sumTo]
  | succ n ih =>
    simp only [sumTo]
    have := ih (fun j hj => h j (by omega))
    have := h n (by omega)
    omega

theorem childTr_dec (cfg : Cfg α β) (j : Nat) (c c' : Child β) (items : List (Nat × List β))
    (h : ChildTr cfg j c c' items) : childPot cfg j c' + 3 * items.length < childPot cfg j c := by
  cases h with
  | task t x hph hx hf =>
    have ht : t < (cfg.chunk (j+1)).length := by
      by_contra hc; simp [List.getElem?_eq_none (Nat.le_of_not_lt hc)] at hx
    simp only [childPot, hph, stepsLeft]
    split <;> simp <;> omega
  | taskFault t x code hph hx hf => simp only [childPot, hph, stepsLeft]; simp
  | put t hph hx hf _ =>
    have ht : (cfg.chunk (j+1)).length ≤ t := by simpa using hx
    simp only [childPot, hph, stepsLeft]; simp; omega
  | putPartial t code hph hx hf _ => simp only [childPot, hph, stepsLeft]; simp
  | putLost t code hph hx hf => simp only [childPot, hph, stepsLeft]; simp
  | sentinel hph hf => simp only [childPot, hph, stepsLeft]; simp; omega
  | sentinelFault code hph hf => simp only [childPot, hph, stepsLeft]; simp
  | exit hph => simp only [childPot, hph, stepsLeft]; simp

theorem sum_setChild (cfg : Cfg α β) (s : State (MPhase β) β) (j : Nat) (hj : j < cfg.nchild) (c' : Child β) :
    sumTo cfg.nchild (fun i => childPot cfg i ((setChild s j c').ws i)) + childPot cfg j (s.ws j) =
    sumTo cfg.nchild (fun i => childPot cfg i (s.ws i)) + childPot cfg j c' := by
  have hu := sumTo_update cfg.nchild (fun i => childPot cfg i (s.ws i))
    (fun i => childPot cfg i ((setChild s j c').ws i)) j hj (by intro i hi; simp [hi])
  simpa using hu

theorem pot_child (cfg : Cfg α β) (s : State (MPhase β) β) (j : Nat) (hj : j < cfg.nchild)
    (c' : Child β) (items : List (Nat × List β)) (h : ChildTr cfg j (s.ws j) c' items) :
    pot cfg { setChild s j c' with rq := s.rq ++ items } < pot cfg s := by
  have hd := childTr_dec cfg j _ _ _ h
  have hu := sum_setChild cfg s j hj c'
  simp only [pot, setChild_m, setChild_ended, List.length_append]
  omega

theorem pot_setChild (cfg : Cfg α β) (s : State (MPhase β) β) (j : Nat) (c : Child β)
    (hp : c.phase = (s.ws j).phase) (hl : c.lq = (s.ws j).lq) :
    sumTo cfg.nchild (fun i => childPot cfg i ((setChild s j c).ws i)) =
    sumTo cfg.nchild (fun i => childPot cfg i (s.ws i)) := by
  apply sumTo_congr
  intro i _
  simp only [setChild_ws]
  split
  · subst_vars; simp [childPot, hp, hl]
  · rfl

theorem childPot_terminate (cfg : Cfg α β) (ws : Nat → Child β) (j : Nat) :
    childPot cfg j (terminateAll ws j) ≤ childPot cfg j (ws j) := by
  simp only [childPot, terminateAll_lq]
  rcases terminateAll_phase ws j with h | ⟨_, h⟩
  · rw [h]
  · rw [h]; simp [stepsLeft]

theorem pot_raiseStop (cfg : Cfg α β) (s : State (MPhase β) β) (h : 0 < masterLeft (cfg.chunk 0).length s.m) :
    pot cfg (raiseStop s) < pot cfg s := by
  have := sumTo_le cfg.nchild (fun j => childPot cfg j (s.ws j)) (fun j => childPot cfg j (terminateAll s.ws j))
    (fun j _ => childPot_terminate cfg s.ws j)
  have h0 : masterLeft (cfg.chunk 0).length (MPhase.error : MPhase β) = 0 := rfl
  simp only [pot, raiseStop_ws, raiseStop_rq, raiseStop_m, raiseStop_ended, h0]
  omega

theorem pot_master (cfg : Cfg α β) (s s' : State (MPhase β) β) (h : MasterTr cfg s s') :
    pot cfg s' < pot cfg s := by
  cases h with
  | ownTask t x hm hx _ =>
    have ht : t < (cfg.chunk 0).length := by
      by_contra hc; simp [List.getElem?_eq_none (Nat.le_of_not_lt hc)] at hx
    simp only [pot, hm, masterLeft]; omega
  | ownRaise t x hm hx _ => exact pot_raiseStop cfg s (by simp [hm, masterLeft])
  | ownEnd t hm hx =>
    have := endedBit_le (snapG cfg s)
    simp only [pot, hm, masterLeft]; omega
  | pop j r rest hm hf hrq _ =>
    have := pot_setChild cfg s j { s.ws j with got := some r } rfl rfl
    have := endedBit_le (isExited (s.ws j).phase)
    simp only [pot, hm, masterLeft, hrq, List.length_cons]
    simp only [setChild] at *
    omega
  | blocked hm _ _ => simp only [pot, hm, masterLeft]; omega
  | missing hm _ _ _ => exact pot_raiseStop cfg s (by simp [hm, masterLeft])
  | resnap hm _ _ he _ => simp only [pot, hm, masterLeft, he, endedBit]; simp
  | toJoin hm hf => simp only [pot, hm, masterLeft]; omega
  | sentinel j rest hm hj hlq =>
    have hu := sum_setChild cfg s j hj { s.ws j with lq := rest }
    have h1 : childPot cfg j { s.ws j with lq := rest } + 2 = childPot cfg j (s.ws j) := by
      simp [childPot, hlq]; omega
    have := endedBit_le (snapG cfg s)
    simp only [pot, hm, masterLeft, setChild_rq]
    dsimp only at hu h1 ⊢
    omega
  | record j rest hm hj hlq =>
    have hu := sum_setChild cfg s j hj { s.ws j with lq := rest }
    have h1 : childPot cfg j { s.ws j with lq := rest } + 2 = childPot cfg j (s.ws j) := by
      simp [childPot, hlq]; omega
    have := endedBit_le (isExited (s.ws j).phase)
    simp only [pot, setChild_m, setChild_rq]
    dsimp only at hu h1 ⊢
    omega
  | logsLost j hm _ _ _ => exact pot_raiseStop cfg s (by simp [hm, masterLeft])
  | drainSnap j hm _ _ he _ => simp only [pot, hm, masterLeft, he, endedBit]; simp
  | badPid j hm _ => simp only [pot, hm, masterLeft]; omega
  | done r hm _ _ _ => simp only [pot, hm, masterLeft]; omega
  | keyError hm _ _ _ => simp only [pot, hm, masterLeft]; omega
  | badExit hm _ _ => simp only [pot, hm, masterLeft]; omega

theorem step_eq_or_dec (cfg : Cfg α β) (s : State (MPhase β) β) (a : Agent) :
    step cfg s a = s ∨ pot cfg (step cfg s a) < pot cfg s := by
  cases a with
  | master =>
    rcases masterStep_spec cfg s with ⟨he, _⟩ | htr
    · exact Or.inl he
    · exact Or.inr (pot_master cfg s _ htr)
  | child j =>
    rcases childStep_spec cfg s j with ⟨_, he⟩ | ⟨hj, c', items, htr, _, he, _⟩
    · exact Or.inl he
    · right; show pot cfg (childStep cfg s j) < _; rw [he]; exact pot_child cfg s j hj c' items htr

/-- the agents of a configuration -/
def ValidAgent (n : Nat) : Agent → Prop
  | .master => True
  | .child j => j < n

theorem child_productive (cfg : Cfg α β) (s : State (MPhase β) β) (j : Nat) (hj : j < cfg.nchild)
    (he : isExited (s.ws j).phase = false) : pot cfg (step cfg s (.child j)) < pot cfg s := by
  rcases childStep_spec cfg s j with ⟨hno, _⟩ | ⟨_, c', items, htr, _, heq, _⟩
  · rcases hno with h | h
    · exact absurd hj h
    · simp [he] at h
  · show pot cfg (childStep cfg s j) < _; rw [heq]; exact pot_child cfg s j hj c' items htr

theorem countTo_lt_exists (n : Nat) (p : Nat → Bool) (h : countTo n p < n) : ∃ j < n, p j = false := by
  by_contra hc
  push Not at hc
  have : ∀ j < n, p j = true := fun j hj => by simpa using hc j hj
  have : countTo n p = n := by
    clear h hc
    induction n with
    | zero => rfl
    | succ n ih => simp only [countTo]; rw [ih (fun j hj => this j (by omega)), this n (by omega)]; simp
  omega

/-- **no deadlock**: in every state in which `parallelize` has not ended, some process can move -/
theorem exists_productive (cfg : Cfg α β) (s : State (MPhase β) β) (hnt : s.m.terminal = false)
    (hnr : s.m ≠ .recv) :
    ∃ a, ValidAgent cfg.nchild a ∧ pot cfg (step cfg s a) < pot cfg s := by
  rcases masterStep_spec cfg s with ⟨_, hw⟩ | htr
  · cases hw with
    | results hm hf hrq _ hall =>
      obtain ⟨j, hj, hg⟩ := countTo_lt_exists _ _ hf
      have hg' : (s.ws j).got = none := by simpa using hg
      exact ⟨.child j, hj, child_productive cfg s j hj (hall j hj hg')⟩
    | logs j hm hj hlq _ he => exact ⟨.child j, hj, child_productive cfg s j hj he⟩
    | join j hm hj he => exact ⟨.child j, hj, child_productive cfg s j hj he⟩
    | terminal ht => simp [ht] at hnt
    | recv hm => exact absurd hm hnr
  · exact ⟨.master, trivial, pot_master cfg s _ htr⟩

/-- weak fairness: the master and every child get a turn again and again -/
def Fair (n : Nat) (σ : Nat → Agent) : Prop :=
  ∀ a, ValidAgent n a → ∀ k, ∃ k', k ≤ k' ∧ σ k' = a

theorem eventually_dec (cfg : Cfg α β) (σ : Nat → Agent) (a : Agent) (d : Nat) :
    ∀ k, σ (k + d) = a → pot cfg (step cfg (run cfg σ k) a) < pot cfg (run cfg σ k) →
      ∃ i, k ≤ i ∧ pot cfg (run cfg σ (i+1)) < pot cfg (run cfg σ k) := by
  induction d with
  | zero => intro k ha hp; exact ⟨k, le_refl _, by simp only [Nat.add_zero] at ha; simpa [run, ha] using hp⟩
  | succ d ih =>
    intro k ha hp
    rcases step_eq_or_dec cfg (run cfg σ k) (σ k) with he | hd
    · have hrun : run cfg σ (k+1) = run cfg σ k := by simp [run, he]
      obtain ⟨i, hi, hlt⟩ := ih (k+1) (by rw [← ha]; congr 1; omega) (by rw [hrun]; exact hp)
      exact ⟨i, by omega, by rw [hrun] at hlt; exact hlt⟩
    · exact ⟨k, le_refl _, by simpa [run] using hd⟩

/-- no child dies in the middle of writing its result into the pipe -/
def NoPartial (cfg : Cfg α β) : Prop := ∀ j, partialFault (cfg.fault j) = none

/-- without partial writes the pipe is never poisoned and the master never blocks in a receive -/
theorem noPoison_run (cfg : Cfg α β) (hnp : NoPartial cfg) (σ : Nat → Agent) (k : Nat) :
    (run cfg σ k).poison = none ∧ (run cfg σ k).m ≠ .recv := by
  induction k with
  | zero => exact ⟨rfl, by simp [run, init]⟩
  | succ k ih =>
    obtain ⟨hp, hm⟩ := ih
    simp only [run, step]
    cases σ k with
    | child j =>
      rcases childStep_spec cfg (run cfg σ k) j with ⟨_, he⟩ | ⟨_, c', items, _, p', he, hp'⟩
      · show (childStep cfg _ j).poison = none ∧ (childStep cfg _ j).m ≠ MPhase.recv
        rw [he]; exact ⟨hp, hm⟩
      · show (childStep cfg _ j).poison = none ∧ (childStep cfg _ j).m ≠ MPhase.recv
        rw [he]
        rcases hp' with rfl | hne
        · exact ⟨hp, hm⟩
        · exact absurd (hnp j) hne
    | master =>
      show (masterStep cfg _).poison = none ∧ (masterStep cfg _).m ≠ MPhase.recv
      rcases masterStep_spec cfg (run cfg σ k) with ⟨he, _⟩ | htr
      · rw [he]; exact ⟨hp, hm⟩
      generalize masterStep cfg (run cfg σ k) = s' at htr ⊢
      cases htr <;> simp_all

/-- **every fair run ends** (with a result or with an error), whatever the faults, as long as no child
dies in the middle of a pipe write -/
theorem terminates (cfg : Cfg α β) (hnp : NoPartial cfg) (σ : Nat → Agent) (hf : Fair cfg.nchild σ) :
    ∃ k, (run cfg σ k).m.terminal = true := by
  suffices h : ∀ N k, pot cfg (run cfg σ k) ≤ N → ∃ k', (run cfg σ k').m.terminal = true from
    h _ 0 (le_refl _)
  intro N
  induction N using Nat.strong_induction_on with
  | _ N ih =>
    intro k hk
    by_cases ht : (run cfg σ k).m.terminal = true
    · exact ⟨k, ht⟩
    · obtain ⟨a, hv, hp⟩ := exists_productive cfg (run cfg σ k) (by simpa using ht) (noPoison_run cfg hnp σ k).2
      obtain ⟨k1, hk1, hσ⟩ := hf a hv k
      obtain ⟨i, _, hlt⟩ := eventually_dec cfg σ a (k1 - k) k (by rw [← hσ]; congr 1; omega) hp
      exact ih (pot cfg (run cfg σ (i+1))) (by omega) (i+1) (le_refl _)

/-! ### runs without faults never end with an error -/

/-- invariant of the fault-free runs: who has delivered what -/
structure Clean (cfg : Cfg α β) (s : State (MPhase β) β) : Prop where
  notPut : ∀ j t, (s.ws j).phase = .running t → (s.ws j).got = none ∧ ∀ r, (j, r) ∉ s.rq
  put : ∀ j < cfg.nchild, (∀ t, (s.ws j).phase ≠ .running t) → (∃ r, (j, r) ∈ s.rq) ∨ (s.ws j).got ≠ none
  sent : ∀ j < cfg.nchild, ((s.ws j).phase = .finished ∨ isExited (s.ws j).phase = true) →
    .sentinel ∈ (s.ws j).lq ∨ ((s.ws j).got ≠ none ∧ s.m ≠ .drain j)
  nodup : (s.rq.map Prod.fst).Nodup
  inq : ∀ j r, (j, r) ∈ s.rq → (s.ws j).got = none ∧ j < cfg.nchild
  drain : ∀ j, s.m = .drain j → j < cfg.nchild ∧ (s.ws j).got ≠ none
  noerr : s.m ≠ .error

theorem clean_init (cfg : Cfg α β) : Clean cfg (init : State (MPhase β) β) := by
  constructor <;> simp [init, initChild, isExited]

theorem taskFault_none (t : Nat) : taskFault none t = none := rfl
theorem queuedFault_none (b : Bool) : queuedFault none b = none := rfl

theorem clean_child (cfg : Cfg α β) (hnf : ∀ j, cfg.fault j = none) (s : State (MPhase β) β) (j : Nat)
    (h : Clean cfg s) : Clean cfg (childStep cfg s j) := by
  rcases childStep_spec cfg s j with ⟨_, he⟩ | ⟨hj, c', items, htr, _, he, _⟩
  · rw [he]; exact h
  rw [he]
  have hgot : c'.got = (s.ws j).got := by cases htr <;> rfl
  cases htr with
  | task t x hph hx hf =>
    refine ⟨?_, ?_, ?_, by simpa using h.nodup, ?_, ?_, h.noerr⟩
    · intro i t'; simp only [setChild_ws, List.append_nil]; split
      · subst_vars; intro _; exact h.notPut _ t hph
      · exact h.notPut i t'
    · intro i hi; simp only [setChild_ws, List.append_nil]; split
      · subst_vars; intro hc; exact absurd rfl (hc (t+1))
      · exact h.put i hi
    · intro i hi; simp only [setChild_ws]; split
      · subst_vars; simp [isExited]
      · exact h.sent i hi
    · intro i r; simp only [setChild_ws, List.append_nil]; split
      · subst_vars; exact h.inq _ r
      · exact h.inq i r
    · intro i hm; simp only [setChild_ws]; split
      · subst_vars; exact h.drain _ hm
      · exact h.drain i hm
  | taskFault t x code hph hx hf => simp [hnf, taskFault_none] at hf
  | put t hph hx hf _ =>
    have hnp := h.notPut j t hph
    refine ⟨?_, ?_, ?_, ?_, ?_, ?_, h.noerr⟩
    · intro i t'; simp only [setChild_ws]; split
      · subst_vars; simp
      · rename_i hne; intro hp
        refine ⟨(h.notPut i t' hp).1, ?_⟩
        intro r hmem
        simp only [List.mem_append, List.mem_singleton, Prod.mk.injEq] at hmem
        rcases hmem with hmem | ⟨hij, _⟩
        · exact (h.notPut i t' hp).2 r hmem
        · exact hne hij
    · intro i hi; simp only [setChild_ws]; split
      · subst_vars; intro _; left; exact ⟨(s.ws i).acc, by simp⟩
      · intro hp; rcases h.put i hi hp with ⟨r, hr⟩ | hg
        · left; exact ⟨r, by simp [hr]⟩
        · right; exact hg
    · intro i hi; simp only [setChild_ws]; split
      · subst_vars; simp [isExited]
      · exact h.sent i hi
    · simp only [List.map_append, List.map_cons, List.map_nil]
      rw [List.nodup_append]
      refine ⟨h.nodup, by simp, ?_⟩
      intro a ha b hb
      simp only [List.mem_singleton] at hb; subst hb
      rintro rfl
      obtain ⟨⟨a', r⟩, hmem, rfl⟩ := List.mem_map.mp ha
      exact hnp.2 r hmem
    · intro i r hmem
      simp only [List.mem_append, List.mem_singleton, Prod.mk.injEq] at hmem
      simp only [setChild_ws]
      rcases hmem with hmem | ⟨rfl, _⟩
      · split
        · subst_vars; exact absurd hmem (hnp.2 r)
        · exact h.inq i r hmem
      · simp [hnp.1, hj]
    · intro i hm; simp only [setChild_ws]; split
      · subst_vars; exact h.drain _ hm
      · exact h.drain i hm
  | putLost t code hph hx hf => simp [hnf, queuedFault_none] at hf
  | putPartial t code hph hx hf hp => simp [hnf, partialFault] at hp
  | sentinel hph hf =>
    refine ⟨?_, ?_, ?_, by simpa using h.nodup, ?_, ?_, h.noerr⟩
    · intro i t'; simp only [setChild_ws, List.append_nil]; split
      · subst_vars; simp
      · exact h.notPut i t'
    · intro i hi; simp only [setChild_ws, List.append_nil]; split
      · subst_vars; intro _; exact h.put _ hi (by simp [hph])
      · exact h.put i hi
    · intro i hi; simp only [setChild_ws]; split
      · subst_vars; intro _; left; simp
      · exact h.sent i hi
    · intro i r; simp only [setChild_ws, List.append_nil]; split
      · subst_vars; exact h.inq _ r
      · exact h.inq i r
    · intro i hm; simp only [setChild_ws]; split
      · subst_vars; exact h.drain _ hm
      · exact h.drain i hm
  | sentinelFault code hph hf => simp [hnf, queuedFault_none] at hf
  | exit hph =>
    refine ⟨?_, ?_, ?_, by simpa using h.nodup, ?_, ?_, h.noerr⟩
    · intro i t'; simp only [setChild_ws, List.append_nil]; split
      · subst_vars; simp
      · exact h.notPut i t'
    · intro i hi; simp only [setChild_ws, List.append_nil]; split
      · subst_vars; intro _; exact h.put _ hi (by simp [hph])
      · exact h.put i hi
    · intro i hi; simp only [setChild_ws]; split
      · subst_vars; intro _; exact h.sent _ hi (Or.inl hph)
      · exact h.sent i hi
    · intro i r; simp only [setChild_ws, List.append_nil]; split
      · subst_vars; exact h.inq _ r
      · exact h.inq i r
    · intro i hm; simp only [setChild_ws]; split
      · subst_vars; exact h.drain _ hm
      · exact h.drain i hm


/-- the part of the fault-free invariant about the exit-code snapshots and the exit codes -/
structure CleanS (cfg : Cfg α β) (s : State (MPhase β) β) : Prop where
  snapG : s.m = .gather → s.ended = true →
    ∃ j < cfg.nchild, (s.ws j).got = none ∧ isExited (s.ws j).phase = true
  snapD : ∀ j, s.m = .drain j → s.ended = true → isExited (s.ws j).phase = true
  codes : ∀ j < cfg.nchild, ∀ c, (s.ws j).phase = .exited c → c = 0

theorem cleanS_init (cfg : Cfg α β) : CleanS cfg (init : State (MPhase β) β) := by
  constructor <;> simp [init, initChild]

theorem snapG_witness (cfg : Cfg α β) (s : State M β) (h : snapG cfg s = true) :
    ∃ j < cfg.nchild, (s.ws j).got = none ∧ isExited (s.ws j).phase = true := by
  obtain ⟨j, hj, hp⟩ := (anyTo_iff _ _).mp h
  simp only [Bool.and_eq_true, Option.isNone_iff_eq_none] at hp
  exact ⟨j, hj, hp.1, hp.2⟩

theorem childTr_not_exited (cfg : Cfg α β) (j : Nat) (c c' : Child β) (items : List (Nat × List β))
    (h : ChildTr cfg j c c' items) : isExited c.phase = false := by
  cases h <;> simp_all [isExited]

/-- without faults no step of the master ends in an error -/
theorem clean_not_error (cfg : Cfg α β) (hmf : cfg.mfault = none) (s s' : State (MPhase β) β)
    (h : Clean cfg s) (hc : CleanS cfg s) (hs : Safe cfg s) (htr : MasterTr cfg s s') : s'.m ≠ .error := by
  cases htr with
  | ownRaise t x hm hx hmf' => simp [hmf] at hmf'
  | missing hm hf hrq he =>
    exfalso
    obtain ⟨j, hj, hg, hex⟩ := hc.snapG hm he
    have hp : ∀ t, (s.ws j).phase ≠ .running t := by intro t ht; simp [ht, isExited] at hex
    rcases h.put j hj hp with ⟨r, hr⟩ | hg'
    · simp [hrq] at hr
    · exact hg' hg
  | logsLost j hm hj hlq he =>
    exfalso
    rcases h.sent j hj (Or.inr (hc.snapD j hm he)) with hsn | ⟨_, hne⟩
    · simp [hlq] at hsn
    · exact hne hm
  | badPid j hm hj => exact absurd (h.drain j hm).1 hj
  | keyError hm hall hz hc' =>
    exfalso
    have hfl : filled cfg.nchild s.ws = cfg.nchild := le_antisymm (countTo_le _ _) (hs.join hm)
    have hall' := countTo_all _ _ (le_of_eq hfl.symm)
    obtain ⟨r, hr⟩ := collect_isSome cfg.nchild s.ws hall'
    rw [hfl, hr] at hc'; simp at hc'
  | badExit hm hall hz =>
    exfalso
    have : ¬ ∀ j < cfg.nchild, decide ((s.ws j).phase = .exited 0) = true := by
      intro hz'; simp [allZero, (allTo_iff _ _).mpr hz'] at hz
    push Not at this
    obtain ⟨j, hj, hne⟩ := this
    cases hph : (s.ws j).phase with
    | exited c => have := hc.codes j hj c hph; subst this; simp [hph] at hne
    | _ => have := hall j hj; simp [hph, isExited] at this
  | _ => simp <;> first | exact h.noerr | simp_all

theorem clean_master (cfg : Cfg α β) (hmf : cfg.mfault = none) (s : State (MPhase β) β) (h : Clean cfg s)
    (hc : CleanS cfg s) (hs : Safe cfg s) : Clean cfg (masterStep cfg s) := by
  rcases masterStep_spec cfg s with ⟨he, _⟩ | htr
  · rw [he]; exact h
  generalize masterStep cfg s = s' at htr ⊢
  have hne := fun s'' (htr' : MasterTr cfg s s'') => clean_not_error cfg hmf s s'' h hc hs htr'
  cases htr with
  | ownTask t x hm hx _ =>
    exact ⟨h.notPut, h.put, fun j hj hp => by simpa [hm] using h.sent j hj hp, h.nodup, h.inq, by simp, by simp⟩
  | ownRaise t x hm hx hmf' => exact absurd rfl (hne _ (.ownRaise t x hm hx hmf'))
  | ownEnd t hm hx =>
    exact ⟨h.notPut, h.put, fun j hj hp => by simpa [hm] using h.sent j hj hp, h.nodup, h.inq, by simp, by simp⟩
  | pop j r rest hm hf hrq _ =>
    have hjq := h.inq j r (by simp [hrq])
    have hnd : j ∉ rest.map Prod.fst ∧ (rest.map Prod.fst).Nodup := by
      have := h.nodup; simpa [hrq] using this
    refine ⟨?_, ?_, ?_, hnd.2, ?_, ?_, by simp⟩
    · intro i t'; simp only [setChild_ws]; split
      · subst_vars; intro hp; exact absurd (by simp [hrq]) ((h.notPut _ t' hp).2 r)
      · intro hp; exact ⟨(h.notPut i t' hp).1, fun r' hr' => (h.notPut i t' hp).2 r' (by simp [hrq, hr'])⟩
    · intro i hi; simp only [setChild_ws]; split
      · subst_vars; intro _; right; simp
      · rename_i hne; intro hp
        rcases h.put i hi hp with ⟨r', hr'⟩ | hg
        · left; refine ⟨r', ?_⟩
          simp only [hrq, List.mem_cons, Prod.mk.injEq] at hr'
          rcases hr' with ⟨hij, _⟩ | hr'
          · exact absurd hij hne
          · exact hr'
        · right; exact hg
    · intro i hi; simp only [setChild_ws]; split
      · subst_vars; intro hp
        rcases h.sent _ hi hp with hsn | ⟨hg, _⟩
        · left; exact hsn
        · exact absurd hjq.1 hg
      · rename_i hne; intro hp
        rcases h.sent i hi hp with hsn | ⟨hg, _⟩
        · left; exact hsn
        · right; refine ⟨hg, ?_⟩; simp; exact fun h => hne h.symm
    · intro i r' hmem; simp only [setChild_ws]; split
      · subst_vars; exact absurd (List.mem_map.mpr ⟨(_, r'), hmem, rfl⟩) hnd.1
      · exact h.inq i r' (by simp [hrq, hmem])
    · intro i hm'; simp at hm'; subst hm'; simp [hjq.2]
  | blocked hm _ _ =>
    exact ⟨h.notPut, h.put, fun j hj hp => by simpa [hm] using h.sent j hj hp, h.nodup, h.inq, by simp, by simp⟩
  | missing hm hf hrq he => exact absurd rfl (hne _ (.missing hm hf hrq he))
  | resnap hm _ _ _ _ => exact ⟨h.notPut, h.put, h.sent, h.nodup, h.inq, h.drain, h.noerr⟩
  | toJoin hm hf =>
    exact ⟨h.notPut, h.put, fun j hj hp => by simpa [hm] using h.sent j hj hp, h.nodup, h.inq, by simp, by simp⟩
  | sentinel j rest hm hj hlq =>
    have hd := h.drain j hm
    refine ⟨?_, ?_, ?_, h.nodup, ?_, by simp, by simp⟩
    · intro i t'; simp only [setChild_ws]; split
      · subst_vars; exact h.notPut _ t'
      · exact h.notPut i t'
    · intro i hi; simp only [setChild_ws]; split
      · subst_vars; exact h.put _ hi
      · exact h.put i hi
    · intro i hi; simp only [setChild_ws]; split
      · subst_vars; intro _; right; exact ⟨hd.2, by simp⟩
      · intro hp
        rcases h.sent i hi hp with hsn | ⟨hg, _⟩
        · left; exact hsn
        · right; exact ⟨hg, by simp⟩
    · intro i r'; simp only [setChild_ws]; split
      · subst_vars; exact h.inq _ r'
      · exact h.inq i r'
  | record j rest hm hj hlq =>
    refine ⟨?_, ?_, ?_, h.nodup, ?_, ?_, h.noerr⟩
    · intro i t'; simp only [setChild_ws]; split
      · subst_vars; exact h.notPut _ t'
      · exact h.notPut i t'
    · intro i hi; simp only [setChild_ws]; split
      · subst_vars; exact h.put _ hi
      · exact h.put i hi
    · intro i hi; simp only [setChild_ws, setChild_m]; split
      · subst_vars; intro hp
        rcases h.sent _ hi hp with hsn | hr
        · left; simpa [hlq] using hsn
        · right; exact hr
      · exact h.sent i hi
    · intro i r'; simp only [setChild_ws]; split
      · subst_vars; exact h.inq _ r'
      · exact h.inq i r'
    · intro i hm'; simp only [setChild_ws, setChild_m] at hm' ⊢; split
      · subst_vars; exact h.drain _ hm'
      · exact h.drain i hm'
  | logsLost j hm hj hlq he => exact absurd rfl (hne _ (.logsLost j hm hj hlq he))
  | drainSnap j hm _ _ _ _ => exact ⟨h.notPut, h.put, h.sent, h.nodup, h.inq, h.drain, h.noerr⟩
  | badPid j hm hj => exact absurd (h.drain j hm).1 hj
  | done r hm hall _ hc' =>
    exact ⟨h.notPut, h.put, fun j hj hp => by simpa [hm] using h.sent j hj hp, h.nodup, h.inq, by simp, by simp⟩
  | keyError hm hall hz hc' => exact absurd rfl (hne _ (.keyError hm hall hz hc'))
  | badExit hm hall hz => exact absurd rfl (hne _ (.badExit hm hall hz))

theorem cleanS_child (cfg : Cfg α β) (hnf : ∀ j, cfg.fault j = none) (s : State (MPhase β) β) (j : Nat)
    (h : CleanS cfg s) : CleanS cfg (childStep cfg s j) := by
  rcases childStep_spec cfg s j with ⟨_, he⟩ | ⟨hj, c', items, htr, _, he, _⟩
  · rw [he]; exact h
  rw [he]
  have hgot : c'.got = (s.ws j).got := childTr_got cfg _ _ _ _ htr
  have hne := childTr_not_exited cfg _ _ _ _ htr
  refine ⟨?_, ?_, ?_⟩
  · intro hm hen
    obtain ⟨i, hi, hg, hex⟩ := h.snapG hm hen
    have hij : i ≠ j := by rintro rfl; simp [hne] at hex
    exact ⟨i, hi, by simp [hij, hg], by simp [hij, hex]⟩
  · intro i hm hen
    have hex := h.snapD i hm hen
    have hij : i ≠ j := by rintro rfl; simp [hne] at hex
    simp [hij, hex]
  · intro i hi c; simp only [setChild_ws]; split
    · subst_vars
      cases htr <;> simp_all [exitCode, taskFault, queuedFault, partialFault]
    · exact h.codes i hi c

theorem cleanS_master (cfg : Cfg α β) (hmf : cfg.mfault = none) (s : State (MPhase β) β) (h : Clean cfg s)
    (hc : CleanS cfg s) (hs : Safe cfg s) : CleanS cfg (masterStep cfg s) := by
  rcases masterStep_spec cfg s with ⟨he, _⟩ | htr
  · rw [he]; exact hc
  generalize masterStep cfg s = s' at htr ⊢
  have hne := fun s'' (htr' : MasterTr cfg s s'') => clean_not_error cfg hmf s s'' h hc hs htr'
  cases htr with
  | ownTask t x hm hx _ => exact ⟨by simp, by simp, hc.codes⟩
  | ownRaise t x hm hx hmf' => exact absurd rfl (hne _ (.ownRaise t x hm hx hmf'))
  | ownEnd t hm hx => exact ⟨fun _ hen => snapG_witness cfg s hen, by simp, hc.codes⟩
  | pop j r rest hm hf hrq hp =>
    refine ⟨by simp, ?_, ?_⟩
    · intro i hi hen; simp at hi; subst hi; simpa using hen
    · intro i hi c; simp only [setChild_ws]; split
      · subst_vars; exact hc.codes _ hi c
      · exact hc.codes i hi c
  | blocked hm _ _ => exact ⟨by simp, by simp, hc.codes⟩
  | missing hm hf hrq he => exact absurd rfl (hne _ (.missing hm hf hrq he))
  | resnap hm _ _ _ hsn => exact ⟨fun _ _ => snapG_witness cfg s hsn, by simp [hm], hc.codes⟩
  | toJoin hm hf => exact ⟨by simp, by simp, hc.codes⟩
  | sentinel j rest hm hj hlq =>
    refine ⟨?_, by simp, ?_⟩
    · intro _ hen
      obtain ⟨i, hi, hg, hex⟩ := snapG_witness cfg s hen
      refine ⟨i, hi, ?_, ?_⟩ <;> (simp only [setChild_ws]; split <;> [(subst_vars; assumption); assumption])
    · intro i hi c; simp only [setChild_ws]; split
      · subst_vars; exact hc.codes _ hi c
      · exact hc.codes i hi c
  | record j rest hm hj hlq =>
    refine ⟨by simp [hm], ?_, ?_⟩
    · intro i hi hen; simp only [setChild_m] at hi; rw [hm] at hi; cases hi
      simpa using hen
    · intro i hi c; simp only [setChild_ws]; split
      · subst_vars; exact hc.codes _ hi c
      · exact hc.codes i hi c
  | logsLost j hm hj hlq he => exact absurd rfl (hne _ (.logsLost j hm hj hlq he))
  | drainSnap j hm _ _ _ hex =>
    refine ⟨by simp [hm], ?_, hc.codes⟩
    intro i hi _; rw [hm] at hi; cases hi; exact hex
  | badPid j hm hj => exact absurd rfl (hne _ (.badPid j hm hj))
  | done r hm hall hz hc' => exact ⟨by simp, by simp, hc.codes⟩
  | keyError hm hall hz hc' => exact absurd rfl (hne _ (.keyError hm hall hz hc'))
  | badExit hm hall hz => exact absurd rfl (hne _ (.badExit hm hall hz))

theorem clean_run (cfg : Cfg α β) (hnf : ∀ j, cfg.fault j = none) (hmf : cfg.mfault = none)
    (σ : Nat → Agent) (k : Nat) : Clean cfg (run cfg σ k) ∧ CleanS cfg (run cfg σ k) := by
  induction k with
  | zero => exact ⟨clean_init cfg, cleanS_init cfg⟩
  | succ k ih =>
    simp only [run, step]
    cases σ k with
    | master => exact ⟨clean_master cfg hmf _ ih.1 ih.2 (safe_run cfg σ k),
                       cleanS_master cfg hmf _ ih.1 ih.2 (safe_run cfg σ k)⟩
    | child j => exact ⟨clean_child cfg hnf _ j ih.1, cleanS_child cfg hnf _ j ih.2⟩

/-! ### runs with an effective fault never return a result -/

/-- child `j0` has not delivered a result and the master has not got past the gather loop -/
structure NoResult (j0 : Nat) (s : State (MPhase β) β) : Prop where
  got : (s.ws j0).got = none
  rq : ∀ r, (j0, r) ∉ s.rq
  notJoin : s.m ≠ .join
  notDone : ∀ r, s.m ≠ .done r

theorem filled_lt_of_none (n : Nat) (ws : Nat → Child β) (j : Nat) (hj : j < n) (h : (ws j).got = none) :
    filled n ws < n := countTo_lt_of n _ j hj (by simp [h])

theorem noResult_child (cfg : Cfg α β) (j0 : Nat) (s : State (MPhase β) β) (j : Nat) (h : NoResult j0 s)
    (hput : ∀ c' items, ChildTr cfg j0 (s.ws j0) c' items → items = []) :
    NoResult j0 (childStep cfg s j) := by
  rcases childStep_spec cfg s j with ⟨_, he⟩ | ⟨hj, c', items, htr, _, he, _⟩
  · rw [he]; exact h
  rw [he]
  refine ⟨?_, ?_, h.notJoin, h.notDone⟩
  · simp only [setChild_ws]; split
    · subst_vars; rw [childTr_got cfg _ _ _ _ htr]; exact h.got
    · exact h.got
  · intro r hmem
    simp only [List.mem_append] at hmem
    rcases hmem with hmem | hmem
    · exact h.rq r hmem
    · have hk := childTr_items cfg j _ _ _ htr _ hmem
      simp only at hk; subst hk
      simp [hput c' items htr] at hmem

theorem noResult_master (cfg : Cfg α β) (j0 : Nat) (hj0 : j0 < cfg.nchild) (s : State (MPhase β) β)
    (h : NoResult j0 s) : NoResult j0 (masterStep cfg s) := by
  rcases masterStep_spec cfg s with ⟨he, _⟩ | htr
  · rw [he]; exact h
  generalize masterStep cfg s = s' at htr ⊢
  have hstop : NoResult j0 (raiseStop s) := ⟨by simp [h.got], h.rq, by simp, by simp⟩
  cases htr with
  | ownTask t x hm hx _ => exact ⟨h.got, h.rq, by simp, by simp⟩
  | ownRaise t x hm hx _ => exact hstop
  | ownEnd t hm hx => exact ⟨h.got, h.rq, by simp, by simp⟩
  | pop j r rest hm hf hrq _ =>
    have hne : j0 ≠ j := by rintro rfl; exact h.rq r (by simp [hrq])
    refine ⟨by simp [hne, h.got], ?_, by simp, by simp⟩
    intro r' hr'; exact h.rq r' (by simp [hrq, hr'])
  | blocked hm _ _ => exact ⟨h.got, h.rq, by simp, by simp⟩
  | missing hm _ _ _ => exact hstop
  | resnap hm _ _ _ _ => exact ⟨h.got, h.rq, h.notJoin, h.notDone⟩
  | toJoin hm hf => exact absurd (filled_lt_of_none _ _ j0 hj0 h.got) hf
  | sentinel j rest hm hj hlq =>
    refine ⟨?_, h.rq, by simp, by simp⟩
    simp only [setChild_ws]; split
    · subst_vars; exact h.got
    · exact h.got
  | record j rest hm hj hlq =>
    refine ⟨?_, h.rq, h.notJoin, h.notDone⟩
    simp only [setChild_ws]; split
    · subst_vars; exact h.got
    · exact h.got
  | logsLost j hm _ _ _ => exact hstop
  | drainSnap j hm _ _ _ _ => exact ⟨h.got, h.rq, h.notJoin, h.notDone⟩
  | badPid j hm _ => exact ⟨h.got, h.rq, by simp, by simp⟩
  | done r hm _ _ _ => exact absurd hm h.notJoin
  | keyError hm _ _ _ => exact absurd hm h.notJoin
  | badExit hm _ _ => exact absurd hm h.notJoin

/-! a task fault (the function raises / hard exit at the start of local task `tf`) -/

def IsTaskFault (ft : Option Fault) (tf : Nat) : Prop :=
  ft = some (.raiseAt tf) ∨ ∃ c, ft = some (.exitAt tf c)

theorem taskFault_ne (ft : Option Fault) (tf t : Nat) (h : IsTaskFault ft tf) (hn : taskFault ft t = none) :
    t ≠ tf := by
  rintro rfl
  rcases h with rfl | ⟨c, rfl⟩ <;> simp [taskFault] at hn

/-- the child with a task fault at `tf` is still before that task, or has exited -/
def Before (tf : Nat) (ph : WPhase) : Prop := (∃ t, ph = .running t ∧ t ≤ tf) ∨ isExited ph = true

theorem before_noPut (cfg : Cfg α β) (j0 tf : Nat) (c : Child β) (htf : tf < (cfg.chunk (j0+1)).length)
    (hb : Before tf c.phase) (c' : Child β) (items : List (Nat × List β)) (htr : ChildTr cfg j0 c c' items) :
    items = [] := by
  cases htr with
  | put t hph hx hf _ =>
    exfalso
    have hk : (cfg.chunk (j0+1)).length ≤ t := by simpa using hx
    rcases hb with ⟨t', ht', hle⟩ | he
    · rw [hph] at ht'; cases ht'; omega
    · simp [hph, isExited] at he
  | _ => rfl

theorem before_child (cfg : Cfg α β) (j0 tf : Nat) (hft : IsTaskFault (cfg.fault j0) tf)
    (htf : tf < (cfg.chunk (j0+1)).length) (s : State (MPhase β) β) (j : Nat)
    (hb : Before tf (s.ws j0).phase) : Before tf ((childStep cfg s j).ws j0).phase := by
  rcases childStep_spec cfg s j with ⟨_, he⟩ | ⟨hj, c', items, htr, _, he, _⟩
  · rw [he]; exact hb
  rw [he]
  simp only [setChild_ws]
  split
  swap
  · exact hb
  rename_i hjj; subst hjj
  cases htr with
  | task t x hph hx hf =>
    rcases hb with ⟨t', ht', hle⟩ | he
    · rw [hph] at ht'; cases ht'
      have := taskFault_ne _ tf t hft hf
      exact Or.inl ⟨t+1, rfl, by omega⟩
    · simp [hph, isExited] at he
  | taskFault t x code hph hx hf => exact Or.inr rfl
  | put t hph hx hf _ =>
    exfalso
    have hk : (cfg.chunk (j0+1)).length ≤ t := by simpa using hx
    rcases hb with ⟨t', ht', hle⟩ | he
    · rw [hph] at ht'; cases ht'; omega
    · simp [hph, isExited] at he
  | putLost t code hph hx hf => exact Or.inr rfl
  | putPartial t code hph hx hf _ => exact Or.inr rfl
  | sentinel hph hf =>
    exfalso
    rcases hb with ⟨t', ht', _⟩ | he
    · rw [hph] at ht'; cases ht'
    · simp [hph, isExited] at he
  | sentinelFault code hph hf => exact Or.inr rfl
  | exit hph => exact Or.inr rfl

/-- the master changes the phase of a child only by terminating it (`stop_processes`) -/
theorem master_phase (cfg : Cfg α β) (s : State (MPhase β) β) (j : Nat) :
    ((masterStep cfg s).ws j).phase = (s.ws j).phase ∨
    (isExited (s.ws j).phase = false ∧ ((masterStep cfg s).ws j).phase = .exited 143) := by
  rcases masterStep_spec cfg s with ⟨he, _⟩ | htr
  · rw [he]; exact Or.inl rfl
  generalize masterStep cfg s = s' at htr ⊢
  cases htr <;> first
    | exact Or.inl rfl
    | exact terminateAll_phase s.ws j
    | (left; simp only [setChild_ws]; split <;> [(subst_vars; rfl); rfl])

/-! the fault "exit between `rqueue.put` and the log sentinel", result delivered -/

/-- the sentinel of child `j0` never arrives, so the master cannot get past draining its log queue -/
structure NoSentinel (j0 : Nat) (s : State (MPhase β) β) : Prop where
  lq : LogItem.sentinel ∉ (s.ws j0).lq
  m : ((s.ws j0).got = none ∧ s.m ≠ .join ∧ ∀ r, s.m ≠ .done r) ∨ s.m = .drain j0 ∨ s.m = .error

theorem noSentinel_child (cfg : Cfg α β) (j0 : Nat) (c : Nat) (hft : cfg.fault j0 = some (.exitQueued c true))
    (s : State (MPhase β) β) (j : Nat) (h : NoSentinel j0 s) : NoSentinel j0 (childStep cfg s j) := by
  rcases childStep_spec cfg s j with ⟨_, he⟩ | ⟨hj, c', items, htr, _, he, _⟩
  · rw [he]; exact h
  rw [he]
  constructor
  · simp only [setChild_ws]; split
    swap
    · exact h.lq
    subst_vars
    have := h.lq
    cases htr with
    | task t x hph hx hf => simp only; split <;> simp [this]
    | sentinel hph hf => simp [hft, queuedFault] at hf
    | _ => exact this
  · have hg : ((setChild s j c').ws j0).got = (s.ws j0).got := by
      simp only [setChild_ws]; split
      · subst_vars; exact childTr_got cfg _ _ _ _ htr
      · rfl
    show (((setChild s j c').ws j0).got = none ∧ s.m ≠ .join ∧ ∀ r, s.m ≠ .done r) ∨ s.m = .drain j0 ∨ s.m = .error
    rw [hg]; exact h.m

theorem noSentinel_master (cfg : Cfg α β) (j0 : Nat) (hj0 : j0 < cfg.nchild) (s : State (MPhase β) β)
    (h : NoSentinel j0 s) : NoSentinel j0 (masterStep cfg s) := by
  rcases masterStep_spec cfg s with ⟨he, _⟩ | htr
  · rw [he]; exact h
  generalize masterStep cfg s = s' at htr ⊢
  have hlq := h.lq
  have hstop : NoSentinel j0 (raiseStop s) := ⟨by simpa using hlq, Or.inr (Or.inr rfl)⟩
  cases htr with
  | ownTask t x hm hx _ =>
    refine ⟨hlq, ?_⟩
    rcases h.m with ⟨hg, _, _⟩ | hd | hd
    · exact Or.inl ⟨hg, by simp, by simp⟩
    · simp [hm] at hd
    · simp [hm] at hd
  | ownRaise t x hm hx _ => exact hstop
  | ownEnd t hm hx =>
    refine ⟨hlq, ?_⟩
    rcases h.m with ⟨hg, _, _⟩ | hd | hd
    · exact Or.inl ⟨hg, by simp, by simp⟩
    · simp [hm] at hd
    · simp [hm] at hd
  | pop j r rest hm hf hrq _ =>
    constructor
    · simp only [setChild_ws]; split
      · subst_vars; exact hlq
      · exact hlq
    · by_cases hjj : j = j0
      · subst hjj; exact Or.inr (Or.inl rfl)
      · rcases h.m with ⟨hg, _, _⟩ | hd | hd
        · left; refine ⟨?_, by simp, by simp⟩
          simp only [setChild_ws]; rw [if_neg (fun h => hjj h.symm)]; exact hg
        · simp [hm] at hd
        · simp [hm] at hd
  | blocked hm _ _ =>
    refine ⟨hlq, ?_⟩
    rcases h.m with ⟨hg, _, _⟩ | hd | hd
    · exact Or.inl ⟨hg, by simp, by simp⟩
    · simp [hm] at hd
    · simp [hm] at hd
  | missing hm _ _ _ => exact hstop
  | resnap hm _ _ _ _ => exact ⟨hlq, h.m⟩
  | toJoin hm hf =>
    exfalso
    rcases h.m with ⟨hg, _, _⟩ | hd | hd
    · exact hf (filled_lt_of_none _ _ j0 hj0 hg)
    · simp [hm] at hd
    · simp [hm] at hd
  | sentinel j rest hm hj hlq' =>
    rcases h.m with ⟨hg, _, _⟩ | hd | hd
    · constructor
      · simp only [setChild_ws]; split
        · subst_vars; intro hc; exact hlq (by simp [hlq', hc])
        · exact hlq
      · left; refine ⟨?_, by simp, by simp⟩
        simp only [setChild_ws]; split
        · subst_vars; exact hg
        · exact hg
    · rw [hm] at hd; cases hd
      exact absurd (by simp [hlq']) hlq
    · simp [hm] at hd
  | record j rest hm hj hlq' =>
    constructor
    · simp only [setChild_ws]; split
      · subst_vars; intro hc; exact hlq (by simp [hlq', hc])
      · exact hlq
    · have hg : ((setChild s j { s.ws j with lq := rest }).ws j0).got = (s.ws j0).got := by
        simp only [setChild_ws]; split
        · subst_vars; rfl
        · rfl
      show (((setChild s j { s.ws j with lq := rest }).ws j0).got = none ∧ s.m ≠ .join ∧ ∀ r, s.m ≠ .done r) ∨
        s.m = .drain j0 ∨ s.m = .error
      rw [hg]; exact h.m
  | logsLost j hm _ _ _ => exact hstop
  | drainSnap j hm _ _ _ _ => exact ⟨hlq, h.m⟩
  | badPid j hm _ => exact ⟨hlq, Or.inr (Or.inr rfl)⟩
  | done r hm _ _ _ =>
    exfalso
    rcases h.m with ⟨_, hnj, _⟩ | hd | hd
    · exact hnj hm
    · simp [hm] at hd
    · simp [hm] at hd
  | keyError hm _ _ _ => exact ⟨hlq, Or.inr (Or.inr rfl)⟩
  | badExit hm _ _ => exact ⟨hlq, Or.inr (Or.inr rfl)⟩

/-- a fault that actually happens: the child has a task fault at one of its tasks, or it dies after
its result was queued -/
def Effective (cfg : Cfg α β) (j : Nat) : Prop :=
  j < cfg.nchild ∧
  ((∃ tf, IsTaskFault (cfg.fault j) tf ∧ tf < (cfg.chunk (j+1)).length) ∨
   (∃ c b, cfg.fault j = some (.exitQueued c b)) ∨
   ∃ c, c ≠ 0 ∧ cfg.fault j = some (.exitAfterSentinel c))

/-- the function raises in the master process at one of the master's tasks -/
def MasterFault (cfg : Cfg α β) : Prop := ∃ t, cfg.mfault = some t ∧ t < (cfg.chunk 0).length

theorem before_master (cfg : Cfg α β) (s : State (MPhase β) β) (j tf : Nat) (hb : Before tf (s.ws j).phase) :
    Before tf ((masterStep cfg s).ws j).phase := by
  rcases master_phase cfg s j with h | ⟨_, h⟩
  · rw [h]; exact hb
  · rw [h]; exact Or.inr rfl

/-! a child that dies with a non-zero exit code after the sentinel never has exit code 0 -/

theorem notZero_child (cfg : Cfg α β) (j0 c : Nat) (hc : c ≠ 0) (hft : cfg.fault j0 = some (.exitAfterSentinel c))
    (s : State (MPhase β) β) (j : Nat) (h : (s.ws j0).phase ≠ .exited 0) :
    ((childStep cfg s j).ws j0).phase ≠ .exited 0 := by
  rcases childStep_spec cfg s j with ⟨_, he⟩ | ⟨hj, c', items, htr, _, he, _⟩
  · rw [he]; exact h
  rw [he]
  simp only [setChild_ws]
  split
  swap
  · exact h
  rename_i hjj; subst hjj
  cases htr <;> simp_all [exitCode, taskFault, queuedFault, partialFault]

theorem notZero_master (cfg : Cfg α β) (j0 : Nat) (s : State (MPhase β) β) (h : (s.ws j0).phase ≠ .exited 0) :
    ((masterStep cfg s).ws j0).phase ≠ .exited 0 := by
  rcases master_phase cfg s j0 with h' | ⟨_, h'⟩
  · rw [h']; exact h
  · rw [h']; simp

theorem notZero_notDone (cfg : Cfg α β) (j0 : Nat) (hj0 : j0 < cfg.nchild) (s : State (MPhase β) β)
    (h : (s.ws j0).phase ≠ .exited 0) (hm : ∀ r, s.m ≠ .done r) : ∀ r, (masterStep cfg s).m ≠ .done r := by
  rcases masterStep_spec cfg s with ⟨he, _⟩ | htr
  · rw [he]; exact hm
  generalize masterStep cfg s = s' at htr ⊢
  cases htr with
  | done r hm' hall hz hc =>
    exfalso
    have := (allTo_iff _ _).mp hz j0 hj0
    simp at this; exact h this
  | record j rest hm' hj hlq => exact hm
  | resnap hm' _ _ _ _ => exact hm
  | drainSnap j hm' _ _ _ _ => exact hm
  | _ => simp

/-! the function raises in the master: the master never leaves its own chunk except with the error -/

def MBefore (t : Nat) (m : MPhase β) : Prop := (∃ t', m = .own t' ∧ t' ≤ t) ∨ m = .error

theorem mbefore_master (cfg : Cfg α β) (t : Nat) (hmf : cfg.mfault = some t) (ht : t < (cfg.chunk 0).length)
    (s : State (MPhase β) β) (h : MBefore t s.m) : MBefore t (masterStep cfg s).m := by
  rcases masterStep_spec cfg s with ⟨he, _⟩ | htr
  · rw [he]; exact h
  generalize masterStep cfg s = s' at htr ⊢
  rcases h with ⟨t', hm, hle⟩ | hm
  · cases htr with
    | ownTask t'' x hm' hx hne =>
      rw [hm] at hm'; cases hm'
      have : t' ≠ t := by rintro rfl; exact hne hmf
      exact Or.inl ⟨t'+1, rfl, by omega⟩
    | ownRaise t'' x hm' hx _ => exact Or.inr rfl
    | ownEnd t'' hm' hx =>
      rw [hm] at hm'; cases hm'
      have : (cfg.chunk 0).length ≤ t' := by simpa using hx
      omega
    | _ => simp_all
  · cases htr <;> simp_all

theorem mbefore_child (cfg : Cfg α β) (s : State (MPhase β) β) (j : Nat) : (childStep cfg s j).m = s.m := by
  rcases childStep_spec cfg s j with ⟨_, he⟩ | ⟨_, c', items, _, _, he, _⟩
  · rw [he]
  · rw [he]; rfl

/-- with an effective fault no schedule leads to a returned result -/
theorem never_done (cfg : Cfg α β) (j0 : Nat) (heff : Effective cfg j0) (σ : Nat → Agent) (k : Nat) :
    ∀ r, (run cfg σ k).m ≠ .done r := by
  obtain ⟨hj0, hkind⟩ := heff
  rcases hkind with ⟨tf, hft, htf⟩ | ⟨c, b, hft⟩ | ⟨c, hc0, hft⟩
  · -- task fault
    have : NoResult j0 (run cfg σ k) ∧ Before tf ((run cfg σ k).ws j0).phase := by
      induction k with
      | zero => exact ⟨⟨rfl, by simp [run, init], by simp [run, init], by simp [run, init]⟩,
                        Or.inl ⟨0, rfl, Nat.zero_le _⟩⟩
      | succ k ih =>
        simp only [run, step]
        cases σ k with
        | master =>
          exact ⟨noResult_master cfg j0 hj0 _ ih.1, before_master cfg _ j0 tf ih.2⟩
        | child j =>
          exact ⟨noResult_child cfg j0 _ j ih.1 (before_noPut cfg j0 tf _ htf ih.2),
                 before_child cfg j0 tf hft htf _ j ih.2⟩
    exact this.1.notDone
  · cases b with
    | false =>
      have : NoResult j0 (run cfg σ k) := by
        induction k with
        | zero => exact ⟨rfl, by simp [run, init], by simp [run, init], by simp [run, init]⟩
        | succ k ih =>
          simp only [run, step]
          cases σ k with
          | master => exact noResult_master cfg j0 hj0 _ ih
          | child j =>
            refine noResult_child cfg j0 _ j ih ?_
            intro c' items htr
            cases htr with
            | put t hph hx hf => simp [hft, queuedFault] at hf
            | _ => rfl
      exact this.notDone
    | true =>
      have : NoSentinel j0 (run cfg σ k) := by
        induction k with
        | zero => exact ⟨by simp [run, init, initChild], Or.inl ⟨rfl, by simp [run, init], by simp [run, init]⟩⟩
        | succ k ih =>
          simp only [run, step]
          cases σ k with
          | master => exact noSentinel_master cfg j0 hj0 _ ih
          | child j => exact noSentinel_child cfg j0 c hft _ j ih
      intro r hr
      rcases this.m with ⟨_, _, hnd⟩ | hd | hd
      · exact hnd r hr
      · rw [hr] at hd; cases hd
      · rw [hr] at hd; cases hd
  · -- death after the sentinel with a non-zero exit code
    have : ((run cfg σ k).ws j0).phase ≠ .exited 0 ∧ ∀ r, (run cfg σ k).m ≠ .done r := by
      induction k with
      | zero => exact ⟨by simp [run, init, initChild], by simp [run, init]⟩
      | succ k ih =>
        simp only [run, step]
        cases σ k with
        | master => exact ⟨notZero_master cfg j0 _ ih.1, notZero_notDone cfg j0 hj0 _ ih.1 ih.2⟩
        | child j => exact ⟨notZero_child cfg j0 c hc0 hft _ j ih.1, by rw [mbefore_child]; exact ih.2⟩
    exact this.2

/-- if the function raises in the master no schedule leads to a returned result -/
theorem never_done_master (cfg : Cfg α β) (hmf : MasterFault cfg) (σ : Nat → Agent) (k : Nat) :
    ∀ r, (run cfg σ k).m ≠ .done r := by
  obtain ⟨t, hmf, ht⟩ := hmf
  have : MBefore t (run cfg σ k).m := by
    induction k with
    | zero => exact Or.inl ⟨0, rfl, Nat.zero_le _⟩
    | succ k ih =>
      simp only [run, step]
      cases σ k with
      | master => exact mbefore_master cfg t hmf ht _ ih
      | child j => rw [mbefore_child]; exact ih
  intro r hr
  rcases this with ⟨t', hm, _⟩ | hm <;> rw [hr] at hm <;> cases hm

/-! ### schedules `sched pre n` are fair -/

theorem sched_fair (pre : List Agent) (n : Nat) : Fair n (sched pre n) := by
  intro a hv k
  -- the agent's number
  obtain ⟨i, hi, ha⟩ : ∃ i, i < n + 1 ∧ agentOf i = a := by
    cases a with
    | master => exact ⟨0, by omega, rfl⟩
    | child j => exact ⟨j+1, by simp [ValidAgent] at hv; omega, by simp [agentOf]⟩
  refine ⟨(k + pre.length + 1) * (n + 1) + i, ?_, ?_⟩
  · have : k ≤ (k + pre.length + 1) * (n + 1) := by nlinarith
    omega
  · have hlen : pre.length ≤ (k + pre.length + 1) * (n + 1) + i := by nlinarith
    simp only [sched, List.getElem?_eq_none hlen]
    rw [Nat.mul_add_mod_of_lt hi, ha]

namespace Orig

/-- the master polls for `processes[i]`, which exited with code 0, the result queue is empty and every
child has exited: nobody can move any more -/
def SpinStuck (cfg : Cfg α β) (s : State (MPhase β) β) : Prop :=
  ∃ i, s.m = .poll i ∧ i < cfg.nchild ∧ s.rq = [] ∧ (s.ws i).phase = .exited 0 ∧
    ∀ j < cfg.nchild, isExited (s.ws j).phase = true

/-- the master blocks in `lqueue_list[j].get()`, the queue is empty and child `j` has exited -/
def BlockStuck (_cfg : Cfg α β) (s : State (MPhase β) β) : Prop :=
  ∃ i j, s.m = .drain i j ∧ (s.ws j).lq = [] ∧ isExited (s.ws j).phase = true

theorem childStep_exited (cfg : Cfg α β) {M : Type} (s : State M β) (j : Nat)
    (h : isExited (s.ws j).phase = true) : childStep cfg s j = s := by
  cases hph : (s.ws j).phase with
  | exited c => by_cases hj : j < cfg.nchild <;> simp [childStep, hj, hph]
  | _ => simp [hph, isExited] at h

theorem spin_absorbing (cfg : Cfg α β) (s : State (MPhase β) β) (h : SpinStuck cfg s) (a : Agent) :
    step cfg s a = s := by
  obtain ⟨i, hm, hi, hrq, hph, hall⟩ := h
  cases a with
  | master => simp [step, masterStep, hm, hi, hrq, hph]
  | child j =>
    by_cases hj : j < cfg.nchild
    · exact childStep_exited cfg s j (hall j hj)
    · simp [step, childStep, hj]

theorem block_persists (cfg : Cfg α β) (s : State (MPhase β) β) (h : BlockStuck cfg s) (a : Agent) :
    BlockStuck cfg (step cfg s a) := by
  obtain ⟨i, j, hm, hlq, he⟩ := h
  cases a with
  | master =>
    have : masterStep cfg s = s := by simp [masterStep, hm, hlq]
    simp only [step, this]; exact ⟨i, j, hm, hlq, he⟩
  | child j' =>
    by_cases hjj : j' = j
    · subst hjj
      simp only [step, childStep_exited cfg s j' he]; exact ⟨i, j', hm, hlq, he⟩
    · rcases childStep_spec cfg s j' with ⟨_, heq⟩ | ⟨_, c', items, _, _, heq, _⟩
      · simp only [step, heq]; exact ⟨i, j, hm, hlq, he⟩
      · simp only [step, heq]
        have hne : ¬ j = j' := fun h => hjj h.symm
        refine ⟨i, j, hm, ?_, ?_⟩ <;> simp [setChild, if_neg hne, hlq, he]

theorem spin_forever (cfg : Cfg α β) (σ : Nat → Agent) (k0 : Nat) (h : SpinStuck cfg (run cfg σ k0)) :
    ∀ d, run cfg σ (k0 + d) = run cfg σ k0 := by
  intro d
  induction d with
  | zero => rfl
  | succ d ih => rw [← Nat.add_assoc]; simp only [run]; rw [ih]; exact spin_absorbing cfg _ h _

theorem block_forever (cfg : Cfg α β) (σ : Nat → Agent) (k0 : Nat) (h : BlockStuck cfg (run cfg σ k0)) :
    ∀ d, BlockStuck cfg (run cfg σ (k0 + d)) := by
  intro d
  induction d with
  | zero => exact h
  | succ d ih => rw [← Nat.add_assoc]; simp only [run]; exact block_persists cfg _ ih _

theorem never_ends_of_stuck (cfg : Cfg α β) (σ : Nat → Agent) (k0 : Nat)
    (hbefore : ∀ k < k0, (run cfg σ k).m.terminal = false)
    (h : SpinStuck cfg (run cfg σ k0) ∨ BlockStuck cfg (run cfg σ k0)) :
    ∀ k, (run cfg σ k).m.terminal = false := by
  intro k
  by_cases hk : k < k0
  · exact hbefore k hk
  · obtain ⟨d, rfl⟩ : ∃ d, k = k0 + d := ⟨k - k0, by omega⟩
    rcases h with h | h
    · rw [spin_forever cfg σ k0 h d]
      obtain ⟨i, hm, _⟩ := h
      simp [hm, MPhase.terminal]
    · obtain ⟨i, j, hm, _⟩ := block_forever cfg σ k0 h d
      simp [hm, MPhase.terminal]

end Orig

/-! ### the three hang witnesses on the gather loop of the pinned commit -/

/-- (i) 2 processes, 4 tasks, the child leaves with exit code 0 at its first task -/
def cfgExit0 : Cfg Nat Nat :=
  mkCfg (fun _ _ x => x) [0, 1, 2, 3] 2 (fun j => if j = 0 then some (.exitAt 0 0) else none) false

/-- (ii) 2 processes, 4 tasks, the child dies (exit code 3) after its result reached the queue -/
def cfgAfterQueued : Cfg Nat Nat :=
  mkCfg (fun _ _ x => x) [0, 1, 2, 3] 2 (fun j => if j = 0 then some (.exitQueued 3 true) else none) false

/-- (iii) 3 processes, 6 tasks, the first child raises at its second task … -/
def cfgRaise : Cfg Nat Nat :=
  mkCfg (fun _ _ x => x) [0, 1, 2, 3, 4, 5] 3 (fun j => if j = 0 then some (.raiseAt 1) else none) false

/-- … after the second child has finished and the master has consumed that child's result in the
iteration of the first one -/
def preRaise : List Agent :=
  [.child 1, .child 1, .child 1, .child 1, .child 1,
   .master, .master, .master, .master, .master, .child 0, .child 0]

theorem exit0_stuck : Orig.SpinStuck cfgExit0 (Orig.run cfgExit0 (sched [] 1) 10) :=
  ⟨0, by decide, by decide, by decide, by decide, by decide⟩

theorem afterQueued_stuck : Orig.BlockStuck cfgAfterQueued (Orig.run cfgAfterQueued (sched [] 1) 12) :=
  ⟨0, 0, by decide, by decide, by decide⟩

theorem raise_stuck : Orig.SpinStuck cfgRaise (Orig.run cfgRaise (sched preRaise 2) 12) :=
  ⟨1, by decide, by decide, by decide, by decide, by decide⟩

/-! ### a child that dies in the middle of the pipe write: the master blocks in the receive -/

theorem recv_persists (cfg : Cfg α β) (s : State (MPhase β) β) (h : s.m = .recv) (a : Agent) :
    (step cfg s a).m = .recv := by
  cases a with
  | master => simp [step, masterStep, h]
  | child j =>
    rcases childStep_spec cfg s j with ⟨_, he⟩ | ⟨_, c', items, _, p', he, _⟩
    · simp only [step, he]; exact h
    · simp only [step, he]; exact h

theorem recv_forever (cfg : Cfg α β) (σ : Nat → Agent) (k0 : Nat) (h : (run cfg σ k0).m = .recv) :
    ∀ d, (run cfg σ (k0 + d)).m = .recv := by
  intro d
  induction d with
  | zero => exact h
  | succ d ih => rw [← Nat.add_assoc]; simp only [run]; exact recv_persists cfg _ ih _

/-- 2 processes, 4 tasks, the child dies (exit code 3) while its result is being written -/
def cfgPartial : Cfg Nat Nat :=
  mkCfg (fun _ _ x => x) [0, 1, 2, 3] 2 (fun j => if j = 0 then some (.exitQueuedPartial 3) else none) false

theorem partial_recv : (run cfgPartial (sched [] 1) 10).m = .recv := by decide

/-! ### `stop_processes`: when `parallelize` raises, no child is left behind -/

theorem orphans_master (cfg : Cfg α β) (s : State (MPhase β) β) (hs : Safe cfg s)
    (h : s.m = .error → ∀ j < cfg.nchild, isExited (s.ws j).phase = true) :
    (masterStep cfg s).m = .error → ∀ j < cfg.nchild, isExited ((masterStep cfg s).ws j).phase = true := by
  rcases masterStep_spec cfg s with ⟨he, _⟩ | htr
  · rw [he]; exact h
  generalize masterStep cfg s = s' at htr ⊢
  cases htr with
  | ownRaise t x hm hx _ => intro _ j _; simp
  | missing hm _ _ _ => intro _ j _; simp
  | logsLost j hm _ _ _ => intro _ i _; simp
  | badPid j hm hj => exact absurd (hs.drainlt j hm) hj
  | keyError hm hall hz hc' =>
    exfalso
    have hfl : filled cfg.nchild s.ws = cfg.nchild := le_antisymm (countTo_le _ _) (hs.join hm)
    have hall' := countTo_all _ _ (le_of_eq hfl.symm)
    obtain ⟨r, hr⟩ := collect_isSome cfg.nchild s.ws hall'
    rw [hfl, hr] at hc'; simp at hc'
  | badExit hm hall hz => intro _; exact hall
  | record j rest hm hj hlq => intro he; simp [hm] at he
  | resnap hm _ _ _ _ => intro he; simp [hm] at he
  | drainSnap j hm _ _ _ _ => intro he; simp [hm] at he
  | _ => intro he; simp at he

theorem orphans_child (cfg : Cfg α β) (s : State (MPhase β) β) (j : Nat)
    (h : s.m = .error → ∀ j < cfg.nchild, isExited (s.ws j).phase = true) :
    (childStep cfg s j).m = .error → ∀ i < cfg.nchild, isExited ((childStep cfg s j).ws i).phase = true := by
  rcases childStep_spec cfg s j with ⟨_, he⟩ | ⟨hj, c', items, htr, _, he, _⟩
  · rw [he]; exact h
  · rw [he]; intro hm
    have := h hm j hj
    simp [childTr_not_exited cfg _ _ _ _ htr] at this

/-- **no orphans**: in every state in which `parallelize` has raised, every child has terminated;
the accidental exits (`KeyError` in the concatenation, a pid out of range) are unreachable -/
theorem error_no_orphans (cfg : Cfg α β) (σ : Nat → Agent) (k : Nat) :
    (run cfg σ k).m = .error → ∀ j < cfg.nchild, isExited ((run cfg σ k).ws j).phase = true := by
  induction k with
  | zero => intro h; simp [run, init] at h
  | succ k ih =>
    simp only [run, step]
    cases σ k with
    | master => exact orphans_master cfg _ (safe_run cfg σ k) ih
    | child j => exact orphans_child cfg _ j ih

/-! ### the exit codes looked at *after* `queue.Empty`: a fault-free run can end with an error -/

/-- 2 processes, 2 tasks, no fault -/
def cfgNoFault : Cfg Nat Nat := mkCfg (fun _ _ x => x) [0, 1] 2 (fun _ => none) false

/-- the master finds the queue empty, then the child delivers everything and exits, then the master
looks at the exit codes -/
def preSwapped : List Agent :=
  [.master, .master, .master, .child 0, .child 0, .child 0, .child 0, .master]

theorem swapped_error : (Swapped.run cfgNoFault (sched preSwapped 1) 8).m = .error := by decide

/-! ### bounded time under the round-robin scheduler -/

theorem pot_mono_step (cfg : Cfg α β) (σ : Nat → Agent) (k : Nat) :
    pot cfg (run cfg σ (k+1)) ≤ pot cfg (run cfg σ k) := by
  rcases step_eq_or_dec cfg (run cfg σ k) (σ k) with he | hd
  · simp [run, he]
  · have : pot cfg (run cfg σ (k+1)) < pot cfg (run cfg σ k) := by simpa [run] using hd
    omega

theorem pot_mono (cfg : Cfg α β) (σ : Nat → Agent) (k d : Nat) :
    pot cfg (run cfg σ (k+d)) ≤ pot cfg (run cfg σ k) := by
  induction d with
  | zero => simp
  | succ d ih => have := pot_mono_step cfg σ (k+d); rw [← Nat.add_assoc]; omega

theorem same_or_lower (cfg : Cfg α β) (σ : Nat → Agent) (k i : Nat) :
    run cfg σ (k+i) = run cfg σ k ∨ pot cfg (run cfg σ (k+i)) < pot cfg (run cfg σ k) := by
  induction i with
  | zero => exact Or.inl rfl
  | succ i ih =>
    rw [← Nat.add_assoc]
    rcases ih with he | hl
    · rcases step_eq_or_dec cfg (run cfg σ (k+i)) (σ (k+i)) with he' | hd
      · left; simp only [run]; rw [he'] ; exact he
      · right; have : pot cfg (run cfg σ (k+i+1)) < pot cfg (run cfg σ (k+i)) := by simpa [run] using hd
        rw [he] at this; exact this
    · right; have := pot_mono_step cfg σ (k+i); omega

theorem sched_rr (n r i : Nat) (hi : i < n + 1) : sched [] n (r * (n+1) + i) = agentOf i := by
  simp [sched, Nat.mul_add_mod_of_lt hi]

theorem valid_agentOf (n : Nat) (a : Agent) (h : ValidAgent n a) : ∃ i, i < n + 1 ∧ agentOf i = a := by
  cases a with
  | master => exact ⟨0, by omega, rfl⟩
  | child j => exact ⟨j+1, by simp [ValidAgent] at h; omega, by simp [agentOf]⟩

/-- one round of round-robin from a state in which `parallelize` has not ended lowers the ranking function -/
theorem round_lowers (cfg : Cfg α β) (hnp : NoPartial cfg) (r : Nat)
    (hnt : (run cfg (sched [] cfg.nchild) (r * (cfg.nchild+1))).m.terminal = false) :
    pot cfg (run cfg (sched [] cfg.nchild) ((r+1) * (cfg.nchild+1))) <
      pot cfg (run cfg (sched [] cfg.nchild) (r * (cfg.nchild+1))) := by
  set σ := sched [] cfg.nchild with hσ
  set k := r * (cfg.nchild+1) with hk
  obtain ⟨a, hv, hp⟩ := exists_productive cfg (run cfg σ k) hnt (noPoison_run cfg hnp σ k).2
  obtain ⟨i, hi, ha⟩ := valid_agentOf cfg.nchild a hv
  have hstep : pot cfg (run cfg σ (k+i+1)) < pot cfg (run cfg σ k) := by
    rcases same_or_lower cfg σ k i with he | hl
    · have hs : σ (k+i) = a := by rw [hσ, hk, sched_rr _ _ _ hi, ha]
      simp only [run]; rw [he, hs]; exact hp
    · have := pot_mono_step cfg σ (k+i); omega
  have : (r+1) * (cfg.nchild+1) = (k+i+1) + (cfg.nchild - i) := by rw [hk]; ring_nf; omega
  rw [this]
  have := pot_mono cfg σ (k+i+1) (cfg.nchild - i)
  omega

/-- **bounded time under round-robin**: `parallelize` has ended after at most `pot init + 1` rounds -/
theorem round_robin_bound (cfg : Cfg α β) (hnp : NoPartial cfg) :
    ∃ k, k ≤ (pot cfg (init : State (MPhase β) β) + 1) * (cfg.nchild + 1) ∧
      (run cfg (sched [] cfg.nchild) k).m.terminal = true := by
  generalize hσ : sched [] cfg.nchild = σ
  have key : ∀ r, (∃ r', r' ≤ r ∧ (run cfg σ (r' * (cfg.nchild+1))).m.terminal = true) ∨
      pot cfg (run cfg σ (r * (cfg.nchild+1))) + r ≤ pot cfg (init : State (MPhase β) β) := by
    intro r
    induction r with
    | zero => right; simp [run]
    | succ r ih =>
      rcases ih with ⟨r', hr', ht⟩ | hle
      · exact Or.inl ⟨r', by omega, ht⟩
      · by_cases ht : (run cfg σ (r * (cfg.nchild+1))).m.terminal = true
        · exact Or.inl ⟨r, by omega, ht⟩
        · right
          have := round_lowers cfg hnp r (by rw [hσ]; simpa using ht)
          rw [hσ] at this
          omega
  rcases key (pot cfg (init : State (MPhase β) β) + 1) with ⟨r', hr', ht⟩ | hle
  · exact ⟨r' * (cfg.nchild+1), Nat.mul_le_mul_right _ hr', ht⟩
  · omega

end Par
