/-
  Helper lemmas for Props/C14: accumulator-generalised forms of `upto` and `drawOn`.
-/
import SkyllhModel.Model.Livetime
import Mathlib.Algebra.Order.Field.Basic
import Mathlib.Tactic

set_option linter.unusedSectionVars false

open Livetime

namespace C14

variable {F : Type} [Field F] [LinearOrder F] [IsStrictOrderedRing F]

/-- exact on-time before `t`: Σ (min b t − min a t) -/
def uptoSpec (ivs : List (F × F)) (t : F) : F :=
  (ivs.map (fun p => min p.2 t - min p.1 t)).sum

/-- the cumulative list with an arbitrary start value -/
def cumFrom (c0 : F) (ivs : List (F × F)) : List F := c0 :: cumOntime.go c0 ivs

theorem cumOntime_eq (ivs : List (F × F)) : cumOntime ivs = cumFrom 0 ivs := rfl

theorem cumFrom_cons (c0 : F) (p : F × F) (rest : List (F × F)) :
    cumFrom c0 (p :: rest) = c0 :: cumFrom (c0 + (p.2 - p.1)) rest := by
  simp [cumFrom, cumOntime.go]

/-- `upto` with explicit start value of the cumulative sum -/
def uptoFrom (c0 : F) (ivs : List (F × F)) (t : F) : Option F :=
  let edges := flat ivs
  let cum := cumFrom c0 ivs
  let idx := digitize edges t
  if idx % 2 == 1 then
    match cum[(idx - 1) / 2]?, edges[idx - 1]? with
    | some c, some lo => some (c + t - lo)
    | _, _ => none
  else cum[idx / 2]?

theorem upto_eq_uptoFrom (ivs : List (F × F)) (t : F) : upto ivs t = uptoFrom 0 ivs t := rfl

theorem uptoSpec_zero_of_lt (ivs : List (F × F)) (t : F) (h : ∀ e ∈ flat ivs, t < e) :
    uptoSpec ivs t = 0 := by
  induction ivs with
  | nil => simp [uptoSpec]
  | cons p rest ih =>
    have h1 : t < p.1 := h p.1 (by simp [flat])
    have h2 : t < p.2 := h p.2 (by simp [flat])
    have hr : ∀ e ∈ flat rest, t < e := fun e he => h e (by
      simp only [flat, List.flatMap_cons, List.mem_append] at he ⊢; exact Or.inr he)
    have := ih hr
    unfold uptoSpec at this ⊢
    simp only [List.map_cons, List.sum_cons, this, add_zero]
    rw [min_eq_right (le_of_lt h1), min_eq_right (le_of_lt h2)]; ring

theorem digitize_cons_cons (a b : F) (es : List F) (t : F) :
    digitize (a :: b :: es) t = (if a ≤ t then 1 else 0) + ((if b ≤ t then 1 else 0) + digitize es t) := by
  simp only [digitize, List.countP_cons, decide_eq_true_eq]
  omega

theorem digitize_zero_of_lt (edges : List F) (t : F) (h : ∀ e ∈ edges, t < e) :
    digitize edges t = 0 := by
  unfold digitize
  rw [List.countP_eq_zero]
  intro e he
  simp [not_le.mpr (h e he)]

theorem flat_cons' (p : F × F) (rest : List (F × F)) : flat (p :: rest) = p.1 :: p.2 :: flat rest := by
  simp [flat]

/-- **cumulative live time**: for sorted intervals the index computation returns the exact
on-time before `t` (plus the start value of the accumulator). -/
theorem uptoFrom_eq (ivs : List (F × F)) (t : F) (hs : (flat ivs).Pairwise (· ≤ ·)) :
    ∀ c0 : F, uptoFrom c0 ivs t = some (c0 + uptoSpec ivs t) := by
  induction ivs with
  | nil => intro c0; simp [uptoFrom, flat, digitize, cumFrom, cumOntime.go, uptoSpec]
  | cons p rest ih =>
    intro c0
    obtain ⟨a, b⟩ := p
    rw [flat_cons'] at hs
    simp only [List.pairwise_cons] at hs
    obtain ⟨ha, hb, hrest⟩ := hs
    have hab : a ≤ b := ha b (by simp)
    have ih' := ih hrest
    by_cases h2 : b ≤ t
    · -- interval entirely before t
      have h1 : a ≤ t := le_trans hab h2
      have hidx : digitize (a :: b :: flat rest) t = digitize (flat rest) t + 2 := by
        rw [digitize_cons_cons]; simp [h1, h2]; omega
      have hspec : uptoSpec ((a, b) :: rest) t = (b - a) + uptoSpec rest t := by
        simp [uptoSpec, min_eq_left h1, min_eq_left h2]
      have key : uptoFrom c0 ((a, b) :: rest) t = uptoFrom (c0 + (b - a)) rest t := by
        unfold uptoFrom
        simp only [flat_cons', hidx, cumFrom_cons]
        set k := digitize (flat rest) t with hk
        by_cases hodd : k % 2 = 1
        · have e1 : (k + 2) % 2 = 1 := by omega
          have e2 : (k - 1 + 2) / 2 = (k - 1) / 2 + 1 := by omega
          have e3 : k + 2 - 1 = (k - 1) + 2 := by omega
          simp only [e1, hodd, e2, e3, List.getElem?_cons_succ, beq_self_eq_true, if_true]
        · have e1 : ¬ ((k + 2) % 2 = 1) := by omega
          have e2 : (k + 2) / 2 = k / 2 + 1 := by omega
          simp only [beq_iff_eq, e1, hodd, e2, List.getElem?_cons_succ, if_false]
      rw [key, ih', hspec]; congr 1; ring
    · have hz : digitize (flat rest) t = 0 :=
        digitize_zero_of_lt _ _ (fun e he => lt_of_lt_of_le (not_le.mp h2) (hb e he))
      have hrz : uptoSpec rest t = 0 :=
        uptoSpec_zero_of_lt _ _ (fun e he => lt_of_lt_of_le (not_le.mp h2) (hb e he))
      by_cases h1 : a ≤ t
      · -- a ≤ t < b
        have hidx : digitize (a :: b :: flat rest) t = 1 := by
          rw [digitize_cons_cons]; simp [h1, h2, hz]
        have hspec : uptoSpec ((a, b) :: rest) t = t - a := by
          have : uptoSpec ((a, b) :: rest) t = (min b t - min a t) + uptoSpec rest t := by simp [uptoSpec]
          rw [this, hrz, min_eq_right (le_of_lt (not_le.mp h2)), min_eq_left h1]; ring
        unfold uptoFrom
        simp only [flat_cons', hidx, cumFrom_cons]
        simp [hspec]; ring
      · have hta : t < a := not_le.mp h1
        have hidx : digitize (a :: b :: flat rest) t = 0 := by
          rw [digitize_cons_cons]; simp [h1, h2, hz]
        have hspec : uptoSpec ((a, b) :: rest) t = 0 := by
          have : uptoSpec ((a, b) :: rest) t = (min b t - min a t) + uptoSpec rest t := by simp [uptoSpec]
          rw [this, hrz, min_eq_right (le_of_lt (not_le.mp h2)), min_eq_right (le_of_lt hta)]; ring
        unfold uptoFrom
        simp only [flat_cons', hidx, cumFrom_cons]
        simp [hspec]

/-- `drawOn` after the multiplication `w = u·L`, with explicit start value of the cumulative sum -/
def drawFrom (c0 : F) (ivs : List (F × F)) (w : F) : Option F :=
  let cum := cumFrom c0 ivs
  let idx := digitize cum w
  match cum[idx - 1]?, ivs[idx - 1]? with
  | some c, some p => if idx == 0 then none else some (p.1 + (w - c))
  | _, _ => none

theorem drawOn_eq_drawFrom (ivs : List (F × F)) (u : F) :
    drawOn ivs u = drawFrom 0 ivs (u * (cumFrom 0 ivs).getLast?.getD 0) := rfl

/-- total of the cumulative list -/
def total (ivs : List (F × F)) : F := (ivs.map (fun p => p.2 - p.1)).sum

theorem total_nonneg (ivs : List (F × F)) (hw : ∀ p ∈ ivs, p.1 ≤ p.2) : 0 ≤ total ivs := by
  induction ivs with
  | nil => simp [total]
  | cons p rest ih =>
    have h1 : 0 ≤ p.2 - p.1 := sub_nonneg.mpr (hw p (by simp))
    have h2 := ih (fun q hq => hw q (List.mem_cons_of_mem _ hq))
    unfold total at h2 ⊢
    simp only [List.map_cons, List.sum_cons]
    linarith

theorem cumFrom_getLast (c0 : F) (ivs : List (F × F)) :
    (cumFrom c0 ivs).getLast?.getD 0 = c0 + total ivs := by
  induction ivs generalizing c0 with
  | nil => simp [cumFrom, cumOntime.go, total]
  | cons p rest ih =>
    rw [cumFrom_cons]
    have hne : cumFrom (c0 + (p.2 - p.1)) rest ≠ [] := by simp [cumFrom]
    rw [List.getLast?_cons_of_ne_nil hne] at *
    rw [ih]; simp [total]; ring

theorem cumFrom_ge (c0 : F) (ivs : List (F × F)) (hw : ∀ p ∈ ivs, p.1 ≤ p.2) :
    ∀ c ∈ cumFrom c0 ivs, c0 ≤ c := by
  induction ivs generalizing c0 with
  | nil => intro c hc; simp [cumFrom, cumOntime.go] at hc; rw [hc]
  | cons p rest ih =>
    intro c hc
    rw [cumFrom_cons] at hc
    rcases List.mem_cons.mp hc with rfl | hc
    · exact le_refl _
    · have h1 : 0 ≤ p.2 - p.1 := sub_nonneg.mpr (hw p (by simp))
      have := ih (c0 + (p.2 - p.1)) (fun q hq => hw q (List.mem_cons_of_mem _ hq)) c hc
      linarith

theorem digitize_cons (c : F) (l : List F) (w : F) :
    digitize (c :: l) w = digitize l w + (if c ≤ w then 1 else 0) := by
  simp only [digitize, List.countP_cons, decide_eq_true_eq]

/-- **inverse-CDF draw**: if `c0 ≤ w < c0 + total` the drawn time lies in one of the intervals
(half-open), for any intervals with `start ≤ stop` (zero-length intervals are never hit). -/
theorem drawFrom_mem (ivs : List (F × F)) (hw : ∀ p ∈ ivs, p.1 ≤ p.2) :
    ∀ (c0 w : F), c0 ≤ w → w < c0 + total ivs →
      ∃ x, drawFrom c0 ivs w = some x ∧ ∃ p ∈ ivs, p.1 ≤ x ∧ x < p.2 := by
  induction ivs with
  | nil => intro c0 w h1 h2; simp [total] at h2; exact absurd h1 (not_le.mpr h2)
  | cons p rest ih =>
    intro c0 w h1 h2
    obtain ⟨a, b⟩ := p
    have hwr : ∀ q ∈ rest, q.1 ≤ q.2 := fun q hq => hw q (List.mem_cons_of_mem _ hq)
    have htot : total ((a, b) :: rest) = (b - a) + total rest := by simp [total]
    have hcons : cumFrom c0 ((a, b) :: rest) = c0 :: cumFrom (c0 + (b - a)) rest := cumFrom_cons _ _ _
    by_cases hlt : w < c0 + (b - a)
    · -- falls into the first interval
      have hz : digitize (cumFrom (c0 + (b - a)) rest) w = 0 :=
        digitize_zero_of_lt _ _ (fun e he => lt_of_lt_of_le hlt (cumFrom_ge _ rest hwr e he))
      have hidx : digitize (c0 :: cumFrom (c0 + (b - a)) rest) w = 1 := by
        rw [digitize_cons, hz]; simp [h1]
      refine ⟨a + (w - c0), ?_, (a, b), by simp, ?_, ?_⟩
      · unfold drawFrom
        rw [hcons]
        simp only [hidx]
        simp
      · simp only; linarith
      · simp only; linarith
    · -- skip the first interval
      have hge : c0 + (b - a) ≤ w := not_lt.mp hlt
      have h2' : w < c0 + (b - a) + total rest := by rw [htot] at h2; linarith
      obtain ⟨x, hx, q, hq, hq1, hq2⟩ := ih hwr (c0 + (b - a)) w hge h2'
      refine ⟨x, ?_, q, List.mem_cons_of_mem _ hq, hq1, hq2⟩
      have hk : 1 ≤ digitize (cumFrom (c0 + (b - a)) rest) w := by
        unfold cumFrom
        rw [digitize_cons]; simp [hge]
      have hidx : digitize (c0 :: cumFrom (c0 + (b - a)) rest) w
          = digitize (cumFrom (c0 + (b - a)) rest) w + 1 := by
        rw [digitize_cons]; simp [h1]
      rw [← hx]
      unfold drawFrom
      rw [hcons]
      simp only [hidx]
      generalize digitize (cumFrom (c0 + (b - a)) rest) w = k at hk
      have e1 : k + 1 - 1 = (k - 1) + 1 := by omega
      have e2 : (k + 1 == 0) = false := by simp
      have e3 : (k == 0) = false := by simp; omega
      simp only [e1, List.getElem?_cons_succ, e2, e3]

end C14
