/-
  Helper lemmas for property C17 (Model/Load.lean): `mapE`, column projection of well-formed files,
  the refinement of the memory-efficient row loop to the column projection.
-/
import SkyllhModel.Model.Load
import Mathlib.Tactic

open Load

namespace C17

variable {N D V P : Type} [DecidableEq N] [DecidableEq D]

/-! ### `mapE` -/

theorem mapE_ok_of_forall {α β ε : Type} (f : α → Except ε β) (g : α → β) (l : List α)
    (h : ∀ a ∈ l, f a = .ok (g a)) : mapE f l = .ok (l.map g) := by
  induction l with
  | nil => rfl
  | cons a as ih =>
    have ha := h a (by simp)
    have ih' := ih (fun x hx => h x (by simp [hx]))
    simp [mapE, ha, ih']

theorem mapE_map {α β γ ε : Type} (f : β → Except ε γ) (h : α → β) (l : List α) :
    mapE f (l.map h) = mapE (fun a => f (h a)) l := by
  induction l with
  | nil => rfl
  | cons a as ih => simp [mapE, ih]

theorem mapE_append_ok {α β ε : Type} (f : α → Except ε β) (l₁ l₂ : List α) (r₁ r₂ : List β)
    (h₁ : mapE f l₁ = .ok r₁) (h₂ : mapE f l₂ = .ok r₂) : mapE f (l₁ ++ l₂) = .ok (r₁ ++ r₂) := by
  induction l₁ generalizing r₁ with
  | nil =>
    simp only [mapE] at h₁
    cases h₁
    simpa using h₂
  | cons a as ih =>
    simp only [mapE] at h₁
    cases hfa : f a with
    | error e => simp [hfa] at h₁
    | ok b =>
      cases hrest : mapE f as with
      | error e => simp [hfa, hrest] at h₁
      | ok bs =>
        simp [hfa, hrest] at h₁
        subst h₁
        simp [mapE, hfa, ih bs hrest]

theorem mapE_error_of_mem {α β ε : Type} (f : α → Except ε β) (l : List α) (a : α) (ha : a ∈ l)
    (e : ε) (h : f a = .error e) : ∃ e', mapE f l = .error e' := by
  induction l with
  | nil => simp at ha
  | cons x xs ih =>
    rcases List.mem_cons.mp ha with rfl | hx
    · exact ⟨e, by simp [mapE, h]⟩
    · cases hfx : f x with
      | error e₁ => exact ⟨e₁, by simp [mapE, hfx]⟩
      | ok b =>
        obtain ⟨e', he'⟩ := ih hx
        exact ⟨e', by simp [mapE, hfx, he']⟩

/-! ### well-formed files and total column projection -/

/-- every row has one cell per field of the schema (what a structured ndarray guarantees) -/
def WF (f : File N D V) : Prop := ∀ r ∈ f.rows, r.length = f.schema.length

/-- the `i`-th cell of every row (total; equals `column` on well-formed tables) -/
def colT (rows : List (List V)) (i : Nat) : List V := rows.filterMap (fun r => r[i]?)

omit [DecidableEq N] [DecidableEq D] in
theorem colT_append (r₁ r₂ : List (List V)) (i : Nat) : colT (r₁ ++ r₂) i = colT r₁ i ++ colT r₂ i := by
  simp [colT]

theorem column_ok (rows : List (List V)) (i : Nat) (h : ∀ r ∈ rows, i < r.length) :
    column rows i = .ok (colT rows i) := by
  induction rows with
  | nil => rfl
  | cons r rs ih =>
    have hr : i < r.length := h r (by simp)
    have ih' := ih (fun x hx => h x (by simp [hx]))
    unfold column at ih' ⊢
    simp [mapE, colT, List.getElem?_eq_getElem hr, ih']

theorem length_colT (rows : List (List V)) (i : Nat) (h : ∀ r ∈ rows, i < r.length) :
    (colT rows i).length = rows.length := by
  induction rows with
  | nil => rfl
  | cons r rs ih =>
    have hr : i < r.length := h r (by simp)
    have ih' := ih (fun x hx => h x (by simp [hx]))
    simp [colT, List.getElem?_eq_getElem hr] at ih' ⊢
    exact ih'

/-! ### the field loop -/

theorem selectedFrom_idx (o : Opts N D) (k : Nat) (schema : List (N × D)) :
    ∀ s ∈ selectedFrom o k schema, k ≤ s.1 ∧ s.1 < k + schema.length ∧
      schema[s.1 - k]? = some (s.2.1, s.2.2.1) ∧ isKept o.keep s.2.1 = true ∧
      s.2.2.2 = targetDt o.conv o.exc s.2.1 s.2.2.1 := by
  induction schema generalizing k with
  | nil => simp [selectedFrom]
  | cons fd rest ih =>
    obtain ⟨f, dt⟩ := fd
    intro s hs
    simp only [selectedFrom] at hs
    have tail : s ∈ selectedFrom o (k + 1) rest →
        k ≤ s.1 ∧ s.1 < k + (((f, dt) :: rest).length) ∧
        ((f, dt) :: rest)[s.1 - k]? = some (s.2.1, s.2.2.1) ∧ isKept o.keep s.2.1 = true ∧
        s.2.2.2 = targetDt o.conv o.exc s.2.1 s.2.2.1 := by
      intro h
      obtain ⟨h1, h2, h3, h4, h5⟩ := ih (k + 1) s h
      refine ⟨by omega, by simp; omega, ?_, h4, h5⟩
      have : s.1 - k = (s.1 - (k + 1)) + 1 := by omega
      rw [this, List.getElem?_cons_succ]
      exact h3
    by_cases hk : isKept o.keep f = true
    · simp only [hk, if_true, List.mem_cons] at hs
      rcases hs with rfl | hs
      · simp [hk]
      · exact tail hs
    · simp only [hk] at hs
      exact tail hs

theorem selected_idx_lt (o : Opts N D) (schema : List (N × D)) :
    ∀ s ∈ selected o schema, s.1 < schema.length := by
  intro s hs
  have := selectedFrom_idx o 0 schema s hs
  omega

theorem selectedFrom_names (o : Opts N D) (k : Nat) (schema : List (N × D)) :
    (selectedFrom o k schema).map (fun s => s.2.1) =
      (schema.map (·.1)).filter (fun f => isKept o.keep f) := by
  induction schema generalizing k with
  | nil => rfl
  | cons fd rest ih =>
    obtain ⟨f, dt⟩ := fd
    by_cases hk : isKept o.keep f = true
    · simp [selectedFrom, hk, ih (k + 1)]
    · simp [selectedFrom, hk, ih (k + 1)]

/-! ### time-efficient loading = the specification columns -/

variable (cast : D → D → V → V)

/-- the specification of a single-table load: the kept fields in file order, each holding the
corresponding cell of every row, in row order, converted to the final dtype -/
def specCols (o : Opts N D) (f : File N D V) : List (Col N D V) :=
  (selected o f.schema).map (fun s => Col.mk s.2.1 s.2.2.2 ((colT f.rows s.1).map (cast s.2.2.1 s.2.2.2)))

variable (castX : D → D → V → Except Err V)

/-- the agreement-domain guard: on every cell of every kept field of the table the conversion path
`castX` (np.copyto resp. element assignment) succeeds with numpy's value conversion `cast` -/
def CastOK (o : Opts N D) (f : File N D V) : Prop :=
  ∀ s ∈ selected o f.schema, ∀ v ∈ colT f.rows s.1,
    castX s.2.2.1 s.2.2.2 v = .ok (cast s.2.2.1 s.2.2.2 v)

theorem ctorNd_ok (o : Opts N D) (f : File N D V) (hf : WF f) (hc : CastOK cast castX o f) :
    ctorNd castX o f = .ok ⟨specCols cast o f, arrLen (specCols cast o f)⟩ := by
  unfold ctorNd
  rw [mapE_ok_of_forall _
    (fun s => Col.mk s.2.1 s.2.2.2 ((colT f.rows s.1).map (cast s.2.2.1 s.2.2.2))) (selected o f.schema)]
  · rfl
  · intro s hs
    have hlt := selected_idx_lt o f.schema s hs
    have hcol := column_ok f.rows s.1 (fun r hr => by rw [hf r hr]; exact hlt)
    have hm := mapE_ok_of_forall (castX s.2.2.1 s.2.2.2) (cast s.2.2.1 s.2.2.2) (colT f.rows s.1) (hc s hs)
    simp [hcol, hm]

/-! ### the memory-efficient row loop -/

omit [DecidableEq N] [DecidableEq D] in
theorem set_pad (xs : List V) (p : Nat) (v : V) :
    ((xs.map some) ++ List.replicate (p + 1) none).set xs.length (some v) =
      ((xs ++ [v]).map some) ++ List.replicate p none := by
  rw [List.set_append]
  simp [List.replicate_succ]

/-- the pre-allocated columns after the rows `done` have been copied, `pad` rows still missing -/
def dataOf (sel : List (Nat × N × D × D)) (done : List (List V)) (pad : Nat) : List (List (Option V)) :=
  sel.map (fun s => ((colT done s.1).map (cast s.2.2.1 s.2.2.2)).map some ++ List.replicate pad none)

omit [DecidableEq N] [DecidableEq D] in
/-- one pass of the inner loop: the values of row `row` are written at index `done.length` -/
theorem row_step (sel : List (Nat × N × D × D)) (done : List (List V)) (row : List V) (p : Nat)
    (hdone : ∀ s ∈ sel, ∀ r ∈ done, s.1 < r.length) (hrow : ∀ s ∈ sel, s.1 < row.length)
    (hcast : ∀ s ∈ sel, ∀ v, row[s.1]? = some v → castX s.2.2.1 s.2.2.2 v = .ok (cast s.2.2.1 s.2.2.2 v)) :
    ∃ vals, rowVals castX sel row = .ok vals ∧
      assignRow (dataOf cast sel done (p + 1)) done.length vals = dataOf cast sel (done ++ [row]) p := by
  induction sel with
  | nil => exact ⟨[], rfl, rfl⟩
  | cons s ss ih =>
    obtain ⟨vals, hv, ha⟩ := ih (fun x hx => hdone x (by simp [hx])) (fun x hx => hrow x (by simp [hx]))
      (fun x hx => hcast x (by simp [hx]))
    have hs : s.1 < row.length := hrow s (by simp)
    have hcs := hcast s (by simp) row[s.1] (List.getElem?_eq_getElem hs)
    refine ⟨cast s.2.2.1 s.2.2.2 row[s.1] :: vals, ?_, ?_⟩
    · unfold rowVals at hv ⊢
      simp [mapE, List.getElem?_eq_getElem hs, hv, hcs]
    · have hlen : ((colT done s.1).map (cast s.2.2.1 s.2.2.2)).length = done.length := by
        rw [List.length_map]
        exact length_colT done s.1 (hdone s (by simp))
      have hcol : colT (done ++ [row]) s.1 = colT done s.1 ++ [row[s.1]] := by
        rw [colT_append]
        simp [colT, List.getElem?_eq_getElem hs]
      unfold assignRow dataOf at ha ⊢
      simp only [List.map_cons, List.zipWith_cons_cons]
      rw [ha]
      congr 1
      rw [← hlen, set_pad, hcol]
      simp

omit [DecidableEq N] [DecidableEq D] in
theorem memRows_ok (f : File N D V) (hf : WF f) (bs : Nat) (hbs : 0 < bs) (sel : List (Nat × N × D × D))
    (hsel : ∀ s ∈ sel, s.1 < f.schema.length)
    (hcast : ∀ s ∈ sel, ∀ r ∈ f.rows, ∀ v, r[s.1]? = some v →
      castX s.2.2.1 s.2.2.2 v = .ok (cast s.2.2.1 s.2.2.2 v)) :
    ∀ (todo done : List (List V)), done ++ todo = f.rows →
      memRows castX (.ok f) bs sel todo.length done.length f (dataOf cast sel done todo.length) =
        .ok (dataOf cast sel f.rows 0) := by
  intro todo
  induction todo with
  | nil =>
    intro done h
    simp at h
    subst h
    rfl
  | cons row rest ih =>
    intro done h
    have hmem : ∀ r, r ∈ done ∨ r = row ∨ r ∈ rest → r ∈ f.rows := by
      intro r hr
      rw [← h]
      simp only [List.mem_append, List.mem_cons]
      tauto
    have hrowlen : ∀ s ∈ sel, s.1 < row.length := fun s hs => by
      rw [hf row (hmem row (Or.inr (Or.inl rfl)))]; exact hsel s hs
    have hdonelen : ∀ s ∈ sel, ∀ r ∈ done, s.1 < r.length := fun s hs r hr => by
      rw [hf r (hmem r (Or.inl hr))]; exact hsel s hs
    obtain ⟨vals, hv, ha⟩ := row_step cast castX sel done row rest.length hdonelen hrowlen
      (fun s hs v hv => hcast s hs row (hmem row (Or.inr (Or.inl rfl))) v hv)
    have hbs' : bs ≠ 0 := by omega
    have hget : f.rows[done.length]? = some row := by
      rw [← h]
      simp
    have hnext := ih (done ++ [row]) (by simp [← h])
    simp only [List.length_append, List.length_cons, List.length_nil] at hnext
    simp only [List.length_cons, memRows, hget, hv, ha, hbs', if_false]
    split <;> exact hnext

omit [DecidableEq N] [DecidableEq D] in
theorem freeze_map_some (xs : List V) : freeze (xs.map some) = .ok xs := by
  induction xs with
  | nil => rfl
  | cons x xs ih =>
    unfold freeze at ih ⊢
    simp [mapE, ih]

omit [DecidableEq N] [DecidableEq D] in
theorem mkCols_map (sel : List (Nat × N × D × D)) (g : Nat × N × D × D → List V) :
    mkCols sel (sel.map g) = sel.map (fun s => Col.mk s.2.1 s.2.2.2 (g s)) := by
  induction sel with
  | nil => rfl
  | cons s ss ih =>
    unfold mkCols at ih ⊢
    simp [ih]

/-- the memory-efficient loader computes the specification columns -/
theorem loadFileMem_ok (fs : P → Option (File N D V)) (bs : Nat) (p : P) (o : Opts N D) (f : File N D V)
    (hp : fs p = some f) (hf : WF f) (hbs : 0 < bs) (hc : CastOK cast castX o f) :
    loadFileMem castX fs bs p o = .ok ⟨specCols cast o f, arrLen (specCols cast o f)⟩ := by
  have hopen : openFile fs p = .ok f := by simp [openFile, hp]
  have hcast : ∀ s ∈ selected o f.schema, ∀ r ∈ f.rows, ∀ v, r[s.1]? = some v →
      castX s.2.2.1 s.2.2.2 v = .ok (cast s.2.2.1 s.2.2.2 v) := by
    intro s hs r hr v hv
    exact hc s hs v (List.mem_filterMap.mpr ⟨r, hr, hv⟩)
  have hrows := memRows_ok cast castX f hf bs hbs (selected o f.schema) (selected_idx_lt o f.schema) hcast
    f.rows [] rfl
  have hdata0 : dataOf cast (selected o f.schema) [] f.rows.length =
      (selected o f.schema).map (fun _ => List.replicate f.rows.length none) := by
    simp [dataOf, colT]
  have hfreeze : mapE freeze (dataOf cast (selected o f.schema) f.rows 0) =
      .ok ((selected o f.schema).map (fun s => (colT f.rows s.1).map (cast s.2.2.1 s.2.2.2))) := by
    unfold dataOf
    rw [mapE_map]
    apply mapE_ok_of_forall
    intro s _
    simpa using freeze_map_some ((colT f.rows s.1).map (cast s.2.2.1 s.2.2.2))
  simp only [List.length_nil] at hrows
  unfold loadFileMem
  simp only [hopen]
  rw [← hdata0, hrows]
  simp only [hfreeze, mkCols_map]
  rfl

/-! ### several files: appending = loading the single table that holds all rows in file order -/

/-- the result of loading one well-formed table -/
def specArr (o : Opts N D) (f : File N D V) : Arr N D V :=
  ⟨specCols cast o f, arrLen (specCols cast o f)⟩

omit [DecidableEq D] in
theorem findCol_map (sel : List (Nat × N × D × D)) (g : Nat × N × D × D → Col N D V)
    (hg : ∀ s, (g s).name = s.2.1) (hnd : (sel.map (fun s => s.2.1)).Nodup) :
    ∀ s ∈ sel, findCol (sel.map g) s.2.1 = some (g s) := by
  induction sel with
  | nil => simp
  | cons t ts ih =>
    intro s hs
    simp only [List.map_cons, List.nodup_cons] at hnd
    obtain ⟨hnot, hnd'⟩ := hnd
    unfold findCol at ih ⊢
    simp only [List.map_cons, List.find?_cons]
    by_cases hname : t.2.1 = s.2.1
    · rcases List.mem_cons.mp hs with rfl | hin
      · simp [hg]
      · exact absurd (List.mem_map.mpr ⟨s, hin, hname.symm⟩) hnot
    · rcases List.mem_cons.mp hs with rfl | hin
      · exact absurd rfl hname
      · simp only [hg, hname, decide_false]
        exact ih hnd' s hin

theorem selected_names_nodup (o : Opts N D) (schema : List (N × D)) (h : (schema.map (·.1)).Nodup) :
    ((selected o schema).map (fun s => s.2.1)).Nodup := by
  unfold selected
  rw [selectedFrom_names]
  exact h.filter _

variable (promote : D → D → D)

theorem appendArr_spec (o : Opts N D) (sch : List (N × D)) (r₁ r₂ : List (List V))
    (hnd : (sch.map (·.1)).Nodup) (hcast : ∀ d v, cast d d v = v) (hprom : ∀ d, promote d d = d) :
    appendArr cast promote (specArr cast o ⟨sch, r₁⟩) (specArr cast o ⟨sch, r₂⟩) =
      .ok (specArr cast o ⟨sch, r₁ ++ r₂⟩) := by
  have hcastf : ∀ d, cast d d = id := fun d => funext (hcast d)
  unfold appendArr specArr specCols
  simp only
  rw [mapE_map]
  rw [mapE_ok_of_forall _ (fun s => Col.mk s.2.1 s.2.2.2
      ((colT (r₁ ++ r₂) s.1).map (cast s.2.2.1 s.2.2.2))) (selected o sch)]
  · simp only [Except.ok.injEq, Arr.mk.injEq, true_and]
    cases hsel : selected o sch with
    | nil => simp [arrLen]
    | cons s ss =>
      simp [arrLen, colT_append]
  · intro s hs
    have hf := findCol_map (selected o sch)
      (fun s => Col.mk s.2.1 s.2.2.2 ((colT r₂ s.1).map (cast s.2.2.1 s.2.2.2))) (fun _ => rfl)
      (selected_names_nodup o sch hnd) s hs
    simp only [hf, hprom, hcastf, List.map_id, colT_append, List.map_append]

/-- the accumulated table after the files `rest` have been appended -/
theorem appendAll_spec (o : Opts N D) (sch : List (N × D)) (load : P → Except Err (Arr N D V))
    (hnd : (sch.map (·.1)).Nodup) (hcast : ∀ d v, cast d d v = v) (hprom : ∀ d, promote d d = d) :
    ∀ (rest : List (P × File N D V)) (acc : List (List V)),
      (∀ qf ∈ rest, load qf.1 = .ok (specArr cast o qf.2) ∧ qf.2.schema = sch) →
      appendAll cast promote load (specArr cast o ⟨sch, acc⟩) (rest.map (·.1)) =
        .ok (specArr cast o ⟨sch, acc ++ (rest.map (·.2.rows)).flatten⟩) := by
  intro rest
  induction rest with
  | nil => intro acc _; simp [appendAll]
  | cons qf rest ih =>
    intro acc h
    obtain ⟨hload, hsch⟩ := h qf (by simp)
    obtain ⟨q, f⟩ := qf
    obtain ⟨fsch, frows⟩ := f
    simp only at hsch hload
    subst hsch
    have happ := appendArr_spec cast promote o fsch acc frows hnd hcast hprom
    have := ih (acc ++ frows) (fun x hx => h x (by simp [hx]))
    simp only [List.map_cons, appendAll, hload, happ, this, List.flatten_cons, List.append_assoc]

/-! ### parquet: column-wise read, concatenation, constructor -/

/-- the column selection of `read_table` (no conversion) -/
def sel₀ (keep : Option (List N)) (sch : List (N × D)) : List (Nat × N × D × D) :=
  selected (⟨keep, [], []⟩ : Opts N D) sch

theorem selectedFrom_eq_map (o : Opts N D) (k : Nat) (sch : List (N × D)) :
    selectedFrom o k sch =
      (selectedFrom (⟨o.keep, [], []⟩ : Opts N D) k sch).map
        (fun s => (s.1, s.2.1, s.2.2.1, targetDt o.conv o.exc s.2.1 s.2.2.1)) := by
  induction sch generalizing k with
  | nil => rfl
  | cons fd rest ih =>
    obtain ⟨f, dt⟩ := fd
    by_cases hk : isKept o.keep f = true
    · simp [selectedFrom, hk, ih (k + 1)]
    · simp [selectedFrom, hk, ih (k + 1)]

/-- the pyarrow table holding the kept columns of the rows `rows` -/
def pqOf (keep : Option (List N)) (sch : List (N × D)) (rows : List (List V)) : PqTable N D V :=
  (sel₀ keep sch).map (fun s => (s.2.1, s.2.2.1, colT rows s.1))

theorem pqRead_ok (keep : Option (List N)) (f : File N D V) (hf : WF f) :
    pqRead keep f = .ok (pqOf keep f.schema f.rows) := by
  unfold pqRead pqOf sel₀
  apply mapE_ok_of_forall
  intro s hs
  have hlt := selected_idx_lt _ f.schema s hs
  have hc := column_ok f.rows s.1 (fun r hr => by rw [hf r hr]; exact hlt)
  simp [hc]

omit [DecidableEq N] [DecidableEq D] in
theorem zipWith_map_same {α β γ δ : Type} (l : List α) (f : α → β) (g : α → γ) (h : β → γ → δ) :
    List.zipWith h (l.map f) (l.map g) = l.map (fun a => h (f a) (g a)) := by
  induction l with
  | nil => rfl
  | cons a as ih => simp [ih]

theorem pqAll_spec (fs : P → Option (File N D V)) (keep : Option (List N)) (sch : List (N × D)) :
    ∀ (rest : List (P × File N D V)) (acc : List (List V)),
      (∀ qf ∈ rest, fs qf.1 = some qf.2 ∧ qf.2.schema = sch ∧ WF qf.2) →
      pqAll fs keep (pqOf keep sch acc) (rest.map (·.1)) =
        .ok (pqOf keep sch (acc ++ (rest.map (·.2.rows)).flatten)) := by
  intro rest
  induction rest with
  | nil => intro acc _; simp [pqAll]
  | cons qf rest ih =>
    intro acc h
    obtain ⟨hfs, hsch, hwf⟩ := h qf (by simp)
    obtain ⟨q, f⟩ := qf
    simp only at hfs hsch hwf
    have hread := pqRead_ok keep f hwf
    rw [hsch] at hread
    have hschema : pqSchema (pqOf keep sch acc) = pqSchema (pqOf keep sch f.rows) := by
      simp [pqSchema, pqOf]
    have hzip : List.zipWith (fun (a b : N × D × List V) => (a.1, a.2.1, a.2.2 ++ b.2.2))
        (pqOf keep sch acc) (pqOf keep sch f.rows) = pqOf keep sch (acc ++ f.rows) := by
      unfold pqOf
      rw [zipWith_map_same]
      simp [colT_append]
    have := ih (acc ++ f.rows) (fun x hx => h x (by simp [hx]))
    simp only [List.map_cons, pqAll, openFile, hfs, hread, hschema, if_true, hzip, this,
      List.flatten_cons, List.append_assoc]

omit [DecidableEq N] [DecidableEq D] in
theorem filterMap_eq_map_of_forall {α β : Type} (f : α → Option β) (g : α → β) (l : List α)
    (h : ∀ a ∈ l, f a = some (g a)) : l.filterMap f = l.map g := by
  induction l with
  | nil => rfl
  | cons a as ih =>
    have ha := h a (by simp)
    simp [ha, ih (fun x hx => h x (by simp [hx]))]

theorem ctorPq_spec (o : Opts N D) (sch : List (N × D)) (rows : List (List V))
    (hc : CastOK cast castX o ⟨sch, rows⟩) :
    ctorPq castX o (pqOf o.keep sch rows) = .ok (specArr cast o ⟨sch, rows⟩) := by
  have hkept : ∀ s ∈ sel₀ o.keep sch, isKept o.keep s.2.1 = true := by
    intro s hs
    exact (selectedFrom_idx _ 0 sch s hs).2.2.2.1
  have hfilter : (pqOf o.keep sch rows).filter (fun c => isKept o.keep c.1) = pqOf o.keep sch rows := by
    rw [List.filter_eq_self]
    intro c hcm
    simp only [pqOf, List.mem_map] at hcm
    obtain ⟨s, hs, rfl⟩ := hcm
    exact hkept s hs
  have hsel : selected o sch = (sel₀ o.keep sch).map
      (fun s => (s.1, s.2.1, s.2.2.1, targetDt o.conv o.exc s.2.1 s.2.2.1)) := by
    unfold selected sel₀ selected
    exact selectedFrom_eq_map o 0 sch
  unfold ctorPq
  rw [hfilter]
  unfold pqOf
  rw [mapE_map]
  rw [mapE_ok_of_forall _ (fun s => Col.mk s.2.1 (targetDt o.conv o.exc s.2.1 s.2.2.1)
      ((colT rows s.1).map (cast s.2.2.1 (targetDt o.conv o.exc s.2.1 s.2.2.1)))) (sel₀ o.keep sch)]
  · simp only [specArr, specCols, hsel, List.map_map]
    rfl
  · intro s hs
    have hmem : (s.1, s.2.1, s.2.2.1, targetDt o.conv o.exc s.2.1 s.2.2.1) ∈ selected o sch := by
      rw [hsel]
      exact List.mem_map.mpr ⟨s, hs, rfl⟩
    have hm := mapE_ok_of_forall (castX s.2.2.1 (targetDt o.conv o.exc s.2.1 s.2.2.1))
      (cast s.2.2.1 (targetDt o.conv o.exc s.2.1 s.2.2.1)) (colT rows s.1) (hc _ hmem)
    simp [hm]

end C17
