/-
  Helper lemmas for `Model/Coords.lean` over ℝ (cited by `Props/C19.lean`, usable by C18):
  the `Coords.Fns ℝ` instance, vector algebra on `V3 ℝ`, haversine = (1 − u·v)/2,
  `2·arcsin √((1−d)/2) = arccos d`, `mod` facts, (atan2, arcsin) recovers a unit vector,
  Rodrigues' rotation preserves scalar products and maps v₁ to v₂.
-/
import SkyllhModel.Model.Coords
import SkyllhModel.Proofs.RealScalar
import Mathlib.Analysis.SpecialFunctions.Complex.Arg
import Mathlib.Tactic

/-- over ℝ: `floor` is the integer floor, `atan2 y x` is the argument of `x + i y` ∈ (−π, π] -/
noncomputable instance instCoordsFnsReal : Coords.Fns ℝ where
  floor := fun x => (⌊x⌋ : ℝ)
  atan2 := fun y x => Complex.arg ⟨x, y⟩

namespace Coords

@[simp] theorem floor_def (x : ℝ) : (Fns.floor x : ℝ) = (⌊x⌋ : ℝ) := rfl
@[simp] theorem atan2_def (y x : ℝ) : (Fns.atan2 y x : ℝ) = Complex.arg ⟨x, y⟩ := rfl

open Real

/-! ### vectors -/

theorem V3.ext' {u v : V3 ℝ} (hx : u.x = v.x) (hy : u.y = v.y) (hz : u.z = v.z) : u = v := by
  cases u; cases v; simp_all

/-- a unit vector: `u·u = 1` -/
def IsUnit3 (u : V3 ℝ) : Prop := dot u u = 1

theorem dot_comm (u v : V3 ℝ) : dot u v = dot v u := by simp only [dot]; ring

theorem unitVec_isUnit (ra dec : ℝ) : IsUnit3 (unitVec ra dec) := by
  simp only [IsUnit3, dot, unitVec, TranscReal.sin_def, TranscReal.cos_def]
  linear_combination (cos dec ^ 2) * sin_sq_add_cos_sq ra + sin_sq_add_cos_sq dec

theorem dot_le_one {u v : V3 ℝ} (hu : IsUnit3 u) (hv : IsUnit3 v) : dot u v ≤ 1 := by
  simp only [IsUnit3, dot] at *
  nlinarith [sq_nonneg (u.x - v.x), sq_nonneg (u.y - v.y), sq_nonneg (u.z - v.z)]

theorem neg_one_le_dot {u v : V3 ℝ} (hu : IsUnit3 u) (hv : IsUnit3 v) : -1 ≤ dot u v := by
  simp only [IsUnit3, dot] at *
  nlinarith [sq_nonneg (u.x + v.x), sq_nonneg (u.y + v.y), sq_nonneg (u.z + v.z)]

/-- two unit vectors with scalar product 1 are equal -/
theorem eq_of_dot_eq_one {u v : V3 ℝ} (hu : IsUnit3 u) (hv : IsUnit3 v) (h : dot u v = 1) : u = v := by
  simp only [IsUnit3, dot] at *
  have hs : (u.x - v.x) ^ 2 + (u.y - v.y) ^ 2 + (u.z - v.z) ^ 2 = 0 := by nlinarith
  have h1 : (u.x - v.x) ^ 2 = 0 := by nlinarith [sq_nonneg (u.x - v.x), sq_nonneg (u.y - v.y), sq_nonneg (u.z - v.z)]
  have h2 : (u.y - v.y) ^ 2 = 0 := by nlinarith [sq_nonneg (u.x - v.x), sq_nonneg (u.y - v.y), sq_nonneg (u.z - v.z)]
  have h3 : (u.z - v.z) ^ 2 = 0 := by nlinarith [sq_nonneg (u.x - v.x), sq_nonneg (u.y - v.y), sq_nonneg (u.z - v.z)]
  exact V3.ext' (by nlinarith [pow_eq_zero_iff (two_ne_zero) |>.mp h1])
    (by nlinarith [pow_eq_zero_iff (two_ne_zero) |>.mp h2]) (by nlinarith [pow_eq_zero_iff (two_ne_zero) |>.mp h3])

theorem dotRD_le_one (ra1 dec1 ra2 dec2 : ℝ) : dotRD ra1 dec1 ra2 dec2 ≤ 1 :=
  dot_le_one (unitVec_isUnit _ _) (unitVec_isUnit _ _)

theorem neg_one_le_dotRD (ra1 dec1 ra2 dec2 : ℝ) : -1 ≤ dotRD ra1 dec1 ra2 dec2 :=
  neg_one_le_dot (unitVec_isUnit _ _) (unitVec_isUnit _ _)

/-- the scalar product of two unit vectors in spherical form -/
theorem dotRD_eq (ra1 dec1 ra2 dec2 : ℝ) :
    dotRD ra1 dec1 ra2 dec2 = cos dec1 * cos dec2 * cos (ra1 - ra2) + sin dec1 * sin dec2 := by
  simp only [dotRD, dot, unitVec, TranscReal.sin_def, TranscReal.cos_def, cos_sub]
  ring

/-! ### clipping and |·| -/

theorem absF_eq (x : ℝ) : absF x = |x| := by
  unfold absF
  split_ifs with h
  · exact (abs_of_neg h).symm
  · exact (abs_of_nonneg (not_lt.mp h)).symm

theorem clip01_of_mem {x : ℝ} (h0 : 0 ≤ x) (h1 : x ≤ 1) : clip01 x = x := by
  unfold clip01
  rw [if_neg (not_lt.mpr h0), if_neg (not_lt.mpr h1)]

theorem clipPM1_of_mem {x : ℝ} (h0 : -1 ≤ x) (h1 : x ≤ 1) : clipPM1 x = x := by
  unfold clipPM1
  rw [if_neg (not_lt.mpr h1), if_neg (not_lt.mpr h0)]

theorem clipPM1_mem (x : ℝ) : -1 ≤ clipPM1 x ∧ clipPM1 x ≤ 1 := by
  unfold clipPM1
  split_ifs with h1 h2
  · norm_num
  · norm_num
  · exact ⟨not_lt.mp h2, not_lt.mp h1⟩

theorem sq_sin_abs_half (d : ℝ) : sq (sin (|d| / 2)) = (1 - cos d) / 2 := by
  have h : sin (|d| / 2) ^ 2 = sin (d / 2) ^ 2 := by
    rcases abs_cases d with ⟨h, _⟩ | ⟨h, _⟩ <;> rw [h]
    rw [neg_div, sin_neg]; ring
  have h2 := sin_sq_eq_half_sub (d / 2)
  rw [show 2 * (d / 2) = d by ring] at h2
  unfold sq
  rw [← pow_two, h, h2]; ring

/-! ### haversine -/

/-- the haversine argument is `(1 − u₁·u₂)/2` -/
theorem havX_eq (ra1 dec1 ra2 dec2 : ℝ) :
    havX ra1 dec1 ra2 dec2 = (1 - dotRD ra1 dec1 ra2 dec2) / 2 := by
  rw [dotRD_eq]
  simp only [havX, absF_eq, TranscReal.sin_def, TranscReal.cos_def, sq_sin_abs_half, cos_sub]
  ring

theorem havX_nonneg (ra1 dec1 ra2 dec2 : ℝ) : 0 ≤ havX ra1 dec1 ra2 dec2 := by
  rw [havX_eq]; linarith [dotRD_le_one ra1 dec1 ra2 dec2]

theorem havX_le_one (ra1 dec1 ra2 dec2 : ℝ) : havX ra1 dec1 ra2 dec2 ≤ 1 := by
  rw [havX_eq]; linarith [neg_one_le_dotRD ra1 dec1 ra2 dec2]

/-- `2·arcsin √((1−d)/2) = arccos d` on `[-1, 1]` -/
theorem two_arcsin_sqrt_eq_arccos {d : ℝ} (h0 : -1 ≤ d) (h1 : d ≤ 1) :
    2 * arcsin (√((1 - d) / 2)) = arccos d := by
  set θ := arccos d with hθ
  have hcos : cos θ = d := cos_arccos h0 h1
  have hθ0 : 0 ≤ θ := arccos_nonneg d
  have hθp : θ ≤ π := arccos_le_pi d
  have hs : 0 ≤ sin (θ / 2) := sin_nonneg_of_nonneg_of_le_pi (by linarith) (by linarith)
  have hsq : (1 - d) / 2 = sin (θ / 2) ^ 2 := by
    have := sin_sq_eq_half_sub (θ / 2)
    rw [show 2 * (θ / 2) = θ by ring, hcos] at this
    rw [this]; ring
  rw [hsq, sqrt_sq hs, arcsin_sin (by linarith) (by linarith)]
  ring

/-- the separation computed by the haversine code is the angle between the unit vectors -/
theorem angSep_eq_arccos (ra1 dec1 ra2 dec2 : ℝ) :
    angSep ra1 dec1 ra2 dec2 = arccos (dotRD ra1 dec1 ra2 dec2) := by
  unfold angSep
  rw [clip01_of_mem (havX_nonneg ..) (havX_le_one ..), havX_eq]
  simp only [TranscReal.asin_def, TranscReal.sqrt_def]
  exact two_arcsin_sqrt_eq_arccos (neg_one_le_dotRD ..) (dotRD_le_one ..)

/-! ### `mod` -/

theorem modF_eq_fract {b : ℝ} (hb : b ≠ 0) (a : ℝ) : modF a b = b * Int.fract (a / b) := by
  simp only [modF, floor_def, Int.fract]
  field_simp

theorem modF_nonneg {b : ℝ} (hb : 0 < b) (a : ℝ) : 0 ≤ modF a b := by
  rw [modF_eq_fract hb.ne']; exact mul_nonneg hb.le (Int.fract_nonneg _)

theorem modF_lt {b : ℝ} (hb : 0 < b) (a : ℝ) : modF a b < b := by
  rw [modF_eq_fract hb.ne']
  calc b * Int.fract (a / b) < b * 1 := mul_lt_mul_of_pos_left (Int.fract_lt_one _) hb
    _ = b := mul_one b

/-- `mod` forgets integer multiples of the modulus -/
theorem modF_add_int_mul {b : ℝ} (hb : b ≠ 0) (a : ℝ) (k : ℤ) : modF (a + k * b) b = modF a b := by
  rw [modF_eq_fract hb, modF_eq_fract hb]
  have : (a + k * b) / b = a / b + k := by field_simp
  rw [this, Int.fract_add_intCast]

theorem modF_of_mem {a b : ℝ} (h0 : 0 ≤ a) (h1 : a < b) : modF a b = a := by
  have hb : 0 < b := lt_of_le_of_lt h0 h1
  have hf : ⌊a / b⌋ = 0 := by
    rw [Int.floor_eq_zero_iff]
    exact ⟨div_nonneg h0 hb.le, (div_lt_one hb).mpr h1⟩
  simp [modF, hf]

theorem modF_idem {b : ℝ} (hb : 0 < b) (a : ℝ) : modF (modF a b) b = modF a b :=
  modF_of_mem (modF_nonneg hb a) (modF_lt hb a)

/-- `mod a b = a − k·b` for the integer `k = ⌊a/b⌋` -/
theorem modF_eq_sub (a b : ℝ) : modF a b = a - (⌊a / b⌋ : ℤ) * b := by
  simp only [modF, floor_def]; ring

theorem twoPi_eq : (twoPi : ℝ) = 2 * π := by simp [twoPi]

theorem twoPi_pos : (0 : ℝ) < twoPi := by rw [twoPi_eq]; positivity

theorem cos_modF_twoPi (a : ℝ) : cos (modF a twoPi) = cos a := by
  rw [modF_eq_sub, twoPi_eq]; exact cos_sub_int_mul_two_pi a _

theorem sin_modF_twoPi (a : ℝ) : sin (modF a twoPi) = sin a := by
  rw [modF_eq_sub, twoPi_eq]; exact sin_sub_int_mul_two_pi a _

/-! ### (atan2, arcsin) recovers a unit vector -/

theorem norm_mk (x y : ℝ) : ‖(⟨x, y⟩ : ℂ)‖ = √(x ^ 2 + y ^ 2) := by
  rw [Complex.norm_def, Complex.normSq_mk]; ring_nf

/-- for a unit vector `(x, y, z)`: `cos(atan2 y x)·cos(arcsin z) = x`, `sin(atan2 y x)·cos(arcsin z) = y` -/
theorem cos_sin_atan2_mul {x y z : ℝ} (h : x ^ 2 + y ^ 2 + z ^ 2 = 1) :
    cos (Complex.arg ⟨x, y⟩) * cos (arcsin z) = x ∧ sin (Complex.arg ⟨x, y⟩) * cos (arcsin z) = y := by
  have hr : √(1 - z ^ 2) = √(x ^ 2 + y ^ 2) := by congr 1; linarith
  rw [cos_arcsin, hr, Complex.sin_arg, norm_mk]
  by_cases h0 : x ^ 2 + y ^ 2 = 0
  · have hx : x = 0 := by nlinarith [sq_nonneg x, sq_nonneg y]
    have hy : y = 0 := by nlinarith [sq_nonneg x, sq_nonneg y]
    subst hx; subst hy; simp
  · have hpos : 0 < x ^ 2 + y ^ 2 := lt_of_le_of_ne (by positivity) (Ne.symm h0)
    have hs : √(x ^ 2 + y ^ 2) ≠ 0 := (sqrt_pos.mpr hpos).ne'
    have hne : (⟨x, y⟩ : ℂ) ≠ 0 := by
      intro hc
      have h1 : x = 0 := by simpa using congrArg Complex.re hc
      have h2 : y = 0 := by simpa using congrArg Complex.im hc
      apply h0; rw [h1, h2]; ring
    rw [Complex.cos_arg hne, norm_mk]
    constructor <;> field_simp

/-- the unit vector of `(atan2 y x, arcsin z)` is `(x, y, z)` when `x² + y² + z² = 1` -/
theorem unitVec_atan2_arcsin {v : V3 ℝ} (h : IsUnit3 v) :
    unitVec (Fns.atan2 v.y v.x) (arcsin v.z) = v := by
  have h' : v.x ^ 2 + v.y ^ 2 + v.z ^ 2 = 1 := by simp only [IsUnit3, dot] at h; linarith
  have hz : -1 ≤ v.z ∧ v.z ≤ 1 := by constructor <;> nlinarith [sq_nonneg v.x, sq_nonneg v.y]
  obtain ⟨hc, hs⟩ := cos_sin_atan2_mul h'
  apply V3.ext'
  · simpa [unitVec] using hc
  · simpa [unitVec] using hs
  · simp [unitVec, sin_arcsin hz.1 hz.2]

/-! ### Rodrigues' rotation -/

/-- Rodrigues' rotation about a unit axis by an angle with `c² + s² = 1` preserves scalar
products (it is an orthogonal map) -/
theorem rodrigues_dot {n : V3 ℝ} {c s : ℝ} (hn : IsUnit3 n) (hcs : c ^ 2 + s ^ 2 = 1) (u w : V3 ℝ) :
    dot (rodrigues n c s u) (rodrigues n c s w) = dot u w := by
  simp only [IsUnit3, dot] at hn
  simp only [rodrigues, dot]
  grind

/-- Lagrange's identity `|u×v|² = |u|²|v|² − (u·v)²` for unit vectors -/
theorem cross_normSq {u v : V3 ℝ} (hu : IsUnit3 u) (hv : IsUnit3 v) :
    dot (cross u v) (cross u v) = 1 - dot u v ^ 2 := by
  simp only [IsUnit3, dot, cross] at *
  grind

/-- with axis `n = (v₁×v₂)/s`, `c = v₁·v₂`, `s = |v₁×v₂| ≠ 0` the rotation takes `v₁` to `v₂` -/
theorem rodrigues_maps {v1 v2 n : V3 ℝ} {s : ℝ} (h1 : IsUnit3 v1) (hs : s ≠ 0)
    (hx : s * n.x = (cross v1 v2).x) (hy : s * n.y = (cross v1 v2).y) (hz : s * n.z = (cross v1 v2).z) :
    rodrigues n (dot v1 v2) s v1 = v2 := by
  have hnv : dot n v1 = 0 := by
    have : s * dot n v1 = 0 := by
      simp only [dot, cross] at *
      linear_combination v1.x * hx + v1.y * hy + v1.z * hz
    rcases mul_eq_zero.mp this with h | h
    · exact absurd h hs
    · exact h
  simp only [IsUnit3, dot, cross] at *
  apply V3.ext' <;> simp only [rodrigues] <;> grind

/-- the rotation of `rotate_spherical_vector` on Cartesian vectors: rotation taking `v1` onto
`v2`, applied to `w` (the code after the three `np.vstack`s) -/
noncomputable def rotAbout (v1 v2 w : V3 ℝ) : V3 ℝ :=
  let c := dot v1 v2
  let n0 := cross v1 v2
  let norm := √(n0.x * n0.x + n0.y * n0.y + n0.z * n0.z)
  let n : V3 ℝ := if 0 < norm then ⟨n0.x / norm, n0.y / norm, n0.z / norm⟩ else n0
  rodrigues n c (√(1 - c ^ 2)) w

theorem rotAbout_spec {v1 v2 : V3 ℝ} (h1 : IsUnit3 v1) (h2 : IsUnit3 v2) :
    rotAbout v1 v2 v1 = v2 ∧ ∀ u w, dot (rotAbout v1 v2 u) (rotAbout v1 v2 w) = dot u w := by
  have hL := cross_normSq h1 h2
  have hc1 := dot_le_one h1 h2
  have hc0 := neg_one_le_dot h1 h2
  have hnn : 0 ≤ 1 - dot v1 v2 ^ 2 := by nlinarith
  have hnorm : √((cross v1 v2).x * (cross v1 v2).x + (cross v1 v2).y * (cross v1 v2).y
      + (cross v1 v2).z * (cross v1 v2).z) = √(1 - dot v1 v2 ^ 2) := by
    congr 1
  unfold rotAbout
  simp only [hnorm]
  set c := dot v1 v2 with hc
  set s := √(1 - c ^ 2) with hsdef
  have hss : s ^ 2 = 1 - c ^ 2 := sq_sqrt hnn
  have hcs : c ^ 2 + s ^ 2 = 1 := by linarith
  by_cases hpos : 0 < s
  · simp only [hpos, if_true]
    have hsne : s ≠ 0 := hpos.ne'
    have hn : IsUnit3 (⟨(cross v1 v2).x / s, (cross v1 v2).y / s, (cross v1 v2).z / s⟩ : V3 ℝ) := by
      simp only [IsUnit3, dot] at hL ⊢
      field_simp
      linarith
    refine ⟨?_, fun u w => rodrigues_dot hn hcs u w⟩
    exact rodrigues_maps h1 hsne (by field_simp) (by field_simp) (by field_simp)
  · simp only [hpos, if_false]
    have hs0 : s = 0 := le_antisymm (not_lt.mp hpos) (sqrt_nonneg _)
    have hm : dot (cross v1 v2) (cross v1 v2) = 0 := by rw [hL, ← hss, hs0]; ring
    have hmx : (cross v1 v2).x = 0 ∧ (cross v1 v2).y = 0 ∧ (cross v1 v2).z = 0 := by
      simp only [dot] at hm
      refine ⟨?_, ?_, ?_⟩ <;>
        nlinarith [mul_self_nonneg (cross v1 v2).x, mul_self_nonneg (cross v1 v2).y,
          mul_self_nonneg (cross v1 v2).z]
    obtain ⟨mx, my, mz⟩ := hmx
    have hc2 : c ^ 2 = 1 := by rw [hs0] at hcs; linarith
    constructor
    · -- R = c·1 with c = ±1
      have hcc : c = -1 ∨ c = 1 := by
        have h0 : (c + 1) * (c - 1) = 0 := by linear_combination hc2
        rcases mul_eq_zero.mp h0 with h | h
        · left; linarith
        · right; linarith
      rcases hcc with hneg | hone
      · -- c = −1 : v₂ = −v₁
        have hv : IsUnit3 (⟨-v1.x, -v1.y, -v1.z⟩ : V3 ℝ) := by
          simp only [IsUnit3, dot] at h1 ⊢; linarith
        have hd12 : dot v1 v2 = -1 := by rw [← hc]; exact hneg
        have hd : dot (⟨-v1.x, -v1.y, -v1.z⟩ : V3 ℝ) v2 = 1 := by
          simp only [dot] at hd12 ⊢; linarith
        have e := eq_of_dot_eq_one hv h2 hd
        have ex : v2.x = -v1.x := by rw [← e]
        have ey : v2.y = -v1.y := by rw [← e]
        have ez : v2.z = -v1.z := by rw [← e]
        apply V3.ext' <;> simp [rodrigues, mx, my, mz, hs0, hneg, ex, ey, ez]
      · have hd12 : dot v1 v2 = 1 := by rw [← hc]; exact hone
        have e := eq_of_dot_eq_one h1 h2 hd12
        have ex : v2.x = v1.x := by rw [← e]
        have ey : v2.y = v1.y := by rw [← e]
        have ez : v2.z = v1.z := by rw [← e]
        apply V3.ext' <;> simp [rodrigues, mx, my, mz, hs0, hone, ex, ey, ez]
    · intro u w
      simp only [rodrigues, dot, mx, my, mz, hs0]
      ring_nf
      have : c ^ 2 * (u.x * w.x + u.y * w.y + u.z * w.z) = u.x * w.x + u.y * w.y + u.z * w.z := by
        rw [hc2, one_mul]
      linarith

/-- rotating a direction onto itself is the identity -/
theorem rotAbout_self {v : V3 ℝ} (h : IsUnit3 v) (w : V3 ℝ) : rotAbout v v w = w := by
  have hd : dot v v = 1 := h
  have hx : (cross v v).x = 0 := by simp only [cross]; ring
  have hy : (cross v v).y = 0 := by simp only [cross]; ring
  have hz : (cross v v).z = 0 := by simp only [cross]; ring
  unfold rotAbout
  simp only [hd, hx, hy, hz]
  apply V3.ext' <;> simp [rodrigues]

/-- the Cartesian core of `rotate_spherical_vector` is `rotAbout` on the unit vectors -/
theorem rotVec_eq (ra1 dec1 ra2 dec2 ra3 dec3 : ℝ) :
    rotVec ra1 dec1 ra2 dec2 ra3 dec3 =
      rotAbout (unitVec ra1 dec1) (unitVec ra2 dec2) (unitVec ra3 dec3) := by
  have hd : Transc.cos (ra2 - ra1) * Transc.cos dec1 * Transc.cos dec2
      + Transc.sin dec1 * Transc.sin dec2 = dot (unitVec ra1 dec1) (unitVec ra2 dec2) := by
    have := dotRD_eq ra1 dec1 ra2 dec2
    unfold dotRD at this
    rw [this, ← cos_neg (ra1 - ra2)]
    simp only [TranscReal.sin_def, TranscReal.cos_def, neg_sub]
    ring
  unfold rotVec rotAbout
  simp only [hd]
  rw [clipPM1_of_mem (neg_one_le_dot (unitVec_isUnit ..) (unitVec_isUnit ..))
    (dot_le_one (unitVec_isUnit ..) (unitVec_isUnit ..))]
  simp only [TranscReal.sin_def, TranscReal.acos_def, TranscReal.sqrt_def, sin_arccos]

/-- the output direction of `rotate_spherical_vector` has the rotated vector as unit vector -/
theorem unitVec_vecToRaDec {v : V3 ℝ} (h : IsUnit3 v) :
    unitVec (vecToRaDec v).1 (vecToRaDec v).2 = v := by
  have h' : v.x ^ 2 + v.y ^ 2 + v.z ^ 2 = 1 := by simp only [IsUnit3, dot] at h; linarith
  have hz : -1 ≤ v.z ∧ v.z ≤ 1 := by constructor <;> nlinarith [sq_nonneg v.x, sq_nonneg v.y]
  have key := unitVec_atan2_arcsin h
  have hper : ∀ a : ℝ, cos (a + (if a < 0 then (twoPi : ℝ) else 0)) = cos a ∧
      sin (a + (if a < 0 then (twoPi : ℝ) else 0)) = sin a := by
    intro a
    split_ifs
    · rw [twoPi_eq]; exact ⟨cos_add_two_pi a, sin_add_two_pi a⟩
    · simp
  simp only [vecToRaDec, clipPM1_of_mem hz.1 hz.2]
  simp only [unitVec, TranscReal.sin_def, TranscReal.cos_def, TranscReal.asin_def,
    cos_modF_twoPi, sin_modF_twoPi, (hper _).1, (hper _).2] at key ⊢
  exact key

/-! ### `psi_to_dec_and_ra` -/

theorem psiCircle_isUnit (srcDec srcRa psi t : ℝ) : IsUnit3 (psiCircle srcDec srcRa psi t) := by
  simp only [IsUnit3, dot, psiCircle, TranscReal.sin_def, TranscReal.cos_def, TranscReal.pi_def,
    sin_pi_div_two_sub, cos_pi_div_two_sub]
  have h1 := sin_sq_add_cos_sq psi
  have h2 := sin_sq_add_cos_sq srcDec
  have h3 := sin_sq_add_cos_sq srcRa
  have h4 := sin_sq_add_cos_sq t
  grind

/-- the circle point mirrored in x (`ra = π − azi`) has scalar product `cos ψ` with the source -/
theorem psiCircle_dot (srcDec srcRa psi t : ℝ) :
    let v := psiCircle srcDec srcRa psi t
    dot (unitVec srcRa srcDec) ⟨-v.x, v.y, v.z⟩ = cos psi := by
  simp only [dot, unitVec, psiCircle, TranscReal.sin_def, TranscReal.cos_def, TranscReal.pi_def,
    sin_pi_div_two_sub, cos_pi_div_two_sub]
  have h2 := sin_sq_add_cos_sq srcDec
  have h3 := sin_sq_add_cos_sq srcRa
  grind

/-- `arctan2(z, hypot(x, y))` of a unit vector is `arcsin z` -/
theorem atan2_hypot_eq_arcsin {x y z : ℝ} (h : x ^ 2 + y ^ 2 + z ^ 2 = 1) :
    Complex.arg ⟨√(x * x + y * y), z⟩ = arcsin z := by
  have hn : ‖(⟨√(x * x + y * y), z⟩ : ℂ)‖ = 1 := by
    rw [norm_mk, sq_sqrt (add_nonneg (mul_self_nonneg _) (mul_self_nonneg _))]
    rw [show x * x + y * y + z ^ 2 = 1 by linarith]
    exact sqrt_one
  rw [Complex.arg_of_re_nonneg (by simp [sqrt_nonneg]), hn]
  simp

/-- `arctan2(z, r)` with `r ≥ 0` is a declination in the canonical range, whatever `z` and `r` are -/
theorem abs_atan2_le_of_nonneg (z r : ℝ) (hr : 0 ≤ r) :
    -(π / 2) ≤ Complex.arg ⟨r, z⟩ ∧ Complex.arg ⟨r, z⟩ ≤ π / 2 := by
  rw [Complex.arg_of_re_nonneg (by simpa using hr)]
  exact ⟨neg_pi_div_two_le_arcsin _, arcsin_le_pi_div_two _⟩

/-- the direction returned by `psi_to_dec_and_ra` as a unit vector -/
theorem unitVec_xyzToDecRa {v : V3 ℝ} (h : IsUnit3 v) :
    unitVec (xyzToDecRa v).2 (xyzToDecRa v).1 = ⟨-v.x, v.y, v.z⟩ := by
  have h' : v.x ^ 2 + v.y ^ 2 + v.z ^ 2 = 1 := by simp only [IsUnit3, dot] at h; linarith
  have hz : -1 ≤ v.z ∧ v.z ≤ 1 := by constructor <;> nlinarith [sq_nonneg v.x, sq_nonneg v.y]
  obtain ⟨hc, hs⟩ := cos_sin_atan2_mul h'
  simp only [xyzToDecRa, unitVec, TranscReal.sin_def, TranscReal.cos_def, TranscReal.sqrt_def,
    TranscReal.pi_def, atan2_def, cos_modF_twoPi, sin_modF_twoPi, cos_pi_sub, sin_pi_sub,
    atan2_hypot_eq_arcsin h', sin_arcsin hz.1 hz.2]
  apply V3.ext'
  · show -cos (Complex.arg ⟨v.x, v.y⟩) * cos (arcsin v.z) = -v.x
    rw [neg_mul, hc]
  · exact hs
  · rfl

theorem unitVec_psiToDecRa (srcDec srcRa psi t : ℝ) :
    let v := psiCircle srcDec srcRa psi t
    unitVec (psiToDecRa srcDec srcRa psi t).2 (psiToDecRa srcDec srcRa psi t).1 = ⟨-v.x, v.y, v.z⟩ :=
  unitVec_xyzToDecRa (psiCircle_isUnit ..)

/-! ### astropy's relocation -/

/-- Vincenty's formula returns an angle whose cosine is the scalar product of the unit vectors -/
theorem cos_vincenty (lon1 lat1 lon2 lat2 : ℝ) :
    cos (vincenty lon1 lat1 lon2 lat2) = dotRD lon1 lat1 lon2 lat2 := by
  rw [dotRD_eq, ← cos_neg (lon1 - lon2), neg_sub]
  simp only [vincenty, TranscReal.sin_def, TranscReal.cos_def, TranscReal.sqrt_def, atan2_def]
  set d := lon2 - lon1
  set num1 := cos lat2 * sin d
  set num2 := cos lat1 * sin lat2 - sin lat1 * cos lat2 * cos d
  set den := sin lat1 * sin lat2 + cos lat1 * cos lat2 * cos d with hden
  have hsum : num1 * num1 + num2 * num2 + den * den = 1 := by
    have h1 := sin_sq_add_cos_sq lat1
    have h2 := sin_sq_add_cos_sq lat2
    have h3 := sin_sq_add_cos_sq d
    simp only [num1, num2, den]
    grind
  have hnn : 0 ≤ num1 * num1 + num2 * num2 := add_nonneg (mul_self_nonneg _) (mul_self_nonneg _)
  have hnorm : ‖(⟨den, √(num1 * num1 + num2 * num2)⟩ : ℂ)‖ = 1 := by
    rw [norm_mk, sq_sqrt hnn]
    rw [show den ^ 2 + (num1 * num1 + num2 * num2) = 1 by linarith]
    exact sqrt_one
  have hne : (⟨den, √(num1 * num1 + num2 * num2)⟩ : ℂ) ≠ 0 := by
    intro h; rw [h] at hnorm; simp at hnorm
  rw [Complex.cos_arg hne, hnorm]
  simp only [div_one]
  ring

/-- `offset_by`: the new point lies at separation `dist` from the start point — exactly, unless
the start point is inside astropy's polar cap `0 < cos lat < eps` -/
theorem offsetBy_dot {eps : ℝ} (heps : 0 < eps) (lon lat posang dist : ℝ)
    (h : eps ≤ cos lat ∨ cos lat = 0) :
    dotRD lon lat (offsetBy eps lon lat posang dist).1 (offsetBy eps lon lat posang dist).2 = cos dist := by
  rw [dotRD_eq]
  simp only [offsetBy, TranscReal.sin_def, TranscReal.cos_def, TranscReal.asin_def, TranscReal.pi_def,
    atan2_def]
  set C := sin lat
  set S := cos lat
  set ca := cos dist
  set sa := sin dist
  set cB := cos posang
  set sB := sin posang
  set cb := C * ca + S * sa * cB with hcb
  have hCS : C ^ 2 + S ^ 2 = 1 := sin_sq_add_cos_sq lat
  have ha : sa ^ 2 + ca ^ 2 = 1 := sin_sq_add_cos_sq dist
  have hB : sB ^ 2 + cB ^ 2 = 1 := sin_sq_add_cos_sq posang
  -- 1 − cos_b² as a sum of squares
  have hsb2 : 1 - cb ^ 2 = S ^ 2 * sB ^ 2 + (C * sa - S * cB * ca) ^ 2 := by
    simp only [cb]; grind
  have hcb1 : -1 ≤ cb ∧ cb ≤ 1 := by
    constructor <;> nlinarith [sq_nonneg (S * sB), sq_nonneg (C * sa - S * cB * ca)]
  rw [sin_arcsin hcb1.1 hcb1.2, cos_arcsin]
  rcases h with hS | hS
  · -- regular branch
    have hSpos : 0 < S := lt_of_lt_of_le heps hS
    rw [if_neg (not_lt.mpr hS)]
    rw [show lon - modF (lon + Complex.arg ⟨ca - cb * C, sa * sB * S⟩) twoPi
          = -(modF (lon + Complex.arg ⟨ca - cb * C, sa * sB * S⟩) twoPi - lon) by ring, cos_neg,
        cos_sub, cos_modF_twoPi, sin_modF_twoPi]
    have hA : cos (lon + Complex.arg ⟨ca - cb * C, sa * sB * S⟩) * cos lon
        + sin (lon + Complex.arg ⟨ca - cb * C, sa * sB * S⟩) * sin lon
        = cos (Complex.arg ⟨ca - cb * C, sa * sB * S⟩) := by
      rw [cos_add, sin_add]
      linear_combination (cos (Complex.arg ⟨ca - cb * C, sa * sB * S⟩)) * sin_sq_add_cos_sq lon
    rw [hA]
    -- hypot² = S²·(1 − cos_b²)
    have hhyp : (ca - cb * C) ^ 2 + (sa * sB * S) ^ 2 = S ^ 2 * (1 - cb ^ 2) := by
      simp only [cb]; grind
    by_cases h0 : 1 - cb ^ 2 = 0
    · -- the new point is a pole: xcos_A = 0
      have hx : ca - cb * C = 0 := by
        have : (ca - cb * C) ^ 2 = 0 := by nlinarith [sq_nonneg (ca - cb * C), sq_nonneg (sa * sB * S)]
        exact pow_eq_zero_iff (two_ne_zero) |>.mp this
      rw [h0, sqrt_zero]; linarith
    · have hpos : 0 < 1 - cb ^ 2 := lt_of_le_of_ne (by nlinarith) (Ne.symm h0)
      have hne : (⟨ca - cb * C, sa * sB * S⟩ : ℂ) ≠ 0 := by
        intro hc
        have e1 : ca - cb * C = 0 := by simpa using congrArg Complex.re hc
        have e2 : sa * sB * S = 0 := by simpa using congrArg Complex.im hc
        rw [e1, e2] at hhyp
        have : 0 < S ^ 2 * (1 - cb ^ 2) := mul_pos (pow_pos hSpos 2) hpos
        linarith
      rw [Complex.cos_arg hne, norm_mk, hhyp, sqrt_mul (sq_nonneg S), sqrt_sq hSpos.le]
      have hs : √(1 - cb ^ 2) ≠ 0 := (sqrt_pos.mpr hpos).ne'
      field_simp
      ring
  · -- the start point is a pole: the longitude does not matter
    rw [hS] at hCS ⊢
    have : cb = C * ca := by simp only [cb, hS]; ring
    rw [this]
    have hC2 : C ^ 2 = 1 := by linarith
    linear_combination ca * hC2

/-- inside astropy's polar cap `0 ≤ cos lat < eps` (where `offset_by` substitutes the limiting
longitude offset) the scalar product with the start point misses `cos dist` by at most `3·cos lat` -/
theorem offsetBy_dot_cap {eps : ℝ} (lon lat posang dist : ℝ) (h0 : 0 ≤ cos lat) (h1 : cos lat < eps) :
    |dotRD lon lat (offsetBy eps lon lat posang dist).1 (offsetBy eps lon lat posang dist).2 - cos dist|
      ≤ 3 * cos lat := by
  rw [dotRD_eq]
  simp only [offsetBy, TranscReal.sin_def, TranscReal.cos_def, TranscReal.asin_def, TranscReal.pi_def]
  rw [if_pos h1]
  set C := sin lat
  set S := cos lat
  set ca := cos dist
  set sa := sin dist
  set cB := cos posang
  set cb := C * ca + S * sa * cB with hcb
  set K := cos (lon - modF (lon + (π / 2 + C * (π / 2 - posang))) twoPi)
  have hCS : C ^ 2 + S ^ 2 = 1 := sin_sq_add_cos_sq lat
  have hS1 : S ≤ 1 := cos_le_one lat
  have hC : |C| ≤ 1 := abs_sin_le_one lat
  have hca : |ca| ≤ 1 := abs_cos_le_one dist
  have hsa : |sa| ≤ 1 := abs_sin_le_one dist
  have hcB : |cB| ≤ 1 := abs_cos_le_one posang
  have hK : |K| ≤ 1 := abs_cos_le_one _
  have hcb1 : -1 ≤ cb ∧ cb ≤ 1 := by
    have hB : sin posang ^ 2 + cB ^ 2 = 1 := sin_sq_add_cos_sq posang
    have ha : sa ^ 2 + ca ^ 2 = 1 := sin_sq_add_cos_sq dist
    have hsb2 : 1 - cb ^ 2 = S ^ 2 * sin posang ^ 2 + (C * sa - S * cB * ca) ^ 2 := by
      simp only [cb]; grind
    constructor <;> nlinarith [sq_nonneg (S * sin posang), sq_nonneg (C * sa - S * cB * ca)]
  rw [sin_arcsin hcb1.1 hcb1.2, cos_arcsin]
  set r := √(1 - cb ^ 2)
  have hr0 : 0 ≤ r := sqrt_nonneg _
  have hr1 : r ≤ 1 := by
    rw [show (1 : ℝ) = √1 by simp]
    exact sqrt_le_sqrt (by nlinarith [sq_nonneg cb])
  have t1 : |S * r * K| ≤ S := by
    rw [abs_mul, abs_mul, abs_of_nonneg h0, abs_of_nonneg hr0]
    calc S * r * |K| ≤ S * 1 * 1 := by gcongr
      _ = S := by ring
  have t2 : |C * cb - ca| ≤ 2 * S := by
    have e : C * cb - ca = S * (-(S * ca) + C * sa * cB) := by
      simp only [cb]; linear_combination ca * hCS
    rw [e, abs_mul, abs_of_nonneg h0]
    have : |-(S * ca) + C * sa * cB| ≤ 2 := by
      calc |-(S * ca) + C * sa * cB| ≤ |-(S * ca)| + |C * sa * cB| := abs_add_le _ _
        _ = S * |ca| + |C| * |sa| * |cB| := by rw [abs_neg, abs_mul, abs_mul, abs_mul, abs_of_nonneg h0]
        _ ≤ 1 * 1 + 1 * 1 * 1 := by gcongr
        _ = 2 := by norm_num
    calc S * |-(S * ca) + C * sa * cB| ≤ S * 2 := by gcongr
      _ = 2 * S := by ring
  calc |S * r * K + C * cb - ca| = |S * r * K + (C * cb - ca)| := by ring_nf
    _ ≤ |S * r * K| + |C * cb - ca| := abs_add_le _ _
    _ ≤ S + 2 * S := add_le_add t1 t2
    _ = 3 * S := by ring

/-! ### triangle inequality for the angle between unit vectors -/

/-- Cauchy–Schwarz in three dimensions -/
theorem dot_sq_le (a b : V3 ℝ) : dot a b ^ 2 ≤ dot a a * dot b b := by
  simp only [dot]
  nlinarith [sq_nonneg (a.x * b.y - a.y * b.x), sq_nonneg (a.y * b.z - a.z * b.y),
    sq_nonneg (a.z * b.x - a.x * b.z)]

/-- the angle between unit vectors obeys the triangle inequality -/
theorem arccos_dot_triangle {u v w : V3 ℝ} (hu : IsUnit3 u) (hv : IsUnit3 v) (hw : IsUnit3 w) :
    arccos (dot u w) ≤ arccos (dot u v) + arccos (dot v w) := by
  have hp := And.intro (neg_one_le_dot hu hv) (dot_le_one hu hv)
  have hq := And.intro (neg_one_le_dot hv hw) (dot_le_one hv hw)
  generalize hpd : dot u v = p at hp
  generalize hqd : dot v w = q at hq
  have hp2 : 0 ≤ 1 - p ^ 2 := by nlinarith
  have hq2 : 0 ≤ 1 - q ^ 2 := by nlinarith
  -- components of u and w orthogonal to v
  have hu' : u.x * u.x + u.y * u.y + u.z * u.z = 1 := hu
  have hv' : v.x * v.x + v.y * v.y + v.z * v.z = 1 := hv
  have hw' : w.x * w.x + w.y * w.y + w.z * w.z = 1 := hw
  have hpd' : u.x * v.x + u.y * v.y + u.z * v.z = p := hpd
  have hqd' : v.x * w.x + v.y * w.y + v.z * w.z = q := hqd
  have e1 : dot (⟨u.x - p * v.x, u.y - p * v.y, u.z - p * v.z⟩ : V3 ℝ)
      ⟨w.x - q * v.x, w.y - q * v.y, w.z - q * v.z⟩ = dot u w - p * q := by
    simp only [dot]
    linear_combination (-q) * hpd' + (-p) * hqd' + (p * q) * hv'
  have e2 : dot (⟨u.x - p * v.x, u.y - p * v.y, u.z - p * v.z⟩ : V3 ℝ)
      ⟨u.x - p * v.x, u.y - p * v.y, u.z - p * v.z⟩ = 1 - p ^ 2 := by
    simp only [dot]
    linear_combination hu' + (-2 * p) * hpd' + p ^ 2 * hv'
  have e3 : dot (⟨w.x - q * v.x, w.y - q * v.y, w.z - q * v.z⟩ : V3 ℝ)
      ⟨w.x - q * v.x, w.y - q * v.y, w.z - q * v.z⟩ = 1 - q ^ 2 := by
    simp only [dot]
    linear_combination hw' + (-2 * q) * hqd' + q ^ 2 * hv'
  have hcs := dot_sq_le ⟨u.x - p * v.x, u.y - p * v.y, u.z - p * v.z⟩
    ⟨w.x - q * v.x, w.y - q * v.y, w.z - q * v.z⟩
  rw [e1, e2, e3] at hcs
  have habs : |dot u w - p * q| ≤ √(1 - p ^ 2) * √(1 - q ^ 2) := by
    rw [← sqrt_mul hp2]; exact abs_le_sqrt hcs
  have key : p * q - √(1 - p ^ 2) * √(1 - q ^ 2) ≤ dot u w := by
    linarith [(abs_le.mp habs).1]
  by_cases hsum : arccos p + arccos q ≤ π
  · have hcos : cos (arccos p + arccos q) = p * q - √(1 - p ^ 2) * √(1 - q ^ 2) := by
      rw [cos_add, cos_arccos hp.1 hp.2, cos_arccos hq.1 hq.2, sin_arccos, sin_arccos]
    calc arccos (dot u w) ≤ arccos (cos (arccos p + arccos q)) := arccos_le_arccos (hcos ▸ key)
      _ = arccos p + arccos q := arccos_cos (add_nonneg (arccos_nonneg p) (arccos_nonneg q)) hsum
  · linarith [arccos_le_pi (dot u w)]

/-! ### facts used for the bound inside astropy's polar cap and for the NaN-domain theorems -/

/-- astropy's `cos_b` is a cosine: it lies in `[-1, 1]` in exact arithmetic -/
theorem offsetCosB_mem (lat posang dist : ℝ) :
    -1 ≤ offsetCosB lat posang dist ∧ offsetCosB lat posang dist ≤ 1 := by
  simp only [offsetCosB, TranscReal.sin_def, TranscReal.cos_def]
  have hCS := sin_sq_add_cos_sq lat
  have ha := sin_sq_add_cos_sq dist
  have hB := sin_sq_add_cos_sq posang
  have hsb2 : 1 - (sin lat * cos dist + cos lat * sin dist * cos posang) ^ 2
      = cos lat ^ 2 * sin posang ^ 2 + (sin lat * sin dist - cos lat * cos posang * cos dist) ^ 2 := by
    grind
  constructor <;>
    nlinarith [sq_nonneg (cos lat * sin posang), sq_nonneg (sin lat * sin dist - cos lat * cos posang * cos dist)]

/-- the latitude returned by `offset_by` does not depend on the pole threshold -/
theorem offsetBy_snd (eps eps' lon lat posang dist : ℝ) :
    (offsetBy eps lon lat posang dist).2 = (offsetBy eps' lon lat posang dist).2 := rfl

/-- scalar product with a pole: only the declination matters -/
theorem dotRD_pole (ra0 ra dec p : ℝ) (hp : cos p = 0) : dotRD ra0 p ra dec = sin p * sin dec := by
  rw [dotRD_eq, hp]; ring

/-! ### block broadcast vs. `np.take(src_idxs)` -/

/-- entries below the current block position do not matter -/
theorem blockBroadcastFrom_cons_lt {α : Type} (xs : List α) :
    ∀ (start i : ℕ) (t : List ℕ), i < start →
      blockBroadcastFrom start xs (i :: t) = blockBroadcastFrom start xs t := by
  induction xs with
  | nil => intros; rfl
  | cons x rest ih =>
    intro start i t hlt
    have hne : ¬ i = start := by omega
    simp only [blockBroadcastFrom, List.count_cons, beq_iff_eq, hne, if_false, Nat.add_zero]
    rw [ih (start + 1) i t (by omega)]

/-- prepending the smallest source index prepends the value of that source -/
theorem blockBroadcastFrom_cons_min {α : Type} (xs : List α) :
    ∀ (start i : ℕ) (t : List ℕ), (∀ j ∈ t, i ≤ j) → start ≤ i → i < start + xs.length →
      (blockBroadcastFrom start xs (i :: t)).map some
        = xs[i - start]? :: (blockBroadcastFrom start xs t).map some := by
  induction xs with
  | nil => intro start i t _ h1 h2; simp at h2; omega
  | cons x rest ih =>
    intro start i t hmin h1 h2
    by_cases heq : i = start
    · subst heq
      simp only [blockBroadcastFrom, List.count_cons_self, Nat.sub_self, List.getElem?_cons_zero]
      rw [blockBroadcastFrom_cons_lt rest (i + 1) i t (by omega)]
      simp [List.replicate_succ]
    · have hlt : start < i := by omega
      have hc0 : t.count start = 0 := by
        rw [List.count_eq_zero]
        intro hmem
        have := hmin start hmem
        omega
      have hne : ¬ i = start := heq
      simp only [blockBroadcastFrom, List.count_cons, beq_iff_eq, hne, if_false, Nat.add_zero, hc0,
        List.replicate_zero, List.nil_append]
      rw [ih (start + 1) i t hmin (by omega) (by simp at h2; omega)]
      have : i - start = (i - (start + 1)) + 1 := by omega
      rw [this, List.getElem?_cons_succ]

/-- **for source indices in ascending order the block layout is `np.take(src_idxs)`** -/
theorem blockBroadcast_eq_take_of_sorted {α : Type} (xs : List α) (idxs : List ℕ)
    (hs : idxs.Pairwise (· ≤ ·)) (hr : ∀ i ∈ idxs, i < xs.length) :
    (blockBroadcast xs idxs).map some = takeSrc xs idxs := by
  unfold blockBroadcast takeSrc
  induction idxs with
  | nil =>
    have : ∀ (ys : List α) (s : ℕ), blockBroadcastFrom s ys [] = [] := by
      intro ys; induction ys with
      | nil => intro s; rfl
      | cons y r ih => intro s; simp [blockBroadcastFrom, ih]
    simp [this]
  | cons i t ih =>
    rw [List.pairwise_cons] at hs
    rw [blockBroadcastFrom_cons_min xs 0 i t hs.1 (Nat.zero_le _) (by simpa using hr i (by simp))]
    simp only [Nat.sub_zero, List.map_cons]
    rw [ih hs.2 (fun j hj => hr j (List.mem_cons_of_mem _ hj))]

/-! ### the relocation onto the event's own true direction is the identity -/

/-- Vincenty's angle: its sine is the length of the numerator vector -/
theorem sin_vincenty (lon1 lat1 lon2 lat2 : ℝ) :
    sin (vincenty lon1 lat1 lon2 lat2) =
      √((cos lat2 * sin (lon2 - lon1)) * (cos lat2 * sin (lon2 - lon1))
        + (cos lat1 * sin lat2 - sin lat1 * cos lat2 * cos (lon2 - lon1))
          * (cos lat1 * sin lat2 - sin lat1 * cos lat2 * cos (lon2 - lon1))) := by
  simp only [vincenty, TranscReal.sin_def, TranscReal.cos_def, TranscReal.sqrt_def, atan2_def]
  set d := lon2 - lon1
  set num1 := cos lat2 * sin d
  set num2 := cos lat1 * sin lat2 - sin lat1 * cos lat2 * cos d
  set den := sin lat1 * sin lat2 + cos lat1 * cos lat2 * cos d
  have hsum : num1 * num1 + num2 * num2 + den * den = 1 := by
    have h1 := sin_sq_add_cos_sq lat1
    have h2 := sin_sq_add_cos_sq lat2
    have h3 := sin_sq_add_cos_sq d
    simp only [num1, num2, den]
    grind
  have hnn : 0 ≤ num1 * num1 + num2 * num2 := add_nonneg (mul_self_nonneg _) (mul_self_nonneg _)
  have hnorm : ‖(⟨den, √(num1 * num1 + num2 * num2)⟩ : ℂ)‖ = 1 := by
    rw [norm_mk, sq_sqrt hnn]
    rw [show den ^ 2 + (num1 * num1 + num2 * num2) = 1 by linarith]
    exact sqrt_one
  rw [Complex.sin_arg, hnorm]
  simp

/-- `h·cos(position angle) = x`, `h·sin(position angle) = y` for the numerator vector `(x, y)` of
the position angle and its length `h` (also when the two points coincide or are antipodal: `h = 0`) -/
theorem norm_mul_cos_sin_arg (x y : ℝ) :
    √(x ^ 2 + y ^ 2) * cos (Complex.arg ⟨x, y⟩) = x ∧ √(x ^ 2 + y ^ 2) * sin (Complex.arg ⟨x, y⟩) = y := by
  rw [Complex.sin_arg, norm_mk]
  by_cases h0 : x ^ 2 + y ^ 2 = 0
  · have hx : x = 0 := by nlinarith [sq_nonneg x, sq_nonneg y]
    have hy : y = 0 := by nlinarith [sq_nonneg x, sq_nonneg y]
    subst hx; subst hy; simp
  · have hpos : 0 < x ^ 2 + y ^ 2 := lt_of_le_of_ne (by positivity) (Ne.symm h0)
    have hs : √(x ^ 2 + y ^ 2) ≠ 0 := (sqrt_pos.mpr hpos).ne'
    have hne : (⟨x, y⟩ : ℂ) ≠ 0 := by
      intro hc
      have h1 : x = 0 := by simpa using congrArg Complex.re hc
      have h2 : y = 0 := by simpa using congrArg Complex.im hc
      apply h0; rw [h1, h2]; ring
    rw [Complex.cos_arg hne, norm_mk]
    constructor <;> field_simp

theorem mk_real_mul (k c s : ℝ) : (⟨k * c, k * s⟩ : ℂ) = (k : ℂ) * ⟨c, s⟩ := by
  apply Complex.ext <;> simp

/-- **relocating onto the event's own true direction returns the reconstructed direction**
(astropy position angle + separation + offset): pins the position angle, not only the separation.
Needs the true direction outside astropy's polar cap and a canonical reconstructed declination. -/
theorem relocate_self {eps : ℝ} (tRa tDec rRa rDec : ℝ) (ht : eps ≤ cos tDec) (heps : 0 < eps)
    (hr : 0 ≤ cos rDec) :
    unitVec (relocate eps tRa tDec tRa tDec rRa rDec).1 (relocate eps tRa tDec tRa tDec rRa rDec).2
      = unitVec rRa rDec := by
  have hS : 0 < cos tDec := lt_of_lt_of_le heps ht
  -- the ingredients
  set Δ := rRa - tRa with hΔ
  set px := sin rDec * cos tDec - cos rDec * sin tDec * cos Δ with hpx
  set py := sin Δ * cos rDec with hpy
  set h := √(px ^ 2 + py ^ 2) with hh
  have hsinV : sin (vincenty tRa tDec rRa rDec) = h := by
    rw [sin_vincenty, hh]; congr 1; simp only [px, py, Δ]; ring
  have hcosV : cos (vincenty tRa tDec rRa rDec)
      = sin tDec * sin rDec + cos tDec * cos rDec * cos Δ := by
    rw [cos_vincenty, dotRD_eq, ← cos_neg (tRa - rRa), neg_sub]; ring
  have hPA : cos (posAngle tRa tDec rRa rDec) = cos (Complex.arg ⟨px, py⟩) ∧
      sin (posAngle tRa tDec rRa rDec) = sin (Complex.arg ⟨px, py⟩) := by
    simp only [posAngle, TranscReal.sin_def, TranscReal.cos_def, atan2_def, cos_modF_twoPi, sin_modF_twoPi]
    exact ⟨rfl, rfl⟩
  obtain ⟨hcB, hsB⟩ := norm_mul_cos_sin_arg px py
  rw [← hh] at hcB hsB
  have h1 := sin_sq_add_cos_sq tDec
  have h2 := sin_sq_add_cos_sq rDec
  have h3 := sin_sq_add_cos_sq Δ
  -- cos_b = sin rDec
  have hcb : offsetCosB tDec (posAngle tRa tDec rRa rDec) (vincenty tRa tDec rRa rDec) = sin rDec := by
    simp only [offsetCosB, TranscReal.sin_def, TranscReal.cos_def]
    rw [hsinV, hcosV, hPA.1]
    have : cos tDec * h * cos (Complex.arg ⟨px, py⟩) = cos tDec * px := by rw [mul_assoc, hcB]
    rw [this]; simp only [px]
    linear_combination (sin rDec) * h1
  have hsr : -1 ≤ sin rDec ∧ sin rDec ≤ 1 := ⟨neg_one_le_sin _, sin_le_one _⟩
  have hcosasin : cos (arcsin (sin rDec)) = cos rDec := by
    rw [cos_arcsin, show 1 - sin rDec ^ 2 = cos rDec ^ 2 by linarith, sqrt_sq hr]
  -- unfold the relocation (regular branch)
  have hlat : (relocate eps tRa tDec tRa tDec rRa rDec).2 = arcsin (sin rDec) := by
    show Transc.asin (offsetCosB tDec (posAngle tRa tDec rRa rDec) (vincenty tRa tDec rRa rDec)) = _
    rw [hcb]; rfl
  have hlon : (relocate eps tRa tDec tRa tDec rRa rDec).1
      = modF (tRa + Complex.arg ⟨cos tDec * cos rDec * cos Δ, cos tDec * cos rDec * sin Δ⟩) twoPi := by
    have hbranch : ¬ cos tDec < eps := not_lt.mpr ht
    have hcb' : sin tDec * cos (vincenty tRa tDec rRa rDec)
        + cos tDec * sin (vincenty tRa tDec rRa rDec) * cos (posAngle tRa tDec rRa rDec) = sin rDec := by
      have := hcb
      simpa only [offsetCosB, TranscReal.sin_def, TranscReal.cos_def] using this
    have hE1 : cos (vincenty tRa tDec rRa rDec) - (sin tDec * cos (vincenty tRa tDec rRa rDec)
          + cos tDec * sin (vincenty tRa tDec rRa rDec) * cos (posAngle tRa tDec rRa rDec)) * sin tDec
          = cos tDec * cos rDec * cos Δ := by
      rw [hcb', hcosV]; ring
    have hE2 : sin (vincenty tRa tDec rRa rDec) * sin (posAngle tRa tDec rRa rDec) * cos tDec
          = cos tDec * cos rDec * sin Δ := by
      rw [hsinV, hPA.2, hsB]; simp only [py]; ring
    simp only [relocate, offsetBy, TranscReal.sin_def, TranscReal.cos_def, if_neg hbranch, atan2_def]
    rw [hE1, hE2]
  rw [hlat, hlon]
  simp only [unitVec, TranscReal.sin_def, TranscReal.cos_def, cos_modF_twoPi, sin_modF_twoPi,
    sin_arcsin hsr.1 hsr.2, hcosasin]
  rcases hr.eq_or_lt with h0 | hpos
  · have hc0 : cos rDec = 0 := h0.symm
    apply V3.ext' <;> simp [hc0]
  · have hk : 0 < cos tDec * cos rDec := mul_pos hS hpos
    have hz : (⟨cos tDec * cos rDec * cos Δ, cos tDec * cos rDec * sin Δ⟩ : ℂ)
        = ((cos tDec * cos rDec : ℝ) : ℂ) * ⟨cos Δ, sin Δ⟩ := mk_real_mul _ _ _
    have hne : (⟨cos Δ, sin Δ⟩ : ℂ) ≠ 0 := by
      intro hc
      have e1 : cos Δ = 0 := by simpa using congrArg Complex.re hc
      have e2 : sin Δ = 0 := by simpa using congrArg Complex.im hc
      rw [e1, e2] at h3; norm_num at h3
    have hn1 : ‖(⟨cos Δ, sin Δ⟩ : ℂ)‖ = 1 := by
      rw [norm_mk, show cos Δ ^ 2 + sin Δ ^ 2 = 1 by linarith]; exact sqrt_one
    have hcA : cos (Complex.arg ⟨cos tDec * cos rDec * cos Δ, cos tDec * cos rDec * sin Δ⟩) = cos Δ := by
      rw [hz, Complex.arg_real_mul _ hk, Complex.cos_arg hne, hn1]; simp
    have hsA : sin (Complex.arg ⟨cos tDec * cos rDec * cos Δ, cos tDec * cos rDec * sin Δ⟩) = sin Δ := by
      rw [hz, Complex.arg_real_mul _ hk, Complex.sin_arg, hn1]; simp
    have hra : rRa = tRa + Δ := by simp only [Δ]; ring
    apply V3.ext'
    · show cos (tRa + _) * cos rDec = cos rRa * cos rDec
      rw [cos_add, hcA, hsA, hra, cos_add]
    · show sin (tRa + _) * cos rDec = sin rRa * cos rDec
      rw [sin_add, hcA, hsA, hra, sin_add]
    · rfl

/-! ### lists built by `filterMap` over an index range (the call-level models) -/

theorem filterMap_range_length {β : Type} (g : ℕ → Option β) :
    ∀ n : ℕ, (∀ j < n, (g j).isSome) → ((List.range n).filterMap g).length = n := by
  intro n
  induction n with
  | zero => intro _; simp
  | succ n ih =>
    intro h
    rw [List.range_succ, List.filterMap_append, List.length_append, ih (fun j hj => h j (by omega))]
    obtain ⟨v, hv⟩ := Option.isSome_iff_exists.mp (h n (by omega))
    simp [hv]

theorem filterMap_range_getElem? {β : Type} (g : ℕ → Option β) :
    ∀ n : ℕ, (∀ j < n, (g j).isSome) → ∀ i < n, ((List.range n).filterMap g)[i]? = g i := by
  intro n
  induction n with
  | zero => intro _ i hi; omega
  | succ n ih =>
    intro h i hi
    have hl := filterMap_range_length g n (fun j hj => h j (by omega))
    obtain ⟨v, hv⟩ := Option.isSome_iff_exists.mp (h n (by omega))
    rw [List.range_succ, List.filterMap_append]
    by_cases hin : i < n
    · rw [List.getElem?_append_left (by omega)]
      exact ih (fun j hj => h j (by omega)) i hin
    · have : i = n := by omega
      subst this
      rw [List.getElem?_append_right (by omega), hl]
      simp [hv]

theorem unitVec_modF (a d : ℝ) : unitVec (modF a twoPi) d = unitVec a d := by
  simp [unitVec, cos_modF_twoPi, sin_modF_twoPi]

/-! ### the relocation preserves the position angle -/

/-- `sin(separation)·(cos, sin)(position angle)` is the numerator vector of the position angle -/
theorem vincenty_posAngle_components (tRa tDec rRa rDec : ℝ) :
    sin (vincenty tRa tDec rRa rDec) * cos (posAngle tRa tDec rRa rDec)
      = sin rDec * cos tDec - cos rDec * sin tDec * cos (rRa - tRa) ∧
    sin (vincenty tRa tDec rRa rDec) * sin (posAngle tRa tDec rRa rDec)
      = sin (rRa - tRa) * cos rDec := by
  set Δ := rRa - tRa
  set px := sin rDec * cos tDec - cos rDec * sin tDec * cos Δ with hpx
  set py := sin Δ * cos rDec with hpy
  have hsinV : sin (vincenty tRa tDec rRa rDec) = √(px ^ 2 + py ^ 2) := by
    rw [sin_vincenty]; congr 1; simp only [px, py, Δ]; ring
  have hPA : cos (posAngle tRa tDec rRa rDec) = cos (Complex.arg ⟨px, py⟩) ∧
      sin (posAngle tRa tDec rRa rDec) = sin (Complex.arg ⟨px, py⟩) := by
    simp only [posAngle, TranscReal.sin_def, TranscReal.cos_def, atan2_def, cos_modF_twoPi, sin_modF_twoPi]
    exact ⟨rfl, rfl⟩
  obtain ⟨hcB, hsB⟩ := norm_mul_cos_sin_arg px py
  rw [hsinV, hPA.1, hPA.2]
  exact ⟨hcB, hsB⟩

theorem cos_modF_sub (u v : ℝ) : cos (modF u twoPi - v) = cos (u - v) := by
  rw [modF_eq_sub, twoPi_eq, show u - (⌊u / (2 * π)⌋ : ℤ) * (2 * π) - v = (u - v) - (⌊u / (2 * π)⌋ : ℤ) * (2 * π) by ring]
  exact cos_sub_int_mul_two_pi _ _

theorem sin_modF_sub (u v : ℝ) : sin (modF u twoPi - v) = sin (u - v) := by
  rw [modF_eq_sub, twoPi_eq, show u - (⌊u / (2 * π)⌋ : ℤ) * (2 * π) - v = (u - v) - (⌊u / (2 * π)⌋ : ℤ) * (2 * π) by ring]
  exact sin_sub_int_mul_two_pi _ _

/-- **`offset_by` in its regular branch: the position angle from the start point to the new point
is the position angle that was asked for** — stated for the relocation: the position angle
source → relocated event equals the position angle true → reco (all inputs with the source outside
astropy's polar cap; no condition on the event). -/
theorem relocate_posAngle {eps : ℝ} (heps : 0 < eps) (sRa sDec tRa tDec rRa rDec : ℝ)
    (hs : eps ≤ cos sDec) :
    posAngle sRa sDec (relocate eps sRa sDec tRa tDec rRa rDec).1 (relocate eps sRa sDec tRa tDec rRa rDec).2
      = posAngle tRa tDec rRa rDec := by
  have hS : 0 < cos sDec := lt_of_lt_of_le heps hs
  obtain ⟨hx, hy⟩ := vincenty_posAngle_components tRa tDec rRa rDec
  set B := posAngle tRa tDec rRa rDec with hB
  set a := vincenty tRa tDec rRa rDec with ha
  set C := sin sDec
  set S := cos sDec
  set cb := C * cos a + S * sin a * cos B with hcb
  have hCS : C ^ 2 + S ^ 2 = 1 := sin_sq_add_cos_sq sDec
  have haa : sin a ^ 2 + cos a ^ 2 = 1 := sin_sq_add_cos_sq a
  have hBB : sin B ^ 2 + cos B ^ 2 = 1 := sin_sq_add_cos_sq B
  have hcbm : -1 ≤ cb ∧ cb ≤ 1 := by
    have := offsetCosB_mem sDec B a
    simpa only [offsetCosB, TranscReal.sin_def, TranscReal.cos_def] using this
  set xc := cos a - cb * C with hxc
  set xs := sin a * sin B * S with hxs
  have hhyp : xc ^ 2 + xs ^ 2 = S ^ 2 * (1 - cb ^ 2) := by simp only [xc, xs, cb]; grind
  have hnn : 0 ≤ 1 - cb ^ 2 := by nlinarith
  have hsq : √(xc ^ 2 + xs ^ 2) = S * √(1 - cb ^ 2) := by
    rw [hhyp, sqrt_mul (sq_nonneg S), sqrt_sq hS.le]
  obtain ⟨hcA, hsA⟩ := norm_mul_cos_sin_arg xc xs
  rw [hsq] at hcA hsA
  -- the relocated point
  have hbranch : ¬ S < eps := not_lt.mpr hs
  have hout2 : (relocate eps sRa sDec tRa tDec rRa rDec).2 = arcsin cb := rfl
  have hout1 : (relocate eps sRa sDec tRa tDec rRa rDec).1 = modF (sRa + Complex.arg ⟨xc, xs⟩) twoPi := by
    simp only [relocate, offsetBy, TranscReal.sin_def, TranscReal.cos_def, atan2_def]
    rw [if_neg (hbranch : ¬ cos sDec < eps)]
  -- the numerator vector of the position angle source → relocated point is that of true → reco
  have hcomp : ∀ (X Y : ℝ), X = sin a * cos B → Y = sin a * sin B →
      modF (Complex.arg ⟨X, Y⟩) twoPi = B := by
    intro X Y hX hY
    rw [hX, hY, hx, hy, hB]
    simp only [posAngle, TranscReal.sin_def, TranscReal.cos_def, atan2_def]
  rw [hout1, hout2]
  simp only [posAngle, TranscReal.sin_def, TranscReal.cos_def, atan2_def, sin_arcsin hcbm.1 hcbm.2, cos_arcsin,
    cos_modF_sub, sin_modF_sub, add_sub_cancel_left]
  apply hcomp
  · -- S·x' = S·sin a·cos B
    have h1 : S * (cb * S - √(1 - cb ^ 2) * C * cos (Complex.arg ⟨xc, xs⟩)) = S * (sin a * cos B) := by
      linear_combination (-C) * hcA + cb * hCS + hcb - C * hxc
    exact mul_left_cancel₀ hS.ne' h1
  · have h2 : S * (sin (Complex.arg ⟨xc, xs⟩) * √(1 - cb ^ 2)) = S * (sin a * sin B) := by
      linear_combination hsA + hxs
    exact mul_left_cancel₀ hS.ne' h2

end Coords
