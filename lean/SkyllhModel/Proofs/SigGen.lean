/-
  Helper lemmas for Props/C18.lean (model: Model/SigGen.lean).
-/
import SkyllhModel.Model.SigGen
import Mathlib.Tactic
import Mathlib.Algebra.Order.Field.Basic
import Mathlib.Algebra.BigOperators.Group.List.Basic

open SigGen

namespace C18

/-! ### `bump` -/

theorem bump_sum : ∀ (n : List Int) (i : Nat) (d : Int) (n' : List Int),
    bump n i d = some n' → n'.sum = n.sum + d
  | [], _, _, _, h => by simp [bump] at h
  | x :: xs, 0, d, n', h => by
    simp only [bump, Option.some.injEq] at h
    subst h; simp only [List.sum_cons]; ring
  | x :: xs, i + 1, d, n', h => by
    simp only [bump, Option.map_eq_some_iff] at h
    obtain ⟨t, ht, rfl⟩ := h
    have := bump_sum xs i d t ht
    simp only [List.sum_cons, this]; ring

theorem bump_length : ∀ (n : List Int) (i : Nat) (d : Int) (n' : List Int),
    bump n i d = some n' → n'.length = n.length
  | [], _, _, _, h => by simp [bump] at h
  | x :: xs, 0, d, n', h => by
    simp only [bump, Option.some.injEq] at h
    subst h; simp
  | x :: xs, i + 1, d, n', h => by
    simp only [bump, Option.map_eq_some_iff] at h
    obtain ⟨t, ht, rfl⟩ := h
    simp [bump_length xs i d t ht]

theorem bump_isSome : ∀ (n : List Int) (i : Nat) (d : Int), i < n.length → ∃ n', bump n i d = some n'
  | [], _, _, h => by simp at h
  | x :: xs, 0, d, _ => ⟨_, rfl⟩
  | x :: xs, i + 1, d, h => by
    obtain ⟨t, ht⟩ := bump_isSome xs i d (by simpa using h)
    exact ⟨x :: t, by simp [bump, ht]⟩

/-- elementwise description of `bump` -/
theorem bump_get : ∀ (n : List Int) (i : Nat) (d : Int) (n' : List Int),
    bump n i d = some n' → ∀ j, n'[j]? = if j = i then (n[j]?).map (· + d) else n[j]?
  | [], _, _, _, h => by simp [bump] at h
  | x :: xs, 0, d, n', h => by
    simp only [bump, Option.some.injEq] at h
    subst h
    intro j
    cases j <;> simp
  | x :: xs, i + 1, d, n', h => by
    simp only [bump, Option.map_eq_some_iff] at h
    obtain ⟨t, ht, rfl⟩ := h
    intro j
    cases j with
    | zero => simp
    | succ j => simpa using bump_get xs i d t ht j

section generic
set_option linter.unusedSectionVars false
variable {F : Type} [Add F] [Mul F] [Div F] [LE F] [DecidableLE F] [LT F] [DecidableLT F] [OfNat F 0]

theorem incr_sum (right : Bool) (w : List F) : ∀ (us : List F) (n n' : List Int),
    incr right w n us = some n' → n'.sum = n.sum + us.length ∧ n'.length = n.length
  | [], n, n', h => by simp only [incr, Option.some.injEq] at h; subst h; simp
  | u :: us, n, n', h => by
    simp only [incr] at h
    split at h
    · exact absurd h (by simp)
    · rename_i t ht
      obtain ⟨h1, h2⟩ := incr_sum right w us t n' h
      rw [h1, h2, bump_sum _ _ _ _ ht, bump_length _ _ _ _ ht]
      refine ⟨?_, rfl⟩
      simp only [List.length_cons]; push_cast; ring

theorem decr_sum (right : Bool) (w : List F) : ∀ (us : List F) (n n' : List Int),
    decr right w n us = some n' → n'.sum = n.sum - us.length ∧ n'.length = n.length
  | [], n, n', h => by simp only [decr, Option.some.injEq] at h; subst h; simp
  | u :: us, n, n', h => by
    simp only [decr] at h
    split at h
    · exact absurd h (by simp)
    · rename_i t ht
      obtain ⟨h1, h2⟩ := decr_sum right w us t n' h
      rw [h1, h2, bump_sum _ _ _ _ ht, bump_length _ _ _ _ ht]
      refine ⟨?_, rfl⟩
      simp only [List.length_cons]; push_cast; ring

theorem decrOrig_sum (right : Bool) (w : List F) : ∀ (us : List F) (n n' : List Int),
    decrOrig right w n us = some n' → n'.sum = n.sum - us.length ∧ n'.length = n.length
  | [], n, n', h => by simp only [decrOrig, Option.some.injEq] at h; subst h; simp
  | u :: us, n, n', h => by
    simp only [decrOrig] at h
    split at h
    · exact absurd h (by simp)
    · rename_i t ht
      obtain ⟨h1, h2⟩ := decrOrig_sum right w us t n' h
      rw [h1, h2, bump_sum _ _ _ _ ht, bump_length _ _ _ _ ht]
      refine ⟨?_, rfl⟩
      simp only [List.length_cons]; push_cast; ring

/-- whatever the decrement procedure, if it removes one event per deviate the total is met -/
theorem distributeWith_sum (dec : List Int → List F → Option (List Int))
    (hdec : ∀ us n n', dec n us = some n' → n'.sum = n.sum - us.length ∧ n'.length = n.length)
    (right : Bool) (rnd : F → Int) (mean : Int) (m : F) (w us : List F) (n : List Int) (k : Nat)
    (h : distributeWith dec right rnd mean m w us = some (n, k)) :
    n.sum = mean ∧ n.length = w.length ∧ k ≤ us.length := by
  unfold distributeWith at h
  simp only at h
  have hlen : (roundCounts rnd m w).length = w.length := by simp [roundCounts]
  by_cases h1 : (roundCounts rnd m w).sum < mean
  · rw [if_pos h1] at h
    by_cases h2 : us.length < (mean - (roundCounts rnd m w).sum).toNat
    · rw [if_pos h2] at h; exact absurd h (by simp)
    · rw [if_neg h2] at h
      simp only [Option.map_eq_some_iff, Prod.mk.injEq] at h
      obtain ⟨t, ht, rfl, rfl⟩ := h
      obtain ⟨e1, e2⟩ := incr_sum right w _ _ _ ht
      have hl : (List.take (mean - (roundCounts rnd m w).sum).toNat us).length
          = (mean - (roundCounts rnd m w).sum).toNat := by
        rw [List.length_take]; omega
      refine ⟨?_, ?_, by omega⟩
      · rw [e1, hl]; omega
      · rw [e2, hlen]
  · rw [if_neg h1] at h
    by_cases h3 : mean < (roundCounts rnd m w).sum
    · rw [if_pos h3] at h
      by_cases h2 : us.length < ((roundCounts rnd m w).sum - mean).toNat
      · rw [if_pos h2] at h; exact absurd h (by simp)
      · rw [if_neg h2] at h
        simp only [Option.map_eq_some_iff, Prod.mk.injEq] at h
        obtain ⟨t, ht, rfl, rfl⟩ := h
        obtain ⟨e1, e2⟩ := hdec _ _ _ ht
        have hl : (List.take ((roundCounts rnd m w).sum - mean).toNat us).length
            = ((roundCounts rnd m w).sum - mean).toNat := by
          rw [List.length_take]; omega
        refine ⟨?_, ?_, by omega⟩
        · rw [e1, hl]; omega
        · rw [e2, hlen]
    · rw [if_neg h3] at h
      simp only [Option.some.injEq, Prod.mk.injEq] at h
      obtain ⟨rfl, rfl⟩ := h
      exact ⟨by omega, hlen, by omega⟩

end generic

/-! ### weighted choice over an ordered field -/

section field
set_option linter.unusedSectionVars false
variable {K : Type} [Field K] [LinearOrder K] [IsStrictOrderedRing K]

theorem sumFrom_eq (xs : List K) : ∀ acc, sumFrom acc xs = acc + xs.sum := by
  induction xs with
  | nil => intro acc; simp [sumFrom]
  | cons x xs ih => intro acc; simp only [sumFrom, ih, List.sum_cons]; ring

theorem sum_map_div (l : List K) (s : K) : (l.map (· / s)).sum = l.sum / s := by
  induction l with
  | nil => simp
  | cons x xs ih => simp only [List.map_cons, List.sum_cons, ih, add_div]

theorem sum_nonpos_int (n : List Int) (h : ∀ x ∈ n, x ≤ 0) : n.sum ≤ 0 := by
  induction n with
  | nil => simp
  | cons x xs ih =>
    have h1 := h x (by simp)
    have h2 := ih (fun y hy => h y (by simp [hy]))
    simp only [List.sum_cons]; omega

theorem sumSeq_eq (xs : List K) : sumSeq xs = xs.sum := by
  unfold sumSeq; rw [sumFrom_eq]; simp

theorem cumFrom_ge (xs : List K) : ∀ a, (∀ x ∈ xs, 0 ≤ x) → ∀ c ∈ cumFrom a xs, a ≤ c := by
  induction xs with
  | nil => intro a _ c hc; simp [cumFrom] at hc
  | cons x xs ih =>
    intro a h c hc
    simp only [cumFrom, List.mem_cons] at hc
    have hx : 0 ≤ x := h x (by simp)
    rcases hc with rfl | hc
    · linarith
    · have := ih (a + x) (fun y hy => h y (by simp [hy])) c hc
      linarith

theorem cumFrom_getLast (xs : List K) : ∀ a, xs ≠ [] → (cumFrom a xs).getLast? = some (a + xs.sum) := by
  induction xs with
  | nil => intro a h; exact absurd rfl h
  | cons x xs ih =>
    intro a _
    cases xs with
    | nil => simp [cumFrom]
    | cons y ys =>
      have := ih (a + x) (by simp)
      simp only [cumFrom] at this ⊢
      rw [List.getLast?_cons_cons, this]
      simp only [List.sum_cons]; congr 1; ring

/-- the search in a normalised running sum lands on an entry of positive weight -/
theorem search_cum (L u : K) (hL : 0 < L) (p : List K) : ∀ acc, (∀ x ∈ p, 0 ≤ x) →
    acc / L ≤ u → u < (acc + p.sum) / L →
    ∃ x, p[((cumFrom acc p).map (· / L)).countP (fun c => decide (c ≤ u))]? = some x ∧ 0 < x := by
  induction p with
  | nil =>
    intro acc _ h1 h2
    simp only [List.sum_nil, add_zero] at h2
    exact absurd (lt_of_le_of_lt h1 h2) (lt_irrefl _)
  | cons x xs ih =>
    intro acc hnn h1 h2
    have hxs : ∀ y ∈ xs, 0 ≤ y := fun y hy => hnn y (by simp [hy])
    simp only [cumFrom, List.map_cons, List.countP_cons, decide_eq_true_eq]
    by_cases hc : (acc + x) / L ≤ u
    · rw [if_pos hc]
      have h2' : u < (acc + x + xs.sum) / L := by
        simpa [List.sum_cons, add_assoc] using h2
      obtain ⟨y, hy, hpos⟩ := ih (acc + x) hxs hc h2'
      exact ⟨y, by simpa using hy, hpos⟩
    · rw [if_neg hc]
      have hlt : u < (acc + x) / L := not_le.mp hc
      have hz : ((cumFrom (acc + x) xs).map (· / L)).countP (fun c => decide (c ≤ u)) = 0 := by
        rw [List.countP_eq_zero]
        intro c hcm
        simp only [List.mem_map] at hcm
        obtain ⟨d, hd, rfl⟩ := hcm
        have : acc + x ≤ d := cumFrom_ge xs (acc + x) hxs d hd
        have : (acc + x) / L ≤ d / L := (div_le_div_iff_of_pos_right hL).mpr this
        simp only [decide_eq_true_eq, not_le]
        exact lt_of_lt_of_le hlt this
      rw [hz]
      refine ⟨x, by simp, ?_⟩
      have : acc / L < (acc + x) / L := lt_of_le_of_lt h1 hlt
      have := (div_lt_div_iff_of_pos_right hL).mp this
      linarith

theorem choice_valid (p : List K) (u : K) (hnn : ∀ x ∈ p, 0 ≤ x) (hs : 0 < p.sum)
    (hu0 : 0 ≤ u) (hu1 : u < 1) :
    ∃ x, p[choice true p u]? = some x ∧ 0 < x := by
  have hne : p ≠ [] := by rintro rfl; simp at hs
  unfold choice search normCdf cumsum
  simp only [if_true]
  rw [cumFrom_getLast p 0 hne]
  simp only [zero_add]
  apply search_cum p.sum u hs p 0 hnn
  · simpa using hu0
  · rw [zero_add, div_self (ne_of_gt hs)]; exact hu1

/-! ### the invariant of the count correction -/

/-- counts are non-negative and zero where the weight is zero -/
def Inv (n : List Int) (w : List K) : Prop :=
  n.length = w.length ∧ ∀ i (h1 : i < n.length) (h2 : i < w.length), 0 ≤ n[i] ∧ (w[i] = 0 → n[i] = 0)

theorem step_inv (n n' : List Int) (w : List K) (i : Nat) (d : Int) (hI : Inv n w)
    (hi : i < n.length) (hw : ∀ h : i < w.length, w[i] ≠ 0) (hd : 0 ≤ n[i] + d)
    (hb : bump n i d = some n') : Inv n' w := by
  obtain ⟨hlen, hI⟩ := hI
  have hl' := bump_length _ _ _ _ hb
  refine ⟨by rw [hl', hlen], ?_⟩
  intro j h1 h2
  have hj : j < n.length := by rw [← hl']; exact h1
  have hg := bump_get _ _ _ _ hb j
  rw [List.getElem?_eq_getElem h1, List.getElem?_eq_getElem hj] at hg
  by_cases hji : j = i
  · subst hji
    rw [if_pos rfl] at hg
    simp only [Option.map_some, Option.some.injEq] at hg
    rw [hg]
    exact ⟨hd, fun h0 => absurd h0 (hw h2)⟩
  · rw [if_neg hji] at hg
    simp only [Option.some.injEq] at hg
    rw [hg]
    exact hI j hj h2

theorem incr_inv (w : List K) (hnn : ∀ x ∈ w, 0 ≤ x) (hs : 0 < w.sum) :
    ∀ (us : List K) (n : List Int), Inv n w → (∀ u ∈ us, 0 ≤ u ∧ u < 1) →
      ∃ n', incr true w n us = some n' ∧ Inv n' w := by
  intro us
  induction us with
  | nil => intro n hI _; exact ⟨n, rfl, hI⟩
  | cons u us ih =>
    intro n hI hu
    obtain ⟨x, hx, hpos⟩ := choice_valid w u hnn hs (hu u (by simp)).1 (hu u (by simp)).2
    obtain ⟨hiw, hxe⟩ := List.getElem?_eq_some_iff.mp hx
    have hin : choice true w u < n.length := by rw [hI.1]; exact hiw
    obtain ⟨t, ht⟩ := bump_isSome n _ 1 hin
    have hI' : Inv t w := step_inv n t w _ 1 hI hin
      (fun h => by rw [hxe]; exact ne_of_gt hpos)
      (by have := (hI.2 _ hin hiw).1; omega) ht
    obtain ⟨n', hn', hI''⟩ := ih t hI' (fun v hv => hu v (by simp [hv]))
    exact ⟨n', by simp only [incr, ht, hn'], hI''⟩

theorem masked_length (n : List Int) (w : List K) (h : n.length = w.length) :
    (masked n w).length = w.length := by
  simp [masked, h]

theorem masked_get (n : List Int) (w : List K) (i : Nat) (h1 : i < n.length) (h2 : i < w.length)
    (h3 : i < (masked n w).length) : (masked n w)[i] = if 0 < n[i] then w[i] else 0 := by
  simp [masked, List.getElem_zipWith]

theorem decr_inv (w : List K) (hnn : ∀ x ∈ w, 0 ≤ x) :
    ∀ (us : List K) (n : List Int), Inv n w → (∀ u ∈ us, 0 ≤ u ∧ u < 1) → (us.length : Int) ≤ n.sum →
      ∃ n', decr true w n us = some n' ∧ Inv n' w := by
  intro us
  induction us with
  | nil => intro n hI _ _; exact ⟨n, rfl, hI⟩
  | cons u us ih =>
    intro n hI hu hsum
    have hlen := hI.1
    -- some dataset still has events, and its weight is positive
    have hex : ∃ x ∈ n, 0 < x := by
      by_contra hcon
      push Not at hcon
      have : n.sum ≤ 0 := sum_nonpos_int n hcon
      simp only [List.length_cons] at hsum
      push_cast at hsum
      omega
    obtain ⟨x, hxm, hxpos⟩ := hex
    obtain ⟨i, hi, rfl⟩ := List.getElem_of_mem hxm
    have hiw : i < w.length := by rw [← hlen]; exact hi
    have hwi : 0 < w[i] := by
      have h0 : 0 ≤ w[i] := hnn _ (List.getElem_mem hiw)
      rcases eq_or_lt_of_le h0 with h | h
      · have := (hI.2 i hi hiw).2 h.symm; omega
      · exact h
    -- the masked weights: non-negative, positive sum
    have hml := masked_length n w hlen
    have hmnn : ∀ y ∈ masked n w, 0 ≤ y := by
      intro y hy
      obtain ⟨j, hj, rfl⟩ := List.getElem_of_mem hy
      have hjw : j < w.length := by rw [← hml]; exact hj
      rw [masked_get n w j (by rw [hlen]; exact hjw) hjw hj]
      split_ifs
      · exact hnn _ (List.getElem_mem hjw)
      · exact le_refl _
    have him : i < (masked n w).length := by rw [hml]; exact hiw
    have hmi : (masked n w)[i] = w[i] := by rw [masked_get n w i hi hiw him, if_pos hxpos]
    have hS : 0 < (masked n w).sum := by
      have := List.single_le_sum hmnn _ (List.getElem_mem him)
      rw [hmi] at this
      exact lt_of_lt_of_le hwi this
    -- normalised masked weights
    have hS' : 0 < sumSeq (masked n w) := by rw [sumSeq_eq]; exact hS
    generalize hSdef : sumSeq (masked n w) = S at hS'
    have hpnn : ∀ y ∈ (masked n w).map (· / S), 0 ≤ y := by
      intro y hy
      simp only [List.mem_map] at hy
      obtain ⟨z, hz, rfl⟩ := hy
      exact div_nonneg (hmnn z hz) (le_of_lt hS')
    have hpsum : 0 < ((masked n w).map (· / S)).sum := by
      rw [sum_map_div]
      exact div_pos hS hS'
    obtain ⟨y, hy, hypos⟩ := choice_valid _ u hpnn hpsum (hu u (by simp)).1 (hu u (by simp)).2
    obtain ⟨hkl, hye⟩ := List.getElem?_eq_some_iff.mp hy
    generalize hk : choice true ((masked n w).map (· / S)) u = k at hkl hye
    have hkm : k < (masked n w).length := by simpa using hkl
    have hkw : k < w.length := by rw [← hml]; exact hkm
    have hkn : k < n.length := by rw [hlen]; exact hkw
    have hmk : 0 < (masked n w)[k] := by
      rw [List.getElem_map] at hye
      by_contra hneg
      push Not at hneg
      have : (masked n w)[k] / S ≤ 0 := div_nonpos_of_nonpos_of_nonneg hneg (le_of_lt hS')
      rw [hye] at this
      exact absurd hypos (not_lt.mpr this)
    rw [masked_get n w k hkn hkw hkm] at hmk
    have hnk : 0 < n[k] := by
      by_contra hneg
      rw [if_neg hneg] at hmk
      exact lt_irrefl _ hmk
    rw [if_pos hnk] at hmk
    obtain ⟨t, ht⟩ := bump_isSome n k (-1) hkn
    have hI' : Inv t w := step_inv n t w k (-1) hI hkn (fun _ => ne_of_gt hmk) (by omega) ht
    have hts : (us.length : Int) ≤ t.sum := by
      rw [bump_sum _ _ _ _ ht]
      simp only [List.length_cons] at hsum
      push_cast at hsum
      omega
    obtain ⟨n', hn', hI''⟩ := ih t hI' (fun v hv => hu v (by simp [hv])) hts
    refine ⟨n', ?_, hI''⟩
    simp only [decr]
    rw [hSdef, hk, ht]
    exact hn'

/-- what the theorems need to know about the rounding function -/
structure RoundOK (rnd : K → Int) : Prop where
  zero : rnd 0 = 0
  nonneg : ∀ x, 0 ≤ x → 0 ≤ rnd x

theorem roundCounts_inv (rnd : K → Int) (hr : RoundOK rnd) (m : K) (hm : 0 ≤ m) (w : List K)
    (hnn : ∀ x ∈ w, 0 ≤ x) : Inv (roundCounts rnd m w) w := by
  refine ⟨by simp [roundCounts], ?_⟩
  intro i h1 h2
  simp only [roundCounts, List.getElem_map]
  refine ⟨hr.nonneg _ (mul_nonneg hm (hnn _ (List.getElem_mem h2))), ?_⟩
  intro h0
  rw [h0, mul_zero, hr.zero]

/-- under the stated guard the (fixed) distribution never fails and keeps the invariant -/
theorem distribute_ok (rnd : K → Int) (hr : RoundOK rnd) (mean : Int) (hmean : 0 ≤ mean) (m : K) (hm : 0 ≤ m)
    (w us : List K) (hnn : ∀ x ∈ w, 0 ≤ x) (hs : 0 < w.sum) (hu : ∀ u ∈ us, 0 ≤ u ∧ u < 1)
    (hk : (mean - (roundCounts rnd m w).sum).natAbs ≤ us.length) :
    ∃ n k, distribute true rnd mean m w us = some (n, k) ∧ Inv n w := by
  have hI0 := roundCounts_inv rnd hr m hm w hnn
  unfold distribute distributeWith
  simp only
  by_cases h1 : (roundCounts rnd m w).sum < mean
  · rw [if_pos h1, if_neg (by omega)]
    obtain ⟨n', hn', hI⟩ := incr_inv w hnn hs (us.take (mean - (roundCounts rnd m w).sum).toNat) _ hI0
      (fun u hu' => hu u (List.mem_of_mem_take hu'))
    exact ⟨n', _, by rw [hn']; rfl, hI⟩
  · rw [if_neg h1]
    by_cases h3 : mean < (roundCounts rnd m w).sum
    · rw [if_pos h3, if_neg (by omega)]
      have hl : ((us.take ((roundCounts rnd m w).sum - mean).toNat).length : Int)
          ≤ (roundCounts rnd m w).sum := by
        rw [List.length_take]
        have : min ((roundCounts rnd m w).sum - mean).toNat us.length ≤ ((roundCounts rnd m w).sum - mean).toNat :=
          Nat.min_le_left _ _
        omega
      obtain ⟨n', hn', hI⟩ := decr_inv w hnn (us.take ((roundCounts rnd m w).sum - mean).toNat) _ hI0
        (fun u hu' => hu u (List.mem_of_mem_take hu')) hl
      exact ⟨n', _, by rw [hn']; rfl, hI⟩
    · rw [if_neg h3]
      exact ⟨_, _, rfl, hI0⟩

end field

/-! ### partition of the drawn rows by dataset and group -/

theorem le_foldl_max : ∀ (xs : List Nat) (a : Nat), a ≤ xs.foldl max a ∧ ∀ x ∈ xs, x ≤ xs.foldl max a
  | [], a => by simp
  | y :: ys, a => by
    obtain ⟨h1, h2⟩ := le_foldl_max ys (max a y)
    simp only [List.foldl_cons, List.mem_cons]
    refine ⟨le_trans (le_max_left _ _) h1, ?_⟩
    rintro x (rfl | hx)
    · exact le_trans (le_max_right _ _) h1
    · exact h2 x hx

theorem mem_uniq (xs : List Nat) (k : Nat) : k ∈ uniq xs ↔ k ∈ xs := by
  unfold uniq
  simp only [List.mem_filter, List.mem_range, List.contains_iff_mem]
  constructor
  · exact fun h => h.2
  · intro h
    exact ⟨Nat.lt_succ_of_le ((le_foldl_max xs 0).2 k h), h⟩

theorem uniq_nodup (xs : List Nat) : (uniq xs).Nodup := by
  unfold uniq
  exact List.Nodup.filter _ List.nodup_range

theorem sum_indicator (a : Nat) : ∀ ks : List Nat, ks.Nodup →
    (ks.map (fun k => if a == k then 1 else 0)).sum = if a ∈ ks then 1 else 0
  | [], _ => by simp
  | k :: ks, h => by
    rw [List.nodup_cons] at h
    have ih := sum_indicator a ks h.2
    simp only [List.map_cons, List.sum_cons, ih, List.mem_cons]
    by_cases hak : a = k
    · subst hak
      simp [h.1]
    · have : (a == k) = false := by simpa using hak
      simp [this, hak]

/-- counting the elements key by key over a duplicate-free key list that covers all keys gives the
length -/
theorem sum_count_keys {α : Type} (key : α → Nat) (ks : List Nat) (hnd : ks.Nodup) :
    ∀ xs : List α, (∀ x ∈ xs, key x ∈ ks) →
      (ks.map (fun k => (xs.filter (fun x => key x == k)).length)).sum = xs.length
  | [], _ => by simp
  | x :: xs, hall => by
    have ih := sum_count_keys key ks hnd xs (fun y hy => hall y (by simp [hy]))
    have hx : key x ∈ ks := hall x (by simp)
    have e : ∀ k, ((x :: xs).filter (fun y => key y == k)).length
        = (if key x == k then 1 else 0) + (xs.filter (fun y => key y == k)).length := by
      intro k
      by_cases h : key x == k <;> simp [h, Nat.add_comm]
    simp only [e, List.sum_map_add, ih, sum_indicator (key x) ks hnd, if_pos hx, List.length_cons]
    omega

theorem partition_ds (mrows : List (Nat × Cand)) :
    ((uniq (mrows.map (·.2.ds))).map (fun d => (mrows.filter (fun rc => rc.2.ds == d)).length)).sum
      = mrows.length :=
  sum_count_keys (fun rc : Nat × Cand => rc.2.ds) _ (uniq_nodup _) mrows
    (fun x hx => (mem_uniq _ _).mpr (List.mem_map_of_mem hx))

theorem partition_shg (mrows : List (Nat × Cand)) (d : Nat) :
    ((uniq ((mrows.filter (fun rc => rc.2.ds == d)).map (·.2.shg))).map
        (fun g => (mrows.filter (fun rc => rc.2.ds == d && rc.2.shg == g)).length)).sum
      = (mrows.filter (fun rc => rc.2.ds == d)).length := by
  have h := sum_count_keys (fun rc : Nat × Cand => rc.2.shg) _ (uniq_nodup _)
    (mrows.filter (fun rc => rc.2.ds == d)) (fun x hx => (mem_uniq _ _).mpr (List.mem_map.mpr ⟨x, hx, rfl⟩))
  rw [← h]
  congr 1
  apply List.map_congr_left
  intro g _
  rw [List.filter_filter]
  congr 1
  apply List.filter_congr
  intro rc _
  exact Bool.and_comm _ _

/-! ### drawing, redraw loop, replacement -/

section gen
set_option linter.unusedSectionVars false
variable {F : Type} [Add F] [Div F] [LE F] [DecidableLE F] [LT F] [DecidableLT F] [OfNat F 0]

theorem drawRows_spec (right : Bool) (cands : List Cand) (cdf : List F) :
    ∀ (us : List F) (rows : List (Nat × Cand)), drawRows right cands cdf us = some rows →
      rows.length = us.length ∧ ∀ rc ∈ rows, cands[rc.1]? = some rc.2
  | [], rows, h => by
    simp only [drawRows, Option.some.injEq] at h; subst h; simp
  | u :: us, rows, h => by
    simp only [drawRows] at h
    split at h
    · exact absurd h (by simp)
    · rename_i c hc
      simp only [Option.map_eq_some_iff] at h
      obtain ⟨t, ht, rfl⟩ := h
      obtain ⟨h1, h2⟩ := drawRows_spec right cands cdf us t ht
      refine ⟨by simp [h1], ?_⟩
      intro rc hrc
      simp only [List.mem_cons] at hrc
      rcases hrc with rfl | hrc
      · exact hc
      · exact h2 rc hrc

/-- a row that may be injected for dataset `ds` and group `shg` -/
def RowOK (cands : List Cand) (valid : Nat → Bool) (ds shg : Nat) (rc : Nat × Cand) : Prop :=
  cands[rc.1]? = some rc.2 ∧ rc.2.ds = ds ∧ rc.2.shg = shg ∧ valid rc.1 = true

/-- **loop invariant of the redraw loop**: the collected events are valid candidates of this dataset and
group and never more than needed; on exit there are exactly as many as needed. -/
theorem redraw_inv (right : Bool) (cands : List Cand) (cdf : List F) (valid : Nat → Bool) (ds shg need : Nat) :
    ∀ (fuel : Nat) (acc : List (Nat × Cand)) (us : List F) (res : List (Nat × Cand) × List F),
      redraw right cands cdf valid ds shg need fuel acc us = some res →
      acc.length ≤ need → (∀ rc ∈ acc, RowOK cands valid ds shg rc) →
      res.1.length = need ∧ (∀ rc ∈ res.1, RowOK cands valid ds shg rc) ∧ res.2.length ≤ us.length
  | 0, _, _, _, h, _, _ => by simp [redraw] at h
  | fuel + 1, acc, us, res, h, hlen, hacc => by
    simp only [redraw] at h
    by_cases h1 : need ≤ acc.length
    · rw [if_pos h1] at h
      simp only [Option.some.injEq] at h
      subst h
      exact ⟨by simp only; omega, hacc, le_refl _⟩
    · rw [if_neg h1] at h
      by_cases h2 : us.length < need - acc.length
      · rw [if_pos h2] at h; exact absurd h (by simp)
      · rw [if_neg h2] at h
        split at h
        · exact absurd h (by simp)
        · rename_i drawn hd
          obtain ⟨dl, dok⟩ := drawRows_spec right cands cdf _ _ hd
          have hkl : (drawn.filter (fun rc => rc.2.ds == ds && rc.2.shg == shg && valid rc.1)).length
              ≤ need - acc.length := by
            refine le_trans (List.length_filter_le _ _) ?_
            rw [dl, List.length_take]; exact Nat.min_le_left _ _
          have := redraw_inv right cands cdf valid ds shg need fuel _ _ res h
            (by rw [List.length_append]; omega)
            (by
              intro rc hrc
              rcases List.mem_append.mp hrc with hrc | hrc
              · exact hacc rc hrc
              · simp only [List.mem_filter, Bool.and_eq_true, beq_iff_eq] at hrc
                exact ⟨dok rc hrc.1, hrc.2.1.1, hrc.2.1.2, hrc.2.2⟩)
          refine ⟨this.1, this.2.1, le_trans this.2.2 ?_⟩
          rw [List.length_drop]; omega

theorem replaceInvalid_spec (valid : Nat → Bool) :
    ∀ (rows new out : List (Nat × Cand)), replaceInvalid valid rows new = some out →
      out.length = rows.length ∧ ∀ rc ∈ out, (rc ∈ rows ∧ valid rc.1 = true) ∨ rc ∈ new
  | [], [], out, h => by simp only [replaceInvalid, Option.some.injEq] at h; subst h; simp
  | [], _ :: _, out, h => by simp [replaceInvalid] at h
  | r :: rs, new, out, h => by
    simp only [replaceInvalid] at h
    by_cases hv : valid r.1 = true
    · rw [if_pos hv] at h
      simp only [Option.map_eq_some_iff] at h
      obtain ⟨t, ht, rfl⟩ := h
      obtain ⟨h1, h2⟩ := replaceInvalid_spec valid rs new t ht
      refine ⟨by simp [h1], ?_⟩
      intro rc hrc
      rcases List.mem_cons.mp hrc with rfl | hrc
      · exact Or.inl ⟨by simp, hv⟩
      · rcases h2 rc hrc with h | h
        · exact Or.inl ⟨List.mem_cons_of_mem _ h.1, h.2⟩
        · exact Or.inr h
    · rw [if_neg hv] at h
      cases new with
      | nil => simp at h
      | cons x new' =>
        simp only [Option.map_eq_some_iff] at h
        obtain ⟨t, ht, rfl⟩ := h
        obtain ⟨h1, h2⟩ := replaceInvalid_spec valid rs new' t ht
        refine ⟨by simp [h1], ?_⟩
        intro rc hrc
        rcases List.mem_cons.mp hrc with rfl | hrc
        · exact Or.inr (by simp)
        · rcases h2 rc hrc with h | h
          · exact Or.inl ⟨List.mem_cons_of_mem _ h.1, h.2⟩
          · exact Or.inr (List.mem_cons_of_mem _ h)

theorem genGroup_spec (right : Bool) (cands : List Cand) (cdf : List F) (valid : Nat → Bool) (ds shg : Nat)
    (rows : List (Nat × Cand)) (us : List F) (res : List (Nat × Cand) × List F)
    (hrows : ∀ rc ∈ rows, cands[rc.1]? = some rc.2 ∧ rc.2.ds = ds ∧ rc.2.shg = shg)
    (h : genGroup right cands cdf valid ds shg rows us = some res) :
    res.1.length = rows.length ∧ (∀ rc ∈ res.1, RowOK cands valid ds shg rc) ∧ res.2.length ≤ us.length := by
  unfold genGroup at h
  simp only at h
  by_cases hk : rows.countP (fun rc => !valid rc.1) = 0
  · rw [if_pos hk] at h
    simp only [Option.some.injEq] at h
    subst h
    refine ⟨rfl, ?_, le_refl _⟩
    intro rc hrc
    have := (List.countP_eq_zero.mp hk) rc hrc
    simp only [Bool.not_eq_true', Bool.not_eq_false] at this
    obtain ⟨a, b, c⟩ := hrows rc hrc
    exact ⟨a, b, c, this⟩
  · rw [if_neg hk] at h
    split at h
    · exact absurd h (by simp)
    · rename_i new us' hr
      simp only [Option.map_eq_some_iff] at h
      obtain ⟨out, hout, rfl⟩ := h
      obtain ⟨_, r2, r3⟩ := redraw_inv right cands cdf valid ds shg _ _ [] us (new, us') hr
        (Nat.zero_le _) (by simp)
      obtain ⟨o1, o2⟩ := replaceInvalid_spec valid rows new out hout
      refine ⟨o1, ?_, r3⟩
      intro rc hrc
      rcases o2 rc hrc with ⟨hm, hv⟩ | hm
      · obtain ⟨a, b, c⟩ := hrows rc hm
        exact ⟨a, b, c, hv⟩
      · exact r2 rc hm

/-- an injected row of dataset `ds` -/
def RowOKds (cands : List Cand) (valid : Nat → Bool) (ds : Nat) (rc : Nat × Cand) : Prop :=
  cands[rc.1]? = some rc.2 ∧ rc.2.ds = ds ∧ valid rc.1 = true

theorem genShgs_spec (right : Bool) (cands : List Cand) (cdf : List F) (valid : Nat → Bool) (ds : Nat)
    (mrows : List (Nat × Cand)) (hm : ∀ rc ∈ mrows, cands[rc.1]? = some rc.2) :
    ∀ (gs : List Nat) (us : List F) (res : List (Nat × Cand) × List F),
      genShgs right cands cdf valid ds mrows gs us = some res →
      res.1.length = (gs.map (fun g => (mrows.filter (fun rc => rc.2.ds == ds && rc.2.shg == g)).length)).sum ∧
      (∀ rc ∈ res.1, RowOKds cands valid ds rc) ∧ res.2.length ≤ us.length
  | [], us, res, h => by
    simp only [genShgs, Option.some.injEq] at h; subst h; simp
  | g :: gs, us, res, h => by
    simp only [genShgs] at h
    split at h
    · exact absurd h (by simp)
    · rename_i out us' hg
      split at h
      · exact absurd h (by simp)
      · rename_i rest us'' hrest
        simp only [Option.some.injEq] at h
        subst h
        obtain ⟨g1, g2, g3⟩ := genGroup_spec right cands cdf valid ds g _ us (out, us')
          (by
            intro rc hrc
            simp only [List.mem_filter, Bool.and_eq_true, beq_iff_eq] at hrc
            exact ⟨hm rc hrc.1, hrc.2.1, hrc.2.2⟩) hg
        obtain ⟨r1, r2, r3⟩ := genShgs_spec right cands cdf valid ds mrows hm gs us' (rest, us'') hrest
        refine ⟨?_, ?_, le_trans r3 g3⟩
        · simp only [List.length_append, List.map_cons, List.sum_cons] at g1 r1 ⊢
          rw [g1, r1]
        · intro rc hrc
          rcases List.mem_append.mp hrc with hrc | hrc
          · obtain ⟨a, b, _, d⟩ := g2 rc hrc
            exact ⟨a, b, d⟩
          · exact r2 rc hrc

theorem genDss_spec (right : Bool) (cands : List Cand) (cdf : List F) (valid : Nat → Bool)
    (mrows : List (Nat × Cand)) (hm : ∀ rc ∈ mrows, cands[rc.1]? = some rc.2) :
    ∀ (dl : List Nat) (us : List F) (res : List (Nat × List (Nat × Cand)) × List F),
      genDss right cands cdf valid mrows dl us = some res →
      (res.1.map (fun e => e.2.length)).sum
        = (dl.map (fun d => (mrows.filter (fun rc => rc.2.ds == d)).length)).sum ∧
      (∀ e ∈ res.1, e.1 ∈ dl ∧ ∀ rc ∈ e.2, RowOKds cands valid e.1 rc) ∧
      res.1.map (·.1) = dl ∧ res.2.length ≤ us.length
  | [], us, res, h => by
    simp only [genDss, Option.some.injEq] at h; subst h; simp
  | d :: dl, us, res, h => by
    simp only [genDss] at h
    split at h
    · exact absurd h (by simp)
    · rename_i out us' hg
      split at h
      · exact absurd h (by simp)
      · rename_i rest us'' hrest
        simp only [Option.some.injEq] at h
        subst h
        obtain ⟨g1, g2, g3⟩ := genShgs_spec right cands cdf valid d mrows hm _ us (out, us') hg
        obtain ⟨r1, r2, r3, r4⟩ := genDss_spec right cands cdf valid mrows hm dl us' (rest, us'') hrest
        refine ⟨?_, ?_, ?_, le_trans r4 g3⟩
        · simp only [List.map_cons, List.sum_cons] at g1 r1 ⊢
          rw [g1, r1, partition_shg mrows d]
        · intro e he
          rcases List.mem_cons.mp he with rfl | he
          · exact ⟨by simp, g2⟩
          · exact ⟨List.mem_cons_of_mem _ (r2 e he).1, (r2 e he).2⟩
        · simp only [List.map_cons] at r3 ⊢
          rw [r3]

end gen

section from_
set_option linter.unusedSectionVars false
variable {F : Type} [Add F] [Div F] [LE F] [DecidableLE F] [LT F] [DecidableLT F] [OfNat F 0]

/-- the row was selected by a deviate with property `U` -/
def FromDev (right : Bool) (cdf : List F) (U : F → Prop) (rc : Nat × Cand) : Prop :=
  ∃ u, U u ∧ rc.1 = search right cdf u

theorem drawRows_from (right : Bool) (cands : List Cand) (cdf : List F) (U : F → Prop) :
    ∀ (us : List F) (rows : List (Nat × Cand)), drawRows right cands cdf us = some rows →
      (∀ u ∈ us, U u) → ∀ rc ∈ rows, FromDev right cdf U rc
  | [], rows, h, _ => by
    simp only [drawRows, Option.some.injEq] at h; subst h; simp
  | u :: us, rows, h, hU => by
    simp only [drawRows] at h
    split at h
    · exact absurd h (by simp)
    · rename_i c hc
      simp only [Option.map_eq_some_iff] at h
      obtain ⟨t, ht, rfl⟩ := h
      intro rc hrc
      rcases List.mem_cons.mp hrc with rfl | hrc
      · exact ⟨u, hU u (by simp), rfl⟩
      · exact drawRows_from right cands cdf U us t ht (fun v hv => hU v (by simp [hv])) rc hrc

theorem redraw_from (right : Bool) (cands : List Cand) (cdf : List F) (valid : Nat → Bool) (ds shg need : Nat)
    (U : F → Prop) :
    ∀ (fuel : Nat) (acc : List (Nat × Cand)) (us : List F) (res : List (Nat × Cand) × List F),
      redraw right cands cdf valid ds shg need fuel acc us = some res →
      (∀ u ∈ us, U u) → (∀ rc ∈ acc, FromDev right cdf U rc) →
      (∀ rc ∈ res.1, FromDev right cdf U rc) ∧ (∀ u ∈ res.2, U u)
  | 0, _, _, _, h, _, _ => by simp [redraw] at h
  | fuel + 1, acc, us, res, h, hU, hacc => by
    simp only [redraw] at h
    by_cases h1 : need ≤ acc.length
    · rw [if_pos h1] at h
      simp only [Option.some.injEq] at h
      subst h
      exact ⟨hacc, hU⟩
    · rw [if_neg h1] at h
      by_cases h2 : us.length < need - acc.length
      · rw [if_pos h2] at h; exact absurd h (by simp)
      · rw [if_neg h2] at h
        split at h
        · exact absurd h (by simp)
        · rename_i drawn hd
          have hdr := drawRows_from right cands cdf U _ _ hd (fun u hu => hU u (List.mem_of_mem_take hu))
          exact redraw_from right cands cdf valid ds shg need U fuel _ _ res h
            (fun u hu => hU u (List.mem_of_mem_drop hu))
            (by
              intro rc hrc
              rcases List.mem_append.mp hrc with hrc | hrc
              · exact hacc rc hrc
              · exact hdr rc (List.mem_of_mem_filter hrc))

theorem genGroup_from (right : Bool) (cands : List Cand) (cdf : List F) (valid : Nat → Bool) (ds shg : Nat)
    (U : F → Prop) (rows : List (Nat × Cand)) (us : List F) (res : List (Nat × Cand) × List F)
    (hrows : ∀ rc ∈ rows, FromDev right cdf U rc) (hU : ∀ u ∈ us, U u)
    (h : genGroup right cands cdf valid ds shg rows us = some res) :
    (∀ rc ∈ res.1, FromDev right cdf U rc) ∧ (∀ u ∈ res.2, U u) := by
  unfold genGroup at h
  simp only at h
  by_cases hk : rows.countP (fun rc => !valid rc.1) = 0
  · rw [if_pos hk] at h
    simp only [Option.some.injEq] at h
    subst h
    exact ⟨hrows, hU⟩
  · rw [if_neg hk] at h
    split at h
    · exact absurd h (by simp)
    · rename_i new us' hr
      simp only [Option.map_eq_some_iff] at h
      obtain ⟨out, hout, rfl⟩ := h
      obtain ⟨r1, r2⟩ := redraw_from right cands cdf valid ds shg _ U _ [] us (new, us') hr hU (by simp)
      obtain ⟨_, o2⟩ := replaceInvalid_spec valid rows new out hout
      refine ⟨?_, r2⟩
      intro rc hrc
      rcases o2 rc hrc with ⟨hm, _⟩ | hm
      · exact hrows rc hm
      · exact r1 rc hm

theorem genShgs_from (right : Bool) (cands : List Cand) (cdf : List F) (valid : Nat → Bool) (ds : Nat)
    (U : F → Prop) (mrows : List (Nat × Cand)) (hm : ∀ rc ∈ mrows, FromDev right cdf U rc) :
    ∀ (gs : List Nat) (us : List F) (res : List (Nat × Cand) × List F),
      genShgs right cands cdf valid ds mrows gs us = some res → (∀ u ∈ us, U u) →
      (∀ rc ∈ res.1, FromDev right cdf U rc) ∧ (∀ u ∈ res.2, U u)
  | [], us, res, h, hU => by
    simp only [genShgs, Option.some.injEq] at h; subst h; exact ⟨by simp, hU⟩
  | g :: gs, us, res, h, hU => by
    simp only [genShgs] at h
    split at h
    · exact absurd h (by simp)
    · rename_i out us' hg
      split at h
      · exact absurd h (by simp)
      · rename_i rest us'' hrest
        simp only [Option.some.injEq] at h
        subst h
        obtain ⟨g1, g2⟩ := genGroup_from right cands cdf valid ds g U _ us (out, us')
          (fun rc hrc => hm rc (List.mem_of_mem_filter hrc)) hU hg
        obtain ⟨r1, r2⟩ := genShgs_from right cands cdf valid ds U mrows hm gs us' (rest, us'') hrest g2
        refine ⟨?_, r2⟩
        intro rc hrc
        rcases List.mem_append.mp hrc with hrc | hrc
        · exact g1 rc hrc
        · exact r1 rc hrc

theorem genDss_from (right : Bool) (cands : List Cand) (cdf : List F) (valid : Nat → Bool)
    (U : F → Prop) (mrows : List (Nat × Cand)) (hm : ∀ rc ∈ mrows, FromDev right cdf U rc) :
    ∀ (dl : List Nat) (us : List F) (res : List (Nat × List (Nat × Cand)) × List F),
      genDss right cands cdf valid mrows dl us = some res → (∀ u ∈ us, U u) →
      (∀ e ∈ res.1, ∀ rc ∈ e.2, FromDev right cdf U rc) ∧ (∀ u ∈ res.2, U u)
  | [], us, res, h, hU => by
    simp only [genDss, Option.some.injEq] at h; subst h; exact ⟨by simp, hU⟩
  | d :: dl, us, res, h, hU => by
    simp only [genDss] at h
    split at h
    · exact absurd h (by simp)
    · rename_i out us' hg
      split at h
      · exact absurd h (by simp)
      · rename_i rest us'' hrest
        simp only [Option.some.injEq] at h
        subst h
        obtain ⟨g1, g2⟩ := genShgs_from right cands cdf valid d U mrows hm _ us (out, us') hg hU
        obtain ⟨r1, r2⟩ := genDss_from right cands cdf valid U mrows hm dl us' (rest, us'') hrest g2
        refine ⟨?_, r2⟩
        intro e he
        rcases List.mem_cons.mp he with rfl | he
        · exact g1
        · exact r1 e he

theorem generate_from (right : Bool) (cands : List Cand) (cdf : List F) (valid : Nat → Bool) (U : F → Prop)
    (n : Nat) (us : List F) (nsig : Nat) (out : List (Nat × List (Nat × Cand))) (rest : List F)
    (hU : ∀ u ∈ us, U u) (h : generate right cands cdf valid n us = some (nsig, out, rest)) :
    ∀ e ∈ out, ∀ rc ∈ e.2, FromDev right cdf U rc := by
  unfold generate at h
  split_ifs at h with h1
  split at h
  · exact absurd h (by simp)
  · rename_i mrows hm
    split at h
    · exact absurd h (by simp)
    · rename_i o r hg
      simp only [Option.some.injEq, Prod.mk.injEq] at h
      obtain ⟨rfl, rfl, rfl⟩ := h
      have hmr := drawRows_from right cands cdf U _ _ hm (fun u hu => hU u (List.mem_of_mem_take hu))
      exact (genDss_from right cands cdf valid U mrows hmr _ _ (o, r) hg
        (fun u hu => hU u (List.mem_of_mem_drop hu))).1

end from_

/-! ### the table fold -/

theorem foldl_table {α β : Type} (f : α → Option (List β)) :
    ∀ (l : List α) (a0 tab : List β),
      l.foldl (tableStep f) (some a0) = some tab →
      ∀ y ∈ tab, y ∈ a0 ∨ ∃ x ∈ l, ∃ t, f x = some t ∧ y ∈ t
  | [], a0, tab, h, y, hy => by
    simp only [List.foldl_nil, Option.some.injEq] at h; subst h; exact Or.inl hy
  | x :: l, a0, tab, h, y, hy => by
    simp only [List.foldl_cons] at h
    cases hf : f x with
    | none =>
      have e : tableStep f (some a0) x = none := by simp [tableStep, hf]
      rw [e] at h
      exfalso
      have : ∀ (l : List α), l.foldl (tableStep f) (none : Option (List β)) = none := by
        intro l; induction l with
        | nil => rfl
        | cons z zs ih => simpa [List.foldl_cons, tableStep] using ih
      rw [this] at h
      exact absurd h (by simp)
    | some t =>
      have e : tableStep f (some a0) x = some (a0 ++ t) := by simp [tableStep, hf]
      rw [e] at h
      rcases foldl_table f l (a0 ++ t) tab h y hy with h1 | ⟨x', hx', t', ht', hyt⟩
      · rcases List.mem_append.mp h1 with h1 | h1
        · exact Or.inl h1
        · exact Or.inr ⟨x, by simp, t, hf, h1⟩
      · exact Or.inr ⟨x', List.mem_cons_of_mem _ hx', t', ht', hyt⟩


/-! ### aggregation -/

theorem mergeKey_sum : ∀ (d : List (Nat × Nat)) (kv : Nat × Nat),
    ((mergeKey d kv).map (·.2)).sum = (d.map (·.2)).sum + kv.2
  | [], kv => by simp [mergeKey]
  | (k, v) :: rest, kv => by
    simp only [mergeKey]
    split_ifs
    · simp only [List.map_cons, List.sum_cons]; omega
    · simp only [List.map_cons, List.sum_cons, mergeKey_sum rest kv]; omega

theorem foldl_mergeKey_sum : ∀ (ev d : List (Nat × Nat)),
    ((ev.foldl mergeKey d).map (·.2)).sum = (d.map (·.2)).sum + (ev.map (·.2)).sum
  | [], d => by simp
  | kv :: ev, d => by
    simp only [List.foldl_cons, foldl_mergeKey_sum ev, mergeKey_sum, List.map_cons, List.sum_cons]; omega

theorem aggLoop_spec : ∀ (counts : List Int) (gens : List DsGen) (n : Nat) (d : List (Nat × Nat))
    (n' : Nat) (d' : List (Nat × Nat)), gens.length = counts.length →
    (∀ g ∈ gens, ∀ c r, g c = some r → (r.1 : Int) = c ∧ (r.2.map (·.2)).sum = r.1) →
    aggLoop n d counts gens = some (n', d') →
    (n' : Int) = n + counts.sum ∧ (((d'.map (·.2)).sum : Nat) : Int) = ((d.map (·.2)).sum : Nat) + counts.sum
  | [], [], n, d, n', d', _, _, h => by
    simp only [aggLoop, Option.some.injEq, Prod.mk.injEq] at h
    obtain ⟨rfl, rfl⟩ := h; simp
  | [], _ :: _, _, _, _, _, hl, _, _ => by simp at hl
  | _ :: _, [], _, _, _, _, hl, _, _ => by simp at hl
  | c :: cs, g :: gs, n, d, n', d', hl, hsub, h => by
    simp only [aggLoop] at h
    split at h
    · exact absurd h (by simp)
    · rename_i k ev hg
      obtain ⟨e1, e2⟩ := hsub g (by simp) c (k, ev) hg
      obtain ⟨a1, a2⟩ := aggLoop_spec cs gs (n + k) (ev.foldl mergeKey d) n' d' (by simpa using hl)
        (fun g' hg' => hsub g' (by simp [hg'])) h
      simp only at e1 e2
      rw [foldl_mergeKey_sum, e2] at a2
      simp only [List.sum_cons]
      constructor
      · rw [a1]; push_cast; omega
      · rw [a2]; push_cast; omega


/-! ### explicit form of the candidate selection -/

section table
set_option linter.unusedSectionVars false
variable {F : Type} [Add F] [Sub F] [Mul F] [Div F] [Neg F] [OfNat F 0] [OfNat F 2]
  [LE F] [DecidableLE F] [Transc F]

theorem inBand_iff (b : F × F) (s : F) : inBand b s = true ↔ b.1 ≤ s ∧ s ≤ b.2 := by
  simp [inBand]

theorem inE_iff (er : Option (F × F)) (e : F) :
    inE er e = true ↔ ∀ lo hi, er = some (lo, hi) → lo ≤ e ∧ e ≤ hi := by
  cases er with
  | none => simp [inE]
  | some p =>
    obtain ⟨lo, hi⟩ := p
    simp only [inE, Bool.and_eq_true, decide_eq_true_eq, Option.some.injEq, Prod.mk.injEq]
    constructor
    · rintro h _ _ ⟨rfl, rfl⟩; exact h
    · intro h; exact h lo hi ⟨rfl, rfl⟩

/-- everything a row of `groupCands` carries: tags, indices, closed band, closed energy range, weight formula -/
theorem groupCands_mem (g j : Nat) (G : Grp F) (evs : List (Ev F)) (lt fac : F)
    (tab : List (Cand × F)) (h : groupCands g j G evs lt fac = some tab) (cw : Cand × F) (hm : cw ∈ tab) :
    ∃ L U src e, minMax (evs.map (·.s)) = some (L, U) ∧ cw.1.ds = j ∧ cw.1.shg = g ∧
      G.srcs[cw.1.src]? = some src ∧ evs[cw.1.ev]? = some e ∧
      (band src.1 G.hbw L U).1 ≤ e.s ∧ e.s ≤ (band src.1 G.hbw L U).2 ∧
      (∀ lo hi, G.er = some (lo, hi) → lo ≤ e.e ∧ e.e ≤ hi) ∧
      cw.2 = candWeight e.mcw e.f G.unit (omega (band src.1 G.hbw L U)) src.2 lt fac := by
  unfold groupCands at h
  split at h
  · exact absurd h (by simp)
  · rename_i L U hmm
    simp only [Option.some.injEq] at h
    subst h
    simp only [List.mem_flatMap, List.mem_map, List.mem_filter, Bool.and_eq_true] at hm
    obtain ⟨sk, hsk, ei, ⟨hei, hb, he⟩, rfl⟩ := hm
    rw [List.mem_zipIdx_iff_getElem?] at hsk hei
    rw [inBand_iff] at hb
    rw [inE_iff] at he
    exact ⟨L, U, sk.1, ei.1, hmm, rfl, rfl, hsk, hei, hb.1, hb.2, he, rfl⟩

end table

/-! ### output buffer -/

theorem unwrapAll_map_some {α : Type} (l : List α) : unwrapAll (l.map some) = some l := by
  induction l with
  | nil => rfl
  | cons x xs ih => simp [unwrapAll, ih]

/-- the slice written by `setSel` -/
def writeAt {α : Type} (buf : List (Option α)) (s : Nat) (rows : List α) : List (Option α) :=
  buf.take s ++ rows.map some ++ buf.drop (s + rows.length)

theorem writeAt_length {α : Type} (buf : List (Option α)) (s : Nat) (rows : List α)
    (h : s + rows.length ≤ buf.length) : (writeAt buf s rows).length = buf.length := by
  simp only [writeAt, List.length_append, List.length_take, List.length_map, List.length_drop]
  omega

theorem writeAt_writeAt {α : Type} (buf : List (Option α)) (s : Nat) (a b : List α)
    (h : s + a.length + b.length ≤ buf.length) :
    writeAt (writeAt buf s a) (s + a.length) b = writeAt buf s (a ++ b) := by
  have hl : (buf.take s ++ a.map some).length = s + a.length := by
    simp only [List.length_append, List.length_take, List.length_map]; omega
  unfold writeAt
  have e1 : (buf.take s ++ a.map some ++ buf.drop (s + a.length)).take (s + a.length)
      = buf.take s ++ a.map some := by
    rw [← hl]; exact List.take_left
  have e2 : (buf.take s ++ a.map some ++ buf.drop (s + a.length)).drop (s + a.length + b.length)
      = buf.drop (s + a.length + b.length) := by
    rw [List.drop_append, List.drop_eq_nil_of_le (by rw [hl]; omega), hl, List.nil_append, List.drop_drop]
    congr 1; omega
  rw [e1, e2]
  simp only [List.map_append, List.length_append, List.append_assoc, Nat.add_assoc]

theorem writeAt_nil {α : Type} (buf : List (Option α)) (s : Nat) (h : s ≤ buf.length) :
    writeAt buf s ([] : List α) = buf := by
  simp [writeAt]

section gen
set_option linter.unusedSectionVars false
variable {F : Type} [Add F] [Div F] [LE F] [DecidableLE F] [LT F] [DecidableLT F] [OfNat F 0]

/-- the buffered group loop computes the concatenation of the list model, written at `start` -/
theorem genShgsBuf_eq (right : Bool) (cands : List Cand) (cdf : List F) (valid : Nat → Bool) (ds : Nat)
    (mrows : List (Nat × Cand)) (hm : ∀ rc ∈ mrows, cands[rc.1]? = some rc.2) :
    ∀ (gs : List Nat) (buf : List (Option (Nat × Cand))) (start : Nat) (us : List F), start ≤ buf.length →
      genShgsBuf right cands cdf valid ds mrows gs buf start us =
        match genShgs right cands cdf valid ds mrows gs us with
        | none => none
        | some (rows, us') =>
          if start + rows.length ≤ buf.length then some (writeAt buf start rows, start + rows.length, us')
          else none
  | [], buf, start, us, hs => by
    simp only [genShgsBuf, genShgs, List.length_nil, Nat.add_zero]
    rw [if_pos hs, writeAt_nil buf start hs]
  | g :: gs, buf, start, us, hs => by
    simp only [genShgsBuf, genShgs]
    cases hg : genGroup right cands cdf valid ds g
        (mrows.filter (fun rc => rc.2.ds == ds && rc.2.shg == g)) us with
    | none => rfl
    | some r =>
      obtain ⟨out, us'⟩ := r
      have hlen : out.length = (mrows.filter (fun rc => rc.2.ds == ds && rc.2.shg == g)).length :=
        (C18.genGroup_spec right cands cdf valid ds g _ us (out, us')
          (by
            intro rc hrc
            simp only [List.mem_filter, Bool.and_eq_true, beq_iff_eq] at hrc
            exact ⟨hm rc hrc.1, hrc.2.1, hrc.2.2⟩) hg).1
      simp only
      rw [← hlen]
      by_cases hfit : start + out.length ≤ buf.length
      · have hsel : setSel buf start out.length out = some (writeAt buf start out) := by
          simp [setSel, hfit, writeAt]
        rw [hsel]
        simp only
        rw [genShgsBuf_eq right cands cdf valid ds mrows hm gs (writeAt buf start out) (start + out.length) us'
          (by rw [writeAt_length buf start out hfit]; exact hfit)]
        cases hr : genShgs right cands cdf valid ds mrows gs us' with
        | none => rfl
        | some r2 =>
          obtain ⟨rest, us''⟩ := r2
          simp only [writeAt_length buf start out hfit, List.length_append]
          by_cases hfit2 : start + out.length + rest.length ≤ buf.length
          · rw [if_pos hfit2, if_pos (by omega), writeAt_writeAt buf start out rest hfit2]
            simp only [Nat.add_assoc]
          · rw [if_neg hfit2, if_neg (by omega)]
      · have hsel : setSel buf start out.length out = none := by
          simp [setSel, hfit]
        rw [hsel]
        simp only
        cases hr : genShgs right cands cdf valid ds mrows gs us' with
        | none => rfl
        | some r2 =>
          obtain ⟨rest, us''⟩ := r2
          simp only [List.length_append]
          rw [if_neg (by omega)]

theorem genDssBuf_eq (right : Bool) (cands : List Cand) (cdf : List F) (valid : Nat → Bool)
    (mrows : List (Nat × Cand)) (hm : ∀ rc ∈ mrows, cands[rc.1]? = some rc.2) :
    ∀ (dl : List Nat) (us : List F),
      genDssBuf right cands cdf valid mrows dl us = genDss right cands cdf valid mrows dl us
  | [], us => rfl
  | d :: dl, us => by
    simp only [genDssBuf, genDss]
    rw [genShgsBuf_eq right cands cdf valid d mrows hm _ _ 0 us (Nat.zero_le _)]
    cases hg : genShgs right cands cdf valid d mrows
        (uniq ((mrows.filter (fun rc => rc.2.ds == d)).map (·.2.shg))) us with
    | none => rfl
    | some r =>
      obtain ⟨rows, us'⟩ := r
      have hl : rows.length = (mrows.filter (fun rc => rc.2.ds == d)).length := by
        rw [(C18.genShgs_spec right cands cdf valid d mrows hm _ us (rows, us') hg).1, C18.partition_shg]
      simp only [List.length_replicate, Nat.zero_add]
      rw [if_pos (by omega)]
      have hw : writeAt (List.replicate (mrows.filter (fun rc => rc.2.ds == d)).length
          (none : Option (Nat × Cand))) 0 rows = rows.map some := by
        simp [writeAt, hl]
      simp only [hw, unwrapAll_map_some, genDssBuf_eq right cands cdf valid mrows hm dl us']

/-- **the code-shaped generation (pre-allocated buffer per dataset, `fill_start_idx`, every slot must have been
written) computes exactly what the list model computes** — so `c18_count_conserved`, `c18_all_valid`,
`c18_injected_from_band` … are statements about the buffered model the driver runs. -/
theorem generateBuf_eq' (right : Bool) (cands : List Cand) (cdf : List F) (valid : Nat → Bool) (n : Nat) (us : List F) :
    generateBuf right cands cdf valid n us = generate right cands cdf valid n us := by
  unfold generateBuf generate
  split_ifs
  · rfl
  · cases hd : drawRows right cands cdf (us.take n) with
    | none => rfl
    | some mrows =>
      simp only
      rw [genDssBuf_eq right cands cdf valid mrows (C18.drawRows_spec right cands cdf _ _ hd).2]

end gen

end C18
