/-
  Round 7 (C17): lemmas about the loader registry / dispatch model (Model/LoadDispatchR7.lean).
-/
import SkyllhModel.Model.LoadDispatchR7
import Mathlib.Tactic

namespace LoadR7

theorem mem_insertSorted (k x : Str) (l : List Str) : x ∈ insertSorted k l ↔ x = k ∨ x ∈ l := by
  induction l with
  | nil => simp [insertSorted]
  | cons a as ih =>
    unfold insertSorted
    split_ifs
    · simp
    · simp [ih]; tauto

theorem mem_sortedKeys (x : Str) (ks : List Str) : x ∈ sortedKeys ks ↔ x ∈ ks := by
  induction ks with
  | nil => simp [sortedKeys]
  | cons a as ih =>
    have : sortedKeys (a :: as) = insertSorted a (sortedKeys as) := rfl
    rw [this, mem_insertSorted, ih]; simp

theorem firstMatch_some {p f : Str} {l : List Str} (h : firstMatch p l = some f) :
    f ∈ l ∧ fmtMatches f p = true := by
  induction l with
  | nil => simp [firstMatch] at h
  | cons a as ih =>
    unfold firstMatch at h
    split_ifs at h with ha
    · cases h; exact ⟨by simp, ha⟩
    · exact ⟨List.mem_cons_of_mem _ (ih h).1, (ih h).2⟩

theorem firstMatch_none {p : Str} {l : List Str} (h : ∀ g ∈ l, fmtMatches g p = false) :
    firstMatch p l = none := by
  induction l with
  | nil => rfl
  | cons a as ih =>
    unfold firstMatch
    rw [h a (by simp)]
    simpa using ih (fun g hg => h g (List.mem_cons_of_mem _ hg))

theorem firstMatch_isSome {p f : Str} {l : List Str} (hf : f ∈ l) (hm : fmtMatches f p = true) :
    ∃ g, firstMatch p l = some g := by
  induction l with
  | nil => cases hf
  | cons a as ih =>
    unfold firstMatch
    split_ifs with ha
    · exact ⟨a, rfl⟩
    · rcases List.mem_cons.1 hf with rfl | h
      · exact absurd hm ha
      · exact ih h

/-- only one listed format matches ⇒ the loop finds it, wherever it stands in the list -/
theorem firstMatch_unique {p f : Str} {l : List Str} (hf : f ∈ l) (hm : fmtMatches f p = true)
    (hu : ∀ g ∈ l, fmtMatches g p = true → g = f) : firstMatch p l = some f := by
  obtain ⟨g, hg⟩ := firstMatch_isSome hf hm
  have := firstMatch_some hg
  rw [hg, hu g this.1 this.2]

theorem regLookup_of_mem {L : Type} {k : Str} {c : L} {reg : List (Str × L)}
    (hd : (reg.map Prod.fst).Nodup) (hm : (k, c) ∈ reg) : regLookup k reg = some c := by
  induction reg with
  | nil => cases hm
  | cons a as ih =>
    obtain ⟨k', c'⟩ := a
    simp only [List.map_cons, List.nodup_cons] at hd
    unfold regLookup
    rcases List.mem_cons.1 hm with h | h
    · cases h; simp
    · have : k' ≠ k := by
        rintro rfl
        exact hd.1 (List.mem_map.2 ⟨(k', c), h, rfl⟩)
      simp [this, ih hd.2 h]

theorem length_lower (s : Str) : (lower s).length = s.length := by simp [lower]

theorem pySuffix_lower (n : Nat) (s : Str) : pySuffix n (lower s) = lower (pySuffix n s) := by
  unfold pySuffix lower
  split_ifs
  · rfl
  · simp [List.map_drop]

theorem pySuffix_pySuffix {m n : Nat} (s : Str) (hm : 0 < m) (hmn : m ≤ n) :
    pySuffix m (pySuffix n s) = pySuffix m s := by
  unfold pySuffix
  have h1 : m ≠ 0 := by omega
  have h2 : n ≠ 0 := by omega
  simp only [h1, h2, if_false, List.drop_drop, List.length_drop]
  congr 1
  omega

theorem pySuffix_append {k : Str} (s : Str) (hk : 0 < k.length) : pySuffix k.length (s ++ k) = k := by
  unfold pySuffix
  have : k.length ≠ 0 := by omega
  simp [this]

/-- two formats match one file name ⇒ the shorter one matches the longer one (as a name) -/
theorem matches_nested {k k' p : Str} (hk : fmtMatches k p = true) (hk' : fmtMatches k' p = true)
    (h0 : 0 < k'.length) (hle : k'.length ≤ k.length) : fmtMatches k' k = true := by
  unfold fmtMatches at *
  simp only [beq_iff_eq] at *
  rw [← pySuffix_lower, ← hk, pySuffix_lower, pySuffix_pySuffix p h0 hle, hk']

theorem fmtMatches_append {k : Str} (s : Str) (hk : 0 < k.length) : fmtMatches k (s ++ k) = true := by
  unfold fmtMatches
  rw [pySuffix_append s hk]; simp

/-- no registered format matches another one (neither is, ignoring ASCII case, a suffix of the other) -/
def SuffixFree (ks : List Str) : Prop :=
  ∀ k ∈ ks, ∀ k' ∈ ks, k ≠ k' → fmtMatches k' k = false

instance (ks : List Str) : Decidable (SuffixFree ks) := by unfold SuffixFree; infer_instance

theorem matches_unique {ks : List Str} (hs : SuffixFree ks) (h0 : ∀ k ∈ ks, 0 < k.length) {k k' p : Str}
    (hk : k ∈ ks) (hk' : k' ∈ ks) (hm : fmtMatches k p = true) (hm' : fmtMatches k' p = true) : k' = k := by
  by_contra hne
  rcases Nat.le_total k'.length k.length with h | h
  · have := matches_nested hm hm' (h0 k' hk') h
    rw [hs k hk k' hk' (fun e => hne e.symm)] at this
    cases this
  · have := matches_nested hm' hm (h0 k hk) h
    rw [hs k' hk' k hk hne] at this
    cases this

theorem registerGo_prefix {L : Type} (cls : L) (fs : List Str) (reg : List (Str × L)) :
    ∃ added, (registerGo cls fs reg).1 = reg ++ added ∧ ∀ e ∈ added, e.2 = cls ∧ e.1 ∈ fs := by
  induction fs generalizing reg with
  | nil => exact ⟨[], by simp [registerGo], by simp⟩
  | cons f fs ih =>
    unfold registerGo
    split_ifs with h
    · exact ⟨[], by simp, by simp⟩
    · obtain ⟨added, h1, h2⟩ := ih (reg ++ [(f, cls)])
      refine ⟨(f, cls) :: added, by simp [h1], ?_⟩
      intro e he
      rcases List.mem_cons.1 he with rfl | he
      · simp
      · exact ⟨(h2 e he).1, List.mem_cons_of_mem _ (h2 e he).2⟩

theorem registerGo_nodup {L : Type} (cls : L) (fs : List Str) (reg : List (Str × L))
    (hd : (reg.map Prod.fst).Nodup) : ((registerGo cls fs reg).1.map Prod.fst).Nodup := by
  induction fs generalizing reg with
  | nil => simpa [registerGo] using hd
  | cons f fs ih =>
    unfold registerGo
    split_ifs with h
    · exact hd
    · apply ih
      simp only [List.map_append, List.map_cons, List.map_nil]
      rw [List.nodup_append]
      refine ⟨hd, by simp, ?_⟩
      intro a ha b hb
      simp only [List.mem_singleton] at hb
      subst hb
      rintro rfl
      exact h (by simpa using ha)

/-! ### `sorted`: the loop sees the formats in ascending `str` order -/

theorem strLt_irrefl (a : Str) : strLt a a = false := by
  induction a with
  | nil => rfl
  | cons x xs ih => unfold strLt; simp [ih]

theorem strLt_trans {a b c : Str} (h1 : strLt a b = true) (h2 : strLt b c = true) : strLt a c = true := by
  induction a generalizing b c with
  | nil =>
    cases b with
    | nil => simp [strLt] at h1
    | cons y ys =>
      cases c with
      | nil => simp [strLt] at h2
      | cons z zs => simp [strLt]
  | cons x xs ih =>
    cases b with
    | nil => simp [strLt] at h1
    | cons y ys =>
      cases c with
      | nil => simp [strLt] at h2
      | cons z zs =>
        unfold strLt at h1 h2 ⊢
        split_ifs at h1 h2 ⊢ <;> first | rfl | omega | exact ih h1 h2

theorem strLt_asymm {a b : Str} (h : strLt a b = true) : strLt b a = false := by
  by_contra hc
  have h2 : strLt b a = true := by simpa using hc
  have := strLt_trans h h2
  rw [strLt_irrefl] at this
  cases this

/-- `l` is in ascending `str` order -/
def Ascending (l : List Str) : Prop := l.Pairwise (fun a b => strLt b a = false)

theorem insertSorted_ascending (k : Str) (l : List Str) (h : Ascending l) : Ascending (insertSorted k l) := by
  induction l with
  | nil => simp [insertSorted, Ascending]
  | cons x xs ih =>
    unfold Ascending at h ih ⊢
    rw [List.pairwise_cons] at h
    unfold insertSorted
    split_ifs with hk
    · rw [List.pairwise_cons]
      refine ⟨?_, List.pairwise_cons.2 h⟩
      intro y hy
      rcases List.mem_cons.1 hy with rfl | hy
      · exact strLt_asymm hk
      · by_contra hc
        have hyk : strLt y k = true := by simpa using hc
        have := strLt_trans hyk hk
        rw [h.1 y hy] at this
        cases this
    · rw [List.pairwise_cons]
      refine ⟨?_, ih h.2⟩
      intro y hy
      rcases (mem_insertSorted k y xs).1 hy with rfl | hy
      · simpa using hk
      · exact h.1 y hy

theorem sortedKeys_ascending (ks : List Str) : Ascending (sortedKeys ks) := by
  induction ks with
  | nil => simp [sortedKeys, Ascending]
  | cons a as ih => exact insertSorted_ascending a _ ih

/-- on an ascending list the loop returns the least matching format -/
theorem firstMatch_least {p f : Str} {l : List Str} (hs : Ascending l) (h : firstMatch p l = some f) :
    ∀ g ∈ l, fmtMatches g p = true → strLt g f = false := by
  induction l with
  | nil => simp [firstMatch] at h
  | cons a as ih =>
    unfold Ascending at hs ih
    rw [List.pairwise_cons] at hs
    unfold firstMatch at h
    split_ifs at h with ha
    · cases h
      intro g hg _
      rcases List.mem_cons.1 hg with rfl | hg
      · exact strLt_irrefl _
      · exact hs.1 g hg
    · intro g hg hgm
      rcases List.mem_cons.1 hg with rfl | hg
      · exact absurd hgm ha
      · exact ih hs.2 h g hg hgm

end LoadR7
