/-
  Helper lemmas for the one-slot cache of the splined I3 energy PDF ratio (Model/CacheI3R7.lean), property C06.
-/
import SkyllhModel.Model.CacheI3R7
import Mathlib.Tactic

open CacheI3

set_option linter.unusedSectionVars false

namespace C06I3

variable {D S P R : Type} [DecidableEq P]

/-- a key as `_create_interpol_params_recarray` produces it -/
def Reduced (close0 : P → P → Bool) (k : List P) : Prop := reduceKey close0 k = k ∧ k ≠ []

theorem allClose_of_all_eq (close0 : P → P → Bool) (hrefl : ∀ a, close0 a a = true) (x : P) :
    ∀ b : List P, (∀ y ∈ b, y = x) → allClose close0 b = true
  | [], _ => rfl
  | [_], _ => rfl
  | a :: b :: t, h => by
    have ha : a = x := h a (by simp)
    have hb : b = x := h b (by simp)
    have ht := allClose_of_all_eq close0 hrefl x (b :: t) (fun y hy => h y (List.mem_cons_of_mem _ hy))
    simp [allClose, ha, hb, hrefl] at *
    simpa [hb] using ht

theorem reduceKey_idem (close0 : P → P → Bool) (ps : List P) :
    reduceKey close0 (reduceKey close0 ps) = reduceKey close0 ps := by
  unfold reduceKey
  by_cases h : allClose close0 ps = true
  · simp only [h, if_true]
    cases ps with
    | nil => simp [allClose]
    | cons a t => simp [allClose]
  · simp [h]

theorem reduced_reduceKey (close0 : P → P → Bool) (p : P) (rest : List P) :
    Reduced close0 (reduceKey close0 (p :: rest)) := by
  refine ⟨reduceKey_idem close0 _, ?_⟩
  unfold reduceKey
  split <;> simp

/-- a length-1 key that is broadcast-equal to a reduced key is that key -/
theorem eq_of_bcast (close0 : P → P → Bool) (hrefl : ∀ a, close0 a a = true) (x : P) (b : List P)
    (hb : Reduced close0 b) (hall : ∀ y ∈ b, y = x) : b = [x] := by
  have hc := allClose_of_all_eq close0 hrefl x b hall
  obtain ⟨hr, hne⟩ := hb
  unfold reduceKey at hr
  rw [if_pos hc] at hr
  cases b with
  | nil => exact absurd rfl hne
  | cons a t =>
    simp at hr
    subst hr
    simp [hall a (by simp)]

/-- **a hit means the same key**: for reduced keys numpy's broadcasting `np.all(a == b)` is plain equality -/
theorem keyEq_reduced (close0 : P → P → Bool) (hrefl : ∀ a, close0 a a = true) (a b : List P)
    (ha : Reduced close0 a) (hb : Reduced close0 b) (h : keyEq a b = some true) : a = b := by
  unfold keyEq at h
  by_cases hl : a.length = b.length
  · simpa [hl] using h
  · rw [if_neg hl] at h
    match a, b, ha, hb, hl, h with
    | [x], b, _, hb, hl, h =>
      simp only [Option.some.injEq, List.all_eq_true, decide_eq_true_eq] at h
      exact (eq_of_bcast close0 hrefl x b hb h).symm
    | [], [y], ha, _, _, _ => exact absurd rfl ha.2
    | a1 :: a2 :: t, [y], ha, _, _, h =>
      simp only [Option.some.injEq, List.all_eq_true, decide_eq_true_eq] at h
      exact eq_of_bcast close0 hrefl y _ ha h

/-- for reduced keys the comparison always broadcasts (no shape error) when both stem from queries over the same
number of sources: lengths are 1 or K -/
theorem keyEq_isSome_of_len (a b : List P) (K : Nat) (ha : a.length = 1 ∨ a.length = K)
    (hb : b.length = 1 ∨ b.length = K) : (keyEq a b).isSome = true := by
  unfold keyEq
  by_cases hl : a.length = b.length
  · simp [hl]
  · rw [if_neg hl]
    match a, b, ha, hb, hl with
    | [x], b, _, _, _ => simp
    | [], [y], _, _, _ => simp
    | a1 :: a2 :: t, [y], _, _, _ => simp
    | [], [], _, _, hl => exact absurd rfl hl
    | [], b1 :: b2 :: t, ha, hb, hl =>
      simp at ha hb; omega
    | a1 :: a2 :: t, [], ha, hb, hl => simp at ha hb; omega
    | a1 :: a2 :: t, b1 :: b2 :: u, ha, hb, hl => simp at ha hb hl; omega

/-- the invariant: a slot filled under the current state id holds the stateless value of the current data and source at
its (reduced) key; no stored id exceeds the current one -/
def SlotInv (W : World D S P R) (close0 : P → P → Bool) (st : St D S P R) : Prop :=
  ∀ c, st.slot = some c → c.sid ≤ st.sid ∧
    (c.sid = st.sid → c.val = W.compute st.d st.s c.key ∧ Reduced close0 c.key)

theorem inv_fresh (W : World D S P R) (close0 : P → P → Bool) (d : D) (s : S) :
    SlotInv W close0 (fresh d s : St D S P R) := by
  intro c hc; simp [fresh] at hc

theorem lookup_spec (W : World D S P R) (close0 : P → P → Bool) (hrefl : ∀ a, close0 a a = true)
    (st : St D S P R) (hinv : SlotInv W close0 st) (p : P) (rest : List P) :
    let r := lookup W close0 st (p :: rest)
    SlotInv W close0 r.1 ∧ r.1.sid = st.sid ∧ r.1.d = st.d ∧ r.1.s = st.s ∧
      ((∃ hit, r.2 = .val (pureGet W close0 st.d st.s (p :: rest)) hit) ∨ r.2 = .shapeError) := by
  have hred := reduced_reduceKey close0 p rest
  have hmiss : let r := miss W st (reduceKey close0 (p :: rest))
      SlotInv W close0 r.1 ∧ r.1.sid = st.sid ∧ r.1.d = st.d ∧ r.1.s = st.s ∧
      ((∃ hit, r.2 = .val (pureGet W close0 st.d st.s (p :: rest)) hit) ∨ r.2 = .shapeError) := by
    refine ⟨?_, rfl, rfl, rfl, Or.inl ⟨false, rfl⟩⟩
    intro c hc
    simp only [miss, Option.some.injEq] at hc
    subst hc
    exact ⟨le_refl _, fun _ => ⟨rfl, hred⟩⟩
  unfold lookup
  cases hs : st.slot with
  | none => simpa using hmiss
  | some c =>
    simp only
    by_cases hsid : c.sid ≠ st.sid
    · simpa [hsid] using hmiss
    · rw [if_neg hsid]
      have hsid' : c.sid = st.sid := not_not.mp hsid
      obtain ⟨hval, hcr⟩ := (hinv c hs).2 hsid'
      cases hk : keyEq c.key (reduceKey close0 (p :: rest)) with
      | none => exact ⟨hinv, rfl, rfl, rfl, Or.inr rfl⟩
      | some b =>
        cases b with
        | false => simpa using hmiss
        | true =>
          have hkey := keyEq_reduced close0 hrefl _ _ hcr hred hk
          refine ⟨hinv, rfl, rfl, rfl, Or.inl ⟨true, ?_⟩⟩
          simp [pureGet, hval, hkey]

theorem step_inv (W : World D S P R) (close0 : P → P → Bool) (hrefl : ∀ a, close0 a a = true)
    (st : St D S P R) (hinv : SlotInv W close0 st) (o : Op D S P) :
    SlotInv W close0 (step W true close0 st o).1 := by
  cases o with
  | initTrial d =>
    intro c hc
    have := (hinv c hc).1
    simp only [step, bump, if_true] at *
    exact ⟨by omega, fun h => by omega⟩
  | changeSource s =>
    intro c hc
    have := (hinv c hc).1
    simp only [step, bump, if_true] at *
    exact ⟨by omega, fun h => by omega⟩
  | get p rest => exact (lookup_spec W close0 hrefl st hinv p rest).1

/-- along every history: invariant kept, and the data / source held are those of the last initTrial / changeSource -/
theorem run_inv (W : World D S P R) (close0 : P → P → Bool) (hrefl : ∀ a, close0 a a = true) :
    ∀ (ops : List (Op D S P)) (st : St D S P R), SlotInv W close0 st →
      SlotInv W close0 (run W true close0 st ops).1 ∧
      (run W true close0 st ops).1.d = lastData st.d ops ∧ (run W true close0 st ops).1.s = lastSrc st.s ops
  | [], st, h => ⟨h, rfl, rfl⟩
  | o :: os, st, h => by
    have h1 := step_inv W close0 hrefl st h o
    have ih := run_inv W close0 hrefl os _ h1
    simp only [run]
    refine ⟨ih.1, ?_, ?_⟩
    · rw [ih.2.1]
      cases o with
      | initTrial d => simp [step, lastData]
      | changeSource s => simp [step, lastData]
      | get p rest => simp [step, lastData, (lookup_spec W close0 hrefl st h p rest).2.2.1]
    · rw [ih.2.2]
      cases o with
      | initTrial d => simp [step, lastSrc]
      | changeSource s => simp [step, lastSrc]
      | get p rest => simp [step, lastSrc, (lookup_spec W close0 hrefl st h p rest).2.2.2.1]

/-! ### gradient assembly -/

theorem assemble_all {F : Type} [OfNat F 0] (srcOf gp : List Nat) (fid : Nat) :
    ∀ (grads : List F), grads.length = srcOf.length → (∀ k ∈ srcOf, gp[k]? = some (fid + 1)) →
      assemble srcOf gp fid grads = grads := by
  induction srcOf with
  | nil => intro grads hl _; cases grads <;> simp_all [assemble]
  | cons k ks ih =>
    intro grads hl h
    cases grads with
    | nil => simp at hl
    | cons g gs =>
      have := ih gs (by simpa using hl) (fun k' hk' => h k' (List.mem_cons_of_mem _ hk'))
      simp only [assemble, List.zipWith_cons_cons] at *
      rw [this, if_pos (h k (by simp))]

theorem assemble_none {F : Type} [OfNat F 0] (srcOf gp : List Nat) (fid : Nat) :
    ∀ (grads : List F), grads.length = srcOf.length → (∀ k ∈ srcOf, gp[k]? ≠ some (fid + 1)) →
      assemble srcOf gp fid grads = List.replicate srcOf.length 0 := by
  induction srcOf with
  | nil => intro grads hl _; cases grads <;> simp_all [assemble]
  | cons k ks ih =>
    intro grads hl h
    cases grads with
    | nil => simp at hl
    | cons g gs =>
      have := ih gs (by simpa using hl) (fun k' hk' => h k' (List.mem_cons_of_mem _ hk'))
      simp only [assemble, List.zipWith_cons_cons, List.length_cons, List.replicate_succ] at *
      rw [this, if_neg (h k (by simp))]

/-! ### PDFRatioProduct over the slot -/

section Product
variable {F : Type} [Add F] [Mul F] [OfNat F 0] [DecidableEq F]

/-- one slot call, in the form the product proofs use: the state component keeps the invariant, data and source, and the
answer is the stateless pair or the shape error -/
theorem lookup_cases (W : World D S F (List F × List F)) (close0 : F → F → Bool) (hrefl : ∀ a, close0 a a = true)
    (st : St D S F (List F × List F)) (hinv : SlotInv W close0 st) (p : F) (rest : List F) :
    ∃ st1 r, lookup W close0 st (p :: rest) = (st1, r) ∧ SlotInv W close0 st1 ∧ st1.d = st.d ∧ st1.s = st.s ∧
      ((∃ hit, r = .val (pureGet W close0 st.d st.s (p :: rest)) hit) ∨ r = .shapeError) := by
  have h := lookup_spec W close0 hrefl st hinv p rest
  exact ⟨_, _, rfl, h.1, h.2.2.1, h.2.2.2.1, h.2.2.2.2⟩

/-- the answer of one product call is the stateless product (or the shape error), whatever the slot holds -/
def PAnswer (W : World D S F (List F × List F)) (B : Stub D S F) (close0 : F → F → Bool) (srcOf : D → List Nat)
    (gp : List Nat) (d : D) (s : S) : POp D S F → PRes F → Prop
  | .low (.get p rest), r => (∃ hit, r = .low (.val (pureGet W close0 d s (p :: rest)) hit)) ∨ r = .low .shapeError
  | .low _, r => r = .low .unit
  | .pratio p rest, r => r = .vals (prodRatioPure W B close0 d s (p :: rest)) ∨ r = .shapeError
  | .pgrad fid p rest, r => r = prodGradPure W B close0 srcOf gp d s fid (p :: rest) ∨ r = .shapeError

theorem pstep_spec (W : World D S F (List F × List F)) (B : Stub D S F) (close0 : F → F → Bool)
    (hrefl : ∀ a, close0 a a = true) (srcOf : D → List Nat) (gp : List Nat)
    (st : St D S F (List F × List F)) (hinv : SlotInv W close0 st) (o : POp D S F) :
    let r := pstep W B true close0 srcOf gp st o
    SlotInv W close0 r.1 ∧ r.1.d = plastData st.d [o] ∧ r.1.s = plastSrc st.s [o] ∧
      PAnswer W B close0 srcOf gp r.1.d r.1.s o r.2 := by
  cases o with
  | low o =>
    have hi := step_inv W close0 hrefl st hinv o
    cases o with
    | initTrial d => exact ⟨hi, rfl, rfl, rfl⟩
    | changeSource s => exact ⟨hi, rfl, rfl, rfl⟩
    | get p rest =>
      have h := lookup_spec W close0 hrefl st hinv p rest
      refine ⟨hi, h.2.2.1, h.2.2.2.1, ?_⟩
      simp only [pstep, step, PAnswer]
      rw [h.2.2.1, h.2.2.2.1]
      rcases h.2.2.2.2 with ⟨hit, e⟩ | e
      · exact Or.inl ⟨hit, by rw [e]⟩
      · exact Or.inr (by rw [e])
  | pratio p rest =>
    obtain ⟨st1, r, e, hi, hd, hs, ha⟩ := lookup_cases W close0 hrefl st hinv p rest
    simp only [pstep, e, plastData, plastSrc, PAnswer]
    rcases ha with ⟨hit, rfl⟩ | rfl
    · exact ⟨hi, hd, hs, Or.inl (by simp [prodRatioPure, hd, hs])⟩
    · exact ⟨hi, hd, hs, Or.inr rfl⟩
  | pgrad fid p rest =>
    simp only [pstep, plastData, plastSrc, PAnswer]
    by_cases h1 : dep1Of gp fid = true
    · obtain ⟨st1, r, e, hi, hd, hs, ha⟩ := lookup_cases W close0 hrefl st hinv p rest
      simp only [h1, if_true, e]
      rcases ha with ⟨hit, rfl⟩ | rfl
      · by_cases h2 : B.dep fid = true
        · obtain ⟨st2, r2, e2, hi2, hd2, hs2, ha2⟩ := lookup_cases W close0 hrefl st1 hi p rest
          simp only [h2, if_true, e2]
          rcases ha2 with ⟨hit2, rfl⟩ | rfl
          · refine ⟨hi2, hd2.trans hd, hs2.trans hs, Or.inl ?_⟩
            simp [prodGradPure, h1, h2, hd2, hs2, hd, hs]
          · exact ⟨hi2, hd2.trans hd, hs2.trans hs, Or.inr rfl⟩
        · have h2' : B.dep fid = false := by simpa using h2
          simp only [h2', Bool.false_eq_true, if_false]
          refine ⟨hi, hd, hs, Or.inl ?_⟩
          simp [prodGradPure, h1, h2', hd, hs, combine]
      · exact ⟨hi, hd, hs, Or.inr rfl⟩
    · have h1' : dep1Of gp fid = false := by simpa using h1
      simp only [h1', Bool.false_eq_true, if_false]
      by_cases h2 : B.dep fid = true
      · obtain ⟨st2, r2, e2, hi2, hd2, hs2, ha2⟩ := lookup_cases W close0 hrefl st hinv p rest
        simp only [h2, if_true, e2]
        rcases ha2 with ⟨hit2, rfl⟩ | rfl
        · refine ⟨hi2, hd2, hs2, Or.inl ?_⟩
          simp [prodGradPure, h1', h2, hd2, hs2]
        · exact ⟨hi2, hd2, hs2, Or.inr rfl⟩
      · have h2' : B.dep fid = false := by simpa using h2
        simp only [h2', Bool.false_eq_true, if_false]
        refine ⟨hinv, trivial, trivial, Or.inl ?_⟩
        simp [prodGradPure, h1', h2', combine]

theorem plast_cons_d (d0 : D) (o : POp D S F) (os : List (POp D S F)) :
    plastData d0 (o :: os) = plastData (plastData d0 [o]) os := by
  cases o with
  | low o => cases o <;> rfl
  | pratio p rest => rfl
  | pgrad fid p rest => rfl

theorem plast_cons_s (s0 : S) (o : POp D S F) (os : List (POp D S F)) :
    plastSrc s0 (o :: os) = plastSrc (plastSrc s0 [o]) os := by
  cases o with
  | low o => cases o <;> rfl
  | pratio p rest => rfl
  | pgrad fid p rest => rfl

theorem prun_inv (W : World D S F (List F × List F)) (B : Stub D S F) (close0 : F → F → Bool)
    (hrefl : ∀ a, close0 a a = true) (srcOf : D → List Nat) (gp : List Nat) :
    ∀ (ops : List (POp D S F)) (st : St D S F (List F × List F)), SlotInv W close0 st →
      SlotInv W close0 (prun W B true close0 srcOf gp st ops).1 ∧
      (prun W B true close0 srcOf gp st ops).1.d = plastData st.d ops ∧
      (prun W B true close0 srcOf gp st ops).1.s = plastSrc st.s ops
  | [], st, h => ⟨h, rfl, rfl⟩
  | o :: os, st, h => by
    have h1 := pstep_spec W B close0 hrefl srcOf gp st h o
    have ih := prun_inv W B close0 hrefl srcOf gp os _ h1.1
    simp only [prun]
    refine ⟨ih.1, ?_, ?_⟩
    · rw [ih.2.1, h1.2.1, ← plast_cons_d]
    · rw [ih.2.2, h1.2.2.1, ← plast_cons_s]

theorem plast_snoc_d (o : POp D S F) : ∀ (l : List (POp D S F)) (d0 : D),
    plastData d0 (l ++ [o]) = plastData (plastData d0 l) [o]
  | [], _ => rfl
  | a :: t, d0 => by
    rw [List.cons_append, plast_cons_d, plast_snoc_d o t, plast_cons_d d0 a t]

theorem plast_snoc_s (o : POp D S F) : ∀ (l : List (POp D S F)) (s0 : S),
    plastSrc s0 (l ++ [o]) = plastSrc (plastSrc s0 l) [o]
  | [], _ => rfl
  | a :: t, s0 => by
    rw [List.cons_append, plast_cons_s, plast_snoc_s o t, plast_cons_s s0 a t]

end Product

section Rows
variable {A : Type} [CommSemiring A]

theorem mulRows_zero_right : ∀ (l : List A), mulRows l (List.replicate l.length 0) = List.replicate l.length 0
  | [] => rfl
  | a :: t => by
    have := mulRows_zero_right t
    simp only [mulRows, List.length_cons, List.replicate_succ, List.zipWith_cons_cons, mul_zero] at *
    rw [this]

theorem mulRows_zero_left : ∀ (l : List A), mulRows (List.replicate l.length 0) l = List.replicate l.length 0
  | [] => rfl
  | a :: t => by
    have := mulRows_zero_left t
    simp only [mulRows, List.length_cons, List.replicate_succ, List.zipWith_cons_cons, zero_mul] at *
    rw [this]

theorem addRows_zero_right : ∀ (l : List A), addRows l (List.replicate l.length 0) = l
  | [] => rfl
  | a :: t => by
    have := addRows_zero_right t
    simp only [addRows, List.length_cons, List.replicate_succ, List.zipWith_cons_cons, add_zero] at *
    rw [this]

theorem addRows_zero_left : ∀ (l : List A), addRows (List.replicate l.length 0) l = l
  | [] => rfl
  | a :: t => by
    have := addRows_zero_left t
    simp only [addRows, List.length_cons, List.replicate_succ, List.zipWith_cons_cons, zero_add] at *
    rw [this]

end Rows

end C06I3
