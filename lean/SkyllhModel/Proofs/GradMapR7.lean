/-
  Round 7 (C02): proofs about `Model/GradMapR7.lean` — the consumers' loop (skip / early exit / masked
  overwrite) attaches every local gradient to the right fit parameter, for every value.
-/
import SkyllhModel.Model.GradMapR7
import SkyllhModel.Model.Grad
import SkyllhModel.Proofs.RealScalar
import Mathlib.Tactic

namespace C02R7
open GradMap

/-! ### get_values_mask_for_source_mask -/

theorem orEq_map (g : Nat → Bool) (srcIdx : List Nat) (k : Nat) :
    orEq (srcIdx.map g) srcIdx k = srcIdx.map (fun s => g s || s == k) := by
  unfold orEq
  induction srcIdx with
  | nil => rfl
  | cons a t ih => simp [ih]

theorem foldl_orEq (sel : List Nat) (g : Nat → Bool) (srcIdx : List Nat) :
    sel.foldl (fun m k => orEq m srcIdx k) (srcIdx.map g) = srcIdx.map (fun s => g s || sel.contains s) := by
  induction sel generalizing g with
  | nil => simp
  | cons k rest ih =>
    rw [List.foldl_cons, orEq_map, ih]
    apply List.map_congr_left
    intro s _
    by_cases h : s = k
    · simp [h]
    · have hb : (s == k) = false := by simpa using h
      simp [hb, h]

theorem valuesMaskCode_eq_spec (nSrc : Nat) (srcMask : List Bool) (srcIdx : List Nat)
    (h : srcMask.length = nSrc) :
    valuesMaskCode nSrc srcMask srcIdx = some (valuesMaskSpec srcMask srcIdx) := by
  unfold valuesMaskCode selectedSources valuesMaskSpec
  rw [if_pos h, Option.map_some, foldl_orEq]
  congr 1
  apply List.map_congr_left
  intro s _
  rw [Bool.false_or, Bool.eq_iff_iff]
  simp only [List.contains_iff_mem, List.mem_filter, List.mem_range, beq_iff_eq]
  constructor
  · exact fun hh => hh.2
  · intro hh
    refine ⟨?_, hh⟩
    have := (List.getElem?_eq_some_iff.mp hh).1
    omega

theorem valuesMaskCode_eq_none (nSrc : Nat) (srcMask : List Bool) (srcIdx : List Nat)
    (h : srcMask.length ≠ nSrc) : valuesMaskCode nSrc srcMask srcIdx = none := by
  unfold valuesMaskCode selectedSources
  rw [if_neg h]; rfl

/-! ### the loop -/

variable {F : Type}

theorem pickLast_cons (p s v : Nat) (lp : LocalPar F) (rest : List (LocalPar F)) (a : Option F) :
    pickLast p s v (lp :: rest) a = pickLast p s v rest (if carries p s lp then lp.grads[v]? else a) := by
  unfold pickLast carries
  rw [List.foldl_cons]
  congr 1
  cases lp.gp with
  | none => simp
  | some col => simp

theorem pickLast_of_no_carrier (p s v : Nat) (pars : List (LocalPar F)) (a : Option F)
    (h : ∀ lp ∈ pars, carries p s lp = false) : pickLast p s v pars a = a := by
  induction pars generalizing a with
  | nil => rfl
  | cons lp rest ih =>
    rw [pickLast_cons, h lp (List.mem_cons_self ..)]
    exact ih _ (fun l hl => h l (List.mem_cons_of_mem _ hl))

theorem overwrite_getElem? (vm : List Bool) (g acc : List F) (v : Nat) (b : Bool)
    (hv : vm[v]? = some b) (hg : g.length = vm.length) (ha : acc.length = vm.length) :
    (overwrite vm g acc)[v]? = if b then g[v]? else acc[v]? := by
  have hlt : v < vm.length := (List.getElem?_eq_some_iff.mp hv).1
  have hb : vm[v] = b := (List.getElem?_eq_some_iff.mp hv).2
  unfold overwrite
  have hvg : v < g.length := by omega
  have hva : v < acc.length := by omega
  have hz : (vm.zip g)[v]? = some (vm[v], g[v]) := by
    rw [List.getElem?_eq_getElem (by rw [List.length_zip]; omega), List.getElem_zip]
  rw [List.getElem?_zipWith, hz, List.getElem?_eq_getElem hva, List.getElem?_eq_getElem hvg]
  cases b <;> simp [hb]

theorem overwrite_length (vm : List Bool) (g acc : List F)
    (hg : g.length = vm.length) (ha : acc.length = vm.length) : (overwrite vm g acc).length = vm.length := by
  unfold overwrite
  simp [List.length_zipWith, List.length_zip, hg, ha]

theorem carries_some (p s : Nat) (lp : LocalPar F) (col : List Int) (h : lp.gp = some col) :
    carries p s lp = (col[s]? == some ((p : Int) + 1)) := by
  unfold carries; rw [h]

theorem srcMaskOf_getElem? (col : List Int) (p s : Nat) (hs : s < col.length) :
    (srcMaskOf col p)[s]? = some (col[s]? == some ((p : Int) + 1)) := by
  unfold srcMaskOf
  rw [List.getElem?_map, List.getElem?_eq_getElem hs]
  simp

/-- the uniqueness the layout provides: for the source `s`, at most one local parameter of the PDF set
carries fit parameter `p` -/
def UniqueAt (p s : Nat) (pars : List (LocalPar F)) : Prop :=
  pars.Pairwise (fun a b => ¬ (carries p s a = true ∧ carries p s b = true))

/-- shapes of a legal call: every gpidx column has one row per source of the trial data manager, every local
gradient array one entry per value -/
def Shapes (nSrc nV : Nat) (pars : List (LocalPar F)) : Prop :=
  ∀ lp ∈ pars, (∀ col, lp.gp = some col → col.length = nSrc) ∧ lp.grads.length = nV

/-- **The loop, pointwise.** For every list of local interpolation parameters of legal shapes in which, per
source, at most one carries fit parameter `p`: the loop does not raise, and entry `v` of what it returns is the
gradient entry of the local parameter that carries `p` for the source of `v` (the start value if none does) —
through the skip branches, the early exit and the masked overwrites. -/
theorem interpLoop_pointwise (nSrc : Nat) (srcIdx : List Nat) (p : Nat) (hidx : ∀ s ∈ srcIdx, s < nSrc) :
    ∀ (pars : List (LocalPar F)) (acc : List F) (c : Bool),
      Shapes nSrc srcIdx.length pars → acc.length = srcIdx.length →
      (∀ s, s < nSrc → UniqueAt p s pars) →
      ∃ r c', interpLoop nSrc srcIdx p pars acc c = some (r, c') ∧ r.length = srcIdx.length ∧
        ∀ v s, srcIdx[v]? = some s → r[v]? = pickLast p s v pars acc[v]? := by
  intro pars
  induction pars with
  | nil =>
    intro acc c _ hacc _
    exact ⟨acc, c, rfl, hacc, fun v s _ => rfl⟩
  | cons lp rest ih =>
    intro acc c hsh hacc huniq
    have hshr : Shapes nSrc srcIdx.length rest := fun l hl => hsh l (List.mem_cons_of_mem _ hl)
    have huniqr : ∀ s, s < nSrc → UniqueAt p s rest := fun s hs => (List.pairwise_cons.mp (huniq s hs)).2
    have hlp := hsh lp (List.mem_cons_self ..)
    cases hgp : lp.gp with
    | none =>
      obtain ⟨r, c', hr, hlen, hpt⟩ := ih acc c hshr hacc huniqr
      refine ⟨r, c', ?_, hlen, ?_⟩
      · rw [interpLoop, hgp]; exact hr
      · intro v s hv
        rw [hpt v s hv, pickLast_cons]
        simp [carries, hgp]
    | some col =>
      have hcol : col.length = nSrc := hlp.1 col hgp
      by_cases h0 : (srcMaskOf col p).count true = 0
      · -- no source carries p through this local parameter
        obtain ⟨r, c', hr, hlen, hpt⟩ := ih acc c hshr hacc huniqr
        refine ⟨r, c', ?_, hlen, ?_⟩
        · rw [interpLoop, hgp]; simp only [h0, if_true]; exact hr
        · intro v s hv
          have hs : s < nSrc := hidx s (List.mem_of_getElem? hv)
          have hm := srcMaskOf_getElem? col p s (by omega)
          have hnot : (col[s]? == some ((p : Int) + 1)) = false := by
            by_contra hne
            have ht : (col[s]? == some ((p : Int) + 1)) = true := by simpa using hne
            rw [ht] at hm
            exact (List.count_eq_zero.mp h0) (List.mem_of_getElem? hm)
          rw [hpt v s hv, pickLast_cons, carries_some p s lp col hgp, hnot]
          simp
      · by_cases hall : (srcMaskOf col p).count true = nSrc
        · -- every source carries p through this local parameter: the local gradient array is handed out
          refine ⟨lp.grads, true, ?_, hlp.2, ?_⟩
          · have h0' : ¬ nSrc = 0 := hall ▸ h0
            rw [interpLoop, hgp]; simp only [hall, h0', if_true, if_false]
          · intro v s hv
            have hs : s < nSrc := hidx s (List.mem_of_getElem? hv)
            have hm := srcMaskOf_getElem? col p s (by omega)
            have hlenm : (srcMaskOf col p).length = nSrc := by simp [srcMaskOf, hcol]
            have hyes : (col[s]? == some ((p : Int) + 1)) = true := by
              have := (List.count_eq_length.mp (by rw [hall, hlenm])) _ (List.mem_of_getElem? hm)
              exact this.symm
            have hc : carries p s lp = true := by rw [carries_some p s lp col hgp, hyes]
            rw [pickLast_cons, hc, if_pos rfl]
            symm
            apply pickLast_of_no_carrier
            intro l hl
            have := (List.pairwise_cons.mp (huniq s hs)).1 l hl
            by_contra hne
            exact this ⟨hc, by simpa using hne⟩
        · -- some sources: masked overwrite
          have hlenm : (srcMaskOf col p).length = nSrc := by simp [srcMaskOf, hcol]
          have hvm := valuesMaskCode_eq_spec nSrc (srcMaskOf col p) srcIdx hlenm
          have hvlen : (valuesMaskSpec (srcMaskOf col p) srcIdx).length = srcIdx.length := by
            simp [valuesMaskSpec]
          have hacc' : (overwrite (valuesMaskSpec (srcMaskOf col p) srcIdx) lp.grads acc).length = srcIdx.length := by
            rw [overwrite_length _ _ _ (by rw [hvlen]; exact hlp.2) (by rw [hvlen]; exact hacc), hvlen]
          obtain ⟨r, c', hr, hlen, hpt⟩ := ih _ true hshr hacc' huniqr
          refine ⟨r, c', ?_, hlen, ?_⟩
          · rw [interpLoop, hgp]; simp only [h0, hall, if_false, hvm]; exact hr
          · intro v s hv
            have hs : s < nSrc := hidx s (List.mem_of_getElem? hv)
            have hm := srcMaskOf_getElem? col p s (by omega)
            have hvmv : (valuesMaskSpec (srcMaskOf col p) srcIdx)[v]? = some (col[s]? == some ((p : Int) + 1)) := by
              unfold valuesMaskSpec
              rw [List.getElem?_map, hv, Option.map_some, hm]
              simp
            rw [hpt v s hv, pickLast_cons, carries_some p s lp col hgp,
              overwrite_getElem? _ _ _ v _ hvmv (by rw [hvlen]; exact hlp.2) (by rw [hvlen]; exact hacc)]

/-- the `fitparam_id_contributes` flag (presence of the key in the dictionary of `get_pd`): set iff some local
parameter of the PDF set carries `p` for some source -/
def anyCarrier (p : Nat) (pars : List (LocalPar F)) : Bool :=
  pars.any (fun lp => match lp.gp with
    | none => false
    | some col => (srcMaskOf col p).count true != 0)

theorem interpLoop_flag (nSrc : Nat) (srcIdx : List Nat) (p : Nat) :
    ∀ (pars : List (LocalPar F)) (acc : List F) (c : Bool) (r : List F) (c' : Bool),
      interpLoop nSrc srcIdx p pars acc c = some (r, c') → c' = (c || anyCarrier p pars) := by
  intro pars
  induction pars with
  | nil =>
    intro acc c r c' h
    simp only [interpLoop, Option.some.injEq, Prod.mk.injEq] at h
    simp [anyCarrier, h.2]
  | cons lp rest ih =>
    intro acc c r c' h
    rw [interpLoop] at h
    cases hgp : lp.gp with
    | none =>
      rw [hgp] at h
      rw [ih _ _ _ _ h]
      simp [anyCarrier, hgp]
    | some col =>
      rw [hgp] at h
      simp only at h
      by_cases h0 : (srcMaskOf col p).count true = 0
      · simp only [h0, if_true] at h
        rw [ih _ _ _ _ h]
        simp [anyCarrier, hgp, h0]
      · simp only [h0, if_false] at h
        by_cases hall : (srcMaskOf col p).count true = nSrc
        · simp only [hall, if_true, Option.some.injEq, Prod.mk.injEq] at h
          simp [anyCarrier, hgp, h0, ← h.2]
        · simp only [hall, if_false] at h
          cases hvm : valuesMaskCode nSrc (srcMaskOf col p) srcIdx with
          | none => rw [hvm] at h; exact absurd h (by simp)
          | some vm =>
            rw [hvm] at h
            rw [ih _ _ _ _ h]
            simp [anyCarrier, hgp, h0]

/-! ### over the reals: the selected entry is the consumers' sum `locToFit` -/

theorem sum_zero_of_no_carrier (p : Nat) :
    ∀ (gs : List Int) (ds : List ℝ), (∀ g ∈ gs, g ≠ (p : Int) + 1) →
      (List.zipWith (fun g d => if g = (p : Int) + 1 then d else 0) gs ds).sum = 0 := by
  intro gs
  induction gs with
  | nil => intro ds _; simp
  | cons g t ih =>
    intro ds h
    cases ds with
    | nil => simp
    | cons d dt =>
      simp only [List.zipWith_cons_cons, List.sum_cons]
      rw [if_neg (h g (List.mem_cons_self ..)), ih dt (fun g' hg' => h g' (List.mem_cons_of_mem _ hg'))]
      ring

theorem locToFit_eq_sum (gs : List Int) (ds : List ℝ) (p : Nat) :
    Grad.locToFit gs ds p = (List.zipWith (fun g d => if g = (p : Int) + 1 then d else 0) gs ds).sum := by
  unfold Grad.locToFit LLH.sumF
  rw [List.sum_eq_foldl]

/-- **Selected entry = consumers' sum.** `gpRow` = the gpidx of the source of value `v` under every local
parameter of the PDF set (any non-matching number where the recarray has no such field), `dRow` = the local
gradient entries of value `v`: with at most one carrier the entry the loop hands out is
`Grad.locToFit gpRow dRow p = Σ_n [gp_n = p+1] d_n`, the quantity of `c02_interp_grad_mapping`. -/
theorem pickLast_eq_locToFit (p s v : Nat) :
    ∀ (pars : List (LocalPar ℝ)) (gpRow : List Int) (dRow : List ℝ),
      pars.map (fun lp => lp.grads[v]?) = dRow.map some →
      pars.map (carries p s) = gpRow.map (fun g => decide (g = (p : Int) + 1)) →
      UniqueAt p s pars →
      pickLast p s v pars (some 0) = some (Grad.locToFit gpRow dRow p) := by
  intro pars
  induction pars with
  | nil =>
    intro gpRow dRow hd hg _
    have : gpRow = [] := by simpa using hg.symm
    subst this
    simp [pickLast, locToFit_eq_sum]
  | cons lp rest ih =>
    intro gpRow dRow hd hg hu
    cases gpRow with
    | nil => simp at hg
    | cons g gs =>
      cases dRow with
      | nil => simp at hd
      | cons d ds =>
        simp only [List.map_cons, List.cons.injEq] at hd hg
        have hur := (List.pairwise_cons.mp hu).2
        rw [pickLast_cons, locToFit_eq_sum]
        simp only [List.zipWith_cons_cons, List.sum_cons]
        by_cases hc : carries p s lp = true
        · have hgp : g = (p : Int) + 1 := by simpa [hc] using hg.1.symm
          have hnone : ∀ l ∈ rest, carries p s l = false := by
            intro l hl
            have := (List.pairwise_cons.mp hu).1 l hl
            by_contra hne
            exact this ⟨hc, by simpa using hne⟩
          have hgs : ∀ g' ∈ gs, g' ≠ (p : Int) + 1 := by
            intro g' hg' heq
            obtain ⟨i, hi, rfl⟩ := List.getElem_of_mem hg'
            have hlen : rest.length = gs.length := by simpa using congrArg List.length hg.2
            have h1 := congrArg (fun l => l[i]?) hg.2
            simp only [List.getElem?_map, List.getElem?_eq_getElem hi,
              List.getElem?_eq_getElem (show i < rest.length by omega), Option.map_some, Option.some.injEq] at h1
            rw [hnone _ (List.getElem_mem _)] at h1
            simp [heq] at h1
          rw [hc, if_pos rfl, hd.1, pickLast_of_no_carrier p s v rest _ hnone, if_pos hgp,
            sum_zero_of_no_carrier p gs ds hgs]
          simp
        · have hcf : carries p s lp = false := by simpa using hc
          have hgp : g ≠ (p : Int) + 1 := by
            intro heq; rw [hcf] at hg; simp [heq] at hg
          rw [hcf, if_neg hgp]
          simp only [Bool.false_eq_true, if_false]
          rw [ih gs ds hd.2 hg.2 hur, locToFit_eq_sum]
          simp


/-! ### SingleParamFluxPointLikeSourceI3DetSigYield.__call__ -/

theorem mem_insertU (x y : Int) (l : List Int) : y ∈ insertU x l ↔ y = x ∨ y ∈ l := by
  induction l with
  | nil => simp [insertU]
  | cons a t ih =>
    unfold insertU
    split_ifs with h1 h2
    · simp
    · subst h2; simp
    · simp only [List.mem_cons, ih]; tauto

theorem mem_unique (y : Int) (xs : List Int) : y ∈ unique xs ↔ y ∈ xs := by
  induction xs with
  | nil => simp [unique]
  | cons a t ih =>
    show y ∈ insertU a (unique t) ↔ _
    rw [mem_insertU, ih]; simp

/-- the keys of the gradient dictionary: `k` is a key iff some source has gpidx `k+1 > 0` -/
theorem mem_yieldKeys (k : Int) (col : List Int) : k ∈ yieldKeys col ↔ (k + 1 ∈ col ∧ 0 < k + 1) := by
  unfold yieldKeys
  simp only [List.mem_map, List.mem_filter, mem_unique, decide_eq_true_eq]
  constructor
  · rintro ⟨a, ⟨ha, hp⟩, rfl⟩
    rw [Int.sub_add_cancel]; exact ⟨ha, hp⟩
  · rintro ⟨h1, h2⟩
    exact ⟨k + 1, ⟨h1, h2⟩, by omega⟩

theorem find?_beq_of_mem (keys : List Int) (p : Int) (h : p ∈ keys) : keys.find? (fun k => k == p) = some p := by
  induction keys with
  | nil => simp at h
  | cons a t ih =>
    by_cases ha : a = p
    · subst ha; simp [List.find?_cons]
    · have hb : (a == p) = false := by simpa using ha
      rw [List.find?_cons, hb]
      exact ih (by rcases List.mem_cons.mp h with h | h; exact absurd h.symm ha; exact h)

theorem find?_beq_of_not_mem (keys : List Int) (p : Int) (h : p ∉ keys) : keys.find? (fun k => k == p) = none := by
  rw [List.find?_eq_none]
  intro x hx hxe
  have : x = p := by simpa using hxe
  exact h (this ▸ hx)

/-- a consumer asking for fit parameter `p` that some source carries gets the specification row: `Y_k · dlog_k`
for the accepted sources with gpidx `p+1`, zero elsewhere -/
theorem yieldLookup_of_carrier {F : Type} [OfNat F 0] [Mul F] (col : List Int) (acc : List Bool) (Y dlog : List F)
    (p : Nat) (h : (p : Int) + 1 ∈ col) :
    yieldLookup (yieldGradsCode col acc Y dlog) p = some (yieldSpecRow col acc Y dlog p) := by
  unfold yieldLookup yieldGradsCode
  rw [List.find?_map]
  have hk : (p : Int) ∈ yieldKeys col := (mem_yieldKeys _ _).mpr ⟨h, by omega⟩
  have := find?_beq_of_mem _ _ hk
  simp only [Function.comp_def]
  rw [this]; rfl

/-- no source carries `p`: no key (the consumers add nothing), and the specification row is zero anyway -/
theorem yieldLookup_of_no_carrier {F : Type} [OfNat F 0] [Mul F] (col : List Int) (acc : List Bool) (Y dlog : List F)
    (p : Nat) (h : (p : Int) + 1 ∉ col) :
    yieldLookup (yieldGradsCode col acc Y dlog) p = none ∧ ∀ x ∈ yieldSpecRow col acc Y dlog p, x = 0 := by
  constructor
  · unfold yieldLookup yieldGradsCode
    rw [List.find?_map]
    have hk : (p : Int) ∉ yieldKeys col := fun hk => h ((mem_yieldKeys _ _).mp hk).1
    have := find?_beq_of_not_mem _ _ hk
    simp only [Function.comp_def]
    rw [this]; rfl
  · intro x hx
    unfold yieldSpecRow at hx
    obtain ⟨i, hi, rfl⟩ := List.getElem_of_mem hx
    rw [List.getElem_zipWith, List.getElem_zip]
    have hne : col[i]'(by simp [List.length_zipWith, List.length_zip] at hi; omega) ≠ (p : Int) + 1 :=
      fun he => h (he ▸ List.getElem_mem _)
    simp [hne]

/-- no key outside the fit-parameter range when no gpidx exceeds the number of floating parameters
(`c02_layout_keys_in_range`) -/
theorem yieldKeys_in_range (col : List Int) (nFit : Nat) (h : ∀ g ∈ col, g ≤ (nFit : Int)) (k : Int)
    (hk : k ∈ yieldKeys col) : 0 ≤ k ∧ k < (nFit : Int) := by
  obtain ⟨h1, h2⟩ := (mem_yieldKeys _ _).mp hk
  have := h _ h1
  omega


/-- over ℝ the yield gradient row is the consumers' rule applied, source by source, to the local derivative
`∂Y_k/∂γ_k = Y_k · ∂logY_k`: the acceptance test in the mask is redundant because `Y_k = 0` outside -/
theorem yieldSpecRow_eq_locToFit (col : List Int) (acc : List Bool) (Yin dlog : List ℝ) (p : Nat)
    (ha : acc.length = col.length) (hy : Yin.length = col.length) (hd : dlog.length = col.length) :
    yieldSpecRow col acc (yieldValues acc Yin) dlog p =
      List.zipWith (fun g (yd : ℝ × ℝ) => Grad.locToFit [g] [yd.1 * yd.2] p) col ((yieldValues acc Yin).zip dlog) := by
  apply List.ext_getElem
  · simp [yieldSpecRow, yieldValues, ha, hy, hd]
  · intro i h1 h2
    simp only [yieldSpecRow, yieldValues, List.getElem_zipWith, List.getElem_zip, Grad.locToFit, LLH.sumF,
      List.zipWith_cons_cons, List.zipWith_nil_right, List.foldl_cons, List.foldl_nil]
    cases acc[i]'(by simp [yieldSpecRow, yieldValues] at h1; omega) <;>
      by_cases hc : col[i]'(by simp [yieldSpecRow, yieldValues] at h1; omega) = (p : Int) + 1 <;> simp [hc]

end C02R7
