/-
  Refinement lemma for Props/C14: the index arithmetic of `get_uptime_intervals_between`
  (`betweenIdx`, as coded) equals the specification form `betweenSpec` on sorted intervals.
-/
import SkyllhModel.Model.Livetime
import SkyllhModel.Proofs.Livetime
import Mathlib.Tactic

set_option linter.unusedSectionVars false

open Livetime

namespace C14

variable {F : Type} [LinearOrder F]

/-- recursive description of "the intervals from the current one on, clipped at the excluded
upper bound `t1`"; `x` is the (already clipped) start of the current interval, `b` its stop. -/
def specEnd (t1 : F) : F → F → List (F × F) → List (F × F)
  | x, b, [] => if t1 ≤ b then [(x, t1)] else [(x, b)]
  | x, b, (a', b') :: rest' =>
    if t1 ≤ b then [(x, t1)]
    else (x, b) :: (if a' < t1 then specEnd t1 a' b' rest' else [])

/-- flat form produced by the index arithmetic once the start index is resolved;
the count uses `digitize(right=True)` (edges `< t1`) -/
def gEnd (t1 : F) (x : F) (L : List F) : List (F × F) :=
  unflat (x :: (L.take (digitizeR L t1) ++ (if digitizeR L t1 % 2 = 0 then [t1] else [])))

theorem digitize_cons' (c : F) (l : List F) (w : F) :
    digitize (c :: l) w = digitize l w + (if c ≤ w then 1 else 0) := by
  simp only [digitize, List.countP_cons, decide_eq_true_eq]

theorem digitizeR_cons (c : F) (l : List F) (w : F) :
    digitizeR (c :: l) w = digitizeR l w + (if c < w then 1 else 0) := by
  simp only [digitizeR, List.countP_cons, decide_eq_true_eq]

theorem digitize_zero_of_lt' (edges : List F) (t : F) (h : ∀ e ∈ edges, t < e) :
    digitize edges t = 0 := by
  unfold digitize
  rw [List.countP_eq_zero]
  intro e he
  simp [not_le.mpr (h e he)]

theorem digitizeR_zero_of_le (edges : List F) (t : F) (h : ∀ e ∈ edges, t ≤ e) :
    digitizeR edges t = 0 := by
  unfold digitizeR
  rw [List.countP_eq_zero]
  intro e he
  simp [not_lt.mpr (h e he)]

theorem gEnd_eq_specEnd (t1 : F) (rest : List (F × F)) :
    ∀ (x b : F), (b :: flat rest).Pairwise (· ≤ ·) → gEnd t1 x (b :: flat rest) = specEnd t1 x b rest := by
  induction rest with
  | nil =>
    intro x b _
    unfold gEnd specEnd
    by_cases h : t1 ≤ b
    · simp [flat, digitizeR, not_lt.mpr h, h, unflat]
    · simp [flat, digitizeR, not_le.mp h, h, unflat]
  | cons p rest' ih =>
    intro x b hs
    obtain ⟨a', b'⟩ := p
    have hfl : flat ((a', b') :: rest') = a' :: b' :: flat rest' := by simp [flat]
    rw [hfl] at hs ⊢
    simp only [List.pairwise_cons] at hs
    obtain ⟨hb, ha', hb', hrest⟩ := hs
    unfold specEnd
    by_cases h : t1 ≤ b
    · -- window ends inside (or at the stop of) the current interval: no edge is < t1
      have hz : digitizeR (b :: a' :: b' :: flat rest') t1 = 0 :=
        digitizeR_zero_of_le _ _ (by
          intro e he
          rcases List.mem_cons.mp he with rfl | he
          · exact h
          · exact le_trans h (hb e he))
      unfold gEnd
      simp [hz, h, unflat]
    · have hbt : b < t1 := not_le.mp h
      rw [if_neg h]
      by_cases h2 : a' < t1
      · rw [if_pos h2]
        have hs' : (b' :: flat rest').Pairwise (· ≤ ·) := List.pairwise_cons.mpr ⟨hb', hrest⟩
        rw [← ih a' b' hs']
        unfold gEnd
        have hc : digitizeR (b :: a' :: b' :: flat rest') t1 = digitizeR (b' :: flat rest') t1 + 2 := by
          rw [digitizeR_cons, digitizeR_cons]; simp [hbt, h2]
        rw [hc]
        generalize digitizeR (b' :: flat rest') t1 = c
        have e1 : (c + 2) % 2 = c % 2 := by omega
        simp only [e1, List.take_succ_cons, List.cons_append, unflat]
      · rw [if_neg h2]
        have hz : digitizeR (a' :: b' :: flat rest') t1 = 0 :=
          digitizeR_zero_of_le _ _ (by
            intro e he
            rcases List.mem_cons.mp he with rfl | he
            · exact not_lt.mp h2
            · exact le_trans (not_lt.mp h2) (ha' e he))
        have hc : digitizeR (b :: a' :: b' :: flat rest') t1 = 1 := by
          rw [digitizeR_cons, hz]; simp [hbt]
        unfold gEnd
        simp [hc, unflat]

theorem betweenSpec_cons (p : F × F) (rest : List (F × F)) (t0 t1 : F) :
    betweenSpec (p :: rest) t0 t1 =
      if t0 < p.2 ∧ p.1 < t1 then
        ((if p.1 ≤ t0 then t0 else p.1), (if t1 < p.2 then t1 else p.2)) :: betweenSpec rest t0 t1
      else betweenSpec rest t0 t1 := by
  unfold betweenSpec
  by_cases h : t0 < p.2 ∧ p.1 < t1
  · rw [if_pos h, List.filter_cons_of_pos (by simp [h.1, h.2])]; simp
  · rw [if_neg h, List.filter_cons_of_neg (by
      simp only [Bool.and_eq_true, decide_eq_true_eq]; exact h)]

theorem mem_flat_fst {p : F × F} {l : List (F × F)} (h : p ∈ l) : p.1 ∈ flat l := by
  unfold flat; simp only [List.mem_flatMap]; exact ⟨p, h, by simp⟩

theorem mem_flat_snd {p : F × F} {l : List (F × F)} (h : p ∈ l) : p.2 ∈ flat l := by
  unfold flat; simp only [List.mem_flatMap]; exact ⟨p, h, by simp⟩

theorem betweenSpec_nil_of_ge (rest : List (F × F)) (t0 t1 : F) (h : ∀ p ∈ rest, t1 ≤ p.1) :
    betweenSpec rest t0 t1 = [] := by
  unfold betweenSpec
  rw [List.map_eq_nil_iff, List.filter_eq_nil_iff]
  intro p hp
  simp [not_lt.mpr (h p hp)]

theorem specEnd_eq (t0 t1 : F) (rest : List (F × F)) :
    ∀ (x b : F), (b :: flat rest).Pairwise (· ≤ ·) → t0 < b →
      specEnd t1 x b rest = (x, if t1 < b then t1 else b) :: betweenSpec rest t0 t1 := by
  induction rest with
  | nil =>
    intro x b _ _
    unfold specEnd betweenSpec
    by_cases h : t1 ≤ b
    · rw [if_pos h]
      by_cases h' : t1 < b
      · simp [h']
      · have : t1 = b := le_antisymm h (not_lt.mp h')
        simp [this]
    · rw [if_neg h, if_neg (fun h' => h (le_of_lt h'))]; simp
  | cons p rest' ih =>
    intro x b hs h0
    obtain ⟨a', b'⟩ := p
    have hfl : flat ((a', b') :: rest') = a' :: b' :: flat rest' := by simp [flat]
    rw [hfl] at hs
    simp only [List.pairwise_cons] at hs
    obtain ⟨hb, ha', hb', hrest⟩ := hs
    have hba' : b ≤ a' := hb a' (by simp)
    have ha'b' : a' ≤ b' := ha' b' (by simp)
    unfold specEnd
    by_cases h : t1 ≤ b
    · rw [if_pos h]
      have hv : (if t1 < b then t1 else b) = t1 := by
        by_cases h' : t1 < b
        · rw [if_pos h']
        · rw [if_neg h']; exact (le_antisymm h (not_lt.mp h')).symm
      rw [hv, betweenSpec_nil_of_ge]
      intro q hq
      rcases List.mem_cons.mp hq with rfl | hq
      · exact le_trans h hba'
      · exact le_trans h (le_trans hba' (ha' _ (List.mem_cons_of_mem _ (mem_flat_fst hq))))
    · rw [if_neg h, if_neg (fun h' => h (le_of_lt h')), betweenSpec_cons]
      have h0' : t0 < b' := lt_of_lt_of_le h0 (le_trans hba' ha'b')
      by_cases h2 : a' < t1
      · rw [if_pos h2, if_pos ⟨h0', h2⟩]
        have hs' : (b' :: flat rest').Pairwise (· ≤ ·) := List.pairwise_cons.mpr ⟨hb', hrest⟩
        rw [ih a' b' hs' h0']
        have : ¬ a' ≤ t0 := not_le.mpr (lt_of_lt_of_le h0 hba')
        simp [this]
      · rw [if_neg h2, if_neg (fun hh => h2 hh.2)]
        rw [betweenSpec_nil_of_ge]
        intro q hq
        exact le_trans (not_lt.mp h2) (ha' _ (List.mem_cons_of_mem _ (mem_flat_fst hq)))

theorem adjS_add2 (s : Nat) : adjS (s + 2) = adjS s + 2 := by unfold adjS; split_ifs <;> omega
theorem adjE_add2 (e : Nat) : adjE (e + 2) = adjE e + 2 := by unfold adjE; split_ifs <;> omega

/-- shifting the whole computation past an interval that lies before both window bounds -/
theorem betweenCore_shift (a b : F) (E : List F) (s e : Nat) (t0 t1 : F) :
    betweenCore (a :: b :: E) (s + 2) (e + 2) t0 t1 = betweenCore E s e t0 t1 := by
  unfold betweenCore
  have hs : (s + 2) % 2 = s % 2 := by omega
  have he : (e + 2) % 2 = e % 2 := by omega
  rw [adjS_add2, adjE_add2, hs, he]
  by_cases hle : adjE e ≤ adjS s
  · have : adjE e + 2 ≤ adjS s + 2 := by omega
    rw [if_pos hle, if_pos this]
  · have h1 : ¬ (adjE e + 2 ≤ adjS s + 2) := by omega
    rw [if_neg hle, if_neg h1]
    have e2 : (adjE e + 2 - (adjS s + 2)) / 2 = (adjE e - adjS s) / 2 := by omega
    have e3 : adjE e + 2 - 1 - (adjS s + 2 + 1) = adjE e - 1 - (adjS s + 1) := by omega
    have e4 : adjS s + 2 + 1 = (adjS s + 1) + 1 + 1 := by omega
    have hS : (a :: b :: E)[s + 2]? = E[s]? := by simp
    have hE : e % 2 = 0 → (a :: b :: E)[e + 2 - 1]? = E[e - 1]? := by
      intro hev
      have : 1 ≤ e := by unfold adjE at hle; rw [if_pos hev] at hle; omega
      have : e + 2 - 1 = (e - 1) + 1 + 1 := by omega
      rw [this]; simp
    rw [e2, e3, e4, hS, List.drop_succ_cons, List.drop_succ_cons]
    by_cases hev : e % 2 = 0
    · rw [if_pos hev, if_pos hev, hE hev]
    · rw [if_neg hev, if_neg hev]

/-- the index computation once the window start is resolved to the head interval:
`s ∈ {0,1}` edges are `≤ t0`, `c` edges of the tail `L` are `≤ t1` -/
theorem betweenCore_head (x0 : F) (L : List F) (s c : Nat) (t0 t1 : F) (hs : s = 0 ∨ s = 1)
    (hc : c ≤ L.length) :
    betweenCore (x0 :: L) s (c + 1) t0 t1 =
      some (unflat ((if s = 0 then x0 else t0) :: (L.take c ++ (if c % 2 = 0 then [t1] else [])))) := by
  unfold betweenCore
  have hS : adjS s = 0 := by rcases hs with rfl | rfl <;> simp [adjS]
  have hstart : (if s % 2 = 0 then (x0 :: L)[s]? else some t0) = some (if s = 0 then x0 else t0) := by
    rcases hs with rfl | rfl <;> simp
  rw [hS, hstart]
  by_cases hev : c % 2 = 0
  · -- c even: t_end is during on-time
    have hE : adjE (c + 1) = c + 2 := by unfold adjE; rw [if_neg (by omega)]
    have h1 : ¬ (c + 2 ≤ 0) := by omega
    have hodd : ¬ ((c + 1) % 2 = 0) := by omega
    rw [hE, if_neg h1, if_neg hodd, if_pos hev]
    simp only [List.drop_succ_cons, List.drop_zero]
    have : c + 2 - 1 - (0 + 1) = c := by omega
    rw [this]
    by_cases hn : (c + 2 - 0) / 2 > 1
    · rw [if_pos hn]; simp
    · rw [if_neg hn]
      have : c = 0 := by omega
      subst this; simp
  · -- c odd: t_end is during off-time, the previous upper edge is used
    have hE : adjE (c + 1) = c + 1 := by unfold adjE; rw [if_pos (by omega)]
    have h1 : ¬ (c + 1 ≤ 0) := by omega
    have hodd : (c + 1) % 2 = 0 := by omega
    have hc1 : c - 1 < L.length := by omega
    have hend : (x0 :: L)[c + 1 - 1]? = some L[c - 1] := by
      have : c + 1 - 1 = (c - 1) + 1 := by omega
      rw [this, List.getElem?_cons_succ, List.getElem?_eq_getElem hc1]
    rw [hE, if_neg h1, if_pos hodd, if_neg hev, hend]
    simp only [List.drop_succ_cons, List.drop_zero, List.append_nil]
    have htake : L.take c = L.take (c - 1) ++ [L[c - 1]] := by
      have : c = (c - 1) + 1 := by omega
      conv_lhs => rw [this]
      rw [List.take_succ, List.getElem?_eq_getElem hc1]; rfl
    have : c + 1 - 1 - (0 + 1) = c - 1 := by omega
    rw [this, htake]
    by_cases hn : (c + 1 - 0) / 2 > 1
    · rw [if_pos hn]; simp
    · rw [if_neg hn]
      have : c = 1 := by omega
      subst this; simp

/-- **refinement**: on sorted, non-overlapping intervals and a non-empty window `t0 < t1` the
index arithmetic of `get_uptime_intervals_between` never fails and returns exactly the
specification form. -/
theorem betweenIdx_eq_spec (ivs : List (F × F)) (t0 t1 : F) (h01 : t0 < t1)
    (hs : (flat ivs).Pairwise (· ≤ ·)) :
    betweenIdx ivs t0 t1 = some (betweenSpec ivs t0 t1) := by
  unfold betweenIdx
  rw [if_neg (not_le.mpr h01)]
  induction ivs with
  | nil => simp [betweenCore, flat, digitize, digitizeR, adjS, adjE, betweenSpec]
  | cons p rest ih =>
    obtain ⟨a, b⟩ := p
    have hfl : flat ((a, b) :: rest) = a :: b :: flat rest := by simp [flat]
    rw [hfl] at hs
    simp only [List.pairwise_cons] at hs
    obtain ⟨ha, hb, hrest⟩ := hs
    have hab : a ≤ b := ha b (by simp)
    rw [hfl, betweenSpec_cons]
    by_cases hb0 : b ≤ t0
    · -- the interval lies before the window
      have ha0 : a ≤ t0 := le_trans hab hb0
      have hb1 : b < t1 := lt_of_le_of_lt hb0 h01
      have ha1 : a < t1 := lt_of_le_of_lt ha0 h01
      have d0 : digitize (a :: b :: flat rest) t0 = digitize (flat rest) t0 + 2 := by
        rw [digitize_cons', digitize_cons']; simp [ha0, hb0]
      have d1 : digitizeR (a :: b :: flat rest) t1 = digitizeR (flat rest) t1 + 2 := by
        rw [digitizeR_cons, digitizeR_cons]; simp [ha1, hb1]
      have hcond : ¬ (t0 < (a, b).2 ∧ (a, b).1 < t1) := fun h => absurd h.1 (not_lt.mpr hb0)
      rw [if_neg hcond, d0, d1, betweenCore_shift]
      exact ih hrest
    · have h0b : t0 < b := not_le.mp hb0
      have hz0 : digitize (flat rest) t0 = 0 :=
        digitize_zero_of_lt' _ _ (fun e he => lt_of_lt_of_le h0b (hb e he))
      have d0 : digitize (a :: b :: flat rest) t0 = if a ≤ t0 then 1 else 0 := by
        rw [digitize_cons', digitize_cons', hz0]; simp [hb0]
      by_cases ha1 : a < t1
      · -- the head interval is the first one in the window
        have d1 : digitizeR (a :: b :: flat rest) t1 = digitizeR (b :: flat rest) t1 + 1 := by
          rw [digitizeR_cons a]; simp [ha1]
        have hc : digitizeR (b :: flat rest) t1 ≤ (b :: flat rest).length := by
          unfold digitizeR; exact List.countP_le_length
        have hs01 : (if a ≤ t0 then 1 else 0) = 0 ∨ (if a ≤ t0 then 1 else 0) = 1 := by
          split_ifs <;> simp
        have hcond : t0 < (a, b).2 ∧ (a, b).1 < t1 := ⟨h0b, ha1⟩
        rw [if_pos hcond, d0, d1, betweenCore_head a (b :: flat rest) _ _ t0 t1 hs01 hc]
        have hsorted : (b :: flat rest).Pairwise (· ≤ ·) := List.pairwise_cons.mpr ⟨hb, hrest⟩
        have hg := gEnd_eq_specEnd t1 rest (if (if a ≤ t0 then 1 else 0) = 0 then a else t0) b hsorted
        unfold gEnd at hg
        rw [hg, specEnd_eq t0 t1 rest _ b hsorted h0b]
        congr 2
        by_cases h : a ≤ t0 <;> simp [h]
      · -- the window ends before (or at the start of) the head interval: nothing is on
        have h1a : t1 ≤ a := not_lt.mp ha1
        have hz1 : digitizeR (a :: b :: flat rest) t1 = 0 :=
          digitizeR_zero_of_le _ _ (by
            intro e he
            rcases List.mem_cons.mp he with rfl | he
            · exact h1a
            · exact le_trans h1a (ha e he))
        have ha0 : ¬ a ≤ t0 := not_le.mpr (lt_of_lt_of_le h01 h1a)
        have hcond : ¬ (t0 < (a, b).2 ∧ (a, b).1 < t1) := fun h => ha1 h.2
        rw [if_neg hcond, d0, hz1, if_neg ha0]
        rw [betweenSpec_nil_of_ge]
        · simp [betweenCore, adjS, adjE]
        · intro q hq
          exact le_trans h1a (ha _ (List.mem_cons_of_mem _ (mem_flat_fst hq)))

/-- an empty (or reversed) window has no on-time: the early return -/
theorem betweenIdx_empty_window (ivs : List (F × F)) (t0 t1 : F) (h : t1 ≤ t0) :
    betweenIdx ivs t0 t1 = some [] := by
  unfold betweenIdx; rw [if_pos h]

end C14
