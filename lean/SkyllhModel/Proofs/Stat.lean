/-
  Helper lemmas for property C12 (`Props/C12.lean`) about `Model/Stat.lean`.
-/
import SkyllhModel.Model.Stat
import SkyllhModel.Proofs.RealScalar
import Mathlib.Tactic
import Mathlib.Analysis.SpecialFunctions.Log.Deriv
import Mathlib.Analysis.SpecialFunctions.Sqrt

open Stat

namespace C12

/-! ### sign handling -/
section sign
variable {F : Type} [Field F] [LinearOrder F]

theorem isZero_iff (x : F) : isZero x = true ↔ x = 0 := by
  unfold isZero
  simp only [Bool.and_eq_true, Bool.not_eq_true', decide_eq_false_iff_not, not_lt]
  constructor
  · rintro ⟨h1, h2⟩; exact le_antisymm h2 h1
  · rintro rfl; exact ⟨le_refl _, le_refl _⟩

theorem sgnNs_of_neg {ns : F} (h : ns < 0) : sgnNs ns = -1 := by
  have hz : isZero ns = false := by
    rw [Bool.eq_false_iff]; intro hc; exact (ne_of_lt h) ((isZero_iff ns).mp hc)
  simp [sgnNs, hz, npSign, h]

theorem sgnNs_of_nonneg {ns : F} (h : 0 ≤ ns) : sgnNs ns = 1 := by
  rcases eq_or_lt_of_le h with h0 | hpos
  · have hz : isZero ns = true := (isZero_iff ns).mpr h0.symm
    simp [sgnNs, hz]
  · have hz : isZero ns = false := by
      rw [Bool.eq_false_iff]; intro hc; exact (ne_of_gt hpos) ((isZero_iff ns).mp hc)
    simp [sgnNs, hz, npSign, hpos, not_lt.mpr h]

end sign

/-! ### sums -/
section sums

theorem sumF_eq_sum (xs : List ℝ) : sumF xs = xs.sum := by
  induction xs with
  | nil => rfl
  | cons x xs ih => simp [sumF, ih]

theorem sumF_sq_nonneg (gs : List ℝ) : 0 ≤ sumF (gs.map (fun g => g * g)) := by
  induction gs with
  | nil => simp [sumF]
  | cons g gs ih => simp only [List.map_cons, sumF]; nlinarith [mul_self_nonneg g]

theorem sumF_sq_pos (gs : List ℝ) (h : ∃ g ∈ gs, g ≠ 0) : 0 < sumF (gs.map (fun g => g * g)) := by
  induction gs with
  | nil => obtain ⟨g, hg, _⟩ := h; simp at hg
  | cons g gs ih =>
    simp only [List.map_cons, sumF]
    obtain ⟨x, hx, hx0⟩ := h
    rcases List.mem_cons.mp hx with rfl | hx
    · have : 0 < x * x := mul_self_pos.mpr hx0
      linarith [sumF_sq_nonneg gs]
    · have := ih ⟨x, hx, hx0⟩
      nlinarith [mul_self_nonneg g]

theorem sumF_neg (xs : List ℝ) : sumF (xs.map (fun x => -x)) = -sumF xs := by
  induction xs with
  | nil => simp [sumF]
  | cons x xs ih => simp only [List.map_cons, sumF, ih]; ring

/-- term-wise differentiation of a `sumF` over a list -/
theorem sumF_hasDerivAt {α : Type} (Xs : List α) (f : ℝ → α → ℝ) (f' : α → ℝ) (t0 : ℝ)
    (h : ∀ X ∈ Xs, HasDerivAt (fun t => f t X) (f' X) t0) :
    HasDerivAt (fun t => sumF (Xs.map (f t))) (sumF (Xs.map f')) t0 := by
  induction Xs with
  | nil => simpa [sumF] using (hasDerivAt_const t0 (0 : ℝ))
  | cons X Xs ih =>
    simp only [List.map_cons, sumF]
    exact (h X (by simp)).add (ih (fun Y hY => h Y (List.mem_cons_of_mem _ hY)))

theorem zipWith_map_map {α β γ δ : Type} (l : List α) (g : α → β) (h : α → γ) (f : β → γ → δ) :
    List.zipWith f (l.map g) (l.map h) = l.map (fun x => f (g x) (h x)) := by
  induction l with
  | nil => rfl
  | cons x xs ih => simp [ih]

end sums

/-! ### counting -/
section count
variable {F : Type} [LinearOrder F]

theorem countGt_le_countGe (tsv : List F) (thr : F) : countGt tsv thr ≤ countGe tsv thr := by
  unfold countGt countGe
  apply List.countP_mono_left
  intro x _ hx
  simp only [decide_eq_true_eq] at hx ⊢
  exact le_of_lt hx

theorem countGe_eq_add (tsv : List F) (thr : F) : countGe tsv thr = countGt tsv thr + countEq tsv thr := by
  unfold countGe countGt countEq
  induction tsv with
  | nil => simp
  | cons x xs ih =>
    simp only [List.countP_cons, ih]
    by_cases h1 : thr < x
    · have h2 : thr ≤ x := le_of_lt h1
      simp [h1, h2]; omega
    · by_cases h2 : thr ≤ x
      · simp [h1, h2]; omega
      · simp [h1, h2]

theorem countGt_le_length (tsv : List F) (thr : F) : countGt tsv thr ≤ tsv.length := List.countP_le_length

theorem countGe_le_length (tsv : List F) (thr : F) : countGe tsv thr ≤ tsv.length := List.countP_le_length

theorem countGt_antitone (tsv : List F) {t1 t2 : F} (h : t1 ≤ t2) : countGt tsv t2 ≤ countGt tsv t1 := by
  unfold countGt
  apply List.countP_mono_left
  intro x _ hx
  simp only [decide_eq_true_eq] at hx ⊢
  exact lt_of_le_of_lt h hx

theorem countGe_antitone (tsv : List F) {t1 t2 : F} (h : t1 ≤ t2) : countGe tsv t2 ≤ countGe tsv t1 := by
  unfold countGe
  apply List.countP_mono_left
  intro x _ hx
  simp only [decide_eq_true_eq] at hx ⊢
  exact le_trans h hx

theorem countGe_le_countGt_of_lt (tsv : List F) {t1 t2 : F} (h : t1 < t2) : countGe tsv t2 ≤ countGt tsv t1 := by
  unfold countGe countGt
  apply List.countP_mono_left
  intro x _ hx
  simp only [decide_eq_true_eq] at hx ⊢
  exact lt_of_lt_of_le h hx

end count

/-- the count the operator selects -/
noncomputable def cnt (op : Cmp) (tsv : List ℝ) (thr : ℝ) : ℕ :=
  match op with
  | .greater => countGt tsv thr
  | .greaterEqual => countGe tsv thr
  | .other => 0

theorem cnt_le_length (op : Cmp) (tsv : List ℝ) (thr : ℝ) : cnt op tsv thr ≤ tsv.length := by
  cases op
  · exact countGt_le_length _ _
  · exact countGe_le_length _ _
  · exact Nat.zero_le _

/-- what a successful `calculate_pval_from_trials` returns -/
theorem pval_ok {op : Cmp} {tsv : List ℝ} {thr p s : ℝ} (h : pval op tsv thr = .ok (p, s)) :
    op ≠ .other ∧ tsv.length ≠ 0 ∧ p = (cnt op tsv thr : ℝ) / (tsv.length : ℝ) ∧
      s = Real.sqrt (p * (1 - p) / (tsv.length : ℝ)) := by
  unfold pval pvalCounts at h
  cases op with
  | other => simp at h
  | greater =>
    by_cases hn : tsv.length = 0
    · simp [hn] at h
    · simp only [hn, if_false] at h
      injection h with h
      injection h with hp hs
      refine ⟨by simp, hn, ?_, ?_⟩
      · rw [← hp]; simp [pOf, cnt]
      · rw [← hs, ← hp]; simp [pSigma, pOf]
  | greaterEqual =>
    by_cases hn : tsv.length = 0
    · simp [hn] at h
    · simp only [hn, if_false] at h
      injection h with h
      injection h with hp hs
      refine ⟨by simp, hn, ?_, ?_⟩
      · rw [← hp]; simp [pOf, cnt]
      · rw [← hs, ← hp]; simp [pSigma, pOf]

end C12
