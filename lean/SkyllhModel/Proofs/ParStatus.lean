/-
  Proofs about `Model/ParStatus.lean` (status queue of parallelize, property C09).
-/
import SkyllhModel.Model.ParStatus
import Mathlib.Tactic
open ParStatus
namespace ParStatus

def Fair (σ : Nat → Ag) : Prop := ∀ a : Ag, ∀ k, ∃ k', k ≤ k' ∧ σ k' = a

theorem sched_fair (pre : List Ag) : Fair (sched pre) := by
  intro a k
  obtain ⟨i, hi, ha⟩ : ∃ i, i < 4 ∧ agOf i = a := by
    cases a
    · exact ⟨0, by omega, rfl⟩
    · exact ⟨1, by omega, rfl⟩
    · exact ⟨2, by omega, rfl⟩
    · exact ⟨3, by omega, rfl⟩
  refine ⟨(k + pre.length + 1) * 4 + i, by omega, ?_⟩
  have hlen : pre.length ≤ (k + pre.length + 1) * 4 + i := by omega
  simp only [sched, List.getElem?_eq_none hlen]
  rw [Nat.mul_add_mod_of_lt hi, ha]

/-- batch mode: nothing is ever in the feeder buffer or in the pipe -/
theorem batch_empty (c : Cfg) (h : c.shown = false) (σ : Nat → Ag) (k : Nat) :
    (run c σ k).buf = 0 ∧ (run c σ k).pipe = 0 := by
  induction k with
  | zero => exact ⟨rfl, rfl⟩
  | succ k ih =>
    obtain ⟨hb, hp⟩ := ih
    simp only [run]
    cases σ k <;> simp only [step] <;> (repeat' split) <;> simp_all

def pot (c : Cfg) (s : St) : Nat :=
  3 * (c.tasks - s.done) + 2 * s.buf + s.pipe + (if s.exited then 0 else 1) + (if s.reading then 1 else 0)

theorem step_eq_or_dec (c : Cfg) (s : St) (a : Ag) : step c s a = s ∨ pot c (step c s a) < pot c s := by
  obtain ⟨d, b, p, r, e⟩ := s
  cases a <;> simp only [step] <;> (repeat' split) <;> first
    | exact Or.inl rfl
    | (right; simp only [pot]; simp_all <;> omega)

theorem exists_productive (c : Cfg) (s : St) (h : s.buf = 0 ∨ (c.drainAtJoin = true ∧ 1 ≤ c.cap))
    (he : s.exited = false) : ∃ a, pot c (step c s a) < pot c s := by
  obtain ⟨d, b, p, r, e⟩ := s
  simp only at he h; subst he
  by_cases h1 : d < c.tasks
  · refine ⟨.worker, ?_⟩; simp only [step, pot]; simp [h1]; split <;> omega
  · by_cases h2 : b = 0
    · refine ⟨.worker, ?_⟩; simp only [step, pot]; simp [h1, h2]
    · by_cases h3 : p < c.cap
      · refine ⟨.feeder, ?_⟩; simp only [step, pot]; simp [h3, Nat.pos_of_ne_zero h2]; omega
      · obtain ⟨hd, hc⟩ := h.resolve_left h2
        refine ⟨.master, ?_⟩; simp only [step, pot]; simp [hd]
        have : 0 < p := by omega
        simp [this]; omega

theorem eventually_dec (c : Cfg) (σ : Nat → Ag) (a : Ag) (d : Nat) :
    ∀ k, σ (k + d) = a → pot c (step c (run c σ k) a) < pot c (run c σ k) →
      ∃ i, pot c (run c σ (i+1)) < pot c (run c σ k) := by
  induction d with
  | zero => intro k ha hp; simp only [Nat.add_zero] at ha; exact ⟨k, by simpa [run, ha] using hp⟩
  | succ d ih =>
    intro k ha hp
    rcases step_eq_or_dec c (run c σ k) (σ k) with he | hdec
    · have hrun : run c σ (k+1) = run c σ k := by simp [run, he]
      obtain ⟨i, hlt⟩ := ih (k+1) (by rw [← ha]; congr 1; omega) (by rw [hrun]; exact hp)
      exact ⟨i, by rw [hrun] at hlt; exact hlt⟩
    · exact ⟨k, by simpa [run] using hdec⟩

theorem exits (c : Cfg) (σ : Nat → Ag) (hf : Fair σ)
    (hinv : ∀ k, (run c σ k).buf = 0 ∨ (c.drainAtJoin = true ∧ 1 ≤ c.cap)) :
    ∃ k, (run c σ k).exited = true := by
  suffices h : ∀ N k, pot c (run c σ k) ≤ N → ∃ k', (run c σ k').exited = true from h _ 0 (le_refl _)
  intro N
  induction N using Nat.strong_induction_on with
  | _ N ih =>
    intro k hk
    by_cases ht : (run c σ k).exited = true
    · exact ⟨k, ht⟩
    · obtain ⟨a, hp⟩ := exists_productive c (run c σ k) (hinv k) (by simpa using ht)
      obtain ⟨k1, hk1, hσ⟩ := hf a k
      obtain ⟨i, hlt⟩ := eventually_dec c σ a (k1 - k) k (by rw [← hσ]; congr 1; omega) hp
      exact ih (pot c (run c σ (i+1))) (by omega) (i+1) (le_refl _)

/-- interactive session, pipe of 2 records, 3 tasks, no reader after the master's own chunk -/
def cfgHang : Cfg := { shown := true, cap := 2, tasks := 3, drainAtJoin := false }
def preHang : List Ag := [.masterEnd, .worker, .worker, .worker, .feeder, .feeder]

theorem hang_absorbing (a : Ag) : step cfgHang (run cfgHang (sched preHang) 6) a = run cfgHang (sched preHang) 6 := by
  cases a <;> decide

theorem hang_forever (d : Nat) : run cfgHang (sched preHang) (6 + d) = run cfgHang (sched preHang) 6 := by
  induction d with
  | zero => rfl
  | succ d ih => rw [← Nat.add_assoc]; simp only [run]; rw [ih]; exact hang_absorbing _

end ParStatus
