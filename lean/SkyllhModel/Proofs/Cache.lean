/-
  Helper lemmas for property C06 (cache transparency): every cache layer of Model/Cache.lean keeps
  the invariant "content = pure function of the current data at the cached key".
  The scalar type `F` is arbitrary: nothing here uses an arithmetic law.
-/
import SkyllhModel.Model.Cache
import Mathlib.Tactic

open Cache

set_option linter.unusedSectionVars false

namespace C06

variable {D S F : Type}

/-- one `MultiDimGridPDF` cache memoises `f` (block `k` ↦ values) for state id `sid` -/
def PdValid (sid : Int) (f : Nat → List F) (c : PdCache F) : Prop :=
  (∀ i, c.sid = some i → i ≤ sid) ∧ (c.sid = some sid → ∀ k v, c.blocks k = some v → v = f k)

theorem pdValid_empty (sid : Int) (f : Nat → List F) : PdValid sid f PdCache.empty := by
  constructor <;> simp [PdCache.empty]

/-- a valid cache (hit or miss, caching on or off) returns what a computation would return -/
theorem pdGet_val (cp : Bool) (sid : Int) (f : Nat → List F) (c : PdCache F) (k : Nat)
    (h : PdValid sid f c) : (pdGet cp sid (f k) c k).1 = f k := by
  unfold pdGet
  split
  · rfl
  · split
    · rename_i hs
      split
      · rename_i v hv
        exact h.2 hs k v hv
      · rfl
    · rfl

theorem pdGet_valid (cp : Bool) (sid : Int) (f : Nat → List F) (c : PdCache F) (k : Nat)
    (h : PdValid sid f c) : PdValid sid f (pdGet cp sid (f k) c k).2.1 := by
  unfold pdGet
  split
  · exact h
  · split
    · rename_i hs
      split
      · exact h
      · refine ⟨fun i hi => ?_, fun _ j v hv => ?_⟩
        · simp only [Option.some.injEq] at hi; omega
        · simp only at hv
          split at hv
          · simp only [Option.some.injEq] at hv; subst_vars; rfl
          · exact h.2 hs j v hv
    · refine ⟨fun i hi => ?_, fun _ j v hv => ?_⟩
      · simp only [Option.some.injEq] at hi; omega
      · simp only at hv
        split at hv
        · simp only [Option.some.injEq] at hv; subst_vars; rfl
        · exact absurd hv (by simp)

/-- a stale cache whose state id is smaller than the current one is (vacuously) valid for any `f` -/
theorem pdValid_of_lt {sid sid' : Int} (f g : Nat → List F) (c : PdCache F)
    (h : PdValid sid f c) (hlt : sid < sid') : PdValid sid' g c := by
  refine ⟨fun i hi => le_of_lt (lt_of_le_of_lt (h.1 i hi) hlt), fun hs => ?_⟩
  have := h.1 sid' hs
  omega

theorem pdValid_mono {sid sid' : Int} (f : Nat → List F) (c : PdCache F)
    (h : PdValid sid f c) (hle : sid ≤ sid') :
    ∀ i, c.sid = some i → i ≤ sid' := fun i hi => le_trans (h.1 i hi) hle

/-- all per-grid-point caches of the signal PDF set are valid -/
def PdcValid (W : World D S F) (d : D) (s : S) (sid : Int) (pdc : F → PdCache F) : Prop :=
  ∀ g, PdValid sid (fun k => W.man d s k g) (pdc g)

section
variable [DecidableEq F]

theorem evalPdfs_spec (W : World D S F) (cp : Bool) (d : D) (s : S) (sid : Int) :
    ∀ (gs : List F) (pdc : F → PdCache F) (k : Nat), PdcValid W d s sid pdc →
      (evalPdfs W cp d s sid pdc k gs).1 = manAll W d s k gs ∧
      PdcValid W d s sid (evalPdfs W cp d s sid pdc k gs).2.1 := by
  intro gs
  induction gs with
  | nil => intro pdc k h; exact ⟨rfl, h⟩
  | cons g gs ih =>
    intro pdc k h
    have hv := pdGet_val cp sid (fun k => W.man d s k g) (pdc g) k (h g)
    have hc := pdGet_valid cp sid (fun k => W.man d s k g) (pdc g) k (h g)
    have h' : PdcValid W d s sid
        (fun g' => if g' == g then (pdGet cp sid (W.man d s k g) (pdc g) k).2.1 else pdc g') := by
      intro g'
      by_cases hg : g' = g
      · subst hg; simpa using hc
      · simpa [hg] using h g'
    obtain ⟨ih1, ih2⟩ := ih _ (k + 1) h'
    refine ⟨?_, ?_⟩
    · simp only [evalPdfs, manAll]
      rw [ih1]
      exact congrArg (· :: _) hv
    · simpa only [evalPdfs] using ih2

theorem all2_eq (hit : F → F → Bool) (hx : ∀ a b, hit a b = true → a = b) :
    ∀ as bs : List F, all2 hit as bs = true → as = bs := by
  intro as
  induction as with
  | nil => intro bs h; cases bs with
    | nil => rfl
    | cons b bs => simp [all2] at h
  | cons a as ih => intro bs h; cases bs with
    | nil => simp [all2] at h
    | cons b bs =>
      simp only [all2, Bool.and_eq_true] at h
      rw [hx a b h.1, ih bs h.2]

theorem all2_refl (hit : F → F → Bool) (hr : ∀ a, hit a a = true) :
    ∀ as : List F, all2 hit as as = true := by
  intro as
  induction as with
  | nil => rfl
  | cons a as ih => simp [all2, hr a, ih]

end

section
variable [DecidableEq F] [Add F] [Sub F] [Mul F] [Div F] [LT F] [DecidableLT F] [OfScientific F]

/-- the invariant of the whole object graph -/
structure Inv (W : World D S F) (par : Bool) (st : St D S F) : Prop where
  interp_le : ∀ ic, st.interp = some ic → ic.sid ≤ st.sid
  interp_ok : ∀ ic, st.interp = some ic → ic.sid = st.sid →
    ic.coefs = coefPure W par st.data st.src ic.keys
  pdc_ok : PdcValid W st.data st.src st.sid st.pdc
  bkg_ok : PdValid st.sid (fun _ => W.bkg st.data st.src) st.bkgc

theorem inv_fresh (W : World D S F) (par : Bool) (d : D) (s : S) : Inv W par (fresh d s) where
  interp_le := by intro ic h; simp [fresh] at h
  interp_ok := by intro ic h; simp [fresh] at h
  pdc_ok := fun _ => pdValid_empty _ _
  bkg_ok := pdValid_empty _ _

/-- after the state id advanced, every cache is stale, hence valid for whatever the new data is -/
theorem inv_of_lt (W : World D S F) (par : Bool) (st st' : St D S F) (h : Inv W par st)
    (hi : st'.interp = st.interp) (hp : st'.pdc = st.pdc) (hb : st'.bkgc = st.bkgc)
    (hlt : st.sid < st'.sid) : Inv W par st' where
  interp_le := by
    intro ic hic; rw [hi] at hic; exact le_of_lt (lt_of_le_of_lt (h.interp_le ic hic) hlt)
  interp_ok := by
    intro ic hic heq; rw [hi] at hic; have := h.interp_le ic hic; omega
  pdc_ok := by
    intro g; rw [hp]; exact pdValid_of_lt _ _ _ (h.pdc_ok g) hlt
  bkg_ok := by
    rw [hb]; exact pdValid_of_lt _ _ _ h.bkg_ok hlt

theorem interpMiss_spec (W : World D S F) (cfg : Cfg) (st : St D S F) (q : Query F)
    (h : PdcValid W st.data st.src st.sid st.pdc) :
    (interpMiss W cfg st q).1 = coefPure W cfg.parabola st.data st.src q.key ∧
    (interpMiss W cfg st q).2.1 =
      some ⟨st.sid, q.key, coefPure W cfg.parabola st.data st.src q.key⟩ ∧
    PdcValid W st.data st.src st.sid (interpMiss W cfg st q).2.2.1 := by
  unfold interpMiss coefPure
  by_cases hp : cfg.parabola = true
  · simp only [hp, if_true]
    obtain ⟨a1, a2⟩ := evalPdfs_spec W cfg.cachePd st.data st.src st.sid (q.key.map W.lo) st.pdc 0 h
    obtain ⟨b1, b2⟩ := evalPdfs_spec W cfg.cachePd st.data st.src st.sid q.key _ 0 a2
    obtain ⟨c1, c2⟩ := evalPdfs_spec W cfg.cachePd st.data st.src st.sid (q.key.map W.up) _ 0 b2
    rw [a1, b1, c1]
    exact ⟨rfl, rfl, c2⟩
  · simp only [hp, if_false, Bool.false_eq_true]
    obtain ⟨a1, a2⟩ := evalPdfs_spec W cfg.cachePd st.data st.src st.sid q.key st.pdc 0 h
    obtain ⟨b1, b2⟩ := evalPdfs_spec W cfg.cachePd st.data st.src st.sid (q.key.map W.up) _ 0 a2
    rw [a1, b1]
    exact ⟨rfl, rfl, b2⟩

/-- the interpolation method: value part and preservation of the invariant parts it touches -/
theorem interpCall_spec (W : World D S F) (hit : F → F → Bool) (hx : ∀ a b, hit a b = true → a = b)
    (cfg : Cfg) (st : St D S F) (q : Query F) (h : Inv W cfg.parabola st) :
    (interpCall W hit cfg st q).1 = coefPure W cfg.parabola st.data st.src q.key ∧
    (∀ ic, (interpCall W hit cfg st q).2.1 = some ic → ic.sid ≤ st.sid) ∧
    (∀ ic, (interpCall W hit cfg st q).2.1 = some ic → ic.sid = st.sid →
      ic.coefs = coefPure W cfg.parabola st.data st.src ic.keys) ∧
    PdcValid W st.data st.src st.sid (interpCall W hit cfg st q).2.2.1 := by
  obtain ⟨m1, m2, m3⟩ := interpMiss_spec W cfg st q h.pdc_ok
  have miss :
      (interpMiss W cfg st q).1 = coefPure W cfg.parabola st.data st.src q.key ∧
      (∀ ic, (interpMiss W cfg st q).2.1 = some ic → ic.sid ≤ st.sid) ∧
      (∀ ic, (interpMiss W cfg st q).2.1 = some ic → ic.sid = st.sid →
        ic.coefs = coefPure W cfg.parabola st.data st.src ic.keys) ∧
      PdcValid W st.data st.src st.sid (interpMiss W cfg st q).2.2.1 := by
    refine ⟨m1, ?_, ?_, m3⟩
    · intro ic hic; rw [m2] at hic; cases hic; exact le_refl _
    · intro ic hic _; rw [m2] at hic; cases hic; rfl
  unfold interpCall
  cases hI : st.interp with
  | none => simpa using miss
  | some ic =>
    simp only
    split
    · rename_i hc
      have hk : ic.keys = q.key := all2_eq hit hx _ _ hc.2
      refine ⟨?_, ?_, ?_, h.pdc_ok⟩
      · rw [h.interp_ok ic hI hc.1, hk]
      · intro ic' hic'; cases hic'; exact h.interp_le ic hI
      · intro ic' hic' hs; cases hic'; exact h.interp_ok ic hI hs
    · simpa using miss

/-- **one evaluation**: values equal the pure evaluator, invariant kept -/
theorem evalC_spec (W : World D S F) (hit : F → F → Bool) (hx : ∀ a b, hit a b = true → a = b)
    (cfg : Cfg) (st : St D S F) (q : Query F) (h : Inv W cfg.parabola st) :
    ((evalC W hit cfg st q).2.ratio, (evalC W hit cfg st q).2.grad) =
      evalPure W cfg.parabola st.data st.src q ∧
    Inv W cfg.parabola (evalC W hit cfg st q).1 ∧
    (evalC W hit cfg st q).1.data = st.data ∧ (evalC W hit cfg st q).1.src = st.src ∧
    (evalC W hit cfg st q).1.sid = st.sid := by
  obtain ⟨i1, i2, i3, i4⟩ := interpCall_spec W hit hx cfg st q h
  have b1 := pdGet_val cfg.cacheBkg st.sid (fun _ => W.bkg st.data st.src) st.bkgc 0 h.bkg_ok
  have b2 := pdGet_valid cfg.cacheBkg st.sid (fun _ => W.bkg st.data st.src) st.bkgc 0 h.bkg_ok
  refine ⟨?_, ⟨?_, ?_, ?_, ?_⟩, rfl, rfl, rfl⟩
  · simp only [evalC, evalPure]
    rw [i1, b1]
  · exact i2
  · exact i3
  · exact i4
  · exact b2

end

end C06

/-! ### shapes: nothing is truncated in the specification

The numerics of Model/Cache.lean zip lists (`zipWith` stops at the shorter one) where numpy raises on
a shape mismatch.  For a well-formed world — every signal block of a trial is as long as the trial's
background array, i.e. "all arrays of one trial have that trial's number of events" — and a query
with one value and one key per source, no zip ever meets lists of different length: the stateless
evaluator returns one block per source and every block has the trial's number of events.  Together
with `c06_transparent` the same holds for the cached evaluator after any history, also across data
sets of different size. -/

namespace C06
open Cache

section shapes
variable {D S F : Type} [Add F] [Sub F] [Mul F] [Div F] [LT F] [DecidableLT F] [OfScientific F]

/-- every block has length `n` -/
def BlocksLen (n : Nat) (l : List (List F × List F)) : Prop := ∀ b ∈ l, b.1.length = n ∧ b.2.length = n

theorem linCoefs_shape (W : World D S F) (d : D) (s : S) (n : Nat)
    (hw : ∀ k g, (W.man d s k g).length = n) : ∀ (key : List F) (k : Nat),
    (linCoefs key (key.map W.up) (manAll W d s k key) (manAll W d s k (key.map W.up))).length = key.length ∧
    ∀ c ∈ linCoefs key (key.map W.up) (manAll W d s k key) (manAll W d s k (key.map W.up)),
      c.1.length = n ∧ c.2.1.length = n := by
  intro key
  induction key with
  | nil => intro k; simp [linCoefs, manAll]
  | cons g gs ih =>
    intro k
    obtain ⟨h1, h2⟩ := ih (k + 1)
    simp only [List.map_cons, manAll, linCoefs, List.length_cons, List.mem_cons]
    refine ⟨by rw [h1], ?_⟩
    rintro c (rfl | hc)
    · simp [linCoef, hw]
    · exact h2 c hc

theorem parCoefs_shape (W : World D S F) (d : D) (s : S) (n : Nat)
    (hw : ∀ k g, (W.man d s k g).length = n) : ∀ (key : List F) (k : Nat),
    (parCoefs W.dx (manAll W d s k (key.map W.lo)) (manAll W d s k key)
      (manAll W d s k (key.map W.up))).length = key.length ∧
    ∀ c ∈ parCoefs W.dx (manAll W d s k (key.map W.lo)) (manAll W d s k key)
      (manAll W d s k (key.map W.up)),
      c.1.length = n ∧ c.2.1.length = n ∧ c.2.2.length = n := by
  intro key
  induction key with
  | nil => intro k; simp [parCoefs, manAll]
  | cons g gs ih =>
    intro k
    obtain ⟨h1, h2⟩ := ih (k + 1)
    simp only [List.map_cons, manAll, parCoefs, List.length_cons, List.mem_cons]
    refine ⟨by rw [h1], ?_⟩
    rintro c (rfl | hc)
    · simp [parCoef, hw]
    · exact h2 c hc

theorem linVals_shape (n : Nat) : ∀ (cs : List (Coef F)) (xs : List F), xs.length = cs.length →
    (∀ c ∈ cs, c.1.length = n ∧ c.2.1.length = n) →
    (linVals xs cs).length = cs.length ∧ BlocksLen n (linVals xs cs) := by
  intro cs
  induction cs with
  | nil => intro xs _ _; cases xs <;> simp [linVals, BlocksLen]
  | cons c cs ih =>
    intro xs hl hc
    cases xs with
    | nil => simp at hl
    | cons x xs =>
      obtain ⟨h1, h2⟩ := ih xs (by simpa using hl) (fun c' hc' => hc c' (List.mem_cons_of_mem _ hc'))
      have hc0 := hc c (List.mem_cons_self ..)
      refine ⟨by simp [linVals, h1], ?_⟩
      intro b hb
      simp only [linVals, List.mem_cons] at hb
      rcases hb with rfl | hb
      · simp [linVal, hc0.1, hc0.2]
      · exact h2 b hb

theorem parVals_shape (n : Nat) : ∀ (cs : List (Coef F)) (xs ks : List F), xs.length = cs.length →
    ks.length = cs.length → (∀ c ∈ cs, c.1.length = n ∧ c.2.1.length = n ∧ c.2.2.length = n) →
    (parVals xs ks cs).length = cs.length ∧ BlocksLen n (parVals xs ks cs) := by
  intro cs
  induction cs with
  | nil => intro xs ks _ _ _; cases xs <;> cases ks <;> simp [parVals, BlocksLen]
  | cons c cs ih =>
    intro xs ks hl hk hc
    cases xs with
    | nil => simp at hl
    | cons x xs =>
      cases ks with
      | nil => simp at hk
      | cons k ks =>
        obtain ⟨h1, h2⟩ := ih xs ks (by simpa using hl) (by simpa using hk)
          (fun c' hc' => hc c' (List.mem_cons_of_mem _ hc'))
        have hc0 := hc c (List.mem_cons_self ..)
        refine ⟨by simp [parVals, h1], ?_⟩
        intro b hb
        simp only [parVals, List.mem_cons] at hb
        rcases hb with rfl | hb
        · simp [parVal, hc0.1, hc0.2.1, hc0.2.2]
        · exact h2 b hb

omit [Add F] [Sub F] [Mul F] [Div F] [LT F] [DecidableLT F] [OfScientific F] in
/-- picking every position gives the array back -/
theorem pick_range (b : List F) : pick b (List.range b.length) = b := by
  unfold pick
  induction b using List.reverseRecOn with
  | nil => rfl
  | append_singleton l a ih =>
    rw [List.length_append, List.length_singleton, List.range_succ, List.filterMap_append]
    have : (List.range l.length).filterMap (fun i => (l ++ [a])[i]?) =
        (List.range l.length).filterMap (fun i => l[i]?) := by
      apply List.filterMap_congr
      intro i hi
      rw [List.mem_range] at hi
      rw [List.getElem?_append_left hi]
    rw [this, ih]
    simp

omit [Add F] [Sub F] [Mul F] [Div F] [LT F] [DecidableLT F] [OfScientific F] in
theorem zipWith_replicate {α β γ : Type} (f : α → β → γ) (b : β) : ∀ (l : List α),
    List.zipWith f l (List.replicate l.length b) = l.map (fun x => f x b) := by
  intro l
  induction l with
  | nil => rfl
  | cons a l ih => simp [List.replicate_succ, ih]

/-- **no truncation** (no event selection method: every source paired with every event): one block
per source, every block as long as the trial's background array -/
theorem evalPure_shape (W : World D S F) (parabola : Bool) (d : D) (s : S) (q : Query F)
    (hw : ∀ k g, (W.man d s k g).length = (W.bkg d s).length)
    (hsel : ∀ k, W.sel d s k = List.range (W.bkg d s).length) (hq : q.x.length = q.key.length) :
    (evalPure W parabola d s q).1.length = q.key.length ∧
    (evalPure W parabola d s q).2.length = q.key.length ∧
    (∀ b ∈ (evalPure W parabola d s q).1, b.length = (W.bkg d s).length) ∧
    (∀ b ∈ (evalPure W parabola d s q).2, b.length = (W.bkg d s).length) := by
  have hbk : bkgBlocks W d s q.key.length (W.bkg d s) = List.replicate q.key.length (W.bkg d s) := by
    simp only [bkgBlocks, hsel, pick_range]
    induction q.key.length with
    | zero => rfl
    | succ n ih => rw [List.range_succ, List.map_append, ih, List.replicate_succ']; rfl
  have key : ∃ sig : List (List F × List F), sig.length = q.key.length ∧
      BlocksLen (W.bkg d s).length sig ∧
      evalPure W parabola d s q =
        (sig.map (fun vg => ratioOf vg.1 (W.bkg d s)), sig.map (fun vg => gradOf vg.2 (W.bkg d s))) := by
    cases parabola with
    | false =>
      obtain ⟨c1, c2⟩ := linCoefs_shape W d s _ hw q.key 0
      obtain ⟨v1, v2⟩ := linVals_shape (W.bkg d s).length _ q.x (by rw [hq, c1]) c2
      refine ⟨_, by rw [v1, c1], v2, ?_⟩
      simp only [evalPure, finish, coefPure, hbk, Bool.false_eq_true, ↓reduceIte]
      rw [← c1, ← v1, zipWith_replicate, zipWith_replicate]
    | true =>
      obtain ⟨c1, c2⟩ := parCoefs_shape W d s _ hw q.key 0
      obtain ⟨v1, v2⟩ := parVals_shape (W.bkg d s).length _ q.x q.key (by rw [hq, c1]) (by rw [c1]) c2
      refine ⟨_, by rw [v1, c1], v2, ?_⟩
      simp only [evalPure, finish, coefPure, hbk, ↓reduceIte]
      rw [← c1, ← v1, zipWith_replicate, zipWith_replicate]
  obtain ⟨sig, h1, h2, h3⟩ := key
  rw [h3]
  refine ⟨by simp [h1], by simp [h1], ?_, ?_⟩
  · intro b hb
    simp only [List.mem_map] at hb
    obtain ⟨vg, hvg, rfl⟩ := hb
    simp [ratioOf, (h2 vg hvg).1]
  · intro b hb
    simp only [List.mem_map] at hb
    obtain ⟨vg, hvg, rfl⟩ := hb
    simp [gradOf, (h2 vg hvg).2]

end shapes

end C06

/-! ### cached PDF values are constants of a trial

A block of PDF values that sits in a pd cache under the current state id is never changed by a later
evaluation (it can only be joined by further blocks).  Implementation side: the byte snapshots of
`MultiDimGridPDF._cache_pd` around every evaluate (whoever is handed the cache array must not write
into it). -/

namespace C06
open Cache

variable {D S F : Type}

/-- the blocks valid under `sid` in `c` are still there in `c'` -/
def PdKeeps (sid : Int) (c c' : PdCache F) : Prop :=
  c.sid = some sid → c'.sid = some sid ∧ ∀ k v, c.blocks k = some v → c'.blocks k = some v

theorem pdKeeps_refl (sid : Int) (c : PdCache F) : PdKeeps sid c c := fun h => ⟨h, fun _ _ hv => hv⟩

theorem pdKeeps_trans {sid : Int} {a b c : PdCache F} (h1 : PdKeeps sid a b) (h2 : PdKeeps sid b c) :
    PdKeeps sid a c := fun h =>
  ⟨(h2 (h1 h).1).1, fun k v hv => (h2 (h1 h).1).2 k v ((h1 h).2 k v hv)⟩

theorem pdGet_keeps (cp : Bool) (sid : Int) (val : List F) (c : PdCache F) (k : Nat) :
    PdKeeps sid c (pdGet cp sid val c k).2.1 := by
  intro hs
  unfold pdGet
  by_cases hcp : (!cp) = true
  · simp only [hcp, ↓reduceIte]
    exact ⟨hs, fun _ _ hv => hv⟩
  · simp only [hcp, hs, ↓reduceIte]
    cases hb : c.blocks k with
    | some v0 => exact ⟨hs, fun _ _ hv => hv⟩
    | none =>
      refine ⟨rfl, fun j v hv => ?_⟩
      by_cases hj : j = k
      · subst hj; rw [hb] at hv; cases hv
      · simpa [hj] using hv

section
variable [DecidableEq F]

theorem evalPdfs_keeps (W : World D S F) (cp : Bool) (d : D) (s : S) (sid : Int) :
    ∀ (gs : List F) (pdc : F → PdCache F) (k : Nat) (g : F),
      PdKeeps sid (pdc g) ((evalPdfs W cp d s sid pdc k gs).2.1 g) := by
  intro gs
  induction gs with
  | nil => intro pdc k g; exact pdKeeps_refl _ _
  | cons g0 gs ih =>
    intro pdc k g
    simp only [evalPdfs]
    refine pdKeeps_trans ?_ (ih _ (k + 1) g)
    by_cases hg : g = g0
    · subst hg; simpa using pdGet_keeps cp sid _ (pdc g) k
    · simpa [hg] using pdKeeps_refl sid (pdc g)

variable [Add F] [Sub F] [Mul F] [Div F] [LT F] [DecidableLT F] [OfScientific F]

theorem interpMiss_keeps (W : World D S F) (cfg : Cfg) (st : St D S F) (q : Query F) (g : F) :
    PdKeeps st.sid (st.pdc g) ((interpMiss W cfg st q).2.2.1 g) := by
  unfold interpMiss
  split
  · exact pdKeeps_trans (pdKeeps_trans (evalPdfs_keeps W _ _ _ _ _ _ 0 g) (evalPdfs_keeps W _ _ _ _ _ _ 0 g))
      (evalPdfs_keeps W _ _ _ _ _ _ 0 g)
  · exact pdKeeps_trans (evalPdfs_keeps W _ _ _ _ _ _ 0 g) (evalPdfs_keeps W _ _ _ _ _ _ 0 g)

/-- **an evaluation never changes a PDF value that is validly cached** (signal grid PDFs and the
background PDF), whatever the state — no invariant needed -/
theorem evalC_keeps (W : World D S F) (hit : F → F → Bool) (cfg : Cfg) (st : St D S F) (q : Query F) :
    (∀ g, PdKeeps st.sid (st.pdc g) ((evalC W hit cfg st q).1.pdc g)) ∧
    PdKeeps st.sid st.bkgc (evalC W hit cfg st q).1.bkgc ∧ (evalC W hit cfg st q).1.sid = st.sid := by
  refine ⟨fun g => ?_, ?_, rfl⟩
  · simp only [evalC, interpCall]
    split
    · split
      · exact pdKeeps_refl _ _
      · exact interpMiss_keeps W cfg st q g
    · exact interpMiss_keeps W cfg st q g
  · simpa [evalC] using pdGet_keeps cfg.cacheBkg st.sid (W.bkg st.data st.src) st.bkgc 0

end

end C06
