/-
  Proofs/Store.lean — helper lemmas about Model/Store.lean used by Props/C16.lean and Props/C07.lean:
  the heap layer (`stepH`) simulates the plain-table layer (`stepT`) as long as no two slots share a
  location, and every operation keeps the tables well formed.
-/
import SkyllhModel.Model.Store
import Mathlib.Tactic
import Mathlib.Data.List.Forall2

open Store

namespace StoreP

/-! ### generic list lemmas -/

theorem mapE_ok_of_forall₂ {α β : Type} (f : α → Except Err β) :
    ∀ (as : List α) (bs : List β), List.Forall₂ (fun a b => f a = .ok b) as bs → mapE f as = .ok bs := by
  intro as bs h
  induction h with
  | nil => rfl
  | cons hab _ ih => simp [mapE, hab, ih]

theorem mapE_forall₂ {α β : Type} (f : α → Except Err β) :
    ∀ (as : List α) (bs : List β), mapE f as = .ok bs → List.Forall₂ (fun a b => f a = .ok b) as bs := by
  intro as
  induction as with
  | nil => intro bs h; simp [mapE] at h; subst h; exact .nil
  | cons a as ih =>
    intro bs h
    unfold mapE at h
    split at h
    · cases h
    · rename_i b hb
      split at h
      · cases h
      · rename_i bs' hbs
        cases h
        exact .cons hb (ih _ hbs)

theorem lookup_of_mem {β : Type} : ∀ (fs : List (Name × β)) (k : Name) (v : β),
    (fs.map (·.1)).Nodup → (k, v) ∈ fs → fs.lookup k = some v := by
  intro fs
  induction fs with
  | nil => intro k v _ h; cases h
  | cons p fs ih =>
    intro k v hn hm
    obtain ⟨k', v'⟩ := p
    simp only [List.map_cons, List.nodup_cons] at hn
    rcases List.mem_cons.mp hm with h | h
    · cases h; simp [List.lookup]
    · have hne : k ≠ k' := by
        rintro rfl
        exact hn.1 (List.mem_map.mpr ⟨(k, v), h, rfl⟩)
      simp only [List.lookup]
      have : (k == k') = false := by simpa using hne
      rw [this]
      exact ih k v hn.2 h

theorem mem_of_lookup {β : Type} : ∀ (fs : List (Name × β)) (k : Name) (v : β),
    fs.lookup k = some v → (k, v) ∈ fs := by
  intro fs
  induction fs with
  | nil => intro k v h; simp [List.lookup] at h
  | cons p fs ih =>
    intro k v h
    obtain ⟨k', v'⟩ := p
    simp only [List.lookup] at h
    split at h
    · rename_i heq
      have : k = k' := by simpa using heq
      cases h; subst this; simp
    · exact List.mem_cons_of_mem _ (ih k v h)

/-! ### well-formed tables, representation of a table by a container -/

def WF (t : Table) : Prop := t.keys.Nodup ∧ ∀ p ∈ t.cols, p.2.vals.length = t.len

/-- container `c` over heap `h` represents table `t`, and its caches are consistent -/
structure Rep (h : List Col) (c : Cont) (t : Table) : Prop where
  cols : c.fields.map (fun p => (p.1, h[p.2]?)) = t.cols.map (fun p => (p.1, some p.2))
  locs : (c.fields.map (·.2)).Nodup
  names : c.names = t.keys
  len : c.len = t.len
  idx : c.idx = none ∨ c.idx = some (List.range c.len)

theorem Rep.keys {h c t} (r : Rep h c t) : c.fields.map (·.1) = t.keys := by
  have := congrArg (List.map (·.1)) r.cols
  simpa [Table.keys, List.map_map, Function.comp_def] using this

theorem Rep.forall₂ {h c t} (r : Rep h c t) :
    List.Forall₂ (fun (a : Name × Loc) (b : Name × Col) => a.1 = b.1 ∧ h[a.2]? = some b.2) c.fields t.cols := by
  have h1 : List.Forall₂ (· = ·) (c.fields.map (fun p => (p.1, h[p.2]?))) (t.cols.map (fun p => (p.1, some p.2))) := by
    rw [List.forall₂_eq_eq_eq]; exact r.cols
  rw [List.forall₂_map_left_iff, List.forall₂_map_right_iff] at h1
  exact h1.imp (fun a b hab => by simpa [Prod.ext_iff] using hab)

theorem Rep.col_of_field {h c t} (r : Rep h c t) {o : Name} {l : Loc} (hm : (o, l) ∈ c.fields) :
    ∃ col, h[l]? = some col ∧ (o, col) ∈ t.cols := by
  have : (o, h[l]?) ∈ c.fields.map (fun p => (p.1, h[p.2]?)) := List.mem_map.mpr ⟨(o, l), hm, rfl⟩
  rw [r.cols] at this
  obtain ⟨p, hp, he⟩ := List.mem_map.mp this
  simp only [Prod.mk.injEq] at he
  exact ⟨p.2, he.2.symm, by rw [← he.1]; exact hp⟩

theorem Rep.field_of_col {h c t} (r : Rep h c t) {o : Name} {col : Col} (hm : (o, col) ∈ t.cols) :
    ∃ l, (o, l) ∈ c.fields ∧ h[l]? = some col := by
  have : (o, some col) ∈ t.cols.map (fun p => (p.1, some p.2)) := List.mem_map.mpr ⟨(o, col), hm, rfl⟩
  rw [← r.cols] at this
  obtain ⟨p, hp, he⟩ := List.mem_map.mp this
  simp only [Prod.mk.injEq] at he
  exact ⟨p.2, by rw [← he.1]; exact hp, he.2⟩

/-- reading a consistent container through its caches yields exactly the table it represents -/
theorem view_of_rep {h c t} (r : Rep h c t) (wf : WF t) : viewCont h c = .ok t := by
  have hk : (c.fields.map (·.1)).Nodup := by rw [r.keys]; exact wf.1
  have hz := List.forall₂_iff_zip.mp r.forall₂
  have h2 : List.Forall₂ (fun (n : Name) (b : Name × Col) => readField h c.fields n = Except.ok b) c.names t.cols := by
    rw [r.names, ← r.keys, List.forall₂_map_left_iff]
    refine List.forall₂_iff_zip.mpr ⟨hz.1, ?_⟩
    intro a b hab
    obtain ⟨h1, h2⟩ := hz.2 hab
    have ha : a ∈ c.fields := (List.of_mem_zip hab).1
    have hl : c.fields.lookup a.1 = some a.2 := lookup_of_mem _ _ _ hk ha
    simp only [readField, hl, h2]
    rw [h1]
  unfold viewCont
  rw [mapE_ok_of_forall₂ _ _ _ h2]
  simp only [r.len]

/-! ### binding result columns on the heap -/

def refOf : Prov → Option Name
  | .fresh => none
  | .kept o => some o
  | .written o => some o

def wrefOf : Prov → Option Name
  | .written o => some o
  | _ => none

def refs (pc : PCols) : List Name := pc.filterMap (fun e => refOf e.2.1)
def wrefs (pc : PCols) : List Name := pc.filterMap (fun e => wrefOf e.2.1)

theorem wrefs_sub_refs (pc : PCols) : ∀ o ∈ wrefs pc, o ∈ refs pc := by
  intro o ho
  simp only [wrefs, refs, List.mem_filterMap] at ho ⊢
  obtain ⟨e, he, h⟩ := ho
  refine ⟨e, he, ?_⟩
  cases hp : e.2.1 <;> simp_all [wrefOf, refOf]

theorem mem_refs_tail {e : Name × Prov × Col} {r : PCols} {o : Name} (h : o ∈ refs r) : o ∈ refs (e :: r) := by
  simp only [refs, List.mem_filterMap] at h ⊢
  obtain ⟨e', he', h'⟩ := h
  exact ⟨e', List.mem_cons_of_mem _ he', h'⟩

theorem mem_refs_head {e : Name × Prov × Col} {r : PCols} {o : Name} (h : refOf e.2.1 = some o) : o ∈ refs (e :: r) := by
  simp only [refs, List.mem_filterMap]
  exact ⟨e, List.mem_cons_self, h⟩

/-- what `place` needs to know about one result column -/
def EntryOK (old : List (Name × Loc)) (h : List Col) (e : Name × Prov × Col) : Prop :=
  match e.2.1 with
  | .fresh => True
  | .kept o => ∃ l, (o, l) ∈ old ∧ h[l]? = some e.2.2
  | .written o => ∃ l, (o, l) ∈ old

theorem inj_of_nodup_snd {old : List (Name × Loc)} (hl : (old.map (·.2)).Nodup) {a b : Name} {l : Loc}
    (ha : (a, l) ∈ old) (hb : (b, l) ∈ old) : a = b := by
  have := List.inj_on_of_nodup_map hl ha hb rfl
  exact (Prod.mk.injEq _ _ _ _ ▸ this).1

theorem place_spec (old : List (Name × Loc)) (hk : (old.map (·.1)).Nodup) (hl : (old.map (·.2)).Nodup) :
    ∀ (pc : PCols) (h : List Col),
      (∀ p ∈ old, p.2 < h.length) → (refs pc).Nodup → (∀ e ∈ pc, EntryOK old h e) →
      ∃ h' fs, place old h pc = .ok (h', fs) ∧ h.length ≤ h'.length ∧
        (∀ l, l < h.length → (∀ o ∈ wrefs pc, (o, l) ∉ old) → h'[l]? = h[l]?) ∧
        fs.map (fun p => (p.1, h'[p.2]?)) = pc.map (fun e => (e.1, some e.2.2)) ∧
        (∀ p ∈ fs, (h.length ≤ p.2 ∧ p.2 < h'.length) ∨ (∃ o ∈ refs pc, (o, p.2) ∈ old)) ∧
        (fs.map (·.2)).Nodup := by
  intro pc
  induction pc with
  | nil =>
    intro h _ _ _
    exact ⟨h, [], rfl, le_refl _, fun _ _ _ => rfl, rfl, by simp, by simp⟩
  | cons e r ih =>
    intro h hv hr he
    obtain ⟨n, prov, col⟩ := e
    have her : ∀ e' ∈ r, EntryOK old h e' := fun e' h' => he e' (List.mem_cons_of_mem _ h')
    cases prov with
    | fresh =>
      have hr' : (refs r).Nodup := by simpa [refs, refOf] using hr
      have hv1 : ∀ p ∈ old, p.2 < (h ++ [col]).length := fun p hp => by
        have := hv p hp; simp; omega
      have he1 : ∀ e' ∈ r, EntryOK old (h ++ [col]) e' := by
        intro e' h'
        have h0 := her e' h'
        unfold EntryOK at h0 ⊢
        split
        · trivial
        · rename_i o' hpe
          rw [hpe] at h0
          obtain ⟨l', hl1, hl2⟩ := h0
          refine ⟨l', hl1, ?_⟩
          have hlt : l' < h.length := hv _ hl1
          rw [List.getElem?_append_left hlt]; exact hl2
        · rename_i o' hpe
          rw [hpe] at h0
          exact h0
      obtain ⟨h', fs, hp, hlen, hfr, habs, hloc, hnd⟩ := ih (h ++ [col]) hv1 hr' he1
      have hlen1 : (h ++ [col]).length = h.length + 1 := by simp
      refine ⟨h', (n, h.length) :: fs, by simp [place, hp], by omega, ?_, ?_, ?_, ?_⟩
      · intro l hlt hw
        have hw' : ∀ o ∈ wrefs r, (o, l) ∉ old := by simpa [wrefs, wrefOf] using hw
        rw [hfr l (by omega) hw', List.getElem?_append_left hlt]
      · have hnew : h'[h.length]? = some col := by
          rw [hfr h.length (by omega) (fun o _ hm => by have := hv _ hm; simp at this)]
          simp
        simp [habs, hnew]
      · intro p hp'
        rcases List.mem_cons.mp hp' with rfl | hp'
        · left; simp; omega
        · rcases hloc p hp' with h1 | ⟨o, ho, hm⟩
          · left; omega
          · right; exact ⟨o, mem_refs_tail ho, hm⟩
      · simp only [List.map_cons, List.nodup_cons]
        refine ⟨?_, hnd⟩
        intro hmem
        obtain ⟨p, hp', hpe⟩ := List.mem_map.mp hmem
        rcases hloc p hp' with h1 | ⟨o, _, hm⟩
        · have hpe' : p.2 = h.length := hpe
          omega
        · have := hv _ hm
          have hpe' : p.2 = h.length := hpe
          simp only at this; omega
    | kept o =>
      have hr0 : o ∉ refs r ∧ (refs r).Nodup := by simpa [refs, refOf] using hr
      obtain ⟨l, hol, hcol⟩ : ∃ l, (o, l) ∈ old ∧ h[l]? = some col := by
        have := he (n, .kept o, col) (List.mem_cons_self); simpa [EntryOK] using this
      have hlk : old.lookup o = some l := lookup_of_mem _ _ _ hk hol
      have hlt : l < h.length := hv _ hol
      obtain ⟨h', fs, hp, hlen, hfr, habs, hloc, hnd⟩ := ih h hv hr0.2 her
      have hnotw : ∀ o' ∈ wrefs r, (o', l) ∉ old := by
        intro o' ho' hm
        have : o' = o := inj_of_nodup_snd hl hm hol
        exact hr0.1 (this ▸ wrefs_sub_refs r o' ho')
      refine ⟨h', (n, l) :: fs, by simp [place, hlk, hp], hlen, ?_, ?_, ?_, ?_⟩
      · intro l' hlt' hw
        exact hfr l' hlt' (by simpa [wrefs, wrefOf] using hw)
      · have : h'[l]? = some col := by rw [hfr l hlt hnotw]; exact hcol
        simp [habs, this]
      · intro p hp'
        rcases List.mem_cons.mp hp' with rfl | hp'
        · right; exact ⟨o, mem_refs_head rfl, hol⟩
        · rcases hloc p hp' with h1 | ⟨o', ho', hm⟩
          · left; exact h1
          · right; exact ⟨o', mem_refs_tail ho', hm⟩
      · simp only [List.map_cons, List.nodup_cons]
        refine ⟨?_, hnd⟩
        intro hmem
        obtain ⟨p, hp', hpe⟩ := List.mem_map.mp hmem
        have hpe' : p.2 = l := hpe
        rcases hloc p hp' with h1 | ⟨o', ho', hm⟩
        · omega
        · rw [hpe'] at hm
          have : o' = o := inj_of_nodup_snd hl hm hol
          exact hr0.1 (this ▸ ho')
    | written o =>
      have hr0 : o ∉ refs r ∧ (refs r).Nodup := by simpa [refs, refOf] using hr
      obtain ⟨l, hol⟩ : ∃ l, (o, l) ∈ old := by
        have := he (n, .written o, col) (List.mem_cons_self); simpa [EntryOK] using this
      have hlk : old.lookup o = some l := lookup_of_mem _ _ _ hk hol
      have hlt : l < h.length := hv _ hol
      have hv1 : ∀ p ∈ old, p.2 < (h.set l col).length := fun p hp => by simpa using hv p hp
      have he1 : ∀ e' ∈ r, EntryOK old (h.set l col) e' := by
        intro e' h'
        have h0 := her e' h'
        have hmemr : ∀ o', refOf e'.2.1 = some o' → o' ∈ refs r := fun o' ho' =>
          List.mem_filterMap.mpr ⟨e', h', ho'⟩
        unfold EntryOK at h0 ⊢
        split
        · trivial
        · rename_i o' hpe
          rw [hpe] at h0
          obtain ⟨l', hl1, hl2⟩ := h0
          refine ⟨l', hl1, ?_⟩
          have hne : l ≠ l' := by
            rintro rfl
            have : o' = o := inj_of_nodup_snd hl hl1 hol
            exact hr0.1 (this ▸ hmemr o' (by simp [hpe, refOf]))
          rw [List.getElem?_set_ne hne]; exact hl2
        · rename_i o' hpe
          rw [hpe] at h0
          exact h0
      obtain ⟨h', fs, hp, hlen, hfr, habs, hloc, hnd⟩ := ih (h.set l col) hv1 hr0.2 he1
      have hnotw : ∀ o' ∈ wrefs r, (o', l) ∉ old := by
        intro o' ho' hm
        have : o' = o := inj_of_nodup_snd hl hm hol
        exact hr0.1 (this ▸ wrefs_sub_refs r o' ho')
      have hlen1 : (h.set l col).length = h.length := by simp
      refine ⟨h', (n, l) :: fs, by simp [place, hlk, hlt, hp], by omega, ?_, ?_, ?_, ?_⟩
      · intro l' hlt' hw
        have hw0 : (o, l') ∉ old ∧ ∀ o' ∈ wrefs r, (o', l') ∉ old := by
          simpa [wrefs, wrefOf] using hw
        have hne : l ≠ l' := by rintro rfl; exact hw0.1 hol
        rw [hfr l' (by omega) hw0.2, List.getElem?_set_ne hne]
      · have : h'[l]? = some col := by
          rw [hfr l (by omega) hnotw]; simp [hlt]
        simp [habs, this]
      · intro p hp'
        rcases List.mem_cons.mp hp' with rfl | hp'
        · right; exact ⟨o, mem_refs_head rfl, hol⟩
        · rcases hloc p hp' with h1 | ⟨o', ho', hm⟩
          · left; omega
          · right; exact ⟨o', mem_refs_tail ho', hm⟩
      · simp only [List.map_cons, List.nodup_cons]
        refine ⟨?_, hnd⟩
        intro hmem
        obtain ⟨p, hp', hpe⟩ := List.mem_map.mp hmem
        have hpe' : p.2 = l := hpe
        rcases hloc p hp' with h1 | ⟨o', ho', hm⟩
        · omega
        · rw [hpe'] at hm
          have : o' = o := inj_of_nodup_snd hl hm hol
          exact hr0.1 (this ▸ ho')

/-! ### what every operation guarantees at the table level -/

def ProvOK (t : Table) (pc : PCols) : Prop :=
  (refs pc).Nodup ∧ ∀ e ∈ pc, match e.2.1 with
    | .fresh => True
    | .kept o => (o, e.2.2) ∈ t.cols
    | .written o => o ∈ t.keys

/-- a result column either is new, or is the old column of the same name (written in place or untouched) -/
def ColRel (p : Name × Col) (e : Name × Prov × Col) : Prop :=
  e.1 = p.1 ∧ (e.2.1 = .fresh ∨ e.2.1 = .written p.1 ∨ e.2 = (.kept p.1, p.2))

theorem refs_sublist {cols : List (Name × Col)} {pc : PCols} (h : List.Forall₂ ColRel cols pc) :
    (refs pc).Sublist (cols.map (·.1)) := by
  induction h with
  | nil => exact List.Sublist.slnil
  | @cons p e cols pc hpe _ ih =>
    obtain ⟨_, h1 | h1 | h1⟩ := hpe
    · have : refs (e :: pc) = refs pc := by simp [refs, refOf, h1]
      rw [this]; exact List.Sublist.cons _ ih
    · have : refs (e :: pc) = p.1 :: refs pc := by simp [refs, refOf, h1]
      rw [this]; exact List.Sublist.cons₂ _ ih
    · have : refs (e :: pc) = p.1 :: refs pc := by simp [refs, refOf, h1]
      rw [this]; exact List.Sublist.cons₂ _ ih

theorem provOK_of_forall₂ (t : Table) (hk : t.keys.Nodup) {cols : List (Name × Col)} {pc : PCols}
    (hsub : cols.Sublist t.cols) (h : List.Forall₂ ColRel cols pc) :
    ProvOK t pc ∧ pc.map (·.1) = cols.map (·.1) := by
  refine ⟨⟨?_, ?_⟩, ?_⟩
  · exact ((hk.sublist (hsub.map _)).sublist (refs_sublist h))
  · intro e he
    obtain ⟨p, hp, hpe⟩ : ∃ p ∈ cols, ColRel p e := by
      have := List.forall₂_iff_zip.mp h
      obtain ⟨i, hi, rfl⟩ := List.getElem_of_mem he
      have hi' : i < cols.length := by omega
      exact ⟨cols[i], List.getElem_mem hi', this.2 (by
        rw [List.mem_iff_getElem]; exact ⟨i, by simp; omega, by simp⟩)⟩
    obtain ⟨_, h1 | h1 | h1⟩ := hpe
    · rw [h1]; trivial
    · rw [h1]; exact List.mem_map.mpr ⟨p, hsub.subset hp, rfl⟩
    · rw [h1]; exact hsub.subset hp
  · have h2 : List.Forall₂ (fun (p : Name × Col) (e : Name × Prov × Col) => e.1 = p.1) cols pc := h.imp (fun _ _ hh => hh.1)
    clear h hsub
    induction h2 with
    | nil => rfl
    | cons hab _ ih => simp [hab, ih]

theorem forall₂_mem_right {α β : Type} {R : α → β → Prop} {as : List α} {bs : List β}
    (h : List.Forall₂ R as bs) {b : β} (hb : b ∈ bs) : ∃ a ∈ as, R a b := by
  induction h with
  | nil => cases hb
  | cons hab _ ih =>
    rcases List.mem_cons.mp hb with rfl | hb
    · exact ⟨_, List.mem_cons_self, hab⟩
    · obtain ⟨a, ha, hr⟩ := ih hb
      exact ⟨a, List.mem_cons_of_mem _ ha, hr⟩

theorem forall₂_map_self {α β : Type} (R : α → β → Prop) (f : α → β) (l : List α) (h : ∀ a ∈ l, R a (f a)) :
    List.Forall₂ R l (l.map f) := by
  induction l with
  | nil => exact .nil
  | cons a l ih => exact .cons (h a List.mem_cons_self) (ih fun b hb => h b (List.mem_cons_of_mem _ hb))

theorem keepAll_rel (cols : List (Name × Col)) : List.Forall₂ ColRel cols (keepAll cols) :=
  forall₂_map_self _ _ _ (fun _ _ => ⟨rfl, Or.inr (Or.inr rfl)⟩)

theorem keepAll_table (cols : List (Name × Col)) : (keepAll cols).map (fun e => (e.1, e.2.2)) = cols := by
  simp [keepAll, List.map_map, Function.comp_def]

theorem freshAll_table (cols : List (Name × Col)) : (freshAll cols).map (fun e => (e.1, e.2.2)) = cols := by
  simp [freshAll, List.map_map, Function.comp_def]

theorem freshAll_refs (cols : List (Name × Col)) : refs (freshAll cols) = [] := by
  simp [refs, freshAll, List.filterMap_map, Function.comp_def, refOf]

theorem refs_append (a b : PCols) : refs (a ++ b) = refs a ++ refs b := by simp [refs]

theorem bind_ok {α β : Type} {x : Except Err α} {f : α → Except Err β} {b : β} :
    (x >>= f) = .ok b ↔ ∃ a, x = .ok a ∧ f a = .ok b := by
  cases x <;> simp [bind, Except.bind]

theorem getT_ok {ts : List Table} {i : Nat} {t : Table} (h : getT ts i = .ok t) : ts[i]? = some t := by
  unfold getT at h; split at h <;> simp_all

theorem mapE_length {α β : Type} {f : α → Except Err β} {as : List α} {bs : List β} (h : mapE f as = .ok bs) :
    bs.length = as.length := (mapE_forall₂ f as bs h).length_eq.symm

theorem scatter_length : ∀ (ps : List (Nat × Int)) (vs : List Int), (scatter vs ps).length = vs.length := by
  intro ps
  induction ps with
  | nil => intro vs; rfl
  | cons p ps ih => intro vs; obtain ⟨k, v⟩ := p; simp [scatter, ih]

theorem selCol_length {c c2 : Col} {sel : Sel} (h : selCol c sel = .ok c2) :
    ∃ ks, selPositions c.vals.length sel = .ok ks ∧ c2.vals.length = ks.length := by
  unfold selCol at h
  split at h
  · cases h
  · rename_i ks hks
    split at h
    · cases h
    · rename_i vs hvs
      cases h
      exact ⟨ks, hks, mapE_length hvs⟩

theorem putSel_length {d s c2 : Col} {sel : Sel} (h : putSel d sel s = .ok c2) : c2.vals.length = d.vals.length := by
  unfold putSel at h
  split at h
  · cases h
  · simp only at h
    split at h
    · cases h; simp [scatter_length]
    · split at h
      · cases h; simp [scatter_length]
      · cases h

theorem npAppend_length (a b : Col) : (npAppend a b).vals.length = a.vals.length + b.vals.length := by
  simp [npAppend]

theorem castCol_length (d : DType) (c : Col) : (castCol d c).vals.length = c.vals.length := by simp [castCol]

def NotAppend : Op → Prop
  | .append _ _ => False
  | _ => True

def OpOK (ts : List Table) (op : Op) (tgt : Target) (u : Upd) : Prop :=
  WF u.table ∧ match tgt with
    | .inplace c => ∃ t, ts[c]? = some t ∧ ProvOK t u.cols ∧
        (∀ fs : List (Name × Loc), fs.map (·.1) = u.cols.map (·.1) → namesUpd t.keys fs op = u.cols.map (·.1)) ∧
        (NotAppend op → u.len = t.len)
    | .new => refs u.cols = []

theorem dhas_iff {β : Type} (d : List (Name × β)) (n : Name) : dhas d n = true ↔ n ∈ d.map (·.1) := by
  unfold dhas
  rw [List.any_eq_true]
  exact ⟨fun ⟨p, hp, h⟩ => List.mem_map.mpr ⟨p, hp, by simpa using h⟩,
    fun h => by obtain ⟨p, hp, rfl⟩ := List.mem_map.mp h; exact ⟨p, hp, by simp⟩⟩

/-- generic in-place case: the result columns are related column by column to a sublist of the old ones -/
theorem opOK_inplace (ts : List Table) (op : Op) (c : Nat) (t : Table) (ht : ts[c]? = some t) (wt : WF t)
    (cols' : List (Name × Col)) (hsub : cols'.Sublist t.cols)
    (len : Nat) (cols : PCols) (hrel : List.Forall₂ ColRel cols' cols)
    (hlen : ∀ e ∈ cols, e.2.2.vals.length = len)
    (hnames : ∀ fs : List (Name × Loc), namesUpd t.keys fs op = cols'.map (·.1))
    (hna : NotAppend op → len = t.len) : OpOK ts op (.inplace c) ⟨len, cols⟩ := by
  obtain ⟨hp, hkeys⟩ := provOK_of_forall₂ t wt.1 hsub hrel
  refine ⟨⟨?_, ?_⟩, t, ht, hp, ?_, hna⟩
  · simp only [Upd.table, Table.keys, List.map_map, Function.comp_def]
    rw [show (List.map (fun x => x.1) cols) = cols'.map (·.1) from hkeys]
    exact wt.1.sublist (hsub.map _)
  · intro q hq
    simp only [Upd.table, List.mem_map] at hq
    obtain ⟨e, he, rfl⟩ := hq
    exact hlen e he
  · intro fs _; rw [hnames fs]; exact hkeys.symm

/-- a field is added at the end, all others are untouched -/
theorem opOK_addField (ts : List Table) (op : Op) (c : Nat) (t : Table) (ht : ts[c]? = some t) (wt : WF t)
    (n : Name) (col : Col) (hn : ¬ dhas t.cols n = true) (hl : col.vals.length = t.len)
    (hnames : ∀ fs : List (Name × Loc), namesUpd t.keys fs op = t.keys ++ [n]) (hna : NotAppend op) :
    OpOK ts op (.inplace c) ⟨t.len, keepAll t.cols ++ [(n, .fresh, col)]⟩ := by
  rw [dhas_iff] at hn
  obtain ⟨hp, hkeys⟩ := provOK_of_forall₂ t wt.1 (List.Sublist.refl _) (keepAll_rel t.cols)
  have hk2 : List.map (fun x => x.1) (keepAll t.cols ++ [(n, Prov.fresh, col)]) = t.keys ++ [n] := by
    simp only [List.map_append, List.map_cons, List.map_nil]; rw [hkeys]; rfl
  refine ⟨⟨?_, ?_⟩, t, ht, ⟨?_, ?_⟩, ?_, fun _ => rfl⟩
  · simp only [Upd.table, Table.keys, List.map_map, Function.comp_def]
    rw [hk2]
    exact List.Nodup.append wt.1 (by simp) (by intro a ha hb; simp at hb; subst hb; exact hn ha)
  · intro q hq
    simp only [Upd.table, List.map_append, List.mem_append, keepAll_table] at hq
    rcases hq with hq | hq
    · exact wt.2 q hq
    · simp at hq; subst hq; exact hl
  · rw [refs_append]; simp [refs, refOf]; exact hp.1
  · intro e he
    rcases List.mem_append.mp he with he | he
    · exact hp.2 e he
    · simp at he; subst he; trivial
  · intro fs _; rw [hnames fs, hk2]

theorem throw_eq {α : Type} (e : Err) : (throw e : Except Err α) = .error e := rfl
theorem pure_eq {α : Type} (a : α) : (pure a : Except Err α) = .ok a := rfl

theorem ok_appendField (ts : List Table) (hwf : ∀ t ∈ ts, WF t) (c n : Nat) (col : Col) (tgt u out)
    (h : tableOp (getT ts) ts.length (.appendField c n col) = .ok (tgt, u, out)) : OpOK ts (.appendField c n col) tgt u := by
  simp only [tableOp, bind_ok] at h
  obtain ⟨t, ht, h⟩ := h
  have ht' := getT_ok ht
  have wt := hwf t (List.mem_of_getElem? ht')
  split_ifs at h with h1 h2
  · simp only [pure_eq, Except.ok.injEq, Prod.mk.injEq] at h
    obtain ⟨rfl, rfl, rfl⟩ := h
    exact opOK_addField ts _ c t ht' wt n col h1 (by simpa using h2) (fun _ => rfl) trivial

theorem ok_setItem (ts : List Table) (hwf : ∀ t ∈ ts, WF t) (c n : Nat) (col : Col) (tgt u out)
    (h : tableOp (getT ts) ts.length (.setItem c n col) = .ok (tgt, u, out)) : OpOK ts (.setItem c n col) tgt u := by
  simp only [tableOp, bind_ok] at h
  obtain ⟨t, ht, h⟩ := h
  have ht' := getT_ok ht
  have wt := hwf t (List.mem_of_getElem? ht')
  split_ifs at h with h1 h2 h3
  · simp only [pure_eq, Except.ok.injEq, Prod.mk.injEq] at h
    obtain ⟨rfl, rfl, rfl⟩ := h
    have h2' : col.vals.length = t.len := by simpa using h2
    refine opOK_inplace ts _ c t ht' wt t.cols (List.Sublist.refl _) _ _ (forall₂_map_self _ _ _ fun p _ => ?_) ?_ ?_ (fun _ => rfl)
    · unfold setItemCol; split
      · exact ⟨rfl, Or.inl rfl⟩
      · exact ⟨rfl, Or.inr (Or.inr rfl)⟩
    · intro e he
      obtain ⟨p, hp, rfl⟩ := List.mem_map.mp he
      unfold setItemCol; split
      · exact h2'
      · exact wt.2 p hp
    · intro fs
      have hmem : n ∈ t.keys := (dhas_iff _ _).mp h1
      simp [namesUpd, hmem]; rfl
  · simp only [pure_eq, Except.ok.injEq, Prod.mk.injEq] at h
    obtain ⟨rfl, rfl, rfl⟩ := h
    refine opOK_addField ts _ c t ht' wt n col h1 (by simpa using h3) (fun fs => ?_) trivial
    have hmem : n ∉ t.keys := fun h => h1 ((dhas_iff _ _).mpr h)
    simp [namesUpd, hmem]

theorem ok_append (ts : List Table) (hwf : ∀ t ∈ ts, WF t) (c d : Nat) (tgt u out)
    (h : tableOp (getT ts) ts.length (.append c d) = .ok (tgt, u, out)) : OpOK ts (.append c d) tgt u := by
  simp only [tableOp, bind_ok] at h
  obtain ⟨t, ht, s, hs, cols, hcols, h⟩ := h
  simp only [pure, Except.pure, Except.ok.injEq, Prod.mk.injEq] at h
  obtain ⟨rfl, rfl, rfl⟩ := h
  have ht' := getT_ok ht
  have hs' := getT_ok hs
  have wt := hwf t (List.mem_of_getElem? ht')
  have ws := hwf s (List.mem_of_getElem? hs')
  have hf := mapE_forall₂ _ _ _ hcols
  refine opOK_inplace ts _ c t ht' wt t.cols (List.Sublist.refl _) _ cols (hf.imp fun p e hpe => ?_) ?_ (fun _ => rfl) (fun h => h.elim)
  · unfold appendCol at hpe
    split at hpe
    · cases hpe; exact ⟨rfl, Or.inl rfl⟩
    · cases hpe
  · intro e he
    obtain ⟨p, hp, hpe⟩ := forall₂_mem_right hf he
    unfold appendCol at hpe
    split at hpe
    · rename_i c2 hl
      cases hpe
      have := ws.2 _ (mem_of_lookup _ _ _ hl)
      simp [npAppend_length, wt.2 _ hp, this]
    · cases hpe

theorem ok_removeField (ts : List Table) (hwf : ∀ t ∈ ts, WF t) (c n : Nat) (tgt u out)
    (h : tableOp (getT ts) ts.length (.removeField c n) = .ok (tgt, u, out)) : OpOK ts (.removeField c n) tgt u := by
  simp only [tableOp, bind_ok] at h
  obtain ⟨t, ht, h⟩ := h
  have ht' := getT_ok ht
  have wt := hwf t (List.mem_of_getElem? ht')
  split_ifs at h with h1
  simp only [pure_eq, Except.ok.injEq, Prod.mk.injEq] at h
  obtain ⟨rfl, rfl, rfl⟩ := h
  refine opOK_inplace ts _ c t ht' wt (dpop t.cols n) List.filter_sublist _ _ (keepAll_rel _) ?_ ?_ (fun _ => rfl)
  · intro e he
    obtain ⟨p, hp, rfl⟩ := List.mem_map.mp he
    exact wt.2 p (List.mem_of_mem_filter hp)
  · intro fs
    simp only [namesUpd, dpop, Table.keys]
    have hk : (List.map (fun x : Name × Col => x.1) t.cols).Nodup := wt.1
    rw [List.Nodup.erase_eq_filter hk, List.filter_map]
    congr 1

theorem ok_tidyUp (ts : List Table) (hwf : ∀ t ∈ ts, WF t) (c : Nat) (keep : List Nat) (tgt u out)
    (h : tableOp (getT ts) ts.length (.tidyUp c keep) = .ok (tgt, u, out)) : OpOK ts (.tidyUp c keep) tgt u := by
  simp only [tableOp, bind_ok] at h
  obtain ⟨t, ht, h⟩ := h
  have ht' := getT_ok ht
  have wt := hwf t (List.mem_of_getElem? ht')
  simp only [pure_eq, Except.ok.injEq, Prod.mk.injEq] at h
  obtain ⟨rfl, rfl, rfl⟩ := h
  refine opOK_inplace ts _ c t ht' wt _ List.filter_sublist _ _ (keepAll_rel _) ?_ ?_ (fun _ => rfl)
  · intro e he
    obtain ⟨p, hp, rfl⟩ := List.mem_map.mp he
    exact wt.2 p (List.mem_of_mem_filter hp)
  · intro fs
    simp only [namesUpd, Table.keys]
    rw [List.filter_map]
    rfl

theorem ok_maplike (ts : List Table) (op : Op) (c : Nat) (t : Table) (ht : ts[c]? = some t) (wt : WF t)
    (f : Name × Col → Name × Prov × Col) (hf : ∀ p, ColRel p (f p) ∧ (f p).2.2.vals.length = p.2.vals.length)
    (hnames : ∀ fs : List (Name × Loc), namesUpd t.keys fs op = t.keys) :
    OpOK ts op (.inplace c) ⟨t.len, t.cols.map f⟩ := by
  refine opOK_inplace ts _ c t ht wt t.cols (List.Sublist.refl _) _ _ (forall₂_map_self _ _ _ fun p _ => (hf p).1) ?_ hnames (fun _ => rfl)
  intro e he
  obtain ⟨p, hp, rfl⟩ := List.mem_map.mp he
  rw [(hf p).2]; exact wt.2 p hp

theorem ok_setDtype (ts : List Table) (hwf : ∀ t ∈ ts, WF t) (c n : Nat) (dt : DType) (tgt u out)
    (h : tableOp (getT ts) ts.length (.setDtype c n dt) = .ok (tgt, u, out)) : OpOK ts (.setDtype c n dt) tgt u := by
  simp only [tableOp, bind_ok] at h
  obtain ⟨t, ht, h⟩ := h
  have ht' := getT_ok ht
  have wt := hwf t (List.mem_of_getElem? ht')
  split_ifs at h with h1
  simp only [pure_eq, Except.ok.injEq, Prod.mk.injEq] at h
  obtain ⟨rfl, rfl, rfl⟩ := h
  refine ok_maplike ts _ c t ht' wt _ (fun p => ?_) (fun _ => rfl)
  unfold setDtypeCol
  split
  · split
    · exact ⟨⟨rfl, Or.inr (Or.inr rfl)⟩, rfl⟩
    · exact ⟨⟨rfl, Or.inl rfl⟩, castCol_length _ _⟩
  · exact ⟨⟨rfl, Or.inr (Or.inr rfl)⟩, rfl⟩

theorem ok_convert (ts : List Table) (hwf : ∀ t ∈ ts, WF t) (c : Nat) (convs : List (DType × DType)) (exc : List Nat) (tgt u out)
    (h : tableOp (getT ts) ts.length (.convert c convs exc) = .ok (tgt, u, out)) : OpOK ts (.convert c convs exc) tgt u := by
  simp only [tableOp, bind_ok] at h
  obtain ⟨t, ht, h⟩ := h
  have ht' := getT_ok ht
  have wt := hwf t (List.mem_of_getElem? ht')
  simp only [pure_eq, Except.ok.injEq, Prod.mk.injEq] at h
  obtain ⟨rfl, rfl, rfl⟩ := h
  refine ok_maplike ts _ c t ht' wt _ (fun p => ?_) (fun _ => rfl)
  unfold convertCol
  split
  · exact ⟨⟨rfl, Or.inr (Or.inr rfl)⟩, rfl⟩
  · split
    · exact ⟨⟨rfl, Or.inl rfl⟩, castCol_length _ _⟩
    · exact ⟨⟨rfl, Or.inr (Or.inr rfl)⟩, rfl⟩

theorem ok_indices (ts : List Table) (hwf : ∀ t ∈ ts, WF t) (c : Nat) (tgt u out)
    (h : tableOp (getT ts) ts.length (.indices c) = .ok (tgt, u, out)) : OpOK ts (.indices c) tgt u := by
  simp only [tableOp, bind_ok] at h
  obtain ⟨t, ht, h⟩ := h
  have ht' := getT_ok ht
  have wt := hwf t (List.mem_of_getElem? ht')
  simp only [pure_eq, Except.ok.injEq, Prod.mk.injEq] at h
  obtain ⟨rfl, rfl, rfl⟩ := h
  exact ok_maplike ts _ c t ht' wt _ (fun p => ⟨⟨rfl, Or.inr (Or.inr rfl)⟩, rfl⟩) (fun _ => rfl)

theorem forall₂_comp {α β γ : Type} {R : α → β → Prop} {S : β → γ → Prop} {as : List α} {bs : List β} :
    List.Forall₂ R as bs → ∀ {cs : List γ}, List.Forall₂ S bs cs → List.Forall₂ (fun a c => ∃ b, R a b ∧ S b c) as cs := by
  intro h
  induction h with
  | nil => intro cs h2; cases h2; exact .nil
  | cons hab _ ih => intro cs h2; cases h2 with | cons hbc h2 => exact .cons ⟨_, hab, hbc⟩ (ih h2)

theorem ok_setSel (ts : List Table) (hwf : ∀ t ∈ ts, WF t) (c d : Nat) (sel : Sel) (tgt u out)
    (h : tableOp (getT ts) ts.length (.setSel c sel d) = .ok (tgt, u, out)) : OpOK ts (.setSel c sel d) tgt u := by
  simp only [tableOp, bind_ok] at h
  obtain ⟨t, ht, s, hs, srcs, hsrcs, cols, hcols, h⟩ := h
  simp only [pure_eq, Except.ok.injEq, Prod.mk.injEq] at h
  obtain ⟨rfl, rfl, rfl⟩ := h
  have ht' := getT_ok ht
  have wt := hwf t (List.mem_of_getElem? ht')
  have hf := forall₂_comp (mapE_forall₂ _ _ _ hsrcs) (mapE_forall₂ _ _ _ hcols)
  have key : ∀ p e, (∃ q, srcCol s p = .ok q ∧ putCol sel q = .ok e) → ColRel p e ∧ e.2.2.vals.length = p.2.vals.length := by
    rintro p e ⟨q, h1, h2⟩
    unfold srcCol at h1
    split at h1
    · cases h1
      unfold putCol at h2
      split at h2
      · rename_i c2 hput
        cases h2
        exact ⟨⟨rfl, Or.inr (Or.inl rfl)⟩, putSel_length hput⟩
      · cases h2
    · cases h1
  refine opOK_inplace ts _ c t ht' wt t.cols (List.Sublist.refl _) _ cols (hf.imp fun p e hpe => (key p e hpe).1) ?_ (fun _ => rfl) (fun _ => rfl)
  intro e he
  obtain ⟨p, hp, hpe⟩ := forall₂_mem_right hf he
  rw [(key p e hpe).2]; exact wt.2 p hp

theorem isPerm_length {perm : List Nat} {n : Nat} (h : isPerm perm n = true) : perm.length = n := by
  simp [isPerm] at h; exact h.1

theorem ok_sortBy (ts : List Table) (hwf : ∀ t ∈ ts, WF t) (c n : Nat) (perm : List Nat) (tgt u out)
    (h : tableOp (getT ts) ts.length (.sortBy c n perm) = .ok (tgt, u, out)) : OpOK ts (.sortBy c n perm) tgt u := by
  simp only [tableOp, bind_ok] at h
  obtain ⟨t, ht, h⟩ := h
  have ht' := getT_ok ht
  have wt := hwf t (List.mem_of_getElem? ht')
  split at h
  · cases h
  · rename_i key hkey
    split_ifs at h with h1 h2
    simp only [bind_ok] at h
    obtain ⟨ks, hks, h⟩ := h
    split_ifs at h with h2
    simp only [bind_ok] at h
    obtain ⟨cols, hcols, h⟩ := h
    simp only [pure_eq, Except.ok.injEq, Prod.mk.injEq] at h
    obtain ⟨rfl, rfl, rfl⟩ := h
    have hpl : perm.length = t.len := by
      have := isPerm_length (by simpa using h1 : isPerm perm key.vals.length = true)
      rw [this]; exact wt.2 _ (mem_of_lookup _ _ _ hkey)
    have hf := mapE_forall₂ _ _ _ hcols
    have key2 : ∀ p e, sortCol perm p = .ok e → ColRel p e ∧ e.2.2.vals.length = perm.length := by
      intro p e hpe
      unfold sortCol at hpe
      split at hpe
      · rename_i vs hvs
        cases hpe
        exact ⟨⟨rfl, Or.inl rfl⟩, mapE_length hvs⟩
      · cases hpe
    refine opOK_inplace ts _ c t ht' wt t.cols (List.Sublist.refl _) _ cols (hf.imp fun p e hpe => (key2 p e hpe).1) ?_ (fun _ => rfl) (fun _ => rfl)
    intro e he
    obtain ⟨p, hp, hpe⟩ := forall₂_mem_right hf he
    rw [(key2 p e hpe).2]; exact hpl

theorem map_fst_of_forall₂ {β γ : Type} {as : List (Name × β)} {bs : List (Name × γ)}
    (h : List.Forall₂ (fun p e => e.1 = p.1) as bs) : bs.map (·.1) = as.map (·.1) := by
  induction h with
  | nil => rfl
  | cons hab _ ih => simp [hab, ih]

/-- generic new-container case -/
theorem opOK_new (ts : List Table) (op : Op) (len : Nat) (cols : List (Name × Col))
    (hk : (cols.map (·.1)).Nodup) (hlen : ∀ p ∈ cols, p.2.vals.length = len) :
    OpOK ts op .new ⟨len, freshAll cols⟩ := by
  refine ⟨⟨?_, ?_⟩, freshAll_refs cols⟩
  · simp only [Upd.table, Table.keys, freshAll_table]; exact hk
  · simp only [Upd.table, freshAll_table]; exact hlen

theorem ok_getSel (ts : List Table) (hwf : ∀ t ∈ ts, WF t) (c : Nat) (sel : Sel) (tgt u out)
    (h : tableOp (getT ts) ts.length (.getSel c sel) = .ok (tgt, u, out)) : OpOK ts (.getSel c sel) tgt u := by
  simp only [tableOp, bind_ok] at h
  obtain ⟨t, ht, cols, hcols, h⟩ := h
  simp only [pure_eq, Except.ok.injEq, Prod.mk.injEq] at h
  obtain ⟨rfl, rfl, rfl⟩ := h
  have ht' := getT_ok ht
  have wt := hwf t (List.mem_of_getElem? ht')
  have hf := mapE_forall₂ _ _ _ hcols
  have key : ∀ p e, p ∈ t.cols → selColE sel p = .ok e → e.1 = p.1 ∧
      ∃ ks, selPositions t.len sel = .ok ks ∧ e.2.vals.length = ks.length := by
    intro p e hp hpe
    unfold selColE at hpe
    split at hpe
    · rename_i c2 hc2
      cases hpe
      obtain ⟨ks, h1, h2⟩ := selCol_length hc2
      rw [wt.2 p hp] at h1
      exact ⟨rfl, ks, h1, h2⟩
    · cases hpe
  have hkeys : cols.map (·.1) = t.cols.map (·.1) := by
    refine map_fst_of_forall₂ (List.forall₂_iff_zip.mpr ⟨hf.length_eq, fun {a b} hab => ?_⟩)
    exact (key a b (List.of_mem_zip hab).1 ((List.forall₂_iff_zip.mp hf).2 hab)).1
  refine opOK_new ts _ _ cols (by rw [hkeys]; exact wt.1) ?_
  intro e he
  obtain ⟨p, hp, hpe⟩ := forall₂_mem_right hf he
  obtain ⟨_, ks, hks, hl⟩ := key p e hp hpe
  cases hc : cols with
  | nil => rw [hc] at he; cases he
  | cons e0 rest =>
    have he0 : e0 ∈ cols := by rw [hc]; exact List.mem_cons_self
    obtain ⟨p0, hp0, hpe0⟩ := forall₂_mem_right hf he0
    obtain ⟨_, ks0, hks0, hl0⟩ := key p0 e0 hp0 hpe0
    rw [hks] at hks0
    cases hks0
    simp [firstLen, hl, hl0]

theorem ok_copy (ts : List Table) (hwf : ∀ t ∈ ts, WF t) (c : Nat) (keep : Option (List Nat)) (tgt u out)
    (h : tableOp (getT ts) ts.length (.copy c keep) = .ok (tgt, u, out)) : OpOK ts (.copy c keep) tgt u := by
  simp only [tableOp, bind_ok] at h
  obtain ⟨t, ht, h⟩ := h
  simp only [pure_eq, Except.ok.injEq, Prod.mk.injEq] at h
  obtain ⟨rfl, rfl, rfl⟩ := h
  have ht' := getT_ok ht
  have wt := hwf t (List.mem_of_getElem? ht')
  have hsub : (copyCols keep t.cols).Sublist t.cols := by
    unfold copyCols
    cases keep with
    | none => exact List.Sublist.refl _
    | some ks => exact List.filter_sublist
  refine opOK_new ts _ _ _ (wt.1.sublist (hsub.map _)) ?_
  intro p hp
  have hne : (copyCols keep t.cols).isEmpty = false := by
    cases hh : copyCols keep t.cols with
    | nil => rw [hh] at hp; cases hp
    | cons _ _ => rfl
  simp only [hne]
  exact wt.2 p (hsub.subset hp)

theorem ok_new (ts : List Table) (cols : List (Name × Col)) (tgt u out)
    (h : tableOp (getT ts) ts.length (.new cols) = .ok (tgt, u, out)) : OpOK ts (.new cols) tgt u := by
  simp only [tableOp] at h
  split_ifs at h with h1 h2
  simp only [pure_eq, Except.ok.injEq, Prod.mk.injEq] at h
  obtain ⟨rfl, rfl, rfl⟩ := h
  refine opOK_new ts _ _ cols h2 ?_
  intro p hp
  rw [List.all_eq_true] at h1
  simpa using h1 p hp

section Rename
variable {β γ : Type} (g : β → γ)

theorem dpop_sublist (d : List (Name × β)) (o : Name) : (dpop d o).Sublist d := List.filter_sublist

theorem dpop_tags : ∀ (d : List (Name × β)) (o : Name) (v : β),
    (d.map (·.1)).Nodup → (d.map (fun p => g p.2)).Nodup → d.lookup o = some v →
    g v ∉ (dpop d o).map (fun p => g p.2) ∧ o ∉ (dpop d o).map (·.1) := by
  intro d
  induction d with
  | nil => intro o v _ _ h; simp [List.lookup] at h
  | cons p d ih =>
    intro o v hk ht hl
    obtain ⟨k, x⟩ := p
    simp only [List.map_cons, List.nodup_cons] at hk ht
    simp only [List.lookup] at hl
    split at hl
    · rename_i heq
      have hok : o = k := by simpa using heq
      subst hok
      cases hl
      have hd : dpop ((o, v) :: d) o = d := by
        simp only [dpop, List.filter_cons, beq_self_eq_true, Bool.not_true, Bool.false_eq_true, if_false]
        apply List.filter_eq_self.mpr
        intro q hq
        have : q.1 ≠ o := fun h => hk.1 (List.mem_map.mpr ⟨q, hq, h⟩)
        simpa using this
      rw [hd]
      exact ⟨ht.1, hk.1⟩
    · rename_i hne
      have hne' : ¬ o = k := by simpa using hne
      have hd : dpop ((k, x) :: d) o = (k, x) :: dpop d o := by
        have : (k == o) = false := by rw [beq_eq_false_iff_ne]; exact fun h => hne' h.symm
        simp [dpop, this]
      rw [hd]
      obtain ⟨h1, h2⟩ := ih o v hk.2 ht.2 hl
      have hv : g v ∈ d.map (fun p => g p.2) := List.mem_map.mpr ⟨(o, v), mem_of_lookup _ _ _ hl, rfl⟩
      refine ⟨?_, ?_⟩
      · simp only [List.map_cons, List.mem_cons, not_or]
        exact ⟨fun h => ht.1 (h ▸ hv), h1⟩
      · simp only [List.map_cons, List.mem_cons, not_or]
        exact ⟨hne', h2⟩

theorem dset_spec (d : List (Name × β)) (n : Name) (v : β)
    (hk : (d.map (·.1)).Nodup) (ht : (d.map (fun p => g p.2)).Nodup) (hv : g v ∉ d.map (fun p => g p.2)) :
    ((dset d n v).map (·.1)).Nodup ∧ ((dset d n v).map (fun p => g p.2)).Nodup ∧
      ∀ e ∈ dset d n v, e ∈ d ∨ e = (n, v) := by
  unfold dset
  split
  · -- existing key: replaced in place
    refine ⟨?_, ?_, ?_⟩
    · have : (d.map (fun p => if p.1 == n then (n, v) else p)).map (·.1) = d.map (·.1) := by
        rw [List.map_map]
        apply List.map_congr_left
        intro p _
        simp only [Function.comp]
        split
        · rename_i h; simpa using (by simpa using h : p.1 = n).symm
        · rfl
      rw [this]; exact hk
    · clear * - hk ht hv
      induction d with
      | nil => simp
      | cons p d ih =>
        simp only [List.map_cons, List.nodup_cons] at hk ht ⊢
        simp only [List.map_cons, List.mem_cons, not_or] at hv
        by_cases hp : (p.1 == n) = true
        · have hpn : p.1 = n := by simpa using hp
          have hid : d.map (fun p => if p.1 == n then (n, v) else p) = d := by
            conv_rhs => rw [← List.map_id d]
            apply List.map_congr_left
            intro q hq
            have : q.1 ≠ n := fun h => hk.1 (List.mem_map.mpr ⟨q, hq, by rw [h, hpn]⟩)
            simp [this]
          rw [hid]
          simp only [hp, if_true]
          exact ⟨hv.2, ht.2⟩
        · have hp' : (if (p.1 == n) = true then (n, v) else p) = p := by simp [hp]
          rw [hp']
          refine ⟨?_, ih hk.2 ht.2 hv.2⟩
          intro hmem
          rw [List.map_map] at hmem
          obtain ⟨q0, hq0, hqe⟩ := List.mem_map.mp hmem
          simp only [Function.comp] at hqe
          by_cases hq0n : (q0.1 == n) = true
          · simp only [hq0n, if_true] at hqe
            exact hv.1 hqe
          · simp only [hq0n] at hqe
            exact ht.1 (List.mem_map.mpr ⟨q0, hq0, hqe⟩)
    · intro e he
      obtain ⟨p, hp, rfl⟩ := List.mem_map.mp he
      split
      · right; rfl
      · left; exact hp
  · rename_i hno
    have hn : n ∉ d.map (·.1) := fun h => hno ((dhas_iff d n).mpr h)
    refine ⟨?_, ?_, ?_⟩
    · rw [List.map_append]
      exact List.Nodup.append hk (by simp) (by intro a ha hb; simp at hb; subst hb; exact hn ha)
    · rw [List.map_append]
      exact List.Nodup.append ht (by simp) (by intro a ha hb; simp at hb; subst hb; exact hv ha)
    · intro e he
      rcases List.mem_append.mp he with h | h
      · left; exact h
      · right; simpa using h

end Rename

/-- invariant of the loop of `rename_fields`: distinct names, every column is an untouched old column, no old
column is used twice -/
def RInv (t : Table) (d : PCols) : Prop :=
  (d.map (·.1)).Nodup ∧ (d.map (fun e => e.2.1)).Nodup ∧ ∀ e ∈ d, ∃ o, e.2.1 = .kept o ∧ (o, e.2.2) ∈ t.cols

theorem renameLoop_inv (t : Table) (names : List Name) (must : Bool) :
    ∀ (convs : List (Name × Name)) (d d' : PCols), RInv t d → renameLoop names must convs d = .ok d' → RInv t d' := by
  intro convs
  induction convs with
  | nil => intro d d' hi h; simp [renameLoop] at h; subst h; exact hi
  | cons cv convs ih =>
    intro d d' hi h
    obtain ⟨o, n⟩ := cv
    unfold renameLoop at h
    by_cases h1 : names.contains o = true
    · rw [if_pos h1] at h
      split at h
      · rename_i v hv
        split at h
        · cases h
        · refine ih _ _ ?_ h
          obtain ⟨hk, ht, hm⟩ := hi
          have hs := dpop_sublist d o
          obtain ⟨a1, _⟩ := dpop_tags (fun pv : Prov × Col => pv.1) d o v hk ht hv
          obtain ⟨b1, b2, b3⟩ := dset_spec (fun pv : Prov × Col => pv.1) (dpop d o) n v (hk.sublist (hs.map _)) (ht.sublist (hs.map _)) a1
          refine ⟨b1, b2, ?_⟩
          intro e he
          rcases b3 e he with h' | rfl
          · exact hm e (hs.subset h')
          · exact hm (o, v) (mem_of_lookup _ _ _ hv)
      · cases h
    · rw [if_neg h1] at h
      split at h
      · cases h
      · exact ih _ _ hi h

theorem refs_nodup_of_kept : ∀ (d : PCols), (∀ e ∈ d, ∃ o, e.2.1 = .kept o) → (d.map (fun e => e.2.1)).Nodup → (refs d).Nodup := by
  intro d
  induction d with
  | nil => intro _ _; simp [refs]
  | cons e d ih =>
    intro hm hn
    simp only [List.map_cons, List.nodup_cons] at hn
    obtain ⟨o, ho⟩ := hm e List.mem_cons_self
    have : refs (e :: d) = o :: refs d := by simp [refs, refOf, ho]
    rw [this, List.nodup_cons]
    refine ⟨?_, ih (fun e' he' => hm e' (List.mem_cons_of_mem _ he')) hn.2⟩
    intro hmem
    simp only [refs, List.mem_filterMap] at hmem
    obtain ⟨e', he', hr⟩ := hmem
    obtain ⟨o', ho'⟩ := hm e' (List.mem_cons_of_mem _ he')
    rw [ho'] at hr
    simp [refOf] at hr
    subst hr
    exact hn.1 (List.mem_map.mpr ⟨e', he', by rw [ho', ho]⟩)

theorem ok_rename (ts : List Table) (hwf : ∀ t ∈ ts, WF t) (c : Nat) (convs : List (Nat × Nat)) (must : Bool) (tgt u out)
    (h : tableOp (getT ts) ts.length (.rename c convs must) = .ok (tgt, u, out)) : OpOK ts (.rename c convs must) tgt u := by
  simp only [tableOp, bind_ok] at h
  obtain ⟨t, ht, cols, hcols, h⟩ := h
  simp only [pure_eq, Except.ok.injEq, Prod.mk.injEq] at h
  obtain ⟨rfl, rfl, rfl⟩ := h
  have ht' := getT_ok ht
  have wt := hwf t (List.mem_of_getElem? ht')
  have hi0 : RInv t (keepAll t.cols) := by
    refine ⟨?_, ?_, ?_⟩
    · have : (keepAll t.cols).map (·.1) = t.keys := by simp [keepAll, Table.keys, List.map_map, Function.comp_def]
      rw [this]; exact wt.1
    · have : (keepAll t.cols).map (fun e => e.2.1) = t.keys.map Prov.kept := by
        simp [keepAll, Table.keys, List.map_map, Function.comp_def]
      rw [this]
      exact wt.1.map (fun a b h => by cases h; rfl)
    · intro e he
      obtain ⟨p, hp, rfl⟩ := List.mem_map.mp he
      exact ⟨p.1, rfl, hp⟩
  obtain ⟨hk, hn, hm⟩ := renameLoop_inv t _ _ _ _ _ hi0 hcols
  refine ⟨⟨?_, ?_⟩, t, ht', ⟨refs_nodup_of_kept _ (fun e he => (hm e he).imp fun _ h => h.1) hn, ?_⟩, ?_, fun _ => rfl⟩
  · simp only [Upd.table, Table.keys, List.map_map, Function.comp_def]; exact hk
  · intro q hq
    simp only [Upd.table, List.mem_map] at hq
    obtain ⟨e, he, rfl⟩ := hq
    obtain ⟨o, _, hmem⟩ := hm e he
    exact wt.2 (o, e.2.2) hmem
  · intro e he
    obtain ⟨o, ho, hmem⟩ := hm e he
    rw [ho]; exact hmem
  · intro fs hfs; simp only [namesUpd]; exact hfs

/-- every successful operation yields a well-formed table whose columns are accounted for -/
theorem tableOp_ok (ts : List Table) (hwf : ∀ t ∈ ts, WF t) (op : Op) (tgt : Target) (u : Upd) (out : Out)
    (h : tableOp (getT ts) ts.length op = .ok (tgt, u, out)) : OpOK ts op tgt u := by
  cases op with
  | append c d => exact ok_append ts hwf c d tgt u out h
  | appendField c n col => exact ok_appendField ts hwf c n col tgt u out h
  | setItem c n col => exact ok_setItem ts hwf c n col tgt u out h
  | removeField c n => exact ok_removeField ts hwf c n tgt u out h
  | rename c convs m => exact ok_rename ts hwf c convs m tgt u out h
  | tidyUp c keep => exact ok_tidyUp ts hwf c keep tgt u out h
  | getSel c sel => exact ok_getSel ts hwf c sel tgt u out h
  | setSel c sel d => exact ok_setSel ts hwf c d sel tgt u out h
  | sortBy c n perm => exact ok_sortBy ts hwf c n perm tgt u out h
  | copy c keep => exact ok_copy ts hwf c keep tgt u out h
  | setDtype c n dt => exact ok_setDtype ts hwf c n dt tgt u out h
  | convert c convs exc => exact ok_convert ts hwf c convs exc tgt u out h
  | indices c => exact ok_indices ts hwf c tgt u out h
  | new cols => exact ok_new ts cols tgt u out h

/-! ### the simulation -/

/-- the simulation relation between the heap layer and the plain tables -/
structure Good (s : St) (ts : List Table) : Prop where
  len : s.conts.length = ts.length
  rep : ∀ (i : Nat) (c : Cont) (t : Table), s.conts[i]? = some c → ts[i]? = some t → Rep s.heap c t
  wf : ∀ t ∈ ts, WF t
  noalias : ∀ (i j : Nat) (c d : Cont) (n m l : Nat), s.conts[i]? = some c → s.conts[j]? = some d →
    (n, l) ∈ c.fields → (m, l) ∈ d.fields → i = j

theorem view_eq {s : St} {ts : List Table} (g : Good s ts) : viewAt s = getT ts := by
  funext i
  unfold viewAt getT
  cases hc : s.conts[i]? with
  | none =>
    have : ts[i]? = none := by
      rw [List.getElem?_eq_none_iff] at hc ⊢; rw [← g.len]; exact hc
    simp [this]
  | some c =>
    have hi : i < ts.length := by
      rw [← g.len]; exact (List.getElem?_eq_some_iff.mp hc).1
    have ht : ts[i]? = some ts[i] := List.getElem?_eq_getElem hi
    simp only [ht]
    exact view_of_rep (g.rep i c _ hc ht) (g.wf _ (List.getElem_mem hi))

theorem rep_frame {h h' : List Col} {c : Cont} {t : Table} (r : Rep h c t)
    (hfr : ∀ n l, (n, l) ∈ c.fields → h'[l]? = h[l]?) : Rep h' c t := by
  refine ⟨?_, r.locs, r.names, r.len, r.idx⟩
  rw [← r.cols]
  apply List.map_congr_left
  intro p hp
  rw [hfr p.1 p.2 hp]

theorem valid_of_rep {h : List Col} {c : Cont} {t : Table} (r : Rep h c t) {n l} (hm : (n, l) ∈ c.fields) :
    l < h.length := by
  obtain ⟨col, hcol, _⟩ := r.col_of_field hm
  exact (List.getElem?_eq_some_iff.mp hcol).1

theorem idxUpd_ok (idx : Option (List Nat)) (len len' : Nat) (op : Op)
    (h : idx = none ∨ idx = some (List.range len)) (hl : NotAppend op → len' = len) :
    idxUpd idx len' op = none ∨ idxUpd idx len' op = some (List.range len') := by
  cases op
  case append => left; rfl
  case indices =>
    have := hl trivial; subst this
    rcases h with h | h <;> subst h <;> simp [idxUpd]
  all_goals (have := hl trivial; subst this; simpa [idxUpd] using h)

theorem step_refines {s : St} {ts : List Table} (g : Good s ts) (op : Op) :
    Good (stepH s op).1 (stepT ts op).1 ∧ (stepH s op).2 = (stepT ts op).2 := by
  unfold stepH stepT
  rw [view_eq g, g.len]
  cases hr : tableOp (getT ts) ts.length op with
  | error e => exact ⟨g, rfl⟩
  | ok r =>
    obtain ⟨tgt, u, out⟩ := r
    have ok := tableOp_ok ts g.wf op tgt u out hr
    cases tgt with
    | inplace c =>
      obtain ⟨wfu, t, htc, hprov, hnames, hlen⟩ := ok
      have hc : c < s.conts.length := by rw [g.len]; exact (List.getElem?_eq_some_iff.mp htc).1
      have hcc : s.conts[c]? = some s.conts[c] := List.getElem?_eq_getElem hc
      generalize s.conts[c] = cont at hcc
      have r := g.rep c cont t hcc htc
      have hk : (cont.fields.map (·.1)).Nodup := by rw [r.keys]; exact (g.wf t (List.mem_of_getElem? htc)).1
      obtain ⟨h', fs, hp, hlen', hfr, habs, hloc, hnd⟩ := place_spec cont.fields hk r.locs u.cols s.heap
        (fun p hp => valid_of_rep r (n := p.1) hp) hprov.1 (by
          intro e he
          have := hprov.2 e he
          unfold EntryOK
          split
          · trivial
          · rename_i o hpe
            rw [hpe] at this
            obtain ⟨l, hl1, hl2⟩ := r.field_of_col this
            exact ⟨l, hl1, hl2⟩
          · rename_i o hpe
            rw [hpe] at this
            have : o ∈ cont.fields.map (·.1) := by rw [r.keys]; exact this
            obtain ⟨p, hp, rfl⟩ := List.mem_map.mp this
            exact ⟨p.2, hp⟩)
      simp only [hcc, hp]
      have hfskeys : fs.map (·.1) = u.cols.map (·.1) := by
        have := congrArg (List.map (·.1)) habs
        simpa [List.map_map, Function.comp_def] using this
      -- locations of the other containers are not written
      have hother : ∀ (i : Nat) (ci : Cont), i ≠ c → s.conts[i]? = some ci → ∀ n l, (n, l) ∈ ci.fields → h'[l]? = s.heap[l]? := by
        intro i ci hic hci n l hm
        have ti : i < ts.length := by rw [← g.len]; exact (List.getElem?_eq_some_iff.mp hci).1
        have ri := g.rep i ci ts[i] hci (List.getElem?_eq_getElem ti)
        refine hfr l (valid_of_rep ri hm) ?_
        intro o _ hmo
        exact hic (g.noalias i c ci cont n o l hci hcc hm hmo)
      refine ⟨⟨by simp [g.len], ?_, ?_, ?_⟩, ?_⟩
      · intro i ci ti hci hti
        by_cases hic : i = c
        · subst hic
          simp only [List.getElem?_set_self hc, Option.some.injEq] at hci
          have hc' : i < ts.length := by rw [← g.len]; exact hc
          simp only [List.getElem?_set_self hc', Option.some.injEq] at hti
          subst hci hti
          refine ⟨?_, hnd, ?_, rfl, ?_⟩
          · simp only [Upd.table, List.map_map, Function.comp_def]; exact habs
          · simp only [Upd.table, Table.keys, List.map_map, Function.comp_def]
            rw [r.names]; exact hnames fs hfskeys
          · exact idxUpd_ok cont.idx cont.len u.len op r.idx (fun h => by rw [hlen h, ← r.len])
        · rw [List.getElem?_set_ne (Ne.symm hic)] at hci hti
          exact rep_frame (g.rep i ci ti hci hti) (hother i ci hic hci)
      · intro t' ht'
        rcases List.mem_or_eq_of_mem_set ht' with h1 | h1
        · exact g.wf t' h1
        · rw [h1]; exact wfu
      · intro i j ci cj n m l hci hcj hn hm
        by_contra hij
        -- a location of the new fields of `c` is fresh or one of its own old locations
        have newloc : ∀ (k : Nat) (ck : Cont) (n' m' : Nat), k ≠ c → s.conts[k]? = some ck → (n', l) ∈ fs → (m', l) ∈ ck.fields → False := by
          intro k ck n' m' hkc hck hfs hck'
          have tk : k < ts.length := by rw [← g.len]; exact (List.getElem?_eq_some_iff.mp hck).1
          have rk := g.rep k ck ts[k] hck (List.getElem?_eq_getElem tk)
          rcases hloc (n', l) hfs with h1 | ⟨o, _, ho⟩
          · have := valid_of_rep rk hck'; simp only at h1; omega
          · exact hkc (g.noalias k c ck cont m' o l hck hcc hck' ho)
        by_cases hic : i = c
        · subst hic
          simp only [List.getElem?_set_self hc, Option.some.injEq] at hci
          rw [List.getElem?_set_ne (fun h => hij h)] at hcj
          subst hci
          exact newloc j cj n m (fun h => hij h.symm) hcj hn hm
        · rw [List.getElem?_set_ne (Ne.symm hic)] at hci
          by_cases hjc : j = c
          · subst hjc
            simp only [List.getElem?_set_self hc, Option.some.injEq] at hcj
            subst hcj
            exact newloc i ci m n hic hci hm hn
          · rw [List.getElem?_set_ne (Ne.symm hjc)] at hcj
            exact hij (g.noalias i j ci cj n m l hci hcj hn hm)
      · -- the returned value
        cases op <;> try rfl
        rename_i c'
        simp only [tableOp, bind_ok] at hr
        obtain ⟨t', ht', hr⟩ := hr
        simp only [pure_eq, Except.ok.injEq, Prod.mk.injEq, Target.inplace.injEq] at hr
        obtain ⟨rfl, rfl, rfl⟩ := hr
        have : t' = t := by
          have := getT_ok ht'; rw [htc] at this; exact (Option.some.inj this).symm
        subst this
        rcases r.idx with h0 | h0 <;> simp only [h0]
        rw [r.len]
    | new =>
      obtain ⟨wfu, hrefs⟩ := ok
      obtain ⟨h', fs, hp, hlen', hfr, habs, hloc, hnd⟩ := place_spec [] (by simp) (by simp) u.cols s.heap
        (by simp) (by rw [hrefs]; simp) (by
          intro e he
          unfold EntryOK
          have : refOf e.2.1 = none := by
            by_contra hne
            obtain ⟨o, ho⟩ := Option.ne_none_iff_exists'.mp hne
            have : o ∈ refs u.cols := List.mem_filterMap.mpr ⟨e, he, ho⟩
            rw [hrefs] at this; cases this
          split
          · trivial
          · rename_i o hpe; rw [hpe] at this; simp [refOf] at this
          · rename_i o hpe; rw [hpe] at this; simp [refOf] at this)
      simp only [hp]
      have hfskeys : fs.map (·.1) = u.cols.map (·.1) := by
        have := congrArg (List.map (·.1)) habs
        simpa [List.map_map, Function.comp_def] using this
      have hw : ∀ o ∈ wrefs u.cols, ∀ l, (o, l) ∉ ([] : List (Name × Loc)) := by intro _ _ _ h; cases h
      have hold : ∀ (i : Nat) (ci : Cont), s.conts[i]? = some ci → ∀ n l, (n, l) ∈ ci.fields → h'[l]? = s.heap[l]? ∧ l < s.heap.length := by
        intro i ci hci n l hm
        have ti : i < ts.length := by rw [← g.len]; exact (List.getElem?_eq_some_iff.mp hci).1
        have ri := g.rep i ci ts[i] hci (List.getElem?_eq_getElem ti)
        exact ⟨hfr l (valid_of_rep ri hm) (fun o ho => hw o ho l), valid_of_rep ri hm⟩
      have hnewloc : ∀ n l, (n, l) ∈ fs → s.heap.length ≤ l := by
        intro n l hm
        rcases hloc (n, l) hm with h1 | ⟨o, _, ho⟩
        · exact h1.1
        · cases ho
      refine ⟨⟨by simp [g.len], ?_, ?_, ?_⟩, trivial⟩
      · intro i ci ti hci hti
        by_cases hi : i < s.conts.length
        · rw [List.getElem?_append_left hi] at hci
          rw [List.getElem?_append_left (by rw [← g.len]; exact hi)] at hti
          exact rep_frame (g.rep i ci ti hci hti) (fun n l hm => (hold i ci hci n l hm).1)
        · have hi' : i = s.conts.length := by
            have := (List.getElem?_eq_some_iff.mp hci).1
            simp at this; omega
          subst hi'
          simp only [List.getElem?_concat_length, Option.some.injEq] at hci
          rw [g.len, List.getElem?_concat_length, Option.some.injEq] at hti
          subst hci hti
          refine ⟨?_, hnd, ?_, rfl, Or.inl rfl⟩
          · simp only [Upd.table, List.map_map, Function.comp_def]; exact habs
          · simp only [Upd.table, Table.keys, List.map_map, Function.comp_def]; exact hfskeys
      · intro t' ht'
        rcases List.mem_append.mp ht' with h1 | h1
        · exact g.wf t' h1
        · simp at h1; rw [h1]; exact wfu
      · intro i j ci cj n m l hci hcj hn hm
        have key : ∀ (k : Nat) (ck : Cont), (s.conts ++ [⟨fs, fs.map (·.1), u.len, none⟩])[k]? = some ck →
            (k < s.conts.length ∧ s.conts[k]? = some ck) ∨ (k = s.conts.length ∧ ck.fields = fs) := by
          intro k ck hck
          by_cases hk : k < s.conts.length
          · left; rw [List.getElem?_append_left hk] at hck; exact ⟨hk, hck⟩
          · right
            have hk' : k = s.conts.length := by
              have := (List.getElem?_eq_some_iff.mp hck).1
              simp at this; omega
            subst hk'
            simp only [List.getElem?_concat_length, Option.some.injEq] at hck
            exact ⟨rfl, by rw [← hck]⟩
        rcases key i ci hci with ⟨_, hi⟩ | ⟨hi, hfi⟩ <;> rcases key j cj hcj with ⟨_, hj⟩ | ⟨hj, hfj⟩
        · exact g.noalias i j ci cj n m l hi hj hn hm
        · rw [hfj] at hm
          have := (hold i ci hi n l hn).2
          have := hnewloc m l hm
          omega
        · rw [hfi] at hn
          have := (hold j cj hj m l hm).2
          have := hnewloc n l hn
          omega
        · omega

/-! ### which operations write through, which rebind (valid in any state, shared locations included) -/


/-- `place` changes an existing heap cell only if it is the location of a column written in place -/
theorem place_frame (old : List (Name × Loc)) : ∀ (pc : PCols) (h h' : List Col) (fs : List (Name × Loc)),
    place old h pc = .ok (h', fs) → ∀ l, l < h.length → (∀ o ∈ wrefs pc, (o, l) ∉ old) → h'[l]? = h[l]? := by
  intro pc
  induction pc with
  | nil => intro h h' fs hp l _ _; simp [place] at hp; rw [hp.1]
  | cons e r ih =>
    intro h h' fs hp l hl hw
    obtain ⟨n, prov, col⟩ := e
    cases prov with
    | fresh =>
      simp only [place] at hp
      split at hp
      · cases hp
      · rename_i h1 fs1 hp1
        cases hp
        rw [ih _ _ _ hp1 l (by simp; omega) (by simpa [wrefs, wrefOf] using hw), List.getElem?_append_left hl]
    | kept o =>
      simp only [place] at hp
      split at hp
      · cases hp
      · split at hp
        · cases hp
        · rename_i h1 fs1 hp1
          cases hp
          exact ih _ _ _ hp1 l hl (by simpa [wrefs, wrefOf] using hw)
    | written o =>
      simp only [place] at hp
      split at hp
      · cases hp
      · rename_i l0 hl0
        split at hp
        · split at hp
          · cases hp
          · rename_i h1 fs1 hp1
            cases hp
            have hw0 : (o, l) ∉ old ∧ ∀ o' ∈ wrefs r, (o', l) ∉ old := by simpa [wrefs, wrefOf] using hw
            have hne : l0 ≠ l := by
              rintro rfl
              exact hw0.1 (mem_of_lookup _ _ _ hl0)
            rw [ih _ _ _ hp1 l (by simpa using hl) hw0.2, List.getElem?_set_ne hne]
        · cases hp

theorem wrefs_nil_of {pc : PCols} (h : ∀ e ∈ pc, wrefOf e.2.1 = none) : wrefs pc = [] := by
  unfold wrefs
  rw [List.filterMap_eq_nil_iff]
  exact h

theorem wrefs_keepAll (cols : List (Name × Col)) : wrefs (keepAll cols) = [] :=
  wrefs_nil_of (by intro e he; obtain ⟨p, _, rfl⟩ := List.mem_map.mp he; rfl)

theorem wrefs_freshAll (cols : List (Name × Col)) : wrefs (freshAll cols) = [] :=
  wrefs_nil_of (by intro e he; obtain ⟨p, _, rfl⟩ := List.mem_map.mp he; rfl)

theorem wrefs_append (a b : PCols) : wrefs (a ++ b) = wrefs a ++ wrefs b := by simp [wrefs]

theorem wrefs_mapE {f : Name × Col → Except Err (Name × Prov × Col)} {cols : List (Name × Col)} {pc : PCols}
    (h : mapE f cols = .ok pc) (hf : ∀ p e, f p = .ok e → wrefOf e.2.1 = none) : wrefs pc = [] := by
  refine wrefs_nil_of ?_
  intro e he
  obtain ⟨p, _, hpe⟩ := forall₂_mem_right (mapE_forall₂ _ _ _ h) he
  exact hf p e hpe

def IsSetSel : Op → Prop
  | .setSel _ _ _ => True
  | _ => False

/-- **which operations write through**: only `set_selection` produces a column written in place; every other
operation binds its result columns to kept or newly allocated arrays -/
theorem tableOp_wrefs (get : Nat → Except Err Table) (k : Nat) (op : Op) (tgt : Target) (u : Upd) (out : Out)
    (h : tableOp get k op = .ok (tgt, u, out)) (hop : ¬ IsSetSel op) : wrefs u.cols = [] := by
  cases op <;> simp only [tableOp, bind_ok] at h
  case append a b =>
    obtain ⟨t, _, s, _, cols, hc, h⟩ := h
    simp only [pure_eq, Except.ok.injEq, Prod.mk.injEq] at h; obtain ⟨_, rfl, _⟩ := h
    exact wrefs_mapE hc (by intro p e hpe; unfold appendCol at hpe; split at hpe <;> cases hpe; rfl)
  case appendField a m col =>
    obtain ⟨t, _, h⟩ := h; split_ifs at h
    simp only [pure_eq, Except.ok.injEq, Prod.mk.injEq] at h; obtain ⟨_, rfl, _⟩ := h
    rw [wrefs_append, wrefs_keepAll]; rfl
  case setItem a m col =>
    obtain ⟨t, _, h⟩ := h
    split_ifs at h <;> (simp only [pure_eq, Except.ok.injEq, Prod.mk.injEq] at h; obtain ⟨_, rfl, _⟩ := h)
    · exact wrefs_nil_of (by intro e he; obtain ⟨p, _, rfl⟩ := List.mem_map.mp he; unfold setItemCol; split <;> rfl)
    · rw [wrefs_append, wrefs_keepAll]; rfl
  case removeField a m =>
    obtain ⟨t, _, h⟩ := h; split_ifs at h
    simp only [pure_eq, Except.ok.injEq, Prod.mk.injEq] at h; obtain ⟨_, rfl, _⟩ := h
    exact wrefs_keepAll _
  case rename a cv m =>
    obtain ⟨t, _, cols, hc, h⟩ := h
    simp only [pure_eq, Except.ok.injEq, Prod.mk.injEq] at h; obtain ⟨_, rfl, _⟩ := h
    -- every entry of the renamed dict is an entry of the initial one or carries a payload of it
    have key : ∀ (convs : List (Name × Name)) (d d' : PCols), (∀ e ∈ d, wrefOf e.2.1 = none) →
        renameLoop t.keys m convs d = .ok d' → ∀ e ∈ d', wrefOf e.2.1 = none := by
      intro convs
      induction convs with
      | nil => intro d d' hd h; simp [renameLoop] at h; subst h; exact hd
      | cons cv convs ih =>
        intro d d' hd h
        obtain ⟨o, n⟩ := cv
        unfold renameLoop at h
        by_cases h1 : t.keys.contains o = true
        · rw [if_pos h1] at h
          split at h
          · rename_i v hv
            split at h
            · cases h
            · refine ih _ _ ?_ h
              intro e he
              unfold dset at he
              split at he
              · obtain ⟨p, hp, rfl⟩ := List.mem_map.mp he
                split
                · exact hd (o, v) (mem_of_lookup _ _ _ hv)
                · exact hd p (List.mem_of_mem_filter hp)
              · rcases List.mem_append.mp he with h1 | h1
                · exact hd e (List.mem_of_mem_filter h1)
                · simp at h1; subst h1; exact hd (o, v) (mem_of_lookup _ _ _ hv)
          · cases h
        · rw [if_neg h1] at h
          split at h
          · cases h
          · exact ih _ _ hd h
    exact wrefs_nil_of (key cv _ _ (by intro e he; obtain ⟨p, _, rfl⟩ := List.mem_map.mp he; rfl) hc)
  case tidyUp a keep =>
    obtain ⟨t, _, h⟩ := h
    simp only [pure_eq, Except.ok.injEq, Prod.mk.injEq] at h; obtain ⟨_, rfl, _⟩ := h
    exact wrefs_keepAll _
  case getSel a sel =>
    obtain ⟨t, _, cols, _, h⟩ := h
    simp only [pure_eq, Except.ok.injEq, Prod.mk.injEq] at h; obtain ⟨_, rfl, _⟩ := h
    exact wrefs_freshAll _
  case setSel a sel d => exact (hop trivial).elim
  case sortBy a m perm =>
    obtain ⟨t, _, h⟩ := h
    split at h
    · cases h
    · split_ifs at h
      simp only [bind_ok] at h
      obtain ⟨ks, _, h⟩ := h
      split_ifs at h
      simp only [bind_ok] at h
      obtain ⟨cols, hc, h⟩ := h
      simp only [pure_eq, Except.ok.injEq, Prod.mk.injEq] at h; obtain ⟨_, rfl, _⟩ := h
      exact wrefs_mapE hc (by intro p e hpe; unfold sortCol at hpe; split at hpe <;> cases hpe; rfl)
  case copy a keep =>
    obtain ⟨t, _, h⟩ := h
    simp only [pure_eq, Except.ok.injEq, Prod.mk.injEq] at h; obtain ⟨_, rfl, _⟩ := h
    exact wrefs_freshAll _
  case setDtype a m dt =>
    obtain ⟨t, _, h⟩ := h; split_ifs at h
    simp only [pure_eq, Except.ok.injEq, Prod.mk.injEq] at h; obtain ⟨_, rfl, _⟩ := h
    exact wrefs_nil_of (by
      intro e he; obtain ⟨p, _, rfl⟩ := List.mem_map.mp he; unfold setDtypeCol
      split
      · split <;> rfl
      · rfl)
  case convert a cv exc =>
    obtain ⟨t, _, h⟩ := h
    simp only [pure_eq, Except.ok.injEq, Prod.mk.injEq] at h; obtain ⟨_, rfl, _⟩ := h
    exact wrefs_nil_of (by
      intro e he; obtain ⟨p, _, rfl⟩ := List.mem_map.mp he; unfold convertCol
      split
      · rfl
      · split <;> rfl)
  case indices a =>
    obtain ⟨t, _, h⟩ := h
    simp only [pure_eq, Except.ok.injEq, Prod.mk.injEq] at h; obtain ⟨_, rfl, _⟩ := h
    exact wrefs_keepAll _
  case new cols =>
    split_ifs at h
    simp only [pure_eq, Except.ok.injEq, Prod.mk.injEq] at h; obtain ⟨_, rfl, _⟩ := h
    exact wrefs_freshAll _



/-- heap part of the post-state of an operation of the heap layer: existing cells other than the locations of the
columns written in place (only `set_selection` has such, and they are bound in its target) are unchanged -/
theorem stepH_heap_frame (s : St) (op : Op) (l : Nat) (hl : l < s.heap.length)
    (hw : ¬ IsSetSel op ∨ ∀ c sel d cont n, op = .setSel c sel d → s.conts[c]? = some cont → (n, l) ∉ cont.fields) :
    (stepH s op).1.heap[l]? = s.heap[l]? := by
  unfold stepH
  cases hr : tableOp (viewAt s) s.conts.length op with
  | error e => rfl
  | ok r =>
    obtain ⟨tgt, u, out⟩ := r
    cases tgt with
    | inplace c =>
      simp only
      cases hc : s.conts[c]? with
      | none => rfl
      | some cont =>
        simp only
        cases hp : place cont.fields s.heap u.cols with
        | error e => rfl
        | ok r2 =>
          obtain ⟨h', fs⟩ := r2
          simp only
          refine place_frame _ _ _ _ _ hp l hl ?_
          rcases hw with hw | hw
          · rw [tableOp_wrefs _ _ _ _ _ _ hr hw]; intro o ho; cases ho
          · by_cases hs : IsSetSel op
            · intro o _ hm
              cases op <;> try (exact hs.elim)
              rename_i c' sel d
              have hcc : c' = c := by
                simp only [tableOp, bind_ok] at hr
                obtain ⟨t, _, s2, _, srcs, _, cols, _, hr⟩ := hr
                simp only [pure_eq, Except.ok.injEq, Prod.mk.injEq, Target.inplace.injEq] at hr
                exact hr.1
              subst hcc
              exact hw c' sel d cont o rfl hc hm
            · rw [tableOp_wrefs _ _ _ _ _ _ hr hs]; intro o ho; cases ho
    | new =>
      simp only
      cases hp : place [] s.heap u.cols with
      | error e => rfl
      | ok r2 =>
        obtain ⟨h', fs⟩ := r2
        simp only
        exact place_frame _ _ _ _ _ hp l hl (by intro o _ hm; cases hm)

/-- at most one existing container is rebound by an operation of the heap layer -/
theorem stepH_conts_frame (s : St) (op : Op) :
    ∃ c, ∀ i, i ≠ c → i < s.conts.length → (stepH s op).1.conts[i]? = s.conts[i]? := by
  unfold stepH
  cases hr : tableOp (viewAt s) s.conts.length op with
  | error e => exact ⟨0, fun _ _ _ => rfl⟩
  | ok r =>
    obtain ⟨tgt, u, out⟩ := r
    cases tgt with
    | inplace c =>
      refine ⟨c, ?_⟩
      intro i hic hi
      simp only
      cases hc : s.conts[c]? with
      | none => rfl
      | some cont =>
        simp only
        cases hp : place cont.fields s.heap u.cols with
        | error e => rfl
        | ok r2 => simp only [List.getElem?_set_ne (Ne.symm hic)]
    | new =>
      refine ⟨0, ?_⟩
      intro i _ hi
      simp only
      cases hp : place [] s.heap u.cols with
      | error e => rfl
      | ok r2 => simp only [List.getElem?_append_left hi]

theorem bindNew_heap (s : St) (c : Nat) (cont : Cont) (n l : Nat) : (bindNew s c cont n l).1.heap = s.heap := by
  unfold bindNew
  split
  · rfl
  · split
    · rfl
    · split <;> rfl

theorem bindNew_conts (s : St) (c : Nat) (cont : Cont) (n l : Nat) (i : Nat) (hic : i ≠ c) :
    (bindNew s c cont n l).1.conts[i]? = s.conts[i]? := by
  unfold bindNew
  split
  · rfl
  · split
    · rfl
    · split
      · rfl
      · simp only [List.getElem?_set_ne (Ne.symm hic)]


end StoreP
