/-
  Criterion layer of property C05 over ℝ: helper lemmas about `Model/EvSelCrit.lean`.
-/
import SkyllhModel.Model.EvSelCrit
import SkyllhModel.Proofs.RealScalar
import Mathlib.Tactic
import Mathlib.Algebra.Order.Floor.Ring

/-- `np.mod` over ℝ: floored modulus -/
noncomputable instance instFloorModReal : FloorMod ℝ where
  fmod x y := x - y * (⌊x / y⌋ : ℝ)

namespace C05Crit
open EvSelCrit

theorem fmod_def (x y : ℝ) : FloorMod.fmod x y = x - y * (⌊x / y⌋ : ℝ) := rfl

@[simp] theorem halfPi_real : (halfPi : ℝ) = Real.pi / 2 := by
  simp only [halfPi, TranscReal.pi_def]; norm_num
@[simp] theorem twoPi_real : (twoPi : ℝ) = 2 * Real.pi := by
  simp only [twoPi, TranscReal.pi_def]; ring
@[simp] theorem maxF_real (a b : ℝ) : maxF a b = max a b := by
  unfold maxF; split
  · rw [max_eq_right (le_of_lt ‹_›)]
  · rw [max_eq_left (not_lt.mp ‹_›)]
@[simp] theorem minF_real (a b : ℝ) : minF a b = min a b := by
  unfold minF; split
  · rw [min_eq_right (le_of_lt ‹_›)]
  · rw [min_eq_left (not_lt.mp ‹_›)]
@[simp] theorem absF_real (x : ℝ) : absF x = |x| := by
  unfold absF; split
  · rw [abs_of_neg ‹_›]
  · rw [abs_of_nonneg (not_lt.mp ‹_›)]

/-- distance on the circle of circumference 2π for a coordinate difference `Δ`, `|Δ| ≤ 2π` -/
noncomputable def circDist (Δ : ℝ) : ℝ := min |Δ| (2 * Real.pi - |Δ|)

theorem raDistBox_eq (s e : ℝ) : raDistBox s e = circDist (e - s) := by
  unfold raDistBox circDist
  simp only [absF_real, twoPi_real, TranscReal.pi_def]
  split
  · rw [min_eq_left]; linarith
  · rw [min_eq_right]; linarith

theorem floor_eq_of {x : ℝ} {z : ℤ} (h1 : (z : ℝ) ≤ x) (h2 : x < z + 1) : ⌊x⌋ = z :=
  Int.floor_eq_iff.mpr ⟨h1, h2⟩

theorem raDistMod_eq (s e : ℝ) (h : |e - s| ≤ 2 * Real.pi) : raDistMod s e = circDist (e - s) := by
  have hpi := Real.pi_pos
  unfold raDistMod circDist
  simp only [absF_real, twoPi_real, TranscReal.pi_def, fmod_def]
  set d := e - s with hd
  obtain ⟨hlo, hhi⟩ := abs_le.mp h
  have h2pi : (0 : ℝ) < 2 * Real.pi := by linarith
  rcases lt_or_ge d (-Real.pi) with hA | hA
  · -- d ∈ [-2π, -π): quotient -1
    have hq : ⌊(d + Real.pi) / (2 * Real.pi)⌋ = -1 := by
      apply floor_eq_of
      · rw [le_div_iff₀ h2pi]; push_cast; linarith
      · rw [div_lt_iff₀ h2pi]; push_cast; linarith
    rw [hq]; push_cast
    have hd' : |d| = -d := abs_of_neg (by linarith)
    rw [hd', min_eq_right (by linarith)]
    have : d + Real.pi - 2 * Real.pi * (-1 : ℝ) - Real.pi = d + 2 * Real.pi := by ring
    rw [this, abs_of_nonneg (by linarith)]; ring
  · rcases lt_or_ge d Real.pi with hB | hB
    · -- d ∈ [-π, π): quotient 0
      have hq : ⌊(d + Real.pi) / (2 * Real.pi)⌋ = 0 := by
        apply floor_eq_of
        · rw [le_div_iff₀ h2pi]; push_cast; linarith
        · rw [div_lt_iff₀ h2pi]; push_cast; linarith
      rw [hq]; push_cast
      have : d + Real.pi - 2 * Real.pi * (0 : ℝ) - Real.pi = d := by ring
      rw [this, min_eq_left]
      have : |d| ≤ Real.pi := abs_le.mpr ⟨hA, le_of_lt hB⟩
      linarith
    · -- d ∈ [π, 2π]: quotient 1
      have hq : ⌊(d + Real.pi) / (2 * Real.pi)⌋ = 1 := by
        apply floor_eq_of
        · rw [le_div_iff₀ h2pi]; push_cast; linarith
        · rw [div_lt_iff₀ h2pi]; push_cast; linarith
      rw [hq]; push_cast
      have hd' : |d| = d := abs_of_nonneg (by linarith)
      rw [hd', min_eq_right (by linarith)]
      have : d + Real.pi - 2 * Real.pi * (1 : ℝ) - Real.pi = d - 2 * Real.pi := by ring
      rw [this, abs_of_nonpos (by linarith)]; ring

theorem raDistMod_periodic (s e : ℝ) (k : ℤ) :
    raDistMod s (e + k * (2 * Real.pi)) = raDistMod s e := by
  have h2pi : (2 * Real.pi) ≠ 0 := by have := Real.pi_pos; linarith
  unfold raDistMod
  simp only [absF_real, twoPi_real, TranscReal.pi_def, fmod_def]
  have hq : (e + k * (2 * Real.pi) - s + Real.pi) / (2 * Real.pi) = (e - s + Real.pi) / (2 * Real.pi) + k := by
    field_simp; ring
  rw [hq, Int.floor_add_intCast]
  push_cast
  congr 1
  ring

theorem circDist_nonneg (Δ : ℝ) (h : |Δ| ≤ 2 * Real.pi) : 0 ≤ circDist Δ := by
  unfold circDist
  exact le_min (abs_nonneg _) (by linarith)

theorem circDist_le_pi (Δ : ℝ) : circDist Δ ≤ Real.pi := by
  unfold circDist
  rcases le_or_gt |Δ| Real.pi with h | h
  · exact le_trans (min_le_left _ _) h
  · exact le_trans (min_le_right _ _) (by linarith)

theorem circDist_zero : circDist 0 = 0 := by
  unfold circDist
  simp only [abs_zero, sub_zero]
  exact min_eq_left (by have := Real.pi_pos; linarith)

theorem decMinus_ge (dec δ : ℝ) : -(Real.pi / 2) ≤ decMinus dec δ := by
  simp [decMinus]

theorem decPlus_le (dec δ : ℝ) : decPlus dec δ ≤ Real.pi / 2 := by
  simp [decPlus]

theorem inDecBand_iff (dec δ x : ℝ) :
    inDecBand dec δ x = true ↔ (|x - dec| < δ ∧ -(Real.pi / 2) < x ∧ x < Real.pi / 2) := by
  simp only [inDecBand, decMinus, decPlus, maxF_real, minF_real, halfPi_real, Bool.and_eq_true,
    decide_eq_true_eq, max_lt_iff, lt_min_iff, abs_lt]
  constructor
  · rintro ⟨⟨h1, h2⟩, h3, h4⟩; exact ⟨⟨by linarith, by linarith⟩, h1, h4⟩
  · rintro ⟨⟨h1, h2⟩, h3, h4⟩; exact ⟨⟨h3, by linarith⟩, by linarith, h4⟩

theorem dRAhalf_of_ne (dec δ : ℝ) (hc : cosfact dec δ ≠ 0) :
    dRAhalf dec δ = min (2 * Real.pi) |δ / cosfact dec δ| := by
  unfold dRAhalf
  rcases lt_or_gt_of_ne hc with h | h
  · simp [h]
  · simp [h, not_lt.mpr (le_of_lt h)]

/-- a band touching a pole (exact `cosfact = 0`): the whole RA ring -/
theorem dRAhalf_of_zero (dec δ : ℝ) (hc : cosfact dec δ = 0) : dRAhalf dec δ = 2 * Real.pi := by
  unfold dRAhalf
  simp [hc]

theorem dRAhalf_le (dec δ : ℝ) : dRAhalf dec δ ≤ 2 * Real.pi := by
  by_cases hc : cosfact dec δ = 0
  · rw [dRAhalf_of_zero dec δ hc]
  · rw [dRAhalf_of_ne dec δ hc]; exact min_le_left _ _

theorem dRAhalf_pos (dec δ : ℝ) (hδ : 0 < δ) : 0 < dRAhalf dec δ := by
  have hpi : (0 : ℝ) < 2 * Real.pi := by have := Real.pi_pos; linarith
  by_cases hc : cosfact dec δ = 0
  · rw [dRAhalf_of_zero dec δ hc]; exact hpi
  · rw [dRAhalf_of_ne dec δ hc]
    exact lt_min hpi (abs_pos.mpr (div_ne_zero (ne_of_gt hδ) hc))

theorem cosfact_le_one (dec δ : ℝ) : cosfact dec δ ≤ 1 := by
  simp only [cosfact, minF_real, TranscReal.cos_def]
  exact le_trans (min_le_left _ _) (Real.cos_le_one _)

theorem cosfact_nonneg (dec δ : ℝ) (hδ : 0 ≤ δ)
    (hdec : -(Real.pi / 2) ≤ dec ∧ dec ≤ Real.pi / 2) : 0 ≤ cosfact dec δ := by
  simp only [cosfact, minF_real, TranscReal.cos_def, decMinus, decPlus, maxF_real, halfPi_real]
  apply le_min
  · apply Real.cos_nonneg_of_neg_pi_div_two_le_of_le
    · exact le_max_left _ _
    · exact max_le (by have := Real.pi_pos; linarith) (by linarith [hdec.2])
  · apply Real.cos_nonneg_of_neg_pi_div_two_le_of_le
    · exact le_min (by linarith [hdec.1]) (by have := Real.pi_pos; linarith)
    · exact min_le_right _ _

/-- the band of a source on the sphere touches a pole iff `|dec| + δ ≥ π/2`; then `cosfact = 0` -/
theorem cosfact_zero_of_touching (dec δ : ℝ) (hδ : 0 < δ)
    (hdec : -(Real.pi / 2) ≤ dec ∧ dec ≤ Real.pi / 2) (hp : Real.pi / 2 ≤ |dec| + δ) :
    cosfact dec δ = 0 := by
  have hnn := cosfact_nonneg dec δ (le_of_lt hδ) hdec
  apply le_antisymm _ hnn
  simp only [cosfact, minF_real, TranscReal.cos_def, decMinus, decPlus, maxF_real, halfPi_real]
  rcases le_or_gt 0 dec with h | h
  · -- upper edge clipped
    rw [abs_of_nonneg h] at hp
    rw [min_eq_right (by linarith : Real.pi / 2 ≤ dec + δ), Real.cos_pi_div_two]
    exact min_le_right _ _
  · rw [abs_of_neg h] at hp
    rw [max_eq_left (by linarith : dec - δ ≤ -(Real.pi / 2)), Real.cos_neg, Real.cos_pi_div_two]
    exact min_le_left _ _

theorem dRAhalf_ge_delta (dec δ : ℝ) (hδ : 0 < δ) (hδ' : δ ≤ 2 * Real.pi) (hc : 0 ≤ cosfact dec δ) :
    δ ≤ dRAhalf dec δ := by
  rcases eq_or_lt_of_le hc with h0 | hpos
  · rw [dRAhalf_of_zero dec δ h0.symm]; exact hδ'
  · rw [dRAhalf_of_ne dec δ (ne_of_gt hpos)]
    apply le_min hδ'
    rw [abs_of_pos (div_pos hδ hpos), le_div_iff₀ hpos]
    have := cosfact_le_one dec δ
    nlinarith

theorem dRAhalfCap_twoPi (dec δ : ℝ) : dRAhalfCap (twoPi : ℝ) dec δ = dRAhalf dec δ := rfl

theorem dRAhalfCap_eq (cap dec δ : ℝ) :
    dRAhalfCap cap dec δ = if cosfact dec δ = 0 then cap else min cap |δ / cosfact dec δ| := by
  unfold dRAhalfCap
  by_cases hc : cosfact dec δ = 0
  · simp [hc]
  · rcases lt_or_gt_of_ne hc with h | h
    · simp [h, hc]
    · simp [h, hc, not_lt.mpr (le_of_lt h)]

/-- **the cap is irrelevant above π**: a distance `d ≤ π` (every RA distance on the circle is) is
below the half width for one cap `> π` iff it is for any other -/
theorem cap_irrelevant (cap cap' dec δ d : ℝ) (hc : Real.pi < cap) (hc' : Real.pi < cap') (hd : d ≤ Real.pi) :
    d < dRAhalfCap cap dec δ ↔ d < dRAhalfCap cap' dec δ := by
  rw [dRAhalfCap_eq, dRAhalfCap_eq]
  split
  · exact ⟨fun _ => by linarith, fun _ => by linarith⟩
  · simp only [lt_min_iff]
    exact ⟨fun h => ⟨by linarith, h.2⟩, fun h => ⟨by linarith, h.2⟩⟩

theorem raDistBox_le_pi (s e : ℝ) : raDistBox s e ≤ Real.pi := by
  rw [raDistBox_eq]; exact circDist_le_pi _

theorem raDistMod_le_pi (s e : ℝ) (h : |e - s| ≤ 2 * Real.pi) : raDistMod s e ≤ Real.pi := by
  rw [raDistMod_eq s e h]; exact circDist_le_pi _

theorem inRABandCap_eq (cap s dec δ e : ℝ) (hc : Real.pi < cap) (h : |e - s| ≤ 2 * Real.pi) :
    inRABandCap cap s dec δ e = inRABand s dec δ e := by
  have h2 : Real.pi < (twoPi : ℝ) := by rw [twoPi_real]; have := Real.pi_pos; linarith
  unfold inRABandCap inRABand
  rw [← dRAhalfCap_twoPi]
  exact decide_eq_decide.mpr (cap_irrelevant cap twoPi dec δ _ hc h2 (raDistMod_le_pi s e h))

theorem inBoxRaCap_eq (cap s dec δ e : ℝ) (hc : Real.pi < cap) :
    inBoxRaCap cap s dec δ e = decide (raDistBox s e < dRAhalf dec δ) := by
  have h2 : Real.pi < (twoPi : ℝ) := by rw [twoPi_real]; have := Real.pi_pos; linarith
  unfold inBoxRaCap
  rw [← dRAhalfCap_twoPi]
  exact decide_eq_decide.mpr (cap_irrelevant cap twoPi dec δ _ hc h2 (raDistBox_le_pi s e))

/-- with the cap at `π` itself the event on the opposite meridian of a source whose band touches a
pole is lost (its distance is exactly `π`, the comparison is strict) -/
theorem cap_pi_loses_antipode (s dec δ : ℝ) (hδ : 0 < δ) (hdec : -(Real.pi / 2) ≤ dec ∧ dec ≤ Real.pi / 2)
    (hp : Real.pi / 2 ≤ |dec| + δ) :
    inBoxRaCap Real.pi s dec δ (s + Real.pi) = false ∧
    decide (raDistBox s (s + Real.pi) < dRAhalf dec δ) = true := by
  have h0 := cosfact_zero_of_touching dec δ hδ hdec hp
  have hd : raDistBox s (s + Real.pi) = Real.pi := by
    rw [raDistBox_eq]
    unfold circDist
    have hpi := Real.pi_pos
    rw [add_sub_cancel_left, abs_of_pos hpi, min_eq_left (by linarith)]
  constructor
  · unfold inBoxRaCap
    rw [hd, dRAhalfCap_eq, if_pos h0]
    simp
  · rw [hd, dRAhalf_of_zero dec δ h0]
    have := Real.pi_pos
    simp only [decide_eq_true_eq]; linarith

theorem inBox_iff (s dec δ e x : ℝ) :
    inBox s dec δ e x = true ↔
      (circDist (e - s) < dRAhalf dec δ ∧ |x - dec| < δ ∧ -(Real.pi / 2) < x ∧ x < Real.pi / 2) := by
  simp only [inBox, Bool.and_eq_true, decide_eq_true_eq, inDecBand_iff, raDistBox_eq]

theorem inRABand_iff (s dec δ e : ℝ) (h : |e - s| ≤ 2 * Real.pi) :
    inRABand s dec δ e = true ↔ circDist (e - s) < dRAhalf dec δ := by
  simp only [inRABand, decide_eq_true_eq, raDistMod_eq s e h]

theorem self_selected (s dec δ : ℝ) (hδ : 0 < δ) (hdec : -(Real.pi / 2) < dec ∧ dec < Real.pi / 2) :
    inBox s dec δ s dec = true := by
  rw [inBox_iff]
  refine ⟨?_, by simpa using hδ, hdec.1, hdec.2⟩
  rw [sub_self, circDist_zero]
  exact dRAhalf_pos dec δ hδ

/-- **band touching a pole**: the RA window is the whole ring, only the (clipped) declination band
decides -/
theorem inBox_touching_pole (s dec δ e x : ℝ) (hδ : 0 < δ)
    (hdec : -(Real.pi / 2) ≤ dec ∧ dec ≤ Real.pi / 2) (hp : Real.pi / 2 ≤ |dec| + δ) :
    (inBox s dec δ e x = true ↔ (|x - dec| < δ ∧ -(Real.pi / 2) < x ∧ x < Real.pi / 2)) ∧
    (∀ (_ : |e - s| ≤ 2 * Real.pi), inRABand s dec δ e = true) := by
  have h0 := dRAhalf_of_zero dec δ (cosfact_zero_of_touching dec δ hδ hdec hp)
  have hlt : circDist (e - s) < 2 * Real.pi := by
    have := circDist_le_pi (e - s); have := Real.pi_pos; linarith
  constructor
  · rw [inBox_iff, h0]
    exact ⟨fun h => h.2, fun h => ⟨hlt, h⟩⟩
  · intro h
    rw [inRABand_iff s dec δ e h, h0]
    exact hlt

end C05Crit
