/-
  Helper lemmas for Props/C10.lean (histogram part): sequential sums, `np.diff`, per-band
  normalisation, bin lookup.  Everything over an arbitrary linearly ordered field.
-/
import SkyllhModel.Model.Pdf
import Mathlib.Tactic

set_option linter.unusedSectionVars false

namespace C10
open Pdf

theorem pyIndex_of_lt (n i : Nat) (h : i < n) : pyIndex n (i : Int) = some i := by
  unfold pyIndex
  rw [if_pos ⟨Int.natCast_nonneg i, by exact_mod_cast h⟩]
  simp

section field
variable {K : Type} [Field K] [LinearOrder K] [IsStrictOrderedRing K]

theorem foldl_add (a : K) (xs : List K) : xs.foldl (· + ·) a = a + xs.sum := by
  induction xs generalizing a with
  | nil => simp
  | cons x xs ih => simp [List.foldl_cons, ih, add_assoc]

theorem sumSeq_eq_sum (xs : List K) : sumSeq xs = xs.sum := by
  unfold sumSeq; rw [foldl_add]; simp

theorem isZero_iff (x : K) : isZero x = true ↔ x = 0 := by
  unfold isZero
  simp only [Bool.and_eq_true, decide_eq_true_eq]
  exact ⟨fun h => le_antisymm h.1 h.2, fun h => by subst h; exact ⟨le_refl _, le_refl _⟩⟩

theorem sum_nonneg' (xs : List K) (h : ∀ x ∈ xs, 0 ≤ x) : 0 ≤ xs.sum := List.sum_nonneg h

theorem widths_length (es : List K) : (widths es).length = es.length - 1 := by
  induction es with
  | nil => simp [widths]
  | cons a rest ih =>
    cases rest with
    | nil => simp [widths]
    | cons b rest' =>
      simp only [widths, List.length_cons] at ih ⊢
      omega

/-- strictly increasing edges have positive bin widths -/
theorem widths_pos (es : List K) (h : es.IsChain (· < ·)) : ∀ w ∈ widths es, 0 < w := by
  induction es with
  | nil => simp [widths]
  | cons a rest ih =>
    cases rest with
    | nil => simp [widths]
    | cons b rest' =>
      simp only [List.isChain_cons_cons] at h
      intro w hw
      simp only [widths, List.mem_cons] at hw
      rcases hw with rfl | hw
      · exact sub_pos.mpr h.1
      · exact ih h.2 w hw

/-- the algebra behind the per-band normalisation: `Σ h/(s·w) · w = (Σ h)/s` -/
theorem normBand_mass_aux (s : K) (hs0 : s ≠ 0) (hs ws : List K) (hlen : hs.length = ws.length)
    (hw : ∀ w ∈ ws, w ≠ 0) :
    (List.zipWith (· * ·)
      (List.zipWith (fun h w => if isZero (s * w) = true then 0 else h / (s * w)) hs ws) ws).sum
      = hs.sum / s := by
  induction hs generalizing ws with
  | nil => simp
  | cons h hs ih =>
    cases ws with
    | nil => simp at hlen
    | cons w ws =>
      have hw0 : w ≠ 0 := hw w (by simp)
      have hsw : s * w ≠ 0 := mul_ne_zero hs0 hw0
      have hz : ¬ isZero (s * w) = true := fun hh => hsw ((isZero_iff _).mp hh)
      simp only [List.zipWith_cons_cons, List.sum_cons, if_neg hz]
      rw [ih ws (by simpa using hlen) (fun w' hw' => hw w' (by simp [hw']))]
      field_simp

theorem normBand_length (hs ws : List K) : (normBand hs ws).length = min hs.length ws.length := by
  unfold normBand; simp

/-- a band with content is normalised: `Σᵢ pdfᵢ · Δᵢ = 1` -/
theorem normBand_mass (hs ws : List K) (hlen : hs.length = ws.length) (hw : ∀ w ∈ ws, w ≠ 0)
    (hs0 : sumSeq hs ≠ 0) :
    sumSeq (List.zipWith (· * ·) (normBand hs ws) ws) = 1 := by
  rw [sumSeq_eq_sum]
  unfold normBand
  simp only
  rw [normBand_mass_aux (sumSeq hs) hs0 hs ws hlen hw, ← sumSeq_eq_sum]
  exact div_self hs0

/-- a band without content has density zero in every bin (after the fix) -/
theorem normBand_zero (hs ws : List K) (hs0 : sumSeq hs = 0) : ∀ v ∈ normBand hs ws, v = 0 := by
  intro v hv
  unfold normBand at hv
  simp only [hs0, zero_mul] at hv
  have hz : isZero (0 : K) = true := (isZero_iff _).mpr rfl
  simp only [hz, if_true] at hv
  rw [List.mem_iff_getElem] at hv
  obtain ⟨i, hi, rfl⟩ := hv
  simp

theorem normBand_nonneg (hs ws : List K) (hh : ∀ h ∈ hs, 0 ≤ h) (hw : ∀ w ∈ ws, 0 < w) :
    ∀ v ∈ normBand hs ws, 0 ≤ v := by
  have hsum : 0 ≤ sumSeq hs := by rw [sumSeq_eq_sum]; exact List.sum_nonneg hh
  intro v hv
  unfold normBand at hv
  rw [List.mem_iff_getElem] at hv
  obtain ⟨i, hi, rfl⟩ := hv
  simp only [List.length_zipWith, lt_min_iff] at hi
  simp only [List.getElem_zipWith]
  split_ifs
  · exact le_refl _
  · exact div_nonneg (hh _ (List.getElem_mem hi.1))
      (mul_nonneg hsum (le_of_lt (hw _ (List.getElem_mem hi.2))))

theorem convSame_length (k h : List K) : (convSame k h).length = h.length := by
  unfold convSame; simp

theorem convSame_nonneg (k h : List K) (hk : ∀ x ∈ k, 0 ≤ x) (hh : ∀ x ∈ h, 0 ≤ x) :
    ∀ v ∈ convSame k h, 0 ≤ v := by
  intro v hv
  unfold convSame at hv
  simp only [List.mem_map, List.mem_range] at hv
  obtain ⟨i, _, rfl⟩ := hv
  rw [sumSeq_eq_sum]
  apply List.sum_nonneg
  intro t ht
  simp only [List.mem_map, List.mem_range] at ht
  obtain ⟨m, _, rfl⟩ := ht
  split_ifs
  · split
    · rename_i kv hv' hk' hh'
      exact mul_nonneg (hk _ (List.mem_of_getElem? hk')) (hh _ (List.mem_of_getElem? hh'))
    · exact le_refl _
  · exact le_refl _

theorem smooth_length (k h : List K) : (smooth k h).length = h.length := by
  unfold smooth; simp [convSame_length]

theorem smooth_nonneg (k h : List K) (hk : ∀ x ∈ k, 0 ≤ x) (hh : ∀ x ∈ h, 0 ≤ x) :
    ∀ v ∈ smooth k h, 0 ≤ v := by
  intro v hv
  unfold smooth at hv
  rw [List.mem_iff_getElem] at hv
  obtain ⟨i, hi, rfl⟩ := hv
  simp only [List.length_zipWith, lt_min_iff] at hi
  simp only [List.getElem_zipWith]
  exact div_nonneg (convSame_nonneg k h hk hh _ (List.getElem_mem hi.1))
    (convSame_nonneg k _ hk (by intro x hx; simp only [List.mem_map] at hx; obtain ⟨_, _, rfl⟩ := hx; exact zero_le_one)
      _ (List.getElem_mem hi.2))

/-- convolving a constant histogram = the constant times the boundary normaliser -/
theorem convSame_replicate (k : List K) (n : Nat) (c : K) :
    convSame k (List.replicate n c) = (convSame k (List.replicate n 1)).map (fun v => c * v) := by
  unfold convSame
  simp only [List.length_replicate, List.map_map]
  apply List.map_congr_left
  intro i hi
  simp only [Function.comp, sumSeq_eq_sum]
  rw [← List.sum_map_mul_left]
  congr 1
  apply List.map_congr_left
  intro m _
  split_ifs with h
  · cases hk : k[m]? with
    | none => simp
    | some kv =>
      by_cases hj : i + (k.length - 1) / 2 - m < n
      · simp [hj]; ring
      · simp [hj]
  · simp

theorem smooth_const (k : List K) (n : Nat) (c : K)
    (hN : ∀ v ∈ convSame k (List.replicate n 1), v ≠ 0) :
    smooth k (List.replicate n c) = List.replicate n c := by
  unfold smooth
  rw [convSame_replicate k n c]
  simp only [List.map_replicate]
  apply List.ext_getElem
  · simp [convSame_length]
  · intro i h1 h2
    simp only [List.getElem_zipWith, List.getElem_map, List.getElem_replicate]
    have hv := hN _ (List.getElem_mem (l := convSame k (List.replicate n 1)) (by simpa [convSame_length] using h2))
    field_simp

end field

section order
variable {K : Type} [LinearOrder K]

/-- the two bin-index computations agree on every value accepted by the validity check:
`get_pd` looks an event up in exactly the bin `numpy.histogram2d` fills with such a value. -/
theorem lookup_eq_histBin (edges : List K) (x : K) (hs : edges.Pairwise (· ≤ ·))
    (h2 : 2 ≤ edges.length) (hv : inRange edges x = true) :
    ∃ i, lookup edges x = some i ∧ histBin edges x = some i ∧ i < edges.length - 1 := by
  obtain ⟨lo, hlo⟩ : ∃ lo, edges.head? = some lo := by
    cases edges with
    | nil => simp at h2
    | cons a _ => exact ⟨a, rfl⟩
  obtain ⟨hi, hhi⟩ : ∃ hi, edges.getLast? = some hi := by
    cases hne : edges.getLast? with
    | none => rw [List.getLast?_eq_none_iff] at hne; subst hne; simp at h2
    | some v => exact ⟨v, rfl⟩
  unfold inRange at hv
  rw [hlo, hhi] at hv
  simp only [Bool.and_eq_true, decide_eq_true_eq] at hv
  obtain ⟨hlox, hxhi⟩ := hv
  have hlomem : lo ∈ edges := List.mem_of_mem_head? hlo
  have himem : hi ∈ edges := List.mem_of_mem_getLast? hhi
  have hall : ∀ e ∈ edges, e ≤ hi := by
    intro e he
    rw [List.getLast?_eq_some_iff] at hhi
    obtain ⟨ys, rfl⟩ := hhi
    rw [List.pairwise_append] at hs
    rcases List.mem_append.mp he with h | h
    · exact hs.2.2 e h hi (by simp)
    · simp at h; exact le_of_eq h
  have hc1 : 1 ≤ Livetime.digitize edges x := by
    unfold Livetime.digitize
    exact List.countP_pos_iff.mpr ⟨lo, hlomem, by simpa using hlox⟩
  have hcn : Livetime.digitize edges x ≤ edges.length := by
    unfold Livetime.digitize; exact List.countP_le_length
  unfold lookup histBin
  rw [hhi]
  simp only
  by_cases hon : hi ≤ x
  · -- x sits on the upper-most edge: every edge is ≤ x
    have hcall : Livetime.digitize edges x = edges.length := by
      unfold Livetime.digitize
      rw [List.countP_eq_length]
      intro e he
      simpa using le_trans (hall e he) hon
    refine ⟨edges.length - 2, ?_, ?_, by omega⟩
    · simp only [hon, hxhi, decide_true, Bool.and_self, if_true]
      have : (edges.length : Int) - 2 = ((edges.length - 2 : Nat) : Int) := by omega
      rw [this]
      exact pyIndex_of_lt _ _ (by omega)
    · simp only [hon, hxhi, decide_true, Bool.and_self, if_true]
      have hc : 1 ≤ Livetime.digitize edges x - 1 ∧ Livetime.digitize edges x - 1 < edges.length := by
        omega
      rw [if_pos hc]
      congr 1
      omega
  · -- x below the upper-most edge: the last edge is not counted
    have hlt : Livetime.digitize edges x < edges.length := by
      apply lt_of_le_of_ne hcn
      intro heq
      unfold Livetime.digitize at heq
      rw [List.countP_eq_length] at heq
      exact hon (by simpa using heq hi himem)
    refine ⟨Livetime.digitize edges x - 1, ?_, ?_, by omega⟩
    · simp only [hon, decide_false, Bool.false_and, Bool.false_eq_true, if_false]
      have : (Livetime.digitize edges x : Int) - 1 = ((Livetime.digitize edges x - 1 : Nat) : Int) := by omega
      rw [this]
      exact pyIndex_of_lt _ _ (by omega)
    · simp only [hon, decide_false, Bool.false_and, Bool.false_eq_true, if_false]
      rw [if_pos ⟨hc1, hlt⟩]

end order

end C10

/-! ## the pd cache of `MultiDimGridPDF` with event subsets -/

open Pdf

namespace C10

theorem pick_zipWith {α β γ : Type} (f : α → β → γ) (m : List Bool) (a : List α) (b : List β) :
    pick m (List.zipWith f a b) = List.zipWith f (pick m a) (pick m b) := by
  induction m generalizing a b with
  | nil => cases a <;> cases b <;> simp [pick]
  | cons h m ih =>
    cases a with
    | nil => cases h <;> simp [pick]
    | cons x xs =>
      cases b with
      | nil => cases h <;> simp [pick]
      | cons y ys => cases h <;> simp [pick, ih]

/-- a cache entry is either a placeholder or the target value -/
def Rel {α : Type} (o : Option α) (t : α) : Prop := o = none ∨ o = some t

theorem forall2_scatter {α : Type} (m : List Bool) (c : List (Option α)) (t : List α)
    (h : List.Forall₂ Rel c t) : List.Forall₂ Rel (scatter m (pick m t) c) t := by
  induction m generalizing c t with
  | nil => cases c <;> simpa [scatter] using h
  | cons b m ih =>
    cases h with
    | nil => cases b <;> simp [scatter, pick]
    | cons hr hrest =>
      cases b with
      | true => simp only [pick, scatter]; exact List.Forall₂.cons (Or.inr rfl) (ih _ _ hrest)
      | false => simp only [pick, scatter]; exact List.Forall₂.cons hr (ih _ _ hrest)

theorem allSome_pick {α : Type} (m : List Bool) (c : List (Option α)) (t : List α)
    (h : List.Forall₂ Rel c t) (vs : List α) (hv : allSome (pick m c) = some vs) : vs = pick m t := by
  induction m generalizing c t vs with
  | nil => cases c <;> cases t <;> simp_all [pick, allSome]
  | cons b m ih =>
    cases h with
    | nil => cases b <;> simp_all [pick, allSome]
    | cons hr hrest =>
      rename_i o tv cs ts
      cases b with
      | false => simp only [pick] at hv ⊢; exact ih _ _ hrest vs hv
      | true =>
        simp only [pick] at hv ⊢
        cases o with
        | none => simp [allSome] at hv
        | some x =>
          simp only [allSome, Option.map_eq_some_iff] at hv
          obtain ⟨rest, hrest', rfl⟩ := hv
          rcases hr with hr | hr
          · cases hr
          · cases hr
            rw [ih _ _ hrest rest hrest']

theorem forall2_replicate {α : Type} (t : List α) : List.Forall₂ Rel (List.replicate t.length (none : Option α)) t := by
  induction t with
  | nil => simp
  | cons x xs ih => simp only [List.length_cons, List.replicate_succ]; exact List.Forall₂.cons (Or.inl rfl) ih

theorem pick_all {α : Type} (xs : List α) : pick (List.replicate xs.length true) xs = xs := by
  induction xs with
  | nil => simp [pick]
  | cons x xs ih => simp only [List.length_cons, List.replicate_succ, pick, ih]

end C10

namespace C10
variable {F : Type} [Mul F]

def GMInv (raw norm : Nat → List F) (s : GMState F) : Prop :=
  ∀ id c, s.key = some id → s.cache = some c →
    List.Forall₂ Rel c (List.zipWith (· * ·) (raw id) (norm id))

theorem gmInv_store (raw norm : Nat → List F) (id : Nat) (X : List (Option F))
    (hX : List.Forall₂ Rel X (List.zipWith (· * ·) (raw id) (norm id))) :
    GMInv raw norm { key := some id, cache := some X } := by
  intro id' c' hk hc
  simp only [Option.some.injEq] at hk hc
  subst hk; subst hc; exact hX

theorem gmEval_spec (cacheOn : Bool) (raw norm : Nat → List F) (s : GMState F) (id : Nat)
    (mask : Option (List Bool)) (hn : (norm id).length = (raw id).length)
    (hm : ∀ m, mask = some m → m.length = (raw id).length) (h : GMInv raw norm s) :
    (gmEval true cacheOn raw norm s id mask).2 =
      (pick (mask.getD (List.replicate (raw id).length true))
        (List.zipWith (· * ·) (raw id) (norm id))).map some ∧
    GMInv raw norm (gmEval true cacheOn raw norm s id mask).1 := by
  set m := mask.getD (List.replicate (raw id).length true) with hmdef
  set t := List.zipWith (· * ·) (raw id) (norm id) with htdef
  have hmlen : m.length = t.length := by
    have h1 : m.length = (raw id).length := by
      rw [hmdef]
      cases mask with
      | none => simp
      | some m' => simpa using hm m' rfl
    rw [h1, htdef]; simp [hn]
  have hpd : List.zipWith (· * ·) (pick m (raw id)) (pick m (norm id)) = pick m t := by
    rw [htdef, pick_zipWith]
  -- the miss branch, for an arbitrary old cache content c0 that is consistent with the target
  have hmiss : ∀ c0, List.Forall₂ Rel c0 t →
      GMInv raw norm { key := some id, cache := some (scatter m (pick m t) c0) } :=
    fun c0 hc0 => gmInv_store raw norm id _ (forall2_scatter m c0 t hc0)
  unfold gmEval
  simp only [Bool.not_true, Bool.false_and, Bool.false_eq_true, if_false, ← hmdef, hpd]
  cases cacheOn with
  | false => simp only [Bool.false_eq_true, if_false]; exact ⟨by first | rfl | trivial, h⟩
  | true =>
    simp only [if_true]
    by_cases hk : s.key = some id
    · simp only [hk, if_true]
      cases hc : s.cache with
      | none =>
        simp only
        refine ⟨by first | rfl | trivial, hmiss _ ?_⟩
        rw [hmlen]; exact forall2_replicate t
      | some c =>
        have hct := h id c hk hc
        simp only
        cases ha : allSome (pick m c) with
        | none => simp only [Option.map_none]; exact ⟨by first | rfl | trivial, hmiss c hct⟩
        | some vs =>
          simp only [Option.map_some]
          rw [allSome_pick m c t hct vs ha]
          exact ⟨by first | rfl | trivial, h⟩
    · simp only [hk, if_false]
      refine ⟨by first | rfl | trivial, hmiss _ ?_⟩
      rw [hmlen]; exact forall2_replicate t

end C10

/-! ## smoothing as a re-weighting: `Σ smooth(p) = Σ p_j · colSum j` -/

open Pdf C10

section
variable {K : Type} [Field K] [LinearOrder K] [IsStrictOrderedRing K]

theorem C10.sum_range_map (n : Nat) (f : Nat → K) :
    ((List.range n).map f).sum = ∑ i ∈ Finset.range n, f i := by
  induction n with
  | zero => simp
  | succ n ih => rw [List.range_succ, List.map_append, List.sum_append, ih, Finset.sum_range_succ]; simp

/-- the kernel term of `convSame` as a function -/
def C10.cterm (k h : List K) (c i m : Nat) : K :=
  if m ≤ i + c then
    match k[m]?, h[i + c - m]? with
    | some kv, some hv => kv * hv
    | _, _ => 0
  else 0

theorem C10.convSame_eq (k h : List K) :
    convSame k h = (List.range h.length).map (fun i =>
      ∑ m ∈ Finset.range k.length, C10.cterm k h ((k.length - 1) / 2) i m) := by
  unfold convSame
  apply List.map_congr_left
  intro i _
  rw [sumSeq_eq_sum, C10.sum_range_map]
  rfl

end

section
variable {K : Type} [Field K] [LinearOrder K] [IsStrictOrderedRing K]

/-- `cterm` with the list look-ups resolved (for kernel indices inside the kernel) -/
theorem C10.cterm_eq (k h : List K) (c i m : Nat) (hm : m < k.length) :
    C10.cterm k h c i m =
      if m ≤ i + c ∧ i + c - m < h.length then k.getD m 0 * h.getD (i + c - m) 0 else 0 := by
  unfold C10.cterm
  by_cases h1 : m ≤ i + c
  · by_cases h2 : i + c - m < h.length
    · simp [h1, h2, hm, List.getD_eq_getElem?_getD, List.getElem?_eq_getElem]
    · have : h[i + c - m]? = none := List.getElem?_eq_none (not_lt.mp h2)
      simp [h1, h2, this, hm]
  · simp [h1]

/-- the normaliser `convolve(ones, k)` at bin `i` -/
def C10.Nf (k : List K) (n i : Nat) : K :=
  ∑ m ∈ Finset.range k.length, C10.cterm k (List.replicate n 1) ((k.length - 1) / 2) i m

theorem C10.smooth_eq (k p : List K) :
    smooth k p = (List.range p.length).map (fun i =>
      (∑ m ∈ Finset.range k.length, C10.cterm k p ((k.length - 1) / 2) i m) / C10.Nf k p.length i) := by
  unfold smooth
  have hones : p.map (fun _ => (1 : K)) = List.replicate p.length 1 := by simp
  rw [hones, C10.convSame_eq k p, C10.convSame_eq k (List.replicate p.length 1)]
  simp only [List.length_replicate, List.zipWith_map, List.zipWith_self]
  rfl

theorem C10.convSame_ones_getElem? (k : List K) (n i : Nat) (hi : i < n) :
    (convSame k (List.replicate n (1 : K)))[i]? = some (C10.Nf k n i) := by
  rw [C10.convSame_eq]
  simp [hi, C10.Nf]

theorem C10.colSum_eq (k : List K) (n j : Nat) :
    colSum k n j = ∑ i ∈ Finset.range n, ∑ m ∈ Finset.range k.length,
      if m ≤ i + (k.length - 1) / 2 ∧ i + (k.length - 1) / 2 - m = j then k.getD m 0 / C10.Nf k n i else 0 := by
  unfold colSum
  simp only
  rw [sumSeq_eq_sum, C10.sum_range_map]
  apply Finset.sum_congr rfl
  intro i hi
  rw [sumSeq_eq_sum, C10.sum_range_map]
  apply Finset.sum_congr rfl
  intro m hm
  have hi' := Finset.mem_range.mp hi
  have hm' := Finset.mem_range.mp hm
  rw [C10.convSame_ones_getElem? k n i hi']
  split_ifs
  · simp [hm', List.getD_eq_getElem?_getD, List.getElem?_eq_getElem]
  · rfl

/-- **the smoothed band content is a re-weighting of the un-smoothed one**:
`Σ_i smooth(p)_i = Σ_j p_j · colSum j` -/
theorem C10.smooth_sum_eq (k p : List K) :
    (smooth k p).sum = ∑ j ∈ Finset.range p.length, p.getD j 0 * colSum k p.length j := by
  rw [C10.smooth_eq, C10.sum_range_map]
  set c := (k.length - 1) / 2 with hc
  set n := p.length with hn
  have hL : ∀ i ∈ Finset.range n, (∑ m ∈ Finset.range k.length, C10.cterm k p c i m) / C10.Nf k n i =
      ∑ j ∈ Finset.range n, ∑ m ∈ Finset.range k.length,
        p.getD j 0 * (if m ≤ i + c ∧ i + c - m = j then k.getD m 0 / C10.Nf k n i else 0) := by
    intro i _
    rw [Finset.sum_div, Finset.sum_comm]
    apply Finset.sum_congr rfl
    intro m hm
    rw [C10.cterm_eq k p c i m (Finset.mem_range.mp hm)]
    by_cases h1 : m ≤ i + c
    · by_cases h2 : i + c - m < n
      · rw [if_pos ⟨h1, h2⟩]
        rw [Finset.sum_eq_single (i + c - m)]
        · simp [h1]; ring
        · intro j _ hj; simp [h1, Ne.symm hj]
        · intro hnot; exact absurd (Finset.mem_range.mpr h2) hnot
      · rw [if_neg (fun h => h2 h.2), zero_div]
        symm
        apply Finset.sum_eq_zero
        intro j hj
        have : i + c - m ≠ j := fun h => h2 (h ▸ Finset.mem_range.mp hj)
        simp [this]
    · rw [if_neg (fun h => h1 h.1), zero_div]
      symm
      apply Finset.sum_eq_zero
      intro j _
      simp [h1]
  rw [Finset.sum_congr rfl hL, Finset.sum_comm]
  apply Finset.sum_congr rfl
  intro j _
  rw [C10.colSum_eq, Finset.mul_sum]
  apply Finset.sum_congr rfl
  intro i _
  rw [Finset.mul_sum]

end

section
variable {K : Type} [Field K] [LinearOrder K] [IsStrictOrderedRing K]

theorem C10.sum_eq_range_getD (p : List K) : p.sum = ∑ j ∈ Finset.range p.length, p.getD j 0 := by
  rw [← C10.sum_range_map]
  congr 1
  apply List.ext_getElem
  · simp
  · intro i h1 h2
    simp [List.getD_eq_getElem?_getD, List.getElem?_eq_getElem h1]
end
