/-
  Round 7 (C17): the table header of a text file (Model/LoadDispatchR7.lean: `stripBy`, `splitWs`,
  `extractColumnNames`, `usecolsGo`) - lemmas for the round-trip theorem of Props/C17.lean.
-/
import SkyllhModel.Model.LoadDispatchR7
import Mathlib.Tactic

namespace LoadR7

/-- `' '.join(names)` -/
def joinSp : List Str → Str
  | [] => []
  | [n] => n
  | n :: m :: ns => n ++ 32 :: joinSp (m :: ns)

theorem dropWhile_all_append {f : Nat → Bool} (w r : Str) (hw : ∀ c ∈ w, f c = true) :
    (w ++ r).dropWhile f = r.dropWhile f := by
  induction w with
  | nil => rfl
  | cons a w ih =>
    rw [List.cons_append, List.dropWhile_cons_of_pos (hw a (by simp))]
    exact ih (fun c hc => hw c (List.mem_cons_of_mem _ hc))

theorem dropWhile_none {f : Nat → Bool} (l : Str) (h : ∀ c ∈ l, f c = false) : l.dropWhile f = l := by
  cases l with
  | nil => rfl
  | cons a t => exact List.dropWhile_cons_of_neg (by simp [h a (by simp)])

/-- characters to strip (`w1`, `w2`) around a core whose first and last characters stay -/
theorem stripBy_core {f : Nat → Bool} (w1 w2 core t i : Str) (a z : Nat)
    (hw1 : ∀ c ∈ w1, f c = true) (hw2 : ∀ c ∈ w2, f c = true)
    (h1 : core = a :: t) (h2 : core = i ++ [z]) (ha : f a = false) (hz : f z = false) :
    stripBy f (w1 ++ core ++ w2) = core := by
  unfold stripBy
  rw [List.append_assoc, dropWhile_all_append _ _ hw1]
  have e1 : (core ++ w2).dropWhile f = core ++ w2 := by
    rw [h1, List.cons_append]; exact List.dropWhile_cons_of_neg (by simp [ha])
  rw [e1, List.reverse_append,
    dropWhile_all_append _ _ (by intro c hc; exact hw2 c (List.mem_reverse.1 hc))]
  have e2 : core.reverse.dropWhile f = core.reverse := by
    rw [h2, List.reverse_append]
    exact List.dropWhile_cons_of_neg (by simp [hz])
  rw [e2, List.reverse_reverse]

theorem stripBy_none {f : Nat → Bool} (l : Str) (h : ∀ c ∈ l, f c = false) : stripBy f l = l := by
  unfold stripBy
  rw [dropWhile_none l h, dropWhile_none l.reverse (fun c hc => h c (List.mem_reverse.1 hc)),
    List.reverse_reverse]

theorem splitWsGo_name (n cur rest : Str) (hn : ∀ c ∈ n, isSpace c = false) :
    splitWsGo cur (n ++ rest) = splitWsGo (n.reverse ++ cur) rest := by
  induction n generalizing cur with
  | nil => rfl
  | cons c n ih =>
    have hc := hn c (by simp)
    rw [List.cons_append]
    conv_lhs => unfold splitWsGo
    simp only [hc, Bool.false_eq_true, if_false]
    rw [ih (c :: cur) (fun x hx => hn x (List.mem_cons_of_mem _ hx))]
    simp

theorem splitWs_joinSp (names : List Str) (h : ∀ n ∈ names, n ≠ [] ∧ ∀ c ∈ n, isSpace c = false) :
    splitWs (joinSp names) = names := by
  unfold splitWs
  induction names with
  | nil => rfl
  | cons n ns ih =>
    have hn := h n (by simp)
    have hrev : n.reverse.isEmpty = false := by
      cases n with
      | nil => exact absurd rfl hn.1
      | cons a t => simp
    cases ns with
    | nil =>
      have : joinSp [n] = n ++ [] := by simp [joinSp]
      rw [this, splitWsGo_name n [] [] hn.2]
      simp [splitWsGo, hrev]
    | cons m ms =>
      have : joinSp (n :: m :: ms) = n ++ 32 :: joinSp (m :: ms) := rfl
      rw [this, splitWsGo_name n [] _ hn.2]
      have h32 : isSpace 32 = true := by decide
      conv_lhs => unfold splitWsGo
      simp only [h32, if_true, List.append_nil, hrev, Bool.false_eq_true, if_false, List.reverse_reverse]
      rw [ih (fun x hx => h x (List.mem_cons_of_mem _ hx))]

/-- first and last character of `' '.join(names)` are characters of names -/
theorem joinSp_ends (names : List Str) (hne : names ≠ []) (P : Nat → Prop)
    (h : ∀ n ∈ names, n ≠ [] ∧ ∀ c ∈ n, P c) :
    ∃ b bt bi z, joinSp names = b :: bt ∧ joinSp names = bi ++ [z] ∧ P b ∧ P z := by
  induction names with
  | nil => exact absurd rfl hne
  | cons n ns ih =>
    have hn := h n (by simp)
    obtain ⟨b, t, rfl⟩ := List.exists_cons_of_ne_nil hn.1
    cases ns with
    | nil =>
      refine ⟨b, t, (b :: t).dropLast, (b :: t).getLast (by simp), rfl, ?_, hn.2 b (by simp), ?_⟩
      · simp only [joinSp]; exact (List.dropLast_append_getLast (by simp)).symm
      · exact hn.2 _ (List.getLast_mem _)
    | cons m ms =>
      obtain ⟨_, _, bi, z, _, h2, _, hz⟩ := ih (by simp) (fun x hx => h x (List.mem_cons_of_mem _ hx))
      refine ⟨b, t ++ 32 :: joinSp (m :: ms), (b :: t) ++ 32 :: bi, z, rfl, ?_, hn.2 b (by simp), hz⟩
      show (b :: t) ++ 32 :: joinSp (m :: ms) = _
      rw [h2]; simp

/-- the three strips of `_extract_column_names` on `lead comment mid body tail`
    (`lead`, `mid`, `tail` whitespace; the body starts and ends with a character that is neither
    whitespace nor a comment character) leave the body -/
theorem header_body (comment lead mid body tail ct bt bi : Str) (a b z : Nat)
    (hc : comment = a :: ct) (hcs : ∀ c ∈ comment, isSpace c = false)
    (hlead : ∀ c ∈ lead, isSpace c = true) (hmid : ∀ c ∈ mid, isSpace c = true)
    (htail : ∀ c ∈ tail, isSpace c = true)
    (hb : body = b :: bt) (hz : body = bi ++ [z]) (hbs : isSpace b = false) (hzs : isSpace z = false)
    (hbc : comment.contains b = false) (hzc : comment.contains z = false) :
    stripBy isSpace (lead ++ comment ++ mid ++ body ++ tail) = comment ++ mid ++ body ∧
    stripBy isSpace (stripBy (fun c => comment.contains c) (comment ++ mid ++ body)) = body := by
  have hmidc : ∀ c ∈ mid, comment.contains c = false := by
    intro c hcm
    by_contra hcon
    have hin : c ∈ comment := by simpa using hcon
    have := hcs c hin
    rw [hmid c hcm] at this
    cases this
  constructor
  · have := stripBy_core (f := isSpace) lead tail (comment ++ mid ++ body) (ct ++ mid ++ body)
      (comment ++ mid ++ bi) a z hlead htail (by rw [hc]; simp) (by rw [hz]; simp)
      (hcs a (by rw [hc]; simp)) hzs
    simpa [List.append_assoc] using this
  · have h2 : stripBy (fun c => comment.contains c) (comment ++ mid ++ body) = mid ++ body := by
      cases mid with
      | nil =>
        have := stripBy_core (f := fun c => comment.contains c) comment [] body bt bi b z
          (by intro c hcc; simpa using hcc) (by simp) hb hz hbc hzc
        simpa using this
      | cons m0 mt =>
        have := stripBy_core (f := fun c => comment.contains c) comment [] (m0 :: mt ++ body) (mt ++ body)
          (m0 :: mt ++ bi) m0 z (by intro c hcc; simpa using hcc) (by simp) (by simp) (by rw [hz]; simp)
          (hmidc m0 (by simp)) hzc
        simpa using this
    rw [h2]
    have := stripBy_core (f := isSpace) mid [] body bt bi b z hmid (by simp) hb hz hbs hzs
    simpa using this

theorem usecolsGo_names (keep : List Str) (i : Nat) (cols : List Str) :
    (usecolsGo keep i cols).map Prod.snd = cols.filter (fun n => keep.contains n) := by
  induction cols generalizing i with
  | nil => rfl
  | cons n ns ih =>
    unfold usecolsGo
    by_cases h : n ∈ keep
    · simp [h, ih]
    · simp [h, ih]

theorem usecolsGo_index (keep : List Str) (i : Nat) (cols : List Str) (j : Nat) (n : Str)
    (h : (j, n) ∈ usecolsGo keep i cols) : i ≤ j ∧ cols[j - i]? = some n ∧ keep.contains n = true := by
  induction cols generalizing i with
  | nil => simp [usecolsGo] at h
  | cons m ms ih =>
    unfold usecolsGo at h
    split_ifs at h with hk
    · rcases List.mem_cons.1 h with he | ht
      · cases he; exact ⟨le_refl _, by simp, hk⟩
      · obtain ⟨h1, h2, h3⟩ := ih (i + 1) ht
        refine ⟨by omega, ?_, h3⟩
        have : j - i = (j - (i + 1)) + 1 := by omega
        rw [this]; simpa using h2
    · obtain ⟨h1, h2, h3⟩ := ih (i + 1) h
      refine ⟨by omega, ?_, h3⟩
      have : j - i = (j - (i + 1)) + 1 := by omega
      rw [this]; simpa using h2

/-! ### `str.split(sep)` for a one-character separator -/

/-- `chr(s).join(names)` -/
def joinBy (s : Nat) : List Str → Str
  | [] => []
  | [n] => n
  | n :: m :: ns => n ++ s :: joinBy s (m :: ns)

theorem splitSepGo_name (s : Nat) (n cur rest : Str) (f : Nat) (hn : ∀ c ∈ n, c ≠ s) :
    splitSepGo [s] (n.length + f) cur (n ++ rest) = splitSepGo [s] f (n.reverse ++ cur) rest := by
  induction n generalizing cur with
  | nil => simp
  | cons c n ih =>
    have hc : c ≠ s := hn c (by simp)
    have hf : (c :: n).length + f = (n.length + f) + 1 := by simp; omega
    rw [hf, List.cons_append]
    conv_lhs => unfold splitSepGo
    have hp : [s].isPrefixOf (c :: (n ++ rest)) = false := by
      simp [List.isPrefixOf, Ne.symm hc]
    simp only [hp, Bool.false_eq_true, if_false]
    rw [ih (c :: cur) (fun x hx => hn x (List.mem_cons_of_mem _ hx))]
    simp

theorem splitSepGo_end (s : Nat) (cur : Str) (f : Nat) : splitSepGo [s] f cur [] = [cur.reverse] := by
  cases f <;> simp [splitSepGo]

theorem splitSep_joinBy (s : Nat) (names : List Str) (hne : names ≠ []) (h : ∀ n ∈ names, ∀ c ∈ n, c ≠ s) :
    ∀ f, (joinBy s names).length + 1 ≤ f → splitSepGo [s] f [] (joinBy s names) = names := by
  induction names with
  | nil => exact absurd rfl hne
  | cons n ns ih =>
    intro f hf
    have hn := h n (by simp)
    cases ns with
    | nil =>
      have e : joinBy s [n] = n ++ [] := by simp [joinBy]
      rw [e] at hf ⊢
      obtain ⟨f', rfl⟩ := Nat.exists_eq_add_of_le (show n.length ≤ f by simp at hf; omega)
      rw [splitSepGo_name s n [] [] f' hn, splitSepGo_end]
      simp
    | cons m ms =>
      have e : joinBy s (n :: m :: ms) = n ++ s :: joinBy s (m :: ms) := rfl
      rw [e] at hf ⊢
      simp only [List.length_append, List.length_cons] at hf
      obtain ⟨f', rfl⟩ := Nat.exists_eq_add_of_le (show n.length ≤ f by omega)
      rw [splitSepGo_name s n [] _ f' hn]
      obtain ⟨f'', rfl⟩ := Nat.exists_eq_add_of_le (show 1 ≤ f' by omega)
      have hf2 : 1 + f'' = f'' + 1 := by omega
      rw [hf2]
      conv_lhs => unfold splitSepGo
      have hp : [s].isPrefixOf (s :: joinBy s (m :: ms)) = true := by simp [List.isPrefixOf]
      simp only [hp, if_true, List.append_nil, List.reverse_reverse, List.length_singleton, List.drop_succ_cons, List.drop_zero]
      rw [ih (by simp) (fun x hx => h x (List.mem_cons_of_mem _ hx)) f'' (by omega)]

theorem joinBy_ends (s : Nat) (names : List Str) (hne : names ≠ []) (P : Nat → Prop)
    (h : ∀ n ∈ names, n ≠ [] ∧ ∀ c ∈ n, P c) :
    ∃ b bt bi z, joinBy s names = b :: bt ∧ joinBy s names = bi ++ [z] ∧ P b ∧ P z := by
  induction names with
  | nil => exact absurd rfl hne
  | cons n ns ih =>
    have hn := h n (by simp)
    obtain ⟨b, t, rfl⟩ := List.exists_cons_of_ne_nil hn.1
    cases ns with
    | nil =>
      refine ⟨b, t, (b :: t).dropLast, (b :: t).getLast (by simp), rfl, ?_, hn.2 b (by simp), ?_⟩
      · simp only [joinBy]; exact (List.dropLast_append_getLast (by simp)).symm
      · exact hn.2 _ (List.getLast_mem _)
    | cons m ms =>
      obtain ⟨_, _, bi, z, _, h2, _, hz⟩ := ih (by simp) (fun x hx => h x (List.mem_cons_of_mem _ hx))
      refine ⟨b, t ++ s :: joinBy s (m :: ms), (b :: t) ++ s :: bi, z, rfl, ?_, hn.2 b (by simp), hz⟩
      show (b :: t) ++ s :: joinBy s (m :: ms) = _
      rw [h2]; simp

end LoadR7
