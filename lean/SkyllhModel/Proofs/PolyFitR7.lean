/-
  Helper lemmas for the round-7 theorems of C12 about `Model/PolyFitR7.lean`: the solution of the normal
  equations minimises the weighted sum of squared residuals (over ℝ).
-/
import SkyllhModel.Model.PolyFitR7
import SkyllhModel.Proofs.Stat
import SkyllhModel.Proofs.RealScalar
import Mathlib.Tactic

open Stat

namespace C12

/-- `Σ (w·(y − P(x)))²`: what `np.polyfit(x, y, deg, w=w)` minimises over the polynomials `P` of degree `deg` -/
noncomputable def wcost (P : ℝ → ℝ) (pts : List (ℝ × ℝ × ℝ)) : ℝ :=
  pfSum (fun p => (p.2.2 * (p.2.1 - P p.1)) * (p.2.2 * (p.2.1 - P p.1))) pts

theorem pfSum_nonneg (f : ℝ × ℝ × ℝ → ℝ) (h : ∀ p, 0 ≤ f p) (pts : List (ℝ × ℝ × ℝ)) : 0 ≤ pfSum f pts := by
  induction pts with
  | nil => simp [pfSum, sumF]
  | cons p t ih =>
    simp only [pfSum, List.map_cons, sumF] at ih ⊢
    exact add_nonneg (h p) ih

theorem wcost_nonneg (P : ℝ → ℝ) (pts : List (ℝ × ℝ × ℝ)) : 0 ≤ wcost P pts :=
  pfSum_nonneg _ (fun _ => mul_self_nonneg _) pts

/-- Pythagoras for the weighted residuals -/
theorem wcost_expand (P Q : ℝ → ℝ) (pts : List (ℝ × ℝ × ℝ)) :
    wcost Q pts = wcost P pts
      + 2 * pfSum (fun p => p.2.2 * p.2.2 * (p.2.1 - P p.1) * (P p.1 - Q p.1)) pts
      + pfSum (fun p => (p.2.2 * (P p.1 - Q p.1)) * (p.2.2 * (P p.1 - Q p.1))) pts := by
  induction pts with
  | nil => simp [wcost, pfSum, sumF]
  | cons p t ih =>
    simp only [wcost, pfSum, List.map_cons, sumF] at ih ⊢
    linear_combination ih

/-- a curve whose weighted residuals are orthogonal to its difference from any competitor is optimal -/
theorem wcost_le_of_orth (P Q : ℝ → ℝ) (pts : List (ℝ × ℝ × ℝ))
    (h : pfSum (fun p => p.2.2 * p.2.2 * (p.2.1 - P p.1) * (P p.1 - Q p.1)) pts = 0) :
    wcost P pts ≤ wcost Q pts := by
  rw [wcost_expand P Q pts, h]
  have := pfSum_nonneg (fun p => (p.2.2 * (P p.1 - Q p.1)) * (p.2.2 * (P p.1 - Q p.1)))
    (fun _ => mul_self_nonneg _) pts
  linarith

/-- the cross term of two straight lines in terms of the moments -/
theorem cross1 (a b a' b' : ℝ) (pts : List (ℝ × ℝ × ℝ)) :
    pfSum (fun p => p.2.2 * p.2.2 * (p.2.1 - (a * p.1 + b)) * ((a * p.1 + b) - (a' * p.1 + b'))) pts
      = (a - a') * ((momT pts).2.1 - a * (momS pts).2.2.1 - b * (momS pts).2.1)
        + (b - b') * ((momT pts).1 - a * (momS pts).2.1 - b * (momS pts).1) := by
  induction pts with
  | nil => simp [momS, momT, pfSum, sumF]
  | cons p t ih =>
    simp only [momS, momT, pfSum, List.map_cons, sumF] at ih ⊢
    linear_combination ih

/-- the cross term of two parabolas in terms of the moments -/
theorem cross2 (a b c a' b' c' : ℝ) (pts : List (ℝ × ℝ × ℝ)) :
    pfSum (fun p => p.2.2 * p.2.2 * (p.2.1 - (a * (p.1 * p.1) + b * p.1 + c))
        * ((a * (p.1 * p.1) + b * p.1 + c) - (a' * (p.1 * p.1) + b' * p.1 + c'))) pts
      = (a - a') * ((momT pts).2.2 - a * (momS pts).2.2.2.2 - b * (momS pts).2.2.2.1 - c * (momS pts).2.2.1)
        + (b - b') * ((momT pts).2.1 - a * (momS pts).2.2.2.1 - b * (momS pts).2.2.1 - c * (momS pts).2.1)
        + (c - c') * ((momT pts).1 - a * (momS pts).2.2.1 - b * (momS pts).2.1 - c * (momS pts).1) := by
  induction pts with
  | nil => simp [momS, momT, pfSum, sumF]
  | cons p t ih =>
    simp only [momS, momT, pfSum, List.map_cons, sumF] at ih ⊢
    linear_combination ih

theorem polyIsZero_iff' (x : ℝ) : polyIsZero x = true ↔ x = 0 := by
  unfold polyIsZero
  simp only [Bool.and_eq_true, Bool.not_eq_true', decide_eq_false_iff_not, not_lt]
  constructor
  · rintro ⟨h1, h2⟩; exact le_antisymm h2 h1
  · rintro rfl; exact ⟨le_refl _, le_refl _⟩

theorem cramer2 (s0 s1 s2 t0 t1 a b : ℝ) (hd : det2 s2 s1 s1 s0 ≠ 0)
    (ha : det2 t1 s1 t0 s0 / det2 s2 s1 s1 s0 = a) (hb : det2 s2 t1 s1 t0 / det2 s2 s1 s1 s0 = b) :
    t1 - a * s2 - b * s1 = 0 ∧ t0 - a * s1 - b * s0 = 0 := by
  have ha' : a * det2 s2 s1 s1 s0 = det2 t1 s1 t0 s0 := by rw [← ha]; exact div_mul_cancel₀ _ hd
  have hb' : b * det2 s2 s1 s1 s0 = det2 s2 t1 s1 t0 := by rw [← hb]; exact div_mul_cancel₀ _ hd
  unfold det2 at *
  constructor
  · have : (t1 - a * s2 - b * s1) * (s2 * s0 - s1 * s1) = 0 := by
      linear_combination (-s2) * ha' + (-s1) * hb'
    exact (mul_eq_zero.mp this).resolve_right hd
  · have : (t0 - a * s1 - b * s0) * (s2 * s0 - s1 * s1) = 0 := by
      linear_combination (-s1) * ha' + (-s0) * hb'
    exact (mul_eq_zero.mp this).resolve_right hd

theorem cramer3 (s0 s1 s2 s3 s4 t0 t1 t2 a b c : ℝ) (hd : det3 s4 s3 s2 s3 s2 s1 s2 s1 s0 ≠ 0)
    (ha : det3 t2 s3 s2 t1 s2 s1 t0 s1 s0 / det3 s4 s3 s2 s3 s2 s1 s2 s1 s0 = a)
    (hb : det3 s4 t2 s2 s3 t1 s1 s2 t0 s0 / det3 s4 s3 s2 s3 s2 s1 s2 s1 s0 = b)
    (hc : det3 s4 s3 t2 s3 s2 t1 s2 s1 t0 / det3 s4 s3 s2 s3 s2 s1 s2 s1 s0 = c) :
    t2 - a * s4 - b * s3 - c * s2 = 0 ∧ t1 - a * s3 - b * s2 - c * s1 = 0 ∧ t0 - a * s2 - b * s1 - c * s0 = 0 := by
  have ha' : a * det3 s4 s3 s2 s3 s2 s1 s2 s1 s0 = det3 t2 s3 s2 t1 s2 s1 t0 s1 s0 := by
    rw [← ha]; exact div_mul_cancel₀ _ hd
  have hb' : b * det3 s4 s3 s2 s3 s2 s1 s2 s1 s0 = det3 s4 t2 s2 s3 t1 s1 s2 t0 s0 := by
    rw [← hb]; exact div_mul_cancel₀ _ hd
  have hc' : c * det3 s4 s3 s2 s3 s2 s1 s2 s1 s0 = det3 s4 s3 t2 s3 s2 t1 s2 s1 t0 := by
    rw [← hc]; exact div_mul_cancel₀ _ hd
  unfold det3 at *
  refine ⟨?_, ?_, ?_⟩
  · have : (t2 - a * s4 - b * s3 - c * s2)
        * (s4 * (s2 * s0 - s1 * s1) - s3 * (s3 * s0 - s1 * s2) + s2 * (s3 * s1 - s2 * s2)) = 0 := by
      linear_combination (-s4) * ha' + (-s3) * hb' + (-s2) * hc'
    exact (mul_eq_zero.mp this).resolve_right hd
  · have : (t1 - a * s3 - b * s2 - c * s1)
        * (s4 * (s2 * s0 - s1 * s1) - s3 * (s3 * s0 - s1 * s2) + s2 * (s3 * s1 - s2 * s2)) = 0 := by
      linear_combination (-s3) * ha' + (-s2) * hb' + (-s1) * hc'
    exact (mul_eq_zero.mp this).resolve_right hd
  · have : (t0 - a * s2 - b * s1 - c * s0)
        * (s4 * (s2 * s0 - s1 * s1) - s3 * (s3 * s0 - s1 * s2) + s2 * (s3 * s1 - s2 * s2)) = 0 := by
      linear_combination (-s2) * ha' + (-s1) * hb' + (-s0) * hc'
    exact (mul_eq_zero.mp this).resolve_right hd

/-- what `lsq1` returns solves the two normal equations -/
theorem lsq1_normal {pts : List (ℝ × ℝ × ℝ)} {a b : ℝ} (h : lsq1 pts = .ok [a, b]) :
    (momT pts).2.1 - a * (momS pts).2.2.1 - b * (momS pts).2.1 = 0 ∧
    (momT pts).1 - a * (momS pts).2.1 - b * (momS pts).1 = 0 := by
  unfold lsq1 at h
  generalize momS pts = S at h ⊢
  generalize momT pts = T at h ⊢
  obtain ⟨s0, s1, s2, s3, s4⟩ := S
  obtain ⟨t0, t1, t2⟩ := T
  simp only at h
  split_ifs at h with hz
  have hd : det2 s2 s1 s1 s0 ≠ 0 := fun hc => hz ((polyIsZero_iff' _).mpr hc)
  injection h with h
  simp only [List.cons.injEq, and_true] at h
  exact cramer2 s0 s1 s2 t0 t1 a b hd h.1 h.2

/-- what `lsq2` returns solves the three normal equations -/
theorem lsq2_normal {pts : List (ℝ × ℝ × ℝ)} {a b c : ℝ} (h : lsq2 pts = .ok [a, b, c]) :
    (momT pts).2.2 - a * (momS pts).2.2.2.2 - b * (momS pts).2.2.2.1 - c * (momS pts).2.2.1 = 0 ∧
    (momT pts).2.1 - a * (momS pts).2.2.2.1 - b * (momS pts).2.2.1 - c * (momS pts).2.1 = 0 ∧
    (momT pts).1 - a * (momS pts).2.2.1 - b * (momS pts).2.1 - c * (momS pts).1 = 0 := by
  unfold lsq2 at h
  generalize momS pts = S at h ⊢
  generalize momT pts = T at h ⊢
  obtain ⟨s0, s1, s2, s3, s4⟩ := S
  obtain ⟨t0, t1, t2⟩ := T
  simp only at h
  split_ifs at h with hz
  have hd : det3 s4 s3 s2 s3 s2 s1 s2 s1 s0 ≠ 0 := fun hc => hz ((polyIsZero_iff' _).mpr hc)
  injection h with h
  simp only [List.cons.injEq, and_true] at h
  exact cramer3 s0 s1 s2 s3 s4 t0 t1 t2 a b c hd h.1 h.2.1 h.2.2

/-- a successful `lsq1` / `lsq2` returns exactly 2 / 3 coefficients -/
theorem lsq1_length {pts : List (ℝ × ℝ × ℝ)} {c : List ℝ} (h : lsq1 pts = .ok c) : ∃ a b, c = [a, b] := by
  unfold lsq1 at h
  simp only at h
  split_ifs at h
  injection h with h
  exact ⟨_, _, h.symm⟩

theorem lsq2_length {pts : List (ℝ × ℝ × ℝ)} {c : List ℝ} (h : lsq2 pts = .ok c) : ∃ a b d, c = [a, b, d] := by
  unfold lsq2 at h
  simp only at h
  split_ifs at h
  injection h with h
  exact ⟨_, _, _, h.symm⟩

/-- the straight line found by `lsq1` has the least weighted cost among all straight lines -/
theorem lsq1_min {pts : List (ℝ × ℝ × ℝ)} {a b : ℝ} (h : lsq1 pts = .ok [a, b]) (a' b' : ℝ) :
    wcost (fun x => a * x + b) pts ≤ wcost (fun x => a' * x + b') pts := by
  apply wcost_le_of_orth
  obtain ⟨h1, h2⟩ := lsq1_normal h
  rw [cross1 a b a' b' pts, h1, h2]; ring

/-- the parabola found by `lsq2` has the least weighted cost among all polynomials of degree ≤ 2 -/
theorem lsq2_min {pts : List (ℝ × ℝ × ℝ)} {a b c : ℝ} (h : lsq2 pts = .ok [a, b, c]) (a' b' c' : ℝ) :
    wcost (fun x => a * (x * x) + b * x + c) pts ≤ wcost (fun x => a' * (x * x) + b' * x + c') pts := by
  apply wcost_le_of_orth
  obtain ⟨h1, h2, h3⟩ := lsq2_normal h
  rw [cross2 a b c a' b' c' pts, h1, h2, h3]; ring

end C12
