/-
  Helper lemmas for property C08 (Model/Rng.lean): option lists, fancy-index scatter,
  prefix sums and the inverse-CDF look-up, the fuel-bounded unused-seed search.
-/
import SkyllhModel.Model.Rng
import Mathlib.Tactic
import Mathlib.Data.List.Perm.Subperm
import Mathlib.Data.List.Range

open Rng

set_option linter.unusedSectionVars false

namespace C08

/-! ### option lists -/

theorem allSome_map_some {α : Type} (l : List α) : allSome (l.map some) = some l := by
  induction l with
  | nil => rfl
  | cons a l ih => simp [allSome, ih]

theorem allSome_eq_some {α : Type} (l : List (Option α)) (r : List α) :
    allSome l = some r ↔ l = r.map some := by
  induction l generalizing r with
  | nil =>
    cases r <;> simp [allSome]
  | cons o l ih =>
    cases o with
    | none => cases r <;> simp [allSome]
    | some a =>
      cases r with
      | nil => simp [allSome]
      | cons b r =>
        simp only [allSome, Option.map_eq_some_iff, List.map_cons, List.cons.injEq, Option.some.injEq]
        constructor
        · rintro ⟨r', hr', h1, h2⟩
          subst h1 h2
          exact ⟨rfl, (ih r').mp hr'⟩
        · rintro ⟨rfl, h⟩
          exact ⟨r, (ih r).mpr h, rfl, rfl⟩

theorem allSome_eq_none {α : Type} (l : List (Option α)) (h : allSome l = none) : none ∈ l := by
  induction l with
  | nil => simp [allSome] at h
  | cons o l ih =>
    cases o with
    | none => simp
    | some a =>
      simp only [allSome, Option.map_eq_none_iff] at h
      exact List.mem_cons_of_mem _ (ih h)

theorem allSome_length {α : Type} (l : List (Option α)) (r : List α) (h : allSome l = some r) :
    r.length = l.length := by
  rw [(allSome_eq_some l r).mp h]; simp

/-! ### scatter = fancy-index assignment -/

theorem scatter_length {α : Type} (arr : List (Option α)) (is : List Nat) (vs : List α) :
    (scatter arr is vs).length = arr.length := by
  induction is generalizing arr vs with
  | nil => simp [scatter]
  | cons i is ih =>
    cases vs with
    | nil => simp [scatter]
    | cons v vs => simp [scatter, ih]

theorem scatter_not_mem {α : Type} (arr : List (Option α)) (is : List Nat) (vs : List α) (j : Nat)
    (h : j ∉ is) : (scatter arr is vs)[j]? = arr[j]? := by
  induction is generalizing arr vs with
  | nil => simp [scatter]
  | cons i is ih =>
    cases vs with
    | nil => simp [scatter]
    | cons v vs =>
      simp only [List.mem_cons, not_or] at h
      simp only [scatter]
      rw [ih _ _ h.2, List.getElem?_set_ne (Ne.symm h.1)]

theorem scatter_get {α : Type} (arr : List (Option α)) (is : List Nat) (vs : List α)
    (hnd : is.Nodup) (k i : Nat) (v : α) (hi : is[k]? = some i) (hv : vs[k]? = some v)
    (hb : i < arr.length) : (scatter arr is vs)[i]? = some (some v) := by
  induction is generalizing arr vs k with
  | nil => simp at hi
  | cons i0 is ih =>
    cases vs with
    | nil => simp at hv
    | cons v0 vs =>
      simp only [scatter]
      rw [List.nodup_cons] at hnd
      cases k with
      | zero =>
        simp only [List.getElem?_cons_zero, Option.some.injEq] at hi hv
        subst hi hv
        rw [scatter_not_mem _ _ _ _ hnd.1]
        simp [hb]
      | succ k =>
        simp only [List.getElem?_cons_succ] at hi hv
        exact ih _ _ hnd.2 k hi hv (by simpa using hb)

/-! ### prefix sums and the inverse-CDF look-up (ordered field) -/

section field
variable {K : Type} [Field K] [LinearOrder K] [IsStrictOrderedRing K]

theorem cumsum_eq_cumFrom (ps : List K) : cumsum ps = cumFrom 0 ps := by
  cases ps with
  | nil => rfl
  | cons p ps => simp [cumsum, cumFrom]

theorem cumFrom_length (acc : K) (ps : List K) : (cumFrom acc ps).length = ps.length := by
  induction ps generalizing acc with
  | nil => rfl
  | cons p ps ih => simp [cumFrom, ih]

theorem cumFrom_getLast? (acc : K) (ps : List K) (h : ps ≠ []) :
    (cumFrom acc ps).getLast? = some (acc + ps.sum) := by
  induction ps generalizing acc with
  | nil => exact absurd rfl h
  | cons p ps ih =>
    cases ps with
    | nil => simp [cumFrom]
    | cons q qs =>
      have := ih (acc + p) (by simp)
      simp only [cumFrom, List.getLast?_cons_cons, List.sum_cons] at this ⊢
      rw [this]; congr 1; ring

theorem cumFrom_ge (acc : K) (ps : List K) (hp : ∀ p ∈ ps, 0 ≤ p) : ∀ c ∈ cumFrom acc ps, acc ≤ c := by
  induction ps generalizing acc with
  | nil => simp [cumFrom]
  | cons p ps ih =>
    intro c hc
    simp only [cumFrom, List.mem_cons] at hc
    have h0 : 0 ≤ p := hp p (by simp)
    rcases hc with rfl | hc
    · linarith
    · have := ih (acc + p) (fun q hq => hp q (List.mem_cons_of_mem _ hq)) c hc
      linarith

/-- the look-up of `u` in the normalised prefix sums, started at accumulator `acc`:
it stops at an entry of positive weight whose prefix-sum bracket contains `u·T`. -/
theorem pick_spec (T u : K) (hT : 0 < T) (ps : List K) (acc : K) (hp : ∀ p ∈ ps, 0 ≤ p)
    (h0 : acc ≤ u * T) (h1 : u * T < acc + ps.sum) :
    ∃ p, ps[(cumFrom acc ps).countP (fun c => decide (c / T ≤ u))]? = some p ∧ 0 < p ∧
      acc + (ps.take ((cumFrom acc ps).countP (fun c => decide (c / T ≤ u)))).sum ≤ u * T ∧
      u * T < acc + (ps.take ((cumFrom acc ps).countP (fun c => decide (c / T ≤ u)) + 1)).sum := by
  induction ps generalizing acc with
  | nil => simp at h1; linarith
  | cons p ps ih =>
    have hp' : ∀ q ∈ ps, 0 ≤ q := fun q hq => hp q (List.mem_cons_of_mem _ hq)
    simp only [cumFrom, List.countP_cons, decide_eq_true_eq]
    by_cases hc : (acc + p) / T ≤ u
    · have hc' : acc + p ≤ u * T := (div_le_iff₀ hT).mp hc
      obtain ⟨q, hq, hq0, hlo, hhi⟩ := ih (acc + p) hp' hc' (by simpa [add_assoc] using h1)
      refine ⟨q, ?_, hq0, ?_, ?_⟩
      · simpa [hc] using hq
      · simpa [hc, add_assoc] using hlo
      · simpa [hc, add_assoc] using hhi
    · have hc' : u * T < acc + p := by
        by_contra hcon
        exact hc ((div_le_iff₀ hT).mpr (not_lt.mp hcon))
      have hz : (cumFrom (acc + p) ps).countP (fun c => decide (c / T ≤ u)) = 0 := by
        rw [List.countP_eq_zero]
        intro c hcm
        have := cumFrom_ge (acc + p) ps hp' c hcm
        simp only [decide_eq_true_eq, not_le]
        rw [lt_div_iff₀ hT]; linarith
      refine ⟨p, ?_, ?_, ?_, ?_⟩
      · simp [hc, hz]
      · linarith
      · simp [hc, hz]; exact h0
      · simp [hc, hz]; exact hc'

end field

/-! ### unused-seed search -/

theorem firstUnused_spec (used : List Nat) (fuel i : Nat)
    (h : ∃ j, i ≤ j ∧ j < i + fuel ∧ j ∉ used) :
    firstUnused used fuel i ∉ used ∧ i ≤ firstUnused used fuel i ∧
      ∀ k, i ≤ k → k < firstUnused used fuel i → k ∈ used := by
  induction fuel generalizing i with
  | zero => obtain ⟨j, h1, h2, _⟩ := h; omega
  | succ fuel ih =>
    unfold firstUnused
    by_cases hi : i ∈ used
    · rw [if_pos hi]
      obtain ⟨j, h1, h2, h3⟩ := h
      have hne : j ≠ i := fun e => h3 (e ▸ hi)
      obtain ⟨a, b, c⟩ := ih (i + 1) ⟨j, by omega, by omega, h3⟩
      refine ⟨a, by omega, ?_⟩
      intro k hk1 hk2
      by_cases hki : k = i
      · exact hki ▸ hi
      · exact c k (by omega) hk2
    · rw [if_neg hi]
      exact ⟨hi, le_refl _, fun k h1 h2 => by omega⟩

/-- pigeonhole: among `start, …, start + used.length` one value does not occur in `used` -/
theorem exists_unused (used : List Nat) (start : Nat) :
    ∃ j, start ≤ j ∧ j < start + (used.length + 1) ∧ j ∉ used := by
  by_contra hcon
  push Not at hcon
  have hsub : List.range' start (used.length + 1) ⊆ used := by
    intro j hj
    rw [List.mem_range'_1] at hj
    exact hcon j hj.1 hj.2
  have := (List.subperm_of_subset (List.nodup_range' (s := start) (n := used.length + 1)) hsub).length_le
  simp at this

end C08
