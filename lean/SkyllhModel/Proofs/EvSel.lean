/-
  Helper lemmas for property C05 (index layer of the event selection), about
  `SkyllhModel/Model/EvSel.lean`.
-/
import SkyllhModel.Model.EvSel
import Mathlib.Tactic

namespace C05
open EvSel

/-- strict lexicographic order on (source index, event index) -/
def lexLt (a b : Nat × Nat) : Prop := a.1 < b.1 ∨ (a.1 = b.1 ∧ a.2 < b.2)

instance : DecidableRel lexLt := fun a b => by unfold lexLt; infer_instance

/-- the bit of a row at column `i` (`false` outside the row) -/
def bitAt (row : List Bool) (i : Nat) : Bool := row[i]? == some true

/-- `M[k][i]` is `True` -/
def Entry (M : List (List Bool)) (k i : Nat) : Prop := ∃ row, M[k]? = some row ∧ row[i]? = some true

/-- every row has `n` columns -/
def WF (n : Nat) (M : List (List Bool)) : Prop := ∀ row ∈ M, row.length = n

/-! ### compress -/

theorem compress_map_map {α β : Type} (p : α → Bool) (f : α → β) (xs : List α) :
    compress (xs.map p) (xs.map f) = (xs.filter p).map f := by
  induction xs with
  | nil => rfl
  | cons x xs ih =>
    simp only [List.map_cons, compress, List.filter_cons]
    split <;> simp [ih]

theorem compress_map {α : Type} (p : α → Bool) (xs : List α) :
    compress (xs.map p) xs = xs.filter p := by
  simpa using compress_map_map p id xs

theorem zipWith_map_same {α β γ δ : Type} (f : β → γ → δ) (g : α → β) (h : α → γ) (l : List α) :
    List.zipWith f (l.map g) (l.map h) = l.map (fun x => f (g x) (h x)) := by
  induction l <;> simp_all

theorem row_eq_map (row : List Bool) : row = (List.range row.length).map (bitAt row) := by
  apply List.ext_getElem
  · simp
  · intro i h1 h2
    simp only [List.getElem_map, List.getElem_range, bitAt, List.getElem?_eq_getElem h1]
    cases row[i] <;> simp

theorem anyAxis0_eq (n : Nat) (M : List (List Bool)) (h : WF n M) :
    anyAxis0 n M = (List.range n).map (fun i => M.any (fun row => bitAt row i)) := by
  induction M with
  | nil => simp [anyAxis0, List.map_const']
  | cons row rest ih =>
    have hrow : row.length = n := h row (by simp)
    have hrest : WF n rest := fun r hr => h r (by simp [hr])
    rw [anyAxis0, ih hrest]
    conv_lhs => rw [row_eq_map row, hrow]
    rw [zipWith_map_same]
    simp

/-! ### take -/

theorem take_eq_some_iff {α : Type} (xs : List α) (is : List Nat) (ys : List α) :
    take xs is = some ys ↔ List.Forall₂ (fun i y => xs[i]? = some y) is ys := by
  induction is generalizing ys with
  | nil =>
    simp only [take, Option.some.injEq]
    constructor
    · rintro rfl; exact .nil
    · intro h; cases h; rfl
  | cons i is ih =>
    simp only [take]
    cases hx : xs[i]? with
    | none =>
      simp only [reduceCtorEq, false_iff]
      intro h
      cases h with
      | cons h1 _ => rw [hx] at h1; cases h1
    | some x =>
      cases ht : take xs is with
      | none =>
        simp only [reduceCtorEq, false_iff]
        intro h
        cases h with
        | cons _ h2 => have := (ih _).mpr h2; rw [ht] at this; cases this
      | some r =>
        simp only [Option.some.injEq]
        constructor
        · rintro rfl; exact .cons hx ((ih r).mp ht)
        · intro h
          cases h with
          | cons h1 h2 =>
            rw [hx] at h1
            cases h1
            have := (ih _).mpr h2
            rw [ht] at this
            cases this
            rfl

theorem take_length {α : Type} {xs : List α} {is : List Nat} {ys : List α} (h : take xs is = some ys) :
    ys.length = is.length :=
  ((take_eq_some_iff xs is ys).mp h).length_eq.symm

theorem take_getElem? {α : Type} {xs : List α} {is : List Nat} {ys : List α} (h : take xs is = some ys)
    (j : Nat) : ys[j]? = (is[j]?).bind (fun i => xs[i]?) := by
  have h2 := (take_eq_some_iff xs is ys).mp h
  induction h2 generalizing j with
  | nil => simp
  | cons h1 _ ih =>
    cases j with
    | zero => simp [h1]
    | succ j =>
      simp only [List.getElem?_cons_succ]
      exact ih ((take_eq_some_iff _ _ _).mpr ‹_›) j

theorem take_compress_range' {α : Type} (pre evs : List α) (mask : List Bool)
    (h : mask.length = evs.length) :
    take (pre ++ evs) (compress mask (List.range' pre.length evs.length)) = some (compress mask evs) := by
  induction evs generalizing pre mask with
  | nil =>
    cases mask <;> simp [compress, take]
  | cons x xs ih =>
    cases mask with
    | nil => simp at h
    | cons b bs =>
      have hb : bs.length = xs.length := by simpa using h
      have hpre : (pre ++ [x]).length = pre.length + 1 := by simp
      have ih' := ih (pre ++ [x]) bs hb
      rw [hpre, List.append_assoc, List.singleton_append] at ih'
      simp only [List.length_cons, List.range'_succ, compress]
      cases b with
      | false => simpa using ih'
      | true =>
        simp only [if_true, take]
        rw [ih']
        simp

theorem take_compress_range {α : Type} (evs : List α) (mask : List Bool) (h : mask.length = evs.length) :
    take evs (compress mask (List.range evs.length)) = some (compress mask evs) := by
  have := take_compress_range' [] evs mask h
  simpa [List.range_eq_range'] using this

/-! ### argwhere -/

theorem mem_argwhereRow (j0 j : Nat) (bs : List Bool) :
    j ∈ argwhereRow j0 bs ↔ j0 ≤ j ∧ bs[j - j0]? = some true := by
  induction bs generalizing j0 with
  | nil => simp [argwhereRow]
  | cons b bs ih =>
    simp only [argwhereRow]
    have step : ∀ (h : j0 + 1 ≤ j), (b :: bs)[j - j0]? = bs[j - (j0 + 1)]? := by
      intro h
      have : j - j0 = (j - (j0 + 1)) + 1 := by omega
      rw [this, List.getElem?_cons_succ]
    cases b with
    | true =>
      simp only [if_true, List.mem_cons, ih]
      constructor
      · rintro (rfl | ⟨h1, h2⟩)
        · simp
        · exact ⟨by omega, by rw [step h1]; exact h2⟩
      · rintro ⟨h1, h2⟩
        by_cases hj : j = j0
        · exact Or.inl hj
        · have h3 : j0 + 1 ≤ j := by omega
          exact Or.inr ⟨h3, by rw [← step h3]; exact h2⟩
    | false =>
      simp only [Bool.false_eq_true, if_false, ih]
      constructor
      · rintro ⟨h1, h2⟩
        exact ⟨by omega, by rw [step h1]; exact h2⟩
      · rintro ⟨h1, h2⟩
        by_cases hj : j = j0
        · subst hj; simp at h2
        · have h3 : j0 + 1 ≤ j := by omega
          exact ⟨h3, by rw [← step h3]; exact h2⟩

theorem argwhereRow_sorted (j0 : Nat) (bs : List Bool) : (argwhereRow j0 bs).Pairwise (· < ·) := by
  induction bs generalizing j0 with
  | nil => simp [argwhereRow]
  | cons b bs ih =>
    simp only [argwhereRow]
    cases b with
    | true =>
      simp only [if_true, List.pairwise_cons]
      refine ⟨?_, ih (j0 + 1)⟩
      intro j hj
      have := ((mem_argwhereRow (j0 + 1) j bs).mp hj).1
      omega
    | false => simpa using ih (j0 + 1)

theorem mem_argwhere2 (k0 k j : Nat) (Ms : List (List Bool)) :
    (k, j) ∈ argwhere2 k0 Ms ↔ k0 ≤ k ∧ ∃ row, Ms[k - k0]? = some row ∧ row[j]? = some true := by
  induction Ms generalizing k0 with
  | nil => simp [argwhere2]
  | cons row rest ih =>
    simp only [argwhere2, List.mem_append, List.mem_map, Prod.mk.injEq, ih]
    have step : ∀ (h : k0 + 1 ≤ k), (row :: rest)[k - k0]? = rest[k - (k0 + 1)]? := by
      intro h
      have : k - k0 = (k - (k0 + 1)) + 1 := by omega
      rw [this, List.getElem?_cons_succ]
    constructor
    · rintro (⟨j', hj', rfl, rfl⟩ | ⟨h1, r, h2, h3⟩)
      · refine ⟨le_refl _, row, by simp, ?_⟩
        simpa using ((mem_argwhereRow 0 j' row).mp hj').2
      · exact ⟨by omega, r, by rw [step h1]; exact h2, h3⟩
    · rintro ⟨h1, r, h2, h3⟩
      by_cases hk : k = k0
      · subst hk
        simp only [Nat.sub_self, List.getElem?_cons_zero, Option.some.injEq] at h2
        subst h2
        exact Or.inl ⟨j, (mem_argwhereRow 0 j row).mpr ⟨Nat.zero_le _, by simpa using h3⟩, rfl, rfl⟩
      · have h4 : k0 + 1 ≤ k := by omega
        exact Or.inr ⟨h4, r, by rw [← step h4]; exact h2, h3⟩

theorem argwhere2_sorted (k0 : Nat) (Ms : List (List Bool)) : (argwhere2 k0 Ms).Pairwise lexLt := by
  induction Ms generalizing k0 with
  | nil => simp [argwhere2]
  | cons row rest ih =>
    simp only [argwhere2]
    rw [List.pairwise_append]
    refine ⟨?_, ih (k0 + 1), ?_⟩
    · rw [List.pairwise_map]
      exact (argwhereRow_sorted 0 row).imp (fun h => Or.inr ⟨rfl, h⟩)
    · intro a ha b hb
      simp only [List.mem_map] at ha
      obtain ⟨j, _, rfl⟩ := ha
      obtain ⟨k, j'⟩ := b
      have := ((mem_argwhere2 (k0 + 1) k j' rest).mp hb).1
      exact Or.inl (by simp only; omega)

end C05
