/-
  The `Transc ℝ` instance used by every `Props/` file, with `rfl` unfolding lemmas.
-/
import SkyllhModel.Scalar
import Mathlib.Analysis.SpecialFunctions.Log.Basic
import Mathlib.Analysis.SpecialFunctions.Trigonometric.Inverse
import Mathlib.Analysis.SpecialFunctions.Sqrt

noncomputable instance instTranscReal : Transc ℝ where
  log := Real.log
  log1p := fun x => Real.log (1 + x)
  exp := Real.exp
  sqrt := Real.sqrt
  sin := Real.sin
  cos := Real.cos
  asin := Real.arcsin
  acos := Real.arccos
  pi := Real.pi
  ofN := fun n => (n : ℝ)
  ofI := fun n => (n : ℝ)

namespace TranscReal
@[simp] theorem log_def (x : ℝ) : Transc.log x = Real.log x := rfl
@[simp] theorem log1p_def (x : ℝ) : Transc.log1p x = Real.log (1 + x) := rfl
@[simp] theorem exp_def (x : ℝ) : Transc.exp x = Real.exp x := rfl
@[simp] theorem sqrt_def (x : ℝ) : Transc.sqrt x = Real.sqrt x := rfl
@[simp] theorem sin_def (x : ℝ) : Transc.sin x = Real.sin x := rfl
@[simp] theorem cos_def (x : ℝ) : Transc.cos x = Real.cos x := rfl
@[simp] theorem asin_def (x : ℝ) : Transc.asin x = Real.arcsin x := rfl
@[simp] theorem acos_def (x : ℝ) : Transc.acos x = Real.arccos x := rfl
@[simp] theorem pi_def : (Transc.pi : ℝ) = Real.pi := rfl
@[simp] theorem ofN_def (n : ℕ) : (Transc.ofN n : ℝ) = (n : ℝ) := rfl
@[simp] theorem ofI_def (n : ℤ) : (Transc.ofI n : ℝ) = (n : ℝ) := rfl
end TranscReal
