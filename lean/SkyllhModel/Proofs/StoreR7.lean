/-
  Proofs/StoreR7.lean — helper lemmas for the round-7 theorems of C16 (constructor with options, `Model/StoreR7.lean`).
-/
import SkyllhModel.Proofs.Store
import SkyllhModel.Model.StoreR7
import SkyllhModel.Generated.C16

open Store StoreP


/-! ## Round 7: the constructor with its options (`Model/StoreR7.lean`)

`ctorLoop` mirrors the field loop of `DataFieldRecordArray.__init__` (`keep_fields`, `dtype_conversions`,
`dtype_conversion_except_fields`, `copy`, both length checks, `_len` from the first stored field).  The theorems say
that whenever the constructor returns, the new container is the plain table `copy(keep_fields)` followed by
`convert_dtypes(conversions, except_fields)` of the input, well formed, with `_len` the common column length, and
that it keeps an array object of the caller only for `copy=False` on a field that is not converted. -/
namespace C16

theorem ctorSpecCols_cons (o : CtorOpts) (p : Name × Col) (r : List (Name × Col)) :
    ctorSpecCols o (p :: r) =
      if ctorKept o p.1 then (p.1, (convertCol o.convs o.exc p).2.2) :: ctorSpecCols o r else ctorSpecCols o r := by
  unfold ctorSpecCols ctorKept copyCols
  cases o.keep with
  | none => simp
  | some ks => by_cases h : p.1 ∈ ks <;> simp [List.filter_cons, h]

theorem ctorLen_spec {l : Option Nat} {q q' : Name × Prov × Col} {l' : Option Nat}
    (h : ctorLen l q = .ok (l', q')) :
    q' = q ∧ l' = some q.2.2.vals.length ∧ (∀ k, l = some k → l' = some k) := by
  unfold ctorLen at h
  cases l with
  | none =>
    simp only [Except.ok.injEq, Prod.mk.injEq] at h
    exact ⟨h.2.symm, h.1.symm, by simp⟩
  | some k =>
    by_cases hk : q.2.2.vals.length = k
    · simp only [hk, ne_eq, not_true_eq_false, if_false, Except.ok.injEq, Prod.mk.injEq] at h
      exact ⟨h.2.symm, by rw [← h.1, hk], fun k' hk' => by rw [← h.1]; exact hk'⟩
    · simp [hk] at h

/-- one kept field: name, value (= `convert_dtypes` applied to the column), provenance, `_len` -/
theorem ctorField_spec {o : CtorOpts} {length : Nat} {l l' : Option Nat} {p : Name × Col} {q : Name × Prov × Col}
    (h : ctorField o length l p = .ok (l', q)) :
    q.1 = p.1 ∧ q.2.2 = (convertCol o.convs o.exc p).2.2 ∧
    (q.2.1 = .fresh ∨ (o.copy = false ∧ ctorConv o p = none ∧ q.2 = (.kept p.1, p.2))) ∧
    (o.copy = true → q.2.1 = .fresh ∧ p.2.vals.length = length) ∧
    l' = some q.2.2.vals.length ∧ (∀ k, l = some k → l' = some k) := by
  unfold ctorField at h
  have hconv : (convertCol o.convs o.exc p).2.2 =
      match ctorConv o p with | some dt => castCol dt p.2 | none => p.2 := by
    unfold convertCol ctorConv
    by_cases he : p.1 ∈ o.exc
    · simp [he]
    · simp only [List.contains_eq_mem, he, decide_false, Bool.false_eq_true, if_false]
      cases o.convs.lookup p.2.dt <;> rfl
  cases hc : ctorConv o p with
  | some dt =>
    rw [hc] at h hconv
    simp only at h hconv
    by_cases h1 : p.2.vals.length = length
    · by_cases h2 : sameKind p.2.dt dt = true
      · simp only [h1, ne_eq, not_true_eq_false, if_false, h2, Bool.not_true, Bool.false_eq_true] at h
        obtain ⟨e1, e2, e3⟩ := ctorLen_spec h
        subst e1
        exact ⟨rfl, hconv.symm, Or.inl rfl, fun _ => ⟨rfl, h1⟩, e2, e3⟩
      · simp [h1, h2] at h
    · simp [h1] at h
  | none =>
    rw [hc] at h hconv
    simp only at h hconv
    by_cases hcp : o.copy = true
    · by_cases h1 : p.2.vals.length = length
      · simp only [hcp, if_true, h1, ne_eq, not_true_eq_false, if_false] at h
        obtain ⟨e1, e2, e3⟩ := ctorLen_spec h
        subst e1
        exact ⟨rfl, hconv.symm, Or.inl rfl, fun _ => ⟨rfl, h1⟩, e2, e3⟩
      · simp [hcp, h1] at h
    · have hcf : o.copy = false := by simpa using hcp
      simp only [hcf, Bool.false_eq_true, if_false] at h
      obtain ⟨e1, e2, e3⟩ := ctorLen_spec h
      subst e1
      exact ⟨rfl, hconv.symm, Or.inr ⟨hcf, rfl, rfl⟩, fun hh => by simp [hcf] at hh, e2, e3⟩

/-- the loop invariant of the constructor -/
theorem ctorLoop_spec (o : CtorOpts) (length : Nat) :
    ∀ (cols : List (Name × Col)) (l l' : Option Nat) (qs : PCols),
      ctorLoop o length l cols = .ok (l', qs) →
      qs.map (fun e => (e.1, e.2.2)) = ctorSpecCols o cols ∧
      (∀ e ∈ qs, l' = some e.2.2.vals.length) ∧
      (∀ k, l = some k → l' = some k) ∧
      (qs = [] → l' = l) ∧
      (∀ e ∈ qs, e.2.1 = .fresh ∨ (o.copy = false ∧ e.2.1 = .kept e.1 ∧ (e.1, e.2.2) ∈ cols)) ∧
      (o.copy = true → ∀ e ∈ qs, e.2.1 = .fresh ∧ e.2.2.vals.length = length) := by
  intro cols
  induction cols with
  | nil =>
    intro l l' qs h
    simp only [ctorLoop, Except.ok.injEq, Prod.mk.injEq] at h
    obtain ⟨h1, h2⟩ := h
    subst h1 h2
    simp [ctorSpecCols, copyCols]
    cases o.keep <;> simp
  | cons p r ih =>
    intro l l' qs h
    rw [ctorSpecCols_cons]
    unfold ctorLoop at h
    by_cases hk : ctorKept o p.1 = true
    · simp only [hk, if_true] at h ⊢
      cases hf : ctorField o length l p with
      | error e => rw [hf] at h; simp at h
      | ok v =>
        obtain ⟨l1, q⟩ := v
        rw [hf] at h
        simp only at h
        cases hr : ctorLoop o length l1 r with
        | error e => rw [hr] at h; simp at h
        | ok w =>
          obtain ⟨l2, qs'⟩ := w
          rw [hr] at h
          simp only [Except.ok.injEq, Prod.mk.injEq] at h
          obtain ⟨e1, e2⟩ := h
          subst e1 e2
          obtain ⟨f1, f2, f3, f4, f5, f6⟩ := ctorField_spec hf
          obtain ⟨i1, i2, i3, i4, i5, i6⟩ := ih l1 l2 qs' hr
          have hl2 : l2 = some q.2.2.vals.length := i3 _ f5
          refine ⟨?_, ?_, ?_, ?_, ?_, ?_⟩
          · simp only [List.map_cons, i1, f1, f2]
          · intro e he
            rcases List.mem_cons.mp he with rfl | he
            · exact hl2
            · exact i2 e he
          · intro k hk'
            exact i3 k (f6 k hk')
          · intro hnil; simp at hnil
          · intro e he
            rcases List.mem_cons.mp he with rfl | he
            · rcases f3 with f3 | ⟨c1, _, c3⟩
              · exact Or.inl f3
              · refine Or.inr ⟨c1, ?_, ?_⟩
                · rw [c3, f1]
                · rw [c3, f1]; exact List.mem_cons_self
            · rcases i5 e he with g | ⟨g1, g2, g3⟩
              · exact Or.inl g
              · exact Or.inr ⟨g1, g2, List.mem_cons_of_mem _ g3⟩
          · intro hc e he
            rcases List.mem_cons.mp he with rfl | he
            · obtain ⟨a, b⟩ := f4 hc
              refine ⟨a, ?_⟩
              rw [f2]
              have := (f4 hc).2
              unfold convertCol
              by_cases hx : p.1 ∈ o.exc
              · simpa [hx] using this
              · simp only [List.contains_eq_mem, hx, decide_false, Bool.false_eq_true, if_false]
                cases o.convs.lookup p.2.dt <;> simpa [castCol] using this
            · exact i6 hc e he
    · have hk' : ctorKept o p.1 = false := by simpa using hk
      simp only [hk', Bool.false_eq_true, if_false] at h ⊢
      obtain ⟨i1, i2, i3, i4, i5, i6⟩ := ih l l' qs h
      refine ⟨i1, i2, i3, i4, ?_, i6⟩
      intro e he
      rcases i5 e he with g | ⟨g1, g2, g3⟩
      · exact Or.inl g
      · exact Or.inr ⟨g1, g2, List.mem_cons_of_mem _ g3⟩

end C16
