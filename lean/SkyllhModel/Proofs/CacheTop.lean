/-
  Helper lemmas for the upper layers of property C06 (Model/CacheTop.lean): the split cascade refines
  the fused operations of Model/Cache.lean as long as the documented call order is kept.
-/
import SkyllhModel.Model.CacheTop
import SkyllhModel.Proofs.Cache
import Mathlib.Tactic

open Cache CacheTop

set_option linter.unusedSectionVars false

namespace C06

variable {D S F : Type}

section congr
variable [DecidableEq F]

/-- `evalPdfs` looks at the world only through `man` -/
theorem evalPdfs_congr (W W' : World D S F) (h : W'.man = W.man) (cp : Bool) (d : D) (s : S)
    (sid : Int) : ∀ (gs : List F) (pdc : F → PdCache F) (k : Nat),
    evalPdfs W' cp d s sid pdc k gs = evalPdfs W cp d s sid pdc k gs := by
  intro gs
  induction gs with
  | nil => intro pdc k; rfl
  | cons g gs ih => intro pdc k; simp only [evalPdfs, h, ih]

variable [Add F] [Sub F] [Mul F] [Div F] [LT F] [DecidableLT F] [OfScientific F]

theorem interpMiss_congr (W W' : World D S F) (hm : W'.man = W.man) (hu : W'.up = W.up)
    (hl : W'.lo = W.lo) (hd : W'.dx = W.dx) (cfg : Cfg) (st : St D S F) (q : Query F) :
    interpMiss W' cfg st q = interpMiss W cfg st q := by
  simp only [interpMiss, evalPdfs_congr W W' hm, hu, hl, hd]

theorem interpCall_congr (W W' : World D S F) (hm : W'.man = W.man) (hu : W'.up = W.up)
    (hl : W'.lo = W.lo) (hd : W'.dx = W.dx) (hit : F → F → Bool) (cfg : Cfg) (st : St D S F)
    (q : Query F) : interpCall W' hit cfg st q = interpCall W hit cfg st q := by
  simp only [interpCall, interpMiss_congr W W' hm hu hl hd]

/-- with `_cache_eventdata` built from the current trial data the split evaluator is `evalC` -/
theorem evalCσ_synced [Neg F] [OfNat F 0] [OfNat F 1] [Transc F] (W : World D S F)
    (hit : F → F → Bool) (cfg : Cfg) (st : St D S F) (q : Query F) :
    evalCσ W hit cfg st st.data st.src q = evalC W hit cfg st q := by
  have hc := interpCall_congr W { W with bkg := fun _ _ => W.bkg st.data st.src } rfl rfl rfl rfl
    hit cfg st q
  cases st
  simp only [evalCσ, evalC, bkgBlocks] at hc ⊢
  rw [hc]

end congr

section refine
variable [DecidableEq F] [Add F] [Sub F] [Mul F] [Div F] [Neg F] [LT F] [DecidableLT F]
  [OfNat F 0] [OfNat F 1] [OfScientific F] [Transc F]

/-- one fused operation, carried out as the sequence of real calls -/
def tfstep (T : Top D S F) (v : Variant) (hit : F → F → Bool) (cfg : Cfg) (t : TSt D S F)
    (op : Op D S F) : TSt D S F := (trun T v hit cfg t (expand t.base.data op)).1

theorem trun_append (T : Top D S F) (v : Variant) (hit : F → F → Bool) (cfg : Cfg) :
    ∀ (a b : List (TOp D S F)) (t : TSt D S F),
    (trun T v hit cfg t (a ++ b)).1 = (trun T v hit cfg (trun T v hit cfg t a).1 b).1 := by
  intro a
  induction a with
  | nil => intro b t; rfl
  | cons op a ih => intro b t; simp only [List.cons_append, trun]; exact ih b _

/-- the per-event ns-gradients the stateless evaluator would cache -/
def nsgradPure (T : Top D S F) (par : Bool) (d : D) (s : S) (q : Query F) : List F :=
  (derive T d s q (evalPure T.W par d s q).1).nsgrad

/-- the split state carries the fused state, is in sync, and its cached ns-gradient *values* are
those of the evaluation `r` on the current data and source -/
structure TI (T : Top D S F) (par : Bool) (t : TSt D S F) (st : St D S F) (r : Option (Query F)) :
    Prop where
  base : t.base = st
  sync : Synced t
  nsg : t.nsgrad = r.map (nsgradPure T par st.data st.src)

/-- `lastEval`, one operation at a time -/
def leStep (W : World D S F) (par clear : Bool) (r : Option (Query F)) : Op D S F → Option (Query F)
  | .initTrial _ => none
  | .changeSource _ => none
  | .evaluate q => if queryOk W par q then some q else if clear then none else r
  | .grad2 => r

theorem lastEval_cons (W : World D S F) (par clear : Bool) (r : Option (Query F)) (op : Op D S F)
    (ops : List (Op D S F)) :
    lastEval W par clear r (op :: ops) = lastEval W par clear (leStep W par clear r op) ops := by
  cases op <;> rfl

/-- **refinement step**: the real call sequence of a fused operation does to the split state what
the fused operation does to the state of Model/Cache.lean — provided the object graph was in sync -/
theorem tfstep_refines (T : Top D S F) (v : Variant) (hit : F → F → Bool) (cfg : Cfg)
    (hx : ∀ a b, hit a b = true → a = b) (hr : v.resetNsgrad = true) (t : TSt D S F)
    (st : St D S F) (r : Option (Query F)) (op : Op D S F) (h : TI T cfg.parabola t st r)
    (hinv : Inv T.W cfg.parabola st) :
    TI T cfg.parabola (tfstep T v hit cfg t op) (step T.W v hit cfg st op).1
      (leStep T.W cfg.parabola v.clearNsgOnEval r op) := by
  obtain ⟨hb, hs, hn⟩ := h
  subst hb
  cases op with
  | initTrial d =>
    refine ⟨?_, ?_, ?_⟩
    · simp [tfstep, expand, trun, tstep, step, initTrial]
    · simp [tfstep, expand, trun, tstep, Synced]
    · simp [tfstep, expand, trun, tstep, hr, leStep]
  | changeSource s =>
    refine ⟨?_, ?_, ?_⟩
    · simp only [tfstep, expand, trun, tstep, step, changeSource, initTrial]
    · simp [tfstep, expand, trun, tstep, Synced]
    · simp [tfstep, expand, trun, tstep, hr, leStep]
  | grad2 =>
    exact ⟨by simp [tfstep, expand, trun, step], by simpa [tfstep, expand, trun] using hs,
      by simpa [tfstep, expand, trun, step, leStep] using hn⟩
  | evaluate q =>
    have hsy : t.evd = some (t.base.data, t.base.src) := hs
    by_cases hq : queryOk T.W cfg.parabola q = true
    · have hc := evalCσ_synced T.W hit cfg t.base q
      have hsp := evalC_spec T.W hit hx cfg t.base q hinv
      refine ⟨?_, ?_, ?_⟩
      · simp [tfstep, expand, trun, tstep, hsy, hq, step, evalE, hc]
      · simp only [tfstep, expand, trun, tstep, hsy, hq, if_true, Synced, hc]
        rw [hsp.2.2.1, hsp.2.2.2.1]
      · simp only [tfstep, expand, trun, tstep, hsy, hq, if_true, hc, leStep, step, evalE,
          Option.map_some]
        rw [hsp.2.2.1, hsp.2.2.2.1]
        have : (evalC T.W hit cfg t.base q).2.ratio = (evalPure T.W cfg.parabola t.base.data t.base.src q).1 :=
          congrArg Prod.fst hsp.1
        simp only [nsgradPure, this]
    · have hq' : queryOk T.W cfg.parabola q = false := by simpa using hq
      refine ⟨?_, ?_, ?_⟩
      · simp [tfstep, expand, trun, tstep, hsy, hq', step, evalE]
      · simp [tfstep, expand, trun, tstep, hsy, hq', Synced]
      · simp only [tfstep, expand, trun, tstep, hsy, hq', leStep, step, evalE]
        cases hcl : v.clearNsgOnEval <;> simp [hn]

/-- the expanded history is the fold of the fused steps -/
theorem trun_expandAll (T : Top D S F) (v : Variant) (hit : F → F → Bool) (cfg : Cfg) :
    ∀ (ops : List (Op D S F)) (t : TSt D S F),
    (trun T v hit cfg t (expandAll t.base.data ops)).1 = ops.foldl (tfstep T v hit cfg) t := by
  intro ops
  induction ops with
  | nil => intro t; rfl
  | cons op ops ih =>
    intro t
    have key : ∀ cur', cur' = (tfstep T v hit cfg t op).base.data →
        (trun T v hit cfg t (expand t.base.data op ++ expandAll cur' ops)).1 =
          ops.foldl (tfstep T v hit cfg) (tfstep T v hit cfg t op) := by
      intro cur' hc
      rw [trun_append, hc]
      exact ih _
    cases op with
    | initTrial d =>
      simp only [expandAll, List.foldl_cons]
      exact key d (by simp [tfstep, expand, trun, tstep])
    | changeSource s =>
      simp only [expandAll, List.foldl_cons]
      exact key _ (by simp [tfstep, expand, trun, tstep])
    | grad2 =>
      simp only [expandAll, List.foldl_cons]
      exact key _ (by simp [tfstep, expand, trun])
    | evaluate q =>
      simp only [expandAll, List.foldl_cons]
      refine key _ ?_
      simp only [tfstep, expand, trun, tstep]
      split
      · rfl
      · split <;> simp [evalCσ]

/-! ### composite likelihood -/

/-- `evaluate` leaves the trial data manager's data and source alone -/
theorem tstep_eval_data_src (T : Top D S F) (v : Variant) (hit : F → F → Bool) (cfg : Cfg)
    (t : TSt D S F) (q : Query F) :
    (tstep T v hit cfg t (.evaluate q)).1.base.data = t.base.data ∧
    (tstep T v hit cfg t (.evaluate q)).1.base.src = t.base.src := by
  simp only [tstep]
  split
  · exact ⟨rfl, rfl⟩
  · split <;> simp [evalCσ]

def clastData (d0 : D) : List (FOp D S F) → D
  | [] => d0
  | .initTrial d :: ops => clastData d ops
  | _ :: ops => clastData d0 ops

def clastSrc (s0 : S) : List (FOp D S F) → S
  | [] => s0
  | .changeSource s :: ops => clastSrc s ops
  | _ :: ops => clastSrc s0 ops

theorem lower_lastData (C : Comp D S F) : ∀ (fops : List (FOp D S F)) (d0 : D) (s0 : S),
    lastData d0 (lower C s0 fops) = clastData d0 fops ∧
    lastSrc s0 (lower C s0 fops) = clastSrc s0 fops := by
  intro fops
  induction fops with
  | nil => intro d0 s0; exact ⟨rfl, rfl⟩
  | cons op fops ih =>
    intro d0 s0
    cases op with
    | initTrial d => simpa [lower, lastData, lastSrc, clastData, clastSrc] using ih d s0
    | changeSource s => simpa [lower, lastData, lastSrc, clastData, clastSrc] using ih d0 s
    | cevaluate q =>
      simp only [lower, clastData, clastSrc]
      cases C.fj s0 q with
      | nil => simpa using ih d0 s0
      | cons f0 fr => simpa [lastData, lastSrc] using ih d0 s0

/-- **dataset 0 inside the composite**: along a composite history (as real call sequences) the
modelled object graph goes through exactly the single-dataset history `lower` — every composite
evaluate is an evaluate at `ns·f₀` — whatever the further datasets do -/
theorem crun_lower (C : Comp D S F) (v : Variant) (hit : F → F → Bool) (cfg : Cfg) :
    ∀ (fops : List (FOp D S F)) (c : CSt D S F),
    (crun C v hit cfg c (cexpandAll c.t.base.data fops)).1.t =
      (trun C.T v hit cfg c.t (expandAll c.t.base.data (lower C c.t.base.src fops))).1 := by
  intro fops
  induction fops with
  | nil => intro c; rfl
  | cons op fops ih =>
    intro c
    cases op with
    | initTrial d =>
      simp only [cexpandAll, crun, cstep, lower, expandAll, expand, List.cons_append, List.nil_append, trun]
      exact ih ⟨_, _, _⟩
    | changeSource s =>
      simp only [cexpandAll, crun, cstep, lower, expandAll, expand, List.cons_append, List.nil_append, trun]
      exact ih ⟨_, _, _⟩
    | cevaluate q =>
      simp only [cexpandAll, crun, cstep, lower]
      cases hf : C.fj c.t.base.src q with
      | nil => simpa using ih c
      | cons f0 fr =>
        have hds := tstep_eval_data_src C.T v hit cfg c.t (q0 q f0)
        simp only [List.cons_append, List.nil_append, expandAll, expand, trun]
        split
        · have := ih ⟨(tstep C.T v hit cfg c.t (.evaluate (q0 q f0))).1, some (f0 :: fr),
            some ((othersEval C c.t.base.data c.t.base.src q fr).map (·.2.2))⟩
          simp only [hds.1, hds.2] at this
          exact this
        · have := ih ⟨(tstep C.T v hit cfg c.t (.evaluate (q0 q f0))).1, some (f0 :: fr), c.nsg2⟩
          simp only [hds.1, hds.2] at this
          exact this

/-- an evaluate (successful or failing) keeps the invariant of the lower layers -/
theorem inv_step_eval (W : World D S F) (v : Variant) (hit : F → F → Bool) (cfg : Cfg)
    (hx : ∀ a b, hit a b = true → a = b) (st : St D S F) (q : Query F)
    (h : Inv W cfg.parabola st) : Inv W cfg.parabola (step W v hit cfg st (.evaluate q)).1 := by
  simp only [step, evalE]
  split
  · exact (evalC_spec W hit hx cfg st q h).2.1
  · exact ⟨h.interp_le, h.interp_ok, h.pdc_ok, h.bkg_ok⟩

/-- the composite evaluation whose cached quantities the composite second derivative reads: the last
successful one of the current trial (a failed one forgets — `clearNsgOnEval`) -/
def clastEval (C : Comp D S F) (par : Bool) : S → Option (Query F) → List (FOp D S F) → Option (Query F)
  | _, r, [] => r
  | s, _, .initTrial _ :: t => clastEval C par s none t
  | _, _, .changeSource s :: t => clastEval C par s none t
  | s, r, .cevaluate q :: t =>
    clastEval C par s (match C.fj s q with
      | [] => r
      | f0 :: _ => if queryOk C.T.W par (q0 q f0) then some q else none) t

/-- the evaluation dataset 0 remembers, given the composite one -/
def lowQ (C : Comp D S F) (s : S) (r : Option (Query F)) : Option (Query F) :=
  r.bind (fun q => match C.fj s q with | [] => none | f0 :: _ => some (q0 q f0))

/-- invariant of the composite state along a history -/
structure CI (C : Comp D S F) (par : Bool) (c : CSt D S F) (st : St D S F) (r : Option (Query F)) :
    Prop where
  ti : TI C.T par c.t st (lowQ C st.src r)
  inv : Inv C.T.W par st
  svc : ∀ q, r = some q → ∃ f0 fr, C.fj st.src q = f0 :: fr ∧ c.fsvc = some (f0 :: fr) ∧
    c.nsg2 = some ((othersEval C st.data st.src q fr).map (·.2.2))

theorem ci_run (C : Comp D S F) (v : Variant) (hit : F → F → Bool) (cfg : Cfg)
    (hx : ∀ a b, hit a b = true → a = b) (hb : 0 < bumpInit v cfg) (hr : v.resetNsgrad = true)
    (hc : v.clearNsgOnEval = true) :
    ∀ (fops : List (FOp D S F)) (c : CSt D S F) (st : St D S F) (r : Option (Query F)),
    CI C cfg.parabola c st r →
    CI C cfg.parabola (crun C v hit cfg c (cexpandAll c.t.base.data fops)).1
      (runSt C.T.W v hit cfg st (lower C st.src fops)) (clastEval C cfg.parabola st.src r fops) := by
  intro fops
  induction fops with
  | nil => intro c st r h; exact h
  | cons op fops ih =>
    intro c st r h
    have hbase : c.t.base = st := h.ti.base
    cases op with
    | initTrial d =>
      have hstep := tfstep_refines C.T v hit cfg hx hr c.t st _ (.initTrial d) h.ti h.inv
      have hinv := inv_of_lt C.T.W cfg.parabola st (step C.T.W v hit cfg st (.initTrial d)).1 h.inv rfl rfl rfl
        (by simp only [step, initTrial]; omega)
      have hnew : CI C cfg.parabola
          ⟨tfstep C.T v hit cfg c.t (.initTrial d), c.fsvc, if v.resetNsgrad then none else c.nsg2⟩
          (step C.T.W v hit cfg st (.initTrial d)).1 none :=
        ⟨by simpa [lowQ, leStep] using hstep, hinv, by intro q hq; cases hq⟩
      have := ih _ _ none hnew
      rw [show (tfstep C.T v hit cfg c.t (.initTrial d)).base.data = d by
        simp [tfstep, expand, trun, tstep]] at this
      simp only [cexpandAll, crun, cstep, lower, clastEval]
      simpa [tfstep, expand, trun, runSt, run, step, initTrial] using this
    | changeSource s =>
      have hstep := tfstep_refines C.T v hit cfg hx hr c.t st _ (.changeSource s) h.ti h.inv
      have hinv := inv_of_lt C.T.W cfg.parabola st (step C.T.W v hit cfg st (.changeSource s)).1 h.inv rfl rfl rfl
        (by simp only [step, changeSource, initTrial]; omega)
      have hnew : CI C cfg.parabola
          ⟨tfstep C.T v hit cfg c.t (.changeSource s), c.fsvc, if v.resetNsgrad then none else c.nsg2⟩
          (step C.T.W v hit cfg st (.changeSource s)).1 none :=
        ⟨by simpa [lowQ, leStep] using hstep, hinv, by intro q hq; cases hq⟩
      have := ih _ _ none hnew
      rw [show (tfstep C.T v hit cfg c.t (.changeSource s)).base.data = st.data by
        simp [tfstep, expand, trun, tstep, hbase]] at this
      simp only [cexpandAll, crun, cstep, lower, clastEval]
      simpa [tfstep, expand, trun, runSt, run, step, changeSource, initTrial, hbase] using this
    | cevaluate q =>
      simp only [cexpandAll, crun, cstep, lower, clastEval, hbase]
      cases hf : C.fj st.src q with
      | nil =>
        have := ih c st r h
        rw [hbase] at this
        simpa using this
      | cons f0 fr =>
        have hstep := tfstep_refines C.T v hit cfg hx hr c.t st _ (.evaluate (q0 q f0)) h.ti h.inv
        have hinv := inv_step_eval C.T.W v hit cfg hx st (q0 q f0) h.inv
        have hds : (step C.T.W v hit cfg st (.evaluate (q0 q f0))).1.data = st.data ∧
            (step C.T.W v hit cfg st (.evaluate (q0 q f0))).1.src = st.src := by
          simp only [step, evalE]; split <;> exact ⟨rfl, rfl⟩
        have hsy : c.t.evd = some (c.t.base.data, c.t.base.src) := h.ti.sync
        by_cases hq : queryOk C.T.W cfg.parabola (q0 q f0) = true
        · -- the evaluation succeeds: services, dataset caches all describe q
          have hnew : CI C cfg.parabola
              ⟨tfstep C.T v hit cfg c.t (.evaluate (q0 q f0)), some (f0 :: fr),
                some ((othersEval C st.data st.src q fr).map (·.2.2))⟩
              (step C.T.W v hit cfg st (.evaluate (q0 q f0))).1 (some q) := by
            refine ⟨?_, hinv, ?_⟩
            · simpa [lowQ, leStep, hq, hds.2, hf] using hstep
            · intro q' hq'
              cases hq'
              exact ⟨f0, fr, by rw [hds.2, hf], rfl, by rw [hds.1, hds.2]⟩
          have := ih _ _ (some q) hnew
          rw [show (tfstep C.T v hit cfg c.t (.evaluate (q0 q f0))).base.data = st.data by
            simp only [tfstep, expand, trun]
            rw [(tstep_eval_data_src C.T v hit cfg c.t (q0 q f0)).1, hbase]] at this
          simp only [tfstep, expand, trun, tstep, hsy, hq, if_true, hbase] at this ⊢
          simpa [runSt, run, hds.2, hq] using this
        · have hq' : queryOk C.T.W cfg.parabola (q0 q f0) = false := by simpa using hq
          have hnew : CI C cfg.parabola
              ⟨tfstep C.T v hit cfg c.t (.evaluate (q0 q f0)), some (f0 :: fr), c.nsg2⟩
              (step C.T.W v hit cfg st (.evaluate (q0 q f0))).1 none := by
            refine ⟨?_, hinv, by intro q' hq''; cases hq''⟩
            simpa [lowQ, leStep, hq', hc] using hstep
          have := ih _ _ none hnew
          rw [show (tfstep C.T v hit cfg c.t (.evaluate (q0 q f0))).base.data = st.data by
            simp only [tfstep, expand, trun]
            rw [(tstep_eval_data_src C.T v hit cfg c.t (q0 q f0)).1, hbase]] at this
          simp only [tfstep, expand, trun, tstep, hsy, hq', hbase] at this ⊢
          simpa [runSt, run, hds.2, hq'] using this

end refine

end C06
