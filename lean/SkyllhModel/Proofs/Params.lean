/-
  Helper lemmas for property C04 (model: `SkyllhModel/Model/Params.lean`).
  `Coherent s` — every cache of a `PSet` is the function of the parameter list it should be.
-/
import SkyllhModel.Model.Params
import Mathlib.Tactic

open Params

namespace C04

/-! ### dictionaries, index lookups, boolean masks -/

theorem dget_dset {β : Type} (d : List (String × β)) (k n : String) (v : β) :
    dget (dset d k v) n = if k = n then some v else dget d n := by
  induction d with
  | nil => simp [dset, dget]
  | cons kv d ih =>
    obtain ⟨k', v'⟩ := kv
    by_cases h : k' = k
    · subst h
      simp only [dset, if_true, dget]
      split <;> simp_all
    · simp only [dset, h, if_false, dget, ih]
      by_cases h2 : k' = n
      · subst h2
        have : ¬ k = k' := fun hk => h hk.symm
        simp [this]
      · simp [h2]

theorem dget_shift (d : List (String × Nat)) (n : String) :
    dget (d.map (fun kv => (kv.1, kv.2 + 1))) n = (dget d n).map (· + 1) := by
  induction d with
  | nil => simp [dget]
  | cons kv d ih =>
    obtain ⟨k', v'⟩ := kv
    by_cases h : k' = n <;> simp [dget, h, ih]

theorem idxOf?_eq_none {n : String} {xs : List String} (h : n ∉ xs) : idxOf? n xs = none := by
  induction xs with
  | nil => rfl
  | cons x xs ih =>
    simp only [List.mem_cons, not_or] at h
    simp [idxOf?, Ne.symm h.1, ih h.2]

theorem idxOf?_append_self {n : String} {xs : List String} (h : n ∉ xs) :
    idxOf? n (xs ++ [n]) = some xs.length := by
  induction xs with
  | nil => simp [idxOf?]
  | cons x xs ih =>
    simp only [List.mem_cons, not_or] at h
    simp [idxOf?, Ne.symm h.1, ih h.2]

theorem idxOf?_append_ne {n m : String} (xs : List String) (h : m ≠ n) :
    idxOf? n (xs ++ [m]) = idxOf? n xs := by
  induction xs with
  | nil => simp [idxOf?, h]
  | cons x xs ih =>
    by_cases hx : x = n <;> simp [idxOf?, hx, ih]

theorem maskSel_map {α : Type} (f : α → Bool) (xs : List α) :
    maskSel xs (xs.map f) = .ok (xs.filter f) := by
  induction xs with
  | nil => rfl
  | cons x xs ih =>
    cases h : f x <;> simp [maskSel, ih, h]

/-! ### coherence of the caches -/

variable {V : Type}

/-- the three lists and two dictionaries describe the parameter list `ps` -/
structure CachesOf (ps : List (Param V)) (s : PSet V) : Prop where
  fixedNames : s.fixedNames = (ps.filter (·.isfixed)).map (·.name)
  floatNames : s.floatNames = (ps.filter (fun p => !p.isfixed)).map (·.name)
  fixedVals : s.fixedVals = (ps.filter (·.isfixed)).map (·.value)
  fixedIdx : ∀ n, dget s.fixedIdx n = idxOf? n s.fixedNames
  floatIdx : ∀ n, dget s.floatIdx n = idxOf? n s.floatNames

theorem mem_names_iff (ps : List (Param V)) (n : String) :
    n ∈ ps.map (·.name) ↔
      n ∈ (ps.filter (·.isfixed)).map (·.name) ∨ n ∈ (ps.filter (fun p => !p.isfixed)).map (·.name) := by
  simp only [List.mem_map, List.mem_filter]
  constructor
  · rintro ⟨p, hp, rfl⟩
    by_cases h : p.isfixed
    · exact Or.inl ⟨p, ⟨hp, h⟩, rfl⟩
    · exact Or.inr ⟨p, ⟨hp, by simp [h]⟩, rfl⟩
  · rintro (⟨p, ⟨hp, _⟩, rfl⟩ | ⟨p, ⟨hp, _⟩, rfl⟩) <;> exact ⟨p, hp, rfl⟩

theorem CachesOf.congr {ps : List (Param V)} {s t : PSet V} (h : CachesOf ps s)
    (h1 : t.fixedNames = s.fixedNames) (h2 : t.floatNames = s.floatNames) (h3 : t.fixedVals = s.fixedVals)
    (h4 : t.fixedIdx = s.fixedIdx) (h5 : t.floatIdx = s.floatIdx) : CachesOf ps t :=
  ⟨h1 ▸ h.fixedNames, h2 ▸ h.floatNames, h3 ▸ h.fixedVals, by rw [h4, h1]; exact h.fixedIdx,
   by rw [h5, h2]; exact h.floatIdx⟩

theorem CachesOf.pushFixed {ps : List (Param V)} {s : PSet V} (h : CachesOf ps s) (p : Param V)
    (hf : p.isfixed = true) (hn : p.name ∉ ps.map (·.name)) :
    CachesOf (ps ++ [p]) (s.pushFixed p.name p.value) := by
  have hnot : p.name ∉ s.fixedNames := by
    rw [h.fixedNames]; intro hm; exact hn ((mem_names_iff ps _).2 (Or.inl hm))
  refine ⟨?_, ?_, ?_, ?_, ?_⟩
  · simp [PSet.pushFixed, h.fixedNames, List.filter_append, hf]
  · simp [PSet.pushFixed, h.floatNames, List.filter_append, hf]
  · simp [PSet.pushFixed, h.fixedVals, List.filter_append, hf]
  · intro n
    simp only [PSet.pushFixed, dget_dset, List.length_append, List.length_singleton, Nat.add_sub_cancel]
    by_cases hk : p.name = n
    · subst hk; simp [idxOf?_append_self hnot]
    · simp [hk, idxOf?_append_ne _ hk, h.fixedIdx]
  · intro n; simpa [PSet.pushFixed] using h.floatIdx n

theorem CachesOf.pushFloat {ps : List (Param V)} {s : PSet V} (h : CachesOf ps s) (p : Param V)
    (hf : p.isfixed = false) (hn : p.name ∉ ps.map (·.name)) :
    CachesOf (ps ++ [p]) (s.pushFloat p.name) := by
  have hnot : p.name ∉ s.floatNames := by
    rw [h.floatNames]; intro hm; exact hn ((mem_names_iff ps _).2 (Or.inr hm))
  refine ⟨?_, ?_, ?_, ?_, ?_⟩
  · simp [PSet.pushFloat, h.fixedNames, List.filter_append, hf]
  · simp [PSet.pushFloat, h.floatNames, List.filter_append, hf]
  · simp [PSet.pushFloat, h.fixedVals, List.filter_append, hf]
  · intro n; simpa [PSet.pushFloat] using h.fixedIdx n
  · intro n
    simp only [PSet.pushFloat, dget_dset, List.length_append, List.length_singleton, Nat.add_sub_cancel]
    by_cases hk : p.name = n
    · subst hk; simp [idxOf?_append_self hnot]
    · simp [hk, idxOf?_append_ne _ hk, h.floatIdx]


/-! ### parameters -/

section order
variable [LinearOrder V]

theorem neV_eq_false {a b : V} : neV a b = false ↔ a = b := by
  simp only [neV, Bool.or_eq_false_iff, decide_eq_false_iff_not, not_lt]
  constructor
  · rintro ⟨h1, h2⟩; exact le_antisymm h2 h1
  · rintro rfl; exact ⟨le_refl _, le_refl _⟩

theorem outside_eq_false {v lo hi : V} : outside v lo hi = false ↔ lo ≤ v ∧ v ≤ hi := by
  simp [outside, not_lt]

/-- what the `Parameter` class maintains: a fixed parameter's value is its initial value; a floating
parameter has both bounds and value and initial lie inside them. -/
def ParamWF (p : Param V) : Prop :=
  (p.isfixed = true → p.value = p.initial) ∧
  (p.isfixed = false → ∃ lo hi, p.valmin = some lo ∧ p.valmax = some hi ∧
      outside p.value lo hi = false ∧ outside p.initial lo hi = false)

theorem setValue_ok {p p' : Param V} {v : V} (hw : ParamWF p) (h : p.setValue v = .ok p') :
    p'.name = p.name ∧ p'.isfixed = p.isfixed ∧ (p.isfixed = true → p'.value = p.value) ∧ ParamWF p' := by
  unfold Param.setValue at h
  by_cases hf : p.isfixed = true
  · rw [if_pos hf] at h
    by_cases hne : neV v p.initial = true
    · rw [if_pos hne] at h; cases h
    · rw [if_neg hne] at h
      have hv : v = p.initial := neV_eq_false.1 (by simpa using hne)
      cases h
      exact ⟨rfl, rfl, fun _ => by simp [hw.1 hf, hv], fun _ => hv, fun h2 => by simp [hf] at h2⟩
  · rw [if_neg hf] at h
    have hf' : p.isfixed = false := by simpa using hf
    obtain ⟨lo, hi, hlo, hhi, hval, hini⟩ := hw.2 hf'
    rw [hlo] at h
    simp only at h
    by_cases h1 : v < lo
    · rw [if_pos h1] at h; cases h
    · rw [if_neg h1, hhi] at h
      simp only at h
      by_cases h2 : hi < v
      · rw [if_pos h2] at h; cases h
      · rw [if_neg h2] at h
        cases h
        refine ⟨rfl, by simp_all, fun h3 => by simp_all, fun h3 => by simp_all, fun _ => ?_⟩
        exact ⟨lo, hi, by simp_all, by simp_all, by simp [outside, h1, h2], by simpa using hini⟩

theorem setValue_initial_wf {q p : Param V} (h : q.setValue q.initial = .ok p) :
    ParamWF p ∧ p.name = q.name := by
  unfold Param.setValue at h
  by_cases hf : q.isfixed = true
  · rw [if_pos hf] at h
    by_cases hne : neV q.initial q.initial = true
    · rw [if_pos hne] at h; cases h
    · rw [if_neg hne] at h
      cases h
      exact ⟨⟨fun _ => rfl, fun h2 => by simp [hf] at h2⟩, rfl⟩
  · rw [if_neg hf] at h
    have hf' : q.isfixed = false := by simpa using hf
    cases hlo : q.valmin with
    | none => rw [hlo] at h; cases h
    | some lo =>
      rw [hlo] at h
      simp only at h
      by_cases h1 : q.initial < lo
      · rw [if_pos h1] at h; cases h
      · rw [if_neg h1] at h
        cases hhi : q.valmax with
        | none => rw [hhi] at h; cases h
        | some hi =>
          rw [hhi] at h
          simp only at h
          by_cases h2 : hi < q.initial
          · rw [if_pos h2] at h; cases h
          · rw [if_neg h2] at h
            cases h
            refine ⟨⟨fun h3 => by simp_all, fun _ => ⟨lo, hi, by simp_all, by simp_all, ?_, ?_⟩⟩, rfl⟩ <;>
              simp [outside, h1, h2]

theorem create_wf {name : String} {ini : V} {lo hi : Option V} {fx : Option Bool} {p : Param V}
    (h : Param.create name ini lo hi fx = .ok p) : ParamWF p ∧ p.name = name := by
  unfold Param.create at h
  exact setValue_initial_wf h

theorem makeFixed_props (p : Param V) (ini : Option V) :
    (p.makeFixed ini).name = p.name ∧ ParamWF (p.makeFixed ini) ∧ (p.makeFixed ini).isfixed = true := by
  cases ini with
  | none =>
    refine ⟨rfl, ⟨fun _ => rfl, fun h => ?_⟩, rfl⟩
    have h' : true = false := h
    cases h'
  | some v =>
    simp only [Param.makeFixed]
    repeat' split
    all_goals
      refine ⟨rfl, ⟨fun _ => rfl, fun h => ?_⟩, rfl⟩
      have h' : true = false := h
      cases h'

theorem floatingSettings_ok {p : Param V} {a b c : Option V} {t : V × V × V}
    (h : p.floatingSettings a b c = .ok t) : outside t.1 t.2.1 t.2.2 = false := by
  unfold Param.floatingSettings at h
  simp only at h
  cases hlo : b.or p.valmin with
  | none => rw [hlo] at h; cases h
  | some lo =>
    rw [hlo] at h
    simp only at h
    cases hhi : c.or p.valmax with
    | none => rw [hhi] at h; cases h
    | some hi =>
      rw [hhi] at h
      simp only at h
      by_cases hout : outside (a.getD p.value) lo hi = true
      · rw [if_pos hout] at h; cases h
      · rw [if_neg hout] at h
        cases h
        simpa using hout

theorem applyFloating_props (p : Param V) (t : V × V × V) (h : outside t.1 t.2.1 t.2.2 = false) :
    (p.applyFloating t).name = p.name ∧ ParamWF (p.applyFloating t) ∧ (p.applyFloating t).isfixed = false :=
  ⟨rfl, ⟨fun h3 => by simp [Param.applyFloating] at h3, fun _ => ⟨t.2.1, t.2.2, rfl, rfl, h, h⟩⟩, rfl⟩

/-! ### ParameterSet -/

structure Coherent (s : PSet V) : Prop where
  nodup : (s.params.map (·.name)).Nodup
  mask : s.fixedMask = s.params.map (·.isfixed)
  caches : CachesOf s.params s
  wf : ∀ p ∈ s.params, ParamWF p

theorem coherent_empty : Coherent (PSet.empty : PSet V) :=
  ⟨by simp [PSet.empty], rfl, ⟨rfl, rfl, rfl, fun _ => rfl, fun _ => rfl⟩, by simp [PSet.empty]⟩

theorem hasName_iff {s : PSet V} (hs : Coherent s) (n : String) :
    s.hasName n = true ↔ n ∈ s.params.map (·.name) := by
  rw [mem_names_iff, ← hs.caches.fixedNames, ← hs.caches.floatNames]
  simp [PSet.hasName, or_comm]

theorem addParam_coherent {s s' : PSet V} {p : Param V} {front : Bool} (hs : Coherent s)
    (hp : ParamWF p) (h : s.addParam p front = .ok s') :
    Coherent s' ∧ s'.params = (if front then p :: s.params else s.params ++ [p]) := by
  unfold PSet.addParam at h
  by_cases hno : s.hasName p.name = true
  · simp [hno] at h
  · simp only [hno, if_false, Except.ok.injEq] at h
    have hn : p.name ∉ s.params.map (·.name) := fun hm => hno ((hasName_iff hs _).2 hm)
    have hc := hs.caches
    cases front
    · -- at the back
      simp only [Bool.false_eq_true, if_false] at h
      have hc1 : ∀ b : Bool, CachesOf s.params
          ({ s with params := s.params ++ [p], fixedMask := s.fixedMask ++ [b] } : PSet V) :=
        fun _ => hc.congr rfl rfl rfl rfl rfl
      have hnd : ((s.params ++ [p]).map (·.name)).Nodup := by
        rw [List.map_append, List.nodup_append]
        refine ⟨hs.nodup, by simp, ?_⟩
        intro a ha b hb
        simp only [List.map_cons, List.map_nil, List.mem_singleton] at hb
        subst hb
        intro hab; subst hab; exact hn ha
      have hwf : ∀ q ∈ s.params ++ [p], ParamWF q := by
        intro q hq
        rcases List.mem_append.1 hq with h1 | h1
        · exact hs.wf q h1
        · simp only [List.mem_singleton] at h1; subst h1; exact hp
      cases hf : p.isfixed
      · simp only [hf, Bool.false_eq_true, if_false] at h
        cases h
        exact ⟨⟨hnd, by simp [PSet.pushFloat, hs.mask, hf], by
          have := (hc1 false).pushFloat p hf hn
          simpa [PSet.pushFloat] using this, hwf⟩, by simp [PSet.pushFloat]⟩
      · simp only [hf, if_true] at h
        cases h
        exact ⟨⟨hnd, by simp [PSet.pushFixed, hs.mask, hf], by
          have := (hc1 true).pushFixed p hf hn
          simpa [PSet.pushFixed] using this, hwf⟩, by simp [PSet.pushFixed]⟩
    · -- at the front
      simp only [if_true] at h
      have hnd : ((p :: s.params).map (·.name)).Nodup := by
        rw [List.map_cons, List.nodup_cons]; exact ⟨hn, hs.nodup⟩
      have hwf : ∀ q ∈ p :: s.params, ParamWF q := by
        intro q hq
        rcases List.mem_cons.1 hq with h1 | h1
        · subst h1; exact hp
        · exact hs.wf q h1
      cases hf : p.isfixed
      · simp only [hf, Bool.false_eq_true, if_false] at h
        cases h
        refine ⟨⟨hnd, by simp [hs.mask, hf], ⟨?_, ?_, ?_, ?_, ?_⟩, hwf⟩, rfl⟩
        · simp [hc.fixedNames, List.filter_cons, hf]
        · simp [hc.floatNames, List.filter_cons, hf]
        · simp [hc.fixedVals, List.filter_cons, hf]
        · intro n; simpa using hc.fixedIdx n
        · intro n
          simp only [dget_dset, dget_shift, hc.floatIdx, idxOf?]
      · simp only [hf, if_true] at h
        cases h
        refine ⟨⟨hnd, by simp [hs.mask, hf], ⟨?_, ?_, ?_, ?_, ?_⟩, hwf⟩, rfl⟩
        · simp [hc.fixedNames, List.filter_cons, hf]
        · simp [hc.floatNames, List.filter_cons, hf]
        · simp [hc.fixedVals, List.filter_cons, hf]
        · intro n
          simp only [dget_dset, dget_shift, hc.fixedIdx, idxOf?]
        · intro n; simpa using hc.floatIdx n

/-! ### the fix / float loop -/

theorem set_at_length {α : Type} (pre : List α) (x y : α) (rest : List α) :
    (pre ++ x :: rest).set pre.length y = pre ++ y :: rest := by
  induction pre with
  | nil => rfl
  | cons a pre ih => simp [ih]

theorem validate_ok {f : Param V → Except Err (Option (Param V))} {ps : List (Param V)}
    (h : PSet.validate f ps = .ok ()) : ∀ p ∈ ps, ∃ r, f p = .ok r := by
  induction ps with
  | nil => simp
  | cons p ps ih =>
    unfold PSet.validate at h
    cases hf : f p with
    | error e => rw [hf] at h; cases h
    | ok r =>
      rw [hf] at h
      intro q hq
      rcases List.mem_cons.1 hq with h1 | h1
      · subst h1; exact ⟨r, hf⟩
      · exact ih h q h1

theorem rebuildLoop_ok (f : Param V → Except Err (Option (Param V))) (rest : List (Param V)) (i : Nat)
    (acc : PSet V) (hok : ∀ p ∈ rest, ∃ r, f p = .ok r) :
    (PSet.rebuildLoop f rest i acc).2 = .ok () := by
  induction rest generalizing i acc with
  | nil => rfl
  | cons p rest ih =>
    obtain ⟨r, hr⟩ := hok p (by simp)
    have ih' := fun i acc => ih i acc (fun q hq => hok q (by simp [hq]))
    cases r with
    | none => simp only [PSet.rebuildLoop, hr]; exact ih' _ _
    | some p' => simp only [PSet.rebuildLoop, hr]; exact ih' _ _

theorem not_mem_pre {pre rest : List (Param V)} {p : Param V}
    (h : ((pre ++ p :: rest).map (·.name)).Nodup) : p.name ∉ pre.map (·.name) := by
  rw [List.map_append, List.nodup_append] at h
  obtain ⟨_, _, hd⟩ := h
  intro hm
  exact hd _ hm _ (by simp) rfl

theorem rebuildLoop_spec (f : Param V → Except Err (Option (Param V)))
    (hname : ∀ p p', f p = .ok (some p') → p'.name = p.name)
    (rest pre : List (Param V)) (i : Nat) (acc : PSet V)
    (hi : pre.length = i) (hp : acc.params = pre ++ rest)
    (hm : acc.fixedMask = (pre ++ rest).map (·.isfixed)) (hc : CachesOf pre acc)
    (hnd : ((pre ++ rest).map (·.name)).Nodup) (hok : ∀ p ∈ rest, ∃ r, f p = .ok r) :
    (PSet.rebuildLoop f rest i acc).1.params = pre ++ rest.map (applyF f) ∧
    (PSet.rebuildLoop f rest i acc).1.fixedMask = (pre ++ rest.map (applyF f)).map (·.isfixed) ∧
    CachesOf (pre ++ rest.map (applyF f)) (PSet.rebuildLoop f rest i acc).1 := by
  induction rest generalizing pre i acc with
  | nil =>
    simp only [PSet.rebuildLoop, List.map_nil, List.append_nil] at *
    exact ⟨hp, hm, hc⟩
  | cons p rest ih =>
    obtain ⟨r, hr⟩ := hok p (by simp)
    have hok' : ∀ q ∈ rest, ∃ r, f q = .ok r := fun q hq => hok q (by simp [hq])
    have hnp : p.name ∉ pre.map (·.name) := not_mem_pre hnd
    cases r with
    | none =>
      have hq : applyF f p = p := by simp [applyF, hr]
      simp only [PSet.rebuildLoop, hr, List.map_cons, hq]
      have key : ∀ acc' : PSet V, acc'.params = acc.params → acc'.fixedMask = acc.fixedMask →
          CachesOf (pre ++ [p]) acc' →
          (PSet.rebuildLoop f rest (i + 1) acc').1.params = pre ++ p :: rest.map (applyF f) ∧
          (PSet.rebuildLoop f rest (i + 1) acc').1.fixedMask = (pre ++ p :: rest.map (applyF f)).map (·.isfixed) ∧
          CachesOf (pre ++ p :: rest.map (applyF f)) (PSet.rebuildLoop f rest (i + 1) acc').1 := by
        intro acc' h1 h2 h3
        have := ih (pre ++ [p]) (i + 1) acc' (by simp [hi]) (by simp [h1, hp]) (by simp [h2, hm]) h3
          (by simpa using hnd) hok'
        simpa using this
      cases hf : p.isfixed
      · simp only [Bool.false_eq_true, if_false]
        exact key _ rfl rfl (hc.pushFloat p hf hnp)
      · simp only [if_true]
        exact key _ rfl rfl (hc.pushFixed p hf hnp)
    | some p' =>
      have hq : applyF f p = p' := by simp [applyF, hr]
      have hn' : p'.name = p.name := hname p p' hr
      simp only [PSet.rebuildLoop, hr, List.map_cons, hq]
      have hset : acc.params.set i p' = pre ++ p' :: rest := by
        rw [hp, ← hi]; exact set_at_length pre p p' rest
      have hmset : acc.fixedMask.set i p'.isfixed = (pre ++ p' :: rest).map (·.isfixed) := by
        rw [hm, ← hi]
        simp only [List.map_append, List.map_cons]
        have := set_at_length (pre.map (·.isfixed)) p.isfixed p'.isfixed (rest.map (·.isfixed))
        simpa using this
      have hnp' : p'.name ∉ pre.map (·.name) := by rw [hn']; exact hnp
      have hnd' : ((pre ++ [p'] ++ rest).map (·.name)).Nodup := by
        have : (pre ++ [p'] ++ rest).map (·.name) = (pre ++ p :: rest).map (·.name) := by
          simp [hn']
        rw [this]; exact hnd
      have hc0 : ∀ b : Bool, CachesOf pre
          ({ acc with params := acc.params.set i p', fixedMask := acc.fixedMask.set i b } : PSet V) :=
        fun _ => hc.congr rfl rfl rfl rfl rfl
      have key : ∀ acc' : PSet V, acc'.params = pre ++ p' :: rest →
          acc'.fixedMask = (pre ++ p' :: rest).map (·.isfixed) → CachesOf (pre ++ [p']) acc' →
          (PSet.rebuildLoop f rest (i + 1) acc').1.params = pre ++ p' :: rest.map (applyF f) ∧
          (PSet.rebuildLoop f rest (i + 1) acc').1.fixedMask = (pre ++ p' :: rest.map (applyF f)).map (·.isfixed) ∧
          CachesOf (pre ++ p' :: rest.map (applyF f)) (PSet.rebuildLoop f rest (i + 1) acc').1 := by
        intro acc' h1 h2 h3
        have := ih (pre ++ [p']) (i + 1) acc' (by simp [hi]) (by simp [h1]) (by simp [h2]) h3 hnd' hok'
        simpa using this
      cases hf : p'.isfixed
      · simp only [Bool.false_eq_true, if_false]
        exact key _ (by simpa [PSet.pushFloat] using hset) (by simpa [PSet.pushFloat, hf] using hmset)
          ((hc0 false).pushFloat p' hf hnp')
      · simp only [if_true]
        exact key _ (by simpa [PSet.pushFixed] using hset) (by simpa [PSet.pushFixed, hf] using hmset)
          ((hc0 true).pushFixed p' hf hnp')

theorem applyF_name {f : Param V → Except Err (Option (Param V))}
    (hname : ∀ p p', f p = .ok (some p') → p'.name = p.name) (p : Param V) : (applyF f p).name = p.name := by
  unfold applyF
  split
  · rename_i p' h; exact hname p p' h
  · rfl

theorem applyF_wf {f : Param V → Except Err (Option (Param V))}
    (hwf : ∀ p p', f p = .ok (some p') → ParamWF p') (p : Param V) (hp : ParamWF p) : ParamWF (applyF f p) := by
  unfold applyF
  split
  · rename_i p' h; exact hwf p p' h
  · exact hp

theorem editAll_error (f : Param V → Except Err (Option (Param V))) (s : PSet V) (e : Err)
    (h : (PSet.editAll f s).2 = .error e) : (PSet.editAll f s).1 = s := by
  unfold PSet.editAll at h ⊢
  cases hv : PSet.validate f s.params with
  | error e' => rfl
  | ok u =>
    rw [hv] at h
    simp only at h
    cases u
    rw [rebuildLoop_ok f s.params 0 s.clearCaches (validate_ok hv)] at h
    cases h

theorem editAll_coherent (f : Param V → Except Err (Option (Param V)))
    (hname : ∀ p p', f p = .ok (some p') → p'.name = p.name)
    (hwf : ∀ p p', f p = .ok (some p') → ParamWF p') {s : PSet V} (hs : Coherent s) :
    Coherent (PSet.editAll f s).1 ∧
      ((PSet.editAll f s).2 = .ok () → (PSet.editAll f s).1.params = s.params.map (applyF f)) := by
  unfold PSet.editAll
  cases hv : PSet.validate f s.params with
  | error e' => exact ⟨hs, fun h => by cases h⟩
  | ok u =>
    cases u
    simp only
    have hc0 : CachesOf ([] : List (Param V)) s.clearCaches :=
      ⟨rfl, rfl, rfl, fun _ => rfl, fun _ => rfl⟩
    obtain ⟨h1, h2, h3⟩ := rebuildLoop_spec f hname s.params [] 0 s.clearCaches rfl rfl
      (by simpa [PSet.clearCaches] using hs.mask) hc0 (by simpa using hs.nodup) (validate_ok hv)
    simp only [List.nil_append] at h1 h2 h3
    refine ⟨⟨?_, ?_, ?_, ?_⟩, fun _ => h1⟩
    · rw [h1, List.map_map]
      have : ((fun p : Param V => p.name) ∘ applyF f) = (fun p : Param V => p.name) := by
        funext p; exact applyF_name hname p
      rw [this]; exact hs.nodup
    · rw [h2, h1]
    · rw [h1]; exact h3
    · rw [h1]
      intro q hq
      obtain ⟨p, hp, rfl⟩ := List.mem_map.1 hq
      exact applyF_wf hwf p (hs.wf p hp)

theorem fixF_name (req : List (String × FixVal V)) (p p' : Param V) (h : PSet.fixF req p = .ok (some p')) :
    p'.name = p.name ∧ ParamWF p' := by
  unfold PSet.fixF at h
  cases hd : dget req p.name with
  | none => rw [hd] at h; cases h
  | some x =>
    rw [hd] at h
    simp only at h
    by_cases hf : p.isfixed = true
    · rw [if_pos hf] at h; cases h
    · rw [if_neg hf] at h
      cases x with
      | bad => cases h
      | cur => cases h; exact ⟨(makeFixed_props p none).1, (makeFixed_props p none).2.1⟩
      | val v => cases h; exact ⟨(makeFixed_props p (some v)).1, (makeFixed_props p (some v)).2.1⟩

theorem floatF_name (req : List (String × PSet.FloatEntry V)) (p p' : Param V)
    (h : PSet.floatF req p = .ok (some p')) : p'.name = p.name ∧ ParamWF p' := by
  unfold PSet.floatF at h
  cases hd : dget req p.name with
  | none => rw [hd] at h; cases h
  | some e =>
    rw [hd] at h
    simp only at h
    by_cases hf : (!p.isfixed) = true
    · rw [if_pos hf] at h; cases h
    · rw [if_neg hf] at h
      cases e with
      | short => cases h
      | entry ini lo hi =>
        simp only at h
        split at h
        · cases h
        · split at h
          · rename_i i l hh _ _ _
            unfold Param.makeFloating at h
            cases hs : p.floatingSettings i l hh with
            | error e => rw [hs] at h; cases h
            | ok t =>
              rw [hs] at h
              cases h
              have := applyFloating_props p t (floatingSettings_ok hs)
              exact ⟨this.1, this.2.1⟩
          · cases h

/-! ### value setter, union -/

theorem setValueAux_ok {n : String} {v : V} {ps ps' : List (Param V)} (hw : ∀ p ∈ ps, ParamWF p)
    (h : PSet.setValueAux n v ps = .ok ps') :
    ps'.map (·.name) = ps.map (·.name) ∧ ps'.map (·.isfixed) = ps.map (·.isfixed) ∧
    (ps'.filter (·.isfixed)).map (·.name) = (ps.filter (·.isfixed)).map (·.name) ∧
    (ps'.filter (fun p => !p.isfixed)).map (·.name) = (ps.filter (fun p => !p.isfixed)).map (·.name) ∧
    (ps'.filter (·.isfixed)).map (·.value) = (ps.filter (·.isfixed)).map (·.value) ∧
    (∀ p ∈ ps', ParamWF p) := by
  induction ps generalizing ps' with
  | nil => cases h
  | cons p ps ih =>
    unfold PSet.setValueAux at h
    by_cases hn : p.name = n
    · rw [if_pos hn] at h
      cases hs : p.setValue v with
      | error e => rw [hs] at h; cases h
      | ok p' =>
        rw [hs] at h
        cases h
        obtain ⟨h1, h2, h3, h4⟩ := setValue_ok (hw p (by simp)) hs
        refine ⟨by simp [h1], by simp [h2], ?_, ?_, ?_, ?_⟩
        · simp [List.filter_cons, h2]; split <;> simp [h1]
        · simp [List.filter_cons, h2]; split <;> simp [h1]
        · simp only [List.filter_cons, h2]
          cases hf : p.isfixed
          · simp
          · simp [h3 hf]
        · intro q hq
          rcases List.mem_cons.1 hq with h5 | h5
          · subst h5; exact h4
          · exact hw q (by simp [h5])
    · rw [if_neg hn] at h
      cases hs : PSet.setValueAux n v ps with
      | error e => rw [hs] at h; cases h
      | ok ps'' =>
        rw [hs] at h
        cases h
        obtain ⟨h1, h2, h3, h4, h5, h6⟩ := ih (fun q hq => hw q (by simp [hq])) hs
        refine ⟨by simp [h1], by simp [h2], ?_, ?_, ?_, ?_⟩
        · simp only [List.filter_cons]; split <;> simp [h3]
        · simp only [List.filter_cons]; split <;> simp [h4]
        · simp only [List.filter_cons]; split <;> simp [h5]
        · intro q hq
          rcases List.mem_cons.1 hq with h7 | h7
          · subst h7; exact hw _ (by simp)
          · exact h6 q h7

theorem setValue_coherent {s : PSet V} (hs : Coherent s) (n : String) (v : V) :
    Coherent (s.setValue n v).1 := by
  unfold PSet.setValue
  cases h : PSet.setValueAux n v s.params with
  | error e => exact hs
  | ok ps' =>
    obtain ⟨h1, h2, h3, h4, h5, h6⟩ := setValueAux_ok hs.wf h
    have hc := hs.caches
    exact ⟨by simpa [h1] using hs.nodup, by simpa [h2] using hs.mask,
      ⟨by simpa [h3] using hc.fixedNames, by simpa [h4] using hc.floatNames, by simpa [h5] using hc.fixedVals,
       hc.fixedIdx, hc.floatIdx⟩, h6⟩

theorem addAll_coherent {s s' : PSet V} {ps : List (Param V)} (hs : Coherent s) (hw : ∀ p ∈ ps, ParamWF p)
    (h : PSet.addAll s ps = .ok s') : Coherent s' := by
  induction ps generalizing s with
  | nil => cases h; exact hs
  | cons p ps ih =>
    unfold PSet.addAll at h
    cases ha : s.addParam p false with
    | error e => rw [ha] at h; cases h
    | ok s1 =>
      rw [ha] at h
      exact ih (addParam_coherent hs (hw p (by simp)) ha).1 (fun q hq => hw q (by simp [hq])) h

theorem addMissing_coherent {s s' : PSet V} {ps : List (Param V)} (hs : Coherent s) (hw : ∀ p ∈ ps, ParamWF p)
    (h : PSet.addMissing s ps = .ok s') : Coherent s' := by
  induction ps generalizing s with
  | nil => cases h; exact hs
  | cons p ps ih =>
    unfold PSet.addMissing at h
    have hw' : ∀ q ∈ ps, ParamWF q := fun q hq => hw q (by simp [hq])
    by_cases hn : s.hasName p.name = true
    · rw [if_pos hn] at h; exact ih hs hw' h
    · rw [if_neg hn] at h
      cases ha : s.addParam p false with
      | error e => rw [ha] at h; cases h
      | ok s1 =>
        rw [ha] at h
        exact ih (addParam_coherent hs (hw p (by simp)) ha).1 hw' h

theorem union_coherent {a b u : PSet V} (ha : Coherent a) (hb : Coherent b) (h : PSet.union a b = .ok u) :
    Coherent u := by
  unfold PSet.union at h
  cases h1 : PSet.addAll PSet.empty a.params with
  | error e => rw [h1] at h; cases h
  | ok u0 =>
    rw [h1] at h
    exact addMissing_coherent (addAll_coherent coherent_empty ha.wf h1) hb.wf h

theorem createAll_wf {as : List (PArgs V)} {ps : List (Param V)} (h : createAll as = .ok ps) :
    ∀ p ∈ ps, ParamWF p := by
  induction as generalizing ps with
  | nil => cases h; simp
  | cons a as ih =>
    unfold createAll at h
    cases h1 : a.create with
    | error e => rw [h1] at h; cases h
    | ok p =>
      cases h2 : createAll as with
      | error e => rw [h1, h2] at h; cases h
      | ok ps0 =>
        rw [h1, h2] at h
        cases h
        intro q hq
        rcases List.mem_cons.1 hq with h3 | h3
        · subst h3; exact (create_wf h1).1
        · exact ih h2 q h3

/-! ### what `_params` becomes (simulation of the specification machine) -/

theorem addParam_ok {s : PSet V} (hs : Coherent s) {p : Param V} (hp : ParamWF p) (front : Bool)
    (hn : p.name ∉ s.params.map (·.name)) :
    ∃ s', s.addParam p front = .ok s' ∧ Coherent s' ∧
      s'.params = (if front then p :: s.params else s.params ++ [p]) := by
  have hno : ¬ s.hasName p.name = true := fun h => hn ((hasName_iff hs _).1 h)
  have : ∃ s', s.addParam p front = .ok s' := by
    unfold PSet.addParam
    rw [if_neg hno]
    exact ⟨_, rfl⟩
  obtain ⟨s', h⟩ := this
  exact ⟨s', h, (addParam_coherent hs hp h).1, (addParam_coherent hs hp h).2⟩

theorem addParam_dup {s : PSet V} (hs : Coherent s) (p : Param V) (front : Bool)
    (h : p.name ∈ s.params.map (·.name)) : s.addParam p front = .error .keyError := by
  unfold PSet.addParam
  simp [(hasName_iff hs p.name).2 h]

theorem addAll_params {s : PSet V} {ps : List (Param V)} (hs : Coherent s) (hw : ∀ p ∈ ps, ParamWF p)
    (hnd : ((s.params ++ ps).map (·.name)).Nodup) :
    ∃ s', PSet.addAll s ps = .ok s' ∧ Coherent s' ∧ s'.params = s.params ++ ps := by
  induction ps generalizing s with
  | nil => exact ⟨s, rfl, hs, by simp⟩
  | cons p ps ih =>
    have hn : p.name ∉ s.params.map (·.name) := not_mem_pre hnd
    obtain ⟨s1, h1, hc1, hp1⟩ := addParam_ok hs (hw p (by simp)) false hn
    simp only [Bool.false_eq_true, if_false] at hp1
    obtain ⟨s', h2, hc2, hp2⟩ := ih hc1 (fun q hq => hw q (by simp [hq])) (by rw [hp1]; simpa using hnd)
    refine ⟨s', ?_, hc2, by rw [hp2, hp1]; simp⟩
    unfold PSet.addAll
    rw [h1]
    exact h2

theorem addAll_dup {s : PSet V} {ps : List (Param V)} (hs : Coherent s) (hw : ∀ p ∈ ps, ParamWF p)
    (hnd : ¬ ((s.params ++ ps).map (·.name)).Nodup) : PSet.addAll s ps = .error .keyError := by
  induction ps generalizing s with
  | nil => exact absurd (by simpa using hs.nodup) hnd
  | cons p ps ih =>
    unfold PSet.addAll
    by_cases hn : p.name ∈ s.params.map (·.name)
    · rw [addParam_dup hs p false hn]
    · obtain ⟨s1, h1, hc1, hp1⟩ := addParam_ok hs (hw p (by simp)) false hn
      simp only [Bool.false_eq_true, if_false] at hp1
      rw [h1]
      exact ih hc1 (fun q hq => hw q (by simp [hq])) (by rw [hp1]; simpa using hnd)

theorem addMissing_params {s : PSet V} {ps : List (Param V)} (hs : Coherent s) (hw : ∀ p ∈ ps, ParamWF p)
    (hnd : (ps.map (·.name)).Nodup) :
    ∃ s', PSet.addMissing s ps = .ok s' ∧ Coherent s' ∧
      s'.params = s.params ++ ps.filter (fun p => !(s.params.map (·.name)).contains p.name) := by
  induction ps generalizing s with
  | nil => exact ⟨s, rfl, hs, by simp⟩
  | cons p ps ih =>
    have hw' : ∀ q ∈ ps, ParamWF q := fun q hq => hw q (by simp [hq])
    have hnd' : (ps.map (·.name)).Nodup := by
      rw [List.map_cons, List.nodup_cons] at hnd; exact hnd.2
    have hpn : p.name ∉ ps.map (·.name) := by
      rw [List.map_cons, List.nodup_cons] at hnd; exact hnd.1
    unfold PSet.addMissing
    by_cases hn : p.name ∈ s.params.map (·.name)
    · rw [if_pos ((hasName_iff hs _).2 hn)]
      obtain ⟨s', h2, hc2, hp2⟩ := ih hs hw' hnd'
      refine ⟨s', h2, hc2, ?_⟩
      rw [hp2, List.filter_cons]
      simp
      exact List.mem_map.1 hn
    · rw [if_neg (fun h => hn ((hasName_iff hs _).1 h))]
      obtain ⟨s1, h1, hc1, hp1⟩ := addParam_ok hs (hw p (by simp)) false hn
      simp only [Bool.false_eq_true, if_false] at hp1
      rw [h1]
      obtain ⟨s', h2, hc2, hp2⟩ := ih hc1 hw' hnd'
      refine ⟨s', h2, hc2, ?_⟩
      rw [hp2, hp1, List.filter_cons]
      have hc : (s.params.map (·.name)).contains p.name = false := by
        cases h : (s.params.map (·.name)).contains p.name
        · rfl
        · exact absurd (List.contains_iff_mem.1 h) hn
      have hfil : ps.filter (fun q => !((s.params ++ [p]).map (·.name)).contains q.name) =
          ps.filter (fun q => !(s.params.map (·.name)).contains q.name) := by
        apply List.filter_congr
        intro q hq
        have hqp : q.name ≠ p.name := fun h => hpn (by rw [← h]; exact List.mem_map_of_mem hq)
        simp [List.contains_iff_mem, hqp]
      rw [hfil]
      simp
      intro x hx h
      exact hn (List.mem_map.2 ⟨x, hx, h⟩)

theorem union_params {a b : PSet V} (ha : Coherent a) (hb : Coherent b) :
    ∃ u, PSet.union a b = .ok u ∧ Coherent u ∧ u.params = Spec.unionList a.params b.params := by
  obtain ⟨u0, h0, hc0, hp0⟩ := addAll_params (s := PSet.empty) (ps := a.params) coherent_empty ha.wf
    (by simpa [PSet.empty] using ha.nodup)
  have hp0' : u0.params = a.params := by simpa [PSet.empty] using hp0
  obtain ⟨u, h1, hc1, hp1⟩ := addMissing_params hc0 hb.wf hb.nodup
  refine ⟨u, ?_, hc1, by rw [hp1, hp0']; rfl⟩
  unfold PSet.union
  rw [h0]
  exact h1

theorem setValue_eq {p p' : Param V} {v : V} (h : p.setValue v = .ok p') : p' = { p with value := v } := by
  unfold Param.setValue at h
  split at h
  · split at h
    · cases h
    · cases h; rfl
  · split at h
    · cases h
    · split at h
      · cases h
      · split at h
        · cases h
        · split at h
          · cases h
          · cases h; rfl

theorem setValueAux_spec (n : String) (v : V) (ps : List (Param V)) (hnd : (ps.map (·.name)).Nodup) :
    PSet.setValueAux n v ps = match ps.find? (fun p => p.name = n) with
      | none => .error .keyError
      | some p => match p.setValue v with
        | .error e => .error e
        | .ok _ => .ok (ps.map (fun q => if q.name = n then { q with value := v } else q)) := by
  induction ps with
  | nil => rfl
  | cons p ps ih =>
    rw [List.map_cons, List.nodup_cons] at hnd
    unfold PSet.setValueAux
    by_cases hn : p.name = n
    · rw [if_pos hn]
      simp only [List.find?_cons, hn, decide_true]
      cases hs : p.setValue v with
      | error e => rfl
      | ok p' =>
        simp only
        have htail : ps.map (fun q => if q.name = n then { q with value := v } else q) = ps := by
          conv_rhs => rw [← List.map_id ps]
          apply List.map_congr_left
          intro q hq
          have : q.name ≠ n := fun h => hnd.1 (by rw [hn, ← h]; exact List.mem_map_of_mem hq)
          simp [this]
        simp only [List.map_cons, hn, if_true, htail, setValue_eq hs]
    · rw [if_neg hn, ih hnd.2]
      simp only [List.find?_cons, hn, decide_false]
      cases ps.find? (fun p => p.name = n) with
      | none => rfl
      | some q =>
        simp only
        cases q.setValue v with
        | error e => rfl
        | ok q' => simp [hn]

theorem editAll_simulates (f : Param V → Except Err (Option (Param V)))
    (hname : ∀ p p', f p = .ok (some p') → p'.name = p.name)
    (hwf : ∀ p p', f p = .ok (some p') → ParamWF p') {s : PSet V} (hs : Coherent s) :
    ((PSet.editAll f s).1.params, (PSet.editAll f s).2) = Spec.editAll f s.params := by
  have h2 := (editAll_coherent f hname hwf hs).2
  unfold Spec.editAll
  unfold PSet.editAll at h2 ⊢
  cases hv : PSet.validate f s.params with
  | error e => rfl
  | ok u =>
    cases u
    rw [hv] at h2
    simp only at h2 ⊢
    have hok := rebuildLoop_ok f s.params 0 s.clearCaches (validate_ok hv)
    rw [h2 hok, hok]

/-! ### `change_fixed_value` + `update_fixed_param_value_cache` -/

/-- everything of `Coherent` except the content of the fixed value cache (its length is right) -/
structure CoherentModVals (s : PSet V) : Prop where
  nodup : (s.params.map (·.name)).Nodup
  mask : s.fixedMask = s.params.map (·.isfixed)
  fixedNames : s.fixedNames = (s.params.filter (·.isfixed)).map (·.name)
  floatNames : s.floatNames = (s.params.filter (fun p => !p.isfixed)).map (·.name)
  fixedIdx : ∀ n, dget s.fixedIdx n = idxOf? n s.fixedNames
  floatIdx : ∀ n, dget s.floatIdx n = idxOf? n s.floatNames
  wf : ∀ p ∈ s.params, ParamWF p
  valsLen : s.fixedVals.length = (s.params.filter (·.isfixed)).length

theorem Coherent.modVals {s : PSet V} (h : Coherent s) : CoherentModVals s :=
  ⟨h.nodup, h.mask, h.caches.fixedNames, h.caches.floatNames, h.caches.fixedIdx, h.caches.floatIdx, h.wf,
   by rw [h.caches.fixedVals, List.length_map]⟩

omit [LinearOrder V] in
theorem overwrite_same_length (cache xs : List V) (h : cache.length = xs.length) :
    PSet.overwrite cache xs = (xs, .ok ()) := by
  induction xs generalizing cache with
  | nil =>
    cases cache with
    | nil => rfl
    | cons c cache => simp at h
  | cons x xs ih =>
    cases cache with
    | nil => simp at h
    | cons c cache =>
      simp only [PSet.overwrite, ih cache (by simpa using h)]

theorem updateCache_coherent {s : PSet V} (h : CoherentModVals s) :
    s.updateFixedValueCache.2 = .ok () ∧ Coherent s.updateFixedValueCache.1 ∧
    s.updateFixedValueCache.1.params = s.params := by
  have hsel : maskSel s.params s.fixedMask = .ok (s.params.filter (·.isfixed)) := by
    rw [h.mask, maskSel_map]
  unfold PSet.updateFixedValueCache
  rw [hsel]
  simp only
  rw [overwrite_same_length _ _ (by rw [h.valsLen, List.length_map])]
  refine ⟨rfl, ⟨h.nodup, h.mask, ⟨h.fixedNames, h.floatNames, ?_, h.fixedIdx, h.floatIdx⟩, h.wf⟩, ?_⟩
  · rfl
  · trivial

theorem changeFixedValue_eq {p p' : Param V} {v : V} (h : p.changeFixedValue v = .ok p') :
    p' = { p with initial := v, value := v } ∧ p.isfixed = true := by
  unfold Param.changeFixedValue at h
  by_cases hf : (!p.isfixed) = true
  · rw [if_pos hf] at h; cases h
  · rw [if_neg hf] at h
    have hf' : p.isfixed = true := by simpa using hf
    exact ⟨by rw [setValue_eq h], hf'⟩

theorem changeFixedAux_ok {n : String} {v : V} {ps ps' : List (Param V)} (hw : ∀ p ∈ ps, ParamWF p)
    (h : PSet.changeFixedAux n v ps = .ok ps') :
    ps'.map (·.name) = ps.map (·.name) ∧ ps'.map (·.isfixed) = ps.map (·.isfixed) ∧
    (ps'.filter (·.isfixed)).map (·.name) = (ps.filter (·.isfixed)).map (·.name) ∧
    (ps'.filter (fun p => !p.isfixed)).map (·.name) = (ps.filter (fun p => !p.isfixed)).map (·.name) ∧
    (ps'.filter (·.isfixed)).length = (ps.filter (·.isfixed)).length ∧
    (∀ p ∈ ps', ParamWF p) := by
  induction ps generalizing ps' with
  | nil => cases h
  | cons p ps ih =>
    unfold PSet.changeFixedAux at h
    by_cases hn : p.name = n
    · rw [if_pos hn] at h
      cases hs : p.changeFixedValue v with
      | error e => rw [hs] at h; cases h
      | ok p' =>
        rw [hs] at h
        cases h
        obtain ⟨he, hf⟩ := changeFixedValue_eq hs
        subst he
        refine ⟨by simp, by simp, by simp [List.filter_cons, hf], by simp [List.filter_cons, hf],
          by simp [List.filter_cons, hf], ?_⟩
        intro q hq
        rcases List.mem_cons.1 hq with h5 | h5
        · subst h5
          exact ⟨fun _ => rfl, fun h2 => by simp [hf] at h2⟩
        · exact hw q (by simp [h5])
    · rw [if_neg hn] at h
      cases hs : PSet.changeFixedAux n v ps with
      | error e => rw [hs] at h; cases h
      | ok ps'' =>
        rw [hs] at h
        cases h
        obtain ⟨h1, h2, h3, h4, h5, h6⟩ := ih (fun q hq => hw q (by simp [hq])) hs
        refine ⟨by simp [h1], by simp [h2], ?_, ?_, ?_, ?_⟩
        · simp only [List.filter_cons]; split <;> simp [h3]
        · simp only [List.filter_cons]; split <;> simp [h4]
        · simp only [List.filter_cons]; split <;> simp [h5]
        · intro q hq
          rcases List.mem_cons.1 hq with h7 | h7
          · subst h7; exact hw _ (by simp)
          · exact h6 q h7

theorem changeFixedRaw_modVals {s : PSet V} (hs : Coherent s) (n : String) (v : V) :
    CoherentModVals (s.changeFixedRaw n v).1 := by
  unfold PSet.changeFixedRaw
  cases h : PSet.changeFixedAux n v s.params with
  | error e => exact hs.modVals
  | ok ps' =>
    obtain ⟨h1, h2, h3, h4, h5, h6⟩ := changeFixedAux_ok hs.wf h
    have hc := hs.caches
    exact ⟨by simpa [h1] using hs.nodup, by simpa [h2] using hs.mask, by simpa [h3] using hc.fixedNames,
      by simpa [h4] using hc.floatNames, hc.fixedIdx, hc.floatIdx, h6,
      by simp only [h5]; rw [hc.fixedVals, List.length_map]⟩

theorem changeFixedValue_coherent {s : PSet V} (hs : Coherent s) (n : String) (v : V) :
    Coherent (s.changeFixedValue n v).1 ∧ (∀ e, (s.changeFixedValue n v).2 = .error e → (s.changeFixedValue n v).1 = s) := by
  have hm := changeFixedRaw_modVals hs n v
  unfold PSet.changeFixedValue
  unfold PSet.changeFixedRaw at hm ⊢
  cases h : PSet.changeFixedAux n v s.params with
  | error e => exact ⟨hs, fun _ _ => rfl⟩
  | ok ps' =>
    rw [h] at hm
    simp only at hm ⊢
    obtain ⟨h1, h2, _⟩ := updateCache_coherent hm
    exact ⟨h2, fun e he => by rw [h1] at he; cases he⟩

theorem changeFixedAux_spec (n : String) (v : V) (ps : List (Param V)) (hnd : (ps.map (·.name)).Nodup) :
    PSet.changeFixedAux n v ps = match ps.find? (fun p => p.name = n) with
      | none => .error .keyError
      | some p => match p.changeFixedValue v with
        | .error e => .error e
        | .ok _ => .ok (ps.map (fun q => if q.name = n then { q with initial := v, value := v } else q)) := by
  induction ps with
  | nil => rfl
  | cons p ps ih =>
    rw [List.map_cons, List.nodup_cons] at hnd
    unfold PSet.changeFixedAux
    by_cases hn : p.name = n
    · rw [if_pos hn]
      simp only [List.find?_cons, hn, decide_true]
      cases hs : p.changeFixedValue v with
      | error e => rfl
      | ok p' =>
        simp only
        have htail : ps.map (fun q => if q.name = n then { q with initial := v, value := v } else q) = ps := by
          conv_rhs => rw [← List.map_id ps]
          apply List.map_congr_left
          intro q hq
          have : q.name ≠ n := fun h => hnd.1 (by rw [hn, ← h]; exact List.mem_map_of_mem hq)
          simp [this]
        simp only [List.map_cons, hn, if_true, htail, (changeFixedValue_eq hs).1]
    · rw [if_neg hn, ih hnd.2]
      simp only [List.find?_cons, hn, decide_false]
      cases ps.find? (fun p => p.name = n) with
      | none => rfl
      | some q =>
        simp only
        cases q.changeFixedValue v with
        | error e => rfl
        | ok q' => simp [hn]

theorem changeFixedValue_simulates {s : PSet V} (hs : Coherent s) (n : String) (v : V) :
    ((s.changeFixedValue n v).1.params, (s.changeFixedValue n v).2) =
      match PSet.changeFixedAux n v s.params with
      | .ok ps' => (ps', .ok ())
      | .error e => (s.params, .error e) := by
  have hm := changeFixedRaw_modVals hs n v
  unfold PSet.changeFixedValue
  unfold PSet.changeFixedRaw at hm ⊢
  cases h : PSet.changeFixedAux n v s.params with
  | error e => rfl
  | ok ps' =>
    rw [h] at hm
    simp only at hm ⊢
    obtain ⟨h1, _, h3⟩ := updateCache_coherent hm
    rw [h1, h3]

theorem changeFixedValue_length {s : PSet V} (hs : Coherent s) (n : String) (v : V) :
    (s.changeFixedValue n v).1.params.length = s.params.length := by
  have h := congrArg Prod.fst (changeFixedValue_simulates hs n v)
  simp only at h
  rw [h]
  cases hc : PSet.changeFixedAux n v s.params with
  | error e => rfl
  | ok ps' =>
    have := congrArg List.length (changeFixedAux_ok hs.wf hc).1
    simpa using this

/-! ### n-ary union -/

theorem addMissingAll_params {u : PSet V} {bs : List (PSet V)} (hu : Coherent u) (hb : ∀ b ∈ bs, Coherent b) :
    ∃ u', PSet.addMissingAll u bs = .ok u' ∧ Coherent u' ∧
      u'.params = bs.foldl (fun acc b => Spec.unionList acc b.params) u.params := by
  induction bs generalizing u with
  | nil => exact ⟨u, rfl, hu, rfl⟩
  | cons b bs ih =>
    have hbc := hb b (by simp)
    obtain ⟨u1, h1, hc1, hp1⟩ := addMissing_params hu hbc.wf hbc.nodup
    obtain ⟨u', h2, hc2, hp2⟩ := ih hc1 (fun x hx => hb x (by simp [hx]))
    refine ⟨u', ?_, hc2, ?_⟩
    · unfold PSet.addMissingAll; rw [h1]; exact h2
    · rw [hp2, hp1]; rfl

theorem unionN_params {a : PSet V} {rest : List (PSet V)} (ha : Coherent a) (hr : ∀ b ∈ rest, Coherent b) :
    ∃ u, PSet.unionN (a :: rest) = .ok u ∧ Coherent u ∧
      u.params = Spec.unionAll ((a :: rest).map (·.params)) := by
  obtain ⟨u0, h0, hc0, hp0⟩ := addAll_params (s := PSet.empty) (ps := a.params) coherent_empty ha.wf
    (by simpa [PSet.empty] using ha.nodup)
  have hp0' : u0.params = a.params := by simpa [PSet.empty] using hp0
  obtain ⟨u, h1, hc1, hp1⟩ := addMissingAll_params hc0 hr
  refine ⟨u, ?_, hc1, ?_⟩
  · simp only [PSet.unionN, h0]; exact h1
  · rw [hp1, hp0']
    simp only [List.map_cons, Spec.unionAll, List.foldl_map]

theorem createSets_spec (others : List (List (PArgs V))) :
    match Spec.createLists others with
    | .error e => createSets others = .error e
    | .ok oss => ∃ ts, createSets others = .ok ts ∧ ts.map (·.params) = oss ∧ ∀ t ∈ ts, Coherent t := by
  induction others with
  | nil => exact ⟨[], rfl, rfl, by simp⟩
  | cons o os ih =>
    unfold Spec.createLists createSets
    cases hc : createAll o with
    | error e => rfl
    | ok ps =>
      simp only
      have hw := createAll_wf hc
      by_cases hnd : (ps.map (·.name)).Nodup
      · rw [if_pos hnd]
        obtain ⟨t, ht, htc, htp⟩ := addAll_params (s := PSet.empty) (ps := ps) coherent_empty hw
          (by simpa [PSet.empty] using hnd)
        have htp' : t.params = ps := by simpa [PSet.empty] using htp
        rw [ht]
        simp only
        cases hl : Spec.createLists os with
        | error e => rw [hl] at ih; simp only at ih ⊢; rw [ih]
        | ok oss =>
          rw [hl] at ih
          obtain ⟨ts, h1, h2, h3⟩ := ih
          simp only
          refine ⟨t :: ts, by rw [h1], by simp [htp', h2], ?_⟩
          intro x hx
          rcases List.mem_cons.1 hx with h4 | h4
          · subst h4; exact htc
          · exact h3 x h4
      · rw [if_neg hnd, addAll_dup (s := PSet.empty) coherent_empty hw (by simpa [PSet.empty] using hnd)]

omit [LinearOrder V] in
theorem insertAt_ne_nil {α : Type} (l : List α) (pos : Nat) (x : α) : insertAt l pos x ≠ [] := by
  unfold insertAt; simp

omit [LinearOrder V] in
theorem map_insertAt {α β : Type} (f : α → β) (l : List α) (pos : Nat) (x : α) :
    (insertAt l pos x).map f = insertAt (l.map f) pos (f x) := by
  unfold insertAt; simp [List.map_take, List.map_drop]

theorem unionN_insert {s : PSet V} (hs : Coherent s) {ts : List (PSet V)} (ht : ∀ t ∈ ts, Coherent t) (pos : Nat) :
    ∃ u, PSet.unionN (insertAt ts pos s) = .ok u ∧ Coherent u ∧
      u.params = Spec.unionAll (insertAt (ts.map (·.params)) pos s.params) := by
  have hall : ∀ x ∈ insertAt ts pos s, Coherent x := by
    intro x hx
    unfold insertAt at hx
    rcases List.mem_append.1 hx with h | h
    · exact ht x (List.mem_of_mem_take h)
    · rcases List.mem_cons.1 h with h | h
      · subst h; exact hs
      · exact ht x (List.mem_of_mem_drop h)
  rw [← map_insertAt]
  cases hl : insertAt ts pos s with
  | nil => exact absurd hl (insertAt_ne_nil ts pos s)
  | cons a rest =>
    rw [hl] at hall
    exact unionN_params (hall a (by simp)) (fun b hb => hall b (by simp [hb]))

end order

/-! ### the per-source table -/

/-- the floating part of the row entries, by recursion in declaration order
(`j` = number of floating parameters passed so far = index of the fit parameter) -/
def flEntries : List (Param V) → List (Option String) → Nat → List V → List (String × V × Int)
  | p :: ps, r :: row, j, g =>
    if p.isfixed then flEntries ps row j g
    else match g with
      | v :: g' => (match r with
          | some a => [(a, v, (j : Int) + 1)]
          | none => []) ++ flEntries ps row (j + 1) g'
      | [] => []
  | _, _, _, _ => []

/-- the fixed part -/
def fxEntries : List (Param V) → List (Option String) → Nat → List (String × V × Int)
  | p :: ps, r :: row, j =>
    if p.isfixed then (match r with
        | some a => [(a, p.value, -((j : Int) + 1))]
        | none => []) ++ fxEntries ps row (j + 1)
    else fxEntries ps row (j + 1)
  | _, _, _ => []

theorem lastLookup_append {β : Type} (k : String) (l1 l2 : List (String × β)) :
    lastLookup k (l1 ++ l2) = match lastLookup k l2 with
      | some w => some w
      | none => lastLookup k l1 := by
  induction l1 with
  | nil => simp only [List.nil_append, lastLookup]; cases lastLookup k l2 <;> rfl
  | cons kv l1 ih =>
    obtain ⟨k', v⟩ := kv
    simp only [List.cons_append, lastLookup, ih]
    cases lastLookup k l2 <;> simp

theorem lastLookup_cons {β : Type} (k k' : String) (v : β) (d : List (String × β)) :
    lastLookup k ((k', v) :: d) = match lastLookup k d with
      | some w => some w
      | none => if k' = k then some v else none := rfl

theorem lastLookup_none {β : Type} {k : String} {l : List (String × β)} (h : ∀ e ∈ l, e.1 ≠ k) :
    lastLookup k l = none := by
  induction l with
  | nil => rfl
  | cons kv l ih =>
    obtain ⟨k', v⟩ := kv
    have h1 : k' ≠ k := h (k', v) (by simp)
    simp [lastLookup, ih (fun e he => h e (by simp [he])), h1]

theorem flEntries_keys (ps : List (Param V)) (row : List (Option String)) (j : Nat) (g : List V) :
    ∀ e ∈ flEntries ps row j g, some e.1 ∈ row := by
  induction ps generalizing row j g with
  | nil => intro e he; simp [flEntries] at he
  | cons p ps ih =>
    cases row with
    | nil => intro e he; simp [flEntries] at he
    | cons r row =>
      intro e he
      unfold flEntries at he
      by_cases hf : p.isfixed = true
      · rw [if_pos hf] at he
        exact List.mem_cons_of_mem _ (ih row j g e he)
      · rw [if_neg hf] at he
        cases g with
        | nil => simp at he
        | cons v g' =>
          simp only [List.mem_append] at he
          rcases he with h1 | h1
          · cases r with
            | none => simp at h1
            | some a => simp only [List.mem_singleton] at h1; subst h1; simp
          · exact List.mem_cons_of_mem _ (ih row (j + 1) g' e h1)

theorem fxEntries_keys (ps : List (Param V)) (row : List (Option String)) (j : Nat) :
    ∀ e ∈ fxEntries ps row j, some e.1 ∈ row := by
  induction ps generalizing row j with
  | nil => intro e he; simp [fxEntries] at he
  | cons p ps ih =>
    cases row with
    | nil => intro e he; simp [fxEntries] at he
    | cons r row =>
      intro e he
      unfold fxEntries at he
      by_cases hf : p.isfixed = true
      · rw [if_pos hf] at he
        simp only [List.mem_append] at he
        rcases he with h1 | h1
        · cases r with
          | none => simp at h1
          | some a => simp only [List.mem_singleton] at h1; subst h1; simp
        · exact List.mem_cons_of_mem _ (ih row (j + 1) e h1)
      · rw [if_neg hf] at he
        exact List.mem_cons_of_mem _ (ih row (j + 1) e he)

/-- the last assignment under local name `a` is the specification's cell -/
theorem cell_eq (a : String) (ps : List (Param V)) (row : List (Option String)) (j k : Nat)
    (g : List V) (hl : row.length = ps.length) (hg : g.length = (ps.filter (fun p => !p.isfixed)).length)
    (hnd : (row.filterMap id).Nodup) :
    lastLookup a (flEntries ps row k g ++ fxEntries ps row j) = Spec.cell a ps row j k g := by
  induction ps generalizing row j k g with
  | nil =>
    cases row with
    | nil => simp [flEntries, fxEntries, lastLookup, Spec.cell]
    | cons r row => simp at hl
  | cons p ps ih =>
    cases row with
    | nil => simp at hl
    | cons r row =>
      have hl' : row.length = ps.length := by simpa using hl
      have hnd' : (row.filterMap id).Nodup := by
        cases r with
        | none => simpa using hnd
        | some x => simp only [List.filterMap_cons, id, List.nodup_cons] at hnd; exact hnd.2
      have hfresh : r = some a → ∀ (l : List (String × V × Int)), (∀ e ∈ l, some e.1 ∈ row) →
          lastLookup a l = none := by
        intro hr l hk
        subst hr
        simp only [List.filterMap_cons, id, List.nodup_cons] at hnd
        apply lastLookup_none
        intro e he hea
        apply hnd.1
        rw [List.mem_filterMap]
        exact ⟨some e.1, hk e he, by simp [hea]⟩
      by_cases hf : p.isfixed = true
      · have hg' : g.length = (ps.filter (fun p => !p.isfixed)).length := by
          simpa [List.filter_cons, hf] using hg
        have IH := ih row (j + 1) k g hl' hg' hnd'
        unfold flEntries fxEntries Spec.cell
        simp only [hf, if_true]
        by_cases hr : r = some a
        · have h1 := hfresh hr _ (flEntries_keys ps row k g)
          have h2 := hfresh hr _ (fxEntries_keys ps row (j + 1))
          subst hr
          simp [lastLookup_append, h1, h2, lastLookup]
        · rw [if_neg hr, ← IH]
          cases r with
          | none => simp
          | some a' =>
            have hne : a' ≠ a := fun h => hr (by rw [h])
            simp only [lastLookup_append, lastLookup, hne, if_false]
            cases lastLookup a (fxEntries ps row (j + 1)) <;> simp
      · cases g with
        | nil => simp [List.filter_cons, hf] at hg
        | cons v g' =>
          have hg' : g'.length = (ps.filter (fun p => !p.isfixed)).length := by
            simpa [List.filter_cons, hf] using hg
          have IH := ih row (j + 1) (k + 1) g' hl' hg' hnd'
          have hf' : p.isfixed = false := by simpa using hf
          unfold flEntries fxEntries Spec.cell
          simp only [hf', Bool.false_eq_true, if_false]
          by_cases hr : r = some a
          · have h1 := hfresh hr _ (flEntries_keys ps row (k + 1) g')
            have h2 := hfresh hr _ (fxEntries_keys ps row (j + 1))
            subst hr
            simp [lastLookup_append, h1, h2, lastLookup]
          · rw [if_neg hr, ← IH]
            cases r with
            | none => simp
            | some a' =>
              have hne : a' ≠ a := fun h => hr (by rw [h])
              simp only [List.singleton_append, lastLookup_append, lastLookup_cons, hne, if_false]
              cases lastLookup a (fxEntries ps row (j + 1)) <;>
                cases lastLookup a (flEntries ps row (k + 1) g') <;> rfl


/-! ### the boolean-mask form of the row entries equals the recursion -/

/-- entries of the parameters selected by `c`: one value of `xs` per selected parameter, the index
entry is taken from the list `idx` that runs along with the parameters -/
def gEntries (c : Param V → Bool) (ι : Int → Int) :
    List (Param V) → List (Option String) → List Int → List V → List (String × V × Int)
  | p :: ps, r :: row, ix :: idx, xs =>
    if c p then
      match xs with
      | v :: xs' => (match r with
          | some a => [(a, v, ι ix)]
          | none => []) ++ gEntries c ι ps row idx xs'
      | [] => []
    else gEntries c ι ps row idx xs
  | _, _, _, _ => []

theorem flEntries_eq (ps : List (Param V)) (row : List (Option String)) (k : Nat) (g : List V) :
    flEntries ps row k g = gEntries (fun p => !p.isfixed) (fun i => i + 1) ps row
      (PMM.cumsumM1 (ps.map (fun p => !p.isfixed)) (k : Int)) g := by
  induction ps generalizing row k g with
  | nil => simp [flEntries, gEntries]
  | cons p ps ih =>
    cases row with
    | nil => simp [flEntries, gEntries]
    | cons r row =>
      simp only [List.map_cons, PMM.cumsumM1]
      unfold flEntries gEntries
      cases hf : p.isfixed
      · cases g with
        | nil => simp
        | cons v g' =>
          have hk : ((k : Int) + 1) = ((k + 1 : Nat) : Int) := by push_cast; ring
          simp only [Bool.not_false, if_true, Bool.false_eq_true, if_false, hk, ← ih]
          cases r with
          | none => rfl
          | some a =>
            simp only [List.singleton_append, List.cons.injEq, Prod.mk.injEq, true_and, and_true]
            push_cast; ring
      · simp [← ih]

theorem fxEntries_eq (ps : List (Param V)) (row : List (Option String)) (j : Nat) :
    fxEntries ps row j = gEntries (fun p => p.isfixed) (fun i => -i - 1) ps row
      ((List.range' j ps.length).map (fun (i : Nat) => (i : Int)))
      ((ps.filter (·.isfixed)).map (·.value)) := by
  induction ps generalizing row j with
  | nil => simp [fxEntries, gEntries]
  | cons p ps ih =>
    cases row with
    | nil => simp [fxEntries, gEntries]
    | cons r row =>
      simp only [List.length_cons, List.range'_succ, List.map_cons]
      unfold fxEntries gEntries
      cases hf : p.isfixed
      · simp [List.filter_cons, hf, ih]
      · simp only [List.filter_cons, hf, if_true, List.map_cons, ih]
        cases r with
        | none => rfl
        | some a =>
          simp only [List.singleton_append, List.cons.injEq, Prod.mk.injEq, true_and, and_true]
          omega

theorem cumsumM1_length (l : List Bool) (acc : Int) : (PMM.cumsumM1 l acc).length = l.length := by
  induction l generalizing acc with
  | nil => rfl
  | cons b l ih => simp [PMM.cumsumM1, ih]

theorem andM_cons (a b : Bool) (as bs : List Bool) :
    Params.andM (a :: as) (b :: bs) = (a && b) :: Params.andM as bs := rfl

theorem maskForm (c : Param V → Bool) (ι : Int → Int) (ps : List (Param V)) (row : List (Option String))
    (idx : List Int) (xs : List V) (hl : row.length = ps.length) (hi : idx.length = ps.length)
    (hx : xs.length = (ps.filter c).length) :
    ∃ (n : List (Option String)) (m : List Bool) (i : List Int) (v : List V),
      maskSel row (Params.andM (ps.map c) (row.map (·.isSome))) = .ok n ∧
      maskSel (row.map (·.isSome)) (ps.map c) = .ok m ∧
      maskSel idx (Params.andM (ps.map c) (row.map (·.isSome))) = .ok i ∧
      maskSel xs m = .ok v ∧
      (n.filterMap id).length = v.length ∧ v.length = i.length ∧
      PMM.zip3 (n.filterMap id) v (i.map ι) = gEntries c ι ps row idx xs := by
  induction ps generalizing row idx xs with
  | nil =>
    cases row with
    | nil =>
      cases idx with
      | nil =>
        cases xs with
        | nil => exact ⟨[], [], [], [], rfl, rfl, rfl, rfl, rfl, rfl, rfl⟩
        | cons x xs => simp at hx
      | cons ix idx => simp at hi
    | cons r row => simp at hl
  | cons p ps ih =>
    cases row with
    | nil => simp at hl
    | cons r row =>
      cases idx with
      | nil => simp at hi
      | cons ix idx =>
        have hl' : row.length = ps.length := by simpa using hl
        have hi' : idx.length = ps.length := by simpa using hi
        cases hc : c p
        · have hx' : xs.length = (ps.filter c).length := by simpa [List.filter_cons, hc] using hx
          obtain ⟨n, m, i, v, h1, h2, h3, h4, h5, h6, h7⟩ := ih row idx xs hl' hi' hx'
          refine ⟨n, m, i, v, ?_, ?_, ?_, h4, h5, h6, ?_⟩
          · simp [andM_cons, maskSel, hc, h1]
          · simp [maskSel, hc, h2]
          · simp [andM_cons, maskSel, hc, h3]
          · simp only [gEntries, hc, Bool.false_eq_true, if_false]; exact h7
        · cases xs with
          | nil => simp [List.filter_cons, hc] at hx
          | cons x xs' =>
            have hx' : xs'.length = (ps.filter c).length := by simpa [List.filter_cons, hc] using hx
            obtain ⟨n, m, i, v, h1, h2, h3, h4, h5, h6, h7⟩ := ih row idx xs' hl' hi' hx'
            cases r with
            | none =>
              refine ⟨n, false :: m, i, v, ?_, ?_, ?_, ?_, h5, h6, ?_⟩
              · simp [andM_cons, maskSel, hc, h1]
              · simp [maskSel, hc, h2]
              · simp [andM_cons, maskSel, hc, h3]
              · simp [maskSel, h4]
              · simp only [gEntries, hc, if_true, List.nil_append]; exact h7
            | some a =>
              refine ⟨some a :: n, true :: m, ix :: i, x :: v, ?_, ?_, ?_, ?_, ?_, ?_, ?_⟩
              · simp [andM_cons, maskSel, hc, h1]
              · simp [maskSel, hc, h2]
              · simp [andM_cons, maskSel, hc, h3]
              · simp [maskSel, h4]
              · simpa using h5
              · simp [h6]
              · simp only [gEntries, hc, if_true, List.singleton_append, List.filterMap_cons, id,
                  List.map_cons, PMM.zip3]
                rw [← h7]
                rfl

theorem zip3_append {α β γ : Type} (a1 a2 : List α) (b1 b2 : List β) (c1 c2 : List γ)
    (h1 : a1.length = b1.length) (h2 : b1.length = c1.length) :
    PMM.zip3 (a1 ++ a2) (b1 ++ b2) (c1 ++ c2) = PMM.zip3 a1 b1 c1 ++ PMM.zip3 a2 b2 c2 := by
  induction a1 generalizing b1 c1 with
  | nil =>
    cases b1 with
    | nil =>
      cases c1 with
      | nil => simp [PMM.zip3]
      | cons c c1 => simp at h2
    | cons b b1 => simp at h1
  | cons a a1 ih =>
    cases b1 with
    | nil => simp at h1
    | cons b b1 =>
      cases c1 with
      | nil => simp at h2
      | cons c c1 =>
        simp only [List.cons_append, PMM.zip3, List.cons.injEq, true_and]
        exact ih b1 c1 (by simpa using h1) (by simpa using h2)

section order
variable [LinearOrder V]

/-- in a coherent parameter set the mask arithmetic of `create_model_params_dict` /
`create_src_params_recarray` never raises and yields the entries in the order floating, fixed -/
theorem maskSelNp_of_ok {α : Type} {xs : List α} {m : List Bool} {r : List α} (h : maskSel xs m = .ok r) :
    maskSelNp xs m = .ok r := by
  cases m with
  | nil =>
    cases xs with
    | nil => simpa [maskSel, maskSelNp] using h
    | cons x xs => simp [maskSel] at h
  | cons b bs => exact h

theorem rowEntries_eq {gps : PSet V} (hs : Coherent gps) (row : List (Option String)) (g : List V)
    (hl : row.length = gps.params.length) (hg : g.length = gps.floatNames.length) :
    PMM.rowEntries gps row g = .ok (flEntries gps.params row 0 g ++ fxEntries gps.params row 0) := by
  have hc := hs.caches
  have hfm : gps.floatMask = gps.params.map (fun p => !p.isfixed) := by
    simp [PSet.floatMask, hs.mask]
  have hg' : g.length = (gps.params.filter (fun p => !p.isfixed)).length := by
    rw [hg, hc.floatNames, List.length_map]
  obtain ⟨n1, m1, i1, v1, a1, a2, a3, a4, a5, a6, a7⟩ :=
    maskForm (fun p => !p.isfixed) (fun i => i + 1) gps.params row
      (PMM.cumsumM1 (gps.params.map (fun p => !p.isfixed)) ((0 : Nat) : Int)) g hl
      (by rw [cumsumM1_length, List.length_map]) hg'
  obtain ⟨n2, m2, i2, v2, b1, b2, b3, b4, b5, b6, b7⟩ :=
    maskForm (fun p => p.isfixed) (fun i => -i - 1) gps.params row
      ((List.range' 0 gps.params.length).map (fun (i : Nat) => (i : Int)))
      ((gps.params.filter (·.isfixed)).map (·.value)) hl (by simp) (by simp)
  unfold PMM.rowEntries
  simp only [Nat.cast_zero] at a3
  simp only [hfm, hs.mask, hc.fixedVals, List.range_eq_range', maskSelNp_of_ok a1, maskSelNp_of_ok a2,
    maskSelNp_of_ok a3, maskSelNp_of_ok b1, maskSelNp_of_ok b2, maskSelNp_of_ok b3, maskSelNp_of_ok a4,
    maskSelNp_of_ok b4]
  rw [List.filterMap_append, zip3_append _ _ _ _ _ _ a5 (by simpa using a6), a7, b7,
    ← flEntries_eq, ← fxEntries_eq]

end order

end C04
