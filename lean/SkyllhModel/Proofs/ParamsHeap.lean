/-
  Lemmas about the heap model (`Model/ParamsHeap.lean`) for property C04: frame property of an edit
  through one set, freshness of the objects of a copy.
-/
import SkyllhModel.Model.ParamsHeap
import SkyllhModel.Proofs.Params
import Mathlib.Tactic

open Params Params.Heap C04

namespace C04H

variable {V : Type}

theorem writeBack_length (heap : List (Param V)) (ids : List Nat) (ps : List (Param V)) :
    (writeBack heap ids ps).length = heap.length := by
  induction ids generalizing heap ps with
  | nil => cases ps <;> rfl
  | cons i is ih =>
    cases ps with
    | nil => rfl
    | cons p ps => simp [writeBack, ih]

theorem writeBack_get_other (heap : List (Param V)) (ids : List Nat) (ps : List (Param V)) (j : Nat)
    (hj : j ∉ ids) : (writeBack heap ids ps)[j]? = heap[j]? := by
  induction ids generalizing heap ps with
  | nil => cases ps <;> rfl
  | cons i is ih =>
    cases ps with
    | nil => rfl
    | cons p ps =>
      simp only [List.mem_cons, not_or] at hj
      simp only [writeBack]
      rw [ih _ _ hj.2, List.getElem?_set_ne (Ne.symm hj.1)]

theorem deref_congr (heap heap' : List (Param V)) (ids : List Nat)
    (h : ∀ j ∈ ids, heap'[j]? = heap[j]?) : deref heap' ids = deref heap ids := by
  unfold deref
  induction ids with
  | nil => rfl
  | cons i is ih =>
    simp only [List.filterMap_cons, h i (by simp)]
    rw [ih (fun j hj => h j (by simp [hj]))]

theorem deref_writeBack_self (heap : List (Param V)) (ids : List Nat) (ps : List (Param V))
    (hnd : ids.Nodup) (hv : ∀ i ∈ ids, i < heap.length) (hl : ps.length = ids.length) :
    deref (writeBack heap ids ps) ids = ps := by
  induction ids generalizing heap ps with
  | nil =>
    cases ps with
    | nil => rfl
    | cons p ps => simp at hl
  | cons i is ih =>
    cases ps with
    | nil => simp at hl
    | cons p ps =>
      rw [List.nodup_cons] at hnd
      have hi : i < heap.length := hv i (by simp)
      simp only [writeBack]
      have h1 : (writeBack (heap.set i p) is ps)[i]? = some p := by
        rw [writeBack_get_other _ _ _ _ hnd.1, List.getElem?_set_self hi]
      have h2 := ih (heap.set i p) ps hnd.2 (fun j hj => by simpa using hv j (by simp [hj]))
        (by simpa using hl)
      unfold deref at h2 ⊢
      simp only [List.filterMap_cons, h1, h2]

theorem deref_append_left (heap extra : List (Param V)) (ids : List Nat) (hv : ∀ i ∈ ids, i < heap.length) :
    deref (heap ++ extra) ids = deref heap ids :=
  deref_congr _ _ _ (fun j hj => List.getElem?_append_left (hv j hj))

theorem deref_length (heap : List (Param V)) (ids : List Nat) (hv : ∀ i ∈ ids, i < heap.length) :
    (deref heap ids).length = ids.length := by
  unfold deref
  induction ids with
  | nil => rfl
  | cons i is ih =>
    have hi : i < heap.length := hv i (by simp)
    simp only [List.filterMap_cons, List.getElem?_eq_getElem hi, List.length_cons,
      ih (fun j hj => hv j (by simp [hj]))]

theorem deref_range' (heap objs : List (Param V)) :
    deref (heap ++ objs) (List.range' heap.length objs.length) = objs := by
  unfold deref
  induction objs generalizing heap with
  | nil => rfl
  | cons o objs ih =>
    simp only [List.length_cons, List.range'_succ, List.filterMap_cons]
    have h0 : (heap ++ o :: objs)[heap.length]? = some o := by simp
    rw [h0]
    have := ih (heap ++ [o])
    simp only [List.length_append, List.length_singleton, List.append_assoc, List.singleton_append] at this
    rw [this]

end C04H
