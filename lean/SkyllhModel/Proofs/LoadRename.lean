/-
  Helper lemmas for property C17: the sequential pop / collision-check / set loop of
  `DataFieldRecordArray.rename_fields` (Model/Load.lean: `dictPop`, `dictSet`, `renameGo`).
-/
import SkyllhModel.Model.Load
import Mathlib.Tactic

open Load

namespace C17

set_option linter.unusedSectionVars false
set_option linter.unusedSimpArgs false
variable {N D V : Type} [DecidableEq N] [DecidableEq D]

omit [DecidableEq D] in
/-- `dict[key] = value` for a key that is not in the dictionary appends -/
theorem dictSet_append (cols : List (Col N D V)) (c : Col N D V) (h : c.name ∉ cols.map (·.name)) :
    dictSet cols c = cols ++ [c] := by
  induction cols with
  | nil => rfl
  | cons x xs ih =>
    simp only [List.map_cons, List.mem_cons, not_or] at h
    have hx : x.name ≠ c.name := fun e => h.1 e.symm
    simp [dictSet, hx, ih h.2]

omit [DecidableEq D] in
/-- `dict.pop(key)` for a key of a dictionary with distinct keys -/
theorem dictPop_spec (cols : List (Col N D V)) (o : N) (hnd : (cols.map (·.name)).Nodup)
    (ho : o ∈ cols.map (·.name)) :
    ∃ c rest, dictPop cols o = some (c, rest) ∧ c.name = o ∧
      (∀ x, x ∈ cols ↔ x = c ∨ x ∈ rest) ∧ (rest.map (·.name)).Nodup ∧ o ∉ rest.map (·.name) := by
  induction cols with
  | nil => simp at ho
  | cons x xs ih =>
    simp only [List.map_cons, List.nodup_cons] at hnd
    obtain ⟨hx, hnd'⟩ := hnd
    by_cases hxo : x.name = o
    · refine ⟨x, xs, by simp [dictPop, hxo], hxo, fun y => by simp, hnd', ?_⟩
      rw [← hxo]; exact hx
    · have ho' : o ∈ xs.map (·.name) := by
        simp only [List.map_cons, List.mem_cons] at ho
        rcases ho with h | h
        · exact absurd h.symm hxo
        · exact h
      obtain ⟨c, rest, hpop, hc, hmem, hnd'', hnot⟩ := ih hnd' ho'
      refine ⟨c, x :: rest, by simp [dictPop, hxo, hpop], hc, ?_, ?_, ?_⟩
      · intro y
        simp only [List.mem_cons, hmem y]
        tauto
      · simp only [List.map_cons, List.nodup_cons]
        refine ⟨?_, hnd''⟩
        intro hin
        obtain ⟨z, hz, hzn⟩ := List.mem_map.mp hin
        exact hx (List.mem_map.mpr ⟨z, (hmem z).mpr (Or.inr hz), hzn⟩)
      · simp only [List.map_cons, List.mem_cons, not_or]
        exact ⟨fun e => hxo e.symm, hnot⟩

omit [DecidableEq D] in
theorem lookup_none_of_not_key (ren : List (N × N)) (n : N) (h : ∀ p ∈ ren, p.1 ≠ n) :
    ren.lookup n = none := by
  induction ren with
  | nil => rfl
  | cons p ps ih =>
    obtain ⟨a, b⟩ := p
    have ha : (n == a) = false := by
      have := h (a, b) (by simp)
      simpa using fun e => this e.symm
    simp [List.lookup_cons, ha, ih (fun q hq => h q (by simp [hq]))]

/-- **The renaming loop, for dictionaries that do not chain.**  Keys distinct, new names distinct, no
new name is also a key, field names distinct, `stale` agrees with the current fields on the keys, and
the new name of every present field is free: the loop succeeds and the resulting fields are exactly
the old ones, each under its new name (two-sided). -/
theorem renameGo_spec (stale : List N) (ren : List (N × N)) :
    ∀ (cols : List (Col N D V)),
      (ren.map (·.1)).Nodup → (ren.map (·.2)).Nodup → (cols.map (·.name)).Nodup →
      (∀ p ∈ ren, ∀ q ∈ ren, p.2 ≠ q.1) →
      (∀ p ∈ ren, p.1 ∈ stale ↔ p.1 ∈ cols.map (·.name)) →
      (∀ p ∈ ren, p.1 ∈ cols.map (·.name) → p.2 ∉ cols.map (·.name)) →
      ∃ cols', renameGo stale ren cols = .ok cols' ∧ (cols'.map (·.name)).Nodup ∧
        ∀ c', c' ∈ cols' ↔ ∃ col ∈ cols, c' = { col with name := (ren.lookup col.name).getD col.name } := by
  induction ren with
  | nil =>
    intro cols _ _ hn _ _ _
    refine ⟨cols, rfl, hn, fun c' => ?_⟩
    constructor
    · intro h; exact ⟨c', h, by simp⟩
    · rintro ⟨col, hcol, rfl⟩; simpa using hcol
  | cons p rest ih =>
    obtain ⟨o, n⟩ := p
    intro cols hk hv hn hchain hstale hfree
    simp only [List.map_cons, List.nodup_cons] at hk hv
    obtain ⟨hok, hk'⟩ := hk
    obtain ⟨hnv, hv'⟩ := hv
    have hchain' : ∀ p ∈ rest, ∀ q ∈ rest, p.2 ≠ q.1 :=
      fun p hp q hq => hchain p (by simp [hp]) q (by simp [hq])
    by_cases ho : o ∈ stale
    · -- the field is present: pop, check, set
      have hocols : o ∈ cols.map (·.name) := (hstale (o, n) (by simp)).mp ho
      obtain ⟨c, cols₁, hpop, hcname, hmem, hnd₁, hnot₁⟩ := dictPop_spec cols o hn hocols
      have hnfree : n ∉ cols.map (·.name) := hfree (o, n) (by simp) hocols
      have hsub : ∀ m, m ∈ cols₁.map (·.name) → m ∈ cols.map (·.name) := by
        intro m hm
        obtain ⟨z, hz, hzn⟩ := List.mem_map.mp hm
        exact List.mem_map.mpr ⟨z, (hmem z).mpr (Or.inr hz), hzn⟩
      have hn₁ : n ∉ cols₁.map (·.name) := fun h => hnfree (hsub n h)
      have hset : dictSet cols₁ { c with name := n } = cols₁ ++ [{ c with name := n }] :=
        dictSet_append cols₁ _ hn₁
      have hnames₂ : (cols₁ ++ [({ c with name := n } : Col N D V)]).map (·.name) = cols₁.map (·.name) ++ [n] := by
        simp
      have hnd₂ : ((cols₁ ++ [({ c with name := n } : Col N D V)]).map (·.name)).Nodup := by
        rw [hnames₂]
        exact List.Nodup.append hnd₁ (by simp) (by
          intro a ha hb
          simp at hb
          exact hn₁ (hb ▸ ha))
      -- membership of names after the step
      have hmem₂ : ∀ m, m ∈ (cols₁ ++ [({ c with name := n } : Col N D V)]).map (·.name) ↔
          (m ∈ cols.map (·.name) ∧ m ≠ o) ∨ m = n := by
        intro m
        rw [hnames₂]
        simp only [List.mem_append, List.mem_singleton]
        constructor
        · rintro (h | h)
          · exact Or.inl ⟨hsub m h, fun e => hnot₁ (e ▸ h)⟩
          · exact Or.inr h
        · rintro (⟨h, hne⟩ | h)
          · left
            obtain ⟨z, hz, hzn⟩ := List.mem_map.mp h
            rcases (hmem z).mp hz with rfl | hz'
            · exact absurd (hzn.symm.trans hcname) hne
            · exact List.mem_map.mpr ⟨z, hz', hzn⟩
          · exact Or.inr h
      have hstale' : ∀ p ∈ rest, p.1 ∈ stale ↔
          p.1 ∈ (cols₁ ++ [({ c with name := n } : Col N D V)]).map (·.name) := by
        intro p hp
        have hpo : p.1 ≠ o := fun e => hok (List.mem_map.mpr ⟨p, hp, e⟩)
        have hpn : p.1 ≠ n := fun e => hchain (o, n) (by simp) p (by simp [hp]) e.symm
        rw [hmem₂, hstale p (by simp [hp])]
        constructor
        · intro h; exact Or.inl ⟨h, hpo⟩
        · rintro (⟨h, _⟩ | h)
          · exact h
          · exact absurd h hpn
      have hfree' : ∀ p ∈ rest, p.1 ∈ (cols₁ ++ [({ c with name := n } : Col N D V)]).map (·.name) →
          p.2 ∉ (cols₁ ++ [({ c with name := n } : Col N D V)]).map (·.name) := by
        intro p hp hin
        have hpn : p.1 ≠ n := fun e => hchain (o, n) (by simp) p (by simp [hp]) e.symm
        have hin' : p.1 ∈ cols.map (·.name) := by
          rcases (hmem₂ p.1).mp hin with ⟨h, _⟩ | h
          · exact h
          · exact absurd h hpn
        have h2 : p.2 ∉ cols.map (·.name) := hfree p (by simp [hp]) hin'
        have h2n : p.2 ≠ n := fun e => hnv (List.mem_map.mpr ⟨p, hp, e⟩)
        intro hcon
        rcases (hmem₂ p.2).mp hcon with ⟨h, _⟩ | h
        · exact h2 h
        · exact h2n h
      obtain ⟨cols', hgo, hnd', hchar⟩ := ih (cols₁ ++ [{ c with name := n }]) hk' hv' hnd₂ hchain' hstale' hfree'
      refine ⟨cols', ?_, hnd', ?_⟩
      · simp only [renameGo, ho, if_true, hpop, hn₁, if_false, hset]
        exact hgo
      · intro c'
        rw [hchar c']
        have hrest_n : rest.lookup n = none :=
          lookup_none_of_not_key rest n (fun q hq e => hchain (o, n) (by simp) q (by simp [hq]) e.symm)
        constructor
        · rintro ⟨col, hcol, rfl⟩
          rcases List.mem_append.mp hcol with h | h
          · have hne : col.name ≠ o := fun e => hnot₁ (e ▸ List.mem_map.mpr ⟨col, h, rfl⟩)
            have hb : (col.name == o) = false := by simpa using hne
            exact ⟨col, (hmem col).mpr (Or.inr h), by simp [List.lookup_cons, hb]⟩
          · simp only [List.mem_singleton] at h
            subst h
            refine ⟨c, (hmem c).mpr (Or.inl rfl), ?_⟩
            simp [List.lookup_cons, hcname, hrest_n]
        · rintro ⟨col, hcol, rfl⟩
          rcases (hmem col).mp hcol with rfl | h
          · refine ⟨{ col with name := n }, by simp, ?_⟩
            simp [List.lookup_cons, hcname, hrest_n]
          · have hne : col.name ≠ o := fun e => hnot₁ (e ▸ List.mem_map.mpr ⟨col, h, rfl⟩)
            have hb : (col.name == o) = false := by simpa using hne
            exact ⟨col, List.mem_append_left _ h, by simp [List.lookup_cons, hb]⟩
    · -- the field is not present: the entry is skipped
      have hocols : o ∉ cols.map (·.name) := fun h => ho ((hstale (o, n) (by simp)).mpr h)
      obtain ⟨cols', hgo, hnd', hchar⟩ := ih cols hk' hv' hn hchain'
        (fun p hp => hstale p (by simp [hp])) (fun p hp => hfree p (by simp [hp]))
      refine ⟨cols', by simp only [renameGo, ho, if_false]; exact hgo, hnd', ?_⟩
      intro c'
      rw [hchar c']
      constructor
      · rintro ⟨col, hcol, rfl⟩
        have hne : col.name ≠ o := fun e => hocols (e ▸ List.mem_map.mpr ⟨col, hcol, rfl⟩)
        have hb : (col.name == o) = false := by simpa using hne
        exact ⟨col, hcol, by simp [List.lookup_cons, hb]⟩
      · rintro ⟨col, hcol, rfl⟩
        have hne : col.name ≠ o := fun e => hocols (e ▸ List.mem_map.mpr ⟨col, hcol, rfl⟩)
        have hb : (col.name == o) = false := by simpa using hne
        exact ⟨col, hcol, by simp [List.lookup_cons, hb]⟩

end C17
