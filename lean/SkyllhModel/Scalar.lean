/-
  Scalar.lean — the scalar interface every numeric model is written against.

  Models use only the *standard* notation classes (`Add F`, `Mul F`, `LT F`, `OfNat F 0`, …,
  given as separate instance binders at each definition) plus this one law-free class for
  the transcendental functions.  The same definitions are then
    * executed with `F := Float` (IEEE double, as numpy) or `F := Rat` in the drivers, and
    * reasoned about with `F := ℝ` in `Props/` (instance in `Proofs/RealScalar.lean`).
  No global arithmetic instances are declared here (they would hijack numeral resolution on ℝ).
-/

class Transc (F : Type) where
  log   : F → F
  log1p : F → F
  exp   : F → F
  sqrt  : F → F
  sin   : F → F
  cos   : F → F
  asin  : F → F
  acos  : F → F
  pi    : F
  ofN   : Nat → F
  ofI   : Int → F

namespace FloatImpl

/-- `log1p` for IEEE doubles (Lean's `Float` has none): Kahan's trick. -/
def log1p (x : Float) : Float :=
  let u := 1.0 + x
  if u == 1.0 then x
  else if u - 1.0 == x then Float.log u
  else Float.log u * (x / (u - 1.0))

/-- round half to even, as `numpy.rint` / `numpy.around`. -/
def rint (x : Float) : Float :=
  let f := Float.floor x
  let d := x - f
  if d < 0.5 then f
  else if d > 0.5 then f + 1.0
  else -- exact tie: choose the even neighbour
    if (f / 2.0).floor * 2.0 == f then f else f + 1.0

end FloatImpl

instance : Transc Float where
  log := Float.log
  log1p := FloatImpl.log1p
  exp := Float.exp
  sqrt := Float.sqrt
  sin := Float.sin
  cos := Float.cos
  asin := Float.asin
  acos := Float.acos
  pi := 3.141592653589793
  ofN := Float.ofNat
  ofI := Float.ofInt
