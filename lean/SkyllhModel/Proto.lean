/-
  Proto.lean — line protocol shared by all drivers.
  One request per line, tokens separated by single blanks, one answer line per request.
  Floats cross the boundary as the decimal value of their IEEE-754 bit pattern, so no decimal
  parsing or printing of floats is involved on either side.
-/

namespace Proto

def tokens (line : String) : List String :=
  (line.trimAscii.toString.splitOn " ").filter (· ≠ "")

def pF (s : String) : Float := Float.ofBits (s.toNat!.toUInt64)
def fF (x : Float) : String := toString x.toBits.toNat

def pN (s : String) : Nat := s.toNat!
def pI (s : String) : Int := s.toInt!
def pB (s : String) : Bool := s == "1"
def fB (b : Bool) : String := if b then "1" else "0"

def fList {α} (f : α → String) (xs : List α) : String :=
  String.intercalate "," (xs.map f)

/-- comma separated list, `-` for the empty list -/
def pList {α} (f : String → α) (s : String) : List α :=
  if s == "-" then [] else (s.splitOn ",").map f

def fListD {α} (f : α → String) (xs : List α) : String :=
  if xs.isEmpty then "-" else fList f xs

/-- rationals as `num/den` -/
def pQ (s : String) : Rat :=
  match s.splitOn "/" with
  | [n, d] => (n.toInt! : Rat) / (d.toNat! : Rat)
  | [n] => (n.toInt! : Rat)
  | _ => 0

def fQ (q : Rat) : String := s!"{q.num}/{q.den}"

partial def loop (h : IO.FS.Stream) (step : String → String) : IO Unit := do
  let line ← h.getLine
  if line.isEmpty then return ()
  IO.println (step line)
  loop h step

/-- stateful variant -/
partial def loopS {σ} (h : IO.FS.Stream) (s : σ) (step : σ → String → σ × String) : IO Unit := do
  let line ← h.getLine
  if line.isEmpty then return ()
  let (s', out) := step s line
  IO.println out
  loopS h s' step

end Proto
