/-
  Property C16 — the column container (DataFieldRecordArray) behaves like a plain table under any
  operation sequence.

  `Model/Store.lean` has two layers: the heap layer `stepH` (heap of column arrays, containers =
  name -> location, plus the caches `_field_name_list`, `_len`, `_indices` maintained as coded) and the
  plain-table layer `stepT` (row count + named columns, value semantics).  The theorems say that, for
  *every* operation sequence, the heap layer computes what the plain tables compute, that the
  invariant of the container is preserved, and that selections and copies share no location with
  anything that existed before.  (The helper lemmas are in `Proofs/Store.lean`.)
-/
import SkyllhModel.Proofs.Store

open Store StoreP

namespace C16

/-- the invariant of the heap layer, stated on the model state alone -/
structure CInv (s : St) : Prop where
  /-- the field-name list is the list of dict keys, in order, without duplicates -/
  names : ∀ c ∈ s.conts, c.names = c.fields.map (·.1) ∧ c.names.Nodup
  /-- every column exists on the heap and has length `_len` -/
  lens : ∀ c ∈ s.conts, ∀ p ∈ c.fields, ∃ col, s.heap[p.2]? = some col ∧ col.vals.length = c.len
  /-- the index cache is absent or `arange(_len)` -/
  idx : ∀ c ∈ s.conts, c.idx = none ∨ c.idx = some (List.range c.len)
  /-- no location is bound in two different slots -/
  noalias : ∀ (i j : Nat) (c d : Cont) (n m l : Nat), s.conts[i]? = some c → s.conts[j]? = some d →
    (n, l) ∈ c.fields → (m, l) ∈ d.fields → i = j ∧ n = m

/-- the abstract invariant: the state represents *some* list of well-formed plain tables -/
def Inv (s : St) : Prop := ∃ ts, Good s ts

theorem cinv_of_good {s : St} {ts : List Table} (g : Good s ts) : CInv s := by
  have tab : ∀ c ∈ s.conts, ∃ t ∈ ts, Rep s.heap c t := by
    intro c hc
    obtain ⟨i, hi, rfl⟩ := List.getElem_of_mem hc
    have hi' : i < ts.length := by rw [← g.len]; exact hi
    exact ⟨ts[i], List.getElem_mem hi', g.rep i _ _ (List.getElem?_eq_getElem hi) (List.getElem?_eq_getElem hi')⟩
  refine ⟨?_, ?_, ?_, ?_⟩
  · intro c hc
    obtain ⟨t, ht, r⟩ := tab c hc
    exact ⟨by rw [r.names, r.keys], by rw [r.names]; exact (g.wf t ht).1⟩
  · intro c hc p hp
    obtain ⟨t, ht, r⟩ := tab c hc
    obtain ⟨col, h1, h2⟩ := r.col_of_field (o := p.1) (l := p.2) hp
    exact ⟨col, h1, by rw [r.len]; exact (g.wf t ht).2 _ h2⟩
  · intro c hc
    obtain ⟨t, _, r⟩ := tab c hc
    exact r.idx
  · intro i j c d n m l hc hd hn hm
    have hij := g.noalias i j c d n m l hc hd hn hm
    refine ⟨hij, ?_⟩
    subst hij
    rw [hc] at hd
    cases hd
    have hi : i < ts.length := by rw [← g.len]; exact (List.getElem?_eq_some_iff.mp hc).1
    have r := g.rep i c ts[i] hc (List.getElem?_eq_getElem hi)
    have := List.inj_on_of_nodup_map r.locs hn hm rfl
    exact (Prod.mk.injEq _ _ _ _ ▸ this).1

theorem lookup_of_forall₂ {h : List Col} : ∀ {fs : List (Name × Loc)} {cols : List (Name × Col)},
    List.Forall₂ (fun (a : Name × Loc) (b : Name × Col) => a.1 = b.1 ∧ h[a.2]? = some b.2) fs cols →
    ∀ n, (fs.lookup n).bind (fun l => h[l]?) = cols.lookup n := by
  intro fs cols hf
  induction hf with
  | nil => intro n; rfl
  | @cons a b fs cols hab _ ih =>
    intro n
    obtain ⟨a1, a2⟩ := a
    obtain ⟨b1, b2⟩ := b
    simp only at hab
    obtain ⟨rfl, h2⟩ := hab
    simp only [List.lookup]
    split
    · simpa using h2
    · exact ih n

/-- `tableOp` creates a new table exactly for get_selection, copy and the constructor -/
theorem target_new_getSel {get : Nat → Except Err Table} {k c : Nat} {sel : Sel} {tgt u out}
    (h : tableOp get k (.getSel c sel) = .ok (tgt, u, out)) : tgt = .new ∧ out = .cont k := by
  simp only [tableOp, bind_ok] at h
  obtain ⟨t, _, cols, _, h⟩ := h
  simp only [pure_eq, Except.ok.injEq, Prod.mk.injEq] at h
  exact ⟨h.1.symm, h.2.2.symm⟩

theorem target_new_copy {get : Nat → Except Err Table} {k c : Nat} {keep : Option (List Nat)} {tgt u out}
    (h : tableOp get k (.copy c keep) = .ok (tgt, u, out)) : tgt = .new ∧ out = .cont k := by
  simp only [tableOp, bind_ok] at h
  obtain ⟨t, _, h⟩ := h
  simp only [pure_eq, Except.ok.injEq, Prod.mk.injEq] at h
  exact ⟨h.1.symm, h.2.2.symm⟩

/-- shape of the post-state of an operation that creates a container -/
theorem stepH_new_shape (s : St) (op : Op) (out : Out)
    (hnew : ∀ tgt u o, tableOp (viewAt s) s.conts.length op = .ok (tgt, u, o) → tgt = .new ∧ o = .cont s.conts.length)
    (h : (stepH s op).2 = .ok out) :
    out = .cont s.conts.length ∧ ∃ cnew, (stepH s op).1.conts = s.conts ++ [cnew] := by
  unfold stepH at h ⊢
  cases hr : tableOp (viewAt s) s.conts.length op with
  | error e => rw [hr] at h; cases h
  | ok r =>
    obtain ⟨tgt, u, o⟩ := r
    obtain ⟨rfl, rfl⟩ := hnew tgt u o hr
    rw [hr] at h
    simp only at h ⊢
    cases hp : place [] s.heap u.cols with
    | error e => rw [hp] at h; cases h
    | ok r2 =>
      obtain ⟨h', fs⟩ := r2
      rw [hp] at h
      simp only [Except.ok.injEq] at h
      exact ⟨h.symm, _, rfl⟩

end C16

open C16

/-- **One step.**  If the heap-layer state represents the plain tables `ts` (and no location is shared), then
after any operation — successful or raising — the new heap-layer state represents the tables computed by the
plain-table semantics, and both return the same value / raise the same error. -/
theorem c16_refines_step {s : St} {ts : List Table} (g : Good s ts) (op : Op) :
    Good (stepH s op).1 (stepT ts op).1 ∧ (stepH s op).2 = (stepT ts op).2 :=
  step_refines g op

/-- **All histories.**  For every operation sequence the heap layer refines the plain tables. -/
theorem c16_refines {s : St} {ts : List Table} (g : Good s ts) (ops : List Op) :
    Good (runH s ops) (runT ts ops) := by
  induction ops generalizing s ts with
  | nil => exact g
  | cons op ops ih => exact ih (step_refines g op).1

/-- the empty store represents the empty list of tables -/
theorem c16_good_init : Good ⟨[], []⟩ [] where
  len := rfl
  rep := by intro i c t h; simp at h
  wf := by intro t h; cases h
  noalias := by intro i j c d n m l h; simp at h

/-- every operation sequence starting from nothing (containers are created by the constructor, selections
and copies) refines the plain tables -/
theorem c16_refines_from_init (ops : List Op) : Good (runH ⟨[], []⟩ ops) (runT [] ops) :=
  c16_refines c16_good_init ops

/-- **What the accessors say** in a state that represents tables `ts`: `len()`, `field_name_list`, `__getitem__`
(`KeyError` exactly for the names that are no column), the index array, and the loop `for fname in
self._field_name_list: self._data_fields[fname]` are those of the plain table. -/
theorem c16_accessors {s : St} {ts : List Table} (g : Good s ts) {i : Nat} {c : Cont} {t : Table}
    (hc : s.conts[i]? = some c) (ht : ts[i]? = some t) :
    c.len = t.len ∧ c.names = t.keys ∧
    (∀ n, (c.fields.lookup n).bind (fun l => s.heap[l]?) = t.cols.lookup n) ∧
    (c.idx = none ∨ c.idx = some (List.range t.len)) ∧
    viewCont s.heap c = .ok t := by
  have r := g.rep i c t hc ht
  refine ⟨r.len, r.names, lookup_of_forall₂ r.forall₂, ?_, view_of_rep r (g.wf t (List.mem_of_getElem? ht))⟩
  rw [← r.len]; exact r.idx

/-- **Invariant, one step**: all columns have length `_len`, the field list is the list of keys, `_indices` is
absent or `range _len`, no location is shared — preserved by every operation, also by a raising one. -/
theorem c16_inv_step {s : St} (h : Inv s) (op : Op) : Inv (stepH s op).1 := by
  obtain ⟨ts, g⟩ := h
  exact ⟨_, (step_refines g op).1⟩

theorem c16_inv_concrete {s : St} (h : Inv s) : CInv s := by
  obtain ⟨ts, g⟩ := h
  exact cinv_of_good g

/-- **Invariant, all histories** (concrete form) -/
theorem c16_inv_run (ops : List Op) : CInv (runH ⟨[], []⟩ ops) :=
  cinv_of_good (c16_refines_from_init ops)

/-- well-formedness of the plain tables is preserved by the plain-table semantics -/
theorem c16_spec_wf_step {ts : List Table} (hwf : ∀ t ∈ ts, WF t) (op : Op) : ∀ t ∈ (stepT ts op).1, WF t := by
  unfold stepT
  cases hr : tableOp (getT ts) ts.length op with
  | error e => exact hwf
  | ok r =>
    obtain ⟨tgt, u, out⟩ := r
    have ok := tableOp_ok ts hwf op tgt u out hr
    cases tgt with
    | inplace c =>
      intro t ht
      rcases List.mem_or_eq_of_mem_set ht with h1 | h1
      · exact hwf t h1
      · rw [h1]; exact ok.1
    | new =>
      intro t ht
      rcases List.mem_append.mp ht with h1 | h1
      · exact hwf t h1
      · simp at h1; rw [h1]; exact ok.1

/-- a raising operation changes nothing (plain-table layer and heap layer) -/
theorem c16_error_no_change {s : St} {ts : List Table} (g : Good s ts) (op : Op) (e : Err)
    (h : (stepH s op).2 = .error e) : (stepH s op).1 = s ∧ (stepT ts op).1 = ts := by
  have h2 : (stepT ts op).2 = .error e := by rw [← (step_refines g op).2]; exact h
  constructor
  · unfold stepH at h ⊢
    cases hr : tableOp (viewAt s) s.conts.length op with
    | error e' => rfl
    | ok r =>
      obtain ⟨tgt, u, o⟩ := r
      rw [hr] at h
      cases tgt with
      | inplace c =>
        simp only at h ⊢
        cases hc : s.conts[c]? with
        | none => rfl
        | some cont =>
          rw [hc] at h
          simp only at h ⊢
          cases hp : place cont.fields s.heap u.cols with
          | error e' => rfl
          | ok r2 => rw [hp] at h; cases h
      | new =>
        simp only at h ⊢
        cases hp : place [] s.heap u.cols with
        | error e' => rfl
        | ok r2 => rw [hp] at h; cases h
  · unfold stepT at h2 ⊢
    cases hr : tableOp (getT ts) ts.length op with
    | error e' => rfl
    | ok r =>
      obtain ⟨tgt, u, o⟩ := r
      rw [hr] at h2
      cases tgt <;> cases h2

/-- **A selection is fresh**: `get_selection` returns container number `len(conts)`; all earlier containers are
still there, bit for bit (`s'.conts = s.conts ++ [new]`), they still represent their tables, and the new
container shares no location with any of them. -/
theorem c16_selection_fresh {s : St} {ts : List Table} (g : Good s ts) (c : Nat) (sel : Sel) (out : Out)
    (h : (stepH s (.getSel c sel)).2 = .ok out) :
    out = .cont s.conts.length ∧
    ∃ cnew, (stepH s (.getSel c sel)).1.conts = s.conts ++ [cnew] ∧
      ∀ (i : Nat) (ci : Cont) (n m l : Nat), s.conts[i]? = some ci → (n, l) ∈ ci.fields → (m, l) ∉ cnew.fields := by
  obtain ⟨h1, cnew, h2⟩ := stepH_new_shape s _ out (fun tgt u o hr => target_new_getSel hr) h
  refine ⟨h1, cnew, h2, ?_⟩
  intro i ci n m l hci hn hm
  have g' := (step_refines g (.getSel c sel)).1
  have hi : i < s.conts.length := (List.getElem?_eq_some_iff.mp hci).1
  have := g'.noalias i s.conts.length ci cnew n m l
    (by rw [h2, List.getElem?_append_left hi]; exact hci) (by rw [h2]; simp) hn hm
  omega

/-- **A copy is fresh** (same statement for `copy(keep_fields)`). -/
theorem c16_copy_fresh {s : St} {ts : List Table} (g : Good s ts) (c : Nat) (keep : Option (List Nat)) (out : Out)
    (h : (stepH s (.copy c keep)).2 = .ok out) :
    out = .cont s.conts.length ∧
    ∃ cnew, (stepH s (.copy c keep)).1.conts = s.conts ++ [cnew] ∧
      ∀ (i : Nat) (ci : Cont) (n m l : Nat), s.conts[i]? = some ci → (n, l) ∈ ci.fields → (m, l) ∉ cnew.fields := by
  obtain ⟨h1, cnew, h2⟩ := stepH_new_shape s _ out (fun tgt u o hr => target_new_copy hr) h
  refine ⟨h1, cnew, h2, ?_⟩
  intro i ci n m l hci hn hm
  have g' := (step_refines g (.copy c keep)).1
  have hi : i < s.conts.length := (List.getElem?_eq_some_iff.mp hci).1
  have := g'.noalias i s.conts.length ci cnew n m l
    (by rw [h2, List.getElem?_append_left hi]; exact hci) (by rw [h2]; simp) hn hm
  omega

/-- **Frame** of the plain-table semantics: an operation changes at most its target table; an operation
that creates a table changes no existing one. -/
theorem c16_spec_frame (ts : List Table) (op : Op) (i : Nat) (hi : i < ts.length)
    (hne : ∀ tgt u out, tableOp (getT ts) ts.length op = .ok (tgt, u, out) → tgt ≠ .inplace i) :
    (stepT ts op).1[i]? = ts[i]? := by
  unfold stepT
  cases hr : tableOp (getT ts) ts.length op with
  | error e => rfl
  | ok r =>
    obtain ⟨tgt, u, out⟩ := r
    cases tgt with
    | inplace c =>
      have : c ≠ i := fun h => hne _ u out hr (by rw [h])
      simp only [List.getElem?_set_ne this]
    | new => simp only [List.getElem?_append_left hi]

/-- **Rows stay aligned under sorting**: every column of the sorted table is the old column of the same name
and dtype gathered with one and the same index list `perm`, which is a permutation of `range len`, and the key
column is non-decreasing afterwards. -/
theorem c16_sort_aligned (get : Nat → Except Err Table) (k c n : Nat) (perm : List Nat) (tgt : Target) (u : Upd) (out : Out)
    (h : tableOp get k (.sortBy c n perm) = .ok (tgt, u, out)) :
    ∃ t key, get c = .ok t ∧ t.cols.lookup n = some key ∧ isPerm perm key.vals.length = true ∧
      (∃ ks, gatherE key.vals perm = .ok ks ∧ nondecr ks = true) ∧ out = .idxs perm ∧
      List.Forall₂ (fun (p : Name × Col) (e : Name × Prov × Col) =>
        e.1 = p.1 ∧ e.2.2.dt = p.2.dt ∧ gatherE p.2.vals perm = .ok e.2.2.vals) t.cols u.cols := by
  simp only [tableOp, bind_ok] at h
  obtain ⟨t, ht, h⟩ := h
  split at h
  · cases h
  · rename_i key hkey
    split_ifs at h with h1
    simp only [bind_ok] at h
    obtain ⟨ks, hks, h⟩ := h
    split_ifs at h with h2
    simp only [bind_ok] at h
    obtain ⟨cols, hcols, h⟩ := h
    simp only [pure_eq, Except.ok.injEq, Prod.mk.injEq] at h
    obtain ⟨rfl, rfl, rfl⟩ := h
    refine ⟨t, key, ht, hkey, by simpa using h1, ⟨ks, hks, by simpa using h2⟩, rfl, ?_⟩
    refine (mapE_forall₂ _ _ _ hcols).imp ?_
    intro p e hpe
    unfold sortCol at hpe
    split at hpe
    · rename_i vs hvs
      cases hpe
      exact ⟨rfl, rfl, hvs⟩
    · cases hpe

/-- **Rows stay aligned under selection**: every column of the selection is the old column of the same name
selected with the same `indices`. -/
theorem c16_selection_aligned (get : Nat → Except Err Table) (k c : Nat) (sel : Sel) (tgt : Target) (u : Upd) (out : Out)
    (h : tableOp get k (.getSel c sel) = .ok (tgt, u, out)) :
    ∃ t, get c = .ok t ∧ List.Forall₂ (fun (p : Name × Col) (e : Name × Col) =>
        e.1 = p.1 ∧ selCol p.2 sel = .ok e.2) t.cols u.table.cols := by
  simp only [tableOp, bind_ok] at h
  obtain ⟨t, ht, cols, hcols, h⟩ := h
  simp only [pure_eq, Except.ok.injEq, Prod.mk.injEq] at h
  obtain ⟨rfl, rfl, rfl⟩ := h
  refine ⟨t, ht, ?_⟩
  simp only [Upd.table, freshAll_table]
  refine (mapE_forall₂ _ _ _ hcols).imp ?_
  intro p e hpe
  unfold selColE at hpe
  split at hpe
  · rename_i c2 hc2
    cases hpe
    exact ⟨rfl, hc2⟩
  · cases hpe

/-! ### shared locations: arrays handed in by the caller -/

/-- **Rebinding operations never change an existing array.**  In *any* state of the heap layer — slots may share
locations with each other, with other containers, with arrays the caller holds — every operation except
`set_selection` (sort, append, selections, copies, dtype conversion, renaming, removing, adding or assigning a
field, also with a handed-in array that is already a column elsewhere) leaves every existing heap cell as it is,
and rebinds the slots of at most one existing container.  So every other container, and every array object the
caller got from `__getitem__` or handed in, reads the same afterwards. -/
theorem c16_rebind_ops_frame (s : St) (xop : XOp) (hx : xop.writesThrough = false) :
    (∀ l, l < s.heap.length → (stepX s xop).1.heap[l]? = s.heap[l]?) ∧
    ∃ c, ∀ i, i ≠ c → i < s.conts.length → (stepX s xop).1.conts[i]? = s.conts[i]? := by
  cases xop with
  | base op =>
    have hns : ¬ IsSetSel op := by
      intro h; cases op <;> simp [IsSetSel] at h; simp [XOp.writesThrough] at hx
    exact ⟨fun l hl => stepH_heap_frame s op l hl (Or.inl hns), stepH_conts_frame s op⟩
  | appendFieldFrom c n d m =>
    refine ⟨fun l _ => ?_, c, fun i hic _ => ?_⟩
    · simp only [stepX]
      split
      · split
        · rfl
        · rw [bindNew_heap]
      · rfl
    · simp only [stepX]
      split
      · split
        · rfl
        · exact bindNew_conts _ _ _ _ _ _ hic
      · rfl
  | setItemFrom c n d m =>
    refine ⟨fun l _ => ?_, c, fun i hic _ => ?_⟩
    · simp only [stepX]
      split
      · split
        · rfl
        · split
          · split
            · rfl
            · split <;> rfl
          · rw [bindNew_heap]
      · rfl
    · simp only [stepX]
      split
      · split
        · rfl
        · split
          · split
            · rfl
            · split
              · rfl
              · simp only [List.getElem?_set_ne (Ne.symm hic)]
          · exact bindNew_conts _ _ _ _ _ _ hic
      · rfl
  | newShared d m =>
    refine ⟨fun l _ => ?_, 0, fun i _ hi => ?_⟩
    · simp only [stepX]
      split
      · rfl
      · split
        · rfl
        · split <;> rfl
    · simp only [stepX]
      split
      · rfl
      · split
        · rfl
        · split
          · rfl
          · simp only [List.getElem?_append_left hi]

/-- **`set_selection` writes through its own columns only**: in any state, a heap cell that is not bound in the
target container is unchanged — but every slot (of any container, or the caller) bound to a written location
sees the new content. -/
theorem c16_set_selection_writes_target_only (s : St) (c : Nat) (sel : Sel) (d : Nat) (l : Nat) (hl : l < s.heap.length)
    (hnot : ∀ cont n, s.conts[c]? = some cont → (n, l) ∉ cont.fields) :
    (stepX s (.base (.setSel c sel d))).1.heap[l]? = s.heap[l]? := by
  refine stepH_heap_frame s _ l hl (Or.inr ?_)
  intro c' sel' d' cont n heq hc
  cases heq
  exact hnot cont n hc

/-- non-vacuity / what sharing means: `t.append_field(2, t[0])` binds two slots to one location; an in-place
assignment through slot 0 is seen through slot 2 and through the array the caller holds (`newShared`), whereas
sorting rebinds the slots of `t` and leaves the caller's array alone -/
example :
    let s0 := runX ⟨[], []⟩ [.base (.new [(0, ⟨.i64, [3, 1, 2]⟩)]), .appendFieldFrom 0 2 0 0, .newShared 0 0,
                              .base (.new [(0, ⟨.i64, [7, 8, 9]⟩), (2, ⟨.i64, [7, 8, 9]⟩)])]
    let s1 := (stepX s0 (.base (.setSel 0 (.idx [0, 1, 2]) 2))).1
    let s2 := (stepX s1 (.base (.sortBy 0 0 [0, 1, 2]))).1
    (viewAt s1 1).toOption.map (·.cols) = some [(0, ⟨.i64, [7, 8, 9]⟩)] ∧
    (viewAt s2 1).toOption.map (·.cols) = some [(0, ⟨.i64, [7, 8, 9]⟩)] ∧
    (s1.conts.map (·.fields)) = [[(0, 0), (2, 0)], [(0, 0)], [(0, 1), (2, 2)]] ∧
    (s2.conts.map (·.fields)) = [[(0, 3), (2, 4)], [(0, 0)], [(0, 1), (2, 2)]] := by decide

/-! ### non-vacuity: a concrete history (constructor, indices, append, selection, in-place assignment, sort,
a raising append) runs through both layers with equal results -/

namespace C16
def demoOps : List Op :=
  [ .new [(0, ⟨.i64, [3, 1, 2]⟩), (1, ⟨.f32, [10, 11, 12]⟩)],
    .indices 0,
    .append 0 0,
    .getSel 0 (.mask [true, false, true, false, false, true]),
    .setSel 0 (.idx [-1, 0, 1]) 1,
    .sortBy 1 0 [1, 2, 0],
    .new [(0, ⟨.b, [1]⟩)],
    .append 0 2 ]
end C16

example : (runT [] C16.demoOps).map (·.len) = [6, 3, 1] := by decide
example : (runT [] C16.demoOps)[1]? = some ⟨3, [(0, ⟨.i64, [2, 2, 3]⟩), (1, ⟨.f32, [12, 12, 10]⟩)]⟩ := by decide
example : (stepT (runT [] (C16.demoOps.take 7)) (.append 0 2)).2 = .error .key := by decide
example : (runH ⟨[], []⟩ C16.demoOps).conts.map (·.len) = [6, 3, 1] := by decide
example : Inv (runH ⟨[], []⟩ C16.demoOps) := ⟨_, c16_refines_from_init _⟩
