/-
  Property C16 — the column container (DataFieldRecordArray) behaves like a plain table under any
  operation sequence.

  `Model/Store.lean` has two layers: the heap layer `stepH` (heap of column arrays, containers =
  name -> location, plus the caches `_field_name_list`, `_len`, `_indices` maintained as coded) and the
  plain-table layer `stepT` (row count + named columns, value semantics).  The theorems say that, for
  *every* operation sequence, the heap layer computes what the plain tables compute, that the
  invariant of the container is preserved, and that selections and copies share no location with
  anything that existed before.  (The helper lemmas are in `Proofs/Store.lean`.)
-/
import SkyllhModel.Proofs.Store
import SkyllhModel.Proofs.StoreR7

open Store StoreP

namespace C16

/-- the invariant of the heap layer, stated on the model state alone -/
structure CInv (s : St) : Prop where
  /-- the field-name list is the list of dict keys, in order, without duplicates -/
  names : ∀ c ∈ s.conts, c.names = c.fields.map (·.1) ∧ c.names.Nodup
  /-- every column exists on the heap and has length `_len` -/
  lens : ∀ c ∈ s.conts, ∀ p ∈ c.fields, ∃ col, s.heap[p.2]? = some col ∧ col.vals.length = c.len
  /-- the index cache is absent or `arange(_len)` -/
  idx : ∀ c ∈ s.conts, c.idx = none ∨ c.idx = some (List.range c.len)
  /-- no location is bound in two different slots -/
  noalias : ∀ (i j : Nat) (c d : Cont) (n m l : Nat), s.conts[i]? = some c → s.conts[j]? = some d →
    (n, l) ∈ c.fields → (m, l) ∈ d.fields → i = j ∧ n = m

/-- the abstract invariant: the state represents *some* list of well-formed plain tables -/
def Inv (s : St) : Prop := ∃ ts, Good s ts

theorem cinv_of_good {s : St} {ts : List Table} (g : Good s ts) : CInv s := by
  have tab : ∀ c ∈ s.conts, ∃ t ∈ ts, Rep s.heap c t := by
    intro c hc
    obtain ⟨i, hi, rfl⟩ := List.getElem_of_mem hc
    have hi' : i < ts.length := by rw [← g.len]; exact hi
    exact ⟨ts[i], List.getElem_mem hi', g.rep i _ _ (List.getElem?_eq_getElem hi) (List.getElem?_eq_getElem hi')⟩
  refine ⟨?_, ?_, ?_, ?_⟩
  · intro c hc
    obtain ⟨t, ht, r⟩ := tab c hc
    exact ⟨by rw [r.names, r.keys], by rw [r.names]; exact (g.wf t ht).1⟩
  · intro c hc p hp
    obtain ⟨t, ht, r⟩ := tab c hc
    obtain ⟨col, h1, h2⟩ := r.col_of_field (o := p.1) (l := p.2) hp
    exact ⟨col, h1, by rw [r.len]; exact (g.wf t ht).2 _ h2⟩
  · intro c hc
    obtain ⟨t, _, r⟩ := tab c hc
    exact r.idx
  · intro i j c d n m l hc hd hn hm
    have hij := g.noalias i j c d n m l hc hd hn hm
    refine ⟨hij, ?_⟩
    subst hij
    rw [hc] at hd
    cases hd
    have hi : i < ts.length := by rw [← g.len]; exact (List.getElem?_eq_some_iff.mp hc).1
    have r := g.rep i c ts[i] hc (List.getElem?_eq_getElem hi)
    have := List.inj_on_of_nodup_map r.locs hn hm rfl
    exact (Prod.mk.injEq _ _ _ _ ▸ this).1

theorem lookup_of_forall₂ {h : List Col} : ∀ {fs : List (Name × Loc)} {cols : List (Name × Col)},
    List.Forall₂ (fun (a : Name × Loc) (b : Name × Col) => a.1 = b.1 ∧ h[a.2]? = some b.2) fs cols →
    ∀ n, (fs.lookup n).bind (fun l => h[l]?) = cols.lookup n := by
  intro fs cols hf
  induction hf with
  | nil => intro n; rfl
  | @cons a b fs cols hab _ ih =>
    intro n
    obtain ⟨a1, a2⟩ := a
    obtain ⟨b1, b2⟩ := b
    simp only at hab
    obtain ⟨rfl, h2⟩ := hab
    simp only [List.lookup]
    split
    · simpa using h2
    · exact ih n

/-- `tableOp` creates a new table exactly for get_selection, copy and the constructor -/
theorem target_new_getSel {get : Nat → Except Err Table} {k c : Nat} {sel : Sel} {tgt u out}
    (h : tableOp get k (.getSel c sel) = .ok (tgt, u, out)) : tgt = .new ∧ out = .cont k := by
  simp only [tableOp, bind_ok] at h
  obtain ⟨t, _, cols, _, h⟩ := h
  simp only [pure_eq, Except.ok.injEq, Prod.mk.injEq] at h
  exact ⟨h.1.symm, h.2.2.symm⟩

theorem target_new_copy {get : Nat → Except Err Table} {k c : Nat} {keep : Option (List Nat)} {tgt u out}
    (h : tableOp get k (.copy c keep) = .ok (tgt, u, out)) : tgt = .new ∧ out = .cont k := by
  simp only [tableOp, bind_ok] at h
  obtain ⟨t, _, h⟩ := h
  simp only [pure_eq, Except.ok.injEq, Prod.mk.injEq] at h
  exact ⟨h.1.symm, h.2.2.symm⟩

/-- shape of the post-state of an operation that creates a container -/
theorem stepH_new_shape (s : St) (op : Op) (out : Out)
    (hnew : ∀ tgt u o, tableOp (viewAt s) s.conts.length op = .ok (tgt, u, o) → tgt = .new ∧ o = .cont s.conts.length)
    (h : (stepH s op).2 = .ok out) :
    out = .cont s.conts.length ∧ ∃ cnew, (stepH s op).1.conts = s.conts ++ [cnew] := by
  unfold stepH at h ⊢
  cases hr : tableOp (viewAt s) s.conts.length op with
  | error e => rw [hr] at h; cases h
  | ok r =>
    obtain ⟨tgt, u, o⟩ := r
    obtain ⟨rfl, rfl⟩ := hnew tgt u o hr
    rw [hr] at h
    simp only at h ⊢
    cases hp : place [] s.heap u.cols with
    | error e => rw [hp] at h; cases h
    | ok r2 =>
      obtain ⟨h', fs⟩ := r2
      rw [hp] at h
      simp only [Except.ok.injEq] at h
      exact ⟨h.symm, _, rfl⟩

end C16

open C16

/-- **One step.**  If the heap-layer state represents the plain tables `ts` (and no location is shared), then
after any operation — successful or raising — the new heap-layer state represents the tables computed by the
plain-table semantics, and both return the same value / raise the same error. -/
theorem c16_refines_step {s : St} {ts : List Table} (g : Good s ts) (op : Op) :
    Good (stepH s op).1 (stepT ts op).1 ∧ (stepH s op).2 = (stepT ts op).2 :=
  step_refines g op

/-- **All histories.**  For every operation sequence the heap layer refines the plain tables. -/
theorem c16_refines {s : St} {ts : List Table} (g : Good s ts) (ops : List Op) :
    Good (runH s ops) (runT ts ops) := by
  induction ops generalizing s ts with
  | nil => exact g
  | cons op ops ih => exact ih (step_refines g op).1

/-- the empty store represents the empty list of tables -/
theorem c16_good_init : Good ⟨[], []⟩ [] where
  len := rfl
  rep := by intro i c t h; simp at h
  wf := by intro t h; cases h
  noalias := by intro i j c d n m l h; simp at h

/-- every operation sequence starting from nothing (containers are created by the constructor, selections
and copies) refines the plain tables -/
theorem c16_refines_from_init (ops : List Op) : Good (runH ⟨[], []⟩ ops) (runT [] ops) :=
  c16_refines c16_good_init ops

/-- **What the accessors say** in a state that represents tables `ts`: `len()`, `field_name_list`, `__getitem__`
(`KeyError` exactly for the names that are no column), the index array, and the loop `for fname in
self._field_name_list: self._data_fields[fname]` are those of the plain table. -/
theorem c16_accessors {s : St} {ts : List Table} (g : Good s ts) {i : Nat} {c : Cont} {t : Table}
    (hc : s.conts[i]? = some c) (ht : ts[i]? = some t) :
    c.len = t.len ∧ c.names = t.keys ∧
    (∀ n, (c.fields.lookup n).bind (fun l => s.heap[l]?) = t.cols.lookup n) ∧
    (c.idx = none ∨ c.idx = some (List.range t.len)) ∧
    viewCont s.heap c = .ok t := by
  have r := g.rep i c t hc ht
  refine ⟨r.len, r.names, lookup_of_forall₂ r.forall₂, ?_, view_of_rep r (g.wf t (List.mem_of_getElem? ht))⟩
  rw [← r.len]; exact r.idx

/-- **Invariant, one step**: all columns have length `_len`, the field list is the list of keys, `_indices` is
absent or `range _len`, no location is shared — preserved by every operation, also by a raising one. -/
theorem c16_inv_step {s : St} (h : Inv s) (op : Op) : Inv (stepH s op).1 := by
  obtain ⟨ts, g⟩ := h
  exact ⟨_, (step_refines g op).1⟩

theorem c16_inv_concrete {s : St} (h : Inv s) : CInv s := by
  obtain ⟨ts, g⟩ := h
  exact cinv_of_good g

/-- **Invariant, all histories** (concrete form) -/
theorem c16_inv_run (ops : List Op) : CInv (runH ⟨[], []⟩ ops) :=
  cinv_of_good (c16_refines_from_init ops)

/-- well-formedness of the plain tables is preserved by the plain-table semantics -/
theorem c16_spec_wf_step {ts : List Table} (hwf : ∀ t ∈ ts, WF t) (op : Op) : ∀ t ∈ (stepT ts op).1, WF t := by
  unfold stepT
  cases hr : tableOp (getT ts) ts.length op with
  | error e => exact hwf
  | ok r =>
    obtain ⟨tgt, u, out⟩ := r
    have ok := tableOp_ok ts hwf op tgt u out hr
    cases tgt with
    | inplace c =>
      intro t ht
      rcases List.mem_or_eq_of_mem_set ht with h1 | h1
      · exact hwf t h1
      · rw [h1]; exact ok.1
    | new =>
      intro t ht
      rcases List.mem_append.mp ht with h1 | h1
      · exact hwf t h1
      · simp at h1; rw [h1]; exact ok.1

/-- a raising operation changes nothing (plain-table layer and heap layer) -/
theorem c16_error_no_change {s : St} {ts : List Table} (g : Good s ts) (op : Op) (e : Err)
    (h : (stepH s op).2 = .error e) : (stepH s op).1 = s ∧ (stepT ts op).1 = ts := by
  have h2 : (stepT ts op).2 = .error e := by rw [← (step_refines g op).2]; exact h
  constructor
  · unfold stepH at h ⊢
    cases hr : tableOp (viewAt s) s.conts.length op with
    | error e' => rfl
    | ok r =>
      obtain ⟨tgt, u, o⟩ := r
      rw [hr] at h
      cases tgt with
      | inplace c =>
        simp only at h ⊢
        cases hc : s.conts[c]? with
        | none => rfl
        | some cont =>
          rw [hc] at h
          simp only at h ⊢
          cases hp : place cont.fields s.heap u.cols with
          | error e' => rfl
          | ok r2 => rw [hp] at h; cases h
      | new =>
        simp only at h ⊢
        cases hp : place [] s.heap u.cols with
        | error e' => rfl
        | ok r2 => rw [hp] at h; cases h
  · unfold stepT at h2 ⊢
    cases hr : tableOp (getT ts) ts.length op with
    | error e' => rfl
    | ok r =>
      obtain ⟨tgt, u, o⟩ := r
      rw [hr] at h2
      cases tgt <;> cases h2

/-- **A selection is fresh**: `get_selection` returns container number `len(conts)`; all earlier containers are
still there, bit for bit (`s'.conts = s.conts ++ [new]`), they still represent their tables, and the new
container shares no location with any of them. -/
theorem c16_selection_fresh {s : St} {ts : List Table} (g : Good s ts) (c : Nat) (sel : Sel) (out : Out)
    (h : (stepH s (.getSel c sel)).2 = .ok out) :
    out = .cont s.conts.length ∧
    ∃ cnew, (stepH s (.getSel c sel)).1.conts = s.conts ++ [cnew] ∧
      ∀ (i : Nat) (ci : Cont) (n m l : Nat), s.conts[i]? = some ci → (n, l) ∈ ci.fields → (m, l) ∉ cnew.fields := by
  obtain ⟨h1, cnew, h2⟩ := stepH_new_shape s _ out (fun tgt u o hr => target_new_getSel hr) h
  refine ⟨h1, cnew, h2, ?_⟩
  intro i ci n m l hci hn hm
  have g' := (step_refines g (.getSel c sel)).1
  have hi : i < s.conts.length := (List.getElem?_eq_some_iff.mp hci).1
  have := g'.noalias i s.conts.length ci cnew n m l
    (by rw [h2, List.getElem?_append_left hi]; exact hci) (by rw [h2]; simp) hn hm
  omega

/-- **A copy is fresh** (same statement for `copy(keep_fields)`). -/
theorem c16_copy_fresh {s : St} {ts : List Table} (g : Good s ts) (c : Nat) (keep : Option (List Nat)) (out : Out)
    (h : (stepH s (.copy c keep)).2 = .ok out) :
    out = .cont s.conts.length ∧
    ∃ cnew, (stepH s (.copy c keep)).1.conts = s.conts ++ [cnew] ∧
      ∀ (i : Nat) (ci : Cont) (n m l : Nat), s.conts[i]? = some ci → (n, l) ∈ ci.fields → (m, l) ∉ cnew.fields := by
  obtain ⟨h1, cnew, h2⟩ := stepH_new_shape s _ out (fun tgt u o hr => target_new_copy hr) h
  refine ⟨h1, cnew, h2, ?_⟩
  intro i ci n m l hci hn hm
  have g' := (step_refines g (.copy c keep)).1
  have hi : i < s.conts.length := (List.getElem?_eq_some_iff.mp hci).1
  have := g'.noalias i s.conts.length ci cnew n m l
    (by rw [h2, List.getElem?_append_left hi]; exact hci) (by rw [h2]; simp) hn hm
  omega

/-- **Frame** of the plain-table semantics: an operation changes at most its target table; an operation
that creates a table changes no existing one. -/
theorem c16_spec_frame (ts : List Table) (op : Op) (i : Nat) (hi : i < ts.length)
    (hne : ∀ tgt u out, tableOp (getT ts) ts.length op = .ok (tgt, u, out) → tgt ≠ .inplace i) :
    (stepT ts op).1[i]? = ts[i]? := by
  unfold stepT
  cases hr : tableOp (getT ts) ts.length op with
  | error e => rfl
  | ok r =>
    obtain ⟨tgt, u, out⟩ := r
    cases tgt with
    | inplace c =>
      have : c ≠ i := fun h => hne _ u out hr (by rw [h])
      simp only [List.getElem?_set_ne this]
    | new => simp only [List.getElem?_append_left hi]

/-- **Rows stay aligned under sorting**: every column of the sorted table is the old column of the same name
and dtype gathered with one and the same index list `perm`, which is a permutation of `range len`, and the key
column is non-decreasing afterwards. -/
theorem c16_sort_aligned (get : Nat → Except Err Table) (k c n : Nat) (perm : List Nat) (tgt : Target) (u : Upd) (out : Out)
    (h : tableOp get k (.sortBy c n perm) = .ok (tgt, u, out)) :
    ∃ t key, get c = .ok t ∧ t.cols.lookup n = some key ∧ isPerm perm key.vals.length = true ∧
      (∃ ks, gatherE key.vals perm = .ok ks ∧ nondecr ks = true) ∧ out = .idxs perm ∧
      List.Forall₂ (fun (p : Name × Col) (e : Name × Prov × Col) =>
        e.1 = p.1 ∧ e.2.2.dt = p.2.dt ∧ gatherE p.2.vals perm = .ok e.2.2.vals) t.cols u.cols := by
  simp only [tableOp, bind_ok] at h
  obtain ⟨t, ht, h⟩ := h
  split at h
  · cases h
  · rename_i key hkey
    split_ifs at h with h1
    simp only [bind_ok] at h
    obtain ⟨ks, hks, h⟩ := h
    split_ifs at h with h2
    simp only [bind_ok] at h
    obtain ⟨cols, hcols, h⟩ := h
    simp only [pure_eq, Except.ok.injEq, Prod.mk.injEq] at h
    obtain ⟨rfl, rfl, rfl⟩ := h
    refine ⟨t, key, ht, hkey, by simpa using h1, ⟨ks, hks, by simpa using h2⟩, rfl, ?_⟩
    refine (mapE_forall₂ _ _ _ hcols).imp ?_
    intro p e hpe
    unfold sortCol at hpe
    split at hpe
    · rename_i vs hvs
      cases hpe
      exact ⟨rfl, rfl, hvs⟩
    · cases hpe

/-- **Rows stay aligned under selection**: every column of the selection is the old column of the same name
selected with the same `indices`. -/
theorem c16_selection_aligned (get : Nat → Except Err Table) (k c : Nat) (sel : Sel) (tgt : Target) (u : Upd) (out : Out)
    (h : tableOp get k (.getSel c sel) = .ok (tgt, u, out)) :
    ∃ t, get c = .ok t ∧ List.Forall₂ (fun (p : Name × Col) (e : Name × Col) =>
        e.1 = p.1 ∧ selCol p.2 sel = .ok e.2) t.cols u.table.cols := by
  simp only [tableOp, bind_ok] at h
  obtain ⟨t, ht, cols, hcols, h⟩ := h
  simp only [pure_eq, Except.ok.injEq, Prod.mk.injEq] at h
  obtain ⟨rfl, rfl, rfl⟩ := h
  refine ⟨t, ht, ?_⟩
  simp only [Upd.table, freshAll_table]
  refine (mapE_forall₂ _ _ _ hcols).imp ?_
  intro p e hpe
  unfold selColE at hpe
  split at hpe
  · rename_i c2 hc2
    cases hpe
    exact ⟨rfl, hc2⟩
  · cases hpe

/-! ### shared locations: arrays handed in by the caller -/

/-- **Rebinding operations never change an existing array.**  In *any* state of the heap layer — slots may share
locations with each other, with other containers, with arrays the caller holds — every operation except
`set_selection` (sort, append, selections, copies, dtype conversion, renaming, removing, adding or assigning a
field, also with a handed-in array that is already a column elsewhere) leaves every existing heap cell as it is,
and rebinds the slots of at most one existing container.  So every other container, and every array object the
caller got from `__getitem__` or handed in, reads the same afterwards. -/
theorem c16_rebind_ops_frame (s : St) (xop : XOp) (hx : xop.writesThrough = false) :
    (∀ l, l < s.heap.length → (stepX s xop).1.heap[l]? = s.heap[l]?) ∧
    ∃ c, ∀ i, i ≠ c → i < s.conts.length → (stepX s xop).1.conts[i]? = s.conts[i]? := by
  cases xop with
  | poke d m k v => simp [XOp.writesThrough] at hx
  | base op =>
    have hns : ¬ IsSetSel op := by
      intro h; cases op <;> simp [IsSetSel] at h; simp [XOp.writesThrough] at hx
    exact ⟨fun l hl => stepH_heap_frame s op l hl (Or.inl hns), stepH_conts_frame s op⟩
  | appendFieldFrom c n d m =>
    refine ⟨fun l _ => ?_, c, fun i hic _ => ?_⟩
    · simp only [stepX]
      split
      · split
        · rfl
        · rw [bindNew_heap]
      · rfl
    · simp only [stepX]
      split
      · split
        · rfl
        · exact bindNew_conts _ _ _ _ _ _ hic
      · rfl
  | setItemFrom c n d m =>
    refine ⟨fun l _ => ?_, c, fun i hic _ => ?_⟩
    · simp only [stepX]
      split
      · split
        · rfl
        · split
          · split
            · rfl
            · split <;> rfl
          · rw [bindNew_heap]
      · rfl
    · simp only [stepX]
      split
      · split
        · rfl
        · split
          · split
            · rfl
            · split
              · rfl
              · simp only [List.getElem?_set_ne (Ne.symm hic)]
          · exact bindNew_conts _ _ _ _ _ _ hic
      · rfl
  | newShared d m =>
    refine ⟨fun l _ => ?_, 0, fun i _ hi => ?_⟩
    · simp only [stepX]
      split
      · rfl
      · split
        · rfl
        · split <;> rfl
    · simp only [stepX]
      split
      · rfl
      · split
        · rfl
        · split
          · rfl
          · simp only [List.getElem?_append_left hi]

/-- **`set_selection` writes through its own columns only**: in any state, a heap cell that is not bound in the
target container is unchanged — but every slot (of any container, or the caller) bound to a written location
sees the new content. -/
theorem c16_set_selection_writes_target_only (s : St) (c : Nat) (sel : Sel) (d : Nat) (l : Nat) (hl : l < s.heap.length)
    (hnot : ∀ cont n, s.conts[c]? = some cont → (n, l) ∉ cont.fields) :
    (stepX s (.base (.setSel c sel d))).1.heap[l]? = s.heap[l]? := by
  refine stepH_heap_frame s _ l hl (Or.inr ?_)
  intro c' sel' d' cont n heq hc
  cases heq
  exact hnot cont n hc

/-- non-vacuity / what sharing means: `t.append_field(2, t[0])` binds two slots to one location; an in-place
assignment through slot 0 is seen through slot 2 and through the array the caller holds (`newShared`), whereas
sorting rebinds the slots of `t` and leaves the caller's array alone -/
example :
    let s0 := runX ⟨[], []⟩ [.base (.new [(0, ⟨.i64, [3, 1, 2]⟩)]), .appendFieldFrom 0 2 0 0, .newShared 0 0,
                              .base (.new [(0, ⟨.i64, [7, 8, 9]⟩), (2, ⟨.i64, [7, 8, 9]⟩)])]
    let s1 := (stepX s0 (.base (.setSel 0 (.idx [0, 1, 2]) 2))).1
    let s2 := (stepX s1 (.base (.sortBy 0 0 [0, 1, 2]))).1
    (viewAt s1 1).toOption.map (·.cols) = some [(0, ⟨.i64, [7, 8, 9]⟩)] ∧
    (viewAt s2 1).toOption.map (·.cols) = some [(0, ⟨.i64, [7, 8, 9]⟩)] ∧
    (s1.conts.map (·.fields)) = [[(0, 0), (2, 0)], [(0, 0)], [(0, 1), (2, 2)]] ∧
    (s2.conts.map (·.fields)) = [[(0, 3), (2, 4)], [(0, 0)], [(0, 1), (2, 2)]] := by decide


/-! ### refinement when locations are shared (rebinding operations) -/

namespace C16
/-- (restated with explicit argument for use below) -/
theorem spec_wf_step' {ts : List Table} (hwf : ∀ t ∈ ts, WF t) (op : Op) : ∀ t ∈ (stepT ts op).1, WF t :=
  c16_spec_wf_step hwf op
end C16

namespace StoreP

/-- representation of a table by a container when locations may be shared: `Rep` without the distinctness of the
locations -/
structure RepS (h : List Col) (c : Cont) (t : Table) : Prop where
  cols : c.fields.map (fun p => (p.1, h[p.2]?)) = t.cols.map (fun p => (p.1, some p.2))
  names : c.names = t.keys
  len : c.len = t.len
  idx : c.idx = none ∨ c.idx = some (List.range c.len)

theorem RepS.keys {h c t} (r : RepS h c t) : c.fields.map (·.1) = t.keys := by
  have := congrArg (List.map (·.1)) r.cols
  simpa [Table.keys, List.map_map, Function.comp_def] using this

theorem RepS.forall₂ {h c t} (r : RepS h c t) :
    List.Forall₂ (fun (a : Name × Loc) (b : Name × Col) => a.1 = b.1 ∧ h[a.2]? = some b.2) c.fields t.cols := by
  have h1 : List.Forall₂ (· = ·) (c.fields.map (fun p => (p.1, h[p.2]?))) (t.cols.map (fun p => (p.1, some p.2))) := by
    rw [List.forall₂_eq_eq_eq]; exact r.cols
  rw [List.forall₂_map_left_iff, List.forall₂_map_right_iff] at h1
  exact h1.imp (fun a b hab => by simpa [Prod.ext_iff] using hab)

theorem RepS.col_of_field {h c t} (r : RepS h c t) {o : Name} {l : Loc} (hm : (o, l) ∈ c.fields) :
    ∃ col, h[l]? = some col ∧ (o, col) ∈ t.cols := by
  have : (o, h[l]?) ∈ c.fields.map (fun p => (p.1, h[p.2]?)) := List.mem_map.mpr ⟨(o, l), hm, rfl⟩
  rw [r.cols] at this
  obtain ⟨p, hp, he⟩ := List.mem_map.mp this
  simp only [Prod.mk.injEq] at he
  exact ⟨p.2, he.2.symm, by rw [← he.1]; exact hp⟩

theorem RepS.field_of_col {h c t} (r : RepS h c t) {o : Name} {col : Col} (hm : (o, col) ∈ t.cols) :
    ∃ l, (o, l) ∈ c.fields ∧ h[l]? = some col := by
  have : (o, some col) ∈ t.cols.map (fun p => (p.1, some p.2)) := List.mem_map.mpr ⟨(o, col), hm, rfl⟩
  rw [← r.cols] at this
  obtain ⟨p, hp, he⟩ := List.mem_map.mp this
  simp only [Prod.mk.injEq] at he
  exact ⟨p.2, by rw [← he.1]; exact hp, he.2⟩

/-- reading a consistent container through its caches yields exactly the table it represents -/
theorem view_of_repS {h c t} (r : RepS h c t) (wf : WF t) : viewCont h c = .ok t := by
  have hk : (c.fields.map (·.1)).Nodup := by rw [r.keys]; exact wf.1
  have hz := List.forall₂_iff_zip.mp r.forall₂
  have h2 : List.Forall₂ (fun (n : Name) (b : Name × Col) => readField h c.fields n = Except.ok b) c.names t.cols := by
    rw [r.names, ← r.keys, List.forall₂_map_left_iff]
    refine List.forall₂_iff_zip.mpr ⟨hz.1, ?_⟩
    intro a b hab
    obtain ⟨h1, h2⟩ := hz.2 hab
    have ha : a ∈ c.fields := (List.of_mem_zip hab).1
    have hl : c.fields.lookup a.1 = some a.2 := lookup_of_mem _ _ _ hk ha
    simp only [readField, hl, h2]
    rw [h1]
  unfold viewCont
  rw [mapE_ok_of_forall₂ _ _ _ h2]
  simp only [r.len]


/-- the simulation relation when slots may share locations: every container represents its table; nothing is said
about which locations are distinct -/
structure GoodS (s : St) (ts : List Table) : Prop where
  len : s.conts.length = ts.length
  rep : ∀ (i : Nat) (c : Cont) (t : Table), s.conts[i]? = some c → ts[i]? = some t → RepS s.heap c t
  wf : ∀ t ∈ ts, WF t

theorem Good.toGoodS {s : St} {ts : List Table} (g : Good s ts) : GoodS s ts :=
  ⟨g.len, fun i c t hc ht => let r := g.rep i c t hc ht; ⟨r.cols, r.names, r.len, r.idx⟩, g.wf⟩

theorem view_eqS {s : St} {ts : List Table} (g : GoodS s ts) : viewAt s = getT ts := by
  funext i
  unfold viewAt getT
  cases hc : s.conts[i]? with
  | none =>
    have : ts[i]? = none := by
      rw [List.getElem?_eq_none_iff] at hc ⊢; rw [← g.len]; exact hc
    simp [this]
  | some c =>
    have hi : i < ts.length := by
      rw [← g.len]; exact (List.getElem?_eq_some_iff.mp hc).1
    have ht : ts[i]? = some ts[i] := List.getElem?_eq_getElem hi
    simp only [ht]
    exact view_of_repS (g.rep i c _ hc ht) (g.wf _ (List.getElem_mem hi))

theorem repS_frame {h h' : List Col} {c : Cont} {t : Table} (r : RepS h c t)
    (hfr : ∀ n l, (n, l) ∈ c.fields → h'[l]? = h[l]?) : RepS h' c t := by
  refine ⟨?_, r.names, r.len, r.idx⟩
  rw [← r.cols]
  apply List.map_congr_left
  intro p hp
  rw [hfr p.1 p.2 hp]

theorem valid_of_repS {h : List Col} {c : Cont} {t : Table} (r : RepS h c t) {n l} (hm : (n, l) ∈ c.fields) :
    l < h.length := by
  obtain ⟨col, hcol, _⟩ := r.col_of_field hm
  exact (List.getElem?_eq_some_iff.mp hcol).1

/-- binding result columns none of which is written in place: needs no distinctness of locations -/
theorem place_spec_rebind (old : List (Name × Loc)) (hk : (old.map (·.1)).Nodup) :
    ∀ (pc : PCols) (h : List Col),
      (∀ p ∈ old, p.2 < h.length) → (∀ e ∈ pc, wrefOf e.2.1 = none) → (∀ e ∈ pc, EntryOK old h e) →
      ∃ h' fs, place old h pc = .ok (h', fs) ∧ (∀ l, l < h.length → h'[l]? = h[l]?) ∧
        fs.map (fun p => (p.1, h'[p.2]?)) = pc.map (fun e => (e.1, some e.2.2)) := by
  intro pc
  induction pc with
  | nil => intro h _ _ _; exact ⟨h, [], rfl, fun _ _ => rfl, rfl⟩
  | cons e r ih =>
    intro h hv hw he
    obtain ⟨n, prov, col⟩ := e
    have hwr : ∀ e' ∈ r, wrefOf e'.2.1 = none := fun e' h' => hw e' (List.mem_cons_of_mem _ h')
    have her : ∀ e' ∈ r, EntryOK old h e' := fun e' h' => he e' (List.mem_cons_of_mem _ h')
    cases prov with
    | fresh =>
      have hv1 : ∀ p ∈ old, p.2 < (h ++ [col]).length := fun p hp => by
        rw [List.length_append]; exact Nat.lt_add_right _ (hv p hp)
      have he1 : ∀ e' ∈ r, EntryOK old (h ++ [col]) e' := by
        intro e' h'
        have h0 := her e' h'
        unfold EntryOK at h0 ⊢
        split
        · trivial
        · rename_i o' hpe
          rw [hpe] at h0
          obtain ⟨l', hl1, hl2⟩ := h0
          refine ⟨l', hl1, ?_⟩
          have hlt : l' < h.length := hv _ hl1
          rw [List.getElem?_append_left hlt]; exact hl2
        · rename_i o' hpe
          rw [hpe] at h0
          exact h0
      obtain ⟨h', fs, hp, hfr, habs⟩ := ih (h ++ [col]) hv1 hwr he1
      refine ⟨h', (n, h.length) :: fs, by simp [place, hp], ?_, ?_⟩
      · intro l hl
        rw [hfr l (by simp; omega), List.getElem?_append_left hl]
      · have hnew : h'[h.length]? = some col := by
          rw [hfr h.length (by simp)]; simp
        simp [habs, hnew]
    | kept o =>
      obtain ⟨l, hol, hcol⟩ : ∃ l, (o, l) ∈ old ∧ h[l]? = some col := by
        have := he (n, .kept o, col) (List.mem_cons_self); simpa [EntryOK] using this
      have hlk : old.lookup o = some l := lookup_of_mem _ _ _ hk hol
      obtain ⟨h', fs, hp, hfr, habs⟩ := ih h hv hwr her
      refine ⟨h', (n, l) :: fs, by simp [place, hlk, hp], hfr, ?_⟩
      have : h'[l]? = some col := by rw [hfr l (hv _ hol)]; exact hcol
      simp [habs, this]
    | written o =>
      have := hw (n, .written o, col) List.mem_cons_self
      simp [wrefOf] at this


/-- one rebinding operation of the heap layer, locations possibly shared: the plain tables are still simulated -/
theorem step_refines_rebind {s : St} {ts : List Table} (g : GoodS s ts) (op : Op) (hns : ¬ IsSetSel op) :
    GoodS (stepH s op).1 (stepT ts op).1 ∧ (stepH s op).2 = (stepT ts op).2 := by
  unfold stepH stepT
  rw [view_eqS g, g.len]
  cases hr : tableOp (getT ts) ts.length op with
  | error e => exact ⟨g, rfl⟩
  | ok r =>
    obtain ⟨tgt, u, out⟩ := r
    have ok := tableOp_ok ts g.wf op tgt u out hr
    have hnw : ∀ e ∈ u.cols, wrefOf e.2.1 = none := by
      have := tableOp_wrefs _ _ _ _ _ _ hr hns
      unfold wrefs at this
      rw [List.filterMap_eq_nil_iff] at this
      exact this
    cases tgt with
    | inplace c =>
      obtain ⟨wfu, t, htc, hprov, hnames, hlen⟩ := ok
      have hc : c < s.conts.length := by rw [g.len]; exact (List.getElem?_eq_some_iff.mp htc).1
      have hcc : s.conts[c]? = some s.conts[c] := List.getElem?_eq_getElem hc
      generalize s.conts[c] = cont at hcc
      have r := g.rep c cont t hcc htc
      have hk : (cont.fields.map (·.1)).Nodup := by rw [r.keys]; exact (g.wf t (List.mem_of_getElem? htc)).1
      obtain ⟨h', fs, hp, hfr, habs⟩ := place_spec_rebind cont.fields hk u.cols s.heap
        (fun p hp => valid_of_repS r (n := p.1) hp) hnw (by
          intro e he
          have := hprov.2 e he
          unfold EntryOK
          split
          · trivial
          · rename_i o hpe
            rw [hpe] at this
            obtain ⟨l, hl1, hl2⟩ := r.field_of_col this
            exact ⟨l, hl1, hl2⟩
          · rename_i o hpe
            have := hnw e he
            rw [hpe] at this
            simp [wrefOf] at this)
      simp only [hcc, hp]
      have hfskeys : fs.map (·.1) = u.cols.map (·.1) := by
        have := congrArg (List.map (·.1)) habs
        simpa [List.map_map, Function.comp_def] using this
      refine ⟨⟨by simp [g.len], ?_, ?_⟩, ?_⟩
      · intro i ci ti hci hti
        by_cases hic : i = c
        · subst hic
          simp only [List.getElem?_set_self hc, Option.some.injEq] at hci
          have hc' : i < ts.length := by rw [← g.len]; exact hc
          simp only [List.getElem?_set_self hc', Option.some.injEq] at hti
          subst hci hti
          refine ⟨?_, ?_, rfl, ?_⟩
          · simp only [Upd.table, List.map_map, Function.comp_def]; exact habs
          · simp only [Upd.table, Table.keys, List.map_map, Function.comp_def]
            rw [r.names]; exact hnames fs hfskeys
          · exact idxUpd_ok cont.idx cont.len u.len op r.idx (fun h => by rw [hlen h, ← r.len])
        · rw [List.getElem?_set_ne (Ne.symm hic)] at hci hti
          have ri := g.rep i ci ti hci hti
          exact repS_frame ri (fun n l hm => hfr l (valid_of_repS ri hm))
      · intro t' ht'
        rcases List.mem_or_eq_of_mem_set ht' with h1 | h1
        · exact g.wf t' h1
        · rw [h1]; exact wfu
      · cases op <;> try rfl
        rename_i c'
        simp only [tableOp, bind_ok] at hr
        obtain ⟨t', ht', hr⟩ := hr
        simp only [pure_eq, Except.ok.injEq, Prod.mk.injEq, Target.inplace.injEq] at hr
        obtain ⟨rfl, rfl, rfl⟩ := hr
        have : t' = t := by
          have := getT_ok ht'; rw [htc] at this; exact (Option.some.inj this).symm
        subst this
        rcases r.idx with h0 | h0 <;> simp only [h0]
        rw [r.len]
    | new =>
      obtain ⟨wfu, hrefs⟩ := ok
      obtain ⟨h', fs, hp, hfr, habs⟩ := place_spec_rebind [] (by simp) u.cols s.heap (by simp) hnw (by
          intro e he
          unfold EntryOK
          have : refOf e.2.1 = none := by
            by_contra hne
            obtain ⟨o, ho⟩ := Option.ne_none_iff_exists'.mp hne
            have : o ∈ refs u.cols := List.mem_filterMap.mpr ⟨e, he, ho⟩
            rw [hrefs] at this; cases this
          split
          · trivial
          · rename_i o hpe; rw [hpe] at this; simp [refOf] at this
          · rename_i o hpe; rw [hpe] at this; simp [refOf] at this)
      simp only [hp]
      have hfskeys : fs.map (·.1) = u.cols.map (·.1) := by
        have := congrArg (List.map (·.1)) habs
        simpa [List.map_map, Function.comp_def] using this
      refine ⟨⟨by simp [g.len], ?_, ?_⟩, trivial⟩
      · intro i ci ti hci hti
        by_cases hi : i < s.conts.length
        · rw [List.getElem?_append_left hi] at hci
          rw [List.getElem?_append_left (by rw [← g.len]; exact hi)] at hti
          have ri := g.rep i ci ti hci hti
          exact repS_frame ri (fun n l hm => hfr l (valid_of_repS ri hm))
        · have hi' : i = s.conts.length := by
            have := (List.getElem?_eq_some_iff.mp hci).1
            simp at this; omega
          subst hi'
          simp only [List.getElem?_concat_length, Option.some.injEq] at hci
          rw [g.len, List.getElem?_concat_length, Option.some.injEq] at hti
          subst hci hti
          refine ⟨?_, ?_, rfl, Or.inl rfl⟩
          · simp only [Upd.table, List.map_map, Function.comp_def]; exact habs
          · simp only [Upd.table, Table.keys, List.map_map, Function.comp_def]; exact hfskeys
      · intro t' ht'
        rcases List.mem_append.mp ht' with h1 | h1
        · exact g.wf t' h1
        · simp at h1; rw [h1]; exact wfu


/-! #### handing in an array that already is a column -/

theorem RepS.lookup {h : List Col} {c : Cont} {t : Table} (r : RepS h c t) (n : Name) :
    (c.fields.lookup n).bind (fun l => h[l]?) = t.cols.lookup n := C16.lookup_of_forall₂ r.forall₂ n

/-- `d[m]`: KeyError exactly when the table has no such column; otherwise the location holds that column -/
theorem RepS.lookup_cases {h : List Col} {c : Cont} {t : Table} (r : RepS h c t) (m : Name) :
    (c.fields.lookup m = none ∧ t.cols.lookup m = none) ∨
    ∃ l col, c.fields.lookup m = some l ∧ h[l]? = some col ∧ t.cols.lookup m = some col := by
  have h1 := r.lookup m
  cases hl : c.fields.lookup m with
  | none => left; rw [hl] at h1; exact ⟨rfl, h1.symm⟩
  | some l =>
    right
    obtain ⟨col, hcol, _⟩ := r.col_of_field (mem_of_lookup _ _ _ hl)
    rw [hl] at h1
    simp only [Option.bind_some, hcol] at h1
    exact ⟨l, col, rfl, hcol, h1.symm⟩

theorem dhas_fields {h : List Col} {c : Cont} {t : Table} (r : RepS h c t) (n : Name) :
    dhas c.fields n = dhas t.cols n := by
  have h1 := dhas_iff c.fields n
  have h2 := dhas_iff t.cols n
  rw [r.keys] at h1
  have : (dhas c.fields n = true) ↔ (dhas t.cols n = true) := h1.trans h2.symm
  cases ha : dhas c.fields n <;> cases hb : dhas t.cols n <;> simp_all

theorem getElem_pair {s : St} {ts : List Table} (g : GoodS s ts) {c : Nat} {cont : Cont} (hc : s.conts[c]? = some cont) :
    ∃ t, ts[c]? = some t ∧ RepS s.heap cont t := by
  have hi : c < ts.length := by rw [← g.len]; exact (List.getElem?_eq_some_iff.mp hc).1
  exact ⟨ts[c], List.getElem?_eq_getElem hi, g.rep c cont _ hc (List.getElem?_eq_getElem hi)⟩

theorem getElem_none {s : St} {ts : List Table} (g : GoodS s ts) {c : Nat} (hc : s.conts[c]? = none) : ts[c]? = none := by
  rw [List.getElem?_eq_none_iff] at hc ⊢; rw [← g.len]; exact hc

theorem stepT_appendField {ts : List Table} {c : Nat} {t : Table} (htc : ts[c]? = some t) (n : Name) (col : Col) :
    stepT ts (.appendField c n col) =
      if dhas t.cols n = true then (ts, .error .key)
      else if col.vals.length ≠ t.len then (ts, .error .value)
      else (ts.set c ⟨t.len, t.cols ++ [(n, col)]⟩, .ok .unit) := by
  have hg : getT ts c = .ok t := by simp [getT, htc]
  unfold stepT
  simp only [tableOp, hg, bind, Except.bind]
  split_ifs <;> simp [throw_eq, pure_eq, Upd.table, keepAll_table]

theorem bindNew_eq (s : St) (c : Nat) (cont : Cont) (n : Name) {l : Loc} {col : Col} (hl : s.heap[l]? = some col) :
    bindNew s c cont n l =
      if dhas cont.fields n = true then (s, .error .key)
      else if col.vals.length ≠ cont.len then (s, .error .value)
      else (⟨s.heap, s.conts.set c { cont with fields := cont.fields ++ [(n, l)], names := cont.names ++ [n] }⟩, .ok .unit) := by
  unfold bindNew
  simp only [hl]

/-- `append_field(n, arr)` with `arr` the array at location `l` -/
theorem bindNew_refines {s : St} {ts : List Table} (g : GoodS s ts) {c : Nat} {cont : Cont} {t : Table}
    (hcc : s.conts[c]? = some cont) (htc : ts[c]? = some t) (n : Name) {l : Loc} {col : Col} (hl : s.heap[l]? = some col) :
    GoodS (bindNew s c cont n l).1 (stepT ts (.appendField c n col)).1 ∧
    (bindNew s c cont n l).2 = (stepT ts (.appendField c n col)).2 := by
  have r := g.rep c cont t hcc htc
  have hwf := C16.spec_wf_step' g.wf (.appendField c n col)
  have hc : c < s.conts.length := (List.getElem?_eq_some_iff.mp hcc).1
  have hc' : c < ts.length := (List.getElem?_eq_some_iff.mp htc).1
  rw [stepT_appendField htc] at hwf ⊢
  rw [bindNew_eq s c cont n hl, dhas_fields r n, r.len]
  cases h1 : dhas t.cols n with
  | true =>
    simp only [↓reduceIte]
    exact ⟨g, trivial⟩
  | false =>
    rw [h1] at hwf
    by_cases h2 : col.vals.length = t.len
    · simp only [Bool.false_eq_true, ↓reduceIte, h2, ne_eq, not_true_eq_false] at hwf ⊢
      refine ⟨⟨by simp [g.len], ?_, hwf⟩, trivial⟩
      intro i ci ti hci hti
      by_cases hic : i = c
      · subst hic
        simp only [List.getElem?_set_self hc, Option.some.injEq] at hci
        simp only [List.getElem?_set_self hc', Option.some.injEq] at hti
        subst hci hti
        refine ⟨?_, ?_, rfl, by simp only; rw [← r.len]; exact r.idx⟩
        · simp only [List.map_append, r.cols, List.map_cons, List.map_nil, hl]
        · simp only [Table.keys, List.map_append, List.map_cons, List.map_nil]
          rw [r.names]; rfl
      · rw [List.getElem?_set_ne (Ne.symm hic)] at hci hti
        exact g.rep i ci ti hci hti
    · simp only [Bool.false_eq_true, ↓reduceIte, ne_eq, h2, not_false_eq_true]
      exact ⟨g, trivial⟩


theorem stepT_setItem {ts : List Table} {c : Nat} {t : Table} (htc : ts[c]? = some t) (n : Name) (col : Col) :
    stepT ts (.setItem c n col) =
      if dhas t.cols n = true then
        (if col.vals.length ≠ t.len then (ts, .error .value)
         else (ts.set c ⟨t.len, (t.cols.map (setItemCol n col)).map fun e => (e.1, e.2.2)⟩, .ok .unit))
      else stepT ts (.appendField c n col) := by
  rw [stepT_appendField htc]
  have hg : getT ts c = .ok t := by simp [getT, htc]
  unfold stepT
  simp only [tableOp, hg, bind, Except.bind]
  split_ifs <;> simp [throw_eq, pure_eq, Upd.table, keepAll_table]

theorem setItemCol_fst (n : Name) (col : Col) (p : Name × Col) : (setItemCol n col p).1 = p.1 := by
  unfold setItemCol; split <;> rfl

theorem dset_abs {h : List Col} {n : Name} {l : Loc} {col : Col} (hl : h[l]? = some col) :
    ∀ {fs : List (Name × Loc)} {cols : List (Name × Col)},
      List.Forall₂ (fun (a : Name × Loc) (b : Name × Col) => a.1 = b.1 ∧ h[a.2]? = some b.2) fs cols →
      (fs.map (fun p => if p.1 == n then (n, l) else p)).map (fun p => (p.1, h[p.2]?)) =
        ((cols.map (setItemCol n col)).map (fun e => (e.1, e.2.2))).map (fun p => (p.1, some p.2)) := by
  intro fs cols hf
  induction hf with
  | nil => rfl
  | @cons a b fs cols hab _ ih =>
    obtain ⟨a1, a2⟩ := a
    obtain ⟨b1, b2⟩ := b
    simp only at hab
    obtain ⟨rfl, h2⟩ := hab
    simp only [List.map_cons, ih, List.cons.injEq, and_true]
    unfold setItemCol
    by_cases hk : (a1 == n) = true
    · have : a1 = n := by simpa using hk
      simp [hk, hl, this]
    · simp [hk, h2]

/-- `x[n] = arr` for an existing field, `arr` the array at location `l` -/
theorem dset_refines {s : St} {ts : List Table} (g : GoodS s ts) {c : Nat} {cont : Cont} {t : Table}
    (hcc : s.conts[c]? = some cont) (htc : ts[c]? = some t) (n : Name) {l : Loc} {col : Col} (hl : s.heap[l]? = some col)
    (hn : dhas t.cols n = true) (hlen : col.vals.length = t.len) :
    GoodS ⟨s.heap, s.conts.set c { cont with fields := dset cont.fields n l }⟩
      (ts.set c ⟨t.len, (t.cols.map (setItemCol n col)).map fun e => (e.1, e.2.2)⟩) := by
  have r := g.rep c cont t hcc htc
  have hwf := C16.spec_wf_step' g.wf (.setItem c n col)
  rw [stepT_setItem htc] at hwf
  simp only [hn, ↓reduceIte, hlen, ne_eq, not_true_eq_false] at hwf
  have hc : c < s.conts.length := (List.getElem?_eq_some_iff.mp hcc).1
  have hc' : c < ts.length := (List.getElem?_eq_some_iff.mp htc).1
  refine ⟨by simp [g.len], ?_, hwf⟩
  intro i ci ti hci hti
  by_cases hic : i = c
  · subst hic
    simp only [List.getElem?_set_self hc, Option.some.injEq] at hci
    simp only [List.getElem?_set_self hc', Option.some.injEq] at hti
    subst hci hti
    refine ⟨?_, ?_, r.len, r.idx⟩
    · have hd : dhas cont.fields n = true := by rw [dhas_fields r n]; exact hn
      simp only [dset, hd, ↓reduceIte]
      exact dset_abs hl r.forall₂
    · simp only [Table.keys, List.map_map, Function.comp_def, setItemCol_fst]
      exact r.names
  · rw [List.getElem?_set_ne (Ne.symm hic)] at hci hti
    exact g.rep i ci ti hci hti

theorem stepT_new_single (ts : List Table) (m : Name) (col : Col) :
    stepT ts (.new [(m, col)]) = (ts ++ [⟨col.vals.length, [(m, col)]⟩], .ok (.cont ts.length)) := by
  unfold stepT
  simp [tableOp, firstLen, pure_eq, Upd.table, freshAll]

/-- **One step, locations possibly shared.**  For every operation that does not write through — all rebinding
operations of the container and the three ways of handing in an array that already is a column — the heap layer
still computes what the plain tables compute (the handed-in array taken by value), with equal results and errors. -/
theorem stepX_refines {s : St} {ts : List Table} (g : GoodS s ts) (xop : XOp) (hx : xop.writesThrough = false) :
    GoodS (stepX s xop).1 (stepTX ts xop).1 ∧ (stepX s xop).2 = (stepTX ts xop).2 := by
  cases xop with
  | poke d m k v => simp [XOp.writesThrough] at hx
  | base op =>
    have hns : ¬ IsSetSel op := by
      intro h; cases op <;> simp [IsSetSel] at h; simp [XOp.writesThrough] at hx
    exact step_refines_rebind g op hns
  | appendFieldFrom c n d m =>
    simp only [stepX, stepTX]
    cases hc : s.conts[c]? with
    | none => simp only [getElem_none g hc]; exact ⟨g, trivial⟩
    | some cont =>
      obtain ⟨t, htc, r⟩ := getElem_pair g hc
      cases hd : s.conts[d]? with
      | none => simp only [htc, getElem_none g hd]; exact ⟨g, trivial⟩
      | some src =>
        obtain ⟨tsrc, htd, rs⟩ := getElem_pair g hd
        simp only [htc, htd]
        rcases rs.lookup_cases m with ⟨h1, h2⟩ | ⟨l, col, h1, h2, h3⟩
        · simp only [h1, h2]; exact ⟨g, trivial⟩
        · simp only [h1, h3]; exact bindNew_refines g hc htc n h2
  | setItemFrom c n d m =>
    simp only [stepX, stepTX]
    cases hc : s.conts[c]? with
    | none => simp only [getElem_none g hc]; exact ⟨g, trivial⟩
    | some cont =>
      obtain ⟨t, htc, r⟩ := getElem_pair g hc
      cases hd : s.conts[d]? with
      | none => simp only [htc, getElem_none g hd]; exact ⟨g, trivial⟩
      | some src =>
        obtain ⟨tsrc, htd, rs⟩ := getElem_pair g hd
        simp only [htc, htd]
        rcases rs.lookup_cases m with ⟨h1, h2⟩ | ⟨l, col, h1, h2, h3⟩
        · simp only [h1, h2]; exact ⟨g, trivial⟩
        · simp only [h1, h3, h2, dhas_fields r n]
          rw [stepT_setItem htc]
          cases hn : dhas t.cols n with
          | false =>
            simp only [Bool.false_eq_true, ↓reduceIte]
            exact bindNew_refines g hc htc n h2
          | true =>
            simp only [↓reduceIte]
            by_cases hlen : col.vals.length = t.len
            · have hlen' : col.vals.length = cont.len := by rw [r.len]; exact hlen
              rw [if_neg (not_not.mpr hlen'), if_neg (not_not.mpr hlen)]
              exact ⟨dset_refines g hc htc n h2 hn hlen, rfl⟩
            · have hlen' : ¬ col.vals.length = cont.len := by rw [r.len]; exact hlen
              rw [if_pos hlen', if_pos hlen]; exact ⟨g, rfl⟩
  | newShared d m =>
    simp only [stepX, stepTX]
    cases hd : s.conts[d]? with
    | none => simp only [getElem_none g hd]; exact ⟨g, trivial⟩
    | some src =>
      obtain ⟨tsrc, htd, rs⟩ := getElem_pair g hd
      simp only [htd]
      rcases rs.lookup_cases m with ⟨h1, h2⟩ | ⟨l, col, h1, h2, h3⟩
      · simp only [h1, h2]; exact ⟨g, trivial⟩
      · simp only [h1, h3, h2, stepT_new_single, g.len]
        refine ⟨⟨by simp [g.len], ?_, ?_⟩, trivial⟩
        · intro i ci ti hci hti
          by_cases hi : i < s.conts.length
          · rw [List.getElem?_append_left hi] at hci
            rw [List.getElem?_append_left (by rw [← g.len]; exact hi)] at hti
            exact g.rep i ci ti hci hti
          · have hi' : i = s.conts.length := by
              have := (List.getElem?_eq_some_iff.mp hci).1
              simp at this; omega
            subst hi'
            simp only [List.getElem?_concat_length, Option.some.injEq] at hci
            rw [g.len, List.getElem?_concat_length, Option.some.injEq] at hti
            subst hci hti
            exact ⟨by simp [h2], rfl, rfl, Or.inl rfl⟩
        · intro t' ht'
          rcases List.mem_append.mp ht' with h1' | h1'
          · exact g.wf t' h1'
          · simp at h1'; rw [h1']
            exact ⟨by simp [Table.keys], by simp⟩

end StoreP

/-- the plain-table reading of a history of extended operations -/
def C16.runTX (ts : List Table) : List XOp → List Table
  | [] => ts
  | x :: r => C16.runTX (stepTX ts x).1 r

/-- **One step with shared locations**: see `StoreP.stepX_refines`. -/
theorem c16_refines_shared_step {s : St} {ts : List Table} (g : GoodS s ts) (xop : XOp) (hx : xop.writesThrough = false) :
    GoodS (stepX s xop).1 (stepTX ts xop).1 ∧ (stepX s xop).2 = (stepTX ts xop).2 :=
  stepX_refines g xop hx

/-- **All histories without write-through**, arrays handed in that already are columns included: the heap layer —
in which slots now do share locations — still computes the plain tables (every handed-in array taken by value); in
particular sorting, appending and selecting keep the rows of every column aligned and leave every other table and every
array the caller holds untouched (`c16_rebind_ops_frame`).  What is *not* true any more once `set_selection` writes
through a shared location is stated by `c16_set_selection_writes_target_only`: every slot bound to it sees the write. -/
theorem c16_refines_shared {s : St} {ts : List Table} (g : GoodS s ts) (xops : List XOp)
    (hx : ∀ x ∈ xops, x.writesThrough = false) : GoodS (runX s xops) (C16.runTX ts xops) := by
  induction xops generalizing s ts with
  | nil => exact g
  | cons x r ih =>
    exact ih (stepX_refines g x (hx x List.mem_cons_self)).1 (fun y hy => hx y (List.mem_cons_of_mem _ hy))

/-- reading any container after such a history = the plain table -/
theorem c16_accessors_shared {s : St} {ts : List Table} (g : GoodS s ts) (i : Nat) : viewAt s i = getT ts i := by
  rw [view_eqS g]

example : GoodS ⟨[], []⟩ [] := c16_good_init.toGoodS

/-! ### row-oriented reading of the plain tables -/

namespace C16
/-- row `i` of a table: the record of its field values -/
def rowAt (t : Table) (i : Nat) : List (Name × Option Int) := t.cols.map fun p => (p.1, p.2.vals[i]?)

theorem gatherE_get {vs : List Int} : ∀ {ks : List Nat} {out : List Int}, gatherE vs ks = .ok out →
    ∀ (i : Nat), out[i]? = (ks[i]?).bind (fun k => vs[k]?) := by
  intro ks
  induction ks with
  | nil => intro out h i; simp [gatherE, mapE] at h; subst h; simp
  | cons k ks ih =>
    intro out h i
    unfold gatherE mapE at h
    split at h
    · cases h
    · rename_i v hv
      split at hv
      · rename_i v' hv'
        cases hv
        split at h
        · cases h
        · rename_i outs houts
          cases h
          cases i with
          | zero => simp [hv']
          | succ j => simpa using ih (out := outs) houts j
      · cases hv

/-- columns gathered with one index list: row `i` of the result is row `ks[i]` of the origin -/
theorem rows_gather {ks : List Nat} : ∀ {cols : List (Name × Col)} {cols' : PCols},
    List.Forall₂ (fun (p : Name × Col) (e : Name × Prov × Col) => e.1 = p.1 ∧ gatherE p.2.vals ks = .ok e.2.2.vals) cols cols' →
    ∀ (i : Nat), cols'.map (fun e => (e.1, e.2.2.vals[i]?)) = cols.map (fun p => (p.1, (ks[i]?).bind (fun k => p.2.vals[k]?))) := by
  intro cols cols' h
  induction h with
  | nil => intro i; rfl
  | cons hab _ ih =>
    intro i
    simp only [List.map_cons, ih i, hab.1, gatherE_get hab.2 i]

theorem rows_gather' {ks : List Nat} : ∀ {cols cols' : List (Name × Col)},
    List.Forall₂ (fun (p : Name × Col) (e : Name × Col) => e.1 = p.1 ∧ gatherE p.2.vals ks = .ok e.2.vals) cols cols' →
    ∀ (i : Nat), cols'.map (fun e => (e.1, e.2.vals[i]?)) = cols.map (fun p => (p.1, (ks[i]?).bind (fun k => p.2.vals[k]?))) := by
  intro cols cols' h
  induction h with
  | nil => intro i; rfl
  | cons hab _ ih =>
    intro i
    simp only [List.map_cons, ih i, hab.1, gatherE_get hab.2 i]

theorem sortBy_tgt {get : Nat → Except Err Table} {k c n : Nat} {perm : List Nat} {tgt : Target} {u : Upd} {out : Out}
    (h : tableOp get k (.sortBy c n perm) = .ok (tgt, u, out)) : tgt = .inplace c := by
  simp only [tableOp, bind_ok] at h
  obtain ⟨t, _, h⟩ := h
  split at h
  · cases h
  · split_ifs at h
    simp only [bind_ok] at h
    obtain ⟨ks, _, h⟩ := h
    split_ifs at h
    simp only [bind_ok] at h
    obtain ⟨cols, _, h⟩ := h
    simp only [pure_eq, Except.ok.injEq, Prod.mk.injEq] at h
    exact h.1.symm

theorem stepT_inplace {ts : List Table} {op : Op} {c : Nat} {u : Upd} {out : Out}
    (h : tableOp (getT ts) ts.length op = .ok (.inplace c, u, out)) : stepT ts op = (ts.set c u.table, .ok out) := by
  unfold stepT; rw [h]

theorem stepT_new {ts : List Table} {op : Op} {u : Upd} {out : Out}
    (h : tableOp (getT ts) ts.length op = .ok (.new, u, out)) : stepT ts op = (ts ++ [u.table], .ok out) := by
  unfold stepT; rw [h]
end C16

open C16

/-- the index test of the model is a genuine permutation test -/
theorem c16_isPerm_perm (perm : List Nat) (n : Nat) (h : isPerm perm n = true) : perm.Perm (List.range n) := by
  simp only [isPerm, Bool.and_eq_true, beq_iff_eq, List.all_eq_true, List.mem_range] at h
  obtain ⟨hl, hs⟩ := h
  have hsub : List.range n ⊆ perm := fun k hk => by simpa using hs k (List.mem_range.mp hk)
  have hsp : (List.range n).Subperm perm := List.subperm_of_subset List.nodup_range hsub
  exact (hsp.perm_of_length_le (by simp [hl])).symm

/-- **Sorting permutes rows**: after a successful `sort_by_field`, row `i` of the table is the old row `perm[i]` — in
every column at once —, `perm` is a permutation of `range len` (so the rows are the same multiset), and the key column is
non-decreasing. -/
theorem c16_sort_rows (ts : List Table) (hwf : ∀ t ∈ ts, WF t) (c n : Nat) (perm : List Nat) (tgt : Target) (u : Upd) (out : Out)
    (h : tableOp (getT ts) ts.length (.sortBy c n perm) = .ok (tgt, u, out)) :
    ∃ t key, ts[c]? = some t ∧ t.cols.lookup n = some key ∧ tgt = .inplace c ∧ stepT ts (.sortBy c n perm) = (ts.set c u.table, .ok (.idxs perm)) ∧
      perm.Perm (List.range t.len) ∧
      (∀ i, i < t.len → ∃ k, perm[i]? = some k ∧ rowAt u.table i = rowAt t k) ∧
      (∃ ks, gatherE key.vals perm = .ok ks ∧ nondecr ks = true ∧ ((u.table.cols.lookup n).map (·.vals)) = some ks) := by
  obtain ⟨t, key, ht, hkey, hperm, ⟨ks, hks, hnd⟩, hout, hf⟩ := c16_sort_aligned _ _ _ _ _ _ _ _ h
  have htc := getT_ok ht
  have wt := hwf t (List.mem_of_getElem? htc)
  have hklen : key.vals.length = t.len := wt.2 _ (mem_of_lookup _ _ _ hkey)
  have htgt : tgt = .inplace c := sortBy_tgt h
  subst htgt
  subst hout
  have hpp : perm.Perm (List.range t.len) := by rw [← hklen]; exact c16_isPerm_perm _ _ hperm
  have hf' : List.Forall₂ (fun (p : Name × Col) (e : Name × Prov × Col) => e.1 = p.1 ∧ gatherE p.2.vals perm = .ok e.2.2.vals) t.cols u.cols :=
    hf.imp (fun _ _ hh => ⟨hh.1, hh.2.2⟩)
  refine ⟨t, key, htc, hkey, rfl, stepT_inplace h, hpp, ?_, ks, hks, hnd, ?_⟩
  · intro i hi
    have hil : i < perm.length := by rw [hpp.length_eq]; simpa using hi
    refine ⟨perm[i], List.getElem?_eq_getElem hil, ?_⟩
    have := rows_gather hf' i
    simp only [rowAt, Upd.table, List.map_map, Function.comp_def] at this ⊢
    rw [this, List.getElem?_eq_getElem hil]
    rfl
  · -- the key column of the result is the gathered key
    have : ∀ {cols : List (Name × Col)} {cols' : PCols},
        List.Forall₂ (fun (p : Name × Col) (e : Name × Prov × Col) => e.1 = p.1 ∧ gatherE p.2.vals perm = .ok e.2.2.vals) cols cols' →
        cols.lookup n = some key → ((cols'.map (fun e => (e.1, e.2.2))).lookup n).map (·.vals) = some ks := by
      intro cols cols' hh
      induction hh with
      | nil => intro hl; simp [List.lookup] at hl
      | @cons p e cols cols' hpe _ ih =>
        intro hl
        obtain ⟨p1, p2⟩ := p
        simp only [List.lookup] at hl
        simp only [List.map_cons, List.lookup, hpe.1]
        split at hl
        · cases hl
          have := hpe.2; rw [hks] at this; cases this; rfl
        · exact ih hl
    exact this hf' hkey

/-- **A selection gathers rows**: row `i` of `t[indices]` is row `ks[i]` of `t` (in every column), where `ks` are the
positions the index array / mask addresses on an axis of length `len` — the same for every column. -/
theorem c16_selection_rows (ts : List Table) (hwf : ∀ t ∈ ts, WF t) (c : Nat) (sel : Sel) (tgt : Target) (u : Upd) (out : Out)
    (h : tableOp (getT ts) ts.length (.getSel c sel) = .ok (tgt, u, out)) :
    ∃ t, ts[c]? = some t ∧ stepT ts (.getSel c sel) = (ts ++ [u.table], .ok (.cont ts.length)) ∧
      (t.cols = [] ∨ ∃ ks, selPositions t.len sel = .ok ks ∧ u.table.len = ks.length ∧
        ∀ (i : Nat), i < ks.length → ∃ k, ks[i]? = some k ∧ rowAt u.table i = rowAt t k) := by
  obtain ⟨htgt, hout⟩ := C16.target_new_getSel h
  subst htgt hout
  obtain ⟨t, ht, hf⟩ := c16_selection_aligned _ _ _ _ _ _ _ h
  have htc := getT_ok ht
  have wt := hwf t (List.mem_of_getElem? htc)
  refine ⟨t, htc, stepT_new h, ?_⟩
  cases hc : t.cols with
  | nil => left; rfl
  | cons p0 rest =>
    right
    -- every column has length `t.len`, so `selCol` addresses the same positions in all of them
    have hks : ∀ p ∈ t.cols, ∀ e : Name × Col, selCol p.2 sel = .ok e.2 →
        ∃ ks, selPositions t.len sel = .ok ks ∧ gatherE p.2.vals ks = .ok e.2.vals := by
      intro p hp e hpe
      unfold selCol at hpe
      rw [wt.2 p hp] at hpe
      split at hpe
      · cases hpe
      · rename_i ks hk
        split at hpe
        · cases hpe
        · rename_i vs hvs
          simp only [Except.ok.injEq] at hpe
          exact ⟨ks, hk, by rw [← hpe]; exact hvs⟩
    have hp0 : p0 ∈ t.cols := by rw [hc]; exact List.mem_cons_self
    have hz := List.forall₂_iff_zip.mp hf
    obtain ⟨e0, he0⟩ : ∃ e0, (p0, e0) ∈ t.cols.zip u.table.cols := by
      have hl : 0 < u.table.cols.length := by rw [← hz.1, hc]; simp
      refine ⟨u.table.cols[0], ?_⟩
      rw [List.mem_iff_getElem]
      exact ⟨0, by simp [hc]; omega, by simp [hc]⟩
    obtain ⟨ks, hks0, hg0⟩ := hks p0 hp0 e0 (hz.2 he0).2
    have hall : List.Forall₂ (fun (p : Name × Col) (e : Name × Col) => e.1 = p.1 ∧ gatherE p.2.vals ks = .ok e.2.vals) t.cols u.table.cols := by
      refine List.forall₂_iff_zip.mpr ⟨hz.1, fun {a b} hab => ?_⟩
      obtain ⟨h1, h2⟩ := hz.2 hab
      obtain ⟨ks', hk', hg'⟩ := hks a (List.of_mem_zip hab).1 b h2
      rw [hks0] at hk'; cases hk'
      exact ⟨h1, hg'⟩
    have hrow : ∀ (i : Nat), u.table.cols.map (fun e => (e.1, e.2.vals[i]?)) =
        t.cols.map (fun p => (p.1, (ks[i]?).bind (fun k => p.2.vals[k]?))) := fun i => C16.rows_gather' hall i
    refine ⟨ks, hks0, ?_, ?_⟩
    · -- the length cache of the selection = length of its first column
      have hlen0 : e0.2.vals.length = ks.length := mapE_length hg0
      have hu : u.table.len = u.len := rfl
      simp only [tableOp, bind_ok] at h
      obtain ⟨t', ht', cols, hcols, h⟩ := h
      simp only [pure_eq, Except.ok.injEq, Prod.mk.injEq] at h
      obtain ⟨_, rfl, _⟩ := h
      have hcols' : (⟨firstLen cols, freshAll cols⟩ : Upd).table.cols = cols := by simp [Upd.table, freshAll_table]
      rw [hcols'] at he0
      have : ∃ r, cols = e0 :: r := by
        cases hcc : cols with
        | nil => rw [hcc, hc] at he0; simp at he0
        | cons x r =>
          rw [hcc, hc] at he0
          simp only [List.zip_cons_cons, List.mem_cons, Prod.mk.injEq] at he0
          rcases he0 with ⟨_, h2⟩ | h2
          · exact ⟨r, by rw [h2]⟩
          · exfalso
            have hk1 : p0.1 ∈ rest.map (·.1) := List.mem_map.mpr ⟨p0, (List.of_mem_zip h2).1, rfl⟩
            have := wt.1; rw [Table.keys, hc] at this
            exact (List.nodup_cons.mp this).1 hk1
      obtain ⟨r, hr⟩ := this
      simp [Upd.table, hr, firstLen, hlen0]
    · intro i hi
      refine ⟨ks[i], List.getElem?_eq_getElem hi, ?_⟩
      simp only [rowAt]
      rw [hrow i, List.getElem?_eq_getElem hi]
      rfl

/-- **A copy has the rows of its origin**: `copy()` appends a table equal to the origin (for a table with at least one field) -/
theorem c16_copy_eq (ts : List Table) (c : Nat) (t : Table) (ht : ts[c]? = some t) (hne : t.cols ≠ []) :
    stepT ts (.copy c none) = (ts ++ [t], .ok (.cont ts.length)) := by
  have hg : getT ts c = .ok t := by simp [getT, ht]
  unfold stepT
  simp only [tableOp, hg, bind, Except.bind, pure, Except.pure, copyCols]
  have : t.cols.isEmpty = false := by
    cases hc : t.cols with
    | nil => exact (hne hc).elim
    | cons _ _ => rfl
  simp [Upd.table, freshAll_table, this]

/-- **Appending concatenates rows**: after `t.append(s)` every column of `t` has the promoted dtype, its first `len t`
values are the old ones, and position `len t + j` holds row `j` of the partner's column of the same name — the same `j`
in every column. -/
theorem c16_append_rows (get : Nat → Except Err Table) (k c d : Nat) (tgt : Target) (u : Upd) (out : Out)
    (h : tableOp get k (.append c d) = .ok (tgt, u, out)) :
    ∃ t s, get c = .ok t ∧ get d = .ok s ∧ tgt = .inplace c ∧ u.len = t.len + s.len ∧
      List.Forall₂ (fun (p : Name × Col) (e : Name × Prov × Col) => e.1 = p.1 ∧ ∃ src, s.cols.lookup p.1 = some src ∧
          e.2.2.dt = promote p.2.dt src.dt ∧
          (∀ (i : Nat), i < p.2.vals.length → e.2.2.vals[i]? = (p.2.vals[i]?).map (castVal e.2.2.dt)) ∧
          (∀ (j : Nat), e.2.2.vals[p.2.vals.length + j]? = (src.vals[j]?).map (castVal e.2.2.dt))) t.cols u.cols := by
  simp only [tableOp, bind_ok] at h
  obtain ⟨t, ht, s, hs, cols, hcols, h⟩ := h
  simp only [pure_eq, Except.ok.injEq, Prod.mk.injEq] at h
  obtain ⟨rfl, rfl, rfl⟩ := h
  refine ⟨t, s, ht, hs, rfl, rfl, (mapE_forall₂ _ _ _ hcols).imp ?_⟩
  intro p e hpe
  unfold appendCol at hpe
  split at hpe
  · rename_i c2 hl
    cases hpe
    refine ⟨rfl, c2, hl, rfl, ?_, ?_⟩
    · intro i hi
      simp only [npAppend]
      rw [List.getElem?_append_left (by simpa using hi), List.getElem?_map]
    · intro j
      simp only [npAppend]
      rw [List.getElem?_append_right (by simp), List.length_map, Nat.add_sub_cancel_left, List.getElem?_map]
  · cases hpe

/-! ### renaming -/

namespace C16
theorem dpop_perm {β : Type} : ∀ (d : List (Name × β)) (o : Name) (v : β), (d.map (·.1)).Nodup → d.lookup o = some v →
    (d.map (·.2)).Perm (v :: (dpop d o).map (·.2)) := by
  intro d
  induction d with
  | nil => intro o v _ h; simp [List.lookup] at h
  | cons p d ih =>
    intro o v hk hl
    obtain ⟨k, x⟩ := p
    simp only [List.map_cons, List.nodup_cons] at hk
    simp only [List.lookup] at hl
    split at hl
    · rename_i heq
      have hok : o = k := by simpa using heq
      subst hok
      cases hl
      have hd : dpop ((o, v) :: d) o = d := by
        simp only [dpop, List.filter_cons, beq_self_eq_true, Bool.not_true, Bool.false_eq_true, if_false]
        apply List.filter_eq_self.mpr
        intro q hq
        have : q.1 ≠ o := fun h => hk.1 (List.mem_map.mpr ⟨q, hq, h⟩)
        simpa using this
      rw [hd]
      exact List.Perm.refl _
    · rename_i hne
      have hne' : ¬ o = k := by simpa using hne
      have hd : dpop ((k, x) :: d) o = (k, x) :: dpop d o := by
        have : (k == o) = false := by rw [beq_eq_false_iff_ne]; exact fun h => hne' h.symm
        simp [dpop, this]
      rw [hd]
      simp only [List.map_cons]
      exact ((ih o v hk.2 hl).cons x).trans (List.Perm.swap v x _)

/-- the loop of `rename_fields` (after the fix) only moves columns: the multiset of column payloads and the
distinctness of the names are kept -/
theorem renameLoop_perm {β : Type} (names : List Name) (must : Bool) :
    ∀ (convs : List (Name × Name)) (d d' : List (Name × β)), (d.map (·.1)).Nodup → renameLoop names must convs d = .ok d' →
      (d'.map (·.2)).Perm (d.map (·.2)) ∧ (d'.map (·.1)).Nodup := by
  intro convs
  induction convs with
  | nil => intro d d' hk h; simp [renameLoop] at h; subst h; exact ⟨List.Perm.refl _, hk⟩
  | cons cv convs ih =>
    intro d d' hk h
    obtain ⟨o, n⟩ := cv
    unfold renameLoop at h
    by_cases h1 : names.contains o = true
    · rw [if_pos h1] at h
      split at h
      · rename_i v hv
        split at h
        · cases h
        · rename_i hno
          have hs : (dpop d o).Sublist d := List.filter_sublist
          have hk1 : ((dpop d o).map (·.1)).Nodup := hk.sublist (hs.map _)
          have hn : n ∉ (dpop d o).map (·.1) := fun hh => hno ((dhas_iff _ n).mpr hh)
          have hds : dset (dpop d o) n v = dpop d o ++ [(n, v)] := by
            unfold dset; rw [if_neg hno]
          have hk2 : ((dset (dpop d o) n v).map (·.1)).Nodup := by
            rw [hds, List.map_append]
            exact List.Nodup.append hk1 (by simp) (by intro a ha hb; simp at hb; subst hb; exact hn ha)
          obtain ⟨p1, p2⟩ := ih _ _ hk2 h
          refine ⟨p1.trans ?_, p2⟩
          rw [hds, List.map_append]
          simp only [List.map_cons, List.map_nil]
          exact (List.perm_append_comm.trans (by simp)).trans (dpop_perm d o v hk hv).symm
      · cases h
    · rw [if_neg h1] at h
      split at h
      · cases h
      · exact ih _ _ hk h
end C16

/-- **Renaming keeps every column** (code after the fix): a successful `rename_fields` leaves the same columns — as a
multiset, same number — under distinct names; nothing is overwritten. -/
theorem c16_rename_keeps_columns (ts : List Table) (hwf : ∀ t ∈ ts, WF t) (c : Nat) (convs : List (Name × Name)) (must : Bool)
    (tgt : Target) (u : Upd) (out : Out) (h : tableOp (getT ts) ts.length (.rename c convs must) = .ok (tgt, u, out)) :
    ∃ t, ts[c]? = some t ∧ (u.table.cols.map (·.2)).Perm (t.cols.map (·.2)) ∧ u.table.cols.length = t.cols.length ∧ u.table.len = t.len := by
  simp only [tableOp, bind_ok] at h
  obtain ⟨t, ht, cols, hcols, h⟩ := h
  simp only [pure_eq, Except.ok.injEq, Prod.mk.injEq] at h
  obtain ⟨_, rfl, _⟩ := h
  have htc := getT_ok ht
  have wt := hwf t (List.mem_of_getElem? htc)
  have hk0 : ((keepAll t.cols).map (·.1)).Nodup := by
    have : (keepAll t.cols).map (·.1) = t.keys := by simp [keepAll, Table.keys, List.map_map, Function.comp_def]
    rw [this]; exact wt.1
  obtain ⟨hp, _⟩ := C16.renameLoop_perm _ _ _ _ _ hk0 hcols
  have hp2 : (cols.map (fun e => e.2.2)).Perm (t.cols.map (·.2)) := by
    have := hp.map (fun pv : Prov × Col => pv.2)
    simpa [keepAll, List.map_map, Function.comp_def] using this
  refine ⟨t, htc, ?_, ?_, rfl⟩
  · simpa [Upd.table, List.map_map, Function.comp_def] using hp2
  · have := hp2.length_eq
    simpa [Upd.table] using this

/-- the statement for the loop as it was coded before the fix -/
def c16_rename_old_keeps_columns_statement : Prop :=
  ∀ (names : List Name) (must : Bool) (convs : List (Name × Name)) (d d' : List (Name × Nat)),
    (d.map (·.1)).Nodup → (convs.map (·.1)).Nodup → renameLoopOld names must convs d = .ok d' → d'.length = d.length

/-- **Counterexample (code before the fix)**: `rename_fields({'ra': 'dec', 'dec': 'x'})` on the fields `ra, dec, x`
leaves the single field `x` holding the `ra` data — two columns are gone without an error. -/
theorem c16_rename_old_counterexample : ¬ c16_rename_old_keeps_columns_statement := by
  intro h
  have := h [0, 1, 6] false [(0, 1), (1, 6)] [(0, 100), (1, 101), (6, 106)] [(6, 100)] (by decide) (by decide) (by decide)
  revert this
  decide

/-! ### the order of checks and writes: what the fixes are about -/

namespace C16
def seqDemo : St := runH ⟨[], []⟩ [.new [(0, ⟨.i64, [2, 1]⟩), (1, ⟨.f32, [5, 6]⟩)], .new [(0, ⟨.i16, [7, 7]⟩)],
                                      .new [(0, ⟨.i16, [7, 7]⟩), (1, ⟨.f32, [8, 8]⟩)]]
end C16

/-- "a raising `set_selection` leaves the arrays as they were", for the executor that interleaves look-ups and writes -/
def c16_setSel_seq_error_no_change_statement : Prop :=
  ∀ (ro : List Loc) (s : St) (c : Nat) (sel : Sel) (d : Nat) (e : Err),
    (setSelSeq ro s c sel d).2 = .error e → (setSelSeq ro s c sel d).1.heap = s.heap

/-- **Counterexample (code before the fixes), partner misses a field**: `a = {ra: [2,1], dec: [5,6]}`, `b = {ra: [7,7]}`,
`a.set_selection([0,1], b)` raises `KeyError` with `a['ra']` already `[7,7]`. -/
theorem c16_setSel_seq_counterexample : ¬ c16_setSel_seq_error_no_change_statement := by
  intro h
  have := h [] C16.seqDemo 0 (.idx [0, 1]) 1 .key (by decide)
  revert this
  decide

/-- **Counterexample, read-only column**: with `a['dec']` a read-only array and a complete partner, the sequential
executor raises `ValueError` after `a['ra']` has been written — the partial write the reviewer probed on the real code. -/
theorem c16_setSel_seq_readonly_counterexample :
    (setSelSeq [1] C16.seqDemo 0 (.idx [0, 1]) 2).2 = .error .value ∧
    (setSelSeq [1] C16.seqDemo 0 (.idx [0, 1]) 2).1.heap ≠ C16.seqDemo.heap := by decide

/-- the code after the fixes (`stepXR`: look-ups, then the writeable check, then the writes) on the same two witnesses:
the same exceptions, nothing written -/
theorem c16_setSel_fixed_on_witnesses :
    let r1 := stepXR [] C16.seqDemo (.base (.setSel 0 (.idx [0, 1]) 1))
    let r2 := stepXR [1] C16.seqDemo (.base (.setSel 0 (.idx [0, 1]) 2))
    (r1.1.heap = C16.seqDemo.heap ∧ r1.1.conts = C16.seqDemo.conts ∧ r1.2 = .error .key) ∧
    (r2.1.heap = C16.seqDemo.heap ∧ r2.1.conts = C16.seqDemo.conts ∧ r2.2 = .error .value) := by decide

/-- **A blocked or raising operation changes nothing** (code after the fixes, read-only arrays included) -/
theorem c16_readonly_error_no_change (ro : List Loc) (s : St) (xop : XOp) (h : roBlocked ro s xop = true) :
    (stepXR ro s xop).1 = s ∧ ∃ e, (stepXR ro s xop).2 = .error e := by
  unfold stepXR
  rw [if_pos h]
  split <;> exact ⟨rfl, _, rfl⟩

/-- and when no column of the target is read-only the read-only layer is the plain one -/
theorem c16_readonly_transparent (ro : List Loc) (s : St) (xop : XOp) (h : roBlocked ro s xop = false) :
    stepXR ro s xop = stepX s xop := by
  unfold stepXR; rw [if_neg (by simp [h])]

/-- "a raising `append` leaves the container as it was", for the executor that rebinds field by field -/
def c16_append_seq_error_no_change_statement : Prop :=
  ∀ (s : St) (c d : Nat) (e : Err), (appendSeq s c d).2 = .error e → (appendSeq s c d).1.conts = s.conts

/-- **Counterexample (code before the fix)**: `a.append(b)` with `b` missing `dec` raises `KeyError` after `a['ra']` has
been rebound to the 4-row array: columns of different lengths. -/
theorem c16_append_seq_counterexample : ¬ c16_append_seq_error_no_change_statement := by
  intro h
  have := h C16.seqDemo 0 1 .key (by decide)
  revert this
  decide

/-! ### in-place assignment to a selection -/

namespace C16
theorem scatter_append : ∀ (a b : List (Nat × Int)) (vs : List Int), scatter vs (a ++ b) = scatter (scatter vs a) b := by
  intro a
  induction a with
  | nil => intro b vs; rfl
  | cons p a ih => intro b vs; obtain ⟨k, v⟩ := p; simp only [List.cons_append, scatter]; exact ih b _

/-- positions that are not addressed keep their value -/
theorem scatter_untouched : ∀ (ps : List (Nat × Int)) (vs : List Int) (i : Nat), (∀ p ∈ ps, p.1 ≠ i) →
    (scatter vs ps)[i]? = vs[i]? := by
  intro ps
  induction ps with
  | nil => intro vs i _; rfl
  | cons p ps ih =>
    intro vs i h
    obtain ⟨k, v⟩ := p
    simp only [scatter]
    rw [ih _ i (fun q hq => h q (List.mem_cons_of_mem _ hq)), List.getElem?_set_ne (h (k, v) List.mem_cons_self)]

/-- an addressed position holds the value of the *last* assignment to it -/
theorem scatter_last (pre post : List (Nat × Int)) (vs : List Int) (i : Nat) (v : Int) (hi : i < vs.length)
    (hpost : ∀ p ∈ post, p.1 ≠ i) : (scatter vs (pre ++ (i, v) :: post))[i]? = some v := by
  rw [scatter_append]
  simp only [scatter]
  rw [scatter_untouched post _ i hpost]
  have : i < (scatter vs pre).length := by rw [scatter_length]; exact hi
  simp [this]

/-- the values written by `dst[indices] = src`: one source value per addressed position, a length-1 source broadcast -/
def assigned (n : Nat) (sv : List Int) : List Int :=
  if sv.length = n then sv else match sv with
    | [v] => List.replicate n v
    | _ => sv

theorem zip_replicate (v : Int) : ∀ (ks : List Nat), ks.zip (List.replicate ks.length v) = ks.map fun k => (k, v) := by
  intro ks
  induction ks with
  | nil => rfl
  | cons k ks ih => simp [List.replicate_succ, ih]

/-- what `putSel` computes: same dtype, the destination values with the addressed positions overwritten in order -/
theorem putSel_spec {dst src c' : Col} {sel : Sel} (h : putSel dst sel src = .ok c') :
    ∃ ks, selPositions dst.vals.length sel = .ok ks ∧ c'.dt = dst.dt ∧
      c'.vals = scatter dst.vals (ks.zip (assigned ks.length (src.vals.map (castVal dst.dt)))) ∧
      ((src.vals.map (castVal dst.dt)).length = ks.length ∨ (src.vals.map (castVal dst.dt)).length = 1) := by
  unfold putSel at h
  split at h
  · cases h
  · rename_i ks hks
    simp only at h
    split at h
    · rename_i hlen
      cases h
      exact ⟨ks, hks, rfl, by simp [assigned, hlen], Or.inl hlen⟩
    · rename_i hlen
      split at h
      · rename_i v hv
        cases h
        refine ⟨ks, hks, rfl, ?_, Or.inr (by rw [hv]; rfl)⟩
        simp only [assigned, hv]
        rw [if_neg (by rw [hv] at hlen; exact hlen), zip_replicate]
      · cases h
end C16

/-- **`set_selection` replaces exactly the selected rows, the same way in every column.**  For a successful
`t.set_selection(indices, s)`: there is one list of positions `ks` (what `indices` addresses on an axis of length `len t`);
every column keeps its dtype and length and is the old column with, for `j = 0, 1, …`, position `ks[j]` overwritten by the
`j`-th value (value 0 if the partner has one row) of the partner's column of the same name, cast to the column's dtype.
With `scatter_untouched` / `scatter_last`: rows that are not selected are untouched, a selected row gets the partner row of
the last `j` addressing it — the same `j` in every column. -/
theorem c16_setSel_rows (ts : List Table) (hwf : ∀ t ∈ ts, WF t) (c : Nat) (sel : Sel) (d : Nat) (tgt : Target) (u : Upd) (out : Out)
    (h : tableOp (getT ts) ts.length (.setSel c sel d) = .ok (tgt, u, out)) :
    ∃ t s, ts[c]? = some t ∧ ts[d]? = some s ∧ tgt = .inplace c ∧ u.len = t.len ∧
      (t.cols = [] ∨ ∃ ks, selPositions t.len sel = .ok ks ∧
        List.Forall₂ (fun (p : Name × Col) (e : Name × Prov × Col) => e.1 = p.1 ∧ e.2.1 = .written p.1 ∧ e.2.2.dt = p.2.dt ∧
          ∃ src, s.cols.lookup p.1 = some src ∧
            e.2.2.vals = scatter p.2.vals (ks.zip (C16.assigned ks.length (src.vals.map (castVal p.2.dt))))) t.cols u.cols) := by
  simp only [tableOp, bind_ok] at h
  obtain ⟨t, ht, s, hs, srcs, hsrcs, cols, hcols, h⟩ := h
  simp only [pure_eq, Except.ok.injEq, Prod.mk.injEq] at h
  obtain ⟨rfl, rfl, rfl⟩ := h
  have htc := getT_ok ht
  have wt := hwf t (List.mem_of_getElem? htc)
  refine ⟨t, s, htc, getT_ok hs, rfl, rfl, ?_⟩
  have hf := forall₂_comp (mapE_forall₂ _ _ _ hsrcs) (mapE_forall₂ _ _ _ hcols)
  have key : ∀ p e, p ∈ t.cols → (∃ q, srcCol s p = .ok q ∧ putCol sel q = .ok e) →
      e.1 = p.1 ∧ e.2.1 = .written p.1 ∧ e.2.2.dt = p.2.dt ∧ ∃ ks src, selPositions t.len sel = .ok ks ∧ s.cols.lookup p.1 = some src ∧
        e.2.2.vals = scatter p.2.vals (ks.zip (C16.assigned ks.length (src.vals.map (castVal p.2.dt)))) := by
    rintro p e hp ⟨q, h1, h2⟩
    unfold srcCol at h1
    split at h1
    · rename_i c2 hl
      cases h1
      unfold putCol at h2
      split at h2
      · rename_i c' hput
        cases h2
        obtain ⟨ks, hks, hdt, hv, _⟩ := C16.putSel_spec hput
        rw [wt.2 p hp] at hks
        exact ⟨rfl, rfl, hdt, ks, c2, hks, hl, hv⟩
      · cases h2
    · cases h1
  cases hc : t.cols with
  | nil => left; rfl
  | cons p0 rest =>
    right
    have hz := List.forall₂_iff_zip.mp hf
    have hp0 : p0 ∈ t.cols := by rw [hc]; exact List.mem_cons_self
    obtain ⟨e0, he0⟩ : ∃ e0, (p0, e0) ∈ t.cols.zip cols := by
      have hl : 0 < cols.length := by rw [← hz.1, hc]; simp
      refine ⟨cols[0], ?_⟩
      rw [List.mem_iff_getElem]
      exact ⟨0, by simp [hc]; omega, by simp [hc]⟩
    obtain ⟨_, _, _, ks, _, hks0, _, _⟩ := key p0 e0 hp0 (hz.2 he0)
    refine ⟨ks, hks0, ?_⟩
    rw [← hc]
    refine List.forall₂_iff_zip.mpr ⟨hz.1, fun {a b} hab => ?_⟩
    obtain ⟨k1, k2, k3, ks', src, hk', hl, hv⟩ := key a b (List.of_mem_zip hab).1 (hz.2 hab)
    rw [hks0] at hk'; cases hk'
    exact ⟨k1, k2, k3, src, hl, hv⟩

/-! ### freshness in any state -/

namespace C16
theorem place_freshAll (old : List (Name × Loc)) : ∀ (cols : List (Name × Col)) (h : List Col),
    ∃ fs, place old h (freshAll cols) = .ok (h ++ cols.map (·.2), fs) ∧ fs.map (·.2) = List.range' h.length cols.length := by
  intro cols
  induction cols with
  | nil => intro h; exact ⟨[], by simp [freshAll, place], rfl⟩
  | cons p cols ih =>
    intro h
    obtain ⟨fs, hp, hfs⟩ := ih (h ++ [p.2])
    refine ⟨(p.1, h.length) :: fs, ?_, ?_⟩
    · simp only [freshAll, List.map_cons, place] at hp ⊢
      rw [hp]; simp
    · simp [hfs, List.range'_succ]
end C16

/-- **Selections and copies are fresh in every state** (no hypothesis on sharing): a successful `get_selection` / `copy`
appends one container whose columns sit at new, pairwise distinct locations, and changes no existing heap cell — so the
result shares no memory with its origin or with anything else, also after arrays were handed in that are columns elsewhere. -/
theorem c16_created_fresh_any (s : St) (op : Op) (out : Out)
    (hop : (∃ c sel, op = .getSel c sel) ∨ (∃ c keep, op = .copy c keep)) (h : (stepH s op).2 = .ok out) :
    ∃ cnew, (stepH s op).1.conts = s.conts ++ [cnew] ∧ (cnew.fields.map (·.2)).Nodup ∧
      (∀ p ∈ cnew.fields, s.heap.length ≤ p.2) ∧ ∀ (l : Nat), l < s.heap.length → (stepH s op).1.heap[l]? = s.heap[l]? := by
  have hshape : ∀ tgt u o, tableOp (viewAt s) s.conts.length op = .ok (tgt, u, o) → tgt = .new ∧ ∃ cols, u.cols = freshAll cols := by
    intro tgt u o hr
    rcases hop with ⟨c, sel, rfl⟩ | ⟨c, keep, rfl⟩
    · simp only [tableOp, bind_ok] at hr
      obtain ⟨t, _, cols, _, hr⟩ := hr
      simp only [pure_eq, Except.ok.injEq, Prod.mk.injEq] at hr
      obtain ⟨rfl, rfl, _⟩ := hr
      exact ⟨rfl, cols, rfl⟩
    · simp only [tableOp, bind_ok] at hr
      obtain ⟨t, _, hr⟩ := hr
      simp only [pure_eq, Except.ok.injEq, Prod.mk.injEq] at hr
      obtain ⟨rfl, rfl, _⟩ := hr
      exact ⟨rfl, _, rfl⟩
  unfold stepH at h ⊢
  cases hr : tableOp (viewAt s) s.conts.length op with
  | error e => rw [hr] at h; cases h
  | ok r =>
    obtain ⟨tgt, u, o⟩ := r
    obtain ⟨rfl, cols, hcols⟩ := hshape tgt u o hr
    obtain ⟨fs, hp, hfs⟩ := C16.place_freshAll [] cols s.heap
    simp only [hcols, hp]
    refine ⟨_, rfl, ?_, ?_, ?_⟩
    · simp only [hfs]; exact List.nodup_range'
    · intro p hp'
      have : p.2 ∈ fs.map (·.2) := List.mem_map.mpr ⟨p, hp', rfl⟩
      rw [hfs] at this
      exact (List.mem_range'_1.mp this).1
    · intro l hl
      exact List.getElem?_append_left hl

/-! ### non-vacuity: a concrete history (constructor, indices, append, selection, in-place assignment, sort,
a raising append) runs through both layers with equal results -/

namespace C16
def demoOps : List Op :=
  [ .new [(0, ⟨.i64, [3, 1, 2]⟩), (1, ⟨.f32, [10, 11, 12]⟩)],
    .indices 0,
    .append 0 0,
    .getSel 0 (.mask [true, false, true, false, false, true]),
    .setSel 0 (.idx [-1, 0, 1]) 1,
    .sortBy 1 0 [1, 2, 0],
    .new [(0, ⟨.b, [1]⟩)],
    .append 0 2 ]
end C16

example : (runT [] C16.demoOps).map (·.len) = [6, 3, 1] := by decide
example : (runT [] C16.demoOps)[1]? = some ⟨3, [(0, ⟨.i64, [2, 2, 3]⟩), (1, ⟨.f32, [12, 12, 10]⟩)]⟩ := by decide
example : (stepT (runT [] (C16.demoOps.take 7)) (.append 0 2)).2 = .error .key := by decide
example : (runH ⟨[], []⟩ C16.demoOps).conts.map (·.len) = [6, 3, 1] := by decide
example : Inv (runH ⟨[], []⟩ C16.demoOps) := ⟨_, c16_refines_from_init _⟩

/-! ### further non-vacuity (review round): freshness with two containers, shared refinement beyond the empty store,
the row theorems on the demo history -/

example : (stepH (runH ⟨[], []⟩ (C16.demoOps.take 4)) (.copy 0 none)).2 = .ok (.cont 2) := by decide
example : (stepH (runH ⟨[], []⟩ (C16.demoOps.take 4)) (.getSel 1 (.idx [-1, 0]))).2 = .ok (.cont 2) := by decide
example : GoodS (runX ⟨[], []⟩ [.base (.new [(0, ⟨.i64, [3, 1, 2]⟩)]), .appendFieldFrom 0 2 0 0, .newShared 0 0, .base (.sortBy 0 0 [1, 2, 0])])
    (C16.runTX [] [.base (.new [(0, ⟨.i64, [3, 1, 2]⟩)]), .appendFieldFrom 0 2 0 0, .newShared 0 0, .base (.sortBy 0 0 [1, 2, 0])]) :=
  c16_refines_shared c16_good_init.toGoodS _ (by decide)
example : C16.rowAt ⟨2, [(0, ⟨.i64, [3, 1]⟩), (1, ⟨.f32, [10, 11]⟩)]⟩ 1 = [(0, some 1), (1, some 11)] := by decide
example : isPerm [1, 2, 0] 3 = true ∧ [1, 2, 0].Perm (List.range 3) := ⟨by decide, c16_isPerm_perm _ _ (by decide)⟩

/-! ### round 3: which fields `tidy_up` / `copy(keep_fields)` keep

`keep_fields` is a set of *names* (a single `str` stands for that one name): a field is kept iff its name is one of them —
never because its name is a substring of a kept name. -/

/-- **`tidy_up` keeps exactly the named fields**: the columns of the result are the columns whose name is in `keep`, in
their order, with their values; the row count is unchanged. -/
theorem c16_tidyUp_keeps_named (ts : List Table) (c : Nat) (keep : List Name) (t : Table) (ht : ts[c]? = some t) :
    stepT ts (.tidyUp c keep) = (ts.set c ⟨t.len, t.cols.filter fun p => keep.contains p.1⟩, .ok .unit) := by
  have hg : getT ts c = .ok t := by simp [getT, ht]
  unfold stepT
  simp [tableOp, hg, bind, Except.bind, pure, Except.pure, Upd.table, keepAll_table]

theorem C16.filter_single_keys (n : Name) : ∀ (cols : List (Name × Col)), (cols.map (·.1)).Nodup →
    (cols.filter fun p => [n].contains p.1).map (·.1) = if n ∈ cols.map (·.1) then [n] else [] := by
  intro cols
  induction cols with
  | nil => intro _; simp
  | cons p cols ih =>
    intro hk
    simp only [List.map_cons, List.nodup_cons] at hk
    have ih' := ih hk.2
    by_cases hp : p.1 = n
    · subst hp
      rw [if_neg hk.1] at ih'
      have hc : [p.1].contains p.1 = true := by simp
      rw [List.filter_cons, if_pos hc, List.map_cons, ih', if_pos (by simp)]
    · have hc : [n].contains p.1 = false := by simp [hp]
      have hiff : (n ∈ p.1 :: cols.map (·.1)) ↔ n ∈ cols.map (·.1) := by
        constructor
        · intro h
          rcases List.mem_cons.mp h with h | h
          · exact (hp h.symm).elim
          · exact h
        · exact List.mem_cons_of_mem _
      simp only [List.filter_cons, hc, Bool.false_eq_true, if_false, List.map_cons, ih']
      by_cases hm : n ∈ cols.map (·.1)
      · rw [if_pos hm, if_pos (hiff.mpr hm)]
      · rw [if_neg hm, if_neg (fun h => hm (hiff.mp h))]

/-- a single name: exactly that field survives (if it exists), whatever the other names look like -/
theorem c16_tidyUp_single (ts : List Table) (c : Nat) (n : Name) (t : Table) (ht : ts[c]? = some t) (hwf : WF t) :
    ∃ t', (stepT ts (.tidyUp c [n])).1[c]? = some t' ∧ t'.len = t.len ∧
      t'.keys = (if n ∈ t.keys then [n] else []) := by
  rw [c16_tidyUp_keeps_named ts c [n] t ht]
  have hc : c < ts.length := (List.getElem?_eq_some_iff.mp ht).1
  exact ⟨⟨t.len, t.cols.filter fun p => [n].contains p.1⟩, List.getElem?_set_self hc, rfl,
    C16.filter_single_keys n t.cols hwf.1⟩

/-- **`copy(keep_fields)` copies exactly the named fields** (and all of them for `keep_fields=None`) -/
theorem c16_copy_keeps_named (ts : List Table) (c : Nat) (keep : List Name) (t : Table) (ht : ts[c]? = some t) :
    stepT ts (.copy c (some keep)) =
      (ts ++ [⟨if (t.cols.filter fun p => keep.contains p.1).isEmpty then 0 else t.len, t.cols.filter fun p => keep.contains p.1⟩],
       .ok (.cont ts.length)) := by
  have hg : getT ts c = .ok t := by simp [getT, ht]
  unfold stepT
  simp only [tableOp, hg, bind, Except.bind, pure, Except.pure, Upd.table, freshAll_table, copyCols]
  congr

example : (stepT [⟨2, [(0, ⟨.i64, [1, 2]⟩), (1, ⟨.f32, [3, 4]⟩), (4, ⟨.f64, [5, 6]⟩)]⟩] (.tidyUp 0 [4])).1 =
    [⟨2, [(4, ⟨.f64, [5, 6]⟩)]⟩] := by decide

/-! ### deepening round: arrays handed out are live (`__getitem__` returns the stored ndarray) -/

/-- **A caller's write into an array handed out by `__getitem__`** changes that one heap cell and nothing else: no container
is rebound, every other location keeps its content — and every slot bound to that location (of this or any other container)
sees the write. In any state. -/
theorem c16_poke_frame (s : St) (d m k : Nat) (v : Int) :
    (stepX s (.poke d m k v)).1.conts = s.conts ∧
    ∀ (l' : Nat), (∀ cont, s.conts[d]? = some cont → cont.fields.lookup m ≠ some l') →
      (stepX s (.poke d m k v)).1.heap[l']? = s.heap[l']? := by
  simp only [stepX]
  cases hd : s.conts[d]? with
  | none => exact ⟨rfl, fun _ _ => rfl⟩
  | some src =>
    simp only
    cases hl : src.fields.lookup m with
    | none => exact ⟨rfl, fun _ _ => rfl⟩
    | some l =>
      simp only
      cases hc : s.heap[l]? with
      | none => exact ⟨rfl, fun _ _ => rfl⟩
      | some col =>
        simp only
        split
        · refine ⟨rfl, fun l' hne => ?_⟩
          have : l ≠ l' := fun h => hne src rfl (by rw [hl, h])
          simp only [List.getElem?_set_ne this]
        · exact ⟨rfl, fun _ _ => rfl⟩

namespace C16
theorem rest_unaffected {h : List Col} {l : Loc} {newc : Col} : ∀ {fs : List (Name × Loc)} {cols : List (Name × Col)},
    List.Forall₂ (fun (a : Name × Loc) (b : Name × Col) => a.1 = b.1 ∧ h[a.2]? = some b.2) fs cols →
    (∀ p ∈ fs, p.2 ≠ l) → fs.map (fun p => (p.1, (h.set l newc)[p.2]?)) = cols.map (fun p => (p.1, some p.2)) := by
  intro fs cols hf
  induction hf with
  | nil => intro _; rfl
  | @cons a b fs cols hab _ ih =>
    intro hno
    have ha : l ≠ a.2 := fun he => hno a List.mem_cons_self he.symm
    simp only [List.map_cons, ih (fun p hp => hno p (List.mem_cons_of_mem _ hp)), List.getElem?_set_ne ha, hab.1, hab.2]

theorem map_id_of_keys_ne {m : Name} {newc : Col} (cols : List (Name × Col)) (h : ∀ p ∈ cols, p.1 ≠ m) :
    (cols.map fun p => if p.1 == m then (p.1, newc) else p) = cols := by
  conv_rhs => rw [← List.map_id cols]
  apply List.map_congr_left
  intro p hp
  have : (p.1 == m) = false := by simpa using h p hp
  simp [this]

theorem forall₂_keys {h : List Col} : ∀ {fs : List (Name × Loc)} {cols : List (Name × Col)},
    List.Forall₂ (fun (a : Name × Loc) (b : Name × Col) => a.1 = b.1 ∧ h[a.2]? = some b.2) fs cols →
    cols.map (·.1) = fs.map (·.1) := by
  intro fs cols hf
  induction hf with
  | nil => rfl
  | cons hab _ ih => simp [ih, hab.1]

theorem poke_cols {h : List Col} {m : Name} {l : Loc} {newc : Col} :
    ∀ {fs : List (Name × Loc)} {cols : List (Name × Col)},
      List.Forall₂ (fun (a : Name × Loc) (b : Name × Col) => a.1 = b.1 ∧ h[a.2]? = some b.2) fs cols →
      (fs.map (·.2)).Nodup → (fs.map (·.1)).Nodup → fs.lookup m = some l → l < h.length →
      fs.map (fun p => (p.1, (h.set l newc)[p.2]?)) =
        (cols.map fun p => if p.1 == m then (p.1, newc) else p).map (fun p => (p.1, some p.2)) := by
  intro fs cols hf
  induction hf with
  | nil => intro _ _ hl; simp [List.lookup] at hl
  | @cons a b fs cols hab hrest ih =>
    intro hnl hnk hl hlt
    obtain ⟨a1, a2⟩ := a
    obtain ⟨b1, b2⟩ := b
    simp only at hab
    obtain ⟨hab1, h2⟩ := hab
    simp only [List.map_cons, List.nodup_cons] at hnl hnk
    simp only [List.lookup] at hl
    by_cases hk : (m == a1) = true
    · have hma : m = a1 := by simpa using hk
      rw [hk] at hl
      have hal : a2 = l := by simpa using hl
      have hno : ∀ p ∈ fs, p.2 ≠ l := fun p hp he => hnl.1 (List.mem_map.mpr ⟨p, hp, by rw [he, hal]⟩)
      have hkeys : ∀ p ∈ cols, p.1 ≠ m := by
        intro p hp he
        have : p.1 ∈ fs.map (·.1) := by rw [← forall₂_keys hrest]; exact List.mem_map.mpr ⟨p, hp, rfl⟩
        exact hnk.1 (by rw [← hma, ← he]; exact this)
      have hb : (b1 == m) = true := by rw [← hab1, hma]; simp
      simp only [List.map_cons, rest_unaffected hrest hno, map_id_of_keys_ne cols hkeys, hb, if_true, hal]
      simp [hlt, hab1]
    · have hk' : (m == a1) = false := by simpa using hk
      rw [hk'] at hl
      have hne : ¬ b1 = m := by rw [← hab1]; intro he; simp [he] at hk
      have hla : l ≠ a2 := by
        intro he
        exact hnl.1 (List.mem_map.mpr ⟨(m, l), mem_of_lookup _ _ _ hl, he⟩)
      have hk2 : (b1 == m) = false := by simpa using hne
      simp only [List.map_cons, hk2, List.getElem?_set_ne hla, h2, Bool.false_eq_true, if_false, hab1]
      rw [ih hnl.2 hnk.2 hl hlt]
end C16

theorem C16.map_if_keys (m : Name) (newc : Col) (cols : List (Name × Col)) :
    (cols.map fun p => if p.1 == m then (p.1, newc) else p).map (·.1) = cols.map (·.1) := by
  rw [List.map_map]
  apply List.map_congr_left
  intro p _
  simp only [Function.comp]
  split <;> rfl

/-- **A caller's write refines the plain table** when no location is shared: the heap layer after `conts[d][m][k] = v`
represents the tables in which exactly position `k` of column `m` of table `d` holds the (cast) value; same errors
(`KeyError` for a missing field, `IndexError` beyond the length). -/
theorem c16_poke_refines {s : St} {ts : List Table} (g : Good s ts) (d m k : Nat) (v : Int) :
    Good (stepX s (.poke d m k v)).1 (stepTX ts (.poke d m k v)).1 ∧
    (stepX s (.poke d m k v)).2 = (stepTX ts (.poke d m k v)).2 := by
  have gs := g.toGoodS
  simp only [stepX, stepTX]
  cases hd : s.conts[d]? with
  | none => simp only [getElem_none gs hd]; exact ⟨g, trivial⟩
  | some src =>
    obtain ⟨t, htd, rs⟩ := getElem_pair gs hd
    have r := g.rep d src t hd htd
    have wt := g.wf t (List.mem_of_getElem? htd)
    simp only [htd]
    rcases rs.lookup_cases m with ⟨h1, h2⟩ | ⟨l, col, h1, h2, h3⟩
    · simp only [h1, h2]; exact ⟨g, trivial⟩
    · simp only [h1, h3, h2]
      by_cases hk : k < col.vals.length
      · rw [if_pos hk, if_pos hk]
        have hlt : l < s.heap.length := (List.getElem?_eq_some_iff.mp h2).1
        have hdl : d < s.conts.length := (List.getElem?_eq_some_iff.mp hd).1
        have hdt : d < ts.length := (List.getElem?_eq_some_iff.mp htd).1
        have hml : (m, l) ∈ src.fields := mem_of_lookup _ _ _ h1
        have hkn : (src.fields.map (·.1)).Nodup := by rw [r.keys]; exact wt.1
        refine ⟨⟨by simp [g.len], ?_, ?_, ?_⟩, rfl⟩
        · intro i ci ti hci hti
          simp only at hci
          by_cases hid : i = d
          · subst hid
            rw [hd] at hci; cases hci
            simp only [List.getElem?_set_self hdt, Option.some.injEq] at hti
            subst hti
            refine ⟨?_, r.locs, ?_, r.len, r.idx⟩
            · exact C16.poke_cols r.forall₂ r.locs hkn h1 hlt
            · simp only [Table.keys, C16.map_if_keys]; exact r.names
          · rw [List.getElem?_set_ne (Ne.symm hid)] at hti
            have ri := g.rep i ci ti hci hti
            refine rep_frame ri ?_
            intro n l' hm'
            have hne : l ≠ l' := by
              rintro rfl
              exact hid (g.noalias i d ci src n m l hci hd hm' hml)
            simp only [List.getElem?_set_ne hne]
        · intro t' ht'
          rcases List.mem_or_eq_of_mem_set ht' with h' | h'
          · exact g.wf t' h'
          · rw [h']
            refine ⟨by simp only [Table.keys, C16.map_if_keys]; exact wt.1, ?_⟩
            intro p hp
            obtain ⟨q, hq, rfl⟩ := List.mem_map.mp hp
            split
            · simp only [List.length_set]
              exact wt.2 _ (mem_of_lookup _ _ _ h3)
            · exact wt.2 q hq
        · intro i j ci cj n m' l' hci hcj hn hm'
          exact g.noalias i j ci cj n m' l' hci hcj hn hm'
      · rw [if_neg hk, if_neg hk]; exact ⟨g, rfl⟩

/-- non-vacuity and the meaning of liveness: with `t.append_field(2, t[0])` the caller's write through `t[0]` is read
through slot 2 as well; the plain table (handed-in array by value) differs there — sharing is exactly what `Good` excludes -/
example :
    let s0 := runX ⟨[], []⟩ [.base (.new [(0, ⟨.i64, [3, 1, 2]⟩)]), .appendFieldFrom 0 2 0 0]
    let s1 := (stepX s0 (.poke 0 0 1 9)).1
    (viewAt s1 0).toOption.map (·.cols) = some [(0, ⟨.i64, [3, 9, 2]⟩), (2, ⟨.i64, [3, 9, 2]⟩)] ∧
    (stepX s0 (.poke 0 0 5 9)).2 = .error .index ∧ (stepX s0 (.poke 0 7 0 9)).2 = .error .key := by decide

/-- **`set_selection` inside a history with sharing elsewhere.**  Locations may be shared anywhere in the store (`GoodS`);
if the columns of the *target* container sit at pairwise distinct locations that no other container binds, then
`set_selection` on it still refines the plain tables — every other container keeps its table, the target gets the plain-table
result, equal results and errors. (Closes the gap left by `c16_refines_shared`, which excludes every `set_selection`.) -/
theorem c16_setSel_refines_local {s : St} {ts : List Table} (g : GoodS s ts) (c : Nat) (sel : Sel) (d : Nat) (cont : Cont)
    (hcc : s.conts[c]? = some cont) (hl : (cont.fields.map (·.2)).Nodup)
    (hx : ∀ (j : Nat) (dj : Cont) (n m l : Nat), j ≠ c → s.conts[j]? = some dj → (n, l) ∈ cont.fields → (m, l) ∉ dj.fields) :
    GoodS (stepH s (.setSel c sel d)).1 (stepT ts (.setSel c sel d)).1 ∧
    (stepH s (.setSel c sel d)).2 = (stepT ts (.setSel c sel d)).2 := by
  unfold stepH stepT
  rw [view_eqS g, g.len]
  cases hr : tableOp (getT ts) ts.length (.setSel c sel d) with
  | error e => exact ⟨g, rfl⟩
  | ok r =>
    obtain ⟨tgt, u, out⟩ := r
    have ok := tableOp_ok ts g.wf _ tgt u out hr
    have htgt : tgt = .inplace c := by
      simp only [tableOp, bind_ok] at hr
      obtain ⟨t, _, s2, _, srcs, _, cols, _, hr⟩ := hr
      simp only [pure_eq, Except.ok.injEq, Prod.mk.injEq] at hr
      exact hr.1.symm
    subst htgt
    obtain ⟨wfu, t, htc, hprov, hnames, hlen⟩ := ok
    have hc : c < s.conts.length := (List.getElem?_eq_some_iff.mp hcc).1
    have r := g.rep c cont t hcc htc
    have hk : (cont.fields.map (·.1)).Nodup := by rw [r.keys]; exact (g.wf t (List.mem_of_getElem? htc)).1
    obtain ⟨h', fs, hp, hlen', hfr, habs, hloc, hnd⟩ := place_spec cont.fields hk hl u.cols s.heap
      (fun p hp => valid_of_repS r (n := p.1) hp) hprov.1 (by
        intro e he
        have := hprov.2 e he
        unfold EntryOK
        split
        · trivial
        · rename_i o hpe
          rw [hpe] at this
          obtain ⟨l, hl1, hl2⟩ := r.field_of_col this
          exact ⟨l, hl1, hl2⟩
        · rename_i o hpe
          rw [hpe] at this
          have : o ∈ cont.fields.map (·.1) := by rw [r.keys]; exact this
          obtain ⟨p, hp, rfl⟩ := List.mem_map.mp this
          exact ⟨p.2, hp⟩)
    simp only [hcc, hp]
    have hfskeys : fs.map (·.1) = u.cols.map (·.1) := by
      have := congrArg (List.map (·.1)) habs
      simpa [List.map_map, Function.comp_def] using this
    refine ⟨⟨by simp [g.len], ?_, ?_⟩, trivial⟩
    · intro i ci ti hci hti
      by_cases hic : i = c
      · subst hic
        simp only [List.getElem?_set_self hc, Option.some.injEq] at hci
        have hc' : i < ts.length := by rw [← g.len]; exact hc
        simp only [List.getElem?_set_self hc', Option.some.injEq] at hti
        subst hci hti
        refine ⟨?_, ?_, rfl, ?_⟩
        · simp only [Upd.table, List.map_map, Function.comp_def]; exact habs
        · simp only [Upd.table, Table.keys, List.map_map, Function.comp_def]
          rw [r.names]; exact hnames fs hfskeys
        · exact idxUpd_ok cont.idx cont.len u.len _ r.idx (fun h => by rw [hlen h, ← r.len])
      · rw [List.getElem?_set_ne (Ne.symm hic)] at hci hti
        have ri := g.rep i ci ti hci hti
        refine repS_frame ri ?_
        intro n l hm
        refine hfr l (valid_of_repS ri hm) ?_
        intro o _ hmo
        exact hx i ci o n l hic hci hmo hm
    · intro t' ht'
      rcases List.mem_or_eq_of_mem_set ht' with h1 | h1
      · exact g.wf t' h1
      · rw [h1]; exact wfu

/-- non-vacuity: container 0 shares a column with a holder (container 1); `set_selection` on the unrelated container 2 meets
the hypotheses (its own locations 2, 3 are distinct and bound nowhere else) -/
example :
    let s := runX ⟨[], []⟩ [.base (.new [(0, ⟨.i64, [3, 1]⟩)]), .newShared 0 0, .base (.new [(0, ⟨.i64, [5, 6]⟩), (1, ⟨.f32, [7, 8]⟩)])]
    (s.conts.map (·.fields)) = [[(0, 0)], [(0, 0)], [(0, 1), (1, 2)]] ∧
    (stepH s (.setSel 2 (.idx [1, 0]) 2)).2 = .ok .unit := by decide


/-! ## Round 7: the constructor with its options (`Model/StoreR7.lean`, helper lemmas in `Proofs/StoreR7.lean`)

`ctorLoop` mirrors the field loop of `DataFieldRecordArray.__init__` (`keep_fields`, `dtype_conversions`,
`dtype_conversion_except_fields`, `copy`, both length checks, `_len` from the first stored field). -/

/-- Whenever the constructor returns, the new container holds exactly the plain table
`copy(keep_fields)` followed by `convert_dtypes(dtype_conversions, except_fields)` of the input columns (names, order,
dtypes, values), every stored column has length `_len`, and `_len = 0` when no field is stored — for **any** input
(dict with columns of unequal length included), any options. -/
theorem c16_ctor_spec (o : CtorOpts) (length : Nat) (cols : List (Name × Col)) (u : Upd)
    (h : ctorUpd o length cols = .ok u) :
    u.table.cols = ctorSpecCols o cols ∧ (∀ p ∈ u.table.cols, p.2.vals.length = u.len) ∧
    (u.table.cols = [] → u.len = 0) := by
  unfold ctorUpd at h
  cases hl : ctorLoop o length none cols with
  | error e => rw [hl] at h; simp at h
  | ok v =>
    obtain ⟨l', qs⟩ := v
    rw [hl] at h
    obtain ⟨i1, i2, _, i4, _, _⟩ := C16.ctorLoop_spec o length cols none l' qs hl
    have hcols : ∀ (k : Nat), (⟨k, qs⟩ : Upd).table.cols = ctorSpecCols o cols := by
      intro k; simpa [Upd.table] using i1
    cases l' with
    | none =>
      simp only [Except.ok.injEq] at h
      subst h
      refine ⟨hcols 0, ?_, fun _ => rfl⟩
      intro p hp
      simp only [Upd.table, List.mem_map] at hp
      obtain ⟨e, he, rfl⟩ := hp
      exact absurd (i2 e he) (by simp)
    | some k =>
      simp only [Except.ok.injEq] at h
      subst h
      refine ⟨hcols k, ?_, ?_⟩
      · intro p hp
        simp only [Upd.table, List.mem_map] at hp
        obtain ⟨e, he, rfl⟩ := hp
        have := i2 e he
        simp only [Option.some.injEq] at this
        exact this.symm
      · intro hnil
        have : qs = [] := by simpa [Upd.table] using hnil
        exact absurd (i4 this) (by simp)

/-- the keys of the constructor's plain-table reading are a sublist of the input keys -/
theorem C16.ctorSpecCols_keys_sublist (o : CtorOpts) (cols : List (Name × Col)) :
    ((ctorSpecCols o cols).map (·.1)).Sublist (cols.map (·.1)) := by
  unfold ctorSpecCols copyCols
  simp only [List.map_map, Function.comp_def]
  cases o.keep with
  | none => simp
  | some ks => exact (List.filter_sublist (l := cols)).map _

/-- The constructor establishes the table invariant: distinct input names (dict keys / dtype names / a field list
without duplicates) ⇒ the new container is a well-formed plain table (distinct names, all columns of length `_len`). -/
theorem c16_ctor_wf (o : CtorOpts) (length : Nat) (cols : List (Name × Col)) (u : Upd)
    (hnd : (cols.map (·.1)).Nodup) (h : ctorUpd o length cols = .ok u) : WF u.table := by
  obtain ⟨h1, h2, _⟩ := c16_ctor_spec o length cols u h
  refine ⟨?_, h2⟩
  unfold Table.keys
  rw [h1]
  exact (C16.ctorSpecCols_keys_sublist o cols).nodup hnd

/-- Provenance: the new container binds an array object of the input only when `copy=False` **and** the field is not
converted (then it is the input column itself, same name); with `copy=True` every column is a fresh allocation and the
input columns all had the length the accessor reported. -/
theorem c16_ctor_prov (o : CtorOpts) (length : Nat) (cols : List (Name × Col)) (u : Upd)
    (h : ctorUpd o length cols = .ok u) :
    (∀ e ∈ u.cols, e.2.1 = .fresh ∨ (o.copy = false ∧ e.2.1 = .kept e.1 ∧ (e.1, e.2.2) ∈ cols)) ∧
    (o.copy = true → ∀ e ∈ u.cols, e.2.1 = .fresh ∧ e.2.2.vals.length = length) := by
  unfold ctorUpd at h
  cases hl : ctorLoop o length none cols with
  | error e => rw [hl] at h; simp at h
  | ok v =>
    obtain ⟨l', qs⟩ := v
    rw [hl] at h
    obtain ⟨_, _, _, _, i5, i6⟩ := C16.ctorLoop_spec o length cols none l' qs hl
    cases l' <;> (simp only [Except.ok.injEq] at h; subst h; exact ⟨i5, i6⟩)

/-- `DataFieldRecordArray(dfra, keep_fields, dtype_conversions, except_fields)` on a well-formed table is the plain
table `copy(keep)` ; `convert_dtypes` — the same function `tableOp` uses for `.copy` and `.convert` — with the length
rule of `.copy` (0 when no field is kept). -/
theorem c16_ctor_table_eq_copy_convert (o : CtorOpts) (t : Table) (u : Upd) (hwf : WF t)
    (h : ctorTable o t = .ok u) :
    u.table = ⟨if (copyCols o.keep t.cols).isEmpty then 0 else t.len,
               (copyCols o.keep t.cols).map fun p => (p.1, (convertCol o.convs o.exc p).2.2)⟩ := by
  obtain ⟨h1, h2, h3⟩ := c16_ctor_spec o t.len t.cols u h
  have hc : u.table.cols = (copyCols o.keep t.cols).map fun p => (p.1, (convertCol o.convs o.exc p).2.2) := h1
  have hlen : u.table.len = u.len := rfl
  cases hk : copyCols o.keep t.cols with
  | nil =>
    rw [hk] at hc
    have := h3 (by rw [hc]; rfl)
    cases hu : u.table with
    | mk ul uc => rw [hu] at hc hlen; simp at hc hlen ⊢; exact ⟨by omega, hc⟩
  | cons p r =>
    rw [hk] at hc
    have hp : p ∈ t.cols := by
      have : p ∈ copyCols o.keep t.cols := by rw [hk]; exact List.mem_cons_self
      unfold copyCols at this
      cases ho : o.keep with
      | none => rw [ho] at this; exact this
      | some ks => rw [ho] at this; exact (List.mem_filter.mp this).1
    have hl := h2 (p.1, (convertCol o.convs o.exc p).2.2) (by rw [hc]; exact List.mem_cons_self)
    have hcl : (convertCol o.convs o.exc p).2.2.vals.length = p.2.vals.length := by
      unfold convertCol
      by_cases hx : p.1 ∈ o.exc
      · simp [hx]
      · simp only [List.contains_eq_mem, hx, decide_false, Bool.false_eq_true, if_false]
        cases o.convs.lookup p.2.dt <;> simp [castCol]
    have hpl := hwf.2 p hp
    cases hu : u.table with
    | mk ul uc =>
      rw [hu] at hc hlen
      simp only at hc hlen hl
      simp only [List.isEmpty_cons, Bool.false_eq_true, if_false, Table.mk.injEq]
      exact ⟨by rw [hlen, ← hl, hcl, hpl], hc⟩

/-- no error under the stated guard: every kept input column has the reported length and every conversion that
applies is allowed by numpy's `same_kind` rule ⇒ the constructor returns -/
theorem c16_ctor_no_error (o : CtorOpts) (length : Nat) (cols : List (Name × Col))
    (hlen : ∀ p ∈ cols, ctorKept o p.1 = true → p.2.vals.length = length)
    (hkind : ∀ p ∈ cols, ∀ dt, ctorKept o p.1 = true → ctorConv o p = some dt → sameKind p.2.dt dt = true) :
    ∃ u, ctorUpd o length cols = .ok u := by
  have key : ∀ (cols : List (Name × Col)) (l : Option Nat),
      (∀ p ∈ cols, ctorKept o p.1 = true → p.2.vals.length = length) →
      (∀ p ∈ cols, ∀ dt, ctorKept o p.1 = true → ctorConv o p = some dt → sameKind p.2.dt dt = true) →
      (l = none ∨ l = some length) →
      ∃ l' qs, ctorLoop o length l cols = .ok (l', qs) ∧ (l' = none ∨ l' = some length) := by
    intro cols
    induction cols with
    | nil => intro l _ _ hl; exact ⟨l, [], rfl, hl⟩
    | cons p r ih =>
      intro l h1 h2 hl
      have h1r : ∀ q ∈ r, ctorKept o q.1 = true → q.2.vals.length = length :=
        fun q hq => h1 q (List.mem_cons_of_mem _ hq)
      have h2r : ∀ q ∈ r, ∀ dt, ctorKept o q.1 = true → ctorConv o q = some dt → sameKind q.2.dt dt = true :=
        fun q hq => h2 q (List.mem_cons_of_mem _ hq)
      unfold ctorLoop
      by_cases hk : ctorKept o p.1 = true
      · have hpl := h1 p List.mem_cons_self hk
        have hf : ∃ q, ctorField o length l p = .ok (some length, q) := by
          have hlen' : ∀ (q : Name × Prov × Col), q.2.2.vals.length = length →
              ctorLen l q = .ok (some length, q) := by
            intro q hq
            unfold ctorLen
            rcases hl with rfl | rfl
            · simp [hq]
            · simp [hq]
          unfold ctorField
          cases hc : ctorConv o p with
          | some dt =>
            have hs := h2 p List.mem_cons_self dt hk hc
            simp only [hpl, ne_eq, not_true_eq_false, if_false, hs, Bool.not_true, Bool.false_eq_true]
            exact ⟨_, hlen' _ (by simp [castCol, hpl])⟩
          | none =>
            by_cases hcp : o.copy = true
            · simp only [hcp, if_true, hpl, ne_eq, not_true_eq_false, if_false]
              exact ⟨_, hlen' _ hpl⟩
            · simp only [hcp, if_false]
              exact ⟨_, hlen' _ hpl⟩
        obtain ⟨q, hq⟩ := hf
        obtain ⟨l', qs, e1, e2⟩ := ih (some length) h1r h2r (Or.inr rfl)
        refine ⟨l', q :: qs, ?_, e2⟩
        simp only [hk, if_true, hq, e1]
      · obtain ⟨l', qs, e1, e2⟩ := ih l h1r h2r hl
        refine ⟨l', qs, ?_, e2⟩
        simp only [hk, if_false, e1]
        rfl
  obtain ⟨l', qs, e1, _⟩ := key cols none hlen hkind (Or.inl rfl)
  unfold ctorUpd
  rw [e1]
  cases l' with
  | none => exact ⟨_, rfl⟩
  | some k => exact ⟨_, rfl⟩

/-- tie to the current source: with the defaults read from the signature of `DataFieldRecordArray.__init__`
(`Generated/C16.lean`: `keep_fields=None`, no conversions, `copy=True`) the call `DataFieldRecordArray(data)` stores
every input column under its name, unchanged, in a **fresh** array; and `copy(keep_fields)` — the constructor call in
its body with the `copy` flag in effect there (explicit keyword, else the default) — binds only fresh arrays, whatever
`keep_fields` is.  A changed default (`copy=False`, a non-`None` keep list) or a `copy()` that passes `copy=False`
breaks this proof. -/
theorem c16_ctor_defaults_for_current_source (length : Nat) (cols : List (Name × Col)) (u : Upd)
    (h : ctorUpd Gen.C16.ctorDefaults length cols = .ok u) :
    u.table.cols = cols ∧ (∀ e ∈ u.cols, e.2.1 = .fresh) ∧
    (∀ (keep : Option (List Name)) (t : Table) (u' : Upd),
        ctorTable ⟨keep, [], [], Gen.C16.copyEffectiveCopyFlag⟩ t = .ok u' → ∀ e ∈ u'.cols, e.2.1 = .fresh) ∧
    Gen.C16.renameMustExistDefault = false ∧ Gen.C16.copyKeepDefaultIsNone = true := by
  obtain ⟨h1, _, _⟩ := c16_ctor_spec _ length cols u h
  obtain ⟨_, p2⟩ := c16_ctor_prov _ length cols u h
  refine ⟨?_, fun e he => (p2 rfl e he).1, ?_, rfl, rfl⟩
  · rw [h1]
    simp [ctorSpecCols, copyCols, Gen.C16.ctorDefaults, Gen.C16.ctorKeepDefaultIsNone, convertCol]
  · intro keep t u' hu e he
    exact ((c16_ctor_prov _ t.len t.cols u' hu).2 rfl e he).1

/-- non-vacuity: a dict `{0: int64[3,1], 1: float64[5,6], 2: bool[1,0]}`, `keep_fields=[1,0]`, `{float64: float32}`,
`copy=False`: field 0 is the caller's array, field 1 a converted fresh one, field 2 dropped; an `int64 → bool`
conversion raises TypeError (`same_kind`), a kept column of another length ValueError — also when only the *first,
not kept* dict value has the other length and `copy=True` (the accessor's length is that of the first value). -/
example :
    (ctorDict ⟨some [1, 0], [(.f64, .f32)], [], false⟩ [(0, ⟨.i64, [3, 1]⟩), (1, ⟨.f64, [5, 6]⟩), (2, ⟨.b, [1, 0]⟩)]).toOption.map
        (fun u => (u.len, u.cols)) =
      some (2, [(0, .kept 0, ⟨.i64, [3, 1]⟩), (1, .fresh, ⟨.f32, [5, 6]⟩)]) ∧
    (ctorDict ⟨none, [(.i64, .b)], [], true⟩ [(0, ⟨.i64, [3, 1]⟩)]).toOption.isNone = true ∧
    (ctorDict ⟨some [1], [], [], true⟩ [(0, ⟨.i64, [3, 1, 4]⟩), (1, ⟨.f64, [5, 6]⟩)]).toOption.isNone = true ∧
    (ctorDict ⟨some [1], [], [], false⟩ [(0, ⟨.i64, [3, 1, 4]⟩), (1, ⟨.f64, [5, 6]⟩)]).toOption.map (·.len) = some 2 ∧
    (ctorDict ⟨some [], [], [], true⟩ [(0, ⟨.i64, [3, 1, 4]⟩)]).toOption.map (·.len) = some 0 := by decide

/-! ### the constructor as an operation of a history (`stepCtorH` / `stepCtorT`) and `as_numpy_record_array` -/

/-- **Refinement of the constructor with options inside any history**, locations possibly shared (`GoodS`):
`DataFieldRecordArray(conts[d], keep_fields, dtype_conversions, except_fields, copy)` on the heap layer (fields stored
with `copy=False` and no conversion are bound to the *input's* locations) computes the plain table
`copy(keep)` ; `convert_dtypes` of table `d`; same result / same error; a raising call changes nothing; every
existing container and heap cell is untouched. -/
theorem c16_ctor_op_refines {s : St} {ts : List Table} (g : GoodS s ts) (d : Nat) (o : CtorOpts) :
    GoodS (stepCtorH s d o).1 (stepCtorT ts d o).1 ∧ (stepCtorH s d o).2 = (stepCtorT ts d o).2 := by
  unfold stepCtorH stepCtorT getT
  cases hc : s.conts[d]? with
  | none =>
    rw [getElem_none g hc]
    exact ⟨g, rfl⟩
  | some cont =>
    obtain ⟨t, htd, r⟩ := getElem_pair g hc
    have wt : WF t := g.wf t (List.mem_of_getElem? htd)
    simp only [htd, view_of_repS r wt]
    cases hu : ctorTable o t with
    | error e => exact ⟨g, rfl⟩
    | ok u =>
      simp only
      have hk : (cont.fields.map (·.1)).Nodup := by rw [r.keys]; exact wt.1
      have wfu : WF u.table := c16_ctor_wf o t.len t.cols u wt.1 hu
      obtain ⟨hprov, _⟩ := c16_ctor_prov o t.len t.cols u hu
      have hnw : ∀ e ∈ u.cols, wrefOf e.2.1 = none := by
        intro e he
        rcases hprov e he with h1 | ⟨_, h1, _⟩ <;> simp [h1, wrefOf]
      obtain ⟨h', fs, hp, hfr, habs⟩ := place_spec_rebind cont.fields hk u.cols s.heap
        (fun p hp => valid_of_repS r (n := p.1) hp) hnw (by
          intro e he
          unfold EntryOK
          rcases hprov e he with h1 | ⟨_, h1, h2⟩
          · simp [h1]
          · simp only [h1]
            obtain ⟨l, hl1, hl2⟩ := r.field_of_col h2
            exact ⟨l, hl1, hl2⟩)
      simp only [hp]
      have hfskeys : fs.map (·.1) = u.cols.map (·.1) := by
        have := congrArg (List.map (·.1)) habs
        simpa [List.map_map, Function.comp_def] using this
      refine ⟨⟨by simp [g.len], ?_, ?_⟩, by rw [g.len]⟩
      · intro i ci ti hci hti
        by_cases hi : i < s.conts.length
        · rw [List.getElem?_append_left hi] at hci
          rw [List.getElem?_append_left (by rw [← g.len]; exact hi)] at hti
          have ri := g.rep i ci ti hci hti
          exact repS_frame ri (fun n l hm => hfr l (valid_of_repS ri hm))
        · have hi' : i = s.conts.length := by
            have := (List.getElem?_eq_some_iff.mp hci).1
            simp at this; omega
          subst hi'
          simp only [List.getElem?_concat_length, Option.some.injEq] at hci
          rw [g.len, List.getElem?_concat_length, Option.some.injEq] at hti
          subst hci hti
          refine ⟨?_, ?_, rfl, Or.inl rfl⟩
          · simp only [Upd.table, List.map_map, Function.comp_def]; exact habs
          · simp only [Upd.table, Table.keys, List.map_map, Function.comp_def]; exact hfskeys
      · intro t' ht'
        rcases List.mem_append.mp ht' with h1 | h1
        · exact g.wf t' h1
        · simp at h1; rw [h1]; exact wfu

/-- In **any** state (no invariant) the constructor only appends a container: every existing container is still there
unchanged and every existing heap cell keeps its content — neither `copy=False` nor a conversion writes into the
input's arrays. -/
theorem c16_ctor_op_frame (s : St) (d : Nat) (o : CtorOpts) :
    (∀ l, l < s.heap.length → (stepCtorH s d o).1.heap[l]? = s.heap[l]?) ∧
    (∀ i, i < s.conts.length → (stepCtorH s d o).1.conts[i]? = s.conts[i]?) ∧
    ((stepCtorH s d o).2 = .ok (.cont s.conts.length) ∨ ∃ e, (stepCtorH s d o) = (s, .error e)) := by
  unfold stepCtorH
  cases hc : s.conts[d]? with
  | none => exact ⟨fun _ _ => rfl, fun _ _ => rfl, Or.inr ⟨_, rfl⟩⟩
  | some cont =>
    simp only
    cases hv : viewCont s.heap cont with
    | error e => exact ⟨fun _ _ => rfl, fun _ _ => rfl, Or.inr ⟨_, rfl⟩⟩
    | ok t =>
      simp only
      cases hu : ctorTable o t with
      | error e => exact ⟨fun _ _ => rfl, fun _ _ => rfl, Or.inr ⟨_, rfl⟩⟩
      | ok u =>
        simp only
        cases hp : place cont.fields s.heap u.cols with
        | error e => exact ⟨fun _ _ => rfl, fun _ _ => rfl, Or.inr ⟨_, rfl⟩⟩
        | ok v =>
          obtain ⟨h', fs⟩ := v
          simp only
          obtain ⟨hprov, _⟩ := c16_ctor_prov o t.len t.cols u hu
          have hw : wrefs u.cols = [] := wrefs_nil_of (by
            intro e he
            rcases hprov e he with h1 | ⟨_, h1, _⟩ <;> simp [h1, wrefOf])
          refine ⟨?_, ?_, Or.inl trivial⟩
          · intro l hl
            exact place_frame cont.fields u.cols s.heap h' fs hp l hl (by rw [hw]; simp)
          · intro i hi
            exact List.getElem?_append_left hi

/-- `as_numpy_record_array` of a container in a consistent state (locations possibly shared) is the plain table it
represents — field order, dtypes, values, `len(self)` rows; no broadcast and no ValueError can occur. -/
theorem c16_record_array_is_table {s : St} {ts : List Table} (g : GoodS s ts) (i : Nat) (t : Table)
    (ht : ts[i]? = some t) : asRecord s i = .ok t := by
  have hv : viewAt s i = .ok t := by rw [view_eqS g]; simp [getT, ht]
  have wt : WF t := g.wf t (List.mem_of_getElem? ht)
  unfold asRecord
  rw [hv]
  have hm : ∀ (cols : List (Name × Col)), (∀ p ∈ cols, p.2.vals.length = t.len) →
      mapE (recordCol t.len) cols = .ok cols := by
    intro cols
    induction cols with
    | nil => intro _; rfl
    | cons p r ih =>
      intro hl
      have h1 : recordCol t.len p = .ok p := by simp [recordCol, hl p List.mem_cons_self]
      simp only [mapE, h1, ih (fun q hq => hl q (List.mem_cons_of_mem _ hq))]
  simp only [hm t.cols wt.2]

/-- non-vacuity: a history with a constructor call sharing one array with its input, then the record array -/
example :
    let s := (stepCtorH (runH ⟨[], []⟩ [.new [(0, ⟨.i64, [3, 1]⟩), (1, ⟨.f64, [5, 6]⟩)]]) 0
              ⟨some [1, 0], [(.f64, .f32)], [], false⟩).1
    (s.conts.map (·.fields)) = [[(0, 0), (1, 1)], [(0, 0), (1, 2)]] ∧
    asRecord s 1 = .ok ⟨2, [(0, ⟨.i64, [3, 1]⟩), (1, ⟨.f32, [5, 6]⟩)]⟩ := by decide

/-! ### which method maintains which cache

`Model/StoreR7.lean` records which methods of the class assign `_indices`, `_field_name_list`, `_len` directly and which
methods call which on `self` (`idxWritersM` …; regenerated from the ast on every run and reported in the evidence when
the class body no longer has this structure — never a verdict, a rewrite may move a cache update into a helper). -/

/-- The model updates the index cache in no operation whose method neither assigns `self._indices` nor calls a method
that does. -/
theorem c16_idx_writers (op : Op) (idx : Option (List Nat)) (len : Nat)
    (h : writesVia idxWritersM delegatesM (opMethod op) = false) : idxUpd idx len op = idx := by
  cases op <;> first | rfl | (exfalso; simp only [opMethod] at h; revert h; decide)

/-- the same for `_field_name_list` (`append_field`, `remove_field`, `rename_fields` and their callers `__setitem__`, `tidy_up`) -/
theorem c16_names_writers (op : Op) (names : List Name) (fs : List (Name × Loc))
    (h : writesVia namesWritersM delegatesM (opMethod op) = false) : namesUpd names fs op = names := by
  cases op <;> first | rfl | (exfalso; simp only [opMethod] at h; revert h; decide)

/-- `_len`: an in-place operation whose method does not assign `self._len` keeps the length -/
theorem c16_len_writers (ts : List Table) (hwf : ∀ t ∈ ts, WF t) (op : Op) (c : Nat) (u : Upd) (out : Out)
    (h : tableOp (getT ts) ts.length op = .ok (.inplace c, u, out))
    (hw : writesVia lenWritersM delegatesM (opMethod op) = false) :
    ∃ t, ts[c]? = some t ∧ u.len = t.len := by
  obtain ⟨_, t, htc, _, _, hlen⟩ := tableOp_ok ts hwf op (.inplace c) u out h
  refine ⟨t, htc, hlen ?_⟩
  cases op <;> first | trivial | (exfalso; simp only [opMethod] at hw; revert hw; decide)

/-- every method in which an item assignment *into a stored array* (`self._data_fields[f][i] = …`) occurs — directly or
through a method it calls on `self`, per the recorded structure `arrayWritersM` / `delegatesM` — is `set_selection` /
`__setitem__`, the model's only write-through operations (`c16_rebind_ops_frame` covers all others).  (The current
ast lists are evidence only: they depend on private names and syntax.) -/
theorem c16_array_writers (op : Op)
    (h : writesVia arrayWritersM delegatesM (opMethod op) = true) :
    (∃ c sel d, op = .setSel c sel d) ∨ (∃ c n col, op = .setItem c n col) := by
  cases op <;> first | (exfalso; simp only [opMethod] at h; revert h; decide) | exact Or.inl ⟨_, _, _, rfl⟩ | exact Or.inr ⟨_, _, _, rfl⟩

/-- a raising operation changes neither layer in every state reachable from the empty store (hypothesis `Good` of
`c16_error_no_change` discharged by `c16_refines_from_init`) -/
theorem c16_error_no_change_reachable (ops : List Op) (op : Op) (e : Err)
    (h : (stepH (runH ⟨[], []⟩ ops) op).2 = .error e) :
    (stepH (runH ⟨[], []⟩ ops) op).1 = runH ⟨[], []⟩ ops ∧ (stepT (runT [] ops) op).1 = runT [] ops :=
  c16_error_no_change (c16_refines_from_init ops) op e h

/-- **Copies made through the constructor share no memory with their origin**, in any state (no invariant), whatever
`keep_fields` / conversions are: with `copy=True` (the default, and what `copy()` passes on) the new container sits at
new, pairwise distinct locations and no existing heap cell changes. -/
theorem c16_ctor_op_fresh_any (s : St) (d : Nat) (o : CtorOpts) (out : Out) (hc : o.copy = true)
    (h : (stepCtorH s d o).2 = .ok out) :
    ∃ cnew, (stepCtorH s d o).1.conts = s.conts ++ [cnew] ∧ (cnew.fields.map (·.2)).Nodup ∧
      (∀ p ∈ cnew.fields, s.heap.length ≤ p.2) ∧
      ∀ (l : Nat), l < s.heap.length → (stepCtorH s d o).1.heap[l]? = s.heap[l]? := by
  unfold stepCtorH at h ⊢
  cases hcd : s.conts[d]? with
  | none => rw [hcd] at h; cases h
  | some cont =>
    rw [hcd] at h
    simp only at h ⊢
    cases hv : viewCont s.heap cont with
    | error e => rw [hv] at h; cases h
    | ok t =>
      rw [hv] at h
      simp only at h ⊢
      cases hu : ctorTable o t with
      | error e => rw [hu] at h; cases h
      | ok u =>
        simp only
        have hfresh := (c16_ctor_prov o t.len t.cols u hu).2 hc
        have hgen : ∀ (l : PCols), (∀ e ∈ l, e.2.1 = .fresh) → l = l.map (fun x => (x.1, Prov.fresh, x.2.2)) := by
          intro l
          induction l with
          | nil => intro _; rfl
          | cons e r ih =>
            intro hl
            obtain ⟨n, pr, col⟩ := e
            have h1 : pr = .fresh := hl (n, pr, col) List.mem_cons_self
            subst h1
            simp only [List.map_cons]
            rw [← ih (fun e he => hl e (List.mem_cons_of_mem _ he))]
        have hcols : u.cols = freshAll u.table.cols := by
          simp only [freshAll, Upd.table, List.map_map, Function.comp_def]
          exact hgen u.cols (fun e he => (hfresh e he).1)
        obtain ⟨fs, hp, hfs⟩ := C16.place_freshAll cont.fields u.table.cols s.heap
        rw [hcols, hp]
        refine ⟨_, rfl, ?_, ?_, ?_⟩
        · simp only [hfs]; exact List.nodup_range'
        · intro p hp'
          have : p.2 ∈ fs.map (·.2) := List.mem_map.mpr ⟨p, hp', rfl⟩
          rw [hfs] at this
          exact (List.mem_range'_1.mp this).1
        · intro l hl
          exact List.getElem?_append_left hl
